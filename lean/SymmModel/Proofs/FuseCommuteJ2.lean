import SymmModel.Proofs.FuseCommuteJ1

/-!
# C06 — fermionic: free-leg groups fused on BOTH operands before the contraction

`lead_commute_fermi_two`: `lead_commute_fermi` for the left operand of the pair `(a, fuseF(b))`,
`lead_commute_fermi_right` (S5 – one-sided theorem – S5) for the right operand, `fuseF_lead` for the
two fused results, S5 once more to come back to the plain result `c = tensordotF(a, b)`.
-/

namespace SymmModel.TdotP
open SymmModel SymmModel.GradedP SymmModel.Lazy SymmModel.AssocP SymmModel.RoutesP
open SymmModel.Assoc3P SymmModel.Assoc4P

variable {R : Type}

/-- the pre-fused RIGHT operand is admissible (weak guard) -/
theorem admW_fuse_lead_right [AddCommMonoid R] [Mul R] [Neg R] [SignRing R] {a b : Arr R}
    {xa xb : List Nat} (W : AdmW a b xa xb) (k : Nat) (e : Bool) (hk1 : 1 ≤ k) (hk : k ≤ b.ndim)
    (hxb : ∀ x ∈ xb, k ≤ x) :
    AdmW a (FuseP.fusedArrM (FuseP.signAdj b [List.range k]) [List.range k]) xa (xb.map (sh k)) :=
  admW_swap (admW_fuse_lead (admW_swap W) k e hk1 hk hxb)

/-- **fermionic, BOTH operands** (blockwise, weak guard, commutative scalars, distinct labels):
    `aF = fuseF(a, [0 … ka-1])`, `bF = fuseF(b, [0 … kb-1])` (leading free legs of each operand),
    `cPP = tensordotF(aF, bF)`, `cP = tensordotF(a, bF)`, `c = tensordotF(a, b)`,
    `c' = tensordotF(b, a)`.  At an address `(c0a :: restL ++ c0b :: restR)` whose two fused
    positions decode — `c0a` through the table of `aF` AND through the table of
    `fuseF(cP, [0 … ka-1])` (position `c2a`) to `(Sa, Oa)`; `c0b` through the table of `bF` AND
    through the table of `fuseF(c', [0 … kb-1])` (position `c2b`) to `(Sb, Ob)`:
    * `cPP` there = `fuseF(cP, [0 … ka-1])` at `(c2a :: restL ++ c0b :: restR)` (left group fused
      after the contraction);
    * `cP` at `(Sa ++ restL ++ c0b :: restR)` = Koszul sign of the operand exchange times
      `fuseF(c', [0 … kb-1])` at `(c2b :: restR ++ Sa ++ restL)` (right group fused after the
      contraction, on the operand-exchanged result);
    * all together: `cPP` there = fuse sign of the left group × Koszul sign of the exchange ×
      fuse sign of the right group × Koszul sign of the exchange back × the plain result `c` at
      `(Sa ++ restL ++ Sb ++ restR)`. -/
theorem lead_commute_fermi_two [AddCommMonoid R] [Mul R] [Neg R] [SignRing R]
    (hz1 : ∀ x : R, 0 * x = 0) (hz2 : ∀ x : R, x * 0 = 0) (hmul : ∀ x y : R, x * y = y * x)
    (a b c : Arr R) (xa xb : List Nat) (ka kb : Nat) (e : Bool)
    (ha : a.validB = true) (hb : b.validB = true) (hfa : a.fermi = true) (hfb : b.fermi = true)
    (hadm : tdotAdmissibleCommonB a b xa xb = true)
    (hd : (a.oddpos ++ b.oddpos).Pairwise (fun x y => x.1 ≠ y.1))
    (hka1 : 1 ≤ ka) (hka : ka ≤ a.ndim) (hxa : ∀ x ∈ xa, ka ≤ x)
    (hkb1 : 1 ≤ kb) (hkb : kb ≤ b.ndim) (hxb : ∀ x ∈ xb, kb ≤ x)
    (hc : a.tensordotF b (.pair (xa.map Int.ofNat) (xb.map Int.ofNat)) .blockwise = .ok c) :
    a.fuseF [List.range ka] .insert e
        = .ok (FuseP.fusedArrM (FuseP.signAdj a [List.range ka]) [List.range ka])
    ∧ b.fuseF [List.range kb] .insert e
        = .ok (FuseP.fusedArrM (FuseP.signAdj b [List.range kb]) [List.range kb])
    ∧ ∃ c' cP cPP,
      b.tensordotF a (.pair (xb.map Int.ofNat) (xa.map Int.ofNat)) .blockwise = .ok c'
      ∧ a.tensordotF (FuseP.fusedArrM (FuseP.signAdj b [List.range kb]) [List.range kb])
          (.pair (xa.map Int.ofNat) ((xb.map (sh kb)).map Int.ofNat)) .blockwise = .ok cP
      ∧ (FuseP.fusedArrM (FuseP.signAdj a [List.range ka]) [List.range ka]).tensordotF
          (FuseP.fusedArrM (FuseP.signAdj b [List.range kb]) [List.range kb])
          (.pair ((xa.map (sh ka)).map Int.ofNat) ((xb.map (sh kb)).map Int.ofNat)) .blockwise = .ok cPP
      ∧ c'.fuseF [List.range kb] .insert e
          = .ok (FuseP.fusedArrM (FuseP.signAdj c' [List.range kb]) [List.range kb])
      ∧ cP.fuseF [List.range ka] .insert e
          = .ok (FuseP.fusedArrM (FuseP.signAdj cP [List.range ka]) [List.range ka])
      ∧ kb ≤ c'.ndim ∧ ka ≤ cP.ndim
      ∧ c'.oddpos = c.oddpos ∧ c'.charge = c.charge
      ∧ ∀ (c0a c2a c0b c2b : Charge) (i0a d0a i2a d2a i0b d0b i2b d2b : Nat)
          (Sa Sb restL restR : Sector) (Oa Ob orestL orestR shp1 shp2 : List Nat),
        -- the left fused position
        decAx (FuseP.signAdj a [List.range ka]) [List.range ka] 0 c0a i0a = some (Sa, Oa) →
        (FuseP.ixM (FuseP.signAdj a [List.range ka]) [List.range ka] 0).sizeOf? c0a = some d0a →
        i0a < d0a →
        decAx (FuseP.signAdj cP [List.range ka]) [List.range ka] 0 c2a i2a = some (Sa, Oa) →
        (FuseP.ixM (FuseP.signAdj cP [List.range ka]) [List.range ka] 0).sizeOf? c2a = some d2a →
        i2a < d2a →
        -- the right fused position
        decAx (FuseP.signAdj b [List.range kb]) [List.range kb] 0 c0b i0b = some (Sb, Ob) →
        (FuseP.ixM (FuseP.signAdj b [List.range kb]) [List.range kb] 0).sizeOf? c0b = some d0b →
        i0b < d0b →
        decAx (FuseP.signAdj c' [List.range kb]) [List.range kb] 0 c2b i2b = some (Sb, Ob) →
        (FuseP.ixM (FuseP.signAdj c' [List.range kb]) [List.range kb] 0).sizeOf? c2b = some d2b →
        i2b < d2b →
        -- the rest of the address lies inside the tables of `cP` resp. `c'`
        Arr.blockShape? (cP.indices.drop ka) (restL ++ c0b :: restR) = some shp1 →
        inBox shp1 (orestL ++ i0b :: orestR) = true →
        Arr.blockShape? (c'.indices.drop kb) (restR ++ (Sa ++ restL)) = some shp2 →
        inBox shp2 (orestR ++ (Oa ++ orestL)) = true →
        -- lengths
        (Sa ++ restL).length = (freeAxes a.ndim xa).length →
        (Oa ++ orestL).length = (freeAxes a.ndim xa).length →
        restR.length + 1 = (freeAxes (1 + (b.ndim - kb)) (xb.map (sh kb))).length →
        orestR.length = restR.length →
        (Sb ++ restR).length = (freeAxes b.ndim xb).length →
        (Ob ++ orestR).length = (freeAxes b.ndim xb).length →
        -- the addresses lie inside the operands' tables
        inBox (Arr.blockShapeD
            (without (FuseP.fusedArrM (FuseP.signAdj b [List.range kb]) [List.range kb]).indices
                (xb.map (sh kb)) ++ without a.indices xa) ((c0b :: restR) ++ (Sa ++ restL)))
          ((i0b :: orestR) ++ (Oa ++ orestL)) = true →
        inBox (Arr.blockShapeD (without a.indices xa ++ without b.indices xb)
            ((Sa ++ restL) ++ (Sb ++ restR))) ((Oa ++ orestL) ++ (Ob ++ orestR)) = true →
        cPP.elem (c0a :: (restL ++ c0b :: restR)) (i0a :: (orestL ++ i0b :: orestR))
          = (FuseP.fusedArrM (FuseP.signAdj cP [List.range ka]) [List.range ka]).elem
              (c2a :: (restL ++ c0b :: restR)) (i2a :: (orestL ++ i0b :: orestR))
        ∧ cP.elem ((Sa ++ restL) ++ c0b :: restR) ((Oa ++ orestL) ++ i0b :: orestR)
          = sgnI (koszul (((c0b :: restR) ++ (Sa ++ restL)).map a.sym.parity)
                (some ((List.range (Sa ++ restL).length).map ((restR.length + 1) + ·)
                  ++ List.range (restR.length + 1))))
              ((FuseP.fusedArrM (FuseP.signAdj c' [List.range kb]) [List.range kb]).elem
                (c2b :: (restR ++ (Sa ++ restL))) (i2b :: (orestR ++ (Oa ++ orestL))))
        ∧ cPP.elem (c0a :: (restL ++ c0b :: restR)) (i0a :: (orestL ++ i0b :: orestR))
          = sgnI (FuseP.fuseSignT cP [List.range ka] (Sa ++ (restL ++ c0b :: restR)))
             (sgnI (koszul (((c0b :: restR) ++ (Sa ++ restL)).map a.sym.parity)
                (some ((List.range (Sa ++ restL).length).map ((restR.length + 1) + ·)
                  ++ List.range (restR.length + 1))))
              (sgnI (FuseP.fuseSignT c' [List.range kb] (Sb ++ (restR ++ (Sa ++ restL))))
               (sgnI (koszul (((Sa ++ restL) ++ (Sb ++ restR)).map a.sym.parity)
                  (some ((List.range (Sb ++ restR).length).map ((Sa ++ restL).length + ·)
                    ++ List.range (Sa ++ restL).length)))
                (c.elem ((Sa ++ restL) ++ (Sb ++ restR)) ((Oa ++ orestL) ++ (Ob ++ orestR)))))) := by
  have W := AdmW.of ha hb hfa hfb hadm
  obtain ⟨hfuseB, c', hc', s1, s2, s3, s4, sel, hfuseC', hkc', cP, hcP, rel⟩ :=
    lead_commute_fermi_right hz1 hz2 hmul a b c xa xb kb e ha hb hfa hfb hadm hd hkb1 hkb hxb hc
  obtain ⟨_, hvB, _⟩ := fuseF_lead b kb e hb hfb hkb1 hkb
  obtain ⟨fO, fS, fF, fC, nP, iP⟩ := fuse_lead_fields b hb hfb hkb1 hkb
  have WR := admW_fuse_lead_right W kb e hkb1 hkb hxb
  obtain ⟨hfuseA, hfuseCP, hkcp, cPP, hcPP, lel⟩ :=
    lead_commute_fermi hz1 hz2 a _ cP xa (xb.map (sh kb)) ka e ha hvB hfa fF (admB_of_admW WR)
      hka1 hka hxa hcP
  -- validity / kind of `cP` and `c'`
  have vOf : ∀ (x y z : Arr R) (xx xy : List Nat), AdmW x y xx xy →
      x.tensordotF y (.pair (xx.map Int.ofNat) (xy.map Int.ofNat)) .blockwise = .ok z →
      z.validB = true ∧ z.fermi = true := by
    intro x y z xx xy V hz
    refine ⟨(ValidP.validB_iff z).mpr
      (ValidP.tensordotF_valid_of_opposite .blockwise (ValidP.tdotASpec_all .blockwise) x y z xx xy
        ((ValidP.validB_iff x).mp V.va) ((ValidP.validB_iff y).mp V.vb) V.fa V.fb V.sym
        (Assoc3P.opposite_of_commonB V.con) V.nA V.nB V.ltA V.ltB hz), ?_⟩
    have F := coreT_frame_w x y xx xy V
    rw [tensordotF_eq_core_w x y xx xy V] at hz
    cases hm : OddposP.mergeOddpos x.parity x.oddpos y.oddpos with
    | error e' => rw [hm] at hz; cases hz
    | ok r =>
    rw [hm] at hz
    simp only [Except.map, Except.ok.injEq] at hz
    obtain ⟨g1, g2, g3, g4, g5, g6⟩ := finish_fields (coreT x y xx xy) r
    rw [hz] at g3
    exact (g3.trans F.fermi).trans V.fa
  obtain ⟨vcP, fcP⟩ := vOf _ _ _ _ _ WR hcP
  obtain ⟨vc', fc'⟩ := vOf _ _ _ _ _ (admW_swap W) hc'
  obtain ⟨_, _, elP⟩ := fuseF_lead cP ka e vcP fcP hka1 hkcp
  obtain ⟨_, _, elC⟩ := fuseF_lead c' kb e vc' fc' hkb1 hkc'
  refine ⟨hfuseA, hfuseB, c', cP, cPP, hc', hcP, hcPP, hfuseC', hfuseCP, hkc', hkcp, s1, s2, ?_⟩
  intro c0a c2a c0b c2b i0a d0a i2a d2a i0b d0b i2b d2b Sa Sb restL restR Oa Ob orestL orestR shp1 shp2
    a1 a2 a3 a4 a5 a6 b1 b2 b3 b4 b5 b6 hs1 hx1 hs2 hx2 l1 l2 l3 l4 l5 l6 box3 box4
  have E1 := lel c0a c2a i0a d0a i2a d2a Sa (restL ++ c0b :: restR) Oa (orestL ++ i0b :: orestR) shp1
    a1 a2 a3 a4 a5 a6 hs1 hx1
  have E2 := rel c0b c2b i0b d0b i2b d2b Sb restR (Sa ++ restL) Ob orestR (Oa ++ orestL) shp2
    b1 b2 b3 b4 b5 b6 hs2 hx2 l1 l2 l3 l4 box3
  have E3 := elP c2a i2a d2a Sa (restL ++ c0b :: restR) Oa (orestL ++ i0b :: orestR) shp1 a4 a5 a6 hs1 hx1
  have E4 := elC c2b i2b d2b Sb (restR ++ (Sa ++ restL)) Ob (orestR ++ (Oa ++ orestL)) shp2 b4 b5 b6 hs2 hx2
  have E5 := sel (Sa ++ restL) (Sb ++ restR) (Oa ++ orestL) (Ob ++ orestR) l1 l5 l2 l6 box4
  refine ⟨E1, E2, ?_⟩
  rw [E1, E3]
  have e6 : Sa ++ (restL ++ c0b :: restR) = (Sa ++ restL) ++ c0b :: restR := by simp
  have e7 : Oa ++ (orestL ++ i0b :: orestR) = (Oa ++ orestL) ++ i0b :: orestR := by simp
  have e8 : Sb ++ (restR ++ (Sa ++ restL)) = (Sb ++ restR) ++ (Sa ++ restL) := by simp
  have e9 : Ob ++ (orestR ++ (Oa ++ orestL)) = (Ob ++ orestR) ++ (Oa ++ orestL) := by simp
  rw [e7, show cP.elem (Sa ++ (restL ++ c0b :: restR)) = cP.elem ((Sa ++ restL) ++ c0b :: restR) by rw [e6],
    E2, E4, e9,
    show c'.elem (Sb ++ (restR ++ (Sa ++ restL))) = c'.elem ((Sb ++ restR) ++ (Sa ++ restL)) by rw [e8], E5]

end SymmModel.TdotP
