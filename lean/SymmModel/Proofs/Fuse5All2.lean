/-
  SymmModel.Proofs.Fuse5All2 — the fused axes of `fuse a groups` for an array with plain indices
  are exactly the multi-axis groups; hence `unfuseAllF (fuseF a groups) = unfuseGroupsF …`.
-/
import SymmModel.Proofs.Fuse5All
namespace SymmModel
namespace FuseP
set_option linter.unusedSectionVars false
open SymmModel.Lazy

theorem getD_plain {l : List Index} (h : ∀ ix ∈ l, ix.sub = none) (k : Nat) : (l.getD k default).sub = none := by
  rw [List.getD_eq_getElem?_getD]
  cases hk : l[k]? with
  | none => rfl
  | some ix => exact h ix (getElem?_mem' hk)

section
variable {R : Type} [Zero R] {a : Arr R} {groups : List (List Nat)}

/-- which axes of the fused array carry a sub-index table -/
theorem newIdxM_fused_axes (hok : GroupsOk groups a.ndim) (hplain : ∀ ix ∈ a.indices, ix.sub = none)
    (ax : Nat) (ix : Index) (hix : (newIdxM a groups)[ax]? = some ix) :
    ix.sub.isSome = (decide ((giM a groups).position ≤ ax) && multiB groups (ax - (giM a groups).position)) := by
  have hlt : ax < ndimM a groups := by rw [← newIdxM_length hok]; exact getElem?_lt hix
  have hixd : ix = (newIdxM a groups).getD ax default := by
    rw [List.getD_eq_getElem?_getD, hix]; rfl
  simp only [ndimM] at hlt
  by_cases h1 : ax < (giM a groups).position
  · have : decide ((giM a groups).position ≤ ax) = false := by simp; omega
    rw [this, Bool.false_and, hixd, newIdxM_before hok h1, getD_plain hplain]; rfl
  · have hd : decide ((giM a groups).position ≤ ax) = true := by simp; omega
    rw [hd, Bool.true_and]
    obtain ⟨g, rfl⟩ : ∃ g, ax = (giM a groups).position + g := ⟨ax - (giM a groups).position, by omega⟩
    rw [Nat.add_sub_cancel_left]
    by_cases h2 : g < groups.length
    · have hg : groups[g]? = some groups[g] := List.getElem?_eq_getElem h2
      have hixm : ix = ixM a groups g := hixd
      by_cases hlen : (groups[g]).length = 1
      · rw [hixm, ixM_single hok hg hlen, getD_plain hplain]
        simp [multiB, hg, hlen]
      · rw [hixm, ixM_sub hok hg hlen]
        simp [multiB, hg, hlen]
    · obtain ⟨j, rfl⟩ : ∃ j, g = groups.length + j := ⟨g - groups.length, by omega⟩
      have hj : j < (giM a groups).axesAfter.length := by omega
      have := newIdxM_after hok hj
      rw [Nat.add_assoc, ← hixd] at this
      rw [this, getD_plain hplain]
      simp only [multiB]
      rw [List.getElem?_eq_none (by omega)]; rfl

end

section
variable {R : Type} [Zero R] [Neg R] [LawfulNeg R]

/-- **`unfuseAllF ∘ fuseF` = `unfuseGroupsF ∘ fuseF`** for arrays with plain indices -/
theorem unfuseAllF_fuseF_eq (a : Arr R) (groups : List (List Nat)) (e : Bool) (hv : a.validB = true)
    (hf : a.fermi = true) (hok : GroupsOk groups a.ndim) (hplain : ∀ ix ∈ a.indices, ix.sub = none) :
    ∃ y, Arr.fuseF a groups .insert e = .ok y
      ∧ Arr.unfuseAllF y = C05.unfuseGroupsF groups (calcFuseGroupInfo groups a.duals).position y := by
  have hfld := signAdj_fields a groups
  have hnd4 : (signAdj a groups).ndim = a.ndim := by
    show (signAdj a groups).indices.length = a.ndim
    rw [hfld.2.1]; exact permutedM_length hok a.indices rfl
  have hd4 : (signAdj a groups).duals.length = a.duals.length := by
    rw [duals_length, duals_length, hnd4]
  have hok4 : GroupsOk (newGroupsF groups a.duals) (signAdj a groups).ndim := by
    rw [hnd4, ← duals_length]; exact newGroupsF_ok (hokD hok)
  obtain ⟨hpos, _, _⟩ := newGroups_plan (hokD hok) hd4
  have hlen : (newGroupsF groups a.duals).length = groups.length := newGroupsF_length _ _
  obtain ⟨hy, _⟩ := fuseF_elemT a groups e hv hf hok
  have hyV : (fusedArrM (signAdj a groups) (newGroupsF groups a.duals)).validB = true :=
    (ValidP.validB_iff _).2 (ValidP.fuseF_valid a _ groups e ((ValidP.validB_iff a).1 hv) hf
      (admissible_of_groupsOk hok) hy)
  have hyf : (fusedArrM (signAdj a groups) (newGroupsF groups a.duals)).fermi = true := by
    show (signAdj a groups).fermi = true; rw [hfld.2.2.2.1]; exact hf
  have hplain4 : ∀ ix ∈ (signAdj a groups).indices, ix.sub = none := by
    intro ix hix; rw [hfld.2.1] at hix; exact hplain ix (mem_permuted hix)
  refine ⟨_, hy, ?_⟩
  have hposM : (giM (signAdj a groups) (newGroupsF groups a.duals)).position
      = (calcFuseGroupInfo groups a.duals).position := hpos
  apply unfuseAllF_eq_groups groups _ _ hyV hyf
  · show _ ≤ (newIdxM (signAdj a groups) (newGroupsF groups a.duals)).length
    rw [newIdxM_length hok4]; simp only [ndimM, hposM, hlen]; omega
  · intro ax ix hix
    have := newIdxM_fused_axes hok4 hplain4 ax ix hix
    rw [this, hposM]
    congr 1
    exact multiB_newGroupsF groups a.duals _

end

end FuseP
end SymmModel
