/-
  SymmModel.Proofs.DTypeFlowProg — reductions, densification, decompositions, constructors, vectors;
  the step interpreter and programs preserve a uniform dtype (C20b).
-/
import SymmModel.Proofs.DTypeFlowOps
namespace SymmModel.DFlow
open SymmModel DType

instance (d x : DType) : Decidable (Within d x) := inferInstanceAs (Decidable (_ ∨ _))

/-! ### scalars -/

/-- a scalar operand that cannot change a `d` block: Python int / float, Python complex when `d` is
    complex, a numpy scalar of dtype `d` or its real part -/
def ScalarK.okFor (d : DType) : ScalarK → Bool
  | .pyint => true
  | .pyfloat => true
  | .pycomplex => d.isComplex
  | .np e => decide (Within d e)

theorem scalarResult_within {d x : DType} {s : ScalarK} (hs : s.okFor d = true) (hx : Within d x) :
    Within d (scalarResult x s) := by
  cases s with
  | pyint => exact hx
  | pyfloat => exact hx
  | pycomplex =>
    simp only [ScalarK.okFor] at hs
    cases d <;> cases x <;> simp_all [scalarResult, isComplex, Within, realPart, DType.mk, isDouble]
  | np e =>
    simp only [ScalarK.okFor, decide_eq_true_eq] at hs
    exact within_promote hx hs

theorem scalarResult_exact {d : DType} {s : ScalarK} (hs : s.okFor d = true) : scalarResult d s = d := by
  cases s with
  | pyint => rfl
  | pyfloat => rfl
  | pycomplex =>
    simp only [ScalarK.okFor] at hs
    cases d <;> simp_all [scalarResult, isComplex, DType.mk, isDouble]
  | np e =>
    simp only [ScalarK.okFor, decide_eq_true_eq] at hs
    exact promote_within_right hs

/-- a scalar value compatible with `d` -/
def ScalarK.valOK (d : DType) : ScalarK → Prop
  | .pyint => True
  | .pyfloat => True
  | .pycomplex => d.isComplex = true
  | .np e => Within d e

theorem combine_valOK {d : DType} {t s : ScalarK} (ht : t.valOK d) (hs : s.okFor d = true) :
    (t.combine s).valOK d := by
  cases t with
  | np e =>
    simp only [ScalarK.valOK] at ht
    cases s <;> simp only [ScalarK.combine, ScalarK.valOK] <;> exact scalarResult_within hs ht
  | pyint =>
    cases s with
    | np e => simp only [ScalarK.okFor, decide_eq_true_eq] at hs; exact hs
    | pyint => trivial
    | pyfloat => trivial
    | pycomplex => exact hs
  | pyfloat =>
    cases s with
    | np e => simp only [ScalarK.okFor, decide_eq_true_eq] at hs; exact hs
    | pyint => trivial
    | pyfloat => trivial
    | pycomplex => exact hs
  | pycomplex =>
    simp only [ScalarK.valOK] at ht
    cases s with
    | np e =>
      simp only [ScalarK.okFor, decide_eq_true_eq] at hs
      simp only [ScalarK.combine, ScalarK.valOK]
      cases d <;> cases e <;> simp_all [scalarResult, isComplex, Within, realPart, DType.mk, isDouble]
    | pyint => exact ht
    | pyfloat => exact ht
    | pycomplex => exact ht

theorem scalarD_uni {d : DType} {a : DArr} {s : ScalarK} (h : Uni d a.blocks) (hs : s.okFor d = true) :
    Uni d (a.scalarD s).blocks := by
  intro p hp
  obtain ⟨q, hq, rfl⟩ := List.mem_map.mp hp
  simp only [h q hq]
  exact scalarResult_exact hs

theorem vscalarD_uniW {d : DType} {v : DVec} {s : ScalarK} (h : UniW d v.blocks) (hs : s.okFor d = true) :
    UniW d (v.scalarD s).blocks := by
  intro p hp
  obtain ⟨q, hq, rfl⟩ := List.mem_map.mp hp
  exact scalarResult_within hs (h q hq)

/-! ### reductions -/

theorem normD_within {d : DType} {l : List DType} {r : ScalarK} (h : ∀ x ∈ l, Within d x)
    (hr : normD l = .ok r) : r.valOK d := by
  cases l with
  | nil => cases hr
  | cons x xs =>
    simp only [normD] at hr
    rw [← pure_ok hr]
    simp only [ScalarK.valOK]
    have : ∀ (ys : List DType) (acc : DType), (∀ y ∈ ys, Within d y) → Within d acc →
        Within d (ys.foldl (fun acc e => promote acc e.realPart) acc) := by
      intro ys
      induction ys with
      | nil => intro acc _ ha; exact ha
      | cons y ys ih =>
        intro acc hy ha
        simp only [List.foldl_cons]
        exact ih _ (fun z hz => hy z (by simp [hz])) (within_promote ha (within_realPart (hy y (by simp))))
    exact this xs _ (fun y hy => h y (by simp [hy])) (within_realPart (h x (by simp)))

theorem reduceD_within {d : DType} {l : List DType} {r : ScalarK} (h : ∀ x ∈ l, Within d x)
    (hr : reduceD l = .ok r) : r.valOK d := by
  unfold reduceD at hr
  obtain ⟨e, he, h2⟩ := bind_ok_iff.mp hr
  rw [← pure_ok h2]
  exact concatD_within h he

theorem traceD_valOK {d : DType} {a : DArr} {r : ScalarK} (h : Uni d a.blocks) (hr : traceD a = .ok r) :
    r.valOK d := by
  unfold traceD at hr
  split at hr
  · cases hr
  · split at hr
    · cases hr
    · rw [← pure_ok hr]
      have : ∀ (l : DBlocks) (acc : ScalarK), Uni d l → acc.valOK d →
          (l.foldl (fun acc p => acc.combine (.np p.2)) acc).valOK d := by
        intro l
        induction l with
        | nil => intro acc _ ha; exact ha
        | cons p ps ih =>
          intro acc hl ha
          simp only [List.foldl_cons]
          apply ih _ (fun q hq => hl q (by simp [hq]))
          apply combine_valOK ha
          simp only [ScalarK.okFor, decide_eq_true_eq]
          exact Or.inl (hl p (by simp))
      exact this _ _ (uni_filter _ h) trivial

/-! ### densification -/

theorem toDenseRec_uni {d : DType} {a : DArr} (h : Uni d a.blocks) (hex : a.ex = d) :
    ∀ (idx : List Index) (sec : Sector) (r : DType), a.toDenseRec idx sec = .ok r → r = d := by
  intro idx
  induction idx with
  | nil =>
    intro sec r hr
    simp only [DArr.toDenseRec] at hr
    rw [← pure_ok hr]
    split
    · rename_i e hl; exact uni_alookup h hl
    · exact hex
  | cons ix rest ih =>
    intro sec r hr
    simp only [DArr.toDenseRec] at hr
    obtain ⟨ds, hds, h2⟩ := bind_ok_iff.mp hr
    refine concatD_const (d := d) ?_ h2
    intro x hx
    obtain ⟨c, _, hc⟩ := mapM_ok_mem _ _ _ hds x hx
    exact ih _ _ hc

theorem exFlags_defaulted {a : DArr} (h : a.exFlags.defaulted = false) : a.blocks ≠ [] := by
  intro hb
  simp [DArr.exFlags, hb] at h

theorem toDenseD_uni {d : DType} {a : DArr} {r : DType × Flags} (h : Uni d a.blocks)
    (hr : a.toDenseD = .ok r) (hdef : r.2.defaulted = false) :
    r.1 = d ∧ r.2.losesImag = false ∧ r.2.narrows = false := by
  unfold DArr.toDenseD at hr
  obtain ⟨e, he, h2⟩ := bind_ok_iff.mp hr
  have := pure_ok h2
  subst this
  exact ⟨toDenseRec_uni h (ex_of_uni h (exFlags_defaulted hdef)) _ _ _ he, rfl, rfl⟩

theorem foldl_ainsert_const {d : DType} (ms : List Sector) (e : DType) :
    ∀ acc : DBlocks, Uni d acc → (ms = [] ∨ e = d) → Uni d (ms.foldl (fun acc s => ainsert acc s e) acc) := by
  induction ms with
  | nil => intro acc ha _; exact ha
  | cons m ms ih =>
    intro acc ha he
    have hed : e = d := by
      rcases he with he | he
      · cases he
      · exact he
    simp only [List.foldl_cons]
    exact ih _ (uni_ainsert ha hed) (Or.inr hed)

theorem fillMissingD_uni {d : DType} {a : DArr} (h : Uni d a.blocks)
    (hdef : a.fillMissingD.2.defaulted = false) :
    Uni d a.fillMissingD.1.blocks ∧ a.fillMissingD.2.losesImag = false ∧ a.fillMissingD.2.narrows = false := by
  unfold DArr.fillMissingD at hdef ⊢
  simp only at hdef ⊢
  refine ⟨?_, ?_, ?_⟩
  · apply foldl_ainsert_const _ _ _ h
    by_cases hm : (a.skel.genValidSectors.filter (fun s => (alookup a.blocks s).isNone)) = []
    · exact Or.inl hm
    · right
      have : (a.skel.genValidSectors.filter (fun s => (alookup a.blocks s).isNone)).isEmpty = false := by
        cases hl : a.skel.genValidSectors.filter (fun s => (alookup a.blocks s).isNone) with
        | nil => exact absurd hl hm
        | cons _ _ => rfl
      rw [this] at hdef
      exact ex_of_uni h (exFlags_defaulted hdef)
  · split <;> rfl
  · split <;> rfl

/-! ### decompositions -/

theorem uni_adict_map {κ : Type} [BEq κ] {d : DType} {l : DBlocks} (f : Sector × DType → κ) (h : Uni d l) :
    Uni d (adict (l.map (fun p => (f p, p.2)))) := uni_adict (uni_map_key f h)

theorem realVec_uniW {d : DType} {l : DBlocks} (h : Uni d l) :
    UniW d (adict (l.map (fun p => (p.1.getD 1 ((0, 0) : Charge), p.2.realPart)))) := by
  apply uniW_adict
  intro p hp
  obtain ⟨q, hq, rfl⟩ := List.mem_map.mp hp
  simp only [h q hq]
  exact within_real d

theorem realVec_exact {d : DType} {l : DBlocks} (h : Uni d l) :
    Uni d.realPart (adict (l.map (fun p => (p.1.getD 1 ((0, 0) : Charge), p.2.realPart)))) := by
  apply uni_adict
  intro p hp
  obtain ⟨q, hq, rfl⟩ := List.mem_map.mp hp
  simp only [h q hq]

theorem qrD_uni {d : DType} {x : DArr} {r : DArr × DArr} (h : Uni d x.blocks) (hr : qrD x = .ok r) :
    Uni d r.1.blocks ∧ Uni d r.2.blocks := by
  unfold qrD at hr
  split at hr
  · cases hr
  · rw [← pure_ok hr]
    exact ⟨h, uni_adict_map _ h⟩

theorem svdD_uni {d : DType} {x : DArr} {r : DArr × DVec × DArr} (h : Uni d x.blocks) (hr : svdD x = .ok r) :
    Uni d r.1.blocks ∧ Uni d.realPart r.2.1.blocks ∧ Uni d r.2.2.blocks := by
  unfold svdD at hr
  obtain ⟨qr, hqr, h2⟩ := bind_ok_iff.mp hr
  rw [← pure_ok h2]
  obtain ⟨h1, h3⟩ := qrD_uni h hqr
  exact ⟨h1, realVec_exact h, h3⟩

theorem eighD_uni {d : DType} {a : DArr} {r : DVec × DArr} (h : Uni d a.blocks) (hr : eighD a = .ok r) :
    Uni d.realPart r.1.blocks ∧ Uni d r.2.blocks := by
  unfold eighD at hr
  split at hr
  · cases hr
  · split at hr
    · cases hr
    · split at hr
      · cases hr
      · rw [← pure_ok hr]
        exact ⟨realVec_exact h, h⟩

theorem solveD_uni {d : DType} {a b r : DArr} (ha : Uni d a.blocks) (hb : Uni d b.blocks)
    (hr : solveD a b = .ok r) : Uni d r.blocks := by
  unfold solveD at hr
  split at hr
  · cases hr
  · rw [← pure_ok hr]
    apply uni_adict
    intro p hp
    obtain ⟨q, hq, hfq⟩ := List.mem_filterMap.mp hp
    split at hfq
    · rename_i bd hl
      injection hfq with hfq
      rw [← hfq]
      simp only [ha q hq, uni_alookup hb hl, promote_self']
    · cases hfq

theorem uni_real_to_uniW {κ : Type} {d : DType} {l : List (κ × DType)} (h : Uni d.realPart l) : UniW d l :=
  fun p hp => Or.inr (h p hp)

theorem svdTruncatedD_uni {d : DType} {x : DArr} {counts : List Nat} {ab : Absorb}
    {r : DArr × Option DVec × DArr} (h : Uni d x.blocks) (hr : svdTruncatedD x counts ab = .ok r) :
    Uni d r.1.blocks ∧ (∀ s, r.2.1 = some s → Uni d.realPart s.blocks) ∧ Uni d r.2.2.blocks := by
  unfold svdTruncatedD at hr
  obtain ⟨usv, husv, h2⟩ := bind_ok_iff.mp hr
  obtain ⟨hu, hs, hv⟩ := svdD_uni h husv
  simp only at h2
  -- abbreviations for the filtered dicts
  generalize huB : usv.1.blocks.filter _ = uB at h2
  generalize hsB : usv.2.1.blocks.filter _ = sB at h2
  generalize hvB : usv.2.2.blocks.filter _ = vB at h2
  have huB' : Uni d uB := by rw [← huB]; exact uni_filter _ hu
  have hsB' : Uni d.realPart sB := by rw [← hsB]; exact uni_filter _ hs
  have hvB' : Uni d vB := by rw [← hvB]; exact uni_filter _ hv
  have hsOf : ∀ (c : Charge), (match alookup sB c with
      | some sd => promote d sd
      | none => d) = d := by
    intro c
    split
    · rename_i sd hl
      rw [uni_alookup hsB' hl]; exact promote_real_right d
    · rfl
  have huAbs : Uni d (uB.map (fun p => (p.1, (fun e => match alookup sB (p.1.getD 1 (0, 0)) with
      | some sd => promote e sd
      | none => e) p.2))) := by
    intro p hp
    obtain ⟨q, hq, rfl⟩ := List.mem_map.mp hp
    simp only [huB' q hq]
    exact hsOf _
  have hvAbs : Uni d (uB.foldl (fun (acc : DBlocks) p =>
      match alookup acc [p.1.getD 1 (0, 0), p.1.getD 1 (0, 0)] with
      | some e => ainsert acc [p.1.getD 1 (0, 0), p.1.getD 1 (0, 0)]
          ((fun e => match alookup sB (p.1.getD 1 (0, 0)) with
            | some sd => promote e sd
            | none => e) e)
      | none => acc) vB) := by
    have : ∀ (l : DBlocks) (acc : DBlocks), Uni d acc → Uni d (l.foldl (fun (acc : DBlocks) p =>
        match alookup acc [p.1.getD 1 (0, 0), p.1.getD 1 (0, 0)] with
        | some e => ainsert acc [p.1.getD 1 (0, 0), p.1.getD 1 (0, 0)]
            ((fun e => match alookup sB (p.1.getD 1 (0, 0)) with
              | some sd => promote e sd
              | none => e) e)
        | none => acc) acc) := by
      intro l
      induction l with
      | nil => intro acc ha; exact ha
      | cons p ps ih =>
        intro acc ha
        simp only [List.foldl_cons]
        apply ih
        split
        · rename_i e hl
          apply uni_ainsert ha
          rw [uni_alookup ha hl]; exact hsOf _
        · exact ha
    exact this uB vB hvB'
  cases ab <;> simp only at h2 <;> rw [← pure_ok h2]
  · exact ⟨huB', (fun s hs' => by injection hs' with hs'; rw [← hs']; exact hsB'), hvB'⟩
  · exact ⟨huAbs, (fun s hs' => by cases hs'), hvB'⟩
  · exact ⟨huB', (fun s hs' => by cases hs'), hvAbs⟩
  · exact ⟨huAbs, (fun s hs' => by cases hs'), hvAbs⟩

/-! ### constructors -/

theorem ofSkel_uni (r : Arr Unit) (d : DType) : Uni d (ofSkel r d).blocks := by
  intro p hp
  obtain ⟨q, _, rfl⟩ := List.mem_map.mp hp
  rfl

theorem fromFillD_uni {sym : Sym} {fermi : Bool} {indices : List Index} {charge : Option Charge}
    {d : DType} {oddpos : List (Int × Bool)} {r : DArr}
    (hr : fromFillD sym fermi indices charge d oddpos = .ok r) : Uni d r.blocks := by
  unfold fromFillD at hr
  obtain ⟨s, _, h2⟩ := bind_ok_iff.mp hr
  rw [← pure_ok h2]; exact ofSkel_uni s d

theorem fromDenseD_uni {sym : Sym} {fermi : Bool} {shape : List Nat} {d : DType} {maps : List (List Charge)}
    {duals : List Bool} {charge : Option Charge} {oddpos : List (Int × Bool)} {r : DArr}
    (hr : fromDenseD sym fermi shape d maps duals charge oddpos = .ok r) : Uni d r.blocks := by
  unfold fromDenseD at hr
  obtain ⟨s, _, h2⟩ := bind_ok_iff.mp hr
  rw [← pure_ok h2]; exact ofSkel_uni s d

/-! ### vectors -/

theorem vabsD_uniW {d : DType} {v : DVec} (h : UniW d v.blocks) : UniW d v.absD.blocks := by
  intro p hp
  obtain ⟨q, hq, rfl⟩ := List.mem_map.mp hp
  exact within_realPart (h q hq)

theorem mem_insertSorted {α : Type} (lt : α → α → Bool) (a : α) (l : List α) (x : α)
    (h : x ∈ insertSorted lt a l) : x = a ∨ x ∈ l := by
  induction l with
  | nil => simp [insertSorted] at h; exact Or.inl h
  | cons b bs ih =>
    simp only [insertSorted] at h
    split at h
    · rcases List.mem_cons.mp h with rfl | h'
      · right; simp
      · rcases ih h' with h'' | h''
        · exact Or.inl h''
        · right; simp [h'']
    · rcases List.mem_cons.mp h with rfl | h'
      · exact Or.inl rfl
      · right; exact h'

theorem mem_isort {α : Type} (lt : α → α → Bool) (l : List α) (x : α) (h : x ∈ isort lt l) : x ∈ l := by
  induction l with
  | nil => simp [isort] at h
  | cons a as ih =>
    simp only [isort] at h
    rcases mem_insertSorted lt a _ x h with rfl | h'
    · simp
    · simp [ih h']

theorem vtoDenseD_within {d : DType} {v : DVec} {r : DType} (h : UniW d v.blocks)
    (hr : v.toDenseD = .ok r) : Within d r := by
  unfold DVec.toDenseD at hr
  refine concatD_within ?_ hr
  intro x hx
  obtain ⟨p, hp, rfl⟩ := List.mem_map.mp hx
  exact h p (mem_isort _ _ _ hp)

end SymmModel.DFlow
