/-
  SymmModel.Proofs.FuseMulti3 — arbitrary groups, insert strategy: the regions of the stored
  blocks inside the fused blocks are pairwise disjoint; invariant of the fused blocks.
-/
import SymmModel.Proofs.FuseMulti2
namespace SymmModel
namespace FuseP
set_option linter.unusedSectionVars false

variable {R : Type}

section Multi
variable {a : Arr R} {groups : List (List Nat)}

variable (a groups) in
/-- start of a stored block along the axis of group `g` -/
def stM (sb : Sector × Blk R) (g : Nat) : Nat := startM a groups sb ((giM a groups).position + g)

/-- table facts with the start offset the insert strategy uses -/
theorem stored_tableM (hv : ValidArr a) (hok : GroupsOk groups a.ndim) {g : Nat} {gaxes : List Nat}
    (hg : groups[g]? = some gaxes) (hlen : gaxes.length ≠ 1) {sb : Sector × Blk R} (hsb : sb ∈ a.blocks) :
    ∃ e D, alookup (extsM a groups g) (cM (a := a) (groups := groups) sb g) = some e
      ∧ startOf e (ssM (a := a) (groups := groups) sb g)
          = some (stM a groups sb g, dM (a := a) (groups := groups) sb g)
      ∧ (ixM a groups g).sizeOf? (cM (a := a) (groups := groups) sb g) = some D
      ∧ sumN (e.map (·.2)) = D ∧ DM a groups sb g = D := by
  obtain ⟨e, D, st, h1, h2, h3, h4⟩ := stored_in_tableM hv hok hg hlen hsb
  have hgl := getElem?_lt hg
  have hm : multiB groups g = true := multiB_iff.2 ⟨gaxes, hg, hlen⟩
  have : stM a groups sb g = st := by
    simp only [stM, startM, axMulti_mid hgl, hm, if_true, Nat.add_sub_cancel_left, h1, Option.getD_some, h2]
  rw [this]
  exact ⟨e, D, h1, h2, h3, h4, by simp [DM, h3]⟩

theorem startsM_getD (sb : Sector × Blk R) {ax : Nat} (h : ax < ndimM a groups) :
    (startsM a groups sb).getD ax 0 = startM a groups sb ax := by
  simp only [startsM]; exact rangeMap_getD h

theorem BshM_getD (sb : Sector × Blk R) {ax : Nat} (h : ax < ndimM a groups) :
    (BshM a groups sb).getD ax 0 = if axMulti a groups ax then DM a groups sb (ax - (giM a groups).position)
      else (planM a groups sb).newShape.getD ax 0 := by
  simp only [BshM]; exact rangeMap_getD h

theorem axMulti_cases {ax : Nat} (h : axMulti a groups ax = true) :
    ∃ g, g < groups.length ∧ ax = (giM a groups).position + g ∧ multiB groups g = true := by
  simp only [axMulti, Bool.and_eq_true, decide_eq_true_eq] at h
  exact ⟨ax - (giM a groups).position, by omega, by omega, h.2⟩

/-- the region of a stored block inside its fused block: a range on every multi-axis group axis,
    everything on the other axes -/
theorem regionM (hok : GroupsOk groups a.ndim) (sb : Sector × Blk R) {i : List Nat}
    (hi : inBox (BshM a groups sb) i = true) :
    inRegion (startsM a groups sb) (planM a groups sb).newShape i = true
      ↔ ∀ g, g < groups.length → multiB groups g = true →
          stM a groups sb g ≤ i.getD ((giM a groups).position + g) 0
          ∧ i.getD ((giM a groups).position + g) 0 < stM a groups sb g + dM (a := a) (groups := groups) sb g := by
  have hb := inBox_iff.1 hi
  rw [BshM_length] at hb
  rw [inRegion_iff (n := ndimM a groups) hb.1 (by simp [startsM]) (planM_newShape_length hok sb)]
  constructor
  · intro h g hg hm
    have := h ((giM a groups).position + g) (by simp only [ndimM]; omega)
    rw [startsM_getD sb (by simp only [ndimM]; omega)] at this
    exact this
  · intro h ax hax
    rw [startsM_getD sb hax]
    by_cases hm : axMulti a groups ax = true
    · obtain ⟨g, hg, rfl, hmg⟩ := axMulti_cases hm
      exact h g hg hmg
    · have hm' : axMulti a groups ax = false := by simpa using hm
      have := hb.2 ax hax
      rw [BshM_getD sb hax] at this
      simp only [hm', Bool.false_eq_true, if_false] at this
      simp only [startM, hm', Bool.false_eq_true, if_false, Nat.zero_le, Nat.zero_add, true_and]
      exact this

/-! ### two stored sectors in the same fused block differ in some multi-axis sub-sector -/

theorem permM_sector_ext (hv : ValidArr a) (hok : GroupsOk groups a.ndim) {x y : Sector × Blk R}
    (hx : x ∈ a.blocks) (hy : y ∈ a.blocks)
    (hns : (planM a groups x).newSector = (planM a groups y).newSector)
    (hss : ∀ g, g < groups.length → multiB groups g = true →
      ssM (a := a) (groups := groups) x g = ssM (a := a) (groups := groups) y g) : x.1 = y.1 := by
  apply sector_ext (hv.blk x hx).1 (hv.blk y hy).1 (perm := (giM a groups).perm)
  · intro ax hax; rw [mem_perm (hokD hok), duals_length]; exact hax
  · intro ax hax
    rw [perm_eq] at hax
    simp only [List.mem_append] at hax
    rcases hax with (hax | hax) | hax
    · rw [axesBefore_eq (hokD hok)] at hax
      simp only [List.mem_range] at hax
      have h1 := planOf_newSector_before a.sym a.indices groups x.1 x.2.shape a.duals (hokD hok) hax
      have h2 := planOf_newSector_before a.sym a.indices groups y.1 y.2.shape a.duals (hokD hok) hax
      have h1' : (planM a groups x).newSector.getD ax (0, 0) = x.1.getD ax (0, 0) := h1
      have h2' : (planM a groups y).newSector.getD ax (0, 0) = y.1.getD ax (0, 0) := h2
      rw [← h1', ← h2', hns]
    · obtain ⟨gaxes, hgm, haxg⟩ := List.mem_flatten.1 hax
      obtain ⟨g, hg, rfl⟩ := List.mem_iff_getElem.1 hgm
      have hgg : groups[g]? = some groups[g] := List.getElem?_eq_getElem hg
      by_cases hlen : groups[g].length = 1
      · have h1 := cM_single (a := a) hok hgg hlen x
        have h2 := cM_single (a := a) hok hgg hlen y
        have hax' : groups[g].headD 0 = ax := by
          match hgx : groups[g], hlen with
          | [ax'], _ => rw [hgx] at haxg; simp at haxg; simp [haxg]
        rw [hax'] at h1 h2
        rw [← h1, ← h2]; simp only [cM, hns]
      · have hm : multiB groups g = true := multiB_iff.2 ⟨_, hgg, hlen⟩
        have := hss g hg hm
        rw [ssM_eq hgg, ssM_eq hgg] at this
        exact List.map_inj_left.1 this ax haxg
    · obtain ⟨j, hj, rfl⟩ := List.mem_iff_getElem.1 hax
      have hjd : (giM a groups).axesAfter.getD j 0 = (giM a groups).axesAfter[j] := by
        simp [List.getD_eq_getElem?_getD, List.getElem?_eq_getElem hj]
      have h1 := planOf_newSector_after a.sym a.indices groups x.1 x.2.shape a.duals (hokD hok) hj
      have h2 := planOf_newSector_after a.sym a.indices groups y.1 y.2.shape a.duals (hokD hok) hj
      have h1' : (planM a groups x).newSector.getD ((giM a groups).position + groups.length + j) (0, 0)
          = x.1.getD ((giM a groups).axesAfter.getD j 0) (0, 0) := h1
      have h2' : (planM a groups y).newSector.getD ((giM a groups).position + groups.length + j) (0, 0)
          = y.1.getD ((giM a groups).axesAfter.getD j 0) (0, 0) := h2
      rw [← hjd, ← h1', ← h2', hns]

variable [Zero R]

theorem itemsM_disj (hv : ValidArr a) (hok : GroupsOk groups a.ndim) :
    (a.blocks.map (toItemM a groups)).Pairwise (Disj (shapeOfM a groups)) := by
  rw [List.pairwise_map]
  have hnd : a.blocks.Pairwise (fun x y => x.1 ≠ y.1) := by
    have := hv.nodup
    rwa [List.Nodup, List.pairwise_map] at this
  apply List.Pairwise.imp_of_mem _ hnd
  intro x y hx hy hne hkey i hi hrx hry
  have hkey' : (planM a groups x).newSector = (planM a groups y).newSector := hkey
  have hix : inBox (BshM a groups x) i = true := by
    have : shapeOfM a groups (planM a groups x).newSector = BshM a groups x := by
      simp [shapeOfM, shape_storedM hv hok hx]
    rw [← this]; exact hi
  have hiy : inBox (BshM a groups y) i = true := by
    have : shapeOfM a groups (planM a groups y).newSector = BshM a groups y := by
      simp [shapeOfM, shape_storedM hv hok hy]
    rw [← this, ← hkey']; exact hi
  have hrx' := (regionM hok x hix).1 hrx
  have hry' := (regionM hok y hiy).1 hry
  -- some multi-axis group separates the two sectors
  by_cases hall : ∀ g, g < groups.length → multiB groups g = true →
      ssM (a := a) (groups := groups) x g = ssM (a := a) (groups := groups) y g
  · exact hne (permM_sector_ext hv hok hx hy hkey' hall)
  · simp only [not_forall] at hall
    obtain ⟨g, hg, hm, hss⟩ := hall
    obtain ⟨gaxes, hgg, hlen⟩ := multiB_iff.1 hm
    obtain ⟨e, D, h1, h2, _, _, _⟩ := stored_tableM hv hok hgg hlen hx
    obtain ⟨e', D', h1', h2', _, _, _⟩ := stored_tableM hv hok hgg hlen hy
    have hc : cM (a := a) (groups := groups) x g = cM (a := a) (groups := groups) y g := by
      simp only [cM, hkey']
    rw [← hc, h1] at h1'
    simp only [Option.some.injEq] at h1'; subst h1'
    have hdis := startOf_disjoint h2 h2' hss
    have r1 := hrx' g hg hm
    have r2 := hry' g hg hm
    omega

variable (a groups) in
/-- the blocks of the fused array (insert strategy) -/
def fusedBlocksM : List (Sector × Blk R) := insFold (shapeOfM a groups) (a.blocks.map (toItemM a groups))

theorem fusedBlocksM_inv (hv : ValidArr a) (hok : GroupsOk groups a.ndim) :
    InsInv (shapeOfM a groups) (a.blocks.map (toItemM a groups)) (fusedBlocksM a groups) :=
  insFold_inv _ _ (itemsM_disj hv hok)

variable (a groups) in
/-- the fused array -/
def fusedArrM : Arr R := { a with indices := newIdxM a groups, blocks := fusedBlocksM a groups }

theorem fuseCore_multi_eq (hv : ValidArr a) (hok : GroupsOk groups a.ndim) :
    fuseCore a groups .insert = .ok (fusedArrM a groups) := by
  unfold fuseCore
  rw [calcFuseBlockInfo_eq hv hok]
  simp only [bind, Except.bind, fuseInsert_multi_eq hv hok, pure, Except.pure]
  rfl

/-- every block of the fused array is the fused block of some stored sector -/
theorem fusedBlockM_info (hv : ValidArr a) (hok : GroupsOk groups a.ndim) {ns : Sector} {B : Blk R}
    (h : alookup (fusedBlocksM a groups) ns = some B) :
    ∃ sb0 ∈ a.blocks, (planM a groups sb0).newSector = ns ∧ B.shape = BshM a groups sb0 := by
  have hinv := fusedBlocksM_inv hv hok
  have hk : ns ∈ (a.blocks.map (toItemM a groups)).map (·.1) :=
    (hinv.keys ns).1 (List.mem_map.2 ⟨_, alookup_some_mem h, rfl⟩)
  simp only [List.map_map, List.mem_map, Function.comp] at hk
  obtain ⟨sb0, hsb0, hns⟩ := hk
  have hns' : (planM a groups sb0).newSector = ns := hns
  refine ⟨sb0, hsb0, hns', ?_⟩
  rw [hinv.shape ns B h, ← hns']
  simp [shapeOfM, shape_storedM hv hok hsb0]

theorem fusedBlockM_exists (hv : ValidArr a) (hok : GroupsOk groups a.ndim) {sb : Sector × Blk R}
    (hsb : sb ∈ a.blocks) :
    ∃ B, alookup (fusedBlocksM a groups) (planM a groups sb).newSector = some B ∧ B.shape = BshM a groups sb := by
  have hinv := fusedBlocksM_inv hv hok
  have hkey : (planM a groups sb).newSector ∈ (fusedBlocksM a groups).map (·.1) := by
    rw [hinv.keys]; simp only [List.map_map]; exact List.mem_map.2 ⟨sb, hsb, rfl⟩
  obtain ⟨B, hB⟩ := Option.isSome_iff_exists.1 (alookup_isSome_iff.2 hkey)
  refine ⟨B, hB, ?_⟩
  rw [hinv.shape _ B hB]
  simp [shapeOfM, shape_storedM hv hok hsb]

end Multi

end FuseP
end SymmModel
