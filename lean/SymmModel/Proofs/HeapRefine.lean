/-
  SymmModel.Proofs.HeapRefine — the heap programs compute a pure function of the target's abstract
  content (`Op.refines_pure` of DESIGN §5 C14), used for `inplace_same_value`.

  `Act.pure` / `Script.pure` are the value-level meaning of the in-place effects: they act on
  `Content × buffer table` and know nothing about object identity.  `runAct_refines` /
  `script_refines` show that, on a well-formed array object, the heap effects change the object's
  abstract content exactly as the pure function says, wherever the object lives in the heap.
-/
import SymmModel.Proofs.HeapLemmas
namespace SymmModel.Heap

abbrev Bufs := List (Nat × List BufId)
abbrev PState := Content × Bufs

/-! ### value-level meaning of the effects -/

def buildEntriesP (bufs : Bufs) : List (Key × BufSrc) → Bufs × Dict
  | [] => (bufs, [])
  | (k, .old b) :: r => ((buildEntriesP bufs r).1, (k, (b : Int)) :: (buildEntriesP bufs r).2)
  | (k, .kern tag args) :: r =>
    ((buildEntriesP (bufs ++ [(tag, args)]) r).1,
     (k, (bufs.length : Int)) :: (buildEntriesP (bufs ++ [(tag, args)]) r).2)

def buildDictP (bufs : Bufs) (es : List (Key × BufSrc)) : Bufs × Dict :=
  ((buildEntriesP bufs es).1, (buildEntriesP bufs es).2.foldl (fun acc e => acc.set e.1 e.2) [])

/-- `modify(phases=d)` replaces the signs of an array that has a sign dict -/
def newPd (mp pd : Option Dict) : Option Dict :=
  match mp, pd with
  | some d, some _ => some d
  | _, _ => pd

def modifyP (m : Mods) (s : PState) : PState :=
  let qb : Bufs × Option Dict := match m.blocks with
    | some es => ((buildDictP s.2 es).1, some (buildDictP s.2 es).2)
    | none => (s.2, none)
  let np : Option Dict := newPd m.phases s.1.phases
  ({ indices := m.indices.getD s.1.indices, charge := m.charge.getD s.1.charge,
     blocks := qb.2.getD s.1.blocks, phases := np, oddpos := s.1.oddpos }, qb.1)

def Act.pure (a : Act) (s : PState) : PState :=
  match a with
  | .modify m => modifyP m s
  | .setOddpos v => ({ s.1 with oddpos := v }, s.2)
  | .bKern k tag args => ({ s.1 with blocks := s.1.blocks.set k (s.2.length : Int) }, s.2 ++ [(tag, args)])
  | .bPut k b => ({ s.1 with blocks := s.1.blocks.set k (b : Int) }, s.2)
  | .bPop k => ({ s.1 with blocks := s.1.blocks.pop k }, s.2)
  | .bUpdate src => ({ s.1 with blocks := s.1.blocks.update src }, s.2)
  | .pSet k v => ({ s.1 with phases := s.1.phases.map (fun l => l.set k v) }, s.2)
  | .pPop k => ({ s.1 with phases := s.1.phases.map (fun l => l.pop k) }, s.2)
  | .pPopItem => ({ s.1 with phases := s.1.phases.map Dict.popItem }, s.2)
  | .pClear => ({ s.1 with phases := s.1.phases.map (fun _ => []) }, s.2)
  | .pCopyThen f => ({ s.1 with phases := s.1.phases.map f }, s.2)

/-- a script that looks at nothing but its target -/
def Script.pure : Script → PState → PState
  | .nil, s => s
  | .acts as k, s => k.pure (as.foldl (fun s a => a.pure s) s)
  | .read f, s => (f s.1 []).pure s

/-! ### well-formed array objects -/

/-- `x` is an array object `a` whose block dict holds `bd` and whose sign dict (a different object)
    holds `pd` -/
structure WFArr (h : Heap) (x : ObjId) (a : ArrObj) (bd : Dict) (pd : Option Dict) : Prop where
  arr : h.get? x = some (.arr a)
  blk : h.get? a.blocks = some (.dict bd)
  ph : ∀ p, a.phases = some p → ∃ d, pd = some d ∧ h.get? p = some (.dict d) ∧ p ≠ a.blocks
  phn : a.phases = none → pd = none

def cont (a : ArrObj) (bd : Dict) (pd : Option Dict) : Content := ⟨a.indices, a.charge, bd, pd, a.oddpos⟩

theorem dictOf_of_get? {h : Heap} {d : DictId} {l : Dict} (hd : h.get? d = some (.dict l)) : h.dictOf d = l := by
  simp [Heap.dictOf, Heap.dictOf?, hd]

theorem WFArr.content {h : Heap} {x : ObjId} {a : ArrObj} {bd : Dict} {pd : Option Dict}
    (w : WFArr h x a bd pd) : content h x = some (cont a bd pd) := by
  simp only [Heap.content, arrOf_eq_some.mpr w.arr, cont, dictOf_of_get? w.blk]
  cases hp : a.phases with
  | none => simp [w.phn hp]
  | some p =>
    obtain ⟨d, rfl, hd, _⟩ := w.ph p hp
    simp [dictOf_of_get? hd]

theorem WFArr.ne {h : Heap} {x : ObjId} {a : ArrObj} {bd : Dict} {pd : Option Dict}
    (w : WFArr h x a bd pd) : a.blocks ≠ x := by
  intro e; have := w.blk; rw [e, w.arr] at this; cases this

theorem WFArr.ne_ph {h : Heap} {x : ObjId} {a : ArrObj} {bd : Dict} {pd : Option Dict}
    (w : WFArr h x a bd pd) {p : DictId} (hp : a.phases = some p) : p ≠ x := by
  intro e
  obtain ⟨d, _, hd, _⟩ := w.ph p hp
  rw [e, w.arr] at hd; cases hd

theorem get?_updDict_self {h : Heap} {d : DictId} {l : Dict} (hd : h.get? d = some (.dict l)) (f : Dict → Dict) :
    (updDict h d f).get? d = some (.dict (f l)) := by
  unfold updDict; rw [hd]; exact write_get?_eq h _ (get?_lt hd)

theorem get?_updDict_ne (h : Heap) {d i : ObjId} (hne : d ≠ i) (f : Dict → Dict) :
    (updDict h d f).get? i = h.get? i := by
  unfold updDict; split
  · exact write_get?_ne h _ hne
  · rfl

theorem get?_rebindField_self {h : Heap} {x : ObjId} {a : ArrObj} (hx : h.get? x = some (.arr a)) (f : Field) :
    (rebindField h x f).get? x = some (.arr (f.apply a)) := by
  unfold rebindField; rw [hx]; exact write_get?_eq h _ (get?_lt hx)

theorem get?_rebindField_ne (h : Heap) {x i : ObjId} (hne : x ≠ i) (f : Field) :
    (rebindField h x f).get? i = h.get? i := by
  unfold rebindField; split
  · exact write_get?_ne h _ hne
  · rfl

/-- `self._blocks[…] = …`, `del`, `.update`: the block dict object is mutated in place -/
theorem wf_updBlocks {h : Heap} {x : ObjId} {a : ArrObj} {bd : Dict} {pd : Option Dict}
    (w : WFArr h x a bd pd) (f : Dict → Dict) : WFArr (updDict h a.blocks f) x a (f bd) pd := by
  refine ⟨?_, get?_updDict_self w.blk f, ?_, w.phn⟩
  · rw [get?_updDict_ne h w.ne]; exact w.arr
  · intro p hp
    obtain ⟨d, e, hd, hne⟩ := w.ph p hp
    exact ⟨d, e, by rw [get?_updDict_ne h (Ne.symm hne)]; exact hd, hne⟩

/-- the sign dict object is mutated in place -/
theorem wf_updPhases {h : Heap} {x : ObjId} {a : ArrObj} {bd : Dict} {d : Dict} {p : DictId}
    (w : WFArr h x a bd (some d)) (hp : a.phases = some p) (f : Dict → Dict) :
    WFArr (updDict h p f) x a bd (some (f d)) := by
  obtain ⟨d', e, hd, hne⟩ := w.ph p hp
  cases e
  refine ⟨?_, ?_, ?_, fun hn => by rw [hn] at hp; cases hp⟩
  · rw [get?_updDict_ne h (w.ne_ph hp)]; exact w.arr
  · rw [get?_updDict_ne h hne]; exact w.blk
  · intro q hq
    rw [hp] at hq; cases hq
    exact ⟨f d, rfl, get?_updDict_self hd f, hne⟩

theorem wf_objs {h h' : Heap} (e : h'.objs = h.objs) {x : ObjId} {a : ArrObj} {bd : Dict} {pd : Option Dict}
    (w : WFArr h x a bd pd) : WFArr h' x a bd pd := by
  have hg : ∀ i, h'.get? i = h.get? i := fun i => by simp [Heap.get?, e]
  exact ⟨by rw [hg]; exact w.arr, by rw [hg]; exact w.blk,
    fun p hp => let ⟨d, e1, hd, hne⟩ := w.ph p hp; ⟨d, e1, by rw [hg]; exact hd, hne⟩, w.phn⟩

theorem wf_ext {h h' : Heap} (e : Ext h h') {x : ObjId} {a : ArrObj} {bd : Dict} {pd : Option Dict}
    (w : WFArr h x a bd pd) : WFArr h' x a bd pd :=
  ⟨by rw [e.get? (get?_lt w.arr)]; exact w.arr, by rw [e.get? (get?_lt w.blk)]; exact w.blk,
   fun p hp => let ⟨d, e1, hd, hne⟩ := w.ph p hp; ⟨d, e1, by rw [e.get? (get?_lt hd)]; exact hd, hne⟩, w.phn⟩

/-- rebinding a slot that holds an immutable value -/
theorem wf_rebind_scalar {h : Heap} {x : ObjId} {a : ArrObj} {bd : Dict} {pd : Option Dict}
    (w : WFArr h x a bd pd) (f : Field) (hb : (f.apply a).blocks = a.blocks) (hp : (f.apply a).phases = a.phases) :
    WFArr (rebindField h x f) x (f.apply a) bd pd := by
  refine ⟨get?_rebindField_self w.arr f, ?_, ?_, ?_⟩
  · rw [hb, get?_rebindField_ne h (Ne.symm w.ne)]; exact w.blk
  · intro p hq
    rw [hp] at hq
    obtain ⟨d, e1, hd, hne⟩ := w.ph p hq
    exact ⟨d, e1, by rw [get?_rebindField_ne h (Ne.symm (w.ne_ph hq))]; exact hd, by rw [hb]; exact hne⟩
  · intro hn; rw [hp] at hn; exact w.phn hn

/-- `self._blocks = d` for a dict `d` distinct from the sign dict -/
theorem wf_rebind_blocks {h : Heap} {x : ObjId} {a : ArrObj} {bd : Dict} {pd : Option Dict}
    (w : WFArr h x a bd pd) {d : DictId} {l : Dict} (hd : h.get? d = some (.dict l))
    (hne : ∀ p, a.phases = some p → p ≠ d) :
    WFArr (rebindField h x (.blocks d)) x { a with blocks := d } l pd := by
  have hdx : x ≠ d := by intro e; rw [← e, w.arr] at hd; cases hd
  refine ⟨get?_rebindField_self w.arr _, ?_, ?_, w.phn⟩
  · show (rebindField h x (.blocks d)).get? d = _
    rw [get?_rebindField_ne h hdx]; exact hd
  · intro p hp
    obtain ⟨d', e1, hd', _⟩ := w.ph p hp
    exact ⟨d', e1, by rw [get?_rebindField_ne h (Ne.symm (w.ne_ph hp))]; exact hd', hne p hp⟩

/-- `self._phases = d` for a dict `d` distinct from the block dict -/
theorem wf_rebind_phases {h : Heap} {x : ObjId} {a : ArrObj} {bd : Dict} {pd : Option Dict}
    (w : WFArr h x a bd pd) {d : DictId} {l : Dict} (hd : h.get? d = some (.dict l)) (hne : d ≠ a.blocks) :
    WFArr (rebindField h x (.phases d)) x { a with phases := some d } bd (some l) := by
  have hdx : x ≠ d := by intro e; rw [← e, w.arr] at hd; cases hd
  refine ⟨get?_rebindField_self w.arr _, ?_, ?_, fun hn => by cases hn⟩
  · show (rebindField h x (.phases d)).get? a.blocks = _
    rw [get?_rebindField_ne h (Ne.symm w.ne)]; exact w.blk
  · intro p hp
    cases hp
    exact ⟨l, rfl, by rw [get?_rebindField_ne h hdx]; exact hd, hne⟩

/-- mutating a dict object the array does not point to -/
theorem wf_updOther {h : Heap} {x : ObjId} {a : ArrObj} {bd : Dict} {pd : Option Dict}
    (w : WFArr h x a bd pd) {d : DictId} (h1 : d ≠ x) (h2 : d ≠ a.blocks)
    (h3 : ∀ p, a.phases = some p → d ≠ p) (f : Dict → Dict) : WFArr (updDict h d f) x a bd pd :=
  ⟨by rw [get?_updDict_ne h h1]; exact w.arr, by rw [get?_updDict_ne h h2]; exact w.blk,
   fun p hp => let ⟨d', e1, hd, hne⟩ := w.ph p hp
     ⟨d', e1, by rw [get?_updDict_ne h (h3 p hp)]; exact hd, hne⟩, w.phn⟩

theorem onPhases_refines {h : Heap} {x : ObjId} {a : ArrObj} {bd : Dict} {pd : Option Dict}
    (w : WFArr h x a bd pd) (f : Dict → Dict) :
    ∃ pd', WFArr (onPhases h a (fun p => updDict h p f)) x a bd pd' ∧ pd' = pd.map f ∧
      (onPhases h a (fun p => updDict h p f)).bufs = h.bufs := by
  unfold onPhases
  cases hp : a.phases with
  | none => exact ⟨pd, w, by rw [w.phn hp]; rfl, rfl⟩
  | some p =>
    obtain ⟨d, rfl, _, _⟩ := w.ph p hp
    exact ⟨some (f d), wf_updPhases w hp f, rfl, updDict_bufs _ _ _⟩

/-! ### `modify` -/

def optRebind (h : Heap) (x : ObjId) (o : Option Field) : Heap :=
  match o with | some f => rebindField h x f | none => h

theorem rebinds_append (h : Heap) (x : ObjId) (l1 l2 : List Field) :
    rebinds h x (l1 ++ l2) = rebinds (rebinds h x l1) x l2 := by simp [rebinds, List.foldl_append]

theorem rebinds_opt (h : Heap) (x : ObjId) (o : Option Field) : rebinds h x o.toList = optRebind h x o := by
  cases o <;> rfl

theorem optRebind_bufs (h : Heap) (x : ObjId) (o : Option Field) : (optRebind h x o).bufs = h.bufs := by
  cases o with
  | none => rfl
  | some f => exact rebindField_bufs h x f

theorem buildEntries_pure (h : Heap) (es : List (Key × BufSrc)) :
    (buildEntries h es).1.bufs = (buildEntriesP h.bufs es).1 ∧ (buildEntries h es).2 = (buildEntriesP h.bufs es).2 := by
  induction es generalizing h with
  | nil => exact ⟨rfl, rfl⟩
  | cons e r ih =>
    obtain ⟨k, src⟩ := e
    cases src with
    | old b =>
      simp only [buildEntries, buildEntriesP]
      exact ⟨(ih h).1, by rw [(ih h).2]⟩
    | kern tag args =>
      simp only [buildEntries, buildEntriesP]
      have := ih (newBuffer h tag args).1
      exact ⟨this.1, by rw [this.2]; rfl⟩

theorem buildDict_pure (h : Heap) (es : List (Key × BufSrc)) :
    (buildDict h es).1.bufs = (buildDictP h.bufs es).1 ∧
    (buildDict h es).1.get? (buildDict h es).2 = some (.dict (buildDictP h.bufs es).2) ∧
    (buildDict h es).2 = h.size ∧ Ext h (buildDict h es).1 := by
  have hp := buildEntries_pure h es
  refine ⟨?_, ?_, ?_, buildDict_ext h es⟩
  · simp only [buildDict, newDict, alloc, buildDictP]; exact hp.1
  · simp only [buildDict, newDict, buildDictP, ← hp.2]
    have := alloc_get?_new (buildEntries h es).1
      (.dict ((buildEntries h es).2.foldl (fun acc e => acc.set e.1 e.2) []))
    simpa [alloc, Heap.size] using this
  · simp only [buildDict, newDict, alloc, Heap.size, buildEntries_objs]

theorem get?_optRebind_ne (h : Heap) {x i : ObjId} (hne : x ≠ i) (o : Option Field) :
    (optRebind h x o).get? i = h.get? i := by
  cases o with
  | none => rfl
  | some f => exact get?_rebindField_ne h hne f

theorem arrObj_eta (a : ArrObj) :
    ({ indices := a.indices, charge := a.charge, blocks := a.blocks, phases := a.phases, oddpos := a.oddpos } : ArrObj) = a := by
  cases a; rfl

/-- the two immutable-valued slots `modify` may rebind -/
theorem wf_scalars {h : Heap} {x : ObjId} {a : ArrObj} {bd : Dict} {pd : Option Dict}
    (w : WFArr h x a bd pd) (oi : Option Nat) (oc : Option Int) :
    WFArr (optRebind (optRebind h x (oi.map Field.indices)) x (oc.map Field.charge)) x
      { a with indices := oi.getD a.indices, charge := oc.getD a.charge } bd pd := by
  cases oi with
  | none =>
    cases oc with
    | none => simpa [optRebind] using w
    | some c => simpa [optRebind, Field.apply] using wf_rebind_scalar w (.charge c) rfl rfl
  | some i =>
    have w1 := wf_rebind_scalar w (.indices i) rfl rfl
    cases oc with
    | none => simpa [optRebind, Field.apply] using w1
    | some c => simpa [optRebind, Field.apply] using wf_rebind_scalar w1 (.charge c) rfl rfl

theorem runModify_unfold (m : Mods) (h : Heap) (x : ObjId) (o : ArrObj) :
    runModify m h x o =
      optRebind (optRebind (optRebind (optRebind (argPhases (argBlocks h m.blocks).1 o m.phases).1 x
        ((argPhases (argBlocks h m.blocks).1 o m.phases).2.map Field.phases)) x (m.indices.map Field.indices)) x
        (m.charge.map Field.charge)) x ((argBlocks h m.blocks).2.map Field.blocks) := by
  simp only [runModify, rebinds_append, rebinds_opt]

theorem runModify_refines (m : Mods) {h : Heap} {x : ObjId} {a : ArrObj} {bd : Dict} {pd : Option Dict}
    (w : WFArr h x a bd pd) :
    ∃ a' bd' pd', WFArr (runModify m h x a) x a' bd' pd' ∧
      (cont a' bd' pd', (runModify m h x a).bufs) = modifyP m (cont a bd pd, h.bufs) := by
  rw [runModify_unfold]
  -- stage 1: the `blocks=` argument
  obtain ⟨h1, nb, e1, hb1, hnb⟩ : ∃ h1 nb, argBlocks h m.blocks = (h1, nb) ∧ Ext h h1 ∧
      (match m.blocks, nb with
       | some es, some q => h1.get? q = some (.dict (buildDictP h.bufs es).2) ∧ q = h.size ∧
           h1.bufs = (buildDictP h.bufs es).1 ∧ h1.size = h.size + 1
       | none, none => h1 = h
       | _, _ => False) := by
    cases hm : m.blocks with
    | none => exact ⟨h, none, rfl, Ext.refl _, rfl⟩
    | some es =>
      obtain ⟨p1, p2, p3, p4⟩ := buildDict_pure h es
      refine ⟨_, _, rfl, p4, p2, p3, p1, ?_⟩
      obtain ⟨d, e, _⟩ := buildDict_objs h es
      simp [Heap.size, e]
  rw [e1]
  have w1 := wf_ext hb1 w
  -- stage 2: the `phases=` argument
  obtain ⟨h2, np, e2, hb2, hnp⟩ : ∃ h2 np, argPhases h1 a m.phases = (h2, np) ∧ Ext h1 h2 ∧
      (match np with
       | some q => ∃ d p, m.phases = some d ∧ a.phases = some p ∧ h2.get? q = some (.dict d) ∧ q = h1.size
       | none => h2 = h1 ∧ (m.phases = none ∨ a.phases = none)) := by
    unfold argPhases
    cases hm : m.phases with
    | none => exact ⟨h1, none, rfl, Ext.refl _, rfl, Or.inl rfl⟩
    | some d =>
      cases ha : a.phases with
      | none => exact ⟨h1, none, rfl, Ext.refl _, rfl, Or.inr rfl⟩
      | some p =>
        exact ⟨_, _, rfl, (newDict_spec h1 d).1, d, p, rfl, rfl, alloc_get?_new _ _, rfl⟩
  rw [e2]
  have w2 := wf_ext hb2 w1
  have hbufs2 : h2.bufs = h1.bufs := by
    cases np with
    | none => rw [hnp.1]
    | some q =>
      unfold argPhases at e2
      obtain ⟨d, p, hm, ha, _, _⟩ := hnp
      rw [hm, ha] at e2
      simp only [Prod.mk.injEq] at e2
      rw [← e2.1]; rfl
  have hblt : a.blocks < h.size := get?_lt w.blk
  -- stage 3: rebind `_phases`
  obtain ⟨a3, pd3, w3, ha3i, ha3c, ha3b, ha3o, hpd3, ha3p⟩ : ∃ a3 pd3,
      WFArr (optRebind h2 x (np.map Field.phases)) x a3 bd pd3 ∧ a3.indices = a.indices ∧
      a3.charge = a.charge ∧ a3.blocks = a.blocks ∧ a3.oddpos = a.oddpos ∧
      pd3 = newPd m.phases pd ∧
      (∀ p, a3.phases = some p → p ≠ h.size ∨ m.blocks = none) := by
    cases np with
    | none =>
      refine ⟨a, pd, w2, rfl, rfl, rfl, rfl, ?_, ?_⟩
      · rcases hnp.2 with hm | ha
        · rw [hm]; rfl
        · rw [w.phn ha]; cases m.phases <;> rfl
      · intro p hp
        left
        exact Nat.ne_of_lt (get?_lt (w.ph p hp).choose_spec.2.1)
    | some q =>
      obtain ⟨d, p, hm, ha, hq, hqs⟩ := hnp
      have hqne : q ≠ a.blocks := by
        intro e
        have : h1.size < h.size := by rw [← hqs, e]; exact hblt
        exact absurd hb1.size (Nat.not_le.mpr this)
      refine ⟨_, _, wf_rebind_phases w2 hq hqne, rfl, rfl, rfl, rfl, ?_, ?_⟩
      · obtain ⟨d0, hd0, _⟩ := w.ph p ha
        rw [hm, hd0]; rfl
      · intro p' hp'
        simp only [Option.some.injEq] at hp'
        subst hp'
        cases hmb : m.blocks with
        | none => exact Or.inr rfl
        | some es =>
          left
          rw [hmb] at hnb
          cases nb with
          | none => exact hnb.elim
          | some q' => rw [hqs, hnb.2.2.2]; exact Nat.succ_ne_self _
  -- stage 4: the two immutable slots
  have w5 := wf_scalars w3 m.indices m.charge
  -- stage 5: rebind `_blocks`
  have hx2 : ∀ i, x ≠ i → (optRebind (optRebind (optRebind h2 x (np.map Field.phases)) x
      (m.indices.map Field.indices)) x (m.charge.map Field.charge)).get? i = h2.get? i := by
    intro i hi
    rw [get?_optRebind_ne _ hi, get?_optRebind_ne _ hi, get?_optRebind_ne _ hi]
  simp only [optRebind_bufs, hbufs2]
  cases hmb : m.blocks with
  | none =>
    rw [hmb] at hnb
    cases nb with
    | some q => exact hnb.elim
    | none =>
      subst hnb
      refine ⟨_, _, _, by simpa [optRebind] using w5, ?_⟩
      simp [cont, modifyP, hmb, ha3i, ha3c, ha3o, hpd3]
  | some es =>
    rw [hmb] at hnb
    cases nb with
    | none => exact hnb.elim
    | some q =>
      obtain ⟨hq, hqs, hbf, hsz⟩ := hnb
      have hqx : x ≠ q := by
        have hlt := get?_lt w.arr
        intro e; rw [← e] at hqs; exact absurd hqs (Nat.ne_of_lt hlt)
      have hq5 := (hx2 q hqx).trans ((hb2.get? (get?_lt hq)).trans hq)
      have w6 := wf_rebind_blocks w5 hq5 (by
        intro p hp
        rcases ha3p p hp with h1' | h1'
        · rw [hqs]; exact h1'
        · rw [hmb] at h1'; cases h1')
      refine ⟨_, _, _, by simpa [optRebind] using w6, ?_⟩
      simp [cont, modifyP, hmb, ha3i, ha3c, ha3o, hpd3, hbf]

/-- **every in-place effect changes the target's abstract content as its pure meaning says** -/
theorem runAct_refines (act : Act) {h : Heap} {x : ObjId} {a : ArrObj} {bd : Dict} {pd : Option Dict}
    (w : WFArr h x a bd pd) :
    ∃ a' bd' pd', WFArr (runAct act h x) x a' bd' pd' ∧
      (cont a' bd' pd', (runAct act h x).bufs) = act.pure (cont a bd pd, h.bufs) := by
  unfold runAct
  rw [arrOf_eq_some.mpr w.arr]
  cases act with
  | modify m => exact runModify_refines m w
  | setOddpos v =>
    exact ⟨_, _, _, wf_rebind_scalar w (.oddpos v) rfl rfl, by simp [cont, Act.pure, Field.apply, rebindField_bufs]⟩
  | bKern k tag args =>
    have w1 : WFArr (newBuffer h tag args).1 x a bd pd := wf_objs (h := h) (h' := (newBuffer h tag args).1) rfl w
    exact ⟨_, _, _, wf_updBlocks w1 _, by simp [cont, Act.pure, dictSet, updDict_bufs, newBuffer]⟩
  | bPut k b => exact ⟨_, _, _, wf_updBlocks w _, by simp [cont, Act.pure, dictSet, updDict_bufs]⟩
  | bPop k => exact ⟨_, _, _, wf_updBlocks w _, by simp [cont, Act.pure, dictPop, updDict_bufs]⟩
  | bUpdate src => exact ⟨_, _, _, wf_updBlocks w _, by simp [cont, Act.pure, dictUpdate, updDict_bufs]⟩
  | pSet k v =>
    obtain ⟨pd', w', e, hb⟩ := onPhases_refines w (fun l => l.set k v)
    exact ⟨_, _, _, w', by simp [cont, Act.pure, e]; exact hb⟩
  | pPop k =>
    obtain ⟨pd', w', e, hb⟩ := onPhases_refines w (fun l => l.pop k)
    exact ⟨_, _, _, w', by simp [cont, Act.pure, e]; exact hb⟩
  | pPopItem =>
    obtain ⟨pd', w', e, hb⟩ := onPhases_refines w Dict.popItem
    exact ⟨_, _, _, w', by simp [cont, Act.pure, e]; exact hb⟩
  | pClear =>
    obtain ⟨pd', w', e, hb⟩ := onPhases_refines w (fun _ => [])
    exact ⟨_, _, _, w', by simp [cont, Act.pure, e]; exact hb⟩
  | pCopyThen f =>
    dsimp only
    unfold onPhases
    cases hp : a.phases with
    | none =>
      exact ⟨a, bd, pd, w, by simp [cont, Act.pure, w.phn hp]⟩
    | some p =>
      obtain ⟨d, rfl, hd, hne⟩ := w.ph p hp
      dsimp only
      have c := copyDict_spec h p
      have w1 := wf_ext c.1 w
      have ht : (copyDict h p).1.get? (copyDict h p).2 = some (.dict d) := by
        have := alloc_get?_new h (.dict (h.dictOf p))
        rw [dictOf_of_get? hd] at this
        simpa [copyDict, newDict, dictOf_of_get? hd, alloc, Heap.size] using this
      have hts : (copyDict h p).2 = h.size := rfl
      have hx := get?_lt w.arr
      have hb := get?_lt w.blk
      have hpl := get?_lt hd
      have w2 := wf_updOther w1 (d := (copyDict h p).2)
        (by rw [hts]; exact Nat.ne_of_gt hx) (by rw [hts]; exact Nat.ne_of_gt hb)
        (by intro q hq; rw [hp] at hq; cases hq; rw [hts]; exact Nat.ne_of_gt hpl) f
      have w3 := wf_rebind_phases w2 (get?_updDict_self ht f) (by rw [hts]; exact Nat.ne_of_gt hb)
      refine ⟨_, _, _, w3, ?_⟩
      simp only [cont, Act.pure, rebindField_bufs, updDict_bufs, Option.map_some]
      rfl

/-! ### scripts -/

theorem actsK_run (t : Nat) (as : List Act) (k : Prog) (h : Heap) (env : Env) :
    (Prog.actsK t as k).run h env = k.run (as.foldl (fun h a => runAct a h (envGet env t)) h) env := by
  induction as generalizing h with
  | nil => rfl
  | cons a r ih => simp only [Prog.actsK, Prog.run, runCmd, List.foldl_cons]; exact ih _

theorem acts_refines (as : List Act) {h : Heap} {x : ObjId} {a : ArrObj} {bd : Dict} {pd : Option Dict}
    (w : WFArr h x a bd pd) :
    ∃ a' bd' pd', WFArr (as.foldl (fun h a => runAct a h x) h) x a' bd' pd' ∧
      (cont a' bd' pd', (as.foldl (fun h a => runAct a h x) h).bufs) =
        as.foldl (fun s a => a.pure s) (cont a bd pd, h.bufs) := by
  induction as generalizing h a bd pd with
  | nil => exact ⟨a, bd, pd, w, rfl⟩
  | cons act r ih =>
    obtain ⟨a1, bd1, pd1, w1, e1⟩ := runAct_refines act w
    obtain ⟨a2, bd2, pd2, w2, e2⟩ := ih w1
    exact ⟨a2, bd2, pd2, w2, by simp only [List.foldl_cons]; rw [e2, e1]⟩

theorem see_arr {h : Heap} {x : ObjId} {a : ArrObj} {bd : Dict} {pd : Option Dict} (w : WFArr h x a bd pd) :
    see h x = .arr (cont a bd pd) := by
  simp [see, w.arr, w.content]

theorem view_at {h : Heap} {env : Env} {t : Nat} (ht : t < env.length) {a : ArrObj} {bd : Dict}
    {pd : Option Dict} (w : WFArr h (envGet env t) a bd pd) : View.at (env.map (see h)) t = cont a bd pd := by
  have : (env.map (see h)).getD t Seen.none = see h (envGet env t) := by
    simp [List.getD, envGet, List.getElem?_map, List.getElem?_eq_getElem ht]
  unfold View.at
  rw [this, see_arr w]; rfl

/-- **a script that looks only at its target computes `Script.pure` of the target's content**,
    wherever the target lives and whatever else is in the heap -/
theorem script_refines (s : Script) (t : Nat) (k : Prog) :
    ∀ {h : Heap} {env : Env} {a : ArrObj} {bd : Dict} {pd : Option Dict}, t < env.length →
      WFArr h (envGet env t) a bd pd →
      ∃ h' a' bd' pd', (s.prog t [] k).run h env = k.run h' env ∧ WFArr h' (envGet env t) a' bd' pd' ∧
        (cont a' bd' pd', h'.bufs) = s.pure (cont a bd pd, h.bufs) := by
  induction s with
  | nil => intro h env a bd pd _ w; exact ⟨h, a, bd, pd, rfl, w, rfl⟩
  | acts as s ih =>
    intro h env a bd pd ht w
    obtain ⟨a1, bd1, pd1, w1, e1⟩ := acts_refines as w
    obtain ⟨h2, a2, bd2, pd2, r2, w2, e2⟩ := ih ht w1
    refine ⟨h2, a2, bd2, pd2, ?_, w2, ?_⟩
    · simp only [Script.prog, actsK_run]; exact r2
    · simp only [Script.pure]; rw [e2, e1]
  | read f ih =>
    intro h env a bd pd ht w
    simp only [Script.prog, Prog.run, List.map_nil, Script.pure]
    rw [view_at ht w]
    exact ih _ _ ht w

/-! ### `copy` / `copy_with` at the level of content -/

theorem copyWithArr_refines (m : Mods) {h : Heap} {x : ObjId} {a : ArrObj} {bd : Dict} {pd : Option Dict}
    (w : WFArr h x a bd pd) :
    ∃ a' bd' pd', WFArr (copyWithArr h x m).1 (copyWithArr h x m).2 a' bd' pd' ∧
      (cont a' bd' pd', (copyWithArr h x m).1.bufs) = modifyP m (cont a bd pd, h.bufs) := by
  unfold copyWithArr
  rw [arrOf_eq_some.mpr w.arr]
  dsimp only
  -- the block dict of the copy
  obtain ⟨bd', hbd, hbid, hbsz, hbbufs, hbext, hbeq⟩ : ∃ bd', (blocksFor h a m.blocks).1.get? (blocksFor h a m.blocks).2
        = some (.dict bd') ∧ (blocksFor h a m.blocks).2 = h.size ∧ (blocksFor h a m.blocks).1.size = h.size + 1 ∧
      (blocksFor h a m.blocks).1.bufs = (match m.blocks with | some es => (buildDictP h.bufs es).1 | none => h.bufs) ∧
      Ext h (blocksFor h a m.blocks).1 ∧
      bd' = (match m.blocks with | some es => (buildDictP h.bufs es).2 | none => bd) := by
    unfold blocksFor
    cases m.blocks with
    | some es =>
      obtain ⟨p1, p2, p3, p4⟩ := buildDict_pure h es
      obtain ⟨d, e, _⟩ := buildDict_objs h es
      exact ⟨_, p2, p3, by simp [Heap.size, e], p1, p4, rfl⟩
    | none =>
      refine ⟨bd, ?_, rfl, by simp [copyDict, newDict, alloc, Heap.size], rfl, (copyDict_spec h _).1, rfl⟩
      have := alloc_get?_new h (.dict (h.dictOf a.blocks))
      simpa [copyDict, newDict, dictOf_of_get? w.blk, alloc, Heap.size] using this
  generalize hr1 : blocksFor h a m.blocks = r1 at *
  -- the sign dict of the copy
  obtain ⟨pd', hpext, hpbufs, hpd, hpeq⟩ : ∃ pd', Ext r1.1 (phasesFor r1.1 a m.phases).1 ∧
      (phasesFor r1.1 a m.phases).1.bufs = r1.1.bufs ∧
      (match (phasesFor r1.1 a m.phases).2 with
       | some q => ∃ d, pd' = some d ∧ (phasesFor r1.1 a m.phases).1.get? q = some (.dict d) ∧ q = r1.1.size
       | none => pd' = none) ∧
      pd' = newPd m.phases pd := by
    unfold phasesFor
    cases hp : a.phases with
    | none => exact ⟨none, Ext.refl _, rfl, rfl, by rw [w.phn hp]; cases m.phases <;> rfl⟩
    | some p =>
      obtain ⟨d0, hd0, hp0, _⟩ := w.ph p hp
      cases hm : m.phases with
      | some d =>
        exact ⟨some d, (newDict_spec _ d).1, rfl, ⟨d, rfl, alloc_get?_new _ _, rfl⟩, by rw [hd0]; rfl⟩
      | none =>
        refine ⟨some d0, (copyDict_spec _ p).1, rfl, ⟨d0, rfl, ?_, rfl⟩, by rw [hd0]; rfl⟩
        have hp1 : r1.1.get? p = some (.dict d0) := by rw [hbext.get? (get?_lt hp0)]; exact hp0
        have := alloc_get?_new r1.1 (.dict (r1.1.dictOf p))
        simpa [copyDict, newDict, dictOf_of_get? hp1, alloc, Heap.size] using this
  generalize hr2 : phasesFor r1.1 a m.phases = r2 at *
  refine ⟨_, bd', pd', ⟨alloc_get?_new _ _, ?_, ?_, ?_⟩, ?_⟩
  · show (alloc r2.1 _).1.get? r1.2 = _
    rw [alloc_get?_old _ _ (Nat.lt_of_lt_of_le (get?_lt hbd) hpext.size), hpext.get? (get?_lt hbd)]
    exact hbd
  · intro q hq
    have hq' : r2.2 = some q := hq
    rw [hq'] at hpd
    obtain ⟨d, e1, hd, hqs⟩ := hpd
    refine ⟨d, e1, ?_, ?_⟩
    · show (alloc r2.1 _).1.get? q = _
      rw [alloc_get?_old _ _ (get?_lt hd)]; exact hd
    · show q ≠ r1.2
      rw [hqs, hbsz, hbid]; exact Nat.succ_ne_self _
  · intro hq
    have hq' : r2.2 = none := hq
    rw [hq'] at hpd; exact hpd
  · simp only [cont, modifyP, alloc_bufs, allocArray, hpbufs, hbbufs, hpeq, hbeq]
    cases m.blocks <;> rfl

theorem copyArr_eq (h : Heap) (x : ObjId) : copyArr h x = copyWithArr h x {} := by
  unfold copyArr copyWithArr
  cases h.arrOf x <;> rfl

theorem modifyP_empty (s : PState) : modifyP {} s = s := by
  obtain ⟨c, b⟩ := s
  simp [modifyP, newPd]

/-! ### scripts that also look at other (read-only) variables -/

def Script.pureV : Script → View → PState → PState
  | .nil, _, s => s
  | .acts as k, ov, s => k.pureV ov (as.foldl (fun s a => a.pure s) s)
  | .read f, ov, s => (f s.1 ov).pureV ov s

/-- an array object that an effect on other objects leaves as it is -/
theorem wf_other_step {A D : ObjId → Prop} {h h' : Heap} (st : Step A D h h') {y : ObjId} {a : ArrObj}
    {bd : Dict} {pd : Option Dict} (w : WFArr h y a bd pd) (hA : ¬ A y) (hb : ¬ D a.blocks)
    (hp : ∀ p, a.phases = some p → ¬ D p) : WFArr h' y a bd pd := by
  have kindA : ∀ i l, h.get? i = some (.dict l) → ¬ D i → h'.get? i = some (.dict l) := by
    intro i l hi hd
    obtain ⟨l', h1, e⟩ := st.dict i l hi
    rw [h1, e hd]
  refine ⟨?_, kindA _ _ w.blk hb, ?_, w.phn⟩
  · obtain ⟨a', h1, e⟩ := st.arr y a w.arr
    rw [h1, e hA]
  · intro p hq
    obtain ⟨d, e1, hd, hne⟩ := w.ph p hq
    exact ⟨d, e1, kindA _ _ hd (hp p hq), hne⟩

/-- the other variables a script looks at: well-formed arrays that share nothing with the target's
    original dicts `D0` and live below `n0` (so they cannot be one of the dicts allocated later) -/
def OthersOK (n0 : Nat) (D0 : List ObjId) (h : Heap) (env : Env) (others : List Nat) (x : ObjId) : Prop :=
  ∀ j ∈ others, j < env.length ∧ ∃ a bd pd, WFArr h (envGet env j) a bd pd ∧ envGet env j ≠ x ∧
    a.blocks < n0 ∧ a.blocks ∉ D0 ∧ ∀ p, a.phases = some p → p < n0 ∧ p ∉ D0

def othersView (h : Heap) (env : Env) (others : List Nat) : View :=
  others.map (fun j => (env.map (see h)).getD j .none)

theorem othersOK_step {n0 : Nat} {D0 : List ObjId} {h h' : Heap} {env : Env} {others : List Nat} {x : ObjId}
    (ok : OthersOK n0 D0 h env others x) (st : Step (· = x) (· ∈ dictsOf h x) h h')
    (hx : ∀ d ∈ dictsOf h x, d ∈ D0 ∨ n0 ≤ d) :
    OthersOK n0 D0 h' env others x ∧ othersView h' env others = othersView h env others := by
  have key : ∀ j ∈ others, ∃ a bd pd, WFArr h (envGet env j) a bd pd ∧ WFArr h' (envGet env j) a bd pd := by
    intro j hj
    obtain ⟨_, a, bd, pd, w, hne, hb, hbD, hp⟩ := ok j hj
    refine ⟨a, bd, pd, w, wf_other_step st w hne ?_ ?_⟩
    · intro hd
      rcases hx _ hd with h1 | h1
      · exact hbD h1
      · exact absurd hb (Nat.not_lt.mpr h1)
    · intro p hq hd
      rcases hx _ hd with h1 | h1
      · exact (hp p hq).2 h1
      · exact absurd (hp p hq).1 (Nat.not_lt.mpr h1)
  constructor
  · intro j hj
    obtain ⟨hlt, a, bd, pd, w, hne, hb, hbD, hp⟩ := ok j hj
    obtain ⟨a', bd', pd', w1, w2⟩ := key j hj
    exact ⟨hlt, a', bd', pd', w2, hne, by
      have := w.arr.symm.trans w1.arr
      cases this; exact ⟨hb, hbD, hp⟩⟩
  · unfold othersView
    apply List.map_congr_left
    intro j hj
    obtain ⟨hlt, _⟩ := ok j hj
    obtain ⟨a, bd, pd, w1, w2⟩ := key j hj
    have e1 : (env.map (see h')).getD j Seen.none = see h' (envGet env j) := by
      simp [List.getD, envGet, List.getElem?_map, List.getElem?_eq_getElem hlt]
    have e2 : (env.map (see h)).getD j Seen.none = see h (envGet env j) := by
      simp [List.getD, envGet, List.getElem?_map, List.getElem?_eq_getElem hlt]
    rw [e1, e2, see_arr w1, see_arr w2]

/-- one effect: content, frame of the other variables, and where the target's dicts live -/
theorem acts_refines_others (as : List Act) {n0 : Nat} {D0 : List ObjId} {env : Env} {others : List Nat} :
    ∀ {h : Heap} {x : ObjId} {a : ArrObj} {bd : Dict} {pd : Option Dict}, WFArr h x a bd pd →
      OthersOK n0 D0 h env others x → (∀ d ∈ dictsOf h x, d ∈ D0 ∨ n0 ≤ d) → n0 ≤ h.size →
      ∃ a' bd' pd', WFArr (as.foldl (fun h a => runAct a h x) h) x a' bd' pd' ∧
        (cont a' bd' pd', (as.foldl (fun h a => runAct a h x) h).bufs) =
          as.foldl (fun s a => a.pure s) (cont a bd pd, h.bufs) ∧
        OthersOK n0 D0 (as.foldl (fun h a => runAct a h x) h) env others x ∧
        othersView (as.foldl (fun h a => runAct a h x) h) env others = othersView h env others ∧
        (∀ d ∈ dictsOf (as.foldl (fun h a => runAct a h x) h) x, d ∈ D0 ∨ n0 ≤ d) ∧
        n0 ≤ (as.foldl (fun h a => runAct a h x) h).size := by
  induction as with
  | nil => intro h x a bd pd w ok hx hn; exact ⟨a, bd, pd, w, rfl, ok, rfl, hx, hn⟩
  | cons act r ih =>
    intro h x a bd pd w ok hx hn
    obtain ⟨a1, bd1, pd1, w1, e1⟩ := runAct_refines act w
    obtain ⟨st, ds⟩ := runAct_spec act h x
    obtain ⟨ok1, v1⟩ := othersOK_step ok st hx
    have hx1 : ∀ d ∈ dictsOf (runAct act h x) x, d ∈ D0 ∨ n0 ≤ d := by
      intro d hd
      rcases ds d hd with h1 | h1
      · exact hx d h1
      · exact Or.inr (Nat.le_trans hn h1)
    obtain ⟨a2, bd2, pd2, w2, e2, ok2, v2, hx2, hn2⟩ := ih w1 ok1 hx1 (Nat.le_trans hn st.size)
    exact ⟨a2, bd2, pd2, w2, by simp only [List.foldl_cons]; rw [e2, e1], ok2,
      by simp only [List.foldl_cons]; rw [v2, v1], hx2, hn2⟩

/-- **a script computes `Script.pureV` of the target's content and of the (unchanging) view of the
    other variables it looks at** -/
theorem script_refines_others (s : Script) (t : Nat) (others : List Nat) (k : Prog) {n0 : Nat} {D0 : List ObjId} :
    ∀ {h : Heap} {env : Env} {a : ArrObj} {bd : Dict} {pd : Option Dict}, t < env.length →
      WFArr h (envGet env t) a bd pd → OthersOK n0 D0 h env others (envGet env t) →
      (∀ d ∈ dictsOf h (envGet env t), d ∈ D0 ∨ n0 ≤ d) → n0 ≤ h.size →
      ∃ h' a' bd' pd', (s.prog t others k).run h env = k.run h' env ∧ WFArr h' (envGet env t) a' bd' pd' ∧
        (cont a' bd' pd', h'.bufs) = s.pureV (othersView h env others) (cont a bd pd, h.bufs) := by
  induction s with
  | nil => intro h env a bd pd _ w _ _ _; exact ⟨h, a, bd, pd, rfl, w, rfl⟩
  | acts as s ih =>
    intro h env a bd pd ht w ok hx hn
    obtain ⟨a1, bd1, pd1, w1, e1, ok1, v1, hx1, hn1⟩ := acts_refines_others as w ok hx hn
    obtain ⟨h2, a2, bd2, pd2, r2, w2, e2⟩ := ih ht w1 ok1 hx1 hn1
    refine ⟨h2, a2, bd2, pd2, ?_, w2, ?_⟩
    · simp only [Script.prog, actsK_run]; exact r2
    · simp only [Script.pureV]; rw [e2, e1, v1]
  | read f ih =>
    intro h env a bd pd ht w ok hx hn
    simp only [Script.prog, Prog.run, Script.pureV]
    rw [view_at ht w]
    exact ih _ _ ht w ok hx hn

end SymmModel.Heap
