/-
  SymmModel.Proofs.Assoc3Valid — the fermionic contraction returns a valid array under the part of
  the guard that validity really needs (opposite directions of matched legs): the re-proof of
  `ValidP.tensordotF_blockwise_valid` that lets S7 of C04 be applied to intermediate results with
  pruned index tables.  Namespace `SymmModel.ValidP`.
-/
import SymmModel.Proofs.Assoc2Main

namespace SymmModel
namespace ValidP
variable {R : Type}

theorem tensordotF_valid_of_opposite [Zero R] [Add R] [Mul R] [Neg R] (mode : TdotMode)
    (hspec : TdotASpec R mode) (a b r : Arr R)
    (axesA axesB : List Nat) (ha : Valid a) (hb : Valid b)
    (hfa : a.fermi = true) (hfb : b.fermi = true) (hsym : a.sym = b.sym)
    (hc' : oppositeDualsB a b axesA axesB = true)
    (hnA : axesA.Nodup) (hnB : axesB.Nodup)
    (hA : ∀ i ∈ axesA, i < a.ndim) (hB : ∀ i ∈ axesB, i < b.ndim)
    (h : Arr.tensordotF a b (.pair (axesA.map Int.ofNat) (axesB.map Int.ofNat)) mode = .ok r) :
    Valid r := by
  unfold oppositeDualsB at hc'
  simp only [Bool.and_eq_true, beq_iff_eq, List.all_eq_true] at hc'
  have hlen := hc'.1
  have hd := opposite_duals_permuted a.indices b.indices axesA axesB hlen hA hB hc'.2
  rw [tensordotF_eq a b axesA axesB _ hlen hA hB] at h
  obtain ⟨va, vb, fa, fb, ia, ib, sa, sb, ca, cb, oa, ob⟩ :=
    tdF34_props a b axesA axesB ha hb hfa hfb hnA hnB hA hB
  generalize (tdF34 a b axesA axesB).1 = a3 at *
  generalize (tdF34 a b axesA axesB).2 = b3 at *
  -- lengths
  have hleftlen : (without (List.range a.ndim) axesA).length = a.ndim - axesA.length := by
    have := (without_append_perm hnA hA).length_eq
    simp only [List.length_append, List.length_range] at this
    omega
  have hplA : (permuted a.indices (without (List.range a.ndim) axesA)).length
      = a.ndim - axesA.length := by
    rw [permuted_length (l := a.indices) (fun i hi => (without_lt i hi : i < a.ndim)), hleftlen]
  have hplB : (permuted b.indices axesB).length = axesA.length := by
    rw [permuted_length hB, hlen]
  have hna3 : a3.ndim = a.ndim := by
    unfold Arr.ndim
    rw [ia, permuted_length]
    · have := (without_append_perm hnA hA).length_eq
      simpa [Arr.ndim] using this
    · intro i hi
      rcases List.mem_append.mp hi with h1 | h1
      · exact without_lt i h1
      · exact hA i h1
  have hnb3 : b3.ndim = b.ndim := by
    unfold Arr.ndim
    rw [ib, permuted_length]
    · have := (List.perm_append_comm.trans (without_append_perm hnB hB)).length_eq
      simpa [Arr.ndim] using this
    · intro i hi
      rcases List.mem_append.mp hi with h1 | h1
      · exact hB i h1
      · exact without_lt i h1
  have hncon : axesA.length ≤ a.ndim := by
    have := (without_append_perm hnA hA).length_eq
    simp only [List.length_append, List.length_range] at this
    omega
  have hnconB : axesA.length ≤ b.ndim := by
    have := (without_append_perm hnB hB).length_eq
    simp only [List.length_append, List.length_range] at this
    omega
  -- the operands of the abelian kernel
  have va4 := phaseSync_valid a3 va
  have vb4 := phaseSync_valid b3 vb
  set a4 := a3.phaseSync with ha4
  set b4 := b3.phaseSync with hb4
  have ia4 : a4.indices = a3.indices := rfl
  have ib4 : b4.indices = b3.indices := rfl
  set newA := (List.range a.ndim).drop (a.ndim - axesA.length) with hnewA
  set newB := List.range axesA.length with hnewB
  have hnewAlt : ∀ i ∈ newA, i < a4.ndim := by
    intro i hi
    have := List.mem_range.mp (List.mem_of_mem_drop hi)
    show i < a3.ndim
    omega
  have hnewBlt : ∀ i ∈ newB, i < b4.ndim := by
    intro i hi
    have := List.mem_range.mp hi
    show i < b3.ndim
    omega
  have hnewAnd : newA.Nodup := List.Nodup.sublist (List.drop_sublist _ _) List.nodup_range
  have hnewBnd : newB.Nodup := List.nodup_range
  have hnewlen : newA.length = newB.length := by
    simp only [hnewA, hnewB, List.length_drop, List.length_range]; omega
  -- directions of the contracted indices after the transposes
  have hd4 : (permuted b4.indices newB).map Index.dual
      = (permuted a4.indices newA).map (fun ix => !ix.dual) := by
    have e1 : permuted a4.indices newA = permuted a.indices axesA := by
      rw [ia4, ia, permuted_append]
      have hl : (permuted a.indices (without (List.range a.ndim) axesA)
          ++ permuted a.indices axesA).length = a.ndim := by
        rw [List.length_append, hplA, permuted_length hA]; omega
      have := permuted_range_drop (permuted a.indices (without (List.range a.ndim) axesA)
          ++ permuted a.indices axesA) (a.ndim - axesA.length)
      rw [hl] at this
      rw [hnewA, this, List.drop_left' hplA]
    have e2 : permuted b4.indices newB = permuted b.indices axesB := by
      rw [ib4, ib, permuted_append, hnewB, permuted_range_take, List.take_left' hplB]
    rw [e1, e2]; exact hd
  -- run the abelian kernel
  simp only [bind, Except.bind] at h
  split at h
  · cases h
  · rename_i c hcres
    obtain ⟨hcore, hcsym', hcf', hcch', hcph', _⟩ := hspec a4 b4 c newA newB va4.core vb4.core
      (by show a3.sym = b3.sym; rw [sa, sb]; exact hsym) hd4 hnewlen hnewAnd hnewBnd hnewAlt hnewBlt
      hcres
    have hcf : c.fermi = true := by rw [hcf']; exact fa
    have hcph : c.phases = [] := by rw [hcph']; rfl
    have hcch : c.charge = a.sym.combine [a.charge, b.charge] := by
      rw [hcch']
      show a3.sym.combine [a3.charge, b3.charge] = _
      rw [sa, ca, cb]
    have hcsym : c.sym = a.sym := by rw [hcsym']; exact sa
    apply resolveCombinedOddpos_valid a4 b4 c r hcore hcf (by rw [hcph]; exact phasesOk_nil) _ h
    -- parity bookkeeping
    have hsa := ha.sgn
    have hsb := hb.sgn
    unfold SignsOk at hsa hsb
    simp only [hfa, hfb, if_true] at hsa hsb
    show c.sym.parity c.charge = xor (a3.oddpos.length % 2 == 1) (b3.oddpos.length % 2 == 1)
    rw [hcsym, hcch, parity_combine_pair', oa, ob, hsa.2, hsb.2, hsym]

end ValidP
end SymmModel
