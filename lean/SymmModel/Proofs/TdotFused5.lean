/-
  SymmModel.Proofs.TdotFused5 — `aligned_fused_tables_match` for the exact call form of
  `tensordotViaFused` (left / right groups possibly empty).  Namespace `SymmModel.TdotP`.
-/
import SymmModel.Proofs.TdotFused4

namespace SymmModel
namespace TdotP
variable {R : Type}

/-- the non-empty ones of two groups that together list every axis once form an admissible list
    of groups, and nothing precedes them -/
theorem cover_groupsOk {A : Arr R} {g1 g2 : List Nat} (hperm : (g1 ++ g2).Perm (List.range A.ndim))
    (hne : g1 ≠ [] ∨ g2 ≠ []) :
    FuseP.GroupsOk ([g1, g2].filter (fun g => !g.isEmpty)) A.ndim
    ∧ (FuseP.giM A ([g1, g2].filter (fun g => !g.isEmpty))).position = 0 := by
  have hflat : ([g1, g2].filter (fun g => !g.isEmpty)).flatten = g1 ++ g2 := by
    rw [C05.flatten_filter_nonempty]; simp
  have hok : FuseP.GroupsOk ([g1, g2].filter (fun g => !g.isEmpty)) A.ndim := by
    refine ⟨?_, ?_, ?_, ?_⟩
    · cases g1 <;> cases g2 <;> simp_all
    · intro g hg
      simp only [List.mem_filter, Bool.not_eq_true', List.isEmpty_eq_false_iff] at hg
      exact hg.2
    · rw [hflat]; intro ax hax; exact List.mem_range.mp (hperm.subset hax)
    · rw [hflat]; exact hperm.nodup_iff.mpr List.nodup_range
  refine ⟨hok, ?_⟩
  have hpos : 0 < A.ndim := by
    have hl := hperm.length_eq
    simp only [List.length_append, List.length_range] at hl
    rcases hne with h | h
    · have := List.length_pos_iff.mpr h; omega
    · have := List.length_pos_iff.mpr h; omega
  have h0 : 0 ∈ ([g1, g2].filter (fun g => !g.isEmpty)).flatten := by
    rw [hflat]; exact hperm.symm.subset (List.mem_range.mpr hpos)
  exact Nat.eq_zero_of_le_zero ((FuseP.position_spec (FuseP.hokD hok)).2 0 h0)

/-- **aligned_fused_tables_match**, exact call form of `tensordotViaFused`.  After
    `dropMisaligned`, `fuseA a' [left, xa]` and `fuseA b' [xb, right]` (insert strategy, no
    expansion of empty groups) succeed, and the two fused bond indices — axis 1 of `af` (axis 0 if
    there is no left group) and axis 0 of `bf` — have equal chargemaps and opposite directions;
    for a multi-axis bond they carry the same extents (same sub-sectors, same order, same sizes),
    each extent strictly `sectorLt`-sorted, over sub-indices with equal chargemaps and opposite
    directions. -/
theorem aligned_tables_full [Zero R] (a b : Arr R) (xa xb : List Nat)
    (ha : a.validB = true) (hb : b.validB = true) (hsym : a.sym = b.sym)
    (hc : ValidP.contractibleB a b xa xb = true)
    (hnA : xa.Nodup) (hnB : xb.Nodup) (hA : ∀ x ∈ xa, x < a.ndim) (hB : ∀ x ∈ xb, x < b.ndim)
    (hneK : xa ≠ []) :
    ∃ af bf,
      fuseA (dropMisaligned a b xa xb).1 [freeAxes a.ndim xa, xa] .insert false = .ok af
      ∧ fuseA (dropMisaligned a b xa xb).2 [xb, freeAxes b.ndim xb] .insert false = .ok bf
      ∧ (af.indices.getD (if (freeAxes a.ndim xa).isEmpty then 0 else 1) default).cm
          = (bf.indices.getD 0 default).cm
      ∧ (af.indices.getD (if (freeAxes a.ndim xa).isEmpty then 0 else 1) default).dual
          = !(bf.indices.getD 0 default).dual
      ∧ (xa.map (fun ax => (dropMisaligned a b xa xb).1.indices.getD ax default)).map Index.cm
          = (xb.map (fun ax => (dropMisaligned a b xa xb).2.indices.getD ax default)).map Index.cm
      ∧ (xb.map (fun ax => (dropMisaligned a b xa xb).2.indices.getD ax default)).map Index.dual
          = (xa.map (fun ax => (dropMisaligned a b xa xb).1.indices.getD ax default)).map
              (fun ix => !ix.dual)
      ∧ (xa.length ≠ 1 → ∃ exts,
          (af.indices.getD (if (freeAxes a.ndim xa).isEmpty then 0 else 1) default).sub
            = some (xa.map (fun ax => (dropMisaligned a b xa xb).1.indices.getD ax default), exts)
          ∧ (bf.indices.getD 0 default).sub
            = some (xb.map (fun ax => (dropMisaligned a b xa xb).2.indices.getD ax default), exts)
          ∧ ∀ c e, alookup exts c = some e → isSortedStrict sectorLt (e.map (·.1)) = true) := by
  obtain ⟨n1, n2⟩ := dropMisaligned_ndim a b xa xb
  obtain ⟨v1, v2⟩ := ValidP.dropMisaligned_valid a b xa xb ((ValidP.validB_iff a).mp ha)
    ((ValidP.validB_iff b).mp hb)
  have hvA := FuseP.validArr_of_validB ((ValidP.validB_iff _).mpr v1)
  have hvB := FuseP.validArr_of_validB ((ValidP.validB_iff _).mpr v2)
  have hla : ∀ s ∈ a.sectors, s.length = a.ndim := fun s hs =>
    Arr.sector_length (Arr.shapesOk_of_validB ha) hs
  have hlb : ∀ s ∈ b.sectors, s.length = b.ndim := fun s hs =>
    Arr.sector_length (Arr.shapesOk_of_validB hb) hs
  obtain ⟨hcm, hdual⟩ := aligned_cm_dual a b xa xb hla hlb hA hB hc
  obtain ⟨hsubA, hsubB⟩ := sectors_dropMisaligned_sub a b xa xb
  have hlen : xa.length = xb.length := by
    unfold ValidP.contractibleB at hc
    simp only [Bool.and_eq_true, beq_iff_eq] at hc
    exact hc.1
  have hneKb : xb ≠ [] := by
    intro e; rw [e] at hlen; exact hneK (List.eq_nil_of_length_eq_zero hlen)
  have hkeys : ∀ K, K ∈ (dropMisaligned a b xa xb).1.blocks.map (fun sb => xa.map (fun ax => sb.1.getD ax (0, 0))) ↔
      K ∈ (dropMisaligned a b xa xb).2.blocks.map (fun sb => xb.map (fun ax => sb.1.getD ax (0, 0))) := by
    intro K
    have eA : (dropMisaligned a b xa xb).1.blocks.map (fun sb => xa.map (fun ax => sb.1.getD ax (0, 0)))
        = subKeys (dropMisaligned a b xa xb).1 xa := by
      simp only [subKeys, Arr.sectors, List.map_map]
      apply List.map_congr_left
      intro sb hsb
      have hl : sb.1.length = a.ndim := hla _ (hsubA _ (List.mem_map.mpr ⟨sb, hsb, rfl⟩))
      exact (permuted_eq_map _ _ (by rw [hl]; exact hA) (0, 0)).symm
    have eB : (dropMisaligned a b xa xb).2.blocks.map (fun sb => xb.map (fun ax => sb.1.getD ax (0, 0)))
        = subKeys (dropMisaligned a b xa xb).2 xb := by
      simp only [subKeys, Arr.sectors, List.map_map]
      apply List.map_congr_left
      intro sb hsb
      have hl : sb.1.length = b.ndim := hlb _ (hsubB _ (List.mem_map.mpr ⟨sb, hsb, rfl⟩))
      exact (permuted_eq_map _ _ (by rw [hl]; exact hB) (0, 0)).symm
    rw [eA, eB]
    exact aligned_keys a b xa xb K
  -- the two group lists
  have hpA : (freeAxes a.ndim xa ++ xa).Perm (List.range (dropMisaligned a b xa xb).1.ndim) := by
    rw [n1]; have := ValidP.without_append_perm hnA hA; rwa [without_range] at this
  have hpB : (xb ++ freeAxes b.ndim xb).Perm (List.range (dropMisaligned a b xa xb).2.ndim) := by
    rw [n2]; have := ValidP.without_append_perm hnB hB
    rw [without_range] at this; exact List.perm_append_comm.trans this
  obtain ⟨hokA, hposA⟩ := cover_groupsOk hpA (Or.inr hneK)
  obtain ⟨hokB, hposB⟩ := cover_groupsOk hpB (Or.inl hneKb)
  have hgA : ([freeAxes a.ndim xa, xa].filter (fun g => !g.isEmpty))[if (freeAxes a.ndim xa).isEmpty then 0 else 1]?
      = some xa := by
    cases hl : freeAxes a.ndim xa with
    | nil => cases xa with
      | nil => exact absurd rfl hneK
      | cons x xs => simp
    | cons y ys => cases xa with
      | nil => exact absurd rfl hneK
      | cons x xs => simp
  have hgB : ([xb, freeAxes b.ndim xb].filter (fun g => !g.isEmpty))[0]? = some xb := by
    cases xb with
    | nil => exact absurd rfl hneKb
    | cons x xs => simp
  have hneGA : ([freeAxes a.ndim xa, xa].filter (fun g => !g.isEmpty)).isEmpty = false := by
    cases hG : [freeAxes a.ndim xa, xa].filter (fun g => !g.isEmpty) with
    | nil => rw [hG] at hgA; simp at hgA
    | cons _ _ => rfl
  have hneGB : ([xb, freeAxes b.ndim xb].filter (fun g => !g.isEmpty)).isEmpty = false := by
    cases hG : [xb, freeAxes b.ndim xb].filter (fun g => !g.isEmpty) with
    | nil => rw [hG] at hgB; simp at hgB
    | cons _ _ => rfl
  refine ⟨FuseP.fusedArrM (dropMisaligned a b xa xb).1 ([freeAxes a.ndim xa, xa].filter (fun g => !g.isEmpty)),
    FuseP.fusedArrM (dropMisaligned a b xa xb).2 ([xb, freeAxes b.ndim xb].filter (fun g => !g.isEmpty)),
    ?_, ?_, ?_⟩
  · rw [C05.fuseA_noexpand, hneGA]; exact FuseP.fuseCore_multi_eq hvA hokA
  · rw [C05.fuseA_noexpand, hneGB]; exact FuseP.fuseCore_multi_eq hvB hokB
  -- the bond indices are `ixM`
  have eIA : (FuseP.fusedArrM (dropMisaligned a b xa xb).1 ([freeAxes a.ndim xa, xa].filter (fun g => !g.isEmpty))).indices.getD
      (if (freeAxes a.ndim xa).isEmpty then 0 else 1) default
      = FuseP.ixM (dropMisaligned a b xa xb).1 ([freeAxes a.ndim xa, xa].filter (fun g => !g.isEmpty))
          (if (freeAxes a.ndim xa).isEmpty then 0 else 1) := by
    show (FuseP.newIdxM _ _).getD _ default = _
    simp only [FuseP.ixM, hposA, Nat.zero_add]
  have eIB : (FuseP.fusedArrM (dropMisaligned a b xa xb).2 ([xb, freeAxes b.ndim xb].filter (fun g => !g.isEmpty))).indices.getD
      0 default
      = FuseP.ixM (dropMisaligned a b xa xb).2 ([xb, freeAxes b.ndim xb].filter (fun g => !g.isEmpty)) 0 := by
    show (FuseP.newIdxM _ _).getD _ default = _
    simp only [FuseP.ixM, hposB, Nat.zero_add]
  rw [eIA, eIB]
  by_cases hl1 : xa.length = 1
  · have hl1B : xb.length = 1 := by rw [← hlen]; exact hl1
    rw [FuseP.ixM_single hokA hgA hl1, FuseP.ixM_single hokB hgB hl1B]
    refine ⟨?_, ?_, hcm, hdual, fun hne => absurd hl1 hne⟩
    · match xa, xb, hl1, hl1B, hcm with
      | [i], [j], _, _, hcm =>
        simp only [List.map_cons, List.map_nil, List.cons.injEq, and_true] at hcm
        exact hcm
    · match xa, xb, hl1, hl1B, hdual with
      | [i], [j], _, _, hdual =>
        simp only [List.map_cons, List.map_nil, List.cons.injEq, and_true] at hdual
        simp only [List.headD_cons]
        rw [hdual]; simp
  · have hl1B : xb.length ≠ 1 := by rw [← hlen]; exact hl1
    obtain ⟨h1, h2, h3⟩ := fused_tables_match hvA hvB hsym hokA hokB hgA hgB hl1 hlen hcm hdual hkeys
    refine ⟨h1, h3, hcm, hdual, fun _ => ⟨FuseP.extsM _ _ _, FuseP.ixM_sub hokA hgA hl1, ?_, ?_⟩⟩
    · rw [h2]; exact FuseP.ixM_sub hokB hgB hl1B
    · intro c e he
      simp only [FuseP.extsM] at he
      rw [FuseP.ixM_multi hokA hgA hl1] at he
      exact FuseP.fusedIndexOf_sorted _ he

end TdotP
end SymmModel
