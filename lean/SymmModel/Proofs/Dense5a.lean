/-
  SymmModel.Proofs.Dense5a — the position map of `fuse_toDense` is injective and single-valued
  (property C08, fifth part).

  New names live in `SymmModel.Dense5`.
-/
import SymmModel.Proofs.Dense4a

namespace SymmModel
namespace Dense5
open FuseP DenseP Dense3 Dense4

variable {R : Type}

/-! ## `locateAll` is injective -/

theorem locate_inj {cm : List (Charge × Nat)} (hnd : (cm.map (·.1)).Nodup) {p p' : Nat}
    {c : Charge} {o : Nat} (h : Arr.locate cm p = some (c, o)) (h' : Arr.locate cm p' = some (c, o)) :
    p = p' := by
  have e1 := Arr.position_locate hnd h
  have e2 := Arr.position_locate hnd h'
  rw [e1] at e2
  exact Option.some.inj e2

theorem locateAll_inj {idx : List Index} (hnd : ∀ ix ∈ idx, (ix.cm.map (·.1)).Nodup)
    {p p' : List Nat} (hp : p.length = idx.length) (hp' : p'.length = idx.length)
    {s : Sector} {off : List Nat} (h : Arr.locateAll idx p = some (s, off))
    (h' : Arr.locateAll idx p' = some (s, off)) : p = p' := by
  induction idx generalizing p p' s off with
  | nil =>
    cases p with
    | nil => cases p' with
      | nil => rfl
      | cons _ _ => simp at hp'
    | cons _ _ => simp at hp
  | cons ix idx ih =>
    cases p with
    | nil => simp at hp
    | cons q p =>
      cases p' with
      | nil => simp at hp'
      | cons q' p' =>
        rw [Arr.locateAll_cons] at h h'
        cases hco : Arr.locate (Index.sortCm ix.cm) q with
        | none => simp [hco] at h
        | some co =>
          cases hso : Arr.locateAll idx p with
          | none => simp [hco, hso] at h
          | some sf =>
            cases hco' : Arr.locate (Index.sortCm ix.cm) q' with
            | none => simp [hco'] at h'
            | some co' =>
              cases hso' : Arr.locateAll idx p' with
              | none => simp [hco', hso'] at h'
              | some sf' =>
                simp only [hco, hso, hco', hso', Option.bind_some, Option.map_some,
                  Option.some.injEq, Prod.mk.injEq] at h h'
                obtain ⟨c, o⟩ := co
                obtain ⟨c', o'⟩ := co'
                obtain ⟨sr, offr⟩ := sf
                obtain ⟨sr', offr'⟩ := sf'
                simp only at h h'
                rw [← h.1, ← h.2] at h'
                simp only [List.cons.injEq] at h'
                obtain ⟨⟨rfl, rfl⟩, ⟨rfl, rfl⟩⟩ := h'
                have e1 : q = q' :=
                  locate_inj (nodup_keys_sortCm (hnd ix (by simp))) hco hco'
                have e2 : p = p' := ih (fun ix' h'' => hnd ix' (by simp [h''])) (by simpa using hp)
                  (by simpa using hp') hso hso'
                rw [e1, e2]

/-! ## the relation between an address of `a` and an address of `fuse a` -/

/-- the address `(s, offs)` of the original and the address `(ns, i)` of the fused array are tied
    by the fused indices' own tables — the relation of `fuse_toDense` -/
def FuseRel (a x : Arr R) (groups : List (List Nat)) (s : Sector) (offs : List Nat) (ns : Sector)
    (i : List Nat) : Prop :=
  let gi := calcFuseGroupInfo groups a.duals
  (∀ g gaxes, groups[g]? = some gaxes → gaxes.length ≠ 1 →
      splitAddr (x.indices.getD (gi.position + g) default) (ns.getD (gi.position + g) (0, 0))
        (i.getD (gi.position + g) 0)
        = some (gaxes.map (fun ax => s.getD ax (0, 0)), gaxes.map (fun ax => offs.getD ax 0)))
  ∧ (∀ g gaxes, groups[g]? = some gaxes → gaxes.length = 1 →
      [ns.getD (gi.position + g) (0, 0)] = gaxes.map (fun ax => s.getD ax (0, 0))
      ∧ [i.getD (gi.position + g) 0] = gaxes.map (fun ax => offs.getD ax 0))
  ∧ permuted s gi.perm = ns.take gi.position
      ++ (groups.map (fun gaxes => gaxes.map (fun ax => s.getD ax (0, 0)))).flatten
      ++ ns.drop (gi.position + groups.length)
  ∧ permuted offs gi.perm = i.take gi.position
      ++ (groups.map (fun gaxes => gaxes.map (fun ax => offs.getD ax 0))).flatten
      ++ i.drop (gi.position + groups.length)

theorem map_congr_getElem? {α β : Type} (l : List α) (f1 f2 : α → β)
    (h : ∀ (g : Nat) (x : α), l[g]? = some x → f1 x = f2 x) : l.map f1 = l.map f2 := by
  apply List.map_congr_left
  intro x hx
  obtain ⟨g, hg⟩ := List.mem_iff_getElem?.mp hx
  exact h g x hg

/-- **injective**: two addresses of the original tied to the same address of the fused array are
    equal -/
theorem fuseRel_injective (a x : Arr R) (groups : List (List Nat))
    (hok : GroupsOk groups a.ndim) {s1 s2 : Sector} {offs1 offs2 : List Nat} {ns : Sector}
    {i : List Nat} (hs1 : s1.length = a.ndim) (hs2 : s2.length = a.ndim)
    (ho1 : offs1.length = a.ndim) (ho2 : offs2.length = a.ndim)
    (h1 : FuseRel a x groups s1 offs1 ns i) (h2 : FuseRel a x groups s2 offs2 ns i) :
    s1 = s2 ∧ offs1 = offs2 := by
  obtain ⟨m1, g1, k1, j1⟩ := h1
  obtain ⟨m2, g2, k2, j2⟩ := h2
  have hisp := perm_isPerm (hokD (a := a) hok)
  rw [duals_length] at hisp
  have hseg : ∀ (g : Nat) (gaxes : List Nat), groups[g]? = some gaxes →
      gaxes.map (fun ax => s1.getD ax (0, 0)) = gaxes.map (fun ax => s2.getD ax (0, 0))
      ∧ gaxes.map (fun ax => offs1.getD ax 0) = gaxes.map (fun ax => offs2.getD ax 0) := by
    intro g gaxes hg
    by_cases hlen : gaxes.length = 1
    · obtain ⟨a1, b1⟩ := g1 g gaxes hg hlen
      obtain ⟨a2, b2⟩ := g2 g gaxes hg hlen
      exact ⟨a1.symm.trans a2, b1.symm.trans b2⟩
    · have e1 := m1 g gaxes hg hlen
      have e2 := m2 g gaxes hg hlen
      rw [e1] at e2
      simp only [Option.some.injEq, Prod.mk.injEq] at e2
      exact e2
  have hK : (groups.map (fun gaxes => gaxes.map (fun ax => s1.getD ax (0, 0))))
      = groups.map (fun gaxes => gaxes.map (fun ax => s2.getD ax (0, 0))) :=
    map_congr_getElem? groups _ _ (fun g x hg => (hseg g x hg).1)
  have hJ : (groups.map (fun gaxes => gaxes.map (fun ax => offs1.getD ax 0)))
      = groups.map (fun gaxes => gaxes.map (fun ax => offs2.getD ax 0)) :=
    map_congr_getElem? groups _ _ (fun g x hg => (hseg g x hg).2)
  rw [hK] at k1
  rw [hJ] at j1
  exact ⟨permuted_inj hisp hs1 hs2 (k1.trans k2.symm), permuted_inj hisp ho1 ho2 (j1.trans j2.symm)⟩

/-- **single-valued**: an address of the original is tied to at most one address of the fused
    array (for fused indices that are well formed — they are, for a valid original) -/
theorem fuseRel_functional (a x : Arr R) (groups : List (List Nat)) (sym : Sym)
    (hwf : ∀ g gaxes, groups[g]? = some gaxes → gaxes.length ≠ 1 →
      Index.wfB sym (x.indices.getD ((calcFuseGroupInfo groups a.duals).position + g) default) = true)
    {s : Sector} {offs : List Nat} {ns1 ns2 : Sector} {i1 i2 : List Nat} {n : Nat}
    (hn : n = (calcFuseGroupInfo groups a.duals).position + groups.length
      + (n - ((calcFuseGroupInfo groups a.duals).position + groups.length)))
    (hl1 : ns1.length = n) (hl2 : ns2.length = n) (hi1 : i1.length = n) (hi2 : i2.length = n)
    (h1 : FuseRel a x groups s offs ns1 i1) (h2 : FuseRel a x groups s offs ns2 i2) :
    ns1 = ns2 ∧ i1 = i2 := by
  obtain ⟨m1, g1, k1, j1⟩ := h1
  obtain ⟨m2, g2, k2, j2⟩ := h2
  generalize hpos : (calcFuseGroupInfo groups a.duals).position = pos at *
  have hpn : pos + groups.length ≤ n := by omega
  -- front and back parts
  have eK := k1.symm.trans k2
  have eJ := j1.symm.trans j2
  obtain ⟨ka, _, kc⟩ := parts_inj eK (by simp [hl1, hl2]) (by simp [hl1, hl2])
  obtain ⟨ja, _, jc⟩ := parts_inj eJ (by simp [hi1, hi2]) (by simp [hi1, hi2])
  -- the group positions
  have hmid : ∀ g, g < groups.length →
      ns1.getD (pos + g) (0, 0) = ns2.getD (pos + g) (0, 0) ∧ i1.getD (pos + g) 0 = i2.getD (pos + g) 0 := by
    intro g hg
    have hgg : groups[g]? = some groups[g] := List.getElem?_eq_getElem hg
    by_cases hlen : groups[g].length = 1
    · obtain ⟨a1, b1⟩ := g1 g _ hgg hlen
      obtain ⟨a2, b2⟩ := g2 g _ hgg hlen
      have ea := a1.trans a2.symm
      have eb := b1.trans b2.symm
      simp only [List.cons.injEq, and_true] at ea eb
      exact ⟨ea, eb⟩
    · have e1 := m1 g _ hgg hlen
      have e2 := m2 g _ hgg hlen
      have hw := hwf g _ hgg hlen
      obtain ⟨hj1, subs, exts, shp, hs, _, _, hc1⟩ := joinAddr_splitAddr hw e1
      obtain ⟨hj2, subs', exts', shp', hs', _, _, hc2⟩ := joinAddr_splitAddr hw e2
      rw [hs] at hs'
      simp only [Option.some.injEq, Prod.mk.injEq] at hs'
      obtain ⟨rfl, rfl⟩ := hs'
      have hcc : ns1.getD (pos + g) (0, 0) = ns2.getD (pos + g) (0, 0) := by rw [← hc1, ← hc2]
      rw [hcc] at hj1
      rw [hj1] at hj2
      exact ⟨hcc, by simpa using hj2⟩
  constructor
  · apply list_ext_getD (0, 0) (by rw [hl1, hl2])
    intro k hk
    rw [hl1] at hk
    by_cases h1 : k < pos
    · have := congrArg (fun l => l.getD k (0, 0)) ka
      simpa [List.getD_eq_getElem?_getD, List.getElem?_take, h1] using this
    · by_cases h2 : k < pos + groups.length
      · have := (hmid (k - pos) (by omega)).1
        rwa [show pos + (k - pos) = k by omega] at this
      · have := congrArg (fun l => l.getD (k - (pos + groups.length)) (0, 0)) kc
        simp only [List.getD_eq_getElem?_getD, List.getElem?_drop] at this
        rwa [show pos + groups.length + (k - (pos + groups.length)) = k by omega] at this
  · apply list_ext_getD 0 (by rw [hi1, hi2])
    intro k hk
    rw [hi1] at hk
    by_cases h1 : k < pos
    · have := congrArg (fun l => l.getD k 0) ja
      simpa [List.getD_eq_getElem?_getD, List.getElem?_take, h1] using this
    · by_cases h2 : k < pos + groups.length
      · have := (hmid (k - pos) (by omega)).2
        rwa [show pos + (k - pos) = k by omega] at this
      · have := congrArg (fun l => l.getD (k - (pos + groups.length)) 0) jc
        simp only [List.getD_eq_getElem?_getD, List.getElem?_drop] at this
        rwa [show pos + groups.length + (k - (pos + groups.length)) = k by omega] at this

end Dense5
end SymmModel
