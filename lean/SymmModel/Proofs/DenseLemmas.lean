/-
  SymmModel.Proofs.DenseLemmas — helper lemmas for properties C08 and C16.

  Layers (DESIGN §3.6): L0 box / `allIdx` / `ravel`, association lists; L1 get-characterisations
  of `Blk.ofFn`, `map`, `zipWith`, `mulAxisK`, `transposeK`; L2 `locate` on a chargemap is a
  bijection box ↔ addresses, `locateAll`; L3 `Arr.elem` under mapping / merging / dropping blocks.
  All statements are about the definitions in `Model/` (nothing is redefined here).
-/
import SymmModel.Model.Tdot
import SymmModel.Model.Construct
import SymmModel.Model.GRat
import SymmModel.Model.Valid
import SymmModel.Proofs.SymLemmas
import Mathlib.Data.List.Perm.Basic
import Mathlib.Data.List.Perm.Subperm
import Mathlib.Data.List.Nodup

namespace SymmModel

/-! ## L0: the box, `ravel`, `allIdx` -/

theorem inBox_length : ∀ {s i : List Nat}, inBox s i = true → i.length = s.length
  | [], [], _ => rfl
  | [], _ :: _, h => by simp [inBox] at h
  | _ :: _, [], h => by simp [inBox] at h
  | _ :: ds, _ :: is, h => by
    simp only [inBox, Bool.and_eq_true] at h
    simp [inBox_length h.2]

theorem inBox_cons {d : Nat} {ds : List Nat} {j : Nat} {is : List Nat} :
    inBox (d :: ds) (j :: is) = true ↔ j < d ∧ inBox ds is = true := by
  simp [inBox]

theorem inBox_iff {s i : List Nat} :
    inBox s i = true ↔ i.length = s.length ∧ ∀ k, k < s.length → i.getD k 0 < s.getD k 0 := by
  induction s generalizing i with
  | nil => cases i <;> simp [inBox]
  | cons d ds ih =>
    cases i with
    | nil => simp [inBox]
    | cons j is =>
      rw [inBox_cons, ih]
      constructor
      · rintro ⟨hj, hl, hk⟩
        refine ⟨by simp [hl], fun k hk' => ?_⟩
        cases k with
        | zero => simpa using hj
        | succ k => simpa using hk k (by simpa using hk')
      · rintro ⟨hl, hk⟩
        refine ⟨by simpa using hk 0 (by simp), by simpa using hl, fun k hk' => ?_⟩
        simpa using hk (k + 1) (by simpa using hk')

theorem ravel_lt : ∀ {s i : List Nat}, inBox s i = true → ravel s i < prod s
  | [], [], _ => by simp [ravel, prod]
  | [], _ :: _, h => by simp [inBox] at h
  | _ :: _, [], h => by simp [inBox] at h
  | d :: ds, j :: is, h => by
    rw [inBox_cons] at h
    have ih := ravel_lt h.2
    simp only [ravel, prod]
    have : (j + 1) * prod ds ≤ d * prod ds := Nat.mul_le_mul_right _ h.1
    rw [Nat.add_mul] at this
    omega

theorem length_flatMap_uniform {α β : Type} (l : List α) (f : α → List β) (n : Nat)
    (hf : ∀ a ∈ l, (f a).length = n) : (l.flatMap f).length = l.length * n := by
  induction l with
  | nil => simp
  | cons a l ih =>
    simp only [List.flatMap_cons, List.length_append, List.length_cons]
    rw [hf a (by simp), ih (fun b hb => hf b (by simp [hb])), Nat.add_mul]
    omega

theorem getElem?_flatMap_uniform {α β : Type} (l : List α) (f : α → List β) (n : Nat)
    (hf : ∀ a ∈ l, (f a).length = n) (j r : Nat) (hr : r < n) :
    (l.flatMap f)[j * n + r]? = l[j]?.bind (fun a => (f a)[r]?) := by
  induction l generalizing j with
  | nil => simp
  | cons a l ih =>
    have ha := hf a (by simp)
    simp only [List.flatMap_cons]
    cases j with
    | zero =>
      simp only [Nat.zero_mul, Nat.zero_add, List.getElem?_cons_zero, Option.bind_some]
      rw [List.getElem?_append_left (by omega)]
    | succ j =>
      rw [List.getElem?_append_right (by rw [ha, Nat.add_mul]; omega)]
      have : (j + 1) * n + r - (f a).length = j * n + r := by rw [ha, Nat.add_mul]; omega
      rw [this, ih (fun b hb => hf b (by simp [hb]))]
      simp

theorem length_allIdx : ∀ s : List Nat, (allIdx s).length = prod s
  | [] => rfl
  | d :: ds => by
    simp only [allIdx, prod]
    rw [length_flatMap_uniform _ _ (prod ds) (fun a _ => by simp [length_allIdx ds])]
    simp

/-- `allIdx` enumerates the box in C order: the multi-index at flat position `ravel s i` is `i` -/
theorem allIdx_getElem?_ravel : ∀ {s i : List Nat}, inBox s i = true → (allIdx s)[ravel s i]? = some i
  | [], [], _ => rfl
  | [], _ :: _, h => by simp [inBox] at h
  | _ :: _, [], h => by simp [inBox] at h
  | d :: ds, j :: is, h => by
    rw [inBox_cons] at h
    simp only [allIdx, ravel]
    rw [getElem?_flatMap_uniform _ _ (prod ds) (fun a _ => by simp [length_allIdx ds]) _ _ (ravel_lt h.2)]
    simp [List.getElem?_range h.1, allIdx_getElem?_ravel h.2]

theorem mem_allIdx {s i : List Nat} : i ∈ allIdx s ↔ inBox s i = true := by
  induction s generalizing i with
  | nil => cases i <;> simp [allIdx, inBox]
  | cons d ds ih =>
    simp only [allIdx, List.mem_flatMap, List.mem_range, List.mem_map]
    constructor
    · rintro ⟨j, hj, r, hr, rfl⟩
      exact inBox_cons.mpr ⟨hj, ih.mp hr⟩
    · intro h
      cases i with
      | nil => simp [inBox] at h
      | cons j is =>
        rw [inBox_cons] at h
        exact ⟨j, h.1, is, ih.mpr h.2, rfl⟩

/-! ## L1: blocks -/

namespace Blk
variable {R : Type}

@[simp] theorem shape_ofFn (s : List Nat) (f : List Nat → R) : (ofFn s f).shape = s := rfl

theorem wf_ofFn (s : List Nat) (f : List Nat → R) : (ofFn s f).wf = true := by
  simp [wf, ofFn, length_allIdx]

/-- a tabulated block returns the tabulated function on its box -/
theorem get_ofFn [Zero R] (s : List Nat) (f : List Nat → R) {i : List Nat} (h : inBox s i = true) :
    (ofFn s f).get i = f i := by
  simp only [get, ofFn, Array.getD_eq_getD_getElem?, List.getElem?_toArray, List.getElem?_map,
    allIdx_getElem?_ravel h, Option.map_some, Option.getD_some]

@[simp] theorem shape_map {S : Type} (f : R → S) (b : Blk R) : (b.map f).shape = b.shape := rfl

/-- `map` with a zero-preserving function commutes with `get` at every multi-index -/
theorem get_map [Zero R] (f : R → R) (hf : f 0 = 0) (b : Blk R) (i : List Nat) :
    (b.map f).get i = f (b.get i) := by
  simp only [get, map, Array.getD_eq_getD_getElem?, Array.getElem?_map]
  cases b.data[ravel b.shape i]? <;> simp [hf]

@[simp] theorem shape_zipWith [Zero R] (f : R → R → R) (a b : Blk R) :
    (zipWith f a b).shape = a.shape := rfl

theorem get_zipWith [Zero R] (f : R → R → R) (a b : Blk R) {i : List Nat}
    (h : inBox a.shape i = true) : (zipWith f a b).get i = f (a.get i) (b.get i) := by
  simp only [zipWith, get_ofFn _ _ h]

@[simp] theorem shape_mulAxisK [Zero R] [Mul R] (b v : Blk R) (axis : Nat) :
    (b.mulAxisK v axis).shape = b.shape := rfl

theorem get_mulAxisK [Zero R] [Mul R] (b v : Blk R) (axis : Nat) {i : List Nat}
    (h : inBox b.shape i = true) : (b.mulAxisK v axis).get i = b.get i * v.get [i.getD axis 0] := by
  simp only [mulAxisK, get_ofFn _ _ h]

end Blk

/-! ## L0: association lists (`alookup`, `ainsert`, `adict`) with a lawful key equality -/

section alist
variable {κ β γ : Type} [BEq κ] [LawfulBEq κ]

omit [LawfulBEq κ] in
@[simp] theorem alookup_nil (k : κ) : alookup ([] : List (κ × β)) k = none := rfl

@[simp] theorem alookup_cons_self (k : κ) (v : β) (l : List (κ × β)) :
    alookup ((k, v) :: l) k = some v := by
  simp [alookup]

theorem alookup_cons_ne {k0 k : κ} (h : k0 ≠ k) (v : β) (l : List (κ × β)) :
    alookup ((k0, v) :: l) k = alookup l k := by
  simp [alookup, h]

theorem alookup_eq_some_mem {l : List (κ × β)} {k : κ} {v : β} (h : alookup l k = some v) :
    (k, v) ∈ l := by
  induction l with
  | nil => simp at h
  | cons q l ih =>
    obtain ⟨k0, v0⟩ := q
    by_cases e : k0 = k
    · subst e; simp only [alookup_cons_self, Option.some.injEq] at h; subst h; simp
    · rw [alookup_cons_ne e] at h; simp [ih h]

theorem alookup_isSome_iff {l : List (κ × β)} {k : κ} :
    (alookup l k).isSome = true ↔ k ∈ l.map (·.1) := by
  induction l with
  | nil => simp
  | cons q l ih =>
    obtain ⟨k0, v0⟩ := q
    by_cases e : k0 = k
    · subst e; simp
    · rw [alookup_cons_ne e, ih]
      simp only [List.map_cons, List.mem_cons]
      constructor
      · exact Or.inr
      · rintro (h | h)
        · exact absurd h.symm e
        · exact h

theorem alookup_eq_none_iff {l : List (κ × β)} {k : κ} :
    alookup l k = none ↔ k ∉ l.map (·.1) := by
  rw [← alookup_isSome_iff]; cases alookup l k <;> simp

theorem alookup_of_mem_nodup {l : List (κ × β)} (hnd : (l.map (·.1)).Nodup) {k : κ} {v : β}
    (h : (k, v) ∈ l) : alookup l k = some v := by
  induction l with
  | nil => simp at h
  | cons q l ih =>
    obtain ⟨k0, v0⟩ := q
    simp only [List.map_cons, List.nodup_cons] at hnd
    rcases List.mem_cons.mp h with e | h'
    · simp only [Prod.mk.injEq] at e; obtain ⟨rfl, rfl⟩ := e; simp
    · have : k0 ≠ k := by
        intro e; subst e
        exact hnd.1 (List.mem_map.mpr ⟨_, h', rfl⟩)
      rw [alookup_cons_ne this, ih hnd.2 h']

theorem alookup_append (l1 l2 : List (κ × β)) (k : κ) :
    alookup (l1 ++ l2) k = (alookup l1 k).or (alookup l2 k) := by
  induction l1 with
  | nil => simp
  | cons q l ih =>
    obtain ⟨k0, v0⟩ := q
    by_cases e : k0 = k
    · subst e; simp
    · simp [alookup_cons_ne e, ih]

/-- re-valuing every entry (keys kept) -/
theorem alookup_map_val (l : List (κ × β)) (g : κ → β → γ) (k : κ) :
    alookup (l.map (fun p => (p.1, g p.1 p.2))) k = (alookup l k).map (g k) := by
  induction l with
  | nil => simp
  | cons q l ih =>
    obtain ⟨k0, v0⟩ := q
    by_cases e : k0 = k
    · subst e; simp
    · simp [alookup_cons_ne e, ih]

theorem alookup_filter_key (l : List (κ × β)) (p : κ → Bool) (k : κ) :
    alookup (l.filter (fun q => p q.1)) k = if p k = true then alookup l k else none := by
  induction l with
  | nil => simp
  | cons q l ih =>
    obtain ⟨k0, v0⟩ := q
    simp only [List.filter_cons]
    by_cases e : k0 = k
    · subst e
      by_cases hp : p k0 = true <;> simp [hp, ih]
    · by_cases hp : p k0 = true <;> simp [hp, alookup_cons_ne e, ih]

/-- dropping / re-valuing entries where the decision to drop depends on the key only -/
theorem alookup_filterMap_key {δ : Type} (l : List (κ × β)) (sel : κ → Option δ)
    (f : κ → β → δ → γ) (k : κ) :
    alookup (l.filterMap (fun q => (sel q.1).map (fun d => (q.1, f q.1 q.2 d)))) k
      = (alookup l k).bind (fun b => (sel k).map (f k b)) := by
  induction l with
  | nil => simp
  | cons q l ih =>
    obtain ⟨k0, v0⟩ := q
    simp only [List.filterMap_cons]
    by_cases e : k0 = k
    · subst e
      cases hg : sel k0 with
      | none => simp [ih, hg]
      | some d => simp
    · cases hg : sel k0 <;> simp [alookup_cons_ne e, ih]

/-- variants for an arbitrary function that is pointwise of the required form (the model writes
    these functions with pattern-matching lambdas) -/
theorem alookup_map_val' (l : List (κ × β)) (F : κ × β → κ × γ) (g : κ → β → γ)
    (hF : ∀ q, F q = (q.1, g q.1 q.2)) (k : κ) :
    alookup (l.map F) k = (alookup l k).map (g k) := by
  rw [show F = (fun p => (p.1, g p.1 p.2)) from funext hF]; exact alookup_map_val l g k

theorem alookup_filter_key' (l : List (κ × β)) (P : κ × β → Bool) (p : κ → Bool)
    (hP : ∀ q, P q = p q.1) (k : κ) :
    alookup (l.filter P) k = if p k = true then alookup l k else none := by
  rw [show P = (fun q => p q.1) from funext hP]; exact alookup_filter_key l p k

theorem alookup_filterMap_key' {δ : Type} (l : List (κ × β)) (F : κ × β → Option (κ × γ))
    (sel : κ → Option δ) (f : κ → β → δ → γ)
    (hF : ∀ q, F q = (sel q.1).map (fun d => (q.1, f q.1 q.2 d))) (k : κ) :
    alookup (l.filterMap F) k = (alookup l k).bind (fun b => (sel k).map (f k b)) := by
  rw [show F = (fun q => (sel q.1).map (fun d => (q.1, f q.1 q.2 d))) from funext hF]
  exact alookup_filterMap_key l sel f k

theorem ainsert_of_not_mem (l : List (κ × β)) (k : κ) (v : β) (h : k ∉ l.map (·.1)) :
    ainsert l k v = l ++ [(k, v)] := by
  induction l with
  | nil => rfl
  | cons q l ih =>
    obtain ⟨k0, v0⟩ := q
    simp only [List.map_cons, List.mem_cons, not_or] at h
    have : (k0 == k) = false := by simpa using fun e => h.1 e.symm
    simp [ainsert, this, ih h.2]

theorem foldl_ainsert_of_nodup (acc ps : List (κ × β))
    (h : ((acc ++ ps).map (·.1)).Nodup) :
    ps.foldl (fun acc p => ainsert acc p.1 p.2) acc = acc ++ ps := by
  induction ps generalizing acc with
  | nil => simp
  | cons q ps ih =>
    obtain ⟨k0, v0⟩ := q
    have h1 : k0 ∉ acc.map (·.1) := by
      intro hm
      simp only [List.map_append, List.map_cons, List.nodup_append, List.mem_cons] at h
      exact h.2.2 _ hm _ (Or.inl rfl) rfl
    simp only [List.foldl_cons]
    rw [ainsert_of_not_mem _ _ _ h1, ih _ (by simpa using h)]
    simp

/-- a Python dict built from pairs with distinct keys is the list of pairs -/
theorem adict_of_nodup (ps : List (κ × β)) (h : (ps.map (·.1)).Nodup) : adict ps = ps := by
  have := foldl_ainsert_of_nodup [] ps (by simpa using h)
  simpa [adict] using this

end alist

/-! ## L2: index tables — `locate` is a bijection between positions and addresses -/

theorem sumN_perm {l1 l2 : List Nat} (h : l1.Perm l2) : sumN l1 = sumN l2 := by
  induction h with
  | nil => rfl
  | cons x _ ih => simp [sumN, ih]
  | swap x y l => simp only [sumN]; omega
  | trans _ _ ih1 ih2 => exact ih1.trans ih2

theorem sumN_append (l1 l2 : List Nat) : sumN (l1 ++ l2) = sumN l1 + sumN l2 := by
  induction l1 with
  | nil => simp [sumN]
  | cons a l ih => simp only [List.cons_append, sumN, ih]; omega

theorem insertSorted_perm {α : Type} (lt : α → α → Bool) (a : α) (l : List α) :
    (insertSorted lt a l).Perm (a :: l) := by
  induction l with
  | nil => simp [insertSorted]
  | cons b l ih =>
    simp only [insertSorted]
    split
    · exact (List.Perm.cons b ih).trans (List.Perm.swap a b l)
    · exact List.Perm.refl _

theorem isort_perm {α : Type} (lt : α → α → Bool) (l : List α) : (isort lt l).Perm l := by
  induction l with
  | nil => simp [isort]
  | cons a l ih => exact (insertSorted_perm lt a _).trans (List.Perm.cons a ih)

theorem sortCm_perm (cm : List (Charge × Nat)) : (Index.sortCm cm).Perm cm := isort_perm _ cm

theorem sumN_sortCm (cm : List (Charge × Nat)) :
    sumN ((Index.sortCm cm).map (·.2)) = sumN (cm.map (·.2)) :=
  sumN_perm ((sortCm_perm cm).map _)

theorem mem_sortCm {cm : List (Charge × Nat)} {x : Charge × Nat} : x ∈ Index.sortCm cm ↔ x ∈ cm :=
  (sortCm_perm cm).mem_iff

theorem nodup_keys_sortCm {cm : List (Charge × Nat)} (h : (cm.map (·.1)).Nodup) :
    ((Index.sortCm cm).map (·.1)).Nodup :=
  ((sortCm_perm cm).map _).nodup_iff.mpr h

namespace Arr

/-- inverse of `locate`: (charge, offset) ↦ position along the axis -/
def position : List (Charge × Nat) → Charge → Nat → Option Nat
  | [], _, _ => none
  | (k, d) :: rest, k0, o =>
      if k = k0 then (if o < d then some o else none)
      else (position rest k0 o).map (· + d)

/-- every position below the total size has an address -/
theorem locate_isSome {cm : List (Charge × Nat)} {p : Nat} (h : p < sumN (cm.map (·.2))) :
    ∃ c o, locate cm p = some (c, o) := by
  induction cm generalizing p with
  | nil => simp [sumN] at h
  | cons kd rest ih =>
    obtain ⟨k, d⟩ := kd
    simp only [locate]
    split
    · exact ⟨k, p, rfl⟩
    · apply ih; simp only [List.map_cons, sumN] at h; omega

/-- an address produced by `locate` names a charge of the table and an offset inside its size -/
theorem locate_spec {cm : List (Charge × Nat)} {p : Nat} {c : Charge} {o : Nat}
    (h : locate cm p = some (c, o)) : ∃ d, (c, d) ∈ cm ∧ o < d := by
  induction cm generalizing p with
  | nil => simp [locate] at h
  | cons kd rest ih =>
    obtain ⟨k, d⟩ := kd
    simp only [locate] at h
    split at h
    · rename_i hp
      simp only [Option.some.injEq, Prod.mk.injEq] at h
      obtain ⟨rfl, rfl⟩ := h
      exact ⟨d, by simp, hp⟩
    · obtain ⟨d', hm, ho⟩ := ih h
      exact ⟨d', by simp [hm], ho⟩

theorem locate_lt {cm : List (Charge × Nat)} {p : Nat} {c : Charge} {o : Nat}
    (h : locate cm p = some (c, o)) : p < sumN (cm.map (·.2)) := by
  induction cm generalizing p with
  | nil => simp [locate] at h
  | cons kd rest ih =>
    obtain ⟨k, d⟩ := kd
    simp only [locate] at h
    simp only [List.map_cons, sumN]
    split at h
    · omega
    · have := ih h; omega

theorem locate_mem_keys {cm : List (Charge × Nat)} {p : Nat} {c : Charge} {o : Nat}
    (h : locate cm p = some (c, o)) : c ∈ cm.map (·.1) := by
  obtain ⟨d, hm, _⟩ := locate_spec h
  exact List.mem_map.mpr ⟨_, hm, rfl⟩

/-- `position` undoes `locate` (distinct charges) -/
theorem position_locate {cm : List (Charge × Nat)} (hnd : (cm.map (·.1)).Nodup) {p : Nat}
    {c : Charge} {o : Nat} (h : locate cm p = some (c, o)) : position cm c o = some p := by
  induction cm generalizing p with
  | nil => simp [locate] at h
  | cons kd rest ih =>
    obtain ⟨k', d⟩ := kd
    simp only [List.map_cons, List.nodup_cons] at hnd
    simp only [locate] at h
    split at h
    · rename_i hp
      simp only [Option.some.injEq, Prod.mk.injEq] at h
      obtain ⟨rfl, rfl⟩ := h
      simp [position, hp]
    · rename_i hp
      have hk : k' ≠ c := by
        intro e; subst e
        exact hnd.1 (locate_mem_keys h)
      simp only [position, hk, if_false]
      rw [ih hnd.2 h]
      simp only [Option.map_some, Option.some.injEq]; omega

/-- `locate` undoes `position` -/
theorem locate_position {cm : List (Charge × Nat)} {c : Charge} {o p : Nat}
    (h : position cm c o = some p) : locate cm p = some (c, o) := by
  induction cm generalizing p with
  | nil => simp [position] at h
  | cons kd rest ih =>
    obtain ⟨k', d⟩ := kd
    simp only [position] at h
    split at h
    · rename_i hk; subst hk
      split at h
      · rename_i ho
        simp only [Option.some.injEq] at h; subst h
        simp [locate, ho]
      · simp at h
    · cases hq : position rest c o with
      | none => simp [hq] at h
      | some q =>
        simp only [hq, Option.map_some, Option.some.injEq] at h
        subst h
        have : ¬ (q + d < d) := by omega
        simp only [locate, this, if_false, Nat.add_sub_cancel]
        exact ih hq

/-- every address of the table has a position -/
theorem position_isSome {cm : List (Charge × Nat)} {c : Charge} {d o : Nat}
    (hnd : (cm.map (·.1)).Nodup) (hm : (c, d) ∈ cm) (ho : o < d) : ∃ p, position cm c o = some p := by
  induction cm with
  | nil => simp at hm
  | cons kd rest ih =>
    obtain ⟨k', d'⟩ := kd
    simp only [List.map_cons, List.nodup_cons] at hnd
    simp only [position]
    rcases List.mem_cons.mp hm with e | hm'
    · simp only [Prod.mk.injEq] at e; obtain ⟨rfl, rfl⟩ := e
      simp [ho]
    · have hk : k' ≠ c := by
        intro e; subst e
        exact hnd.1 (List.mem_map.mpr ⟨_, hm', rfl⟩)
      obtain ⟨p, hp⟩ := ih hnd.2 hm'
      exact ⟨p + d', by simp [hk, hp]⟩

/-! ### `locateAll` and `blockShape?` by recursion on the axes -/

@[simp] theorem locateAll_nil_nil : locateAll [] [] = some ([], []) := rfl

theorem locateAll_cons (ix : Index) (idx : List Index) (q : Nat) (p : List Nat) :
    locateAll (ix :: idx) (q :: p) =
      (locate (Index.sortCm ix.cm) q).bind (fun co =>
        (locateAll idx p).map (fun sf => (co.1 :: sf.1, co.2 :: sf.2))) := by
  simp only [locateAll, List.zipWith_cons_cons, List.mapM_cons, id]
  cases locate (Index.sortCm ix.cm) q with
  | none => simp
  | some co =>
    simp only [Option.bind_some, Option.bind_eq_bind]
    cases List.mapM id (List.zipWith (fun ix q => locate (Index.sortCm ix.cm) q) idx p) <;> simp

/-- `locateAll` is total on the box of the array's shape -/
theorem locateAll_isSome {idx : List Index} {p : List Nat}
    (h : inBox (idx.map Index.sizeTotal) p = true) :
    ∃ sec off, locateAll idx p = some (sec, off) := by
  induction idx generalizing p with
  | nil => cases p with
    | nil => exact ⟨[], [], rfl⟩
    | cons q p => simp [inBox] at h
  | cons ix idx ih =>
    cases p with
    | nil => simp [inBox] at h
    | cons q p =>
      rw [List.map_cons, inBox_cons] at h
      obtain ⟨c, o, hco⟩ := locate_isSome (cm := Index.sortCm ix.cm) (p := q)
        (by rw [sumN_sortCm]; exact h.1)
      obtain ⟨sec, off, hso⟩ := ih h.2
      exact ⟨c :: sec, o :: off, by simp [locateAll_cons, hco, hso]⟩

theorem locateAll_length {idx : List Index} {p : List Nat} {sec : Sector} {off : List Nat}
    (h : locateAll idx p = some (sec, off)) (hp : p.length = idx.length) :
    sec.length = idx.length ∧ off.length = idx.length := by
  induction idx generalizing p sec off with
  | nil =>
    cases p with
    | nil => simp only [locateAll_nil_nil, Option.some.injEq, Prod.mk.injEq] at h; simp [← h.1, ← h.2]
    | cons q p => simp at hp
  | cons ix idx ih =>
    cases p with
    | nil => simp at hp
    | cons q p =>
      rw [locateAll_cons] at h
      cases hco : locate (Index.sortCm ix.cm) q with
      | none => simp [hco] at h
      | some co =>
        cases hso : locateAll idx p with
        | none => simp [hco, hso] at h
        | some sf =>
          simp only [hco, hso, Option.bind_some, Option.map_some, Option.some.injEq,
            Prod.mk.injEq] at h
          have := ih hso (by simpa using hp)
          simp [← h.1, ← h.2, this]

theorem blockShape?_nil_nil : blockShape? [] [] = some [] := rfl

theorem blockShape?_cons (ix : Index) (idx : List Index) (c : Charge) (s : Sector) :
    blockShape? (ix :: idx) (c :: s) =
      (ix.sizeOf? c).bind (fun d => (blockShape? idx s).map (d :: ·)) := by
  simp only [blockShape?, List.length_cons, bne_iff_ne, ne_eq, Nat.add_right_cancel_iff,
    List.zipWith_cons_cons, List.mapM_cons, id]
  by_cases hl : idx.length = s.length
  · simp only [hl, not_true_eq_false, if_false]
    cases ix.sizeOf? c with
    | none => simp
    | some d =>
      simp only [Option.bind_some, Option.bind_eq_bind]
      cases List.mapM id (List.zipWith (fun ix c => ix.sizeOf? c) idx s) <;> simp
  · simp only [hl, not_false_eq_true, if_true]
    cases ix.sizeOf? c <;> simp

theorem blockShape?_shape_length {idx : List Index} {s : Sector} {shp : List Nat}
    (h : blockShape? idx s = some shp) : shp.length = idx.length := by
  induction idx generalizing s shp with
  | nil =>
    cases s with
    | nil => simp only [blockShape?_nil_nil, Option.some.injEq] at h; subst h; rfl
    | cons c s => simp [blockShape?] at h
  | cons ix idx ih =>
    cases s with
    | nil => simp [blockShape?] at h
    | cons c s =>
      rw [blockShape?_cons] at h
      cases hd : ix.sizeOf? c with
      | none => simp [hd] at h
      | some d =>
        cases hr : blockShape? idx s with
        | none => simp [hd, hr] at h
        | some shp' =>
          simp only [hd, hr, Option.bind_some, Option.map_some, Option.some.injEq] at h
          subst h; simp [ih hr]

theorem blockShape?_length {idx : List Index} {s : Sector} {shp : List Nat}
    (h : blockShape? idx s = some shp) : s.length = idx.length := by
  simp only [blockShape?] at h
  split at h
  · simp at h
  · rename_i hl; simpa using (by simpa using hl : idx.length = s.length).symm

/-- the address of an in-box position lies in the box of the block that its sector names -/
theorem locateAll_inBox {idx : List Index} (hnd : ∀ ix ∈ idx, (ix.cm.map (·.1)).Nodup)
    {p : List Nat} {sec : Sector} {off shp : List Nat} (hp : p.length = idx.length)
    (h : locateAll idx p = some (sec, off)) (hs : blockShape? idx sec = some shp) :
    inBox shp off = true := by
  induction idx generalizing p sec off shp with
  | nil =>
    cases p with
    | nil =>
      simp only [locateAll_nil_nil, Option.some.injEq, Prod.mk.injEq] at h
      obtain ⟨rfl, rfl⟩ := h
      simp only [blockShape?_nil_nil, Option.some.injEq] at hs
      subst hs; rfl
    | cons q p => simp at hp
  | cons ix idx ih =>
    cases p with
    | nil => simp at hp
    | cons q p =>
      rw [locateAll_cons] at h
      cases hco : locate (Index.sortCm ix.cm) q with
      | none => simp [hco] at h
      | some co =>
        cases hso : locateAll idx p with
        | none => simp [hco, hso] at h
        | some sf =>
          obtain ⟨c, o⟩ := co
          simp only [hco, hso, Option.bind_some, Option.map_some, Option.some.injEq,
            Prod.mk.injEq] at h
          obtain ⟨rfl, rfl⟩ := h
          rw [blockShape?_cons] at hs
          cases hd : ix.sizeOf? c with
          | none => simp [hd] at hs
          | some d =>
            cases hr : blockShape? idx sf.1 with
            | none => simp [hd, hr] at hs
            | some shp' =>
              simp only [hd, hr, Option.bind_some, Option.map_some, Option.some.injEq] at hs
              subst hs
              obtain ⟨d', hm, ho⟩ := locate_spec hco
              have hd' : alookup ix.cm c = some d' :=
                alookup_of_mem_nodup (hnd ix (by simp)) (mem_sortCm.mp hm)
              have : d = d' := by
                simp only [Index.sizeOf?] at hd
                rw [hd] at hd'; exact Option.some.inj hd'
              subst this
              exact inBox_cons.mpr ⟨ho, ih (fun ix' h' => hnd ix' (by simp [h']))
                (by simpa using hp) hso hr⟩

end Arr

/-! ## L3: the value view `Arr.elem` and densification -/

namespace Arr
variable {R : Type}

/-- value view of an abelian array (no pending signs): the stored entry, or zero -/
theorem elem_abelian [Zero R] [Neg R] (a : Arr R) (h : a.phases = []) (s : Sector) (off : List Nat) :
    a.elem s off = match alookup a.blocks s with
      | none => 0
      | some b => b.get off := by
  simp only [elem, h, alookup_nil]
  cases alookup a.blocks s <;> simp

/-- `toDenseA` succeeds exactly when no index has an empty charge table, and then it is the
    tabulation of the value view at the located address -/
theorem toDenseA_eq [Zero R] [Neg R] (a : Arr R) (raw : Bool)
    (h : a.indices.any (fun ix => ix.cm.isEmpty) = false) :
    toDenseA a raw = .ok (Blk.ofFn a.shape (fun p =>
      match locateAll a.indices p with
      | some (sec, off) =>
        if raw then ({ a with phases := [] } : Arr R).elem sec off else a.elem sec off
      | none => 0)) := by
  unfold toDenseA
  rw [if_neg (by simp [h])]
  rfl

theorem toDenseA_error [Zero R] [Neg R] (a : Arr R) (raw : Bool)
    (h : a.indices.any (fun ix => ix.cm.isEmpty) = true) : toDenseA a raw = .error Err.value := by
  simp [toDenseA, h]

/-- the bridge: the dense value at a position is the value view at the located address -/
theorem toDenseA_get [Zero R] [Neg R] (a : Arr R)
    (h : a.indices.any (fun ix => ix.cm.isEmpty) = false) :
    ∃ d, toDenseA a = .ok d ∧ d.shape = a.shape ∧
      ∀ p, inBox a.shape p = true →
        ∃ sec off, locateAll a.indices p = some (sec, off) ∧ d.get p = a.elem sec off := by
  refine ⟨_, toDenseA_eq a false h, rfl, fun p hp => ?_⟩
  obtain ⟨sec, off, hso⟩ := locateAll_isSome (idx := a.indices) (p := p) hp
  refine ⟨sec, off, hso, ?_⟩
  rw [Blk.get_ofFn _ _ hp, hso]
  simp

/-! ### the elementwise operations (block_core.py `_do_unary_op`, `__neg__`, `__mul__` by a
    scalar, `__truediv__`, `_binary_blockwise_op`).  The expressions are the ones the
    correspondence driver executes (`Driver/Ops.lean`, cases "neg", "smul", "sdiv", "add",
    "sub", "mul"), given a name so that theorems can mention them. -/

def negA [Neg R] (a : Arr R) : Arr R :=
  { a with blocks := a.blocks.map (fun (k, b) => (k, b.negK)) }

def smulA [Mul R] (a : Arr R) (s : R) : Arr R :=
  { a with blocks := a.blocks.map (fun (k, b) => (k, b.map (· * s))) }

def sdivA [Div R] (a : Arr R) (s : R) : Arr R :=
  { a with blocks := a.blocks.map (fun (k, b) => (k, b.map (· / s))) }

def binopA [Zero R] (f : R → R → R) (m : Missing) (x y : Arr R) : Except Err (Arr R) :=
  match binaryBlockwise (Blk.zipWith f) m x.blocks y.blocks with
  | .ok bl => .ok { x with blocks := bl }
  | .error e => .error e

def addA [Zero R] [Add R] (x y : Arr R) : Except Err (Arr R) := binopA (· + ·) .outer x y
def subA [Zero R] [Sub R] (x y : Arr R) : Except Err (Arr R) := binopA (· - ·) .strict x y
def mulA [Zero R] [Mul R] (x y : Arr R) : Except Err (Arr R) := binopA (· * ·) .inner x y

theorem alookup_mapVals (bl : List (Sector × Blk R)) (f : Blk R → Blk R) (s : Sector) :
    alookup (bl.map (fun (k, b) => (k, f b))) s = (alookup bl s).map f :=
  alookup_map_val' bl _ (fun _ b => f b) (fun ⟨_, _⟩ => rfl) s

/-- value view after mapping every block with `f`, when `f` commutes with `get` through `g` -/
theorem elem_mapVals [Zero R] [Neg R] (a a' : Arr R) (f : Blk R → Blk R) (g : R → R) (hg : g 0 = 0)
    (hf : ∀ b off, (f b).get off = g (b.get off))
    (hph : a.phases = []) (hph' : a'.phases = [])
    (hbl : a'.blocks = a.blocks.map (fun (k, b) => (k, f b))) (s : Sector) (off : List Nat) :
    a'.elem s off = g (a.elem s off) := by
  rw [elem_abelian a' hph', elem_abelian a hph, hbl, alookup_mapVals]
  cases alookup a.blocks s <;> simp [hg, hf]

end Arr

/-! ### `binaryBlockwise`: which blocks the result stores -/

section binary
variable {R : Type} {κ : Type} [BEq κ] [LawfulBEq κ]

theorem binaryBlockwise_outer (fn : Blk R → Blk R → Blk R) (x y : List (κ × Blk R)) :
    ∃ bl, binaryBlockwise fn .outer x y = .ok bl ∧ ∀ k, alookup bl k =
      match alookup x k, alookup y k with
      | some bx, some b => some (fn bx b)
      | some bx, none => some bx
      | none, o => o := by
  refine ⟨_, rfl, fun k => ?_⟩
  rw [alookup_append,
    alookup_map_val' x _ (fun k bx => match alookup y k with
        | some b => fn bx b
        | none => bx) (fun ⟨k, bx⟩ => by dsimp only; cases alookup y k <;> rfl),
    alookup_filter_key' y _ (fun k => (alookup x k).isNone) (fun ⟨_, _⟩ => rfl)]
  cases alookup x k <;> cases alookup y k <;> simp

theorem binaryBlockwise_inner (fn : Blk R → Blk R → Blk R) (x y : List (κ × Blk R)) :
    ∃ bl, binaryBlockwise fn .inner x y = .ok bl ∧ ∀ k, alookup bl k =
      match alookup x k, alookup y k with
      | some bx, some b => some (fn bx b)
      | _, _ => none := by
  refine ⟨_, rfl, fun k => ?_⟩
  rw [alookup_filterMap_key' x _ (fun k => alookup y k) (fun _ bx b => fn bx b)
    (fun ⟨k, bx⟩ => by dsimp only; cases alookup y k <;> rfl)]
  cases alookup x k <;> cases alookup y k <;> simp

/-- strict mode raises (a `ValueError`) unless both operands store exactly the same keys -/
theorem binaryBlockwise_strict (fn : Blk R → Blk R → Blk R) (x y : List (κ × Blk R)) :
    (binaryBlockwise fn .strict x y = .error Err.value ∧ ¬ ∀ k, k ∈ x.map (·.1) ↔ k ∈ y.map (·.1))
    ∨ (∃ bl, binaryBlockwise fn .strict x y = .ok bl ∧ (∀ k, k ∈ x.map (·.1) ↔ k ∈ y.map (·.1)) ∧
        ∀ k, alookup bl k =
          match alookup x k, alookup y k with
          | some bx, some b => some (fn bx b)
          | _, _ => none) := by
  simp only [binaryBlockwise]
  by_cases hx : x.any (fun (k, _) => (alookup y k).isNone) = true
  · left
    refine ⟨by rw [if_pos hx]; rfl, fun hk => ?_⟩
    obtain ⟨⟨k, b⟩, hm, hn⟩ := List.any_eq_true.mp hx
    simp only [Option.isNone_iff_eq_none, alookup_eq_none_iff] at hn
    exact hn ((hk k).mp (List.mem_map.mpr ⟨_, hm, rfl⟩))
  by_cases hy : y.any (fun (k, _) => (alookup x k).isNone) = true
  · left
    refine ⟨by rw [if_neg hx, if_pos hy]; rfl, fun hk => ?_⟩
    obtain ⟨⟨k, b⟩, hm, hn⟩ := List.any_eq_true.mp hy
    simp only [Option.isNone_iff_eq_none, alookup_eq_none_iff] at hn
    exact hn ((hk k).mpr (List.mem_map.mpr ⟨_, hm, rfl⟩))
  right
  have hkeys : ∀ k, k ∈ x.map (·.1) ↔ k ∈ y.map (·.1) := by
    intro k
    constructor
    · intro hm
      obtain ⟨⟨k', b⟩, hm', rfl⟩ := List.mem_map.mp hm
      by_contra hn
      exact hx (List.any_eq_true.mpr ⟨_, hm', by
        simpa only [Option.isNone_iff_eq_none, alookup_eq_none_iff] using hn⟩)
    · intro hm
      obtain ⟨⟨k', b⟩, hm', rfl⟩ := List.mem_map.mp hm
      by_contra hn
      exact hy (List.any_eq_true.mpr ⟨_, hm', by
        simpa only [Option.isNone_iff_eq_none, alookup_eq_none_iff] using hn⟩)
  refine ⟨_, by rw [if_neg hx, if_neg hy]; rfl, hkeys, fun k => ?_⟩
  rw [alookup_map_val' x _ (fun k bx => match alookup y k with
        | some b => fn bx b
        | none => bx) (fun ⟨k, bx⟩ => by dsimp only; cases alookup y k <;> rfl)]
  have := hkeys k
  rw [← alookup_isSome_iff, ← alookup_isSome_iff] at this
  cases hxk : alookup x k <;> cases hyk : alookup y k <;> simp_all

end binary

/-! ## sorting a chargemap -/

theorem Charge.lt_iff (a b : Charge) :
    Charge.lt a b = true ↔ a.1 < b.1 ∨ (a.1 = b.1 ∧ a.2 < b.2) := by
  simp [Charge.lt]

theorem Charge.lt_asymm {a b : Charge} (h : Charge.lt a b = true) : Charge.lt b a = false := by
  rw [Bool.eq_false_iff]; intro h'
  rw [Charge.lt_iff] at h h'; omega

theorem Charge.lt_trans {a b c : Charge} (h1 : Charge.lt a b = true) (h2 : Charge.lt b c = true) :
    Charge.lt a c = true := by
  rw [Charge.lt_iff] at *; omega

/-- `≤` (= not `>`) is transitive -/
theorem Charge.le_trans {a b c : Charge} (h1 : Charge.lt b a = false) (h2 : Charge.lt c b = false) :
    Charge.lt c a = false := by
  rw [Bool.eq_false_iff] at *
  rw [Ne, Charge.lt_iff] at *; omega

theorem Charge.eq_of_not_lt {a b : Charge} (h1 : Charge.lt a b = false) (h2 : Charge.lt b a = false) :
    a = b := by
  rw [Bool.eq_false_iff, Ne, Charge.lt_iff] at *
  obtain ⟨a1, a2⟩ := a; obtain ⟨b1, b2⟩ := b
  simp only [Prod.mk.injEq] at *; omega

/-- `insertSorted` keeps a `≤`-sorted chargemap sorted -/
theorem insertSorted_sorted (a : Charge × Nat) (l : List (Charge × Nat))
    (h : l.Pairwise (fun x y => Charge.lt y.1 x.1 = false)) :
    (insertSorted (fun a b => Charge.lt a.1 b.1) a l).Pairwise
      (fun x y => Charge.lt y.1 x.1 = false) := by
  induction l with
  | nil => simp [insertSorted]
  | cons b l ih =>
    rw [List.pairwise_cons] at h
    simp only [insertSorted]
    split
    · rename_i hba
      rw [List.pairwise_cons]
      refine ⟨fun x hx => ?_, ih h.2⟩
      rcases List.mem_cons.mp ((insertSorted_perm _ a l).mem_iff.mp hx) with e | hx'
      · subst e; exact Charge.lt_asymm hba
      · exact h.1 x hx'
    · rename_i hba
      have hba' : Charge.lt b.1 a.1 = false := by simpa using hba
      rw [List.pairwise_cons]
      refine ⟨fun x hx => ?_, List.pairwise_cons.mpr h⟩
      rcases List.mem_cons.mp hx with e | hx'
      · subst e; exact hba'
      · exact Charge.le_trans hba' (h.1 x hx')

theorem sortCm_sorted (cm : List (Charge × Nat)) :
    (Index.sortCm cm).Pairwise (fun x y => Charge.lt y.1 x.1 = false) := by
  induction cm with
  | nil => simp [Index.sortCm, isort]
  | cons a l ih => exact insertSorted_sorted a _ ih

/-- with distinct charges the sorted chargemap is strictly increasing in the charge -/
theorem sortCm_strict {cm : List (Charge × Nat)} (hnd : (cm.map (·.1)).Nodup) :
    ((Index.sortCm cm).map (·.1)).Pairwise (fun a b => Charge.lt a b = true) := by
  have h1 := sortCm_sorted cm
  have h2 : ((Index.sortCm cm).map (·.1)).Nodup := nodup_keys_sortCm hnd
  rw [List.pairwise_map]
  rw [List.Nodup, List.pairwise_map] at h2
  refine (h1.and h2).imp ?_
  rintro a b ⟨hle, hne⟩
  by_contra hlt
  exact hne (Charge.eq_of_not_lt (by simpa using hlt) hle)

/-- a `≤`-sorted chargemap is a fixed point of `sortCm` -/
theorem sortCm_of_sorted {cm : List (Charge × Nat)}
    (h : cm.Pairwise (fun x y => Charge.lt y.1 x.1 = false)) : Index.sortCm cm = cm := by
  induction cm with
  | nil => rfl
  | cons a l ih =>
    rw [List.pairwise_cons] at h
    show insertSorted _ a (Index.sortCm l) = a :: l
    rw [ih h.2]
    cases l with
    | nil => rfl
    | cons b l =>
      have := h.1 b (by simp)
      simp [insertSorted, this]

/-! ## C16: constructors -/

section construct
variable {R : Type}

theorem forIn_except_eq_foldlM {α σ ε : Type} (l : List α) (init : σ)
    (body : α → σ → Except ε (ForInStep σ)) (f : σ → α → Except ε σ)
    (h : ∀ a s, body a s = (f s a).map ForInStep.yield) :
    forIn l init body = l.foldlM f init := by
  induction l generalizing init with
  | nil => rfl
  | cons a l ih =>
    rw [List.forIn_cons, List.foldlM_cons, h]
    cases f init a with
    | error e => rfl
    | ok v => exact ih v

theorem foldlM_flatMap_except {α β σ ε : Type} (l : List α) (g : α → List β)
    (f : σ → β → Except ε σ) (init : σ) :
    (l.flatMap g).foldlM f init = l.foldlM (fun s a => (g a).foldlM f s) init := by
  induction l generalizing init with
  | nil => rfl
  | cons a l ih =>
    rw [List.flatMap_cons, List.foldlM_append, List.foldlM_cons]
    cases (g a).foldlM f init with
    | error e => rfl
    | ok v => exact ih v

/-- one step of the table inference of `from_blocks`: record size `e.1.2` for charge `e.1.1` on
    axis `e.2`, or fail when a different size was recorded before -/
def inferStep (maps : List (List (Charge × Nat))) (e : (Charge × Nat) × Nat) :
    Except Err (List (List (Charge × Nat))) :=
  match alookup (maps.getD e.2 []) e.1.1 with
  | none => .ok (maps.set e.2 (maps.getD e.2 [] ++ [(e.1.1, e.1.2)]))
  | some d0 => if e.1.2 != d0 then .error Err.value else .ok maps

/-- all `((charge, size), axis)` facts contained in the blocks, in the order Python visits them -/
def inferEntries (blocks : List (Sector × Blk R)) : List ((Charge × Nat) × Nat) :=
  blocks.flatMap (fun sb => (sb.1.zip sb.2.shape).zipIdx)

/-- the indices `from_blocks` infers (or the error it raises while doing so) -/
def inferIndices (blocks : List (Sector × Blk R)) (duals : List Bool) : Except Err (List Index) :=
  match blocks with
  | [] => .error Err.other
  | (s, _) :: _ =>
    match (inferEntries blocks).foldlM inferStep (List.replicate s.length []) with
    | .error e => .error e
    | .ok maps =>
      if duals.length != s.length then .error Err.value
      else .ok (List.zipWith (fun m d => Index.plain m d) maps duals)

/-- `from_blocks` = infer the indices, then call the constructor with the charge defaulted to
    the identity -/
theorem fromBlocks_eq (sym : Sym) (fermi : Bool) (blocks : List (Sector × Blk R))
    (duals : List Bool) (charge : Option Charge) (oddpos : List (Int × Bool)) :
    fromBlocks sym fermi blocks duals charge oddpos =
      match inferIndices blocks duals with
      | .error e => .error e
      | .ok indices => construct sym fermi indices (some (charge.getD sym.zero)) blocks oddpos := by
  cases blocks with
  | nil => rfl
  | cons sb rest =>
    obtain ⟨s0, b0⟩ := sb
    unfold fromBlocks inferIndices
    simp only [bind, Except.bind, pure, Except.pure]
    rw [forIn_except_eq_foldlM _ _ _
      (fun maps (sb : Sector × Blk R) => (sb.1.zip sb.2.shape).zipIdx.foldlM inferStep maps)]
    · rw [inferEntries, foldlM_flatMap_except]
      cases List.foldlM (fun maps (sb : Sector × Blk R) =>
          (sb.1.zip sb.2.shape).zipIdx.foldlM inferStep maps) (List.replicate s0.length [])
          ((s0, b0) :: rest) with
      | error e => rfl
      | ok maps =>
        dsimp only
        split <;> rfl
    · intro sb maps
      rw [forIn_except_eq_foldlM _ _ _ inferStep]
      · cases List.foldlM inferStep maps (sb.1.zip sb.2.shape).zipIdx <;> rfl
      · intro e m
        simp only [inferStep]
        cases alookup (m.getD e.2 []) e.1.1 with
        | none => rfl
        | some d0 =>
          dsimp only
          split <;> rfl

/-! ### what the inference loop computes -/

/-- the recorded facts are consistent: one size per (axis, charge) -/
def InferCons (maps : List (List (Charge × Nat))) (es : List ((Charge × Nat) × Nat)) : Prop :=
  ∀ c d d' i, i < maps.length → ((c, d), i) ∈ es →
    (((c, d'), i) ∈ es ∨ (c, d') ∈ maps.getD i []) → d = d'

theorem getD_set_nil {α : Type} (maps : List (List α)) (i j : Nat) (v : List α) :
    (maps.set i v).getD j [] = if i = j ∧ i < maps.length then v else maps.getD j [] := by
  simp only [List.getD_eq_getElem?_getD, List.getElem?_set]
  by_cases hij : i = j
  · subst hij
    by_cases hi : i < maps.length
    · simp [hi]
    · simp [hi]
  · simp [hij]

theorem prop_getD_nil {α : Type} {P : List α → Prop} {maps : List (List α)} (h : ∀ m ∈ maps, P m)
    (h0 : P []) (i : Nat) : P (maps.getD i []) := by
  rw [List.getD_eq_getElem?_getD]
  cases hi : maps[i]? with
  | none => exact h0
  | some m => exact h m (List.mem_of_getElem? hi)

theorem lt_of_mem_getD_nil {α : Type} {maps : List (List α)} {i : Nat} {x : α}
    (h : x ∈ maps.getD i []) : i < maps.length := by
  by_contra hn
  rw [List.getD_eq_getElem?_getD, List.getElem?_eq_none (by omega)] at h
  simp at h

theorem inferCons_iff_none {maps : List (List (Charge × Nat))} {es : List ((Charge × Nat) × Nat)}
    {c : Charge} {d i : Nat} (hl : alookup (maps.getD i []) c = none) :
    InferCons maps (((c, d), i) :: es) ↔
      InferCons (maps.set i (maps.getD i [] ++ [(c, d)])) es := by
  have hnk : ∀ d', (c, d') ∉ maps.getD i [] := fun d' hm =>
    (alookup_eq_none_iff.mp hl) (List.mem_map.mpr ⟨_, hm, rfl⟩)
  constructor
  · intro hc c1 d1 d1' i1 hi1 h1 h2
    rw [List.length_set] at hi1
    rcases h2 with h2 | h2
    · exact hc c1 d1 d1' i1 hi1 (List.mem_cons_of_mem _ h1) (Or.inl (List.mem_cons_of_mem _ h2))
    · rw [getD_set_nil] at h2
      split at h2
      · rename_i hij
        obtain ⟨rfl, _⟩ := hij
        rcases List.mem_append.mp h2 with h2 | h2
        · exact hc c1 d1 d1' i hi1 (List.mem_cons_of_mem _ h1) (Or.inr h2)
        · simp only [List.mem_singleton, Prod.mk.injEq] at h2
          obtain ⟨rfl, rfl⟩ := h2
          exact hc c1 d1 d1' i hi1 (List.mem_cons_of_mem _ h1) (Or.inl (by simp))
      · exact hc c1 d1 d1' i1 hi1 (List.mem_cons_of_mem _ h1) (Or.inr h2)
  · intro hc c1 d1 d1' i1 hi1 h1 h2
    have hin : ∀ {j}, j < maps.length → ∀ {x}, x ∈ maps.getD j [] →
        x ∈ (maps.set i (maps.getD i [] ++ [(c, d)])).getD j [] := by
      intro j _ x hx
      rw [getD_set_nil]
      split
      · rename_i hij; obtain ⟨rfl, _⟩ := hij; exact List.mem_append_left _ hx
      · exact hx
    have hnew : i < maps.length → (c, d) ∈ (maps.set i (maps.getD i [] ++ [(c, d)])).getD i [] := by
      intro hi
      rw [getD_set_nil, if_pos ⟨rfl, hi⟩]; simp
    have hlen : (maps.set i (maps.getD i [] ++ [(c, d)])).length = maps.length := List.length_set
    rcases List.mem_cons.mp h1 with e1 | h1t
    · simp only [Prod.mk.injEq] at e1
      obtain ⟨⟨rfl, rfl⟩, rfl⟩ := e1
      rcases h2 with h2 | h2
      · rcases List.mem_cons.mp h2 with e2 | h2t
        · simp only [Prod.mk.injEq] at e2; exact e2.1.2.symm
        · exact (hc c1 d1' d1 i1 (by omega) h2t (Or.inr (hnew hi1))).symm
      · exact absurd h2 (hnk d1')
    · rcases h2 with h2 | h2
      · rcases List.mem_cons.mp h2 with e2 | h2t
        · simp only [Prod.mk.injEq] at e2
          obtain ⟨⟨e2c, e2d⟩, e2i⟩ := e2
          rw [e2c, e2i] at h1t; rw [e2d]
          exact hc c d1 d i (by omega) h1t (Or.inr (hnew (e2i ▸ hi1)))
        · exact hc c1 d1 d1' i1 (by omega) h1t (Or.inl h2t)
      · exact hc c1 d1 d1' i1 (by omega) h1t (Or.inr (hin hi1 h2))

theorem inferCons_iff_some {maps : List (List (Charge × Nat))} {es : List ((Charge × Nat) × Nat)}
    (hnd : ∀ m ∈ maps, (m.map (·.1)).Nodup)
    {c : Charge} {d i : Nat} (hl : alookup (maps.getD i []) c = some d) :
    InferCons maps (((c, d), i) :: es) ↔ InferCons maps es := by
  have hm : (c, d) ∈ maps.getD i [] := alookup_eq_some_mem hl
  have hu : ∀ d', (c, d') ∈ maps.getD i [] → d' = d := by
    intro d' hm'
    have := alookup_of_mem_nodup (prop_getD_nil (P := fun (m : List (Charge × Nat)) => (m.map (·.1)).Nodup) hnd (by simp) i) hm'
    rw [hl] at this; exact (Option.some.inj this).symm
  constructor
  · intro hc c1 d1 d1' i1 hi1 h1 h2
    exact hc c1 d1 d1' i1 hi1 (List.mem_cons_of_mem _ h1)
      (h2.imp (List.mem_cons_of_mem _) id)
  · intro hc c1 d1 d1' i1 hi1 h1 h2
    rcases List.mem_cons.mp h1 with e1 | h1t
    · simp only [Prod.mk.injEq] at e1
      obtain ⟨⟨rfl, rfl⟩, rfl⟩ := e1
      rcases h2 with h2 | h2
      · rcases List.mem_cons.mp h2 with e2 | h2t
        · simp only [Prod.mk.injEq] at e2; exact e2.1.2.symm
        · exact (hc c1 d1' d1 i1 hi1 h2t (Or.inr hm)).symm
      · exact (hu d1' h2).symm
    · rcases h2 with h2 | h2
      · rcases List.mem_cons.mp h2 with e2 | h2t
        · simp only [Prod.mk.injEq] at e2
          obtain ⟨⟨e2c, e2d⟩, e2i⟩ := e2
          rw [e2c, e2i] at h1t; rw [e2d]
          exact hc c d1 d i (e2i ▸ hi1) h1t (Or.inr hm)
        · exact hc c1 d1 d1' i1 hi1 h1t (Or.inl h2t)
      · exact hc c1 d1 d1' i1 hi1 h1t (Or.inr h2)

/-- the inference loop succeeds exactly on consistent facts (otherwise it raises `ValueError`),
    and then axis `i` of the result lists, with distinct charges, exactly the recorded facts -/
theorem foldlM_inferStep (es : List ((Charge × Nat) × Nat)) (maps : List (List (Charge × Nat)))
    (hnd : ∀ m ∈ maps, (m.map (·.1)).Nodup) :
    (¬ InferCons maps es ∧ es.foldlM inferStep maps = .error Err.value)
    ∨ (InferCons maps es ∧ ∃ maps', es.foldlM inferStep maps = .ok maps'
        ∧ maps'.length = maps.length ∧ (∀ m ∈ maps', (m.map (·.1)).Nodup)
        ∧ ∀ i, i < maps.length → ∀ c d,
            (c, d) ∈ maps'.getD i [] ↔ ((c, d) ∈ maps.getD i [] ∨ ((c, d), i) ∈ es)) := by
  induction es generalizing maps with
  | nil =>
    right
    exact ⟨fun _ _ _ _ _ h => by simp at h, maps, rfl, rfl, hnd, fun i _ c d => by simp⟩
  | cons e es ih =>
    obtain ⟨⟨c, d⟩, i⟩ := e
    rw [List.foldlM_cons]
    cases hl : alookup (maps.getD i []) c with
    | none =>
      have hstep : inferStep maps ((c, d), i) = .ok (maps.set i (maps.getD i [] ++ [(c, d)])) := by
        simp only [inferStep, hl]
      have hnd1 : ∀ m ∈ maps.set i (maps.getD i [] ++ [(c, d)]), (m.map (·.1)).Nodup := by
        intro m hm
        rcases List.mem_or_eq_of_mem_set hm with hm | rfl
        · exact hnd m hm
        · have h1 := prop_getD_nil (P := fun (m : List (Charge × Nat)) => (m.map (·.1)).Nodup) hnd (by simp) i
          have h2 := alookup_eq_none_iff.mp hl
          rw [List.map_append, List.nodup_append]
          refine ⟨h1, by simp, ?_⟩
          intro a ha b hb
          simp only [List.map_cons, List.map_nil, List.mem_singleton] at hb
          subst hb
          exact fun e => h2 (e ▸ ha)
      rw [hstep, inferCons_iff_none hl]
      rcases ih _ hnd1 with ⟨hc, he⟩ | ⟨hc, maps', hok, hlen, hnd', hspec⟩
      · exact Or.inl ⟨hc, he⟩
      · refine Or.inr ⟨hc, maps', hok, by rw [hlen, List.length_set], hnd', fun j hj c' d' => ?_⟩
        rw [hspec j (by rw [List.length_set]; exact hj), getD_set_nil]
        by_cases hij : i = j ∧ i < maps.length
        · obtain ⟨rfl, _⟩ := hij
          simp only [*, if_true, List.mem_append, List.mem_cons, Prod.mk.injEq, and_true]
          tauto
        · simp only [hij, if_false, List.mem_cons, Prod.mk.injEq]
          constructor
          · rintro (h | h)
            · exact Or.inl h
            · exact Or.inr (Or.inr h)
          · rintro (h | ⟨⟨rfl, rfl⟩, rfl⟩ | h)
            · exact Or.inl h
            · exact absurd ⟨rfl, hj⟩ hij
            · exact Or.inr h
    | some d0 =>
      by_cases hd : d = d0
      · subst hd
        have hstep : inferStep maps ((c, d), i) = .ok maps := by
          simp only [inferStep, hl, bne_self_eq_false, Bool.false_eq_true, if_false]
        rw [hstep, inferCons_iff_some hnd hl]
        rcases ih _ hnd with ⟨hc, he⟩ | ⟨hc, maps', hok, hlen, hnd', hspec⟩
        · exact Or.inl ⟨hc, he⟩
        · refine Or.inr ⟨hc, maps', hok, hlen, hnd', fun j hj c' d' => ?_⟩
          rw [hspec j hj]
          simp only [List.mem_cons, Prod.mk.injEq]
          constructor
          · rintro (h | h)
            · exact Or.inl h
            · exact Or.inr (Or.inr h)
          · rintro (h | ⟨⟨rfl, rfl⟩, rfl⟩ | h)
            · exact Or.inl h
            · exact Or.inl (alookup_eq_some_mem hl)
            · exact Or.inr h
      · left
        have hstep : inferStep maps ((c, d), i) = .error Err.value := by
          simp only [inferStep, hl]
          rw [if_pos (by simpa using hd)]
        refine ⟨fun hc => hd ?_, by rw [hstep]; rfl⟩
        have hm := alookup_eq_some_mem hl
        exact hc c d d0 i (lt_of_mem_getD_nil hm) (by simp) (Or.inr hm)

theorem mem_inferEntries {blocks : List (Sector × Blk R)} {c : Charge} {d i : Nat} :
    ((c, d), i) ∈ inferEntries blocks ↔
      ∃ sb ∈ blocks, sb.1[i]? = some c ∧ sb.2.shape[i]? = some d := by
  simp only [inferEntries, List.mem_flatMap, List.mem_zipIdx_iff_getElem?,
    List.getElem?_zip_eq_some]

/-- blocks agree on the size of every charge on each of the first `n` axes -/
def SizesAgree (blocks : List (Sector × Blk R)) (n : Nat) : Prop :=
  ∀ sb ∈ blocks, ∀ sb' ∈ blocks, ∀ i, i < n → ∀ c d d',
    sb.1[i]? = some c → sb.2.shape[i]? = some d →
    sb'.1[i]? = some c → sb'.2.shape[i]? = some d' → d = d'

theorem inferCons_replicate_iff (blocks : List (Sector × Blk R)) (n : Nat) :
    InferCons (List.replicate n []) (inferEntries blocks) ↔ SizesAgree blocks n := by
  have hempty : ∀ i (x : Charge × Nat), x ∉ (List.replicate n ([] : List (Charge × Nat))).getD i [] := by
    intro i x hx
    rw [List.getD_eq_getElem?_getD] at hx
    cases hi : (List.replicate n ([] : List (Charge × Nat)))[i]? with
    | none => simp [hi] at hx
    | some m =>
      have := List.eq_of_mem_replicate (List.mem_of_getElem? hi)
      subst this; simp [hi] at hx
  constructor
  · intro hc sb hsb sb' hsb' i hi c d d' h1 h2 h3 h4
    exact hc c d d' i (by simpa using hi) (mem_inferEntries.mpr ⟨sb, hsb, h1, h2⟩)
      (Or.inl (mem_inferEntries.mpr ⟨sb', hsb', h3, h4⟩))
  · intro hs c d d' i hi h1 h2
    rcases h2 with h2 | h2
    · obtain ⟨sb, hsb, e1, e2⟩ := mem_inferEntries.mp h1
      obtain ⟨sb', hsb', e3, e4⟩ := mem_inferEntries.mp h2
      exact hs sb hsb sb' hsb' i (by simpa using hi) c d d' e1 e2 e3 e4
    · exact absurd h2 (hempty i _)

/-- the index tables `from_blocks` infers: it raises `StopIteration` on no blocks, `ValueError`
    when two blocks disagree on a size or `duals` has the wrong length; otherwise index `i` is a
    plain index with direction `duals[i]` whose chargemap lists — strictly sorted by charge —
    exactly the (charge, size) pairs occurring at position `i` of the blocks -/
theorem inferIndices_spec (s0 : Sector) (b0 : Blk R) (rest : List (Sector × Blk R))
    (duals : List Bool) :
    let blocks := (s0, b0) :: rest
    (¬ SizesAgree blocks s0.length ∧ inferIndices blocks duals = .error Err.value)
    ∨ (SizesAgree blocks s0.length ∧ duals.length ≠ s0.length
        ∧ inferIndices blocks duals = .error Err.value)
    ∨ (SizesAgree blocks s0.length ∧ duals.length = s0.length ∧
        ∃ idx, inferIndices blocks duals = .ok idx ∧ idx.length = s0.length ∧
          ∀ i, i < s0.length → ∃ ix, idx[i]? = some ix ∧ some ix.dual = duals[i]? ∧ ix.sub = none
            ∧ (∀ c d, (c, d) ∈ ix.cm ↔ ∃ sb ∈ blocks, sb.1[i]? = some c ∧ sb.2.shape[i]? = some d)
            ∧ (ix.cm.map (·.1)).Pairwise (fun a b => Charge.lt a b = true)) := by
  intro blocks
  have hnd0 : ∀ m ∈ List.replicate s0.length ([] : List (Charge × Nat)), (m.map (·.1)).Nodup := by
    intro m hm; rw [List.eq_of_mem_replicate hm]; simp
  rcases foldlM_inferStep (inferEntries blocks) _ hnd0 with ⟨hc, he⟩ | ⟨hc, maps, hok, hlen, hnd, hspec⟩
  · left
    rw [inferCons_replicate_iff] at hc
    exact ⟨hc, by simp only [inferIndices, blocks, he]⟩
  · right
    rw [inferCons_replicate_iff] at hc
    rw [List.length_replicate] at hlen
    by_cases hd : duals.length = s0.length
    · right
      refine ⟨hc, hd, List.zipWith (fun m d => Index.plain m d) maps duals, by
        simp only [inferIndices, blocks, hok, hd, bne_self_eq_false, Bool.false_eq_true, if_false],
        by simp [hlen, hd], fun i hi => ?_⟩
      have hm : i < maps.length := by omega
      have hdi : i < duals.length := by omega
      refine ⟨Index.plain maps[i] duals[i], by simp [List.getElem?_zipWith, hm, hdi], by
        simp [Index.plain, Index.dual, hdi], rfl, fun c d => ?_, ?_⟩
      · have := hspec i (by simpa using hi) c d
        simp only [List.getD_eq_getElem?_getD, List.getElem?_eq_getElem hm, Option.getD_some] at this
        show (c, d) ∈ Index.sortCm maps[i] ↔ _
        rw [mem_sortCm, this, mem_inferEntries]
        simp only [List.getElem?_replicate, hi, if_true, Option.getD_some, List.not_mem_nil,
          false_or]
      · exact sortCm_strict (hnd _ (List.getElem_mem hm))
    · left
      exact ⟨hc, hd, by
        simp only [inferIndices, blocks, hok]
        rw [if_pos (by simpa using hd)]⟩

/-! ### `construct` -/

theorem head?_key_ainsert {κ β : Type} [BEq κ] (q : κ × β) (acc : List (κ × β)) (k : κ) (v : β) :
    ((ainsert (q :: acc) k v).head?).map (·.1) = some q.1 := by
  obtain ⟨k0, v0⟩ := q
  simp only [ainsert]
  split <;> rfl

theorem head?_key_foldl_ainsert {κ β : Type} [BEq κ] (ps : List (κ × β)) (q : κ × β)
    (acc : List (κ × β)) :
    ((ps.foldl (fun acc p => ainsert acc p.1 p.2) (q :: acc)).head?).map (·.1) = some q.1 := by
  induction ps generalizing q acc with
  | nil => rfl
  | cons p ps ih =>
    simp only [List.foldl_cons]
    have h := head?_key_ainsert q acc p.1 p.2
    cases hq : ainsert (q :: acc) p.1 p.2 with
    | nil => simp [hq] at h
    | cons q' acc' =>
      rw [hq] at h
      simp only [List.head?_cons, Option.map_some, Option.some.injEq] at h
      rw [ih, h]

/-- the first key of a Python dict built from pairs is the first pair's key -/
theorem adict_head_key {κ β : Type} [BEq κ] (ps : List (κ × β)) :
    ((adict ps).head?).map (·.1) = (ps.head?).map (·.1) := by
  cases ps with
  | nil => rfl
  | cons p ps =>
    have : adict (p :: ps) = ps.foldl (fun acc p => ainsert acc p.1 p.2) [p] := by
      obtain ⟨k, v⟩ := p; rfl
    rw [this, head?_key_foldl_ainsert]; rfl

/-- the charge `__init__` ends up with -/
def resolvedCharge (sym : Sym) (indices : List Index) (charge : Option Charge)
    (blocks : List (Sector × Blk R)) : Charge :=
  match charge with
  | some c => c
  | none => match blocks with
    | (s, _) :: _ => Arr.sectorCharge sym (indices.map Index.dual) s
    | [] => sym.zero

theorem construct_eq (sym : Sym) (fermi : Bool) (indices : List Index) (charge : Option Charge)
    (blocks : List (Sector × Blk R)) (oddpos : List (Int × Bool)) :
    construct sym fermi indices charge blocks oddpos =
      if (fermi && sym.parity (resolvedCharge sym indices charge blocks) && oddpos.isEmpty) = true
      then .error Err.value
      else .ok { sym := sym, fermi := fermi, indices := indices,
                 charge := resolvedCharge sym indices charge blocks,
                 blocks := adict blocks, phases := [], oddpos := oddpos } := by
  have hnil : adict ([] : List (Sector × Blk R)) = [] := rfl
  cases charge with
  | some c =>
    unfold construct
    simp only [bind, Except.bind, pure, Except.pure]
    by_cases hh : (fermi && sym.parity c && oddpos.isEmpty) = true
    · rw [if_pos hh]; exact (if_pos hh).symm
    · rw [if_neg hh]; exact (if_neg hh).symm
  | none =>
    cases blocks with
    | nil =>
      unfold construct
      simp only [bind, Except.bind, pure, Except.pure, hnil]
      by_cases hh : (fermi && sym.parity sym.zero && oddpos.isEmpty) = true
      · rw [if_pos hh]; exact (if_pos hh).symm
      · rw [if_neg hh]; exact (if_neg hh).symm
    | cons p ps =>
      obtain ⟨s, b⟩ := p
      have h := adict_head_key ((s, b) :: ps)
      cases ha : adict ((s, b) :: ps) with
      | nil => simp [ha] at h
      | cons p' ps' =>
        obtain ⟨s', b'⟩ := p'
        simp only [ha, List.head?_cons, Option.map_some, Option.some.injEq] at h
        subst h
        unfold construct
        simp only [bind, Except.bind, pure, Except.pure, ha]
        by_cases hh : (fermi && sym.parity (Arr.sectorCharge sym (indices.map Index.dual) s')
            && oddpos.isEmpty) = true
        · rw [if_pos hh]; exact (if_pos hh).symm
        · rw [if_neg hh]; exact (if_neg hh).symm

end construct

/-! ## transporting value-view facts to the dense arrays -/

namespace Arr
variable {R : Type}

theorem cm_conj (ix : Index) : (Index.conj ix).cm = ix.cm := by
  cases ix with
  | mk c d s => cases s with
    | none => rfl
    | some se => obtain ⟨subs, ext⟩ := se; rfl

theorem map_cm_conj (idx : List Index) : (idx.map Index.conj).map Index.cm = idx.map Index.cm := by
  simp [List.map_map, Function.comp_def, cm_conj]

theorem sizeTotal_eq_of_cm {ix ix' : Index} (h : ix'.cm = ix.cm) : ix'.sizeTotal = ix.sizeTotal := by
  simp [Index.sizeTotal, h]

/-- `locateAll`, the dense shape and the emptiness test only depend on the charge tables -/
theorem locateAll_congr {idx idx' : List Index} (h : idx'.map Index.cm = idx.map Index.cm)
    (p : List Nat) : locateAll idx' p = locateAll idx p := by
  induction idx generalizing idx' p with
  | nil =>
    cases idx' with
    | nil => rfl
    | cons a l => simp at h
  | cons ix idx ih =>
    cases idx' with
    | nil => simp at h
    | cons ix' idx' =>
      simp only [List.map_cons, List.cons.injEq] at h
      cases p with
      | nil => rfl
      | cons q p => rw [locateAll_cons, locateAll_cons, h.1, ih h.2]

theorem shape_congr {idx idx' : List Index} (h : idx'.map Index.cm = idx.map Index.cm) :
    idx'.map Index.sizeTotal = idx.map Index.sizeTotal := by
  have : ∀ l : List Index, l.map Index.sizeTotal = (l.map Index.cm).map (fun c => sumN (c.map (·.2))) := by
    intro l; simp [List.map_map, Function.comp_def, Index.sizeTotal]
  rw [this, this, h]

theorem noEmpty_congr {idx idx' : List Index} (h : idx'.map Index.cm = idx.map Index.cm) :
    idx'.any (fun ix => ix.cm.isEmpty) = idx.any (fun ix => ix.cm.isEmpty) := by
  have : ∀ l : List Index, l.any (fun ix => ix.cm.isEmpty) = (l.map Index.cm).any (fun c => c.isEmpty) := by
    intro l; simp [List.any_map, Function.comp_def]
  rw [this, this, h]

/-- a relation that holds between the value views of three arrays with the same charge tables at
    every located address holds between their dense arrays at every position -/
theorem toDense_rel₃ [Zero R] [Neg R] (x y z : Arr R)
    (hy : y.indices.map Index.cm = x.indices.map Index.cm)
    (hz : z.indices.map Index.cm = x.indices.map Index.cm)
    (hne : x.indices.any (fun ix => ix.cm.isEmpty) = false)
    (P : List Nat → R → R → R → Prop)
    (hP : ∀ p sec off, inBox x.shape p = true → locateAll x.indices p = some (sec, off) →
      P p (x.elem sec off) (y.elem sec off) (z.elem sec off)) :
    ∃ dx dy dz, toDenseA x = .ok dx ∧ toDenseA y = .ok dy ∧ toDenseA z = .ok dz
      ∧ dx.shape = x.shape ∧ dy.shape = x.shape ∧ dz.shape = x.shape
      ∧ ∀ p, inBox x.shape p = true → P p (dx.get p) (dy.get p) (dz.get p) := by
  obtain ⟨dx, hdx, hsx, hgx⟩ := toDenseA_get x hne
  obtain ⟨dy, hdy, hsy, hgy⟩ := toDenseA_get y (by rw [noEmpty_congr hy]; exact hne)
  obtain ⟨dz, hdz, hsz, hgz⟩ := toDenseA_get z (by rw [noEmpty_congr hz]; exact hne)
  have hshy : y.shape = x.shape := shape_congr hy
  have hshz : z.shape = x.shape := shape_congr hz
  refine ⟨dx, dy, dz, hdx, hdy, hdz, hsx, hsy.trans hshy, hsz.trans hshz, fun p hp => ?_⟩
  obtain ⟨sec, off, hl, hx⟩ := hgx p hp
  obtain ⟨sec', off', hl', hy'⟩ := hgy p (by rw [hshy]; exact hp)
  obtain ⟨sec'', off'', hl'', hz'⟩ := hgz p (by rw [hshz]; exact hp)
  rw [locateAll_congr hy, hl] at hl'
  rw [locateAll_congr hz, hl] at hl''
  simp only [Option.some.injEq, Prod.mk.injEq] at hl' hl''
  obtain ⟨rfl, rfl⟩ := hl'
  obtain ⟨rfl, rfl⟩ := hl''
  rw [hx, hy', hz']
  exact hP p sec off hp hl

theorem toDense_rel₂ [Zero R] [Neg R] (x z : Arr R)
    (hz : z.indices.map Index.cm = x.indices.map Index.cm)
    (hne : x.indices.any (fun ix => ix.cm.isEmpty) = false)
    (P : List Nat → R → R → Prop)
    (hP : ∀ p sec off, inBox x.shape p = true → locateAll x.indices p = some (sec, off) →
      P p (x.elem sec off) (z.elem sec off)) :
    ∃ dx dz, toDenseA x = .ok dx ∧ toDenseA z = .ok dz
      ∧ dx.shape = x.shape ∧ dz.shape = x.shape
      ∧ ∀ p, inBox x.shape p = true → P p (dx.get p) (dz.get p) := by
  obtain ⟨dx, dy, dz, h1, _, h3, s1, _, s3, h⟩ :=
    toDense_rel₃ x x z rfl hz hne (fun p a _ c => P p a c) hP
  exact ⟨dx, dz, h1, h3, s1, s3, h⟩

/-- stored blocks have the shape the index tables prescribe, and the tables have distinct
    charges (part of `Arr.validB`) -/
def ShapesOk (a : Arr R) : Prop :=
  (∀ ix ∈ a.indices, (ix.cm.map (·.1)).Nodup)
  ∧ ∀ s b, alookup a.blocks s = some b → blockShape? a.indices s = some b.shape

theorem ShapesOk.inBox {a : Arr R} (h : ShapesOk a) {p : List Nat} (hp : inBox a.shape p = true)
    {sec : Sector} {off : List Nat} (hl : locateAll a.indices p = some (sec, off))
    {b : Blk R} (hb : alookup a.blocks sec = some b) : inBox b.shape off = true :=
  locateAll_inBox h.1 (by simpa [shape] using inBox_length hp) hl (h.2 sec b hb)

/-- the located address restricted to one axis -/
theorem locateAll_axis {idx : List Index} {p : List Nat} {sec : Sector} {off : List Nat}
    (h : locateAll idx p = some (sec, off)) (hp : p.length = idx.length) (k : Nat)
    (hk : k < idx.length) :
    locate (Index.sortCm (idx.getD k default).cm) (p.getD k 0)
      = some (sec.getD k (0, 0), off.getD k 0) := by
  induction idx generalizing p sec off k with
  | nil => simp at hk
  | cons ix idx ih =>
    cases p with
    | nil => simp at hp
    | cons q p =>
      rw [locateAll_cons] at h
      cases hco : locate (Index.sortCm ix.cm) q with
      | none => simp [hco] at h
      | some co =>
        cases hso : locateAll idx p with
        | none => simp [hco, hso] at h
        | some sf =>
          simp only [hco, hso, Option.bind_some, Option.map_some, Option.some.injEq,
            Prod.mk.injEq] at h
          obtain ⟨rfl, rfl⟩ := h
          cases k with
          | zero => simpa using hco
          | succ k =>
            simpa using ih hso (by simpa using hp) k (by simpa using hk)

end Arr

/-- value view of a block vector: entry `o` of the block of charge `c`, zero if absent -/
def BVec.elem {R : Type} [Zero R] (v : BVec R) (c : Charge) (o : Nat) : R :=
  match alookup v.blocks c with
  | some vb => vb.get [o]
  | none => 0

/-- dense value of a block vector laid out along the index `ix` (sorted charges) -/
def BVec.denseAt {R : Type} [Zero R] (v : BVec R) (ix : Index) (q : Nat) : R :=
  match Arr.locate (Index.sortCm ix.cm) q with
  | some (c, o) => v.elem c o
  | none => 0

/-! ## permutations of axes: `permuted`, `isPerm`, `transposeK`, `transposeA` -/

section perm

theorem isPerm_spec {axes : List Nat} {n : Nat} (h : Arr.isPerm axes n = true) :
    axes.length = n ∧ ∀ i, i < n → i ∈ axes := by
  simp only [Arr.isPerm, Bool.and_eq_true, beq_iff_eq, List.all_eq_true, List.mem_range,
    List.contains_iff_mem] at h
  exact h

theorem isPerm_perm {axes : List Nat} {n : Nat} (h : Arr.isPerm axes n = true) :
    (List.range n).Perm axes := by
  obtain ⟨hl, hm⟩ := isPerm_spec h
  refine (List.subperm_of_subset List.nodup_range ?_).perm_of_length_le (by simp [hl])
  intro i hi
  exact hm i (List.mem_range.mp hi)

theorem isPerm_lt {axes : List Nat} {n : Nat} (h : Arr.isPerm axes n = true) :
    ∀ q ∈ axes, q < n := fun _ hq =>
  List.mem_range.mp ((isPerm_perm h).mem_iff.mpr hq)

variable {α : Type}

theorem permuted_nil (l : List α) : permuted l [] = [] := rfl

theorem permuted_cons_of_lt (l : List α) (q : Nat) (axes : List Nat) (h : q < l.length) :
    permuted l (q :: axes) = l[q] :: permuted l axes := by
  simp [permuted, List.getElem?_eq_getElem h]

theorem length_permuted (l : List α) (axes : List Nat) (h : ∀ q ∈ axes, q < l.length) :
    (permuted l axes).length = axes.length := by
  induction axes with
  | nil => rfl
  | cons q axes ih =>
    rw [permuted_cons_of_lt l q axes (h q (by simp))]
    simp [ih (fun q' hq' => h q' (by simp [hq']))]

theorem getElem?_permuted (l : List α) (axes : List Nat) (h : ∀ q ∈ axes, q < l.length) (k : Nat) :
    (permuted l axes)[k]? = axes[k]?.bind (fun q => l[q]?) := by
  induction axes generalizing k with
  | nil => simp [permuted_nil]
  | cons q axes ih =>
    have hq := h q (by simp)
    rw [permuted_cons_of_lt l q axes hq]
    cases k with
    | zero => simp [List.getElem?_eq_getElem hq]
    | succ k => simpa using ih (fun q' hq' => h q' (by simp [hq'])) k

theorem permuted_map {β : Type} (g : α → β) (l : List α) (axes : List Nat) :
    permuted (l.map g) axes = (permuted l axes).map g := by
  simp only [permuted, List.map_filterMap, List.getElem?_map]

theorem mem_of_mem_permuted {l : List α} {axes : List Nat} {x : α} (h : x ∈ permuted l axes) :
    x ∈ l := by
  simp only [permuted, List.mem_filterMap] at h
  obtain ⟨q, _, hq⟩ := h
  exact List.mem_of_getElem? hq

/-- a permutation of the axes is injective on lists of the right length -/
theorem permuted_inj {axes : List Nat} {n : Nat} (hperm : Arr.isPerm axes n = true)
    {s s' : List α} (hs : s.length = n) (hs' : s'.length = n)
    (h : permuted s axes = permuted s' axes) : s = s' := by
  apply List.ext_getElem?
  intro i
  by_cases hi : i < n
  · obtain ⟨k, hk⟩ := List.mem_iff_getElem?.mp ((isPerm_spec hperm).2 i hi)
    have h1 := getElem?_permuted s axes (fun q hq => hs ▸ isPerm_lt hperm q hq) k
    have h2 := getElem?_permuted s' axes (fun q hq => hs' ▸ isPerm_lt hperm q hq) k
    rw [hk] at h1 h2
    simp only [Option.bind_some] at h1 h2
    rw [← h1, ← h2, h]
  · rw [List.getElem?_eq_none (by omega), List.getElem?_eq_none (by omega)]

theorem getD_permuted (l : List α) (axes : List Nat) (h : ∀ q ∈ axes, q < l.length) (k : Nat)
    (hk : k < axes.length) (d : α) : (permuted l axes).getD k d = l.getD axes[k] d := by
  rw [List.getD_eq_getElem?_getD, List.getD_eq_getElem?_getD, getElem?_permuted l axes h,
    List.getElem?_eq_getElem hk]
  rfl

theorem inBox_permuted {s i : List Nat} (h : inBox s i = true) (axes : List Nat)
    (hax : ∀ q ∈ axes, q < s.length) : inBox (permuted s axes) (permuted i axes) = true := by
  rw [inBox_iff] at h ⊢
  have hax' : ∀ q ∈ axes, q < i.length := fun q hq => h.1 ▸ hax q hq
  refine ⟨by rw [length_permuted _ _ hax, length_permuted _ _ hax'], fun k hk => ?_⟩
  rw [length_permuted _ _ hax] at hk
  rw [getD_permuted _ _ hax' k hk, getD_permuted _ _ hax k hk]
  exact h.2 _ (hax _ (List.getElem_mem hk))

theorem indexOf?_of_mem {β : Type} [BEq β] [LawfulBEq β] {l : List β} {a : β} (h : a ∈ l) :
    ∃ k, indexOf? l a = some k ∧ l[k]? = some a := by
  induction l with
  | nil => simp at h
  | cons x l ih =>
    simp only [indexOf?]
    by_cases e : x = a
    · subst e; exact ⟨0, by simp⟩
    · have hm : a ∈ l := by
        rcases List.mem_cons.mp h with h | h
        · exact absurd h.symm e
        · exact h
      obtain ⟨k, hk, hg⟩ := ih hm
      exact ⟨k + 1, by simp [e, hk], by simpa using hg⟩

end perm

namespace Blk
variable {R : Type}

/-- `np.transpose`: the entry of the transposed block at the permuted multi-index is the entry of
    the block at the multi-index -/
theorem get_transposeK [Zero R] (b : Blk R) (axes : List Nat)
    (hperm : Arr.isPerm axes b.shape.length = true) {i : List Nat} (hi : inBox b.shape i = true) :
    (b.transposeK axes).get (permuted i axes) = b.get i := by
  have hlt := isPerm_lt hperm
  have hil := inBox_length hi
  unfold transposeK
  rw [get_ofFn _ _ (inBox_permuted hi axes hlt)]
  congr 1
  apply List.ext_getElem?
  intro ax
  by_cases hax : ax < b.shape.length
  · obtain ⟨k, hk, hg⟩ := indexOf?_of_mem ((isPerm_spec hperm).2 ax hax)
    have hk' : k < axes.length := by
      by_contra hn; rw [List.getElem?_eq_none (by omega)] at hg; simp at hg
    have hq : axes[k] = ax := by
      rw [List.getElem?_eq_getElem hk'] at hg; exact Option.some.inj hg
    simp only [List.getElem?_map, List.getElem?_range hax, Option.map_some, hk]
    rw [getD_permuted i axes (fun q hq => hil ▸ hlt q hq) k hk', hq,
      List.getD_eq_getElem?_getD, List.getElem?_eq_getElem (by omega)]
    rfl
  · rw [List.getElem?_eq_none (by simp; omega), List.getElem?_eq_none (by omega)]

end Blk

section alistinj
variable {κ κ' β γ : Type} [BEq κ] [LawfulBEq κ] [BEq κ'] [LawfulBEq κ']

/-- looking up a re-keyed dict at a re-keyed key, when no other stored key collides with it -/
theorem alookup_map_inj (l : List (κ × β)) (F : κ × β → κ' × γ) (fk : κ → κ') (fv : β → γ)
    (hF : ∀ q, F q = (fk q.1, fv q.2)) (k0 : κ)
    (hinj : ∀ k ∈ l.map (·.1), fk k = fk k0 → k = k0) :
    alookup (l.map F) (fk k0) = (alookup l k0).map fv := by
  induction l with
  | nil => rfl
  | cons q l ih =>
    obtain ⟨k, v⟩ := q
    have ih' := ih (fun k' hk' => hinj k' (by simp [hk']))
    rw [List.map_cons, hF]
    by_cases e : k = k0
    · subst e; simp
    · have : fk k ≠ fk k0 := fun h => e (hinj k (by simp) h)
      rw [alookup_cons_ne this, alookup_cons_ne e, ih']

end alistinj

namespace Arr
variable {R : Type}

theorem locateAll_permuted {idx : List Index} {p : List Nat} {sec : Sector} {off : List Nat}
    (h : locateAll idx p = some (sec, off)) (hp : p.length = idx.length) (axes : List Nat)
    (hax : ∀ q ∈ axes, q < idx.length) :
    locateAll (permuted idx axes) (permuted p axes) = some (permuted sec axes, permuted off axes) := by
  obtain ⟨hsl, hol⟩ := locateAll_length h hp
  induction axes with
  | nil => rfl
  | cons q axes ih =>
    have hq := hax q (by simp)
    have ih' := ih (fun q' hq' => hax q' (by simp [hq']))
    rw [permuted_cons_of_lt idx q axes hq, permuted_cons_of_lt p q axes (by omega),
      permuted_cons_of_lt sec q axes (by omega), permuted_cons_of_lt off q axes (by omega),
      locateAll_cons, ih']
    have := locateAll_axis h hp q hq
    simp only [List.getD_eq_getElem?_getD, List.getElem?_eq_getElem hq,
      List.getElem?_eq_getElem (show q < p.length by omega),
      List.getElem?_eq_getElem (show q < sec.length by omega),
      List.getElem?_eq_getElem (show q < off.length by omega), Option.getD_some] at this
    rw [this]; rfl

/-- value view of a transposed array at the permuted address -/
theorem transposeA_elem [Zero R] [Neg R] (a : Arr R) (axes : List Nat)
    (hperm : isPerm axes a.ndim = true) (hab : a.phases = []) (hnd : a.sectors.Nodup)
    (hlen : ∀ s ∈ a.sectors, s.length = a.ndim)
    (hshape : ∀ s b, alookup a.blocks s = some b → b.shape.length = a.ndim)
    (s : Sector) (hs : s.length = a.ndim) (off : List Nat)
    (hoff : ∀ b, alookup a.blocks s = some b → inBox b.shape off = true) :
    (transposeA a axes).elem (permuted s axes) (permuted off axes) = a.elem s off := by
  have hkeys : ((a.blocks.map (fun (s, b) => (permuted s axes, b.transposeK axes))).map (·.1))
      = a.sectors.map (fun s => permuted s axes) := by
    simp [sectors, List.map_map, Function.comp_def]
  have hnd' : ((a.blocks.map (fun (s, b) => (permuted s axes, b.transposeK axes))).map (·.1)).Nodup := by
    rw [hkeys]
    exact List.Nodup.map_on (fun x hx y hy hxy => permuted_inj hperm (hlen x hx) (hlen y hy) hxy) hnd
  rw [elem_abelian (transposeA a axes) hab, elem_abelian a hab]
  simp only [transposeA]
  rw [adict_of_nodup _ hnd',
    alookup_map_inj a.blocks _ (fun s => permuted s axes) (fun b => b.transposeK axes)
      (fun ⟨_, _⟩ => rfl) s (fun k hk hkk => permuted_inj hperm (hlen k hk) hs hkk)]
  cases hb : alookup a.blocks s with
  | none => rfl
  | some b =>
    simp only [Option.map_some]
    exact Blk.get_transposeK b axes (by rw [hshape s b hb]; exact hperm) (hoff b hb)

end Arr

/-! ## C16: `chargeGroups` and `from_dense` -/

section ainsert
variable {κ β : Type} [BEq κ] [LawfulBEq κ]

theorem alookup_ainsert_self (l : List (κ × β)) (k : κ) (v : β) :
    alookup (ainsert l k v) k = some v := by
  induction l with
  | nil => simp [ainsert]
  | cons q l ih =>
    obtain ⟨k0, v0⟩ := q
    by_cases e : k0 = k
    · subst e; simp [ainsert]
    · simp [ainsert, e, alookup_cons_ne e, ih]

theorem alookup_ainsert_ne (l : List (κ × β)) {k k' : κ} (h : k ≠ k') (v : β) :
    alookup (ainsert l k v) k' = alookup l k' := by
  induction l with
  | nil => simp [ainsert, alookup_cons_ne h]
  | cons q l ih =>
    obtain ⟨k0, v0⟩ := q
    by_cases e : k0 = k
    · subst e; simp [ainsert, alookup_cons_ne h]
    · by_cases e' : k0 = k'
      · subst e'; simp [ainsert, e]
      · simp [ainsert, e, alookup_cons_ne e', ih]

theorem keys_ainsert (l : List (κ × β)) (k : κ) (v : β) :
    (k ∈ l.map (·.1) ∧ (ainsert l k v).map (·.1) = l.map (·.1))
    ∨ (k ∉ l.map (·.1) ∧ (ainsert l k v).map (·.1) = l.map (·.1) ++ [k]) := by
  induction l with
  | nil => right; simp [ainsert]
  | cons q l ih =>
    obtain ⟨k0, v0⟩ := q
    by_cases e : k0 = k
    · subst e; left; simp [ainsert]
    · have e' : ¬ k = k0 := fun h => e h.symm
      rcases ih with ⟨h1, h2⟩ | ⟨h1, h2⟩
      · left; simp [ainsert, e, h1, h2]
      · right; simp [ainsert, e, e', h1, h2]

theorem nodup_keys_ainsert {l : List (κ × β)} (h : (l.map (·.1)).Nodup) (k : κ) (v : β) :
    ((ainsert l k v).map (·.1)).Nodup := by
  rcases keys_ainsert l k v with ⟨_, h2⟩ | ⟨h1, h2⟩
  · rw [h2]; exact h
  · rw [h2, List.nodup_append]
    exact ⟨h, by simp, fun a ha b hb => by
      simp only [List.mem_singleton] at hb; subst hb; exact fun e => h1 (e ▸ ha)⟩

theorem mem_iff_alookup {l : List (κ × β)} (h : (l.map (·.1)).Nodup) {k : κ} {v : β} :
    (k, v) ∈ l ↔ alookup l k = some v :=
  ⟨alookup_of_mem_nodup h, alookup_eq_some_mem⟩

end ainsert

section groups

/-- one step of `chargeGroups` -/
def cgStep (acc : List (Charge × List Nat)) (ci : Charge × Nat) : List (Charge × List Nat) :=
  match alookup acc ci.1 with
  | none => acc ++ [(ci.1, [ci.2])]
  | some l => ainsert acc ci.1 (l ++ [ci.2])

theorem chargeGroups_eq_foldl (labels : List Charge) :
    chargeGroups labels = labels.zipIdx.foldl cgStep [] := by
  unfold chargeGroups
  congr 1

theorem cgStep_eq (acc : List (Charge × List Nat)) (c : Charge) (i : Nat) :
    cgStep acc (c, i) = ainsert acc c ((alookup acc c).getD [] ++ [i]) := by
  simp only [cgStep]
  cases h : alookup acc c with
  | none =>
    simp only [Option.getD_none, List.nil_append]
    rw [ainsert_of_not_mem _ _ _ (alookup_eq_none_iff.mp h)]
  | some l => rfl

theorem totalLen_ainsert (acc : List (Charge × List Nat)) (c : Charge) (v : List Nat) :
    sumN ((ainsert acc c v).map (fun cl => cl.2.length)) + ((alookup acc c).getD []).length
      = sumN (acc.map (fun cl => cl.2.length)) + v.length := by
  induction acc with
  | nil => simp [ainsert, sumN]
  | cons q acc ih =>
    obtain ⟨c0, l0⟩ := q
    by_cases e : c0 = c
    · subst e; simp only [ainsert, beq_self_eq_true, if_true, List.map_cons, sumN,
        alookup_cons_self, Option.getD_some]; omega
    · have : (c0 == c) = false := by simpa using e
      simp only [ainsert, this, Bool.false_eq_true, if_false, List.map_cons, sumN,
        alookup_cons_ne e]
      omega

/-- what `chargeGroups` has computed after reading the first `k` labels -/
structure CgInv (labels : List Charge) (k : Nat) (acc : List (Charge × List Nat)) : Prop where
  nodup : (acc.map (·.1)).Nodup
  label : ∀ c l, alookup acc c = some l → ∀ i ∈ l, labels[i]? = some c ∧ i < k
  sorted : ∀ c l, alookup acc c = some l → l.Pairwise (· < ·)
  cover : ∀ i c, i < k → labels[i]? = some c → ∃ l, alookup acc c = some l ∧ i ∈ l
  total : sumN (acc.map (fun cl => cl.2.length)) = k
  nonempty : ∀ c l, alookup acc c = some l → l ≠ []

theorem cgInv_step {labels : List Charge} {k : Nat} {acc : List (Charge × List Nat)}
    (h : CgInv labels k acc) {c : Charge} (hc : labels[k]? = some c) :
    CgInv labels (k + 1) (cgStep acc (c, k)) := by
  rw [cgStep_eq]
  have hold : ∀ i ∈ (alookup acc c).getD [], labels[i]? = some c ∧ i < k := by
    intro i hi
    cases hl : alookup acc c with
    | none => simp [hl] at hi
    | some l => rw [hl] at hi; exact h.label c l hl i hi
  refine ⟨nodup_keys_ainsert h.nodup _ _, ?_, ?_, ?_, ?_, ?_⟩
  · intro c' l' hl' i hi
    by_cases e : c = c'
    · subst e
      rw [alookup_ainsert_self] at hl'
      injection hl' with hl'; subst hl'
      rcases List.mem_append.mp hi with hi | hi
      · exact ⟨(hold i hi).1, by have := (hold i hi).2; omega⟩
      · simp only [List.mem_singleton] at hi; subst hi; exact ⟨hc, by omega⟩
    · rw [alookup_ainsert_ne _ e] at hl'
      have := h.label c' l' hl' i hi
      exact ⟨this.1, by omega⟩
  · intro c' l' hl'
    by_cases e : c = c'
    · subst e
      rw [alookup_ainsert_self] at hl'
      injection hl' with hl'; subst hl'
      rw [List.pairwise_append]
      refine ⟨?_, by simp, fun a ha b hb => ?_⟩
      · cases hl : alookup acc c with
        | none => simp
        | some l => exact h.sorted c l hl
      · simp only [List.mem_singleton] at hb; subst hb; exact (hold a ha).2
    · rw [alookup_ainsert_ne _ e] at hl'; exact h.sorted c' l' hl'
  · intro i c' hi hci
    by_cases e : c = c'
    · subst e
      refine ⟨_, alookup_ainsert_self _ _ _, ?_⟩
      by_cases hik : i = k
      · subst hik; simp
      · obtain ⟨l, hl, hm⟩ := h.cover i c (by omega) hci
        simp [hl, hm]
    · have hik : i ≠ k := by
        intro hik; subst hik; rw [hc] at hci; exact e (Option.some.inj hci)
      obtain ⟨l, hl, hm⟩ := h.cover i c' (by omega) hci
      exact ⟨l, by rw [alookup_ainsert_ne _ e]; exact hl, hm⟩
  · have := totalLen_ainsert acc c ((alookup acc c).getD [] ++ [k])
    rw [h.total] at this
    simp only [List.length_append, List.length_singleton] at this
    omega
  · intro c' l' hl'
    by_cases e : c = c'
    · subst e
      rw [alookup_ainsert_self] at hl'
      injection hl' with hl'; subst hl'; simp
    · rw [alookup_ainsert_ne _ e] at hl'; exact h.nonempty c' l' hl'

theorem cgInv_fold {labels : List Charge} (rest : List Charge) (k : Nat)
    (acc : List (Charge × List Nat)) (hrest : labels.drop k = rest) (hk : k ≤ labels.length)
    (h : CgInv labels k acc) :
    CgInv labels labels.length ((rest.zipIdx k).foldl cgStep acc) := by
  induction rest generalizing k acc with
  | nil =>
    have : k = labels.length := by
      have := congrArg List.length hrest
      simp only [List.length_drop, List.length_nil] at this; omega
    subst this; exact h
  | cons c rest ih =>
    have hlen : k < labels.length := by
      have := congrArg List.length hrest
      simp only [List.length_drop, List.length_cons] at this; omega
    have hc : labels[k]? = some c := by
      have := congrArg (fun l => l[0]?) hrest
      simpa using this
    simp only [List.zipIdx_cons, List.foldl_cons]
    refine ih (k + 1) _ ?_ (by omega) (cgInv_step h hc)
    rw [← List.drop_drop, hrest]; rfl

/-- the specification of `chargeGroups`: distinct charges; the list of a charge holds, in
    increasing order, exactly the positions carrying that charge -/
theorem chargeGroups_inv (labels : List Charge) :
    CgInv labels labels.length (chargeGroups labels) := by
  rw [chargeGroups_eq_foldl]
  refine cgInv_fold labels 0 [] rfl (by omega) ⟨by simp, ?_, ?_, ?_, rfl, ?_⟩
  · intro c l h; simp at h
  · intro c l h; simp at h
  · intro i c h; omega
  · intro c l h; simp at h

end groups

section fromDense
variable {R : Type}

/-- (charge, number of positions) along one dense axis, first-appearance order -/
def gsizes (labels : List Charge) : List (Charge × Nat) :=
  (chargeGroups labels).map (fun (c, l) => (c, l.length))

/-- positions (per axis) that the sector's charges occupy in the dense array -/
def fdPos (maps : List (List Charge)) (sector : Sector) : List (List Nat) :=
  List.zipWith (fun g c => (alookup g c).getD []) (maps.map chargeGroups) sector

/-- the block `from_dense` cuts out for a sector -/
def fdBlock [Zero R] (dense : Blk R) (maps : List (List Charge)) (sector : Sector) : Blk R :=
  Blk.ofFn ((fdPos maps sector).map List.length)
    (fun i => dense.get (List.zipWith (fun (p : List Nat) k => p.getD k 0) (fdPos maps sector) i))

/-- all combinations of the charges present on each axis -/
def fdSectors (maps : List (List Charge)) : List Sector :=
  cartesian ((maps.map chargeGroups).map (fun g => g.map (·.1)))

def fdBlocks [Zero R] (sym : Sym) (dense : Blk R) (maps : List (List Charge)) (duals : List Bool)
    (c : Charge) : List (Sector × Blk R) :=
  (fdSectors maps).filterMap (fun sector =>
    if Arr.sectorCharge sym duals sector == c then some (sector, fdBlock dense maps sector) else none)

def fdIndices (maps : List (List Charge)) (duals : List Bool) : List Index :=
  List.zipWith (fun m d => Index.plain (gsizes m) d) maps duals

/-- `from_dense` = the direct constructor on the sorted group sizes and the charge-conserving
    blocks cut out of the dense array (when the arguments have consistent lengths) -/
theorem fromDense_eq [Zero R] (sym : Sym) (fermi : Bool) (dense : Blk R) (maps : List (List Charge))
    (duals : List Bool) (charge : Option Charge) (oddpos : List (Int × Bool))
    (hm : maps.length = dense.shape.length) (hd : duals.length = dense.shape.length)
    (hl : (List.zipWith (fun (m : List Charge) d => m.length != d) maps dense.shape).any id = false) :
    fromDense sym fermi dense maps duals charge oddpos =
      construct sym fermi (fdIndices maps duals) (some (charge.getD sym.zero))
        (fdBlocks sym dense maps duals (charge.getD sym.zero)) oddpos := by
  unfold fromDense
  simp only [bind, Except.bind]
  rw [if_neg (by simp [hm, hd]), if_neg (by simp [hl])]
  simp only [fdIndices, fdBlocks, fdSectors, fdBlock, fdPos, gsizes, List.zipWith_map_left]

theorem fromDense_error_index [Zero R] (sym : Sym) (fermi : Bool) (dense : Blk R)
    (maps : List (List Charge)) (duals : List Bool) (charge : Option Charge)
    (oddpos : List (Int × Bool))
    (h : maps.length ≠ dense.shape.length ∨ duals.length ≠ dense.shape.length) :
    fromDense sym fermi dense maps duals charge oddpos = .error Err.index := by
  unfold fromDense
  simp only [bind, Except.bind]
  rw [if_pos (by simpa using h)]
  rfl

theorem fromDense_error_key [Zero R] (sym : Sym) (fermi : Bool) (dense : Blk R)
    (maps : List (List Charge)) (duals : List Bool) (charge : Option Charge)
    (oddpos : List (Int × Bool))
    (hm : maps.length = dense.shape.length) (hd : duals.length = dense.shape.length)
    (hl : (List.zipWith (fun (m : List Charge) d => m.length != d) maps dense.shape).any id = true) :
    fromDense sym fermi dense maps duals charge oddpos = .error Err.key := by
  unfold fromDense
  simp only [bind, Except.bind]
  rw [if_neg (by simp [hm, hd]), if_pos hl]
  rfl

theorem labels_length_of_guard {maps : List (List Charge)} {shape : List Nat}
    (hm : maps.length = shape.length)
    (hl : (List.zipWith (fun (m : List Charge) d => m.length != d) maps shape).any id = false) :
    maps.map List.length = shape := by
  induction maps generalizing shape with
  | nil => cases shape with
    | nil => rfl
    | cons d ds => simp at hm
  | cons m maps ih =>
    cases shape with
    | nil => simp at hm
    | cons d ds =>
      simp only [List.zipWith_cons_cons, List.any_cons, id, Bool.or_eq_false_iff, bne_eq_false_iff_eq] at hl
      simp only [List.map_cons, hl.1, ih (by simpa using hm) hl.2]

/-- sorted position ↦ original position along one axis: the `o`-th position (in increasing
    order) among those carrying the located charge -/
def origPos (labels : List Charge) (q : Nat) : Nat :=
  match Arr.locate (Index.sortCm (gsizes labels)) q with
  | some (c, o) => ((alookup (chargeGroups labels) c).getD []).getD o 0
  | none => 0

def origAll (maps : List (List Charge)) (p : List Nat) : List Nat := List.zipWith origPos maps p

/-- the charge labels found at a dense multi-index -/
def labelsAt (maps : List (List Charge)) (r : List Nat) : Sector :=
  List.zipWith (fun (m : List Charge) i => m.getD i (0, 0)) maps r

theorem mem_gsizes {labels : List Charge} {c : Charge} {d : Nat} :
    (c, d) ∈ gsizes labels ↔ ∃ l, alookup (chargeGroups labels) c = some l ∧ l.length = d := by
  have hnd := (chargeGroups_inv labels).nodup
  simp only [gsizes, List.mem_map, Prod.mk.injEq]
  constructor
  · rintro ⟨⟨c', l⟩, hm, rfl, rfl⟩
    exact ⟨l, (mem_iff_alookup hnd).mp hm, rfl⟩
  · rintro ⟨l, hl, rfl⟩
    exact ⟨(c, l), (mem_iff_alookup hnd).mpr hl, rfl, rfl⟩

theorem keys_gsizes (labels : List Charge) :
    (gsizes labels).map (·.1) = (chargeGroups labels).map (·.1) := by
  simp [gsizes, List.map_map, Function.comp_def]

theorem sumN_gsizes (labels : List Charge) : sumN ((gsizes labels).map (·.2)) = labels.length := by
  have := (chargeGroups_inv labels).total
  simpa [gsizes, List.map_map, Function.comp_def] using this

theorem origPos_spec (labels : List Charge) {q : Nat} {c : Charge} {o : Nat}
    (h : Arr.locate (Index.sortCm (gsizes labels)) q = some (c, o)) :
    ∃ l, alookup (chargeGroups labels) c = some l ∧ ∃ ho : o < l.length,
      origPos labels q = l[o] ∧ labels[l[o]]? = some c := by
  obtain ⟨d, hm, ho⟩ := Arr.locate_spec h
  obtain ⟨l, hl, rfl⟩ := mem_gsizes.mp (mem_sortCm.mp hm)
  refine ⟨l, hl, ho, ?_, ((chargeGroups_inv labels).label c l hl _ (List.getElem_mem ho)).1⟩
  simp only [origPos, h, hl, Option.getD_some, List.getD_eq_getElem?_getD,
    List.getElem?_eq_getElem ho]

theorem sortCm_idem (cm : List (Charge × Nat)) : Index.sortCm (Index.sortCm cm) = Index.sortCm cm :=
  sortCm_of_sorted (sortCm_sorted cm)

/-- the address of a position of `from_dense`'s index tables, axis by axis -/
theorem fd_locateAll (maps : List (List Charge)) (duals : List Bool) (p : List Nat)
    (sec : Sector) (off : List Nat) (hd : duals.length = maps.length) (hp : p.length = maps.length)
    (h : Arr.locateAll (fdIndices maps duals) p = some (sec, off)) :
    sec = labelsAt maps (origAll maps p)
    ∧ List.Forall₂ (fun x l => x ∈ l) sec ((maps.map chargeGroups).map (fun g => g.map (·.1)))
    ∧ inBox ((fdPos maps sec).map List.length) off = true
    ∧ List.zipWith (fun (p : List Nat) k => p.getD k 0) (fdPos maps sec) off = origAll maps p := by
  induction maps generalizing duals p sec off with
  | nil =>
    cases p with
    | cons q p => simp at hp
    | nil =>
      cases duals with
      | cons d ds => simp at hd
      | nil =>
        simp only [fdIndices, List.zipWith_nil_left, Arr.locateAll_nil_nil, Option.some.injEq,
          Prod.mk.injEq] at h
        obtain ⟨rfl, rfl⟩ := h
        exact ⟨rfl, List.Forall₂.nil, rfl, rfl⟩
  | cons m maps ih =>
    cases p with
    | nil => simp at hp
    | cons q p =>
      cases duals with
      | nil => simp at hd
      | cons d ds =>
        have hix : fdIndices (m :: maps) (d :: ds) = Index.plain (gsizes m) d :: fdIndices maps ds := rfl
        rw [hix, Arr.locateAll_cons] at h
        have hcm : (Index.plain (gsizes m) d).cm = Index.sortCm (gsizes m) := rfl
        rw [hcm, sortCm_idem] at h
        cases hco : Arr.locate (Index.sortCm (gsizes m)) q with
        | none => simp [hco] at h
        | some co =>
          cases hso : Arr.locateAll (fdIndices maps ds) p with
          | none => simp [hco, hso] at h
          | some sf =>
            obtain ⟨c, o⟩ := co
            obtain ⟨sec', off'⟩ := sf
            simp only [hco, hso, Option.bind_some, Option.map_some, Option.some.injEq,
              Prod.mk.injEq] at h
            obtain ⟨rfl, rfl⟩ := h
            obtain ⟨l, hl, ho, horig, hlab⟩ := origPos_spec m hco
            obtain ⟨h1, h2, h3, h4⟩ := ih ds p sec' off' (by simpa using hd) (by simpa using hp) hso
            have hpos : fdPos (m :: maps) (c :: sec') = l :: fdPos maps sec' := by
              simp [fdPos, hl]
            refine ⟨?_, ?_, ?_, ?_⟩
            · simp only [labelsAt, origAll, List.zipWith_cons_cons, List.cons.injEq]
              refine ⟨?_, h1⟩
              rw [horig, List.getD_eq_getElem?_getD, hlab]; rfl
            · simp only [List.map_cons]
              exact List.Forall₂.cons (alookup_isSome_iff.mp (by simp [hl])) h2
            · rw [hpos, List.map_cons, inBox_cons]
              exact ⟨ho, h3⟩
            · rw [hpos]
              simp only [origAll, List.zipWith_cons_cons, List.cons.injEq]
              refine ⟨?_, h4⟩
              rw [horig, List.getD_eq_getElem?_getD, List.getElem?_eq_getElem ho]; rfl

theorem shape_fdIndices (maps : List (List Charge)) (duals : List Bool)
    (hd : duals.length = maps.length) :
    (fdIndices maps duals).map Index.sizeTotal = maps.map List.length := by
  induction maps generalizing duals with
  | nil => simp [fdIndices]
  | cons m maps ih =>
    cases duals with
    | nil => simp at hd
    | cons d ds =>
      have hix : fdIndices (m :: maps) (d :: ds) = Index.plain (gsizes m) d :: fdIndices maps ds := rfl
      rw [hix, List.map_cons, List.map_cons, ih ds (by simpa using hd)]
      congr 1
      show sumN ((Index.sortCm (gsizes m)).map (·.2)) = m.length
      rw [sumN_sortCm, sumN_gsizes]

theorem noEmpty_fdIndices (maps : List (List Charge)) (duals : List Bool)
    (hne : ∀ m ∈ maps, m ≠ []) :
    (fdIndices maps duals).any (fun ix => ix.cm.isEmpty) = false := by
  rw [List.any_eq_false]
  intro ix hix
  simp only [fdIndices] at hix
  obtain ⟨i, hi, rfl⟩ := List.mem_iff_getElem.mp hix
  simp only [List.getElem_zipWith]
  simp only [List.length_zipWith] at hi
  have hm := hne _ (List.getElem_mem (show i < maps.length by omega))
  show ¬ (Index.sortCm (gsizes maps[i])).isEmpty = true
  intro he
  have h0 : Index.sortCm (gsizes maps[i]) = [] := by simpa using he
  have := sumN_sortCm (gsizes maps[i])
  rw [h0, sumN_gsizes] at this
  simp only [List.map_nil, sumN] at this
  exact hm (List.length_eq_zero_iff.mp this.symm)

section filterkeys
variable {κ β : Type} [BEq κ] [LawfulBEq κ]

theorem alookup_filterMap_keys (ks : List κ) (c : κ → Bool) (f : κ → β) (k0 : κ) (hk : k0 ∈ ks) :
    alookup (ks.filterMap (fun k => if c k = true then some (k, f k) else none)) k0
      = if c k0 = true then some (f k0) else none := by
  induction ks with
  | nil => simp at hk
  | cons k ks ih =>
    simp only [List.filterMap_cons]
    by_cases e : k = k0
    · subst e
      by_cases hc : c k = true
      · simp [hc]
      · simp only [hc, Bool.false_eq_true, if_false]
        clear ih hk
        induction ks with
        | nil => rfl
        | cons k' ks ih' =>
          simp only [List.filterMap_cons]
          by_cases e' : k' = k
          · subst e'; simp only [hc, Bool.false_eq_true, if_false]; exact ih'
          · by_cases hc' : c k' = true
            · simp only [hc', if_true, alookup_cons_ne e']; exact ih'
            · simp only [hc', Bool.false_eq_true, if_false]; exact ih'
    · have hk' : k0 ∈ ks := by
        rcases List.mem_cons.mp hk with h | h
        · exact absurd h.symm e
        · exact h
      by_cases hc : c k = true
      · simp only [hc, if_true, alookup_cons_ne e]; exact ih hk'
      · simp only [hc, Bool.false_eq_true, if_false]; exact ih hk'

omit [BEq κ] [LawfulBEq κ] in
theorem keys_filterMap_keys (ks : List κ) (c : κ → Bool) (f : κ → β) :
    (ks.filterMap (fun k => if c k = true then some (k, f k) else none)).map (·.1) = ks.filter c := by
  induction ks with
  | nil => rfl
  | cons k ks ih =>
    simp only [List.filterMap_cons, List.filter_cons]
    by_cases hc : c k = true <;> simp [hc, ih]

end filterkeys

theorem fdSectors_nodup (maps : List (List Charge)) : (fdSectors maps).Nodup := by
  apply cartesian_nodup
  intro l hl
  simp only [List.map_map, List.mem_map, Function.comp] at hl
  obtain ⟨m, _, rfl⟩ := hl
  exact (chargeGroups_inv m).nodup

theorem fdBlocks_keys [Zero R] (sym : Sym) (dense : Blk R) (maps : List (List Charge))
    (duals : List Bool) (c : Charge) :
    (fdBlocks sym dense maps duals c).map (·.1)
      = (fdSectors maps).filter (fun s => Arr.sectorCharge sym duals s == c) :=
  keys_filterMap_keys _ _ _

theorem fdBlocks_nodup [Zero R] (sym : Sym) (dense : Blk R) (maps : List (List Charge))
    (duals : List Bool) (c : Charge) : ((fdBlocks sym dense maps duals c).map (·.1)).Nodup := by
  rw [fdBlocks_keys]; exact (fdSectors_nodup maps).filter _

/-- dense → blocks → dense is the projection onto the charge-conserving positions, laid out in
    the sorted-by-charge (stable) order -/
theorem toDense_fromDense_main [Zero R] [Neg R] (sym : Sym) (fermi : Bool) (dense : Blk R)
    (maps : List (List Charge)) (duals : List Bool) (charge : Option Charge)
    (oddpos : List (Int × Bool))
    (hm : maps.length = dense.shape.length) (hd : duals.length = dense.shape.length)
    (hl : (List.zipWith (fun (m : List Charge) d => m.length != d) maps dense.shape).any id = false)
    (hne : ∀ m ∈ maps, m ≠ [])
    (a : Arr R) (ha : fromDense sym fermi dense maps duals charge oddpos = .ok a) :
    ∃ d', Arr.toDenseA a = .ok d' ∧ d'.shape = dense.shape ∧
      ∀ p, inBox dense.shape p = true →
        d'.get p =
          if Arr.sectorCharge sym duals (labelsAt maps (origAll maps p)) == charge.getD sym.zero
          then dense.get (origAll maps p) else 0 := by
  rw [fromDense_eq sym fermi dense maps duals charge oddpos hm hd hl, construct_eq] at ha
  split at ha
  · cases ha
  injection ha with ha
  have hidx : a.indices = fdIndices maps duals := by rw [← ha]
  have hph : a.phases = [] := by rw [← ha]
  have hbl : a.blocks = fdBlocks sym dense maps duals (charge.getD sym.zero) := by
    rw [← ha]; exact adict_of_nodup _ (fdBlocks_nodup sym dense maps duals _)
  have hdm : duals.length = maps.length := by omega
  have hshape : a.shape = dense.shape := by
    rw [Arr.shape, hidx, shape_fdIndices maps duals hdm, labels_length_of_guard hm hl]
  obtain ⟨d', hd', hs', hg'⟩ := Arr.toDenseA_get a (by rw [hidx]; exact noEmpty_fdIndices maps duals hne)
  refine ⟨d', hd', hs'.trans hshape, fun p hp => ?_⟩
  obtain ⟨sec, off, hloc, hget⟩ := hg' p (by rw [hshape]; exact hp)
  rw [hidx] at hloc
  obtain ⟨h1, h2, h3, h4⟩ := fd_locateAll maps duals p sec off hdm
    (by rw [inBox_length hp]; omega) hloc
  rw [hget, Arr.elem_abelian a hph, hbl, fdBlocks,
    alookup_filterMap_keys (fdSectors maps)
      (fun s => Arr.sectorCharge sym duals s == charge.getD sym.zero)
      (fun s => fdBlock dense maps s) sec (show sec ∈ fdSectors maps from mem_cartesian.mpr h2), ← h1]
  by_cases hc : (Arr.sectorCharge sym duals sec == charge.getD sym.zero) = true
  · simp only [hc, if_true]
    rw [fdBlock, Blk.get_ofFn _ _ h3, h4]
  · simp only [hc, Bool.false_eq_true, if_false]

/-! ### `origPos` is the stable sort-by-charge permutation of the positions of an axis -/

/-- along a strictly sorted table, later positions have a larger charge or the same charge and a
    larger offset -/
theorem locate_mono {cm : List (Charge × Nat)}
    (hs : (cm.map (·.1)).Pairwise (fun a b => Charge.lt a b = true)) {q q' : Nat} (hq : q < q')
    {c c' : Charge} {o o' : Nat} (h : Arr.locate cm q = some (c, o))
    (h' : Arr.locate cm q' = some (c', o')) :
    Charge.lt c c' = true ∨ (c = c' ∧ o < o') := by
  induction cm generalizing q q' with
  | nil => simp [Arr.locate] at h
  | cons kd rest ih =>
    obtain ⟨k, d⟩ := kd
    simp only [List.map_cons, List.pairwise_cons] at hs
    simp only [Arr.locate] at h h'
    by_cases h1 : q < d
    · rw [if_pos h1] at h
      simp only [Option.some.injEq, Prod.mk.injEq] at h
      obtain ⟨rfl, rfl⟩ := h
      by_cases h2 : q' < d
      · rw [if_pos h2] at h'
        simp only [Option.some.injEq, Prod.mk.injEq] at h'
        obtain ⟨rfl, rfl⟩ := h'
        exact Or.inr ⟨rfl, hq⟩
      · rw [if_neg h2] at h'
        exact Or.inl (hs.1 c' (Arr.locate_mem_keys h'))
    · rw [if_neg h1] at h
      rw [if_neg (by omega)] at h'
      exact ih hs.2 (by omega) h h'

theorem gsizes_sorted_strict (labels : List Charge) :
    ((Index.sortCm (gsizes labels)).map (·.1)).Pairwise (fun a b => Charge.lt a b = true) :=
  sortCm_strict (by rw [keys_gsizes]; exact (chargeGroups_inv labels).nodup)

theorem locate_gsizes_isSome (labels : List Charge) {q : Nat} (hq : q < labels.length) :
    ∃ c o, Arr.locate (Index.sortCm (gsizes labels)) q = some (c, o) :=
  Arr.locate_isSome (by rw [sumN_sortCm, sumN_gsizes]; exact hq)

/-- `origPos` maps the positions of the axis to positions of the axis … -/
theorem origPos_lt (labels : List Charge) {q : Nat} (hq : q < labels.length) :
    origPos labels q < labels.length := by
  obtain ⟨c, o, h⟩ := locate_gsizes_isSome labels hq
  obtain ⟨l, _, ho, horig, hlab⟩ := origPos_spec labels h
  rw [horig]
  by_contra hn
  rw [List.getElem?_eq_none (by omega)] at hlab
  simp at hlab

/-- … such that the labels read at `origPos 0, origPos 1, …` are sorted by charge, and positions
    with equal labels keep their original order (stability); in particular it is injective -/
theorem origPos_sorted_stable (labels : List Charge) {q q' : Nat} (hq : q < q')
    (hq' : q' < labels.length) :
    let c := labels.getD (origPos labels q) (0, 0)
    let c' := labels.getD (origPos labels q') (0, 0)
    Charge.lt c c' = true ∨ (c = c' ∧ origPos labels q < origPos labels q') := by
  obtain ⟨c, o, h⟩ := locate_gsizes_isSome labels (show q < labels.length by omega)
  obtain ⟨c', o', h'⟩ := locate_gsizes_isSome labels hq'
  obtain ⟨l, hl, ho, horig, hlab⟩ := origPos_spec labels h
  obtain ⟨l', hl', ho', horig', hlab'⟩ := origPos_spec labels h'
  simp only [horig, horig', List.getD_eq_getElem?_getD, hlab, hlab', Option.getD_some]
  rcases locate_mono (gsizes_sorted_strict labels) hq h h' with hlt | ⟨rfl, hoo⟩
  · exact Or.inl hlt
  · right
    rw [hl] at hl'; injection hl' with hl'; subst hl'
    exact ⟨rfl, List.pairwise_iff_getElem.mp ((chargeGroups_inv labels).sorted c l hl) o o' ho ho' hoo⟩

theorem Charge.lt_irrefl (c : Charge) : Charge.lt c c = false := by
  rw [Bool.eq_false_iff, Ne, Charge.lt_iff]; omega

theorem origPos_injective (labels : List Charge) {q q' : Nat} (hq : q < labels.length)
    (hq' : q' < labels.length) (h : origPos labels q = origPos labels q') : q = q' := by
  rcases Nat.lt_trichotomy q q' with hlt | heq | hgt
  · rcases origPos_sorted_stable labels hlt hq' with h1 | ⟨_, h2⟩
    · rw [h, Charge.lt_irrefl] at h1; cases h1
    · omega
  · exact heq
  · rcases origPos_sorted_stable labels hgt hq with h1 | ⟨_, h2⟩
    · rw [h, Charge.lt_irrefl] at h1; cases h1
    · omega

end fromDense

/-! ## the validity predicate `Arr.validB` (property C01) implies the hypotheses used above -/

section valid
variable {R : Type}

theorem pairwise_of_isSortedStrict {l : List Charge} (h : isSortedStrict Charge.lt l = true) :
    l.Pairwise (fun a b => Charge.lt a b = true) := by
  induction l with
  | nil => exact List.Pairwise.nil
  | cons a l ih =>
    cases l with
    | nil => simp
    | cons b l =>
      simp only [isSortedStrict, Bool.and_eq_true] at h
      have ih' := ih h.2
      rw [List.pairwise_cons] at ih' ⊢
      refine ⟨fun x hx => ?_, List.pairwise_cons.mpr ih'⟩
      rcases List.mem_cons.mp hx with rfl | hx
      · exact h.1
      · exact Charge.lt_trans h.1 (ih'.1 x hx)

theorem nodup_of_pairwise_lt {l : List Charge} (h : l.Pairwise (fun a b => Charge.lt a b = true)) :
    l.Nodup :=
  h.imp (fun {a b} hab e => by subst e; rw [Charge.lt_irrefl] at hab; cases hab)

theorem nodup_of_allDistinct {α : Type} [BEq α] [LawfulBEq α] {l : List α}
    (h : allDistinct l = true) : l.Nodup := by
  induction l with
  | nil => exact List.nodup_nil
  | cons a l ih =>
    simp only [allDistinct, Bool.and_eq_true, Bool.not_eq_true', List.contains_eq_mem,
      decide_eq_false_iff_not] at h
    exact List.nodup_cons.mpr ⟨h.1, ih h.2⟩

theorem wfB_of_wfListB {sym : Sym} {idx : List Index} (h : Index.wfListB sym idx = true) :
    ∀ ix ∈ idx, Index.wfB sym ix = true := by
  induction idx with
  | nil => simp
  | cons i is ih =>
    simp only [Index.wfListB, Bool.and_eq_true] at h
    intro ix hix
    rcases List.mem_cons.mp hix with rfl | hix
    · exact h.1
    · exact ih h.2 ix hix

theorem sorted_of_wfB {sym : Sym} {ix : Index} (h : Index.wfB sym ix = true) :
    (ix.cm.map (·.1)).Pairwise (fun a b => Charge.lt a b = true) := by
  cases ix with
  | mk cm dual sub =>
    unfold Index.wfB at h
    rw [Bool.and_eq_true, Bool.and_eq_true] at h
    exact pairwise_of_isSortedStrict h.1.1

theorem pos_of_wfB {sym : Sym} {ix : Index} (h : Index.wfB sym ix = true) :
    ∀ cd ∈ ix.cm, 0 < cd.2 := by
  cases ix with
  | mk cm dual sub =>
    unfold Index.wfB at h
    rw [Bool.and_eq_true, Bool.and_eq_true, List.all_eq_true] at h
    intro cd hcd
    have := h.1.2 cd hcd
    simp only [Bool.and_eq_true, decide_eq_true_eq] at this
    exact this.1

theorem validB_pos (a : Arr R) (h : a.validB = true) : ∀ ix ∈ a.indices, ∀ cd ∈ ix.cm, 0 < cd.2 := by
  simp only [Arr.validB, Bool.and_eq_true] at h
  exact fun ix hix => pos_of_wfB (wfB_of_wfListB h.1.1.1.1 ix hix)

/-- a valid array satisfies every structural hypothesis of the C08 theorems -/
theorem validB_facts (a : Arr R) (h : a.validB = true) :
    Arr.ShapesOk a ∧ a.sectors.Nodup ∧ (∀ s ∈ a.sectors, s.length = a.ndim)
    ∧ (∀ s ∈ a.sectors, a.isValidSector s = true)
    ∧ (∀ ix ∈ a.indices, (ix.cm.map (·.1)).Pairwise (fun a b => Charge.lt a b = true))
    ∧ (a.fermi = false → a.phases = []) := by
  simp only [Arr.validB, Bool.and_eq_true, List.all_eq_true] at h
  obtain ⟨⟨⟨⟨hwf, _⟩, hdist⟩, hbl⟩, hph⟩ := h
  have hsorted := fun ix hix => sorted_of_wfB (wfB_of_wfListB hwf ix hix)
  refine ⟨⟨fun ix hix => nodup_of_pairwise_lt (hsorted ix hix), fun s b hb => ?_⟩,
    nodup_of_allDistinct hdist, fun s hs => ?_, fun s hs => ?_, hsorted, fun hf => ?_⟩
  · have := hbl (s, b) (alookup_eq_some_mem hb)
    simp only [beq_iff_eq] at this
    exact this.1.2
  · obtain ⟨⟨s', b⟩, hm, rfl⟩ := List.mem_map.mp hs
    have := hbl (s', b) hm
    simp only [beq_iff_eq] at this
    exact this.1.1.1
  · obtain ⟨⟨s', b⟩, hm, rfl⟩ := List.mem_map.mp hs
    have := hbl (s', b) hm
    simp only [beq_iff_eq] at this
    exact this.1.1.2
  · simp only [hf, Bool.false_eq_true, if_false, Bool.and_eq_true, List.isEmpty_iff] at hph
    exact hph.1

end valid

/-! ## C16: blocks → dense → blocks (labels in the sorted layout) -/

section roundtrip
variable {R : Type}

/-- two lists sorted by an asymmetric relation with the same members are equal -/
theorem sorted_ext {α : Type} {r : α → α → Prop} (hasym : ∀ a b, r a b → ¬ r b a)
    {l1 l2 : List α} (h1 : l1.Pairwise r) (h2 : l2.Pairwise r) (hm : ∀ x, x ∈ l1 ↔ x ∈ l2) :
    l1 = l2 := by
  induction l1 generalizing l2 with
  | nil =>
    cases l2 with
    | nil => rfl
    | cons b t => exact absurd ((hm b).mpr (by simp)) (by simp)
  | cons a t1 ih =>
    cases l2 with
    | nil => exact absurd ((hm a).mp (by simp)) (by simp)
    | cons b t2 =>
      rw [List.pairwise_cons] at h1 h2
      have hab : a = b := by
        by_contra hne
        have ha : a ∈ t2 := by
          rcases List.mem_cons.mp ((hm a).mp (by simp)) with h | h
          · exact absurd h hne
          · exact h
        have hb : b ∈ t1 := by
          rcases List.mem_cons.mp ((hm b).mpr (by simp)) with h | h
          · exact absurd h.symm hne
          · exact h
        exact hasym a b (h1.1 b hb) (h2.1 a ha)
      subst hab
      congr 1
      refine ih h1.2 h2.2 (fun x => ⟨fun hx => ?_, fun hx => ?_⟩)
      · rcases List.mem_cons.mp ((hm x).mp (List.mem_cons_of_mem _ hx)) with h | h
        · subst h; exact absurd (h1.1 x hx) (fun h' => hasym x x h' h')
        · exact h
      · rcases List.mem_cons.mp ((hm x).mpr (List.mem_cons_of_mem _ hx)) with h | h
        · subst h; exact absurd (h2.1 x hx) (fun h' => hasym x x h' h')
        · exact h

/-- the labels of an axis laid out in the order of the charge table `cm` -/
def labelsOf (cm : List (Charge × Nat)) : List Charge :=
  cm.flatMap (fun cd => List.replicate cd.2 cd.1)

theorem labelsOf_getElem? (cm : List (Charge × Nat)) (q : Nat) :
    (labelsOf cm)[q]? = (Arr.locate cm q).map (·.1) := by
  induction cm generalizing q with
  | nil => simp [labelsOf, Arr.locate]
  | cons kd rest ih =>
    obtain ⟨k, d⟩ := kd
    have : labelsOf ((k, d) :: rest) = List.replicate d k ++ labelsOf rest := by
      simp [labelsOf]
    rw [this]
    simp only [Arr.locate]
    by_cases hq : q < d
    · rw [if_pos hq, List.getElem?_append_left (by simpa using hq), List.getElem?_replicate, if_pos hq]
      rfl
    · rw [if_neg hq, List.getElem?_append_right (by simpa using Nat.le_of_not_lt hq)]
      simpa using ih (q - d)

theorem length_labelsOf (cm : List (Charge × Nat)) : (labelsOf cm).length = sumN (cm.map (·.2)) := by
  induction cm with
  | nil => rfl
  | cons kd rest ih =>
    have : labelsOf (kd :: rest) = List.replicate kd.2 kd.1 ++ labelsOf rest := by
      simp [labelsOf]
    rw [this, List.length_append, List.length_replicate, ih]; rfl

/-- first position of charge `c` along a table -/
def startOf : List (Charge × Nat) → Charge → Nat
  | [], _ => 0
  | (k, d) :: rest, c => if k = c then 0 else d + startOf rest c

theorem position_eq_start {cm : List (Charge × Nat)} (hnd : (cm.map (·.1)).Nodup) {c : Charge}
    {d o : Nat} (hm : (c, d) ∈ cm) (ho : o < d) :
    Arr.position cm c o = some (startOf cm c + o) := by
  induction cm with
  | nil => simp at hm
  | cons kd rest ih =>
    obtain ⟨k, d'⟩ := kd
    simp only [List.map_cons, List.nodup_cons] at hnd
    rcases List.mem_cons.mp hm with e | hm'
    · simp only [Prod.mk.injEq] at e; obtain ⟨rfl, rfl⟩ := e
      simp [Arr.position, startOf, ho]
    · have hk : k ≠ c := by
        intro e; subst e
        exact hnd.1 (List.mem_map.mpr ⟨_, hm', rfl⟩)
      simp only [Arr.position, startOf, hk, if_false, ih hnd.2 hm', Option.map_some,
        Option.some.injEq]
      omega

/-- the positions labelled `c` form the interval `[startOf cm c, startOf cm c + d)` -/
theorem labelsOf_eq_iff {cm : List (Charge × Nat)} (hnd : (cm.map (·.1)).Nodup) {c : Charge}
    {d : Nat} (hm : (c, d) ∈ cm) (i : Nat) :
    (labelsOf cm)[i]? = some c ↔ startOf cm c ≤ i ∧ i < startOf cm c + d := by
  rw [labelsOf_getElem?]
  constructor
  · intro h
    cases hl : Arr.locate cm i with
    | none => simp [hl] at h
    | some co =>
      obtain ⟨c', o⟩ := co
      simp only [hl, Option.map_some, Option.some.injEq] at h
      subst h
      obtain ⟨d', hm', ho⟩ := Arr.locate_spec hl
      have hdd : d' = d := by
        have h1 := alookup_of_mem_nodup hnd hm
        have h2 := alookup_of_mem_nodup hnd hm'
        rw [h1] at h2; exact (Option.some.inj h2).symm
      subst hdd
      have h1 := Arr.position_locate hnd hl
      rw [position_eq_start hnd hm ho] at h1
      have := Option.some.inj h1
      omega
  · rintro ⟨h1, h2⟩
    have hpos := position_eq_start hnd hm (show i - startOf cm c < d by omega)
    rw [show startOf cm c + (i - startOf cm c) = i by omega] at hpos
    rw [Arr.locate_position hpos]; rfl

/-- for labels in the sorted layout, the group of `c` is the interval of its positions -/
theorem chargeGroups_labelsOf {cm : List (Charge × Nat)} (hnd : (cm.map (·.1)).Nodup)
    {c : Charge} {d : Nat} (hm : (c, d) ∈ cm) (hd : 0 < d) :
    alookup (chargeGroups (labelsOf cm)) c = some (List.range' (startOf cm c) d) := by
  have inv := chargeGroups_inv (labelsOf cm)
  have h0 : (labelsOf cm)[startOf cm c]? = some c := (labelsOf_eq_iff hnd hm _).mpr ⟨by omega, by omega⟩
  have hlt : startOf cm c < (labelsOf cm).length := by
    by_contra hn; rw [List.getElem?_eq_none (by omega)] at h0; cases h0
  obtain ⟨l, hl, _⟩ := inv.cover _ c hlt h0
  rw [hl]
  congr 1
  refine sorted_ext (r := fun a b : Nat => a < b) (fun a b h h' => by omega) (inv.sorted c l hl)
    (List.pairwise_lt_range' 1) (fun i => ?_)
  rw [List.mem_range'_1, ← labelsOf_eq_iff hnd hm]
  constructor
  · exact fun hi => (inv.label c l hl i hi).1
  · intro hi
    have hilt : i < (labelsOf cm).length := by
      by_contra hn; rw [List.getElem?_eq_none (by omega)] at hi; cases hi
    obtain ⟨l', hl', hmem⟩ := inv.cover i c hilt hi
    rw [hl] at hl'; injection hl' with hl'; subst hl'; exact hmem

/-- … so its group sizes, sorted, give back a strictly sorted table with positive sizes -/
theorem sortCm_gsizes_labelsOf {cm : List (Charge × Nat)}
    (hs : (cm.map (·.1)).Pairwise (fun a b => Charge.lt a b = true))
    (hpos : ∀ cd ∈ cm, 0 < cd.2) : Index.sortCm (gsizes (labelsOf cm)) = cm := by
  have hnd : (cm.map (·.1)).Nodup := nodup_of_pairwise_lt hs
  have hg := gsizes_sorted_strict (labelsOf cm)
  rw [List.pairwise_map] at hg hs
  refine sorted_ext (r := fun a b : Charge × Nat => Charge.lt a.1 b.1 = true)
    (fun a b h h' => by rw [Charge.lt_asymm h] at h'; cases h') hg hs (fun x => ?_)
  obtain ⟨c, n⟩ := x
  rw [mem_sortCm, mem_gsizes]
  constructor
  · rintro ⟨l, hl, rfl⟩
    have inv := chargeGroups_inv (labelsOf cm)
    obtain ⟨i, hi⟩ := List.exists_mem_of_ne_nil l (inv.nonempty c l hl)
    have hlab := (inv.label c l hl i hi).1
    rw [labelsOf_getElem?] at hlab
    cases hloc : Arr.locate cm i with
    | none => simp [hloc] at hlab
    | some co =>
      obtain ⟨c', o⟩ := co
      simp only [hloc, Option.map_some, Option.some.injEq] at hlab
      subst hlab
      obtain ⟨d, hm, _⟩ := Arr.locate_spec hloc
      have := chargeGroups_labelsOf hnd hm (hpos _ hm)
      rw [hl] at this; injection this with this
      rw [this, List.length_range']; exact hm
  · intro hm
    exact ⟨_, chargeGroups_labelsOf hnd hm (hpos _ hm), List.length_range'⟩

/-- per axis: the `o`-th position labelled `c` is the position whose address is `(c, o)` -/
theorem fd_axis_roundtrip {cm : List (Charge × Nat)}
    (hs : (cm.map (·.1)).Pairwise (fun a b => Charge.lt a b = true))
    (hpos : ∀ cd ∈ cm, 0 < cd.2) {c : Charge} {d o : Nat} (hd : alookup cm c = some d) (ho : o < d) :
    ∃ l, alookup (chargeGroups (labelsOf cm)) c = some l ∧ l.length = d
      ∧ Arr.locate (Index.sortCm cm) (l.getD o 0) = some (c, o)
      ∧ l.getD o 0 < sumN (cm.map (·.2)) := by
  have hnd : (cm.map (·.1)).Nodup := nodup_of_pairwise_lt hs
  have hm := alookup_eq_some_mem hd
  have hsc : Index.sortCm cm = cm := by
    apply sortCm_of_sorted
    rw [List.pairwise_map] at hs
    exact hs.imp (fun {a b} h => Charge.lt_asymm h)
  refine ⟨_, chargeGroups_labelsOf hnd hm (hpos _ hm), List.length_range', ?_, ?_⟩
  · rw [hsc, List.getD_eq_getElem?_getD, List.getElem?_eq_getElem (by simpa using ho),
      List.getElem_range']
    simp only [Nat.one_mul, Option.getD_some]
    exact Arr.locate_position (position_eq_start hnd hm ho)
  · rw [List.getD_eq_getElem?_getD, List.getElem?_eq_getElem (by simpa using ho),
      List.getElem_range']
    simp only [Nat.one_mul, Option.getD_some]
    have := Arr.locate_lt (Arr.locate_position (position_eq_start hnd hm ho))
    exact this

/-- the labels of all axes in the sorted layout -/
def labelsOfIdx (indices : List Index) : List (List Charge) := indices.map (fun ix => labelsOf ix.cm)

/-- all axes: for a sector/offset of the index tables, `from_dense`'s position list is in the
    box and its entries are located back at (sector, offset) -/
theorem fd_roundtrip_locate (idx : List Index)
    (hs : ∀ ix ∈ idx, (ix.cm.map (·.1)).Pairwise (fun a b => Charge.lt a b = true))
    (hpos : ∀ ix ∈ idx, ∀ cd ∈ ix.cm, 0 < cd.2)
    (s : Sector) (shp off : List Nat) (hshp : Arr.blockShape? idx s = some shp)
    (hoff : inBox shp off = true) :
    let r := List.zipWith (fun (p : List Nat) k => p.getD k 0) (fdPos (labelsOfIdx idx) s) off
    s ∈ fdSectors (labelsOfIdx idx)
    ∧ (fdPos (labelsOfIdx idx) s).map List.length = shp
    ∧ inBox (idx.map Index.sizeTotal) r = true
    ∧ Arr.locateAll idx r = some (s, off) := by
  induction idx generalizing s shp off with
  | nil =>
    cases s with
    | cons c s => simp [Arr.blockShape?] at hshp
    | nil =>
      simp only [Arr.blockShape?_nil_nil, Option.some.injEq] at hshp
      subst hshp
      cases off with
      | cons o off => simp [inBox] at hoff
      | nil => exact ⟨by simp [fdSectors, labelsOfIdx, cartesian], rfl, rfl, rfl⟩
  | cons ix idx ih =>
    cases s with
    | nil => simp [Arr.blockShape?] at hshp
    | cons c s =>
      rw [Arr.blockShape?_cons] at hshp
      cases hd : ix.sizeOf? c with
      | none => simp [hd] at hshp
      | some d =>
        cases hr : Arr.blockShape? idx s with
        | none => simp [hd, hr] at hshp
        | some shp' =>
          simp only [hd, hr, Option.bind_some, Option.map_some, Option.some.injEq] at hshp
          subst hshp
          cases off with
          | nil => simp [inBox] at hoff
          | cons o off =>
            rw [inBox_cons] at hoff
            obtain ⟨l, hl, hlen, hloc, hlt⟩ := fd_axis_roundtrip (hs ix (by simp)) (hpos ix (by simp))
              (show alookup ix.cm c = some d from hd) hoff.1
            obtain ⟨h1, h2, h3, h4⟩ := ih (fun ix' h' => hs ix' (by simp [h']))
              (fun ix' h' => hpos ix' (by simp [h'])) s shp' off hr hoff.2
            have hfp : fdPos (labelsOfIdx (ix :: idx)) (c :: s) = l :: fdPos (labelsOfIdx idx) s := by
              simp [fdPos, labelsOfIdx, hl]
            intro r
            have hr' : r = l.getD o 0 ::
                List.zipWith (fun (p : List Nat) k => p.getD k 0) (fdPos (labelsOfIdx idx) s) off := by
              simp only [r, hfp, List.zipWith_cons_cons]
            refine ⟨?_, ?_, ?_, ?_⟩
            · simp only [fdSectors, labelsOfIdx, List.map_cons, cartesian, List.mem_flatMap,
                List.mem_map]
              exact ⟨c, List.mem_map.mp ((alookup_isSome_iff (l := chargeGroups (labelsOf ix.cm))
                (k := c)).mp (by rw [hl]; rfl)), s, h1, rfl⟩
            · rw [hfp, List.map_cons, hlen, h2]
            · rw [hr', List.map_cons, inBox_cons]
              exact ⟨hlt, h3⟩
            · rw [hr', Arr.locateAll_cons, hloc, h4]; rfl

/-- **blocks → dense → blocks.**  For an array without pending signs whose index tables are
    strictly sorted with positive sizes, whose stored sectors conserve the charge and whose blocks
    have the prescribed shapes: `from_dense(to_dense(a), labels in the sorted layout)` has the same
    charge tables and directions, and the same value view on every sector of the index tables
    (it additionally stores the conserving sectors `a` leaves out, as zero blocks). -/
theorem fromDense_toDense_main [Zero R] [Neg R] (a : Arr R) (hph : a.phases = [])
    (hs : ∀ ix ∈ a.indices, (ix.cm.map (·.1)).Pairwise (fun a b => Charge.lt a b = true))
    (hpos : ∀ ix ∈ a.indices, ∀ cd ∈ ix.cm, 0 < cd.2)
    (hne : a.indices.any (fun ix => ix.cm.isEmpty) = false)
    (hvalid : ∀ s ∈ a.sectors, a.isValidSector s = true)
    (d : Blk R) (hd : Arr.toDenseA a = .ok d) (b : Arr R)
    (hb : fromDense a.sym a.fermi d (labelsOfIdx a.indices) a.duals (some a.charge) a.oddpos = .ok b) :
    b.indices = a.indices.map (fun ix => Index.mk ix.cm ix.dual none)
    ∧ b.charge = a.charge ∧ b.sym = a.sym ∧ b.fermi = a.fermi ∧ b.phases = [] ∧ b.oddpos = a.oddpos
    ∧ (∀ s, s ∈ b.sectors ↔ (s ∈ fdSectors (labelsOfIdx a.indices) ∧ a.isValidSector s = true))
    ∧ ∀ s shp off, Arr.blockShape? a.indices s = some shp → inBox shp off = true →
        b.elem s off = a.elem s off := by
  obtain ⟨d0, hd0, hsh0, hg0⟩ := Arr.toDenseA_get a hne
  rw [hd] at hd0; injection hd0 with hd0; subst hd0
  have hlenlab : (labelsOfIdx a.indices).map List.length = d.shape := by
    rw [hsh0, Arr.shape, labelsOfIdx, List.map_map]
    apply List.map_congr_left
    intro ix _
    simp [Function.comp, length_labelsOf, Index.sizeTotal]
  have hm : (labelsOfIdx a.indices).length = d.shape.length := by
    rw [← hlenlab]; simp
  have hdl : a.duals.length = d.shape.length := by
    rw [hsh0]; simp [Arr.duals, Arr.shape]
  have hguard : (List.zipWith (fun (m : List Charge) d => m.length != d) (labelsOfIdx a.indices)
      d.shape).any id = false := by
    rw [← hlenlab, List.any_eq_false]
    intro x hx
    simp only [List.zipWith_map_right, List.zipWith_self, List.mem_map] at hx
    obtain ⟨m, _, rfl⟩ := hx
    simp
  rw [fromDense_eq a.sym a.fermi d _ a.duals (some a.charge) a.oddpos hm hdl hguard,
    construct_eq] at hb
  split at hb
  · cases hb
  injection hb with hb
  have hbl : b.blocks = fdBlocks a.sym d (labelsOfIdx a.indices) a.duals a.charge := by
    rw [← hb]; exact adict_of_nodup _ (fdBlocks_nodup a.sym d _ a.duals _)
  have hbph : b.phases = [] := by rw [← hb]
  have hidx : fdIndices (labelsOfIdx a.indices) a.duals
      = a.indices.map (fun ix => Index.mk ix.cm ix.dual none) := by
    simp only [fdIndices, labelsOfIdx, Arr.duals, List.zipWith_map_left, List.zipWith_map_right,
      List.zipWith_self]
    apply List.map_congr_left
    intro ix hix
    simp only [Index.plain, sortCm_gsizes_labelsOf (hs ix hix) (hpos ix hix)]
  refine ⟨by rw [← hb]; exact hidx, by rw [← hb]; rfl, by rw [← hb], by rw [← hb], hbph,
    by rw [← hb], fun s => ?_, fun s shp off hshp hoff => ?_⟩
  · rw [Arr.sectors, hbl, fdBlocks_keys, List.mem_filter]; rfl
  · obtain ⟨h1, h2, h3, h4⟩ := fd_roundtrip_locate a.indices hs hpos s shp off hshp hoff
    rw [Arr.elem_abelian b hbph, hbl, fdBlocks,
      alookup_filterMap_keys (fdSectors (labelsOfIdx a.indices))
        (fun s => Arr.sectorCharge a.sym a.duals s == a.charge)
        (fun s => fdBlock d (labelsOfIdx a.indices) s) s h1]
    by_cases hc : (Arr.sectorCharge a.sym a.duals s == a.charge) = true
    · simp only [hc, if_true]
      rw [fdBlock, Blk.get_ofFn _ _ (by rw [h2]; exact hoff)]
      obtain ⟨sec, off', hloc, hget⟩ := hg0 _ h3
      rw [h4] at hloc
      simp only [Option.some.injEq, Prod.mk.injEq] at hloc
      obtain ⟨rfl, rfl⟩ := hloc
      exact hget
    · simp only [hc, Bool.false_eq_true, if_false]
      rw [Arr.elem_abelian a hph]
      cases hbs : alookup a.blocks s with
      | none => rfl
      | some blk =>
        have := hvalid s (alookup_isSome_iff.mp (by rw [hbs]; rfl))
        exact absurd this hc

end roundtrip

/-! ## C16: `from_fill_fn`, and `from_blocks` on the blocks of an existing array -/

section agree
variable {R : Type}

theorem mapM_except_ok {α β ε : Type} {f : α → Except ε β} {l : List α} {r : List β}
    (h : l.mapM f = .ok r) : List.Forall₂ (fun a b => f a = .ok b) l r := by
  induction l generalizing r with
  | nil =>
    simp only [List.mapM_nil, pure, Except.pure] at h
    injection h with h; subst h; exact List.Forall₂.nil
  | cons a l ih =>
    rw [List.mapM_cons] at h
    simp only [bind, Except.bind, pure, Except.pure] at h
    cases hfa : f a with
    | error e => simp [hfa] at h
    | ok b =>
      cases hl : l.mapM f with
      | error e => simp [hfa, hl] at h
      | ok r' =>
        simp only [hfa, hl] at h
        injection h with h; subst h
        exact List.Forall₂.cons hfa (ih hl)

/-- `from_fill_fn`: the result has the given indices, the identity-defaulted charge, and one
    block per valid sector (in `gen_valid_sectors` order), each the fill function applied to the
    sector and its shape -/
theorem fromFillFn_spec (sym : Sym) (fermi : Bool) (indices : List Index) (charge : Option Charge)
    (fill : Sector → List Nat → Blk R) (oddpos : List (Int × Bool)) (b : Arr R)
    (h : fromFillFn sym fermi indices charge fill oddpos = .ok b) :
    b.sym = sym ∧ b.fermi = fermi ∧ b.indices = indices ∧ b.charge = charge.getD sym.zero
    ∧ b.phases = [] ∧ b.oddpos = oddpos
    ∧ List.Forall₂ (fun s (sb : Sector × Blk R) =>
        sb.1 = s ∧ ∃ shp, Arr.blockShape? indices s = some shp ∧ sb.2 = fill s shp)
        (Arr.genValidSectors
          ({ sym := sym, fermi := fermi, indices := indices, charge := charge.getD sym.zero,
             blocks := [], phases := [], oddpos := oddpos } : Arr R))
        b.blocks
    ∧ (fermi && sym.parity (charge.getD sym.zero) && oddpos.isEmpty) = false := by
  unfold fromFillFn at h
  simp only [bind, Except.bind, pure, Except.pure] at h
  rw [construct_eq] at h
  by_cases hc : (fermi && sym.parity (resolvedCharge sym indices (some (charge.getD sym.zero))
      ([] : List (Sector × Blk R))) && oddpos.isEmpty) = true
  · rw [if_pos hc] at h; cases h
  rw [if_neg hc] at h
  dsimp only at h
  split at h
  · cases h
  rename_i blocks hm
  injection h with h
  subst h
  refine ⟨rfl, rfl, rfl, rfl, rfl, rfl, ?_, by simpa [resolvedCharge] using hc⟩
  refine (mapM_except_ok hm).imp ?_
  intro s sb hsb
  cases hshp : Arr.blockShape? indices s with
  | none => simp [hshp] at hsb
  | some shp =>
    simp only [hshp] at hsb
    injection hsb with hsb; subst hsb
    exact ⟨rfl, shp, rfl, rfl⟩

/-- … so the direct constructor applied to those blocks returns the same array -/
theorem fromFillFn_construct (sym : Sym) (fermi : Bool) (indices : List Index)
    (charge : Option Charge) (fill : Sector → List Nat → Blk R) (oddpos : List (Int × Bool))
    (b : Arr R) (h : fromFillFn sym fermi indices charge fill oddpos = .ok b)
    (hnd : b.sectors.Nodup) :
    construct sym fermi indices (some (charge.getD sym.zero)) b.blocks oddpos = .ok b := by
  obtain ⟨h1, h2, h3, h4, h5, h6, _, h8⟩ := fromFillFn_spec sym fermi indices charge fill oddpos b h
  rw [construct_eq, if_neg (by simpa [resolvedCharge] using h8), adict_of_nodup _ hnd]
  cases b
  simp only at h1 h2 h3 h4 h5 h6
  subst h1 h2 h3 h4 h5 h6
  rfl

theorem blockShape?_getElem {idx : List Index} {s : Sector} {shp : List Nat}
    (h : Arr.blockShape? idx s = some shp) {i : Nat} {ix : Index} {c : Charge}
    (hi : idx[i]? = some ix) (hc : s[i]? = some c) :
    ∃ d, shp[i]? = some d ∧ alookup ix.cm c = some d := by
  induction idx generalizing s shp i with
  | nil => simp at hi
  | cons ix0 idx ih =>
    cases s with
    | nil => simp at hc
    | cons c0 s =>
      rw [Arr.blockShape?_cons] at h
      cases hd : ix0.sizeOf? c0 with
      | none => simp [hd] at h
      | some d =>
        cases hr : Arr.blockShape? idx s with
        | none => simp [hd, hr] at h
        | some shp' =>
          simp only [hd, hr, Option.bind_some, Option.map_some, Option.some.injEq] at h
          subst h
          cases i with
          | zero =>
            simp only [List.getElem?_cons_zero, Option.some.injEq] at hi hc
            subst hi hc
            exact ⟨d, rfl, hd⟩
          | succ i =>
            simp only [List.getElem?_cons_succ] at hi hc ⊢
            exact ih hr hi hc

/-- `from_blocks` on the blocks and directions of an array recovers its indices, provided the
    tables are plain, strictly sorted, and every listed charge is used by some stored sector -/
theorem inferIndices_of_array (a : Arr R) (hne : a.blocks ≠ [])
    (hlen : ∀ sb ∈ a.blocks, sb.1.length = a.ndim)
    (hshape : ∀ sb ∈ a.blocks, Arr.blockShape? a.indices sb.1 = some sb.2.shape)
    (hs : ∀ ix ∈ a.indices, (ix.cm.map (·.1)).Pairwise (fun a b => Charge.lt a b = true))
    (hplain : ∀ ix ∈ a.indices, ix.sub = none)
    (hused : ∀ (i : Nat) (ix : Index), a.indices[i]? = some ix →
      ∀ cd ∈ ix.cm, ∃ sb ∈ a.blocks, sb.1[i]? = some cd.1) :
    inferIndices a.blocks a.duals = .ok a.indices := by
  cases hb : a.blocks with
  | nil => exact absurd hb hne
  | cons sb0 rest =>
    obtain ⟨s0, b0⟩ := sb0
    have hn : s0.length = a.indices.length := by
      have := hlen (s0, b0) (by rw [hb]; simp)
      simpa [Arr.ndim] using this
    have hdl : a.duals.length = s0.length := by simp [Arr.duals, hn]
    have hagree : SizesAgree ((s0, b0) :: rest) s0.length := by
      intro sb hsb sb' hsb' i hi c d d' h1 h2 h3 h4
      have hix : i < a.indices.length := by omega
      obtain ⟨d1, e1, e2⟩ := blockShape?_getElem (hshape sb (by rw [hb]; exact hsb))
        (List.getElem?_eq_getElem hix) h1
      obtain ⟨d2, e3, e4⟩ := blockShape?_getElem (hshape sb' (by rw [hb]; exact hsb'))
        (List.getElem?_eq_getElem hix) h3
      rw [h2] at e1; rw [h4] at e3; rw [e2] at e4
      injection e1 with e1; injection e3 with e3; injection e4 with e4
      omega
    rcases inferIndices_spec s0 b0 rest a.duals with ⟨h1, _⟩ | ⟨_, h2, _⟩ | ⟨_, _, idx, hok, hl, hspec⟩
    · exact absurd hagree h1
    · exact absurd hdl h2
    rw [hok]
    congr 1
    apply List.ext_getElem?
    intro i
    by_cases hi : i < s0.length
    · obtain ⟨ix', hix', hdual, hsub, hmem, hsorted⟩ := hspec i hi
      have hix : i < a.indices.length := by omega
      rw [hix', List.getElem?_eq_getElem hix]
      congr 1
      have hmi : a.indices[i] ∈ a.indices := List.getElem_mem hix
      have hnd : ((a.indices[i]).cm.map (·.1)).Nodup := nodup_of_pairwise_lt (hs _ hmi)
      have hcm : ix'.cm = (a.indices[i]).cm := by
        have h1 := hsorted
        have h2 := hs _ hmi
        rw [List.pairwise_map] at h1 h2
        refine sorted_ext (r := fun a b : Charge × Nat => Charge.lt a.1 b.1 = true)
          (fun a b h h' => by rw [Charge.lt_asymm h] at h'; cases h') h1 h2 (fun x => ?_)
        obtain ⟨c, d⟩ := x
        rw [hmem c d]
        constructor
        · rintro ⟨sb, hsb, e1, e2⟩
          obtain ⟨d1, e3, e4⟩ := blockShape?_getElem (hshape sb (by rw [hb]; exact hsb))
            (List.getElem?_eq_getElem hix) e1
          rw [e2] at e3; injection e3 with e3; subst e3
          exact alookup_eq_some_mem e4
        · intro hcd
          obtain ⟨sb, hsb, e1⟩ := hused i _ (List.getElem?_eq_getElem hix) (c, d) hcd
          obtain ⟨d1, e3, e4⟩ := blockShape?_getElem (hshape sb hsb) (List.getElem?_eq_getElem hix) e1
          have := alookup_of_mem_nodup hnd hcd
          rw [e4] at this; injection this with this; subst this
          exact ⟨sb, by rw [← hb]; exact hsb, e1, e3⟩
      have hdd : ix'.dual = (a.indices[i]).dual := by
        have : a.duals[i]? = some (a.indices[i]).dual := by
          simp [Arr.duals, List.getElem?_map, List.getElem?_eq_getElem hix]
        rw [this] at hdual; exact Option.some.inj hdual
      have hss : ix'.sub = (a.indices[i]).sub := by rw [hsub, hplain _ hmi]
      cases hx : ix' with
      | mk c1 d1 s1 =>
        cases hy : a.indices[i] with
        | mk c2 d2 s2 =>
          rw [hx, hy] at hcm hdd hss
          simp only [Index.cm, Index.dual, Index.sub] at hcm hdd hss
          rw [hcm, hdd, hss]
    · rw [List.getElem?_eq_none (by omega), List.getElem?_eq_none (by omega)]

end agree

end SymmModel
