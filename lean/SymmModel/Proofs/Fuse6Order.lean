/-
  SymmModel.Proofs.Fuse6Order — unfusing several fused axes left to right (with the axis numbers
  shifted by what was already expanded) gives the same value view as unfusing them right to left.
-/
import SymmModel.Proofs.Fuse6Step
namespace SymmModel
namespace FuseP
set_option linter.unusedSectionVars false
open SymmModel.Lazy

variable {R : Type} [Zero R] [Neg R] [LawfulNeg R]

/-- axis `p` of `x` is a fused axis -/
def FusedAt (x : Arr R) (p : Nat) : Prop :=
  ∃ ix subs exts, x.indices[p]? = some ix ∧ ix.sub = some (subs, exts)

/-- axis `p` of `x` is a fused axis with `L` sub-indices -/
def FusedAtL (x : Arr R) (p L : Nat) : Prop :=
  ∃ ix subs exts, x.indices[p]? = some ix ∧ ix.sub = some (subs, exts) ∧ subs.length = L

/-- the axis numbers of a left-to-right unfuse: original axis plus what was expanded before -/
def l2rAxes : List (Nat × Nat) → Nat → List Nat
  | [], _ => []
  | (p, L) :: rest, off => (p + off) :: l2rAxes rest (off + L - 1)

theorem foldlM_snoc_ok {ε α β : Type} (f : β → α → Except ε β) (l : List α) (a : α) (x w z : β)
    (h1 : l.foldlM f x = .ok w) (h2 : f w a = .ok z) : (l ++ [a]).foldlM f x = .ok z := by
  rw [List.foldlM_append, h1]
  show [a].foldlM f w = _
  rw [List.foldlM_cons, h2]; rfl

theorem getElem?_replace_before {α : Type} (l s : List α) {p i : Nat} (hi : i < p) (hp : p < l.length) :
    (replaceWithSeq l p s)[i]? = l[i]? := by
  rw [replaceWithSeq_split, List.append_assoc, List.getElem?_append_left (by rw [List.length_take]; omega),
    List.getElem?_take_of_lt hi]

theorem getElem?_replace_after {α : Type} (l s : List α) {p q : Nat} (hq : p < q) (hp : p < l.length) :
    (replaceWithSeq l p s)[q - 1 + s.length]? = l[q]? := by
  rw [replaceWithSeq_split, List.getElem?_append_right (by simp [List.length_take]; omega), List.getElem?_drop]
  congr 1
  simp only [List.length_append, List.length_take]
  omega

section Order
variable {unf : Arr R → Nat → Except Err (Arr R)} {Good : Arr R → Prop}
  {sg : Sym → Index → List Index → Sector → Int}

/-- unfusing right to left succeeds and leaves the indices before the unfused axes alone -/
theorem r2l_keep (H : StepOK unf Good sg) : ∀ (qs : List Nat) (x : Arr R), Good x → qs.Pairwise (· < ·) →
    (∀ q ∈ qs, FusedAt x q) →
    ∃ w, qs.reverse.foldlM unf x = .ok w ∧ Good w ∧ ∀ i, (∀ q ∈ qs, i < q) → w.indices[i]? = x.indices[i]? := by
  intro qs
  induction qs with
  | nil => intro x hx _ _; exact ⟨x, rfl, hx, fun _ _ => rfl⟩
  | cons q1 qs ih =>
    intro x hx hs hf
    obtain ⟨hlt, hs'⟩ := List.pairwise_cons.1 hs
    obtain ⟨w', hw', hgw', hkeep⟩ := ih x hx hs' (fun q hq => hf q (List.mem_cons_of_mem _ hq))
    obtain ⟨ix, subs, exts, hix, hsub⟩ := hf q1 (by simp)
    have hix' : w'.indices[q1]? = some ix := by rw [hkeep q1 hlt]; exact hix
    obtain ⟨w, hw, hgw, hwi, _⟩ := H.step w' q1 ix subs exts hgw' hix' hsub
    refine ⟨w, ?_, hgw, ?_⟩
    · rw [List.reverse_cons]; exact foldlM_snoc_ok unf _ _ _ _ _ hw' hw
    · intro i hi
      have hi1 : i < q1 := hi q1 (by simp)
      rw [hwi, getElem?_replace_before _ _ hi1 (getElem?_lt hix')]
      exact hkeep i (fun q hq => hi q (List.mem_cons_of_mem _ hq))

/-- an unfuse step at `p0` can be pushed through a right-to-left run on later axes -/
theorem r2l_push (H : StepOK unf Good sg) (x : Arr R) (hx : Good x) {p0 : Nat} {ix0 : Index}
    {subs0 : List Index} {exts0 : Extents} (h0 : x.indices[p0]? = some ix0) (hs0 : ix0.sub = some (subs0, exts0)) :
    ∀ qs : List Nat, qs.Pairwise (· < ·) → (∀ q ∈ qs, p0 < q ∧ FusedAt x q) →
    ∃ y zI w u, unf x p0 = .ok y ∧ (qs.map (fun q => q - 1 + subs0.length)).reverse.foldlM unf y = .ok zI
      ∧ qs.reverse.foldlM unf x = .ok w ∧ unf w p0 = .ok u ∧ Good zI ∧ Good u ∧ VEq zI u := by
  intro qs
  induction qs with
  | nil =>
    intro _ _
    obtain ⟨y, hy, hgy, _⟩ := H.step x p0 ix0 subs0 exts0 hx h0 hs0
    exact ⟨y, y, x, y, hy, rfl, rfl, hy, hgy, hgy, VEq.refl y⟩
  | cons q1 qs ih =>
    intro hs hf
    obtain ⟨hlt, hs'⟩ := List.pairwise_cons.1 hs
    obtain ⟨y, zI, w', u, hy, hzI, hw', hu, hgzI, hgu, hveq⟩ := ih hs' (fun q hq => hf q (List.mem_cons_of_mem _ hq))
    obtain ⟨w'', hw'', hgw', hkeep⟩ := r2l_keep H qs x hx hs' (fun q hq => (hf q (List.mem_cons_of_mem _ hq)).2)
    rw [hw'] at hw''
    simp only [Except.ok.injEq] at hw''
    subst hw''
    obtain ⟨hp01, ixQ, subsQ, extsQ, hixQ, hsubQ⟩ := hf q1 (by simp)
    have hixQ' : w'.indices[q1]? = some ixQ := by rw [hkeep q1 hlt]; exact hixQ
    have h0' : w'.indices[p0]? = some ix0 := by
      rw [hkeep p0 (fun q hq => Nat.lt_trans hp01 (hlt q hq))]; exact h0
    obtain ⟨y1, z1, y2, z2, hy1, hz1, hy2, hz2, _, hgz1, _, _, _, hy2i, hv12⟩ :=
      step_comm H w' hgw' hp01 h0' hs0 hixQ' hsubQ
    rw [hu] at hy2
    simp only [Except.ok.injEq] at hy2
    subst hy2
    have huq : u.indices[q1 - 1 + subs0.length]? = some ixQ := by
      rw [hy2i, getElem?_replace_after _ _ hp01 (getElem?_lt h0')]; exact hixQ'
    have hzq : zI.indices[q1 - 1 + subs0.length]? = some ixQ := by rw [hveq.indices]; exact huq
    obtain ⟨t, t', ht, ht', hgt, _, hvt⟩ := step_veq H hveq hgzI hgu hzq hsubQ
    rw [hz2] at ht'
    simp only [Except.ok.injEq] at ht'
    subst ht'
    refine ⟨y, t, y1, z1, hy, ?_, ?_, hz1, hgt, hgz1, hvt.trans hv12.symm⟩
    · rw [List.map_cons, List.reverse_cons]; exact foldlM_snoc_ok unf _ _ _ _ _ hzI ht
    · rw [List.reverse_cons]; exact foldlM_snoc_ok unf _ _ _ _ _ hw' hy1

/-- **left to right = right to left** (equal value views) -/
theorem l2r_r2l (H : StepOK unf Good sg) : ∀ (pls : List (Nat × Nat)) (off : Nat) (x : Arr R), Good x →
    (pls.map (·.1)).Pairwise (· < ·) → (∀ pl ∈ pls, 0 < pl.2 ∧ FusedAtL x (pl.1 + off) pl.2) →
    ∃ z z', (l2rAxes pls off).foldlM unf x = .ok z
      ∧ ((pls.map (fun pl => pl.1 + off)).reverse).foldlM unf x = .ok z' ∧ Good z ∧ Good z' ∧ VEq z z' := by
  intro pls
  induction pls with
  | nil => intro off x hx _ _; exact ⟨x, x, rfl, rfl, hx, hx, VEq.refl x⟩
  | cons pl rest ih =>
    obtain ⟨p, L⟩ := pl
    intro off x hx hs hf
    simp only [List.map_cons] at hs
    obtain ⟨hlt, hs'⟩ := List.pairwise_cons.1 hs
    obtain ⟨hL, ix, subs, exts, hix, hsub, hlen⟩ := hf (p, L) (by simp)
    simp only at hL hix hlen
    have hsq : (rest.map (fun pl => pl.1 + off)).Pairwise (· < ·) := by
      have := hs'.map (fun n => n + off) (fun a b hab => Nat.add_lt_add_right hab off)
      rw [List.map_map] at this
      exact this
    have hfq : ∀ q ∈ rest.map (fun pl => pl.1 + off), p + off < q ∧ FusedAt x q := by
      intro q hq
      obtain ⟨pl, hpl, rfl⟩ := List.mem_map.1 hq
      have h1 : p < pl.1 := hlt pl.1 (List.mem_map.2 ⟨pl, hpl, rfl⟩)
      obtain ⟨_, ix', subs', exts', h2, h3, _⟩ := hf pl (List.mem_cons_of_mem _ hpl)
      exact ⟨by omega, ix', subs', exts', h2, h3⟩
    obtain ⟨y, zI, w, u, hy, hzI, hw, hu, hgzI, hgu, hveq⟩ := r2l_push H x hx hix hsub _ hsq hfq
    obtain ⟨y', hy', hgy, hyi, _⟩ := H.step x (p + off) ix subs exts hx hix hsub
    rw [hy] at hy'
    simp only [Except.ok.injEq] at hy'
    subst hy'
    have hfy : ∀ pl ∈ rest, 0 < pl.2 ∧ FusedAtL y (pl.1 + (off + L - 1)) pl.2 := by
      intro pl hpl
      have h1 : p < pl.1 := hlt pl.1 (List.mem_map.2 ⟨pl, hpl, rfl⟩)
      obtain ⟨hL', ix', subs', exts', h2, h3, h4⟩ := hf pl (List.mem_cons_of_mem _ hpl)
      refine ⟨hL', ix', subs', exts', ?_, h3, h4⟩
      have : pl.1 + (off + L - 1) = (pl.1 + off) - 1 + subs.length := by omega
      rw [this, hyi, getElem?_replace_after _ _ (by omega) (getElem?_lt hix)]
      exact h2
    obtain ⟨z, z'', hz, hz'', hgz, _, hvz⟩ := ih (off + L - 1) y hgy hs' hfy
    have hmap : (rest.map (fun pl => pl.1 + off)).map (fun q => q - 1 + subs.length)
        = rest.map (fun pl => pl.1 + (off + L - 1)) := by
      rw [List.map_map]
      apply List.map_congr_left
      intro pl hpl
      have h1 : p < pl.1 := hlt pl.1 (List.mem_map.2 ⟨pl, hpl, rfl⟩)
      simp only [Function.comp]
      omega
    rw [hmap, hz''] at hzI
    simp only [Except.ok.injEq] at hzI
    subst hzI
    refine ⟨z, u, ?_, ?_, hgz, hgu, hvz.trans hveq⟩
    · show ((p + off) :: l2rAxes rest (off + L - 1)).foldlM unf x = _
      rw [List.foldlM_cons, hy]
      exact hz
    · rw [List.map_cons, List.reverse_cons]
      exact foldlM_snoc_ok unf _ _ _ _ _ hw hu

end Order

end FuseP
end SymmModel
