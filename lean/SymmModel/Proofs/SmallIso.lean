/-
  SymmModel.Proofs.SmallIso — the complement of the isometry statements of Proofs/DecompIso.lean:
  `dagger(Q) · Q` (left-factor-like `Q`) and `V · dagger(V)` (right-factor-like `V`) VANISH at every
  address of the table box of the product's indices that is not on the bond sector of an item, and every
  diagonal key of that box IS the bond sector of an item (with the item's full range of offsets).  Together
  with `gram_left_fermi_items` / `gram_right_fermi_items` this determines the product at every address of
  its table box.  Proof: `GramPair.gradedContract_miss` and `graded_matmul_and_tensordot`.
  Namespace `SymmModel.DecompP`.  Nothing here changes a model definition.
-/
import SymmModel.Proofs.DecompIso

namespace SymmModel
namespace DecompP
set_option linter.unusedSectionVars false
open LinalgLemmas ReconP Recon2P TdotP GradedP RoutesP OddposP
open Lazy (sgnI)

variable {R : Type}

section left
variable [AddCommMonoid R] [Mul R] [Neg R] [SignRing R] [Conj R]
variable {x Q : Arr R} {α : Type} {l : List α} {sec : α → Sector} {fA : α → Blk R}
  {dims : α → Nat × Nat}

/-- every in-box address `(s, [t, t'])` of the table box of `dagger(Q) · Q` (indices
    `[J.conj, J]`, `J` the bond index of `Q`) either lies on the bond sector of an item `p`, within its
    range `t, t' < k_p`, or the product is ZERO there — through `@` and `tensordot` in every mode -/
theorem gram_left_fermi_items_box (hz1 : ∀ v : R, 0 * v = 0) (hz2 : ∀ v : R, v * 0 = 0)
    (hv : x.validB = true) (h2 : x.ndim = 2)
    (hlab : SortedLabels x.oddpos) (P : LeftLike x Q l sec fA dims) :
    ∀ y, (Q.daggerF.matmulF Q = .ok y ∨ ∃ tm, Q.daggerF.tensordotF Q (.pair [1] [0]) tm = .ok y) →
      ∀ s t t', inBox (Arr.blockShapeD [(Q.indices.getD 1 default).conj, Q.indices.getD 1 default] s)
          [t, t'] = true →
        (∃ p ∈ l, s = diagOf (sec p) ∧ t < (dims p).2 ∧ t' < (dims p).2)
        ∨ ((∀ p ∈ l, diagOf (sec p) ≠ s) ∧ y.elem s [t, t'] = 0) := by
  obtain ⟨i0, i1, hi⟩ := ndim_two h2
  have hi0 : x.indices.getD 0 default = i0 := by rw [hi]; rfl
  obtain ⟨J, hQi'⟩ := P.idx
  have hQv := P.v
  have hQf := P.f
  have hQi : Q.indices = [i0, J] := by rw [hQi', hi0]
  have hQn : Q.ndim = 2 := by simp [Arr.ndim, hQi]
  obtain ⟨d1, d2, d3, d4, d5⟩ := daggerF_fields Q
  have hAv : Q.daggerF.validB = true :=
    (ValidP.validB_iff _).mpr (ValidP.daggerF_valid _ false ((ValidP.validB_iff _).mp hQv) hQf)
  have hAi : Q.daggerF.indices = [J.conj, i0.conj] := by rw [d3, hQi]; rfl
  have hAn : Q.daggerF.ndim = 2 := by simp [Arr.ndim, hAi]
  have hAdm : Adm Q.daggerF Q [1] [0] := by
    refine ⟨hAv, hQv, d2.trans hQf, hQf, d1, ?_, by decide, by decide, ?_, ?_⟩
    · unfold ValidP.contractibleB
      rw [hAi, hQi]
      simp
    · intro a ha; simp at ha; subst ha; rw [hAn]; decide
    · intro a ha; simp at ha; subst ha; rw [hQn]; decide
  have hrc := items_rc hv h2 P.hin
  have hQs : Q.sectors = l.map sec := by
    simp [Arr.sectors, P.bl, List.map_map, Function.comp_def]
  have G : GramPair Q.daggerF Q l (fun p => colOf (sec p))
      (fun p => rowOf (sec p)) (fun p => colOf (sec p)) := by
    refine ⟨hAn, hQn, ?_, ?_, items_rows hv h2 P.hin P.hsec, items_diag hv h2 P.hin P.hsec⟩
    · rw [Lazy.daggerF_sectors, hQs, List.map_map]
      apply List.map_congr_left
      intro p hp
      simp only [Function.comp]
      rw [hrc p hp]; rfl
    · rw [hQs]
      apply List.map_congr_left
      intro p hp
      exact hrc p hp
  have hpar : Q.daggerF.parity = x.sym.parity (x.sym.sign x.charge true) := by
    show Q.daggerF.sym.parity Q.daggerF.charge = _
    rw [d1, d4, P.sym, P.ch]
  have hm : mergeOddpos Q.daggerF.parity Q.daggerF.oddpos Q.oddpos
      = .ok ([], (if x.sym.parity (x.sym.sign x.charge true) && x.oddpos.length % 2 == 1
          then -1 else 1) * NormNet.nestSign x.oddpos) := by
    rw [hpar, d5, P.od]
    exact merge_nested _ x.oddpos hlab
  have hidx : without Q.daggerF.indices [1] ++ without Q.indices [0] = [J.conj, J] := by
    rw [hAi, hQi]; rfl
  have hJ : Q.indices.getD 1 default = J := by rw [hQi]; rfl
  obtain ⟨⟨y0, hy0, _, _, hye⟩, hT⟩ := graded_matmul_and_tensordot hz1 hz2 _ _ hAdm hAn hQn _ _ hm
  rw [hidx] at hye hT
  intro y hy s t t' hbox
  rw [hJ] at hbox
  by_cases hex : ∃ p ∈ l, diagOf (sec p) = s
  · left
    obtain ⟨p, hp, rfl⟩ := hex
    refine ⟨p, hp, rfl, ?_⟩
    have hs := hrc p hp
    generalize hr : rowOf (sec p) = r at hs
    generalize hc : colOf (sec p) = c at hs
    have l1 := P.hsh p hp
    have hdg : diagOf (sec p) = [c, c] := by simp [diagOf, hc]
    have hQm : (sec p, fA p) ∈ Q.blocks := by rw [P.bl]; exact List.mem_map.mpr ⟨p, hp, rfl⟩
    have hQsh := (((validB_iff _).mp hQv).2.2.2.1 (sec p) (fA p) hQm).2.2.1
    rw [hQi, hs, l1] at hQsh
    obtain ⟨m0, k0, e1, e2, e3⟩ := (blockShape?_pair _ _ r c _).mp hQsh
    have hk0 : k0 = (dims p).2 := (List.cons.inj (List.cons.inj e3).2).1.symm
    subst hk0
    rw [hdg] at hbox
    unfold Arr.blockShapeD at hbox
    rw [(blockShape?_pair _ _ c c [(dims p).2, (dims p).2]).mpr
      ⟨(dims p).2, (dims p).2, by rw [conj_cm]; exact e2, e2, rfl⟩] at hbox
    exact (inBox_pair _ _ t t').mp hbox
  · right
    have hmiss : ∀ p ∈ l, [colOf (sec p), colOf (sec p)] ≠ s := fun p hp e => hex ⟨p, hp, e⟩
    refine ⟨hmiss, ?_⟩
    have hg := G.gradedContract_miss s hmiss [t] [t']
    rcases hy with hy | ⟨tm, hy⟩
    · have e : y0 = y := Except.ok.inj (hy0.symm.trans hy)
      subst e
      rw [hye s t t' hbox, hg]
      exact Lazy.sgnI_zero _
    · obtain ⟨c, hc, _, _, hce⟩ := hT tm
      have e : c = y := Except.ok.inj (hc.symm.trans hy)
      subst e
      rw [hce s t t' hbox, hg]
      exact Lazy.sgnI_zero _

/-- **`dagger(Q) · Q` everywhere on its table box**: when the columns of every item block are orthonormal
    (`hG`), the product — through `@` or `tensordot` in any mode — has no label and at every in-box address
    is `isoSignL x (sec p) · δ` on the bond sector of an item `p` and ZERO on every other sector -/
theorem leftLike_everywhere (hz1 : ∀ v : R, 0 * v = 0) (hz2 : ∀ v : R, v * 0 = 0)
    (hc0 : Conj.conj (0 : R) = 0) [One R] (hv : x.validB = true) (h2 : x.ndim = 2)
    (hlab : SortedLabels x.oddpos) (P : LeftLike x Q l sec fA dims)
    (hG : ∀ p ∈ l, ∀ t t', t < (dims p).2 → t' < (dims p).2 →
      (List.range (dims p).1).foldl
        (fun acc i => acc + Conj.conj ((fA p).get [i, t]) * (fA p).get [i, t']) 0
        = (if t = t' then 1 else 0)) :
    ∀ y, (Q.daggerF.matmulF Q = .ok y ∨ ∃ tm, Q.daggerF.tensordotF Q (.pair [1] [0]) tm = .ok y) →
      y.oddpos = [] ∧
      ∀ s t t', inBox (Arr.blockShapeD [(Q.indices.getD 1 default).conj, Q.indices.getD 1 default] s)
          [t, t'] = true →
        (∃ p ∈ l, s = diagOf (sec p)
          ∧ y.elem s [t, t'] = sgnI (isoSignL x (sec p)) (if t = t' then 1 else 0))
        ∨ ((∀ p ∈ l, diagOf (sec p) ≠ s) ∧ y.elem s [t, t'] = 0) := by
  obtain ⟨⟨y0, hy0, hyo, hye⟩, hT⟩ := gram_left_fermi_items hz1 hz2 hc0 hv h2 hlab P
  have hbox := gram_left_fermi_items_box hz1 hz2 hv h2 hlab P
  intro y hy
  have hfacts : y.oddpos = [] ∧ ∀ p ∈ l, ∀ t t', t < (dims p).2 → t' < (dims p).2 →
      y.elem (diagOf (sec p)) [t, t'] = sgnI (isoSignL x (sec p)) (if t = t' then 1 else 0) := by
    rcases hy with hy | ⟨tm, hy⟩
    · have e : y0 = y := Except.ok.inj (hy0.symm.trans hy)
      subst e
      exact ⟨hyo, fun p hp t t' ht ht' => by rw [hye p hp t t' ht ht', hG p hp t t' ht ht']⟩
    · obtain ⟨c, hc, hco, hce⟩ := hT tm
      have e : c = y := Except.ok.inj (hc.symm.trans hy)
      subst e
      exact ⟨hco, fun p hp t t' ht ht' => by rw [hce p hp t t' ht ht', hG p hp t t' ht ht']⟩
  refine ⟨hfacts.1, ?_⟩
  intro s t t' hb
  rcases hbox y hy s t t' hb with ⟨p, hp, rfl, ht, ht'⟩ | h
  · exact Or.inl ⟨p, hp, rfl, hfacts.2 p hp t t' ht ht'⟩
  · exact Or.inr h

end left

section right
variable [AddCommMonoid R] [Mul R] [Neg R] [SignRing R] [Conj R]
variable {x V : Arr R} {α : Type} {l : List α} {sec : α → Sector} {fB : α → Blk R}
  {dims : α → Nat × Nat}

/-- the same for `V · dagger(V)` (indices `[J, J.conj]`, `J` the bond index of `V`) -/
theorem gram_right_fermi_items_box (hz1 : ∀ v : R, 0 * v = 0) (hz2 : ∀ v : R, v * 0 = 0)
    (hv : x.validB = true) (h2 : x.ndim = 2) (P : RightLike x V l sec fB dims) :
    ∀ y, (V.matmulF V.daggerF = .ok y ∨ ∃ tm, V.tensordotF V.daggerF (.pair [1] [0]) tm = .ok y) →
      ∀ s t t', inBox (Arr.blockShapeD [V.indices.getD 0 default, (V.indices.getD 0 default).conj] s)
          [t, t'] = true →
        (∃ p ∈ l, s = diagOf (sec p) ∧ t < (dims p).1 ∧ t' < (dims p).1)
        ∨ ((∀ p ∈ l, diagOf (sec p) ≠ s) ∧ y.elem s [t, t'] = 0) := by
  obtain ⟨i0, i1, hi⟩ := ndim_two h2
  have hi1 : x.indices.getD 1 default = i1 := by rw [hi]; rfl
  obtain ⟨J, hVi'⟩ := P.idx
  have hVv := P.v
  have hVf := P.f
  have hVi : V.indices = [J, i1] := by rw [hVi', hi1]
  have hVn : V.ndim = 2 := by simp [Arr.ndim, hVi]
  obtain ⟨d1, d2, d3, d4, d5⟩ := daggerF_fields V
  have hBv : V.daggerF.validB = true :=
    (ValidP.validB_iff _).mpr (ValidP.daggerF_valid _ false ((ValidP.validB_iff _).mp hVv) hVf)
  have hBi : V.daggerF.indices = [i1.conj, J.conj] := by rw [d3, hVi]; rfl
  have hBn : V.daggerF.ndim = 2 := by simp [Arr.ndim, hBi]
  have hAdm : Adm V V.daggerF [1] [0] := by
    refine ⟨hVv, hBv, hVf, d2.trans hVf, d1.symm, ?_, by decide, by decide, ?_, ?_⟩
    · unfold ValidP.contractibleB
      rw [hVi, hBi]
      simp
    · intro a ha; simp at ha; subst ha; rw [hVn]; decide
    · intro a ha; simp at ha; subst ha; rw [hBn]; decide
  have hVs : V.sectors = l.map (fun p => [colOf (sec p), colOf (sec p)]) := by
    simp [Arr.sectors, P.bl, List.map_map, Function.comp_def, diagOf]
  have G : GramPair V V.daggerF l (fun p => colOf (sec p))
      (fun p => colOf (sec p)) (fun p => colOf (sec p)) := by
    refine ⟨hVn, hBn, hVs, ?_, items_cols hv h2 P.hin P.hsec, items_diag hv h2 P.hin P.hsec⟩
    rw [Lazy.daggerF_sectors, hVs, List.map_map]
    rfl
  have hm : mergeOddpos V.parity V.oddpos V.daggerF.oddpos = .ok ([], 1) := by
    rw [d5, P.od]
    cases V.parity <;> rfl
  have hidx : without V.indices [1] ++ without V.daggerF.indices [0] = [J, J.conj] := by
    rw [hVi, hBi]; rfl
  have hJ : V.indices.getD 0 default = J := by rw [hVi]; rfl
  obtain ⟨⟨y0, hy0, _, _, hye⟩, hT⟩ := graded_matmul_and_tensordot hz1 hz2 _ _ hAdm hVn hBn _ _ hm
  rw [hidx] at hye hT
  intro y hy s t t' hbox
  rw [hJ] at hbox
  by_cases hex : ∃ p ∈ l, diagOf (sec p) = s
  · left
    obtain ⟨p, hp, rfl⟩ := hex
    refine ⟨p, hp, rfl, ?_⟩
    generalize hc : colOf (sec p) = c
    have l3 := P.hsh p hp
    have hdg : diagOf (sec p) = [c, c] := by simp [diagOf, hc]
    have hVm : ([c, c], fB p) ∈ V.blocks := by
      rw [P.bl]; exact List.mem_map.mpr ⟨p, hp, by rw [hdg]⟩
    have hVsh := (((validB_iff _).mp hVv).2.2.2.1 [c, c] (fB p) hVm).2.2.1
    rw [hVi, l3] at hVsh
    obtain ⟨k0, n0, e1, e2, e3⟩ := (blockShape?_pair _ _ c c _).mp hVsh
    have hk0 : k0 = (dims p).1 := (List.cons.inj e3).1.symm
    subst hk0
    rw [hdg] at hbox
    unfold Arr.blockShapeD at hbox
    rw [(blockShape?_pair _ _ c c [(dims p).1, (dims p).1]).mpr
      ⟨(dims p).1, (dims p).1, e1, by rw [conj_cm]; exact e1, rfl⟩] at hbox
    exact (inBox_pair _ _ t t').mp hbox
  · right
    have hmiss : ∀ p ∈ l, [colOf (sec p), colOf (sec p)] ≠ s := fun p hp e => hex ⟨p, hp, e⟩
    refine ⟨hmiss, ?_⟩
    have hg := G.gradedContract_miss s hmiss [t] [t']
    rcases hy with hy | ⟨tm, hy⟩
    · have e : y0 = y := Except.ok.inj (hy0.symm.trans hy)
      subst e
      rw [hye s t t' hbox, hg]
      exact Lazy.sgnI_zero _
    · obtain ⟨c, hc, _, _, hce⟩ := hT tm
      have e : c = y := Except.ok.inj (hc.symm.trans hy)
      subst e
      rw [hce s t t' hbox, hg]
      exact Lazy.sgnI_zero _

/-- **`V · dagger(V)` everywhere on its table box** (rows of every item block orthonormal) -/
theorem rightLike_everywhere (hz1 : ∀ v : R, 0 * v = 0) (hz2 : ∀ v : R, v * 0 = 0)
    (hc0 : Conj.conj (0 : R) = 0) [One R] (hv : x.validB = true) (h2 : x.ndim = 2)
    (P : RightLike x V l sec fB dims)
    (hG : ∀ p ∈ l, ∀ t t', t < (dims p).1 → t' < (dims p).1 →
      (List.range (dims p).2).foldl
        (fun acc j => acc + (fB p).get [t, j] * Conj.conj ((fB p).get [t', j])) 0
        = (if t = t' then 1 else 0)) :
    ∀ y, (V.matmulF V.daggerF = .ok y ∨ ∃ tm, V.tensordotF V.daggerF (.pair [1] [0]) tm = .ok y) →
      y.oddpos = [] ∧
      ∀ s t t', inBox (Arr.blockShapeD [V.indices.getD 0 default, (V.indices.getD 0 default).conj] s)
          [t, t'] = true →
        (∃ p ∈ l, s = diagOf (sec p)
          ∧ y.elem s [t, t'] = sgnI (bondSign x (colOf (sec p))) (if t = t' then 1 else 0))
        ∨ ((∀ p ∈ l, diagOf (sec p) ≠ s) ∧ y.elem s [t, t'] = 0) := by
  obtain ⟨⟨y0, hy0, hyo, hye⟩, hT⟩ := gram_right_fermi_items hz1 hz2 hc0 hv h2 P
  have hbox := gram_right_fermi_items_box hz1 hz2 hv h2 P
  intro y hy
  have hfacts : y.oddpos = [] ∧ ∀ p ∈ l, ∀ t t', t < (dims p).1 → t' < (dims p).1 →
      y.elem (diagOf (sec p)) [t, t'] = sgnI (bondSign x (colOf (sec p))) (if t = t' then 1 else 0) := by
    rcases hy with hy | ⟨tm, hy⟩
    · have e : y0 = y := Except.ok.inj (hy0.symm.trans hy)
      subst e
      exact ⟨hyo, fun p hp t t' ht ht' => by rw [hye p hp t t' ht ht', hG p hp t t' ht ht']⟩
    · obtain ⟨c, hc, hco, hce⟩ := hT tm
      have e : c = y := Except.ok.inj (hc.symm.trans hy)
      subst e
      exact ⟨hco, fun p hp t t' ht ht' => by rw [hce p hp t t' ht ht', hG p hp t t' ht ht']⟩
  refine ⟨hfacts.1, ?_⟩
  intro s t t' hb
  rcases hbox y hy s t t' hb with ⟨p, hp, rfl, ht, ht'⟩ | h
  · exact Or.inl ⟨p, hp, rfl, hfacts.2 p hp t t' ht ht'⟩
  · exact Or.inr h

end right

end DecompP
end SymmModel
