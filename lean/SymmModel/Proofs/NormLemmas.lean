/-
  SymmModel.Proofs.NormLemmas — helper lemmas for the norm clause of property C10
  (`tensordot (conj x) x = Σ |x|²`).  Namespace `SymmModel.Norm`.  Nothing here changes a model
  definition.  Contents:
    * `Index.conj` keeps charge tables; transposition by the identity permutation is
      observationally the identity (`transposeF_id_obsEq`, uses `koszul_id`);
    * the sign preparation of a full contraction (`tdPrep_full`, `tensordotF_full`):
      `tensordotF a b allAxes = resolveCombinedOddpos (prepL a) (prepR b) (tensordotBlockwise …)`;
    * the abelian value of a full "diagonal" contraction (`tensordot_diag`, from
      `C02.tensordot_scalar`);
    * the sector signs (`norm_sector_sign_left/right`) and the label resolution;
    * `norm_left`, `norm_right`: the composed statements.
-/
import SymmModel.Proofs.LazyLemmas
import SymmModel.Props.C02
import SymmModel.Proofs.Oddpos
import Mathlib.Tactic.Ring
namespace SymmModel.Norm
open SymmModel SymmModel.Lazy
set_option linter.unusedSectionVars false

/-! ## `Index.conj` keeps the charge table -/

theorem Index.conj_cm (i : Index) : i.conj.cm = i.cm := by
  cases i with
  | mk c d s => cases s <;> rfl

theorem blockShape?_conj (idx : List Index) (s : Sector) :
    Arr.blockShape? (idx.map Index.conj) s = Arr.blockShape? idx s := by
  unfold Arr.blockShape?
  rw [List.length_map]
  congr 2
  induction idx generalizing s with
  | nil => rfl
  | cons i is ih =>
    cases s with
    | nil => rfl
    | cons c cs =>
      simp only [List.map_cons, List.zipWith_cons_cons, Index.sizeOf?, Index.conj_cm]
      have := ih cs
      simp only [Index.sizeOf?] at this
      rw [this]

theorem shape_conj (idx : List Index) :
    (idx.map Index.conj).map Index.sizeTotal = idx.map Index.sizeTotal := by
  rw [List.map_map]
  apply List.map_congr_left
  intro i _
  simp [Function.comp, Index.sizeTotal, Index.conj_cm]

section
variable {R : Type} [Zero R] [Neg R]

/-! ## transposition by the identity -/

theorem indexOf?_range (n ax : Nat) (h : ax < n) : indexOf? (List.range n) ax = some ax := by
  induction n with
  | zero => omega
  | succ n ih =>
    by_cases he : ax = n
    · subst he
      rw [List.range_succ]
      clear ih h
      -- first occurrence in `range ax ++ [ax]`
      have : ∀ (l : List Nat), ax ∉ l → indexOf? (l ++ [ax]) ax = some l.length := by
        intro l hl
        induction l with
        | nil => simp [indexOf?]
        | cons y ys ih =>
          simp only [List.mem_cons, not_or] at hl
          have hy : (y == ax) = false := by simpa using fun h => hl.1 h.symm
          simp [indexOf?, hy, ih hl.2]
      simpa using this (List.range ax) (by simp)
    · have hlt : ax < n := by omega
      rw [List.range_succ]
      have : ∀ (l m : List Nat) k, indexOf? l ax = some k → indexOf? (l ++ m) ax = some k := by
        intro l m
        induction l with
        | nil => intro k hk; simp [indexOf?] at hk
        | cons y ys ih' =>
          intro k hk
          simp only [List.cons_append, indexOf?] at hk ⊢
          by_cases hy : (y == ax) = true
          · simpa [hy] using hk
          · simp only [hy] at hk ⊢
            cases hq : indexOf? ys ax with
            | none => simp [hq] at hk
            | some q => simp [hq] at hk; simp [ih' q hq, hk]
      exact this _ _ _ (ih hlt)

theorem srcIdx_id (n : Nat) (i : List Nat) (h : i.length = n) : srcIdx n (List.range n) i = i := by
  unfold srcIdx
  apply List.ext_getElem (by simp [h])
  intro k h1 h2
  simp only [List.length_map, List.length_range] at h1
  simp only [List.getElem_map, List.getElem_range, indexOf?_range n k h1]
  rw [List.getD_eq_getElem?_getD, List.getElem?_eq_getElem (by omega)]; rfl

/-- `np.transpose(b, (0,…,n-1))` is the identity on a well-formed rank-`n` block -/
theorem transposeK_id (b : Blk R) {n : Nat} (hn : b.shape.length = n) (hw : b.wf = true) :
    b.transposeK (List.range n) = b := by
  have hs : permuted b.shape (List.range n) = b.shape := by rw [← hn]; exact permuted_range _
  apply Blk.ext_get
  · rw [transposeK_shape, hs]
  · exact ofFn_wf _ _
  · exact hw
  · intro off
    rw [get_eq_boxIdx hw off, transposeK_get, hs]
    cases hb : boxIdx b.shape off with
    | none => rfl
    | some i =>
      simp only
      rw [hn, srcIdx_id n i (by rw [inBox_length (boxIdx_some hb).1, hn])]

theorem isPerm_range (n : Nat) : Arr.isPerm (List.range n) n = true := by
  unfold Arr.isPerm; simp

/-- **`transpose` by the identity permutation is observationally the identity** (`koszul_id`) -/
theorem transposeF_id_obsEq [LawfulNeg R] {a : Arr R} (h : Full a) (hs : ShapeLen a) :
    ObsEq (a.transposeF (List.range a.ndim)) a := by
  have ht : TrOk a (List.range a.ndim) := h.trOk (isPerm_range a.ndim)
  obtain ⟨t1, t2, t3, t4, t5⟩ := transposeF_frame a (List.range a.ndim)
  have hb : (a.transposeF (List.range a.ndim)).blocks = a.blocks := by
    rw [transposeF_blocks ht]
    conv_rhs => rw [← List.map_id a.blocks]
    apply List.map_congr_left
    rintro ⟨s, b⟩ hp
    have hsl : s.length = a.ndim := h.len s (List.mem_map_of_mem (f := (·.1)) hp)
    simp only [id]
    rw [transposeK_id b (hs _ hp) (h.wf _ hp)]
    congr 1
    rw [← hsl]; exact permuted_range s
  refine obsEq_of_blocks_phOf t1 t2 ?_ t4 t5 hb ?_
  · rw [t3]; exact permuted_range a.indices
  · intro s hsm
    have hsm' : s ∈ a.sectors := by unfold Arr.sectors at hsm ⊢; rw [hb] at hsm; exact hsm
    have := transposeF_phOf ht hsm'
    have e : permuted s (List.range a.ndim) = s := by rw [← h.len s hsm']; exact permuted_range s
    rw [e] at this
    rw [this, KoszulP.koszul_id', Int.one_mul]


/-! ## the prepared operands of a full contraction -/

theorem without_range_self (n : Nat) : without (List.range n) (List.range n) = [] := by
  rw [TdotP.without_range]
  unfold TdotP.freeAxes
  rw [List.filter_eq_nil_iff]
  intro x hx
  simp [List.mem_range.mp hx]

theorem freeAxes_range_self (n : Nat) : TdotP.freeAxes n (List.range n) = [] := by
  rw [← TdotP.without_range]; exact without_range_self n

theorem phaseTranspose_size (b : Arr R) (axes : Option (List Nat)) :
    (b.phaseTranspose axes).size = b.size := rfl

/-- for a contraction over all axes (paired in order) the sign preparation of `tensordot` is:
    flip the ket-like legs of the left operand, reverse all legs of the right operand virtually,
    synchronise both (the two transpositions are by the identity) -/
theorem tdPrep_full [LawfulNeg R] {a b : Arr R} (fa : Full a) (sa : ShapeLen a) (fb : Full b)
    (sb : ShapeLen b) (hn : b.ndim = a.ndim) (hsz : a.size ≤ b.size) :
    tdPrep a b (List.range a.ndim) (List.range a.ndim)
      = ((a.phaseFlip ((List.range a.ndim).filter
            (fun ax => !(a.indices.getD ax default).dual))).phaseSync,
         (b.phaseTranspose (some (List.range a.ndim).reverse)).phaseSync) := by
  have A1 := transposeF_id_obsEq fa sa
  have B1 := transposeF_id_obsEq fb sb
  have FA1 := fa.transposeF (isPerm_range a.ndim)
  have FB1 := fb.transposeF (isPerm_range b.ndim)
  rw [hn] at B1 FB1
  unfold tdPrep
  simp only [hn, without_range_self, List.nil_append, List.append_nil, List.length_range,
    Nat.sub_self, List.drop_zero]
  generalize a.transposeF (List.range a.ndim) = a1 at *
  generalize b.transposeF (List.range a.ndim) = b1 at *
  have hb1 : b1.ndim = a.ndim := by rw [B1.ndim, hn]
  have hd : (List.range b1.ndim).drop a.ndim = [] := by rw [hb1]; simp
  rw [hd, List.append_nil]
  have hc : a1.size ≤ (b1.phaseTranspose (some (List.range a.ndim).reverse)).size := by
    rw [phaseTranspose_size, A1.size, B1.size]; exact hsz
  rw [if_pos hc, A1.indices]
  simp only
  rw [canon (phaseFlip_congr A1 FA1.sign fa.sign _) (FA1.phaseFlip _) (fa.phaseFlip _),
    canon (phaseTranspose_congr B1 FB1.sign fb.sign _) (FB1.phaseTranspose _) (fb.phaseTranspose _)]


/-- all `n` axes of both operands, paired in order -/
def allAxes (n : Nat) : AxesArg := .pair ((List.range n).map Int.ofNat) ((List.range n).map Int.ofNat)

theorem parseAxes_all (n : Nat) : parseAxes n n (allAxes n) = .ok (List.range n, List.range n) := by
  unfold allAxes
  have h0 : 0 < n ∨ (List.range n).map Int.ofNat = [] := by
    rcases Nat.eq_zero_or_pos n with h | h
    · right; subst h; rfl
    · left; exact h
  rw [TdotP.parseAxes_pair rfl h0 h0]
  have : ((List.range n).map Int.ofNat).map (TdotP.normAxis n) = List.range n := by
    rw [List.map_map]
    conv_rhs => rw [← List.map_id (List.range n)]
    apply List.map_congr_left
    intro x hx
    have hx' := List.mem_range.mp hx
    simp only [Function.comp, id]
    rw [TdotP.normAxis_of_nonneg (by simp) (by simpa using hx')]
    simp
  rw [this]

/-- the left operand of the abelian contraction -/
def prepL (a : Arr R) : Arr R :=
  (a.phaseFlip ((List.range a.ndim).filter (fun ax => !(a.indices.getD ax default).dual))).phaseSync

/-- the right operand of the abelian contraction -/
def prepR (b : Arr R) : Arr R := (b.phaseTranspose (some (List.range b.ndim).reverse)).phaseSync

theorem prepL_ndim (a : Arr R) : (prepL a).ndim = a.ndim := by
  unfold prepL Arr.ndim
  show (a.phaseFlip _).indices.length = _
  rw [(phaseFlip_frame a _).2.2.1]

theorem prepR_ndim (b : Arr R) : (prepR b).ndim = b.ndim := rfl

/-- **`tensordot` over all axes** = the abelian blockwise contraction of the prepared operands
    followed by the label resolution -/
theorem tensordotF_full [Add R] [Mul R] [LawfulNeg R] {a b : Arr R} (fa : Full a) (sa : ShapeLen a)
    (fb : Full b) (sb : ShapeLen b) (hn : b.ndim = a.ndim) (hsz : a.size ≤ b.size) :
    a.tensordotF b (allAxes a.ndim) .blockwise
      = resolveCombinedOddpos (prepL a) (prepR b)
          (tensordotBlockwise (prepL a) (prepR b) [] (List.range a.ndim) (List.range a.ndim) []) := by
  have ok_bind : ∀ {α β : Type} (v : α) (f : α → Except Err β), (Except.ok v >>= f) = f v :=
    fun _ _ => rfl
  rw [tensordotF_eq, hn, parseAxes_all, ok_bind]
  simp only [tdPrep_full fa sa fb sb hn hsz, List.length_range, Nat.sub_self, List.drop_zero]
  have e1 : (b.phaseTranspose (some (List.range a.ndim).reverse)).phaseSync = prepR b := by
    unfold prepR; rw [hn]
  rw [e1]
  change (tensordotA (prepL a) (prepR b) (allAxes a.ndim) .blockwise >>= _) = _
  rw [TdotP.tensordotA_blockwise', prepL_ndim, prepR_ndim, hn, parseAxes_all]
  simp only [Except.map, freeAxes_range_self]
  rfl

end
/-! ## the abelian value of a full diagonal contraction -/
section diag

theorem mem_allIdx_length {s k : List Nat} (h : k ∈ allIdx s) : k.length = s.length := by
  obtain ⟨i, hi⟩ := List.mem_iff_getElem?.mp h
  have hlt : i < prod s := by
    rw [← allIdx_length]
    by_contra hc
    rw [List.getElem?_eq_none (by omega)] at hi
    cases hi
  rw [unravel_getElem s i hlt] at hi
  cases hi
  exact inBox_length (unravel_inBox s i hlt)

theorem mergeIdx_id (n : Nat) (free : List Nat) (k f : List Nat) (h : k.length = n) :
    TdotP.mergeIdx 0 n (List.range n) free k f = k := by
  have hk := srcIdx_id n k h
  unfold srcIdx at hk
  conv_rhs => rw [← hk]
  unfold TdotP.mergeIdx
  apply List.map_congr_left
  intro ax hax
  rw [indexOf?_range n ax (List.mem_range.mp hax)]

theorem filter_beq_of_nodup {α : Type} [BEq α] [LawfulBEq α] {l : List α} (hn : l.Nodup) {a : α}
    (ha : a ∈ l) : l.filter (fun b => b == a) = [a] := by
  induction l with
  | nil => simp at ha
  | cons x xs ih =>
    rw [List.nodup_cons] at hn
    by_cases hx : x = a
    · subst hx
      have : xs.filter (fun b => b == x) = [] := by
        rw [List.filter_eq_nil_iff]; intro y hy hyx
        exact hn.1 (by rw [← eq_of_beq hyx]; exact hy)
      simp [this]
    · have hx' : (x == a) = false := by simpa using hx
      rcases List.mem_cons.mp ha with h | h
      · exact absurd h.symm hx
      · simp [hx', ih hn.2 h]

variable {R : Type} [AddMonoid R] [Mul R] [Neg R]

theorem alignedPairs_diag {A B : Arr R} {n : Nat} (hS : B.sectors = A.sectors)
    (hnd : A.sectors.Nodup) (hl : ∀ s ∈ A.sectors, s.length = n) :
    TdotP.alignedPairs A B (List.range n) (List.range n) = A.sectors.map (fun s => (s, s)) := by
  unfold TdotP.alignedPairs
  have hm : ∀ l : List Sector, l.map (fun s => (s, s)) = l.flatMap (fun s => [(s, s)]) := by
    intro l; induction l with
    | nil => rfl
    | cons x xs ih => simp [ih]
  rw [hS, hm]
  apply TdotP.flatMap_congr_mem
  intro sa hsa
  have e : A.sectors.filter (fun sb => permuted sb (List.range n) == permuted sa (List.range n))
      = A.sectors.filter (fun sb => sb == sa) := by
    apply List.filter_congr
    intro sb hsb
    have h1 : permuted sb (List.range n) = sb := by rw [← hl sb hsb]; exact permuted_range sb
    have h2 : permuted sa (List.range n) = sa := by rw [← hl sa hsa]; exact permuted_range sa
    rw [h1, h2]
  rw [e, filter_beq_of_nodup hnd hsa]; rfl

/-- **full diagonal contraction**: two abelian (sign-free) operands with the same distinct stored
    sectors, contracted over all `n` axes in order: the scalar is the sum over the stored sectors
    and over the box of each sector of the products of corresponding elements -/
theorem tensordot_diag {A B : Arr R} {n : Nat} (hpa : A.phases = []) (hpb : B.phases = [])
    (hna : A.ndim = n) (hnb : B.ndim = n) (hS : B.sectors = A.sectors) (hnd : A.sectors.Nodup)
    (hl : ∀ s ∈ A.sectors, s.length = n) (hsa : A.shapesOk) (hsb : B.shapesOk) :
    (tensordotBlockwise A B [] (List.range n) (List.range n) []).elem [] []
      = (A.sectors.map (fun s =>
          ((allIdx (Arr.blockShapeD A.indices s)).map (fun k => A.elem s k * B.elem s k)).sum)).sum := by
  have hda : allDistinct A.sectors = true := TdotP.allDistinct_iff_nodup.mpr hnd
  have hdb : allDistinct B.sectors = true := by rw [hS]; exact hda
  have := (C02.tensordot_scalar A B (List.range n) (List.range n) hpa hpb hda hdb hsa hsb
    (by rw [hna]; exact freeAxes_range_self n) (by rw [hnb]; exact freeAxes_range_self n)).2
  rw [this, alignedPairs_diag hS hnd hl, List.map_map]
  congr 1
  apply List.map_congr_left
  intro s hs
  simp only [Function.comp, TdotP.contractPair]
  have hshp : (Arr.blockShapeD A.indices s).length = n := by
    obtain ⟨p, hp, rfl⟩ := List.mem_map.mp hs
    unfold Arr.blockShapeD
    rw [hsa p hp]
    simp only [Option.getD_some]
    rw [blockShape?_length (hsa p hp)]; exact hna
  have e : permuted (Arr.blockShapeD A.indices s) (List.range n) = Arr.blockShapeD A.indices s := by
    rw [← hshp]; exact permuted_range _
  rw [e]
  congr 1
  apply List.map_congr_left
  intro k hk
  have hkl : k.length = n := by rw [mem_allIdx_length hk, hshp]
  unfold TdotP.contractTerm
  rw [hna, hnb, mergeIdx_id n _ k [] hkl]

end diag
/-! ## scalar laws for the norm -/

/-- the laws of `+`, `*`, `-`, `conj` the norm identity uses (no commutativity, no
    distributivity of `*` over `+`) -/
class NormLaws (R : Type) [AddMonoid R] [Mul R] [Neg R] [Conj R] : Prop extends LawfulNegConj R where
  neg_mul : ∀ x y : R, (-x) * y = -(x * y)
  mul_neg : ∀ x y : R, x * (-y) = -(x * y)
  neg_add : ∀ x y : R, -(x + y) = -x + -y

scoped instance : Conj Int := Lazy.instConjInt

instance : NormLaws Int where
  neg_mul := Int.neg_mul
  mul_neg := Int.mul_neg
  neg_add := fun _ _ => Int.neg_add

section laws
variable {R : Type} [AddMonoid R] [Mul R] [Neg R] [Conj R] [NormLaws R]

theorem sgnI_mul_sgnI {σ τ : Int} (hσ : σ = 1 ∨ σ = -1) (hτ : τ = 1 ∨ τ = -1) (x y : R) :
    sgnI σ x * sgnI τ y = sgnI (σ * τ) (x * y) := by
  rcases hσ with rfl | rfl <;> rcases hτ with rfl | rfl <;>
    simp [NormLaws.neg_mul, NormLaws.mul_neg, LawfulNeg.neg_neg]

theorem sum_sgnI {α : Type} (σ : Int) (f : α → R) (l : List α) :
    (l.map (fun x => sgnI σ (f x))).sum = sgnI σ ((l.map f).sum) := by
  induction l with
  | nil => simp [sgnI_zero]
  | cons x xs ih =>
    simp only [List.map_cons, List.sum_cons, ih]
    unfold sgnI; split
    · exact (NormLaws.neg_add _ _).symm
    · rfl

end laws

/-- the laws hold for the driver's scalar type (additive structure: `C02.addCommMonoidGRat`) -/
theorem normLaws_GRat :
    @NormLaws GRat C02.addCommMonoidGRat.toAddMonoid GRat.instMul GRat.instNeg GRat.instConj :=
  @NormLaws.mk GRat C02.addCommMonoidGRat.toAddMonoid _ _ _
    (inferInstanceAs (LawfulNegConj GRat))
    (fun x y => LawfulMulNeg.neg_mul x y)
    (fun x y => by
      apply GRat.ext'
      · show x.re * (-y.re) - x.im * (-y.im) = -(x.re * y.re - x.im * y.im); ring
      · show x.re * (-y.im) + x.im * (-y.re) = -(x.re * y.im + x.im * y.re); ring)
    (fun x y => by
      apply GRat.ext'
      · show -(x.re + y.re) = -x.re + -y.re; ring
      · show -(x.im + y.im) = -x.im + -y.im; ring)

/-! ## which legs are flipped -/
section flips

theorem zipIdx_eq_map_range {α : Type} [Inhabited α] (l : List α) :
    l.zipIdx = (List.range l.length).map (fun i => (l.getD i default, i)) := by
  apply List.ext_getElem (by simp)
  intro i h1 h2
  simp only [List.length_zipIdx] at h1
  simp [List.getD_eq_getElem?_getD, List.getElem?_eq_getElem h1]

variable {R : Type}

/-- the flip sign of the legs selected by a predicate on the index, as a count over `zipIdx` -/
theorem flipOdd_filter (sym : Sym) (idx : List Index) (P : Index → Bool) (s : Sector) :
    flipOdd sym ((List.range idx.length).filter (fun ax => P (idx.getD ax default))) s
      = ((idx.zipIdx.filter (fun p => P p.1 && (s.map sym.parity).getD p.2 false)).length % 2 == 1) := by
  have hq : (fun ax => sym.parity (s.getD ax (0, 0))) = (fun ax => (s.map sym.parity).getD ax false) := by
    funext ax
    simp only [List.getD_eq_getElem?_getD, List.getElem?_map]
    cases s[ax]? with
    | none => simp [parity_zero_charge]
    | some c => simp
  unfold flipOdd
  rw [hq, List.filter_filter, zipIdx_eq_map_range idx, List.filter_map, List.length_map]
  congr 3
  apply List.filter_congr
  intro x _
  simp [Function.comp, Bool.and_comm]

variable [Zero R] [Neg R] [Conj R]

/-- the ket-like legs of `conj x` are the bra-like legs of `x` -/
theorem flipOdd_conj_left (x : Arr R) (pd : Bool) (s : Sector) :
    flipOdd (x.conjF true pd).sym
      ((List.range (x.conjF true pd).ndim).filter
        (fun ax => !((x.conjF true pd).indices.getD ax default).dual)) s
      = dualOdd x s := by
  obtain ⟨h1, _, h3, _, _, _⟩ := conjF_frame x true pd
  unfold Arr.ndim
  rw [flipOdd_filter _ _ (fun i => !i.dual), h1, h3]
  unfold dualOdd axsConj Arr.parities
  rw [count_sel (x.indices.map Index.conj) (fun i => !i.dual)]

theorem flipOdd_right (x : Arr R) (pp pd : Bool) (s : Sector) :
    flipOdd x.sym ((List.range x.ndim).filter (fun ax => !(x.indices.getD ax default).dual)) s
      = dualOdd (x.conjF pp pd) s := by
  unfold Arr.ndim
  rw [flipOdd_filter _ _ (fun i => !i.dual), dualOdd_conj]; rfl

/-- with only ket-like legs nothing is flipped by `phase_dual` -/
theorem dualOdd_allKet {x : Arr R} (hk : ∀ ix ∈ x.indices, ix.dual = false) (s : Sector) :
    dualOdd x s = false := by
  rw [dualOdd_eq]
  have : x.indices.zipIdx.filter (fun p => p.1.dual && (x.parities s).getD p.2 false) = [] := by
    rw [List.filter_eq_nil_iff]
    intro p hp
    rw [zipIdx_eq_map_range] at hp
    obtain ⟨i, hi, rfl⟩ := List.mem_map.mp hp
    have hi' := List.mem_range.mp hi
    have : x.indices.getD i default ∈ x.indices := by
      rw [List.getD_eq_getElem?_getD, List.getElem?_eq_getElem hi']
      exact List.getElem_mem hi'
    have hd := hk _ this
    simp only [hd, Bool.false_and]
    exact Bool.false_ne_true
  rw [this]; rfl

end flips
/-! ## the sign of a sector pair `(s, s)` -/
section signs
variable {R : Type} [Zero R] [Neg R] [Conj R]

/-- the legs `tensordot` flips on its left operand (ket-like contracted legs) -/
def flipAxes (a : Arr R) : List Nat :=
  (List.range a.ndim).filter (fun ax => !(a.indices.getD ax default).dual)

theorem koszul_rev_eq_none {x : Arr R} {s : Sector} (hl : s.length = x.ndim) :
    koszul (x.parities s) (some (List.range x.ndim).reverse) = koszul (x.parities s) none := by
  rw [koszul_none_eq_reverse (x.parities s)]
  unfold Arr.parities; rw [List.length_map, hl]

/-- **sector sign, order `(conj x, x)`**: the flip of the ket-like legs of `conj x`, the signs
    `conj` put on the sector (global, dual-leg, reversal) and the virtual reversal of `x`
    multiply to the global sign alone — when `phase_dual` is used or every leg is ket-like -/
theorem norm_sector_sign_left {x : Arr R} (pd : Bool)
    (hd : pd = true ∨ ∀ ix ∈ x.indices, ix.dual = false) {s : Sector} (hl : s.length = x.ndim) :
    flipSign (x.conjF true pd).sym (flipAxes (x.conjF true pd)) s
      * (conjTotSign x true pd s * koszul (x.parities s) (some (List.range x.ndim).reverse))
      = if conjGlob x true then -1 else 1 := by
  unfold flipSign flipAxes
  rw [flipOdd_conj_left, koszul_rev_eq_none hl]
  unfold conjTotSign conjSign
  simp only [if_true]
  rcases hd with rfl | hk
  · rcases koszul_pm (x.parities s) none with hk1 | hk1 <;> rw [hk1] <;>
      cases dualOdd x s <;> cases conjGlob x true <;> simp
  · rw [dualOdd_allKet hk]
    rcases koszul_pm (x.parities s) none with hk1 | hk1 <;> rw [hk1] <;>
      cases pd <;> cases conjGlob x true <;> simp

/-- **sector sign, order `(x, conj x)`**: here the flips and the dual-leg signs together touch
    every odd charge once, which gives the parity sign of the array -/
theorem norm_sector_sign_right {x : Arr R} (pd : Bool)
    (hd : pd = true ∨ ∀ ix ∈ x.indices, ix.dual = false) {s : Sector} (hl : s.length = x.ndim)
    (hv : x.isValidSector s = true) :
    flipSign x.sym (flipAxes x) s
      * (koszul ((x.conjF true pd).parities s) (some (List.range (x.conjF true pd).ndim).reverse)
          * conjTotSign x true pd s)
      = (if x.parity then -1 else 1) * (if conjGlob x true then -1 else 1) := by
  have hpar : (x.conjF true pd).parities s = x.parities s := by
    unfold Arr.parities; rw [(conjF_frame x true pd).1]
  unfold flipSign flipAxes
  rw [flipOdd_right x true pd, conjF_ndim, hpar, koszul_rev_eq_none hl, ← dualOdd_xor true pd hl hv]
  unfold conjTotSign conjSign
  simp only [if_true]
  rcases hd with rfl | hk
  · rcases koszul_pm (x.parities s) none with hk1 | hk1 <;> rw [hk1] <;>
      cases dualOdd (x.conjF true true) s <;> cases dualOdd x s <;> cases conjGlob x true <;> simp
  · rw [dualOdd_allKet hk]
    rcases koszul_pm (x.parities s) none with hk1 | hk1 <;> rw [hk1] <;>
      cases pd <;> cases dualOdd (x.conjF true _) s <;> cases conjGlob x true <;> simp

omit [Conj R] in
theorem prepL_elem [LawfulNeg R] (a : Arr R) (h : SignOk a) (s : Sector) (k : List Nat) :
    (prepL a).elem s k = sgnI (flipSign a.sym (flipAxes a) s) (a.elem s k) := by
  unfold prepL
  rw [phaseSync_elem, phaseFlip_elem a _ h]; rfl

omit [Conj R] in
theorem prepR_elem [LawfulNeg R] (b : Arr R) (h : SignOk b) (s : Sector) (k : List Nat) :
    (prepR b).elem s k
      = sgnI (koszul (b.parities s) (some (List.range b.ndim).reverse)) (b.elem s k) := by
  unfold prepR
  rw [phaseSync_elem, phaseTranspose_elem b _ h]

end signs
/-! ## the abelian part of the norm -/
section abelian
variable {R : Type}

theorem shapesOk_of_skel {x y : Arr R} (hsk : skel y = skel x)
    (hidx : ∀ s, Arr.blockShape? y.indices s = Arr.blockShape? x.indices s) (h : x.shapesOk) :
    y.shapesOk := by
  intro p hp
  have hm : (p.1, p.2.shape) ∈ skel y := List.mem_map_of_mem (f := fun p => (p.1, p.2.shape)) hp
  rw [hsk] at hm
  obtain ⟨q, hq, he⟩ := List.mem_map.mp hm
  simp only [Prod.mk.injEq] at he
  rw [hidx, ← he.1, ← he.2]
  exact h q hq

variable [AddMonoid R] [Mul R] [Neg R] [Conj R]

/-- `Σ_s Σ_o conj(v) · v`, `v = x.elem s o` — the squared norm of the value view -/
def normSq (x : Arr R) : R :=
  (x.sectors.map (fun s =>
    ((allIdx (Arr.blockShapeD x.indices s)).map
      (fun o => Conj.conj (x.elem s o) * x.elem s o)).sum)).sum

/-- the same with the factors in the other order (equal to `normSq` when `*` commutes) -/
def normSq' (x : Arr R) : R :=
  (x.sectors.map (fun s =>
    ((allIdx (Arr.blockShapeD x.indices s)).map
      (fun o => x.elem s o * Conj.conj (x.elem s o))).sum)).sum

theorem normSq'_eq (hc : ∀ a b : R, a * b = b * a) (x : Arr R) : normSq' x = normSq x := by
  unfold normSq normSq'; simp only [hc]

theorem skel_prepL (a : Arr R) [LawfulNeg R] : skel (prepL a) = skel a := by
  unfold prepL
  rw [(phaseSync_obsEq _).skel]
  unfold skel; rw [phaseFlip_blocks]

theorem skel_prepR (b : Arr R) [LawfulNeg R] : skel (prepR b) = skel b := by
  unfold prepR
  rw [(phaseSync_obsEq _).skel]; rfl

theorem sectors_of_skel {x y : Arr R} (h : skel y = skel x) : y.sectors = x.sectors := by
  rw [← skel_sectors, h, skel_sectors]

theorem blockShapeD_conj (x : Arr R) (pd : Bool) (s : Sector) :
    Arr.blockShapeD (x.conjF true pd).indices s = Arr.blockShapeD x.indices s := by
  unfold Arr.blockShapeD
  rw [(conjF_frame x true pd).2.2.1, blockShape?_conj]

theorem prepL_indices (a : Arr R) : (prepL a).indices = a.indices := by
  unfold prepL
  show (a.phaseFlip _).indices = _
  rw [(phaseFlip_frame a _).2.2.1]

/-- the blockwise contraction of the prepared operands, order `(conj x, x)` -/
theorem norm_abelian_left [NormLaws R] {x : Arr R} (pd : Bool) (hf : Full x) (hsh : x.shapesOk)
    (hd : pd = true ∨ ∀ ix ∈ x.indices, ix.dual = false) :
    (tensordotBlockwise (prepL (x.conjF true pd)) (prepR x) [] (List.range x.ndim)
        (List.range x.ndim) []).elem [] []
      = sgnI (if conjGlob x true then -1 else 1) (normSq x) := by
  have hc : SignOk (x.conjF true pd) := hf.sign.conjF true pd
  have hskL : skel (prepL (x.conjF true pd)) = skel x := by
    rw [skel_prepL, (conjF_frame x true pd).2.2.2.2.2]
  have hsL : (prepL (x.conjF true pd)).sectors = x.sectors := sectors_of_skel hskL
  have hsR : (prepR x).sectors = x.sectors := sectors_of_skel (skel_prepR x)
  have hshL : (prepL (x.conjF true pd)).shapesOk :=
    shapesOk_of_skel hskL (fun s => by
      rw [prepL_indices, (conjF_frame x true pd).2.2.1, blockShape?_conj]) hsh
  have hshR : (prepR x).shapesOk := shapesOk_of_skel (skel_prepR x) (fun _ => rfl) hsh
  rw [tensordot_diag (A := prepL (x.conjF true pd)) (B := prepR x) (n := x.ndim) rfl rfl
    (by rw [prepL_ndim, conjF_ndim]) rfl (by rw [hsR, hsL]) (by rw [hsL]; exact hf.sign.sectors)
    (by rw [hsL]; exact hf.len) hshL hshR, hsL]
  unfold normSq
  rw [← sum_sgnI]
  congr 1
  apply List.map_congr_left
  intro s hs
  rw [prepL_indices, blockShapeD_conj, ← sum_sgnI]
  congr 1
  apply List.map_congr_left
  intro k _
  rw [prepL_elem _ hc, prepR_elem _ hf.sign, conjF_elem x true pd hf.sign,
    ← sgnI_mul (flipSign_pm _ _ _) (conjTotSign_pm _ _ _ _),
    sgnI_mul_sgnI (mul_pm (flipSign_pm _ _ _) (conjTotSign_pm _ _ _ _)) (koszul_pm _ _),
    Int.mul_assoc, norm_sector_sign_left pd hd (hf.len s hs)]


/-- the blockwise contraction of the prepared operands, order `(x, conj x)` -/
theorem norm_abelian_right [NormLaws R] {x : Arr R} (pd : Bool) (hf : Full x) (hv : SecValid x)
    (hsh : x.shapesOk) (hd : pd = true ∨ ∀ ix ∈ x.indices, ix.dual = false) :
    (tensordotBlockwise (prepL x) (prepR (x.conjF true pd)) [] (List.range x.ndim)
        (List.range x.ndim) []).elem [] []
      = sgnI ((if x.parity then -1 else 1) * (if conjGlob x true then -1 else 1)) (normSq' x) := by
  have hc : SignOk (x.conjF true pd) := hf.sign.conjF true pd
  have hskR : skel (prepR (x.conjF true pd)) = skel x := by
    rw [skel_prepR, (conjF_frame x true pd).2.2.2.2.2]
  have hsR : (prepR (x.conjF true pd)).sectors = x.sectors := sectors_of_skel hskR
  have hsL : (prepL x).sectors = x.sectors := sectors_of_skel (skel_prepL x)
  have hshR : (prepR (x.conjF true pd)).shapesOk :=
    shapesOk_of_skel hskR (fun s => by
      show Arr.blockShape? (x.conjF true pd).indices s = _
      rw [(conjF_frame x true pd).2.2.1, blockShape?_conj]) hsh
  have hshL : (prepL x).shapesOk :=
    shapesOk_of_skel (skel_prepL x) (fun s => by rw [prepL_indices]) hsh
  rw [tensordot_diag (A := prepL x) (B := prepR (x.conjF true pd)) (n := x.ndim) rfl rfl
    (prepL_ndim x) (by rw [prepR_ndim, conjF_ndim]) (by rw [hsR, hsL])
    (by rw [hsL]; exact hf.sign.sectors) (by rw [hsL]; exact hf.len) hshL hshR, hsL]
  unfold normSq'
  rw [← sum_sgnI]
  congr 1
  apply List.map_congr_left
  intro s hs
  rw [prepL_indices, ← sum_sgnI]
  congr 1
  apply List.map_congr_left
  intro k _
  have hpm : (if x.parity then (-1 : Int) else 1) * (if conjGlob x true then -1 else 1) = 1
      ∨ (if x.parity then (-1 : Int) else 1) * (if conjGlob x true then -1 else 1) = -1 :=
    mul_pm (by split <;> simp) (by split <;> simp)
  rw [prepL_elem _ hf.sign, prepR_elem _ hc, conjF_elem x true pd hf.sign,
    ← sgnI_mul (koszul_pm _ _) (conjTotSign_pm _ _ _ _),
    sgnI_mul_sgnI (flipSign_pm _ _ _) (mul_pm (koszul_pm _ _) (conjTotSign_pm _ _ _ _)),
    norm_sector_sign_right pd hd (hf.len s hs) (hv s hs)]

end abelian

/-! ## label resolution -/
section labels
variable {R : Type}

theorem resolve_nolabel (L Rr T : Arr R) (hL : L.oddpos = []) (hR : Rr.oddpos = []) :
    resolveCombinedOddpos L Rr T = .ok { T with oddpos := [] } := by
  unfold resolveCombinedOddpos
  simp [hL, hR]; rfl

/-- two operands with one label each forming a conjugate pair, left operand odd: the labels
    annihilate; the result is negated exactly when the pair is bra-then-ket … in the code's words:
    unless the right label is dual -/
theorem resolve_pair (L Rr T : Arr R) (a b : Int × Bool) (hL : L.oddpos = [a]) (hR : Rr.oddpos = [b])
    (h1 : a.1 = b.1) (h2 : a.2 ≠ b.2) (hp : L.parity = true) :
    resolveCombinedOddpos L Rr T
      = .ok { (if b.2 then T else T.phaseGlobal) with oddpos := [] } := by
  rw [OddposP.resolveCombinedOddpos_eq, hL, hR, hp]
  unfold OddposP.mergeOddpos
  have := OddposP.resolveScan_pair 10 a b (-1) h1 h2
  simp only [List.cons_append, List.nil_append, List.length_cons, List.length_nil] at this ⊢
  rw [show (0 + 1 + 1) * (0 + 1 + 1) + 2 * (0 + 1 + 1) + 4 = 10 + 2 from rfl,
    show (if (true && (0 + 1) % 2 == 1) = true then (-1 : Int) else 1) = -1 from rfl, this]
  cases b.2 <;> rfl

end labels
/-! ## composition -/
section compose
variable {R : Type} [Zero R] [Neg R]

/-- everything the norm theorem uses about a valid fermionic array -/
structure NormOk (x : Arr R) : Prop where
  full : Full x
  shapeLen : ShapeLen x
  secValid : SecValid x
  shapes : x.shapesOk
  labels : (x.oddpos.length % 2 == 1) = x.parity

theorem NormOk.of_valid {x : Arr R} (h : x.validB = true) (hf : x.fermi = true) : NormOk x := by
  refine ⟨Full.of_valid h hf, ShapeLen.of_valid h, SecValid.of_valid h,
    TdotP.Arr.shapesOk_of_validB h, ?_⟩
  unfold Arr.validB at h
  simp only [hf, if_true, Bool.and_eq_true, beq_iff_eq] at h
  exact h.2.2

variable [Conj R]

theorem Full.conjF' {x : Arr R} (h : Full x) (pp pd : Bool) : Full (x.conjF pp pd) := by
  refine ⟨h.sign.conjF pp pd, h.len.of_same (conjF_sectors x pp pd) (conjF_ndim x pp pd), ?_⟩
  intro p hp
  rw [conjF_blocks] at hp
  obtain ⟨q, hq, rfl⟩ := List.mem_map.mp hp
  have := h.wf q hq
  simpa [Blk.wf, Blk.conjK, Blk.map] using this

theorem ShapeLen.conjF' {x : Arr R} (h : ShapeLen x) (pp pd : Bool) : ShapeLen (x.conjF pp pd) := by
  intro p hp
  rw [conjF_blocks] at hp
  obtain ⟨q, hq, rfl⟩ := List.mem_map.mp hp
  rw [conjF_ndim]
  exact h q hq

theorem conjF_size (x : Arr R) (pp pd : Bool) : (x.conjF pp pd).size = x.size := by
  unfold Arr.size Arr.shape
  rw [(conjF_frame x pp pd).2.2.1, shape_conj]

theorem conjF_parity (x : Arr R) (pp pd : Bool) : (x.conjF pp pd).parity = x.parity := by
  unfold Arr.parity
  rw [(conjF_frame x pp pd).1, (conjF_frame x pp pd).2.2.2.1, C17.parity_sign]

omit [Conj R] in
theorem prepL_oddpos (a : Arr R) : (prepL a).oddpos = a.oddpos := by
  unfold prepL
  show (a.phaseFlip _).oddpos = _
  rw [(phaseFlip_frame a _).2.2.2.2.1]

omit [Conj R] in
theorem prepL_parity (a : Arr R) : (prepL a).parity = a.parity := by
  unfold prepL Arr.parity
  show (a.phaseFlip _).sym.parity (a.phaseFlip _).charge = _
  rw [(phaseFlip_frame a _).1, (phaseFlip_frame a _).2.2.2.1]

omit [Zero R] [Neg R] [Conj R] in
theorem without_range_length {α : Type} (l : List α) : without l (List.range l.length) = [] := by
  rw [TdotP.without_eq_permuted_freeAxes, freeAxes_range_self]; rfl

end compose

section compose2
variable {R : Type} [AddMonoid R] [Mul R] [Neg R] [Conj R]

/-- the full blockwise contraction of two operands of rank `n` -/
def fullT (A B : Arr R) (n : Nat) : Arr R :=
  tensordotBlockwise A B [] (List.range n) (List.range n) []

theorem fullT_indices {A B : Arr R} {n : Nat} (ha : A.ndim = n) (hb : B.ndim = n) :
    (fullT A B n).indices = [] := by
  show dropUnused (without A.indices (List.range n) ++ without B.indices (List.range n)) _ = []
  have e1 : without A.indices (List.range n) = [] := by
    rw [← ha]; exact without_range_length A.indices
  have e2 : without B.indices (List.range n) = [] := by
    rw [← hb]; exact without_range_length B.indices
  rw [e1, e2]; rfl

theorem fullT_signOk {A B : Arr R} {n : Nat} (hp : A.phases = []) : SignOk (fullT A B n) :=
  ⟨TdotP.allDistinct_iff_nodup.mp (C02.tensordotBlockwise_sectors_distinct A B _ _ _ _),
   by show PhOk A.phases; rw [hp]; exact PhOk.nil⟩

/-- the scalar left by the label resolution, in the three label situations -/
theorem resolve_value [NormLaws R] {L Rr : Arr R} {n : Nat} (hL : L.ndim = n) (hR : Rr.ndim = n)
    (hp : L.phases = []) :
    (L.oddpos = [] → Rr.oddpos = [] →
      ∃ r, resolveCombinedOddpos L Rr (fullT L Rr n) = .ok r ∧ r.ndim = 0 ∧ r.oddpos = []
        ∧ r.elem [] [] = (fullT L Rr n).elem [] [])
    ∧ (∀ a b : Int × Bool, L.oddpos = [a] → Rr.oddpos = [b] → a.1 = b.1 → a.2 ≠ b.2 →
        L.parity = true →
      ∃ r, resolveCombinedOddpos L Rr (fullT L Rr n) = .ok r ∧ r.ndim = 0 ∧ r.oddpos = []
        ∧ r.elem [] [] = if b.2 then (fullT L Rr n).elem [] [] else - (fullT L Rr n).elem [] []) := by
  have hi := fullT_indices hL hR
  constructor
  · intro h1 h2
    refine ⟨_, resolve_nolabel L Rr _ h1 h2, ?_, rfl, rfl⟩
    show (fullT L Rr n).indices.length = 0
    rw [hi]; rfl
  · intro a b h1 h2 h3 h4 h5
    refine ⟨_, resolve_pair L Rr _ a b h1 h2 h3 h4 h5, ?_, rfl, ?_⟩
    · show (if b.2 = true then fullT L Rr n else (fullT L Rr n).phaseGlobal).indices.length = 0
      split
      · rw [hi]; rfl
      · show (fullT L Rr n).indices.length = 0
        rw [hi]; rfl
    · show (if b.2 = true then fullT L Rr n else (fullT L Rr n).phaseGlobal).elem [] [] = _
      split
      · rfl
      · exact phaseGlobal_elem _ (fullT_signOk hp) [] []


theorem conjGlob_nolabel (x : Arr R) (ho : x.oddpos = []) : conjGlob x true = false := by
  unfold conjGlob; rw [ho]; simp [Arr.oddposDag]

theorem conjGlob_onelabel (x : Arr R) (a : Int × Bool) (ho : x.oddpos = [a])
    (hp : x.parity = true) : conjGlob x true = true := by
  unfold conjGlob
  rw [ho, C17.parity_sign]
  have : x.sym.parity x.charge = true := hp
  simp [Arr.oddposDag, this]

theorem parity_of_onelabel {x : Arr R} (h : NormOk x) (a : Int × Bool) (ho : x.oddpos = [a]) :
    x.parity = true := by
  have := h.labels; rw [ho] at this; exact this.symm

theorem parity_of_nolabel {x : Arr R} (h : NormOk x) (ho : x.oddpos = []) : x.parity = false := by
  have := h.labels; rw [ho] at this; exact this.symm

/-- **norm, order `(conj x, x)`** — all three label situations -/
theorem norm_left [NormLaws R] {x : Arr R} (h : NormOk x) (pd : Bool)
    (hd : pd = true ∨ ∀ ix ∈ x.indices, ix.dual = false) :
    (x.oddpos = [] →
      ∃ r, (x.conjF true pd).tensordotF x (allAxes x.ndim) .blockwise = .ok r ∧ r.ndim = 0
        ∧ r.oddpos = [] ∧ r.elem [] [] = normSq x)
    ∧ (∀ l d, x.oddpos = [(l, d)] →
      ∃ r, (x.conjF true pd).tensordotF x (allAxes x.ndim) .blockwise = .ok r ∧ r.ndim = 0
        ∧ r.oddpos = [] ∧ r.elem [] [] = if d then - normSq x else normSq x) := by
  have e := tensordotF_full (a := x.conjF true pd) (b := x) (Full.conjF' h.full true pd)
    (ShapeLen.conjF' h.shapeLen true pd) h.full h.shapeLen (conjF_ndim x true pd).symm
    (by rw [conjF_size])
  rw [conjF_ndim] at e
  change _ = resolveCombinedOddpos _ _ (fullT (prepL (x.conjF true pd)) (prepR x) x.ndim) at e
  have hval : (fullT (prepL (x.conjF true pd)) (prepR x) x.ndim).elem [] []
      = sgnI (if conjGlob x true then -1 else 1) (normSq x) :=
    norm_abelian_left pd h.full h.shapes hd
  obtain ⟨rv1, rv2⟩ := resolve_value (L := prepL (x.conjF true pd)) (Rr := prepR x) (n := x.ndim)
    (by rw [prepL_ndim, conjF_ndim]) rfl rfl
  have hLo : (prepL (x.conjF true pd)).oddpos = Arr.oddposDag x.oddpos := by
    rw [prepL_oddpos, (conjF_frame x true pd).2.2.2.2.1]
  constructor
  · intro ho
    obtain ⟨r, h1, h2, h3, h4⟩ := rv1 (by rw [hLo, ho]; rfl) (show x.oddpos = [] from ho)
    refine ⟨r, e.trans h1, h2, h3, ?_⟩
    rw [h4, hval, conjGlob_nolabel x ho]; simp
  · intro l d ho
    have hp := parity_of_onelabel h _ ho
    obtain ⟨r, h1, h2, h3, h4⟩ := rv2 (l, !d) (l, d) (by rw [hLo, ho]; rfl)
      (show x.oddpos = [(l, d)] from ho) rfl (by cases d <;> simp)
      (by rw [prepL_parity, conjF_parity]; exact hp)
    refine ⟨r, e.trans h1, h2, h3, ?_⟩
    rw [h4, hval, conjGlob_onelabel x _ ho hp]
    cases d <;> simp [LawfulNeg.neg_neg]

/-- **norm, order `(x, conj x)`** — all three label situations -/
theorem norm_right [NormLaws R] {x : Arr R} (h : NormOk x) (pd : Bool)
    (hd : pd = true ∨ ∀ ix ∈ x.indices, ix.dual = false) :
    (x.oddpos = [] →
      ∃ r, x.tensordotF (x.conjF true pd) (allAxes x.ndim) .blockwise = .ok r ∧ r.ndim = 0
        ∧ r.oddpos = [] ∧ r.elem [] [] = normSq' x)
    ∧ (∀ l d, x.oddpos = [(l, d)] →
      ∃ r, x.tensordotF (x.conjF true pd) (allAxes x.ndim) .blockwise = .ok r ∧ r.ndim = 0
        ∧ r.oddpos = [] ∧ r.elem [] [] = if d then - normSq' x else normSq' x) := by
  have e := tensordotF_full (a := x) (b := x.conjF true pd) h.full h.shapeLen
    (Full.conjF' h.full true pd) (ShapeLen.conjF' h.shapeLen true pd) (conjF_ndim x true pd)
    (by rw [conjF_size])
  change _ = resolveCombinedOddpos _ _ (fullT (prepL x) (prepR (x.conjF true pd)) x.ndim) at e
  have hval : (fullT (prepL x) (prepR (x.conjF true pd)) x.ndim).elem [] []
      = sgnI ((if x.parity then -1 else 1) * (if conjGlob x true then -1 else 1)) (normSq' x) :=
    norm_abelian_right pd h.full h.secValid h.shapes hd
  obtain ⟨rv1, rv2⟩ := resolve_value (L := prepL x) (Rr := prepR (x.conjF true pd)) (n := x.ndim)
    (prepL_ndim x) (by rw [prepR_ndim, conjF_ndim]) rfl
  have hRo : (prepR (x.conjF true pd)).oddpos = Arr.oddposDag x.oddpos :=
    (conjF_frame x true pd).2.2.2.2.1
  constructor
  · intro ho
    obtain ⟨r, h1, h2, h3, h4⟩ := rv1 (by rw [prepL_oddpos, ho]) (by rw [hRo, ho]; rfl)
    refine ⟨r, e.trans h1, h2, h3, ?_⟩
    rw [h4, hval, conjGlob_nolabel x ho, parity_of_nolabel h ho]; simp
  · intro l d ho
    have hp := parity_of_onelabel h _ ho
    obtain ⟨r, h1, h2, h3, h4⟩ := rv2 (l, d) (l, !d) (by rw [prepL_oddpos, ho])
      (by rw [hRo, ho]; rfl) rfl (by cases d <;> simp) (by rw [prepL_parity]; exact hp)
    refine ⟨r, e.trans h1, h2, h3, ?_⟩
    rw [h4, hval, conjGlob_onelabel x _ ho hp, hp]
    cases d <;> simp

end compose2
end SymmModel.Norm
