/-
  SymmModel.Proofs.Fuse6Box — the address an unfuse step reads from lies in a box of its input:
  collapsing the segment of an in-box address of the result gives an in-box address of the input.
-/
import SymmModel.Proofs.Fuse6Parts
namespace SymmModel
namespace FuseP
set_option linter.unusedSectionVars false

theorem blockShape?_append_inv {i1 i2 : List Index} {s1 s2 : Sector} {shp : List Nat} (hl : i1.length = s1.length)
    (h : Arr.blockShape? (i1 ++ i2) (s1 ++ s2) = some shp) :
    ∃ p1 p2, shp = p1 ++ p2 ∧ Arr.blockShape? i1 s1 = some p1 ∧ Arr.blockShape? i2 s2 = some p2 := by
  rw [blockShape?_some_iff] at h
  obtain ⟨h1, h2⟩ := h
  rw [List.zipWith_append hl] at h2
  obtain ⟨p1, p2, rfl, e1, e2⟩ := List.append_eq_map_iff.1 h2
  simp only [List.length_append] at h1
  exact ⟨p1, p2, rfl, blockShape?_some_iff.2 ⟨hl, e1.symm⟩, blockShape?_some_iff.2 ⟨by omega, e2.symm⟩⟩

theorem collapse_box {sym : Sym} {ix : Index} {subs : List Index} {exts : Extents}
    (hw : Index.wfB sym ix = true) (hsub : ix.sub = some (subs, exts))
    {IA IX : List Index} {A S X : Sector} {A' S' X' : List Nat} {shp : List Nat} {st : Nat} {sub : List Nat}
    (hA : A.length = IA.length) (hS : S.length = subs.length) (hA' : A'.length = IA.length)
    (hS' : S'.length = subs.length)
    (hK : Arr.blockShape? (IA ++ subs ++ IX) (A ++ S ++ X) = some shp) (hJ : inBox shp (A' ++ S' ++ X') = true)
    (hl : look sym ix subs exts S = some (st, sub)) :
    ∃ shp1, Arr.blockShape? (IA ++ [ix] ++ IX) (A ++ [cmb sym ix subs S] ++ X) = some shp1
      ∧ inBox shp1 (A' ++ [st + ravel sub S'] ++ X') = true := by
  obtain ⟨e, d, he, hst, hbs⟩ := look_some hl
  obtain ⟨D, hD, hext⟩ := wfB_extent hw hsub he
  have hb := startOf_bound hst
  rw [hext.total] at hb
  obtain ⟨_, ⟨shp', hshp', hprod⟩, _⟩ := hext.entry S d (startOf_mem hst)
  rw [hbs] at hshp'; simp only [Option.some.injEq] at hshp'; subst hshp'
  obtain ⟨p12, pX, rfl, h12, hpX⟩ := blockShape?_append_inv (by simp [hA, hS]) hK
  obtain ⟨pA, pS, rfl, hpA, hpS⟩ := blockShape?_append_inv hA.symm h12
  rw [hbs] at hpS; simp only [Option.some.injEq] at hpS; subst hpS
  have hpAl : pA.length = IA.length := by rw [(blockShape?_length hpA).2, hA]
  have hsl : sub.length = subs.length := by rw [(blockShape?_length hbs).2, hS]
  rw [inBox_append (by simp [hA', hS', hpAl, hsl]), inBox_append (by rw [hA', hpAl])] at hJ
  simp only [Bool.and_eq_true] at hJ
  obtain ⟨⟨hJ1, hJ2⟩, hJ3⟩ := hJ
  refine ⟨pA ++ [D] ++ pX, blockShape?_append (blockShape?_append hpA (blockShape?_single hD)) hpX, ?_⟩
  rw [inBox_append (by simp [hA', hpAl]), inBox_append (by rw [hA', hpAl]), hJ1, hJ3]
  have := ravel_lt hJ2
  simp only [inBox, Bool.and_true, Bool.true_and, decide_eq_true_eq]
  omega

end FuseP
end SymmModel
