/-
  SymmModel.Proofs.FuseCommuteI1 — mirror image of `TdotP.group_commute` (FuseCommuteH2): fusing ONE
  group `g` of FREE legs of the RIGHT operand (any position, any order, no preliminary transposition)
  commutes with the contraction (abelian, operands not aligned): the contraction of `a` with
  `fuse(b, [g])` over the renumbered axes `xb.map (shiftAxes b g)`, at the address made of any address
  `(Ls, oL)` of `a`'s free legs followed by the free part read off a full address `(MR', MO')` of the
  fused operand, is the plain contraction at `(Ls, oL)` followed by the free part of the full address
  `(MR, MO)` of `b` that `(MR', MO')` decodes to.  Also: the renumbered call is again `contractibleB`
  (either side).  Namespace `SymmModel.TdotP`.
-/
import SymmModel.Proofs.FuseCommuteH2

namespace SymmModel
namespace TdotP
variable {R : Type}

/-- the index table at a renumbered axis is the original's -/
theorem shiftAxes_index [Zero R] {X : Arr R} {g : List Nat} (h : OneOk X g) {x : Nat}
    (hx : x < X.ndim ∧ x ∉ g) :
    (FuseP.fusedArrM X [g]).indices.getD (shiftAxes X g x) default = X.indices.getD x default := by
  have eFn : (FuseP.fusedArrM X [g]).indices.length = FuseP.ndimM X [g] := one_ndim h
  have e := permuted_shift h (default : Index) eFn rfl (one_free_indices h) [x]
    (by intro y hy; simp only [List.mem_cons, List.not_mem_nil, or_false] at hy; rw [hy]; exact hx)
  have := getD_of_permuted_eq (default : Index) e
    (by intro y hy
        simp only [List.map_cons, List.map_nil, List.mem_cons, List.not_mem_nil, or_false] at hy
        rw [hy, eFn]; exact shiftAxes_lt h hx)
    (by intro y hy; simp only [List.mem_cons, List.not_mem_nil, or_false] at hy; rw [hy]; exact hx.1)
    rfl 0 (by simp)
  simpa using this

/-- renumbering the contracted axes of the LEFT operand keeps the documented precondition -/
theorem contractibleB_shift_left [Zero R] {a b : Arr R} {xa xb g : List Nat} (h : OneOk a g)
    (hxa : ∀ x ∈ xa, x < a.ndim ∧ x ∉ g) (hc : ValidP.contractibleB a b xa xb = true) :
    ValidP.contractibleB (FuseP.fusedArrM a [g]) b (xa.map (shiftAxes a g)) xb = true := by
  unfold ValidP.contractibleB at hc ⊢
  simp only [Bool.and_eq_true, List.all_eq_true, List.length_map] at hc ⊢
  refine ⟨hc.1, ?_⟩
  intro p hp
  rw [List.zip_map_left] at hp
  obtain ⟨q, hq, rfl⟩ := List.mem_map.mp hp
  have hq1 : q.1 ∈ xa := (List.of_mem_zip (a := q.1) (b := q.2) hq).1
  have := hc.2 q hq
  simp only [Prod.map_fst, Prod.map_snd, id_eq]
  rw [shiftAxes_index h (hxa q.1 hq1)]
  exact this

/-- renumbering the contracted axes of the RIGHT operand keeps the documented precondition -/
theorem contractibleB_shift_right [Zero R] {a b : Arr R} {xa xb g : List Nat} (h : OneOk b g)
    (hxb : ∀ x ∈ xb, x < b.ndim ∧ x ∉ g) (hc : ValidP.contractibleB a b xa xb = true) :
    ValidP.contractibleB a (FuseP.fusedArrM b [g]) xa (xb.map (shiftAxes b g)) = true := by
  unfold ValidP.contractibleB at hc ⊢
  simp only [Bool.and_eq_true, List.all_eq_true, List.length_map] at hc ⊢
  refine ⟨hc.1, ?_⟩
  intro p hp
  rw [List.zip_map_right] at hp
  obtain ⟨q, hq, rfl⟩ := List.mem_map.mp hp
  have hq2 : q.2 ∈ xb := (List.of_mem_zip (a := q.1) (b := q.2) hq).2
  have := hc.2 q hq
  simp only [Prod.map_fst, Prod.map_snd, id_eq]
  rw [shiftAxes_index h (hxb q.2 hq2)]
  exact this

/-- **mirror image of `group_commute`**: a group of free legs of the RIGHT operand. -/
theorem group_commute_right [AddCommMonoid R] [Mul R] [Neg R]
    (hz1 : ∀ x : R, 0 * x = 0) (hz2 : ∀ x : R, x * 0 = 0) (a b : Arr R) (xa xb g : List Nat)
    (ha : a.validB = true) (hb : b.validB = true) (hpa : a.phases = []) (hfb : b.fermi = false)
    (h : OneOk b g) (hdisj : ∀ x ∈ xb, x ∉ g)
    (hc : ValidP.contractibleB a b xa xb = true)
    (hnA : xa.Nodup) (hnB : xb.Nodup) (hA : ∀ x ∈ xa, x < a.ndim) (hB : ∀ x ∈ xb, x < b.ndim)
    {MR' MR : Sector} {MO' MO shp' shpB : List Nat}
    (hshp' : Arr.blockShape? (FuseP.fusedArrM b [g]).indices MR' = some shp') (hbox' : inBox shp' MO' = true)
    (hshpB : Arr.blockShape? b.indices MR = some shpB) (hboxB : inBox shpB MO = true)
    (hdec : decAx b [g] 0 (MR'.getD (bondPos b g) (0, 0)) (MO'.getD (bondPos b g) 0)
      = some (permuted MR g, permuted MO g))
    (hfS : permuted MR' (freeAxes (FuseP.fusedArrM b [g]).ndim [bondPos b g]) = permuted MR (freeAxes b.ndim g))
    (hfO : permuted MO' (freeAxes (FuseP.fusedArrM b [g]).ndim [bondPos b g]) = permuted MO (freeAxes b.ndim g))
    {Ls : Sector} {oL shpL : List Nat}
    (hL : Arr.blockShape? (permuted a.indices (freeAxes a.ndim xa)) Ls = some shpL)
    (hbL : inBox shpL oL = true) :
    (tensordotBlockwise a (FuseP.fusedArrM b [g]) (freeAxes a.ndim xa) xa (xb.map (shiftAxes b g))
        (freeAxes (FuseP.fusedArrM b [g]).ndim (xb.map (shiftAxes b g)))).elem
        (Ls ++ permuted MR' (freeAxes (FuseP.fusedArrM b [g]).ndim (xb.map (shiftAxes b g))))
        (oL ++ permuted MO' (freeAxes (FuseP.fusedArrM b [g]).ndim (xb.map (shiftAxes b g))))
      = (tensordotBlockwise a b (freeAxes a.ndim xa) xa xb (freeAxes b.ndim xb)).elem
        (Ls ++ permuted MR (freeAxes b.ndim xb)) (oL ++ permuted MO (freeAxes b.ndim xb)) := by
  have hvb := FuseP.validArr_of_validB hb
  have hpb : b.phases = [] := phases_nil_of_validB hb hfb
  have hok := h.groupsOk
  have hvF := one_validB hb hfb h
  have nF := one_ndim (R := R) h
  have ean : a.indices.length = a.ndim := rfl
  have ebn : b.indices.length = b.ndim := rfl
  have eFn : (FuseP.fusedArrM b [g]).indices.length = FuseP.ndimM b [g] := nF
  have hsa := Arr.shapesOk_of_validB ha
  have hsb := Arr.shapesOk_of_validB hb
  have hsF := Arr.shapesOk_of_validB hvF
  have hpF : (FuseP.fusedArrM b [g]).phases = [] := hpb
  obtain ⟨hlen, hcm⟩ := cm_eq_of_contractibleB hc hA hB
  rw [nF] at hfS hfO
  unfold bondPos at hdec hfS hfO
  have hMRl' : MR'.length = FuseP.ndimM b [g] := (blockShape?_length hshp').1.trans eFn
  have hMOl' : MO'.length = FuseP.ndimM b [g] := by
    rw [inBox_length hbox', (blockShape?_length hshp').2]; exact eFn
  have hMRl : MR.length = b.ndim := (blockShape?_length hshpB).1
  have hMOl : MO.length = b.ndim := by rw [inBox_length hboxB, (blockShape?_length hshpB).2]; exact ebn
  have hshpl' : shp'.length = FuseP.ndimM b [g] := by rw [(blockShape?_length hshp').2]; exact eFn
  have hshpBl : shpB.length = b.ndim := (blockShape?_length hshpB).2
  -- the shifted contracted axes
  have hxbF : ∀ x ∈ xb, x < b.ndim ∧ x ∉ g := fun x hx => ⟨hB x hx, hdisj x hx⟩
  have hnB' : (xb.map (shiftAxes b g)).Nodup :=
    hnB.map_on (fun x hx y hy e => shiftAxes_inj h (hxbF x hx) (hxbF y hy) e)
  have hB' : ∀ x ∈ xb.map (shiftAxes b g), x < (FuseP.fusedArrM b [g]).ndim := by
    intro y hy; obtain ⟨x, hx, rfl⟩ := List.mem_map.mp hy; rw [nF]; exact shiftAxes_lt h (hxbF x hx)
  have hlen' : xa.length = (xb.map (shiftAxes b g)).length := by rw [List.length_map]; exact hlen
  have hKidx : permuted (FuseP.fusedArrM b [g]).indices (xb.map (shiftAxes b g)) = permuted b.indices xb :=
    permuted_shift h default eFn ebn (one_free_indices h) xb hxbF
  -- free parts
  have hFBlt : ∀ x ∈ freeAxes b.ndim xb, x < b.ndim := fun x hx => (mem_freeAxes.mp hx).1
  have hFBlt' : ∀ x ∈ freeAxes (FuseP.fusedArrM b [g]).ndim (xb.map (shiftAxes b g)),
      x < (FuseP.fusedArrM b [g]).ndim := fun x hx => (mem_freeAxes.mp hx).1
  have hRshape : Arr.blockShape? (permuted b.indices (freeAxes b.ndim xb)) (permuted MR (freeAxes b.ndim xb))
      = some (permuted shpB (freeAxes b.ndim xb)) := blockShape?_permuted hshpB _ hFBlt
  have hRfshape : Arr.blockShape? (permuted (FuseP.fusedArrM b [g]).indices
        (freeAxes (FuseP.fusedArrM b [g]).ndim (xb.map (shiftAxes b g))))
      (permuted MR' (freeAxes (FuseP.fusedArrM b [g]).ndim (xb.map (shiftAxes b g))))
      = some (permuted shp' (freeAxes (FuseP.fusedArrM b [g]).ndim (xb.map (shiftAxes b g)))) :=
    blockShape?_permuted hshp' _ hFBlt'
  have hboxR : inBox (permuted shpB (freeAxes b.ndim xb)) (permuted MO (freeAxes b.ndim xb)) = true :=
    inBox_permuted hboxB _ (by intro q hq; rw [hshpBl]; exact hFBlt q hq)
  have hboxRf : inBox (permuted shp' (freeAxes (FuseP.fusedArrM b [g]).ndim (xb.map (shiftAxes b g))))
      (permuted MO' (freeAxes (FuseP.fusedArrM b [g]).ndim (xb.map (shiftAxes b g)))) = true :=
    inBox_permuted hbox' _ (by intro q hq; rw [hshpl', ← nF]; exact hFBlt' q hq)
  have hRl : (permuted MR (freeAxes b.ndim xb)).length = (freeAxes b.ndim xb).length :=
    permuted_length _ _ (by intro x hx; rw [hMRl]; exact hFBlt x hx)
  have hRfl : (permuted MR' (freeAxes (FuseP.fusedArrM b [g]).ndim (xb.map (shiftAxes b g)))).length
      = (freeAxes (FuseP.fusedArrM b [g]).ndim (xb.map (shiftAxes b g))).length :=
    permuted_length _ _ (by intro x hx; rw [hMRl', ← nF]; exact hFBlt' x hx)
  have hLl : Ls.length = (freeAxes a.ndim xa).length := by
    rw [(blockShape?_length hL).1, permuted_length _ _ (by simpa [ean] using mem_freeAxes_lt)]
  have hoLl : oL.length = (freeAxes a.ndim xa).length := by
    rw [inBox_length hbL, (blockShape?_length hL).2, permuted_length _ _ (by simpa [ean] using mem_freeAxes_lt)]
  -- the common list of contracted sub-sectors
  let Ks : List Sector := (a.sectors.map (fun s => permuted s xa)).eraseDups
  have hKn : Ks.Nodup := nodup_eraseDups _
  have hKl : ∀ K ∈ Ks, K.length = xa.length := by
    intro K hK
    obtain ⟨s, hs, rfl⟩ := List.mem_map.mp (List.mem_eraseDups.mp hK)
    exact permuted_length _ _ (by rw [Arr.sector_length hsa hs]; exact hA)
  have hKc : ∀ sa ∈ a.sectors, permuted sa xa ∈ Ks := fun sa hs =>
    List.mem_eraseDups.mpr (List.mem_map.mpr ⟨sa, hs, rfl⟩)
  -- boxes
  have hboxA' : inBox (Arr.blockShapeD (without a.indices xa ++ without b.indices xb)
      (Ls ++ permuted MR (freeAxes b.ndim xb))) (oL ++ permuted MO (freeAxes b.ndim xb)) = true := by
    rw [without_eq_permuted_freeAxes, without_eq_permuted_freeAxes, Arr.blockShapeD, ean, ebn,
      blockShape?_append hL hRshape]
    simp only [Option.getD_some]
    rw [inBox_append (inBox_length hbL), hbL, hboxR]; rfl
  have hboxF : inBox (Arr.blockShapeD (without a.indices xa
      ++ without (FuseP.fusedArrM b [g]).indices (xb.map (shiftAxes b g)))
      (Ls ++ permuted MR' (freeAxes (FuseP.fusedArrM b [g]).ndim (xb.map (shiftAxes b g)))))
      (oL ++ permuted MO' (freeAxes (FuseP.fusedArrM b [g]).ndim (xb.map (shiftAxes b g)))) = true := by
    have eF : (FuseP.fusedArrM b [g]).indices.length = (FuseP.fusedArrM b [g]).ndim := rfl
    rw [without_eq_permuted_freeAxes, without_eq_permuted_freeAxes, Arr.blockShapeD, ean, eF,
      blockShape?_append hL hRfshape]
    simp only [Option.getD_some]
    rw [inBox_append (inBox_length hbL), hbL, hboxRf]; rfl
  rw [tensordotBlockwise_elem_dense' hz1 hz2 a (FuseP.fusedArrM b [g]) xa (xb.map (shiftAxes b g)) hpa hpF
      (Arr.allDistinct_of_validB ha) (Arr.allDistinct_of_validB hvF) hsa hsF hnA hA hnB' hB' hlen' Ks hKn
      hKl hKc Ls _ hLl hRfl _ hboxF,
    tensordotBlockwise_elem_dense' hz1 hz2 a b xa xb hpa hpb (Arr.allDistinct_of_validB ha)
      (Arr.allDistinct_of_validB hb) hsa hsb hnA hA hnB hB hlen Ks hKn hKl hKc Ls _ hLl hRl _ hboxA']
  rw [List.take_left' hoLl, List.drop_left' hoLl, List.take_left' hoLl, List.drop_left' hoLl]
  apply sum_map_congr
  intro K hK
  obtain ⟨sa, hsa', rfl⟩ := List.mem_map.mp (List.mem_eraseDups.mp hK)
  obtain ⟨shpS, hA1, _, hA3, hA4⟩ := GradedP.shape_of_mem hsa hsa'
  have hKshape : Arr.blockShape? (permuted a.indices xa) (permuted sa xa) = some (permuted shpS xa) :=
    blockShape?_permuted hA1 xa (by simpa [ean] using hA)
  have hKshapeB : Arr.blockShape? (permuted b.indices xb) (permuted sa xa) = some (permuted shpS xa) := by
    rw [← blockShape?_congr_cm hcm]; exact hKshape
  have hKlen := hKl _ hK
  simp only [contractPair]
  rw [contracted_box (A := a) hnA hA hKshape hL]
  apply sum_map_congr
  intro kk hkk
  have hkbox : inBox (permuted shpS xa) kk = true := mem_allIdx_iff.mp hkk
  have hkkl : kk.length = xa.length := by
    rw [inBox_length hkbox, permuted_length _ _ (by intro x hx; rw [hA3]; exact hA x hx)]
  obtain ⟨shpM, hshpM, hboxM⟩ := merge_box (Y := FuseP.fusedArrM b [g]) hnB' hB'
    (show Arr.blockShape? (permuted (FuseP.fusedArrM b [g]).indices (xb.map (shiftAxes b g))) (permuted sa xa)
      = some (permuted shpS xa) by rw [hKidx]; exact hKshapeB) hRfshape hkbox hboxRf
  obtain ⟨s1, s2, s3⟩ := merged_free ((0, 0) : Charge) h hdisj hnB hB (hKlen.trans hlen) hMRl' hMRl hfS
  obtain ⟨o1, o2, o3⟩ := merged_free (0 : Nat) h hdisj hnB hB (hkkl.trans hlen) hMOl' hMOl hfO
  unfold contractTerm
  congr 1
  rw [nF] at hshpM hboxM ⊢
  refine one_elem hvb hpb h (show Arr.blockShape? (FuseP.newIdxM b [g]) _ = some shpM from hshpM) hboxM
    (mergeSec_length _ _ _ _) (mergeIdx_length _ _ _ _ _ _) ?_ s1 o1
  show decAx b [g] 0 ((mergeIdx ((0, 0) : Charge) _ _ _ _ _).getD _ (0, 0)) _ = some (permuted (mergeIdx ((0, 0) : Charge) _ _ _ _ _) g, _)
  rw [s2, o2, s3, o3]
  exact hdec

end TdotP
end SymmModel
