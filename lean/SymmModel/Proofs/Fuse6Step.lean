/-
  SymmModel.Proofs.Fuse6Step — an abstract unfuse step (`unfuseA` on abelian arrays, `unfuseF` on
  fermionic ones): what it does to the frame and to the value view.  Two such steps on different
  axes commute up to equality of value views, and a step respects equality of value views.
-/
import SymmModel.Proofs.Fuse6Comm
import SymmModel.Proofs.Fuse6Box
namespace SymmModel
namespace FuseP
set_option linter.unusedSectionVars false
open SymmModel.Lazy

variable {R : Type} [Zero R] [Neg R] [LawfulNeg R]

/-- the sign of a step as a function of the whole sector: a function of the segment only -/
def sgS (sg : Sector → Int) (p L : Nat) (K : Sector) : Int := sg ((K.drop p).take L)

/-- specification of an unfuse step -/
structure StepOK (unf : Arr R → Nat → Except Err (Arr R)) (Good : Arr R → Prop)
    (sg : Sym → Index → List Index → Sector → Int) : Prop where
  valid : ∀ a, Good a → ValidArr a
  step : ∀ a p ix subs exts, Good a → a.indices[p]? = some ix → ix.sub = some (subs, exts) →
    ∃ y, unf a p = .ok y ∧ Good y ∧ y.indices = replaceWithSeq a.indices p subs
      ∧ y.sym = a.sym ∧ y.fermi = a.fermi ∧ y.charge = a.charge ∧ y.oddpos = a.oddpos
      ∧ ∀ K shp, Arr.blockShape? y.indices K = some shp → ∀ J, inBox shp J = true →
          y.elem K J = unfVal a.sym ix subs exts p (sgS (sg a.sym ix subs) p subs.length) a.elem K J

theorem replace_parts {α : Type} {A X : List α} {p : Nat} (hA : A.length = p) (x : α) (s : List α) :
    replaceWithSeq (A ++ [x] ++ X) p s = A ++ s ++ X := by
  rw [replaceWithSeq_split]
  exact col_parts hA (by simp) s

theorem getElem?_parts {α : Type} {A X : List α} {p : Nat} (hA : A.length = p) (x : α) :
    (A ++ [x] ++ X)[p]? = some x := by
  subst hA; simp

theorem parts_at {α : Type} {l : List α} {p : Nat} {x : α} (h : l[p]? = some x) :
    ∃ A X, l = A ++ [x] ++ X ∧ A.length = p := by
  have hp : p < l.length := getElem?_lt h
  refine ⟨l.take p, l.drop (p + 1), ?_, by rw [List.length_take]; omega⟩
  have := list_split_at l p x hp
  have hx : l.getD p x = x := by rw [List.getD_eq_getElem?_getD, h]; rfl
  rw [hx] at this
  exact this

/-- the inner value view only matters at the one address that is read -/
theorem unfVal_inner_congr (sym : Sym) (ix : Index) (subs : List Index) (exts : Extents)
    (sgn : Sector → Int) (w w' : Sector → List Nat → R) {p : Nat} {A S X : Sector} {A' S' X' : List Nat}
    (hA : A.length = p) (hS : S.length = subs.length) (hA' : A'.length = p) (hS' : S'.length = subs.length)
    (h : ∀ st sub, look sym ix subs exts S = some (st, sub) →
      w (A ++ [cmb sym ix subs S] ++ X) (A' ++ [st + ravel sub S'] ++ X')
        = w' (A ++ [cmb sym ix subs S] ++ X) (A' ++ [st + ravel sub S'] ++ X')) :
    unfVal sym ix subs exts p sgn w (A ++ S ++ X) (A' ++ S' ++ X')
      = unfVal sym ix subs exts p sgn w' (A ++ S ++ X) (A' ++ S' ++ X') := by
  rw [unfVal_parts sym ix subs exts sgn w hA hS hA' hS', unfVal_parts sym ix subs exts sgn w' hA hS hA' hS']
  cases hl : look sym ix subs exts S with
  | none => rfl
  | some q =>
    obtain ⟨st, sub⟩ := q
    simp only
    rw [h st sub hl]

section Step
variable {unf : Arr R → Nat → Except Err (Arr R)} {Good : Arr R → Prop}
  {sg : Sym → Index → List Index → Sector → Int}

/-- a step respects equality of value views -/
theorem step_veq (H : StepOK unf Good sg) {a b : Arr R} (h : VEq a b) (ha : Good a) (hb : Good b)
    {p : Nat} {ix : Index} {subs : List Index} {exts : Extents}
    (hix : a.indices[p]? = some ix) (hsub : ix.sub = some (subs, exts)) :
    ∃ y y', unf a p = .ok y ∧ unf b p = .ok y' ∧ Good y ∧ Good y' ∧ VEq y y' := by
  have hixb : b.indices[p]? = some ix := by rw [← h.indices]; exact hix
  obtain ⟨y, hy, hgy, hyi, hys, hyf, hyc, hyo, hyv⟩ := H.step a p ix subs exts ha hix hsub
  obtain ⟨y', hy', hgy', hyi', hys', hyf', hyc', hyo', hyv'⟩ := H.step b p ix subs exts hb hixb hsub
  have hii : y.indices = y'.indices := by rw [hyi, hyi', h.indices]
  refine ⟨y, y', hy, hy', hgy, hgy', ⟨by rw [hys, hys', h.sym], by rw [hyf, hyf', h.fermi], hii,
    by rw [hyc, hyc', h.charge], by rw [hyo, hyo', h.oddpos], ?_⟩⟩
  apply elem_ext_of_inBox (H.valid y hgy) (H.valid y' hgy') hii
  intro K shp hK J hJ
  rw [hyv K shp hK J hJ, hyv' K shp (by rw [← hii]; exact hK) J hJ, ← h.sym]
  exact unfVal_congr h.elem K J

/-- **two steps on different axes commute** (equal value views) -/
theorem step_comm (H : StepOK unf Good sg) (a : Arr R) (ha : Good a) {p q : Nat} (hpq : p < q)
    {ixP ixQ : Index} {subsP subsQ : List Index} {extsP extsQ : Extents}
    (hixP : a.indices[p]? = some ixP) (hsubP : ixP.sub = some (subsP, extsP))
    (hixQ : a.indices[q]? = some ixQ) (hsubQ : ixQ.sub = some (subsQ, extsQ)) :
    ∃ y1 z1 y2 z2, unf a q = .ok y1 ∧ unf y1 p = .ok z1 ∧ unf a p = .ok y2
      ∧ unf y2 (q - 1 + subsP.length) = .ok z2 ∧ Good y1 ∧ Good z1 ∧ Good y2 ∧ Good z2
      ∧ y1.indices = replaceWithSeq a.indices q subsQ ∧ y2.indices = replaceWithSeq a.indices p subsP
      ∧ VEq z1 z2 := by
  have hva := H.valid a ha
  have hwP : Index.wfB a.sym ixP = true := hva.idx ixP (getElem?_mem' hixP)
  have hwQ : Index.wfB a.sym ixQ = true := hva.idx ixQ (getElem?_mem' hixQ)
  -- the index list in five parts
  obtain ⟨B, IC, hI, hB⟩ := parts_at hixQ
  have hBp : B[p]? = some ixP := by
    rw [hI, List.append_assoc, List.getElem?_append_left (by omega)] at hixP
    exact hixP
  obtain ⟨IA, IM, rfl, hIA⟩ := parts_at hBp
  obtain ⟨m, hm⟩ : ∃ m, IM.length = m := ⟨_, rfl⟩
  have hq : q = p + 1 + m := by
    simp only [List.length_append, List.length_cons, List.length_nil] at hB; omega
  have hq' : q - 1 + subsP.length = p + subsP.length + m := by omega
  rw [hq']
  -- order 1
  obtain ⟨y1, hy1, hg1, hy1i, hy1s, hy1f, hy1c, hy1o, hy1v⟩ := H.step a q ixQ subsQ extsQ ha hixQ hsubQ
  have hy1i' : y1.indices = IA ++ [ixP] ++ (IM ++ subsQ ++ IC) := by
    rw [hy1i, hI, replace_parts hB]; simp only [List.append_assoc]
  have hy1p : y1.indices[p]? = some ixP := by rw [hy1i']; exact getElem?_parts hIA ixP
  obtain ⟨z1, hz1, hgz1, hz1i, hz1s, hz1f, hz1c, hz1o, hz1v⟩ := H.step y1 p ixP subsP extsP hg1 hy1p hsubP
  have hz1i' : z1.indices = IA ++ subsP ++ (IM ++ subsQ ++ IC) := by
    rw [hz1i, hy1i', replace_parts hIA]
  -- order 2
  obtain ⟨y2, hy2, hg2, hy2i, hy2s, hy2f, hy2c, hy2o, hy2v⟩ := H.step a p ixP subsP extsP ha hixP hsubP
  have hI' : a.indices = IA ++ [ixP] ++ (IM ++ [ixQ] ++ IC) := by rw [hI]; simp only [List.append_assoc]
  have hy2i' : y2.indices = (IA ++ subsP ++ IM) ++ [ixQ] ++ IC := by
    rw [hy2i, hI', replace_parts hIA]; simp only [List.append_assoc]
  have hB2 : (IA ++ subsP ++ IM).length = p + subsP.length + m := by
    simp only [List.length_append, hIA, hm]
  have hy2q : y2.indices[p + subsP.length + m]? = some ixQ := by rw [hy2i']; exact getElem?_parts hB2 ixQ
  obtain ⟨z2, hz2, hgz2, hz2i, hz2s, hz2f, hz2c, hz2o, hz2v⟩ :=
    H.step y2 (p + subsP.length + m) ixQ subsQ extsQ hg2 hy2q hsubQ
  have hz2i' : z2.indices = (IA ++ subsP ++ IM) ++ subsQ ++ IC := by
    rw [hz2i, hy2i', replace_parts hB2]
  have hii : z1.indices = z2.indices := by rw [hz1i', hz2i']; simp only [List.append_assoc]
  refine ⟨y1, z1, y2, z2, hy1, hz1, hy2, hz2, hg1, hgz1, hg2, hgz2, hy1i, hy2i,
    ⟨by rw [hz1s, hy1s, hz2s, hy2s], by rw [hz1f, hy1f, hz2f, hy2f], hii,
     by rw [hz1c, hy1c, hz2c, hy2c], by rw [hz1o, hy1o, hz2o, hy2o], ?_⟩⟩
  apply elem_ext_of_inBox (H.valid z1 hgz1) (H.valid z2 hgz2) hii
  intro K shp hK J hJ
  -- the address in five parts
  have hKl : K.length = p + subsP.length + m + subsQ.length + IC.length := by
    have := (blockShape?_length hK).1
    rw [hz1i'] at this
    simp only [List.length_append, hIA, hm] at this
    omega
  have hJl : J.length = K.length := by rw [inBox_length hJ, (blockShape?_length hK).2]
  obtain ⟨A, S, M, T, C, rfl, hA, hS, hM, hT⟩ := exists_parts5 K p subsP.length m subsQ.length (by omega)
  obtain ⟨A', S', M', T', C', rfl, hA', hS', hM', hT'⟩ := exists_parts5 J p subsP.length m subsQ.length (by omega)
  have eK : A ++ S ++ M ++ T ++ C = A ++ S ++ (M ++ T ++ C) := by simp only [List.append_assoc]
  have eJ : A' ++ S' ++ M' ++ T' ++ C' = A' ++ S' ++ (M' ++ T' ++ C') := by simp only [List.append_assoc]
  have hAQ : (A ++ S ++ M).length = p + subsP.length + m := by simp only [List.length_append, hA, hS, hM]
  have hAQ' : (A' ++ S' ++ M').length = p + subsP.length + m := by simp only [List.length_append, hA', hS', hM']
  -- order 1 as a composition
  have e1 : z1.elem (A ++ S ++ M ++ T ++ C) (A' ++ S' ++ M' ++ T' ++ C')
      = unfVal a.sym ixP subsP extsP p (sgS (sg a.sym ixP subsP) p subsP.length)
          (unfVal a.sym ixQ subsQ extsQ (p + 1 + m) (sgS (sg a.sym ixQ subsQ) (p + 1 + m) subsQ.length) a.elem)
          (A ++ S ++ M ++ T ++ C) (A' ++ S' ++ M' ++ T' ++ C') := by
    rw [hz1v _ shp hK _ hJ, hy1s, eK, eJ]
    apply unfVal_inner_congr a.sym ixP subsP extsP _ _ _ hA hS hA' hS'
    intro st sub hl
    have hK' : Arr.blockShape? (IA ++ subsP ++ (IM ++ subsQ ++ IC)) (A ++ S ++ (M ++ T ++ C)) = some shp := by
      rw [← hz1i', ← eK]; exact hK
    obtain ⟨shp1, hb1, hj1⟩ := collapse_box hwP hsubP (by rw [hA, hIA]) hS (by rw [hA', hIA]) hS' hK'
      (by rw [← eJ]; exact hJ) hl
    rw [← hy1i'] at hb1
    rw [hy1v _ shp1 hb1 _ hj1, hq]
  -- order 2 as a composition
  have e2 : z2.elem (A ++ S ++ M ++ T ++ C) (A' ++ S' ++ M' ++ T' ++ C')
      = unfVal a.sym ixQ subsQ extsQ (p + subsP.length + m)
          (sgS (sg a.sym ixQ subsQ) (p + subsP.length + m) subsQ.length)
          (unfVal a.sym ixP subsP extsP p (sgS (sg a.sym ixP subsP) p subsP.length) a.elem)
          (A ++ S ++ M ++ T ++ C) (A' ++ S' ++ M' ++ T' ++ C') := by
    have hK2 : Arr.blockShape? z2.indices (A ++ S ++ M ++ T ++ C) = some shp := by rw [← hii]; exact hK
    rw [hz2v _ shp hK2 _ hJ, hy2s]
    apply unfVal_inner_congr a.sym ixQ subsQ extsQ _ _ _ hAQ hT hAQ' hT'
    intro st sub hl
    have hK' : Arr.blockShape? ((IA ++ subsP ++ IM) ++ subsQ ++ IC) ((A ++ S ++ M) ++ T ++ C) = some shp := by
      rw [← hz2i']; exact hK2
    obtain ⟨shp1, hb1, hj1⟩ := collapse_box hwQ hsubQ (by rw [hAQ, hB2]) hT (by rw [hAQ', hB2]) hT' hK' hJ hl
    rw [← hy2i'] at hb1
    rw [hy2v _ shp1 hb1 _ hj1]
  rw [e1, e2]
  apply unfVal_comm a.sym ixP ixQ subsP subsQ extsP extsQ _ _ _ _ a.elem hA hS hM hT hA' hS' hM' hT'
  · -- the sign of the `p` step only sees `S`
    unfold sgS
    rw [eK, seg_parts hA hS]
    have : A ++ S ++ M ++ [cmb a.sym ixQ subsQ T] ++ C = A ++ S ++ (M ++ [cmb a.sym ixQ subsQ T] ++ C) := by
      simp only [List.append_assoc]
    rw [this, seg_parts hA hS]
  · -- the sign of the `q` step only sees `T`
    unfold sgS
    rw [seg_parts hAQ hT]
    have : A ++ [cmb a.sym ixP subsP S] ++ M ++ T ++ C = (A ++ [cmb a.sym ixP subsP S] ++ M) ++ T ++ C := rfl
    rw [this, seg_parts (by simp only [List.length_append, List.length_cons, List.length_nil, hA, hM]) hT]

end Step

end FuseP
end SymmModel
