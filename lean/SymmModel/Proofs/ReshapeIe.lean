/-
  SymmModel.Proofs.ReshapeIe — assembly: (1) the element BIJECTION of the fermionic `reshape` along a
  plan of fuse calls (`ElemBij`: total, onto, injective, functional, the two cases exclusive);
  (2) `reshape` to merge / squeeze targets and the round trips under the EXACT window condition of
  the way out (`noWinVisB`, Proofs/ReshapeId.lean) instead of `noWinB`.
-/
import SymmModel.Proofs.ReshapeIf
import SymmModel.Proofs.ReshapeIg
namespace SymmModel.ReshapeI
open SymmModel SymmModel.Reshape SymmModel.C07 SymmModel.Reshape3 SymmModel.Reshape5 SymmModel.ReshapeH
open ReshapeP FuseP SymmModel.Lazy
set_option linter.unusedSectionVars false

variable {R : Type} [Zero R] [Neg R] [LawfulNeg R]

/-- the element statement of a plan of fuse calls in its final form -/
structure ElemBij (a : Arr R) (calls : List (List (List Nat))) (y : Arr R) : Prop where
  /-- every stored address of the result: the value of exactly one stored source element (up to the
      product of the fuse signs), or a zero-filled address with value 0 -/
  total : ∀ ns i, Stored y ns i →
    (∃ s o σ, Pulled a calls 0 y ns i s o σ ∧ Stored a s o ∧ y.elem ns i = sgnI σ (a.elem s o))
    ∨ (ZeroAt a calls 0 y ns i ∧ y.elem ns i = 0)
  /-- every stored source element appears -/
  onto : ∀ s o, Stored a s o →
    ∃ ns i σ, Stored y ns i ∧ Pulled a calls 0 y ns i s o σ ∧ y.elem ns i = sgnI σ (a.elem s o)
  /-- … exactly once -/
  inj : ∀ ns i ns' i' s o σ σ', Stored y ns i → Stored y ns' i' → Pulled a calls 0 y ns i s o σ →
    Pulled a calls 0 y ns' i' s o σ' → ns = ns' ∧ i = i'
  /-- the pulled-back address and sign are determined by the address of the result -/
  func : ∀ ns i s o σ s' o' σ', Pulled a calls 0 y ns i s o σ → Pulled a calls 0 y ns i s' o' σ' →
    s = s' ∧ o = o' ∧ σ = σ'
  /-- a zero-filled address has no stored source element -/
  excl : ∀ ns i, ZeroAt a calls 0 y ns i → ∀ s o σ, Pulled a calls 0 y ns i s o σ → ¬ Stored a s o

theorem elemBij_calls (a : Arr R) (calls : List (List (List Nat))) (hv : a.validB = true)
    (hf : a.fermi = true) (hc : CallsOk calls 0 a.ndim) :
    ∃ y, calls.foldlM fuseDispatch a = .ok y ∧ y.validB = true ∧ y.fermi = true ∧ ElemBij a calls y := by
  obtain ⟨y, hy, hvy, hfy, hch⟩ := elem_chainB calls a 0 hv hf hc
  have hexcl : ∀ ns i, ZeroAt a calls 0 y ns i → ∀ s o σ, Pulled a calls 0 y ns i s o σ → ¬ Stored a s o := by
    intro ns i hz s o σ hp ⟨b, hb, _⟩
    rw [zeroAt_not_pulled calls a y 0 ns i hz s o σ hp] at hb
    cases hb
  refine ⟨y, hy, hvy, hfy, elemChainB_total calls a y 0 hch, ?_, pulled_inj calls a y 0 hch,
    pulled_unique calls a y 0, hexcl⟩
  intro s o hst
  obtain ⟨ns, i, σ, hsy, hp⟩ := onto_chain calls a 0 hv hf hc y hy s o hst
  refine ⟨ns, i, σ, hsy, hp, ?_⟩
  rcases elemChainB_total calls a y 0 hch ns i hsy with ⟨s', o', σ', hp', _, hval⟩ | ⟨hz, _⟩
  · obtain ⟨rfl, rfl, rfl⟩ := pulled_unique calls a y 0 ns i s o σ s' o' σ' hp hp'
    exact hval
  · exact (hexcl ns i hz s o σ hp hst).elim

/-- the fuse calls of `reshape` to a merge / squeeze target under the exact window condition -/
theorem planner_calls_items_vis (a : Arr R) (items : List Item)
    (hshape : a.shape = shapeOf items) (hok : ItemsOk items) (hne : targetOf items ≠ [])
    (hpos : ∀ d ∈ a.shape, 0 < d) (hnw1 : noWinVisB a.shape (targetOf items) a.subsizes = true) :
    ∃ t, calcReshapeArgs a.shape (targetOf items) a.subsizes = .ok t ∧ t = ([], t.2.1, [])
      ∧ CallsOk t.2.1 0 a.ndim := by
  obtain ⟨t, ht, hu, hexp⟩ := planner_items_total items hok hne
  rw [← hshape] at ht
  have h3 : calcReshapeArgs a.shape (targetOf items) a.subsizes = .ok t := by
    rw [planner_vis_nones a.shape _ a.subsizes (shape_subsizes_length a) hnw1]; exact ht
  have hprod : prod a.shape = prod (targetOf items) := by rw [hshape]; exact prod_items items
  have hwf := Reshape3.planner_wf_of_prod a.shape (targetOf items) (nones a.shape) (nones_length a.shape).symm
    (Reshape3.denseB_nones a.shape) hpos hprod t ht
  have hc := calls_of_planner a.shape (targetOf items) t ht hwf
  have hteq : t = ([], t.2.1, []) := by
    obtain ⟨t1, t2, t3⟩ := t
    simp only at hu hexp; subst hu; subst hexp; rfl
  have hnd : a.shape.length = a.ndim := by simp [Arr.shape, Arr.ndim]
  rw [hnd] at hc
  exact ⟨t, h3, hteq, hc⟩

/-- **fermionic `reshape` to a merge / squeeze target: the element bijection** -/
theorem forward_items_bij (a : Arr R) (hv : a.validB = true) (hf : a.fermi = true) (items : List Item)
    (hshape : a.shape = shapeOf items) (hok : ItemsOk items) (hne : targetOf items ≠ [])
    (hpos : ∀ d ∈ a.shape, 0 < d) (hnw1 : noWinVisB a.shape (targetOf items) a.subsizes = true) :
    ∃ t y, calcReshapeArgs a.shape (targetOf items) a.subsizes = .ok t ∧ t.1 = [] ∧ t.2.2 = []
      ∧ reshapeArr a ((targetOf items).map Int.ofNat) = .ok y ∧ y.validB = true ∧ y.fermi = true
      ∧ ElemBij a t.2.1 y := by
  obtain ⟨t, h3, hteq, hc⟩ := planner_calls_items_vis a items hshape hok hne hpos hnw1
  obtain ⟨y, hy, hvy, hfy, hb⟩ := elemBij_calls a t.2.1 hv hf hc
  refine ⟨t, y, h3, by rw [hteq], by rw [hteq], ?_, hvy, hfy, hb⟩
  rw [reshapeArr_eq a _ _ (targetOf items) t (findFullReshape_nat _ _) (mapM_toNat _) h3, hteq,
    applyPlan_calls]
  exact hy

/-! ### the round trips under the exact window condition of the way out -/

section Trip
variable {fuse : Arr R → List (List Nat) → Except Err (Arr R)}
  {unf : Arr R → Nat → Except Err (Arr R)} {Good : Arr R → Prop}
  {sg : Sym → Index → List Index → Sector → Int}

theorem reshape_roundtrip_vis_generic (H : StepOK unf Good sg) (F : FuseOK fuse unf Good)
    (hind : ∀ x p y, unf x p = .ok y → ∃ ix subs exts, x.indices[p]? = some ix ∧ ix.sub = some (subs, exts))
    (hfd : ∀ x G, Good x → fuseDispatch x G = fuse x G)
    (hdisp : ∀ x p, Good x → unfuseDispatch x p = unf x p)
    (a y : Arr R) (hg : Good a)
    (ns full : List Int) (nsN : List Nat) (t : List Nat × List (List (List Nat)) × List Nat)
    (hpos : ∀ d ∈ a.shape, 0 < d) (hprod : prod a.shape = prod nsN)
    (hnw1 : noWinVisB a.shape nsN a.subsizes = true) (hnw2 : noSelfWinB a.shape a.subsizes = true)
    (h1 : findFullReshape ns a.size = .ok full)
    (h2 : full.mapM (fun (d : Int) => if d < 0 then (throw Err.notimpl : Except Err Nat) else pure d.toNat)
      = .ok nsN)
    (h3 : calcReshapeArgs a.shape nsN a.subsizes = .ok t) (hexp : t.2.2 = [])
    (hy : reshapeArr a ns = .ok y) :
    ∃ z, reshapeArr y (a.shape.map Int.ofNat) = .ok z ∧ Good z ∧ VEq z a := by
  have h3' : calcReshapeArgs a.shape nsN (nones a.shape) = .ok t := by
    rw [← planner_vis_nones a.shape nsN a.subsizes (shape_subsizes_length a) hnw1]; exact h3
  have hu := planner_no_unfuse a.shape nsN t h3'
  have hwf := planner_wf_of_prod a.shape nsN (nones a.shape) (nones_length a.shape).symm
    (denseB_nones a.shape) hpos hprod t h3'
  have hc := calls_of_planner a.shape nsN t h3' hwf
  have ht : t = ([], t.2.1, []) := by
    obtain ⟨t1, t2, t3⟩ := t
    simp only at hu hexp; subst hu; subst hexp; rfl
  rw [reshapeArr_eq a ns full nsN t h1 h2 h3, ht] at hy
  have hnd : a.shape.length = a.ndim := by simp [Arr.shape, Arr.ndim]
  rw [hnd] at hc
  obtain ⟨y', z, hy', hz, g, hv⟩ := roundtrip_fused_generic_diag H F hind hfd hdisp a hg hnw2 t.2.1 hc
  rw [hy] at hy'; injection hy' with hy'; subst hy'
  exact ⟨z, hz, g, hv⟩

theorem reshape_roundtrip_items_vis_generic (H : StepOK unf Good sg) (F : FuseOK fuse unf Good)
    (hind : ∀ x p y, unf x p = .ok y → ∃ ix subs exts, x.indices[p]? = some ix ∧ ix.sub = some (subs, exts))
    (hfd : ∀ x G, Good x → fuseDispatch x G = fuse x G)
    (hdisp : ∀ x p, Good x → unfuseDispatch x p = unf x p)
    (a : Arr R) (hg : Good a) (items : List Item)
    (hshape : a.shape = shapeOf items) (hok : ItemsOk items) (hne : targetOf items ≠ [])
    (hpos : ∀ d ∈ a.shape, 0 < d)
    (hnw1 : noWinVisB a.shape (targetOf items) a.subsizes = true) (hnw2 : noSelfWinB a.shape a.subsizes = true) :
    ∃ y z, reshapeArr a ((targetOf items).map Int.ofNat) = .ok y
      ∧ reshapeArr y (a.shape.map Int.ofNat) = .ok z ∧ Good z ∧ VEq z a := by
  obtain ⟨t, h3, hteq, hc⟩ := planner_calls_items_vis a items hshape hok hne hpos hnw1
  obtain ⟨y, z, hy, hz, g, hv⟩ := roundtrip_fused_generic_diag H F hind hfd hdisp a hg hnw2 t.2.1 hc
  refine ⟨y, z, ?_, hz, g, hv⟩
  rw [reshapeArr_eq a _ _ (targetOf items) t (findFullReshape_nat _ _) (mapM_toNat _) h3, hteq]
  exact hy

end Trip

end SymmModel.ReshapeI
