/-
  SymmModel.Proofs.NormNet13 — network form of the norm (property C10), part 13:
  the generic tensor-by-tensor steps under the WEAK guard (`Assoc3P.tdotF_assoc_w`): `X` carries the
  conjugated PRUNED frame of `p·q` (what the model computes for the other half of the network).
-/
import SymmModel.Proofs.NormNet12
import SymmModel.Proofs.Assoc3Chain
namespace SymmModel.NormNet
open SymmModel SymmModel.Lazy SymmModel.Norm SymmModel.TdotP SymmModel.GradedP SymmModel.RoutesP
open SymmModel.AssocP
set_option linter.unusedSectionVars false

/-! ## a fully contracted triangle, weak guards -/
section tri
variable {R : Type} [AddCommMonoid R] [Mul R] [Neg R] [SignRing R] [AssocLaws R]

theorem assoc_scalar_w (A B C : Arr R) (xa1 xa3 xb1 xb2 xc2 xc3 : List Nat)
    (hA : A.validB = true) (hB : B.validB = true) (hC : C.validB = true)
    (hfA : A.fermi = true) (hfB : B.fermi = true) (hfC : C.fermi = true)
    (h1 : tdotAdmissibleCommonB A B xa1 xb1 = true) (h2 : tdotAdmissibleCommonB B C xb2 xc2 = true)
    (h3 : contractibleCommonB A C xa3 xc3 = true)
    (hnA : (xa1 ++ xa3).Nodup) (hnB : (xb1 ++ xb2).Nodup) (hnC : (xc2 ++ xc3).Nodup)
    (hltA : ∀ i ∈ xa3, i < A.ndim) (hltC : ∀ i ∈ xc3, i < C.ndim)
    (hL : Assoc2P.LabelRoutes A.parity B.parity A.oddpos B.oddpos C.oddpos)
    (fA : freeAxes A.ndim (xa1 ++ xa3) = []) (fB : freeAxes B.ndim (xb1 ++ xb2) = [])
    (fC : freeAxes C.ndim (xc2 ++ xc3) = []) :
    ∃ AB BC c1 c2 : Arr R,
      A.tensordotF B (.pair (xa1.map Int.ofNat) (xb1.map Int.ofNat)) .blockwise = .ok AB
      ∧ AB.tensordotF C (.pair ((Assoc2P.axesAB A.ndim B.ndim xa1 xa3 xb1 xb2).map Int.ofNat)
          ((xc3 ++ xc2).map Int.ofNat)) .blockwise = .ok c1
      ∧ B.tensordotF C (.pair (xb2.map Int.ofNat) (xc2.map Int.ofNat)) .blockwise = .ok BC
      ∧ A.tensordotF BC (.pair ((xa1 ++ xa3).map Int.ofNat)
          ((Assoc2P.axesBC B.ndim C.ndim xb1 xb2 xc2 xc3).map Int.ofNat)) .blockwise = .ok c2
      ∧ c2.oddpos = c1.oddpos ∧ c2.indices = c1.indices ∧ c2.elem [] [] = c1.elem [] [] := by
  obtain ⟨AB, BC, c1, c2, e1, e2, e3, e4, r1, _, _, _, _, _, r7, _, r9⟩ :=
    Assoc3P.tdotF_assoc_w A B C xa1 xa3 xb1 xb2 xc2 xc3 hA hB hC hfA hfB hfC h1 h2 h3 hnA hnB hnC
      hltA hltC hL
  refine ⟨AB, BC, c1, c2, e1, e2, e3, e4, r1, r7, ?_⟩
  have := r9 [] [] [] [] [] [] ⟨by rw [fA]; rfl, by rw [fB]; rfl, by rw [fA], by rw [fB],
    by rw [fC], by rw [fA]; rfl, by rw [fB]; rfl, by rw [fC]; rfl⟩
  simpa using this

end tri

/-! ## the pruned half against a single tensor -/
section adm
variable {R : Type}

theorem cmAgree_pruned {ix' ix : Index} (h : Pruned ix' ix) (hn : (ix.cm.map (·.1)).Nodup) :
    cmAgree ix'.cm ix.cm = true ∧ cmAgree ix.cm ix'.cm = true := by
  obtain ⟨_, f, hf⟩ := h
  rw [hf]
  exact ⟨cmAgree_prune_left f (cmAgree_self hn), cmAgree_prune_right f (cmAgree_self hn)⟩

theorem getD_map_in {α β : Type} [Inhabited α] [Inhabited β] (f : α → β) (l : List α) (i : Nat)
    (hi : i < l.length) : (l.map f).getD i default = f (l.getD i default) := by
  simp [List.getD_eq_getElem?_getD, List.getElem?_map, List.getElem?_eq_getElem hi]

theorem getD_mem_idx {l : List Index} {k : Nat} (h : k < l.length) : l.getD k default ∈ l := by
  rw [List.getD_eq_getElem?_getD, List.getElem?_eq_getElem h]
  exact List.getElem_mem h

/-- the `j`-th leg of the pruned, `F`-mapped frame of `p·q` against the leg of `p` it came from -/
theorem half_leg_left (X p q : Arr R) (xp xq : List Nat) (S : List Sector) (F : Index → Index)
    (hF : ∀ i, (F i).cm = i.cm ∧ (F i).dual = !i.dual) (hp : p.validB = true)
    (hX : X.indices = (dropUnused (without p.indices xp ++ without q.indices xq) S).map F)
    (j : Nat) (hj : j < (freeAxes p.ndim xp).length) :
    cmAgree (X.indices.getD j default).cm
        (p.indices.getD ((freeAxes p.ndim xp).getD j 0) default).cm = true
    ∧ cmAgree (p.indices.getD ((freeAxes p.ndim xp).getD j 0) default).cm
        (X.indices.getD j default).cm = true
    ∧ (X.indices.getD j default).dual
        = !(p.indices.getD ((freeAxes p.ndim xp).getD j 0) default).dual := by
  have hW : j < (without p.indices xp ++ without q.indices xq).length := by
    rw [frame_eq, List.length_append, List.length_map, List.length_map]; omega
  have hP := dropUnused_getD_pruned (without p.indices xp ++ without q.indices xq) S j hW
  rw [frame_eq, getD_append_map_left _ _ _ _ _ hj, ← frame_eq] at hP
  have hlt : (freeAxes p.ndim xp).getD j 0 < p.indices.length := by
    apply mem_freeAxes_lt
    rw [List.getD_eq_getElem?_getD, List.getElem?_eq_getElem hj]
    exact List.getElem_mem hj
  have hmem : p.indices.getD ((freeAxes p.ndim xp).getD j 0) default ∈ p.indices :=
    getD_mem_idx hlt
  have hn := keys_nodup_of_validB hp _ hmem
  rw [hX, getD_map_in F _ _ (by rw [dropUnused_length]; exact hW), (hF _).1, (hF _).2, hP.1]
  exact ⟨(cmAgree_pruned hP hn).1, (cmAgree_pruned hP hn).2, rfl⟩

theorem half_leg_right (X p q : Arr R) (xp xq : List Nat) (S : List Sector) (F : Index → Index)
    (hF : ∀ i, (F i).cm = i.cm ∧ (F i).dual = !i.dual) (hq : q.validB = true)
    (hX : X.indices = (dropUnused (without p.indices xp ++ without q.indices xq) S).map F)
    (j : Nat) (hj : j < (freeAxes q.ndim xq).length) :
    cmAgree (X.indices.getD ((freeAxes p.ndim xp).length + j) default).cm
        (q.indices.getD ((freeAxes q.ndim xq).getD j 0) default).cm = true
    ∧ cmAgree (q.indices.getD ((freeAxes q.ndim xq).getD j 0) default).cm
        (X.indices.getD ((freeAxes p.ndim xp).length + j) default).cm = true
    ∧ (X.indices.getD ((freeAxes p.ndim xp).length + j) default).dual
        = !(q.indices.getD ((freeAxes q.ndim xq).getD j 0) default).dual := by
  have hW : (freeAxes p.ndim xp).length + j
      < (without p.indices xp ++ without q.indices xq).length := by
    rw [frame_eq, List.length_append, List.length_map, List.length_map]; omega
  have hP := dropUnused_getD_pruned (without p.indices xp ++ without q.indices xq) S _ hW
  rw [frame_eq, getD_append_map_right _ _ _ _ _ hj, ← frame_eq] at hP
  have hlt : (freeAxes q.ndim xq).getD j 0 < q.indices.length := by
    apply mem_freeAxes_lt
    rw [List.getD_eq_getElem?_getD, List.getElem?_eq_getElem hj]
    exact List.getElem_mem hj
  have hmem : q.indices.getD ((freeAxes q.ndim xq).getD j 0) default ∈ q.indices :=
    getD_mem_idx hlt
  have hn := keys_nodup_of_validB hq _ hmem
  rw [hX, getD_map_in F _ _ (by rw [dropUnused_length]; exact hW), (hF _).1, (hF _).2, hP.1]
  exact ⟨(cmAgree_pruned hP hn).1, (cmAgree_pruned hP hn).2, rfl⟩

theorem getD_range (n j : Nat) (hj : j < n) : (List.range n).getD j 0 = j := by
  simp [List.getD_eq_getElem?_getD, List.getElem?_range hj]

theorem getD_shift (n m j : Nat) (hj : j < n) : ((List.range n).map (m + ·)).getD j 0 = m + j := by
  simp [List.getD_eq_getElem?_getD, List.getElem?_map, List.getElem?_range hj]

theorem not_not_dual (x y : Bool) (h : x = !y) : y = !x := by cases x <;> cases y <;> simp_all

variable (X p q : Arr R) (xp xq : List Nat) (S : List Sector) (F : Index → Index)
  (hF : ∀ i, (F i).cm = i.cm ∧ (F i).dual = !i.dual)
  (hX : X.indices = (dropUnused (without p.indices xp ++ without q.indices xq) S).map F)
include hF hX

theorem common_Xp (hp : p.validB = true) :
    contractibleCommonB X p (List.range (freeAxes p.ndim xp).length) (freeAxes p.ndim xp) = true := by
  rw [commonB_iff]
  refine ⟨List.length_range, fun j hj => ?_⟩
  rw [List.length_range] at hj
  obtain ⟨h1, _, h3⟩ := half_leg_left X p q xp xq S F hF hp hX j hj
  rw [getD_range _ _ hj]
  exact ⟨h1, not_not_dual _ _ h3⟩

theorem common_pX (hp : p.validB = true) :
    contractibleCommonB p X (freeAxes p.ndim xp) (List.range (freeAxes p.ndim xp).length) = true := by
  rw [commonB_iff]
  refine ⟨List.length_range.symm, fun j hj => ?_⟩
  obtain ⟨_, h2, h3⟩ := half_leg_left X p q xp xq S F hF hp hX j hj
  rw [getD_range _ _ hj]
  exact ⟨h2, h3⟩

theorem common_Xq (hq : q.validB = true) :
    contractibleCommonB X q
      ((List.range (freeAxes q.ndim xq).length).map ((freeAxes p.ndim xp).length + ·))
      (freeAxes q.ndim xq) = true := by
  rw [commonB_iff]
  refine ⟨by rw [List.length_map, List.length_range], fun j hj => ?_⟩
  rw [List.length_map, List.length_range] at hj
  obtain ⟨h1, _, h3⟩ := half_leg_right X p q xp xq S F hF hq hX j hj
  rw [getD_shift _ _ _ hj]
  exact ⟨h1, not_not_dual _ _ h3⟩

theorem common_qX (hq : q.validB = true) :
    contractibleCommonB q X (freeAxes q.ndim xq)
      ((List.range (freeAxes q.ndim xq).length).map ((freeAxes p.ndim xp).length + ·)) = true := by
  rw [commonB_iff]
  refine ⟨by rw [List.length_map, List.length_range], fun j hj => ?_⟩
  obtain ⟨_, h2, h3⟩ := half_leg_right X p q xp xq S F hF hq hX j hj
  rw [getD_shift _ _ _ hj]
  exact ⟨h2, h3⟩

omit hF in
theorem half_ndim_w : X.ndim = (freeAxes p.ndim xp).length + (freeAxes q.ndim xq).length := by
  unfold Arr.ndim
  rw [hX, List.length_map, dropUnused_length, frame_eq, List.length_append, List.length_map,
    List.length_map]
  rfl

end adm

/-! ## the two generic steps -/
section tw
variable {R : Type} [AddCommMonoid R] [Mul R] [Neg R] [SignRing R] [AssocLaws R]

theorem admC_of {a b : Arr R} {xa xb : List Nat} (hs : a.sym = b.sym)
    (hc : contractibleCommonB a b xa xb = true) (hnA : xa.Nodup) (hnB : xb.Nodup)
    (hA : ∀ i ∈ xa, i < a.ndim) (hB : ∀ i ∈ xb, i < b.ndim) :
    tdotAdmissibleCommonB a b xa xb = true := by
  unfold tdotAdmissibleCommonB
  simp only [Bool.and_eq_true, decide_eq_true_eq, ValidP.allDistinct_iff, List.all_eq_true]
  exact ⟨⟨⟨⟨⟨hs, hc⟩, hnA⟩, hnB⟩, hA⟩, hB⟩

/-- `(X·p)·q = X·(p·q)`, everything contracted, `X` with the pruned conjugated frame -/
theorem tw_left_w (p q X PQ r : Arr R) (xp xq : List Nat) (S : List Sector)
    (hp : p.validB = true) (hq : q.validB = true) (hX : X.validB = true)
    (hfp : p.fermi = true) (hfq : q.fermi = true) (hfX : X.fermi = true)
    (hadm : ValidP.tdotAdmissibleB p q xp xq = true)
    (ePQ : p.tensordotF q (.pair (xp.map Int.ofNat) (xq.map Int.ofNat)) .blockwise = .ok PQ)
    (hXs : X.sym = p.sym)
    (hXi : X.indices = (dropUnused (without p.indices xp ++ without q.indices xq) S).map Index.conj)
    (hn : PQ.ndim = X.ndim)
    (hL : Assoc2P.LabelRoutes X.parity p.parity X.oddpos p.oddpos q.oddpos)
    (hr : X.tensordotF PQ (allAxes PQ.ndim) .blockwise = .ok r) :
    ∃ AB c, X.tensordotF p (.pair ((List.range (freeAxes p.ndim xp).length).map Int.ofNat)
          ((freeAxes p.ndim xp).map Int.ofNat)) .blockwise = .ok AB
      ∧ AB.tensordotF q (.pair ((axesTW p.ndim q.ndim xp xq).map Int.ofNat)
          ((freeAxes q.ndim xq ++ xq).map Int.ofNat)) .blockwise = .ok c
      ∧ c.indices = r.indices ∧ c.oddpos = r.oddpos ∧ c.elem [] [] = r.elem [] [] := by
  have h := Adm.of hp hq hfp hfq hadm
  have hXn := half_ndim_w X p q xp xq S Index.conj hXi
  have g1 : tdotAdmissibleCommonB X p (List.range (freeAxes p.ndim xp).length) (freeAxes p.ndim xp)
      = true := by
    refine admC_of hXs (common_Xp X p q xp xq S Index.conj conj_F hXi hp) List.nodup_range
      (freeAxes_nodup _ _) ?_ (fun i hi => mem_freeAxes_lt i hi)
    intro i hi
    have := List.mem_range.mp hi
    rw [hXn]; omega
  obtain ⟨AB, BC, d1, d2, e1, e2, e3, e4, r1, r7, r9⟩ :=
    assoc_scalar_w X p q (List.range (freeAxes p.ndim xp).length)
      ((List.range (freeAxes q.ndim xq).length).map ((freeAxes p.ndim xp).length + ·))
      (freeAxes p.ndim xp) xp xq (freeAxes q.ndim xq) hX hp hq hfX hfp hfq
      g1 (Assoc3P.admW_toB (AdmW.ofAdm h))
      (common_Xq X p q xp xq S Index.conj conj_F hXi hq)
      (by rw [range_split]; exact List.nodup_range)
      ((perm_left h.nA h.ltA).nodup_iff.mpr List.nodup_range)
      ((perm_right h.nB h.ltB).nodup_iff.mpr List.nodup_range)
      (by
        intro i hi
        obtain ⟨j, hj, rfl⟩ := List.mem_map.mp hi
        have := List.mem_range.mp hj
        rw [hXn]; omega)
      (fun i hi => mem_freeAxes_lt i hi) hL
      (by rw [range_split, hXn]; exact freeAxes_range_self _)
      (freeAxes_all _ _ (all_left xp)) (freeAxes_all _ _ (all_right xq))
  obtain rfl : BC = PQ := by rw [ePQ] at e3; exact (Except.ok.inj e3).symm
  rw [range_split, axesBC_all, ← hXn, ← hn] at e4
  obtain rfl : d2 = r := by
    rw [show (Arr.tensordotF X BC (.pair ((List.range BC.ndim).map Int.ofNat)
      ((List.range BC.ndim).map Int.ofNat)) .blockwise) = X.tensordotF BC (allAxes BC.ndim) .blockwise
      from rfl, hr] at e4
    exact (Except.ok.inj e4).symm
  refine ⟨AB, d1, e1, ?_, r7.symm, r1.symm, r9.symm⟩
  have : axesTW p.ndim q.ndim xp xq = Assoc2P.axesAB X.ndim p.ndim
      (List.range (freeAxes p.ndim xp).length)
      ((List.range (freeAxes q.ndim xq).length).map ((freeAxes p.ndim xp).length + ·))
      (freeAxes p.ndim xp) xp := by unfold axesTW; rw [hXn]
  rw [this]; exact e2

/-- `p·(q·X) = (p·q)·X`, everything contracted, `X` with the pruned conjugated frame -/
theorem tw_right_w (p q X PQ r : Arr R) (xp xq : List Nat) (S : List Sector)
    (hp : p.validB = true) (hq : q.validB = true) (hX : X.validB = true)
    (hfp : p.fermi = true) (hfq : q.fermi = true) (hfX : X.fermi = true)
    (hadm : ValidP.tdotAdmissibleB p q xp xq = true)
    (ePQ : p.tensordotF q (.pair (xp.map Int.ofNat) (xq.map Int.ofNat)) .blockwise = .ok PQ)
    (hXs : X.sym = p.sym)
    (hXi : X.indices = (dropUnused (without p.indices xp ++ without q.indices xq) S).map Index.conj)
    (hn : PQ.ndim = X.ndim)
    (hL : Assoc2P.LabelRoutes p.parity q.parity p.oddpos q.oddpos X.oddpos)
    (hr : PQ.tensordotF X (allAxes PQ.ndim) .blockwise = .ok r) :
    ∃ BC c, q.tensordotF X (.pair ((freeAxes q.ndim xq).map Int.ofNat)
          (((List.range (freeAxes q.ndim xq).length).map ((freeAxes p.ndim xp).length + ·)).map
            Int.ofNat)) .blockwise = .ok BC
      ∧ p.tensordotF BC (.pair ((xp ++ freeAxes p.ndim xp).map Int.ofNat)
          ((axesTWr p.ndim q.ndim xp xq).map Int.ofNat)) .blockwise = .ok c
      ∧ c.indices = r.indices ∧ c.oddpos = r.oddpos ∧ c.elem [] [] = r.elem [] [] := by
  have h := Adm.of hp hq hfp hfq hadm
  have hXn := half_ndim_w X p q xp xq S Index.conj hXi
  have h2 : tdotAdmissibleCommonB q X (freeAxes q.ndim xq)
      ((List.range (freeAxes q.ndim xq).length).map ((freeAxes p.ndim xp).length + ·)) = true := by
    refine admC_of (by rw [hXs, h.sym]) (common_qX X p q xp xq S Index.conj conj_F hXi hq)
      (freeAxes_nodup _ _) (List.nodup_range.map (fun a b hab => by omega))
      (fun i hi => mem_freeAxes_lt i hi) ?_
    intro i hi
    obtain ⟨j, hj, rfl⟩ := List.mem_map.mp hi
    have := List.mem_range.mp hj
    rw [hXn]; omega
  obtain ⟨AB, BC, d1, d2, e1, e2, e3, e4, r1, r7, r9⟩ :=
    assoc_scalar_w p q X xp (freeAxes p.ndim xp) xq (freeAxes q.ndim xq)
      ((List.range (freeAxes q.ndim xq).length).map ((freeAxes p.ndim xp).length + ·))
      (List.range (freeAxes p.ndim xp).length) hp hq hX hfp hfq hfX
      (Assoc3P.admW_toB (AdmW.ofAdm h)) h2
      (common_pX X p q xp xq S Index.conj conj_F hXi hp)
      ((perm_right h.nA h.ltA).nodup_iff.mpr List.nodup_range)
      ((perm_right h.nB h.ltB).nodup_iff.mpr List.nodup_range)
      (by
        have : ((List.range (freeAxes q.ndim xq).length).map ((freeAxes p.ndim xp).length + ·)
            ++ List.range (freeAxes p.ndim xp).length).Perm
            (List.range ((freeAxes p.ndim xp).length + (freeAxes q.ndim xq).length)) := by
          rw [← range_split]; exact List.perm_append_comm
        exact this.nodup_iff.mpr List.nodup_range)
      (fun i hi => mem_freeAxes_lt i hi)
      (by
        intro i hi
        have := List.mem_range.mp hi
        rw [hXn]; omega)
      hL
      (freeAxes_all _ _ (all_right xp)) (freeAxes_all _ _ (all_right xq))
      (by
        apply freeAxes_all
        intro i hi
        rw [hXn] at hi
        by_cases h1 : i < (freeAxes p.ndim xp).length
        · exact List.mem_append_right _ (List.mem_range.mpr h1)
        · refine List.mem_append_left _ (List.mem_map.mpr
            ⟨i - (freeAxes p.ndim xp).length, List.mem_range.mpr (by omega), by omega⟩))
  obtain rfl : AB = PQ := by rw [ePQ] at e1; exact (Except.ok.inj e1).symm
  rw [range_split, axesAB_all, ← hXn, ← hn] at e2
  obtain rfl : d1 = r := by
    rw [show (Arr.tensordotF AB X (.pair ((List.range AB.ndim).map Int.ofNat)
      ((List.range AB.ndim).map Int.ofNat)) .blockwise) = AB.tensordotF X (allAxes AB.ndim) .blockwise
      from rfl, hr] at e2
    exact (Except.ok.inj e2).symm
  refine ⟨BC, d2, e3, ?_, r7, r1, r9⟩
  have : axesTWr p.ndim q.ndim xp xq = Assoc2P.axesBC q.ndim X.ndim xq (freeAxes q.ndim xq)
      ((List.range (freeAxes q.ndim xq).length).map ((freeAxes p.ndim xp).length + ·))
      (List.range (freeAxes p.ndim xp).length) := by unfold axesTWr; rw [hXn]
  rw [this]; exact e4

end tw

end SymmModel.NormNet
