/-
  SymmModel.Proofs.NormNet19 — network form of the norm (property C10), part 19:
  the two generic tensor-by-tensor steps with every call in any mode: given the blockwise route
  (`tw_left_w` / `tw_right_w`), the route through a zero-padded half `Xm` with calls in modes
  `m1`, `m2` succeeds and gives the same scalar.
-/
import SymmModel.Proofs.NormNet18
namespace SymmModel.NormNet
open SymmModel SymmModel.Lazy SymmModel.Norm SymmModel.TdotP SymmModel.GradedP SymmModel.RoutesP
open SymmModel.AssocP
set_option linter.unusedSectionVars false

section anymode
variable {R : Type} [AddCommMonoid R] [Mul R] [Neg R] [SignRing R]

/-- a call in any mode under the weak guard, next to the blockwise call (with the frames of both) -/
theorem call_any2 (hz1 : ∀ x : R, 0 * x = 0) (hz2 : ∀ x : R, x * 0 = 0) (a b : Arr R) (xa xb : List Nat)
    (W : AdmW a b xa xb) (mode : TdotMode) (rb : Arr R)
    (hb : a.tensordotF b (.pair (xa.map Int.ofNat) (xb.map Int.ofNat)) .blockwise = .ok rb) :
    ∃ rm, a.tensordotF b (.pair (xa.map Int.ofNat) (xb.map Int.ofNat)) mode = .ok rm
      ∧ Pad rm rb ∧ InterW a b xa xb rm ∧ InterW a b xa xb rb
      ∧ rm.oddpos = rb.oddpos ∧ rm.charge = rb.charge := by
  obtain ⟨_, _, _, _, h4, _, _⟩ := call_w hz1 hz2 a b xa xb W .fused (Or.inl rfl) rb hb
  obtain ⟨rm, h1, h2, h3, h5, h6⟩ := call_any hz1 hz2 a b xa xb W mode rb hb
  exact ⟨rm, h1, h2, h3, h4, h5, h6⟩

/-- the data of a half `X` (blockwise) and its any-mode version `Xm` -/
structure HalfPair [Zero R] [Neg R] (X Xm p q : Arr R) (xp xq : List Nat) : Prop where
  pad : Pad Xm X
  vX : X.validB = true
  vXm : Xm.validB = true
  fX : X.fermi = true
  fXm : Xm.fermi = true
  sX : X.sym = p.sym
  sXm : Xm.sym = p.sym
  odd : Xm.oddpos = X.oddpos
  chg : Xm.charge = X.charge
  frX : List.Forall₂ SizeLe X.indices
    ((without p.indices xp ++ without q.indices xq).map Index.conj)
  frXm : List.Forall₂ SizeLe Xm.indices
    ((without p.indices xp ++ without q.indices xq).map Index.conj)

theorem shift_nodup (m k : Nat) : ((List.range k).map (m + ·)).Nodup :=
  List.nodup_range.map (fun a b hab => by omega)

/-- `(Xm·p)·q` in modes `m1`, `m2` from the blockwise `(X·p)·q` -/
theorem tw_left_any (hz1 : ∀ x : R, 0 * x = 0) (hz2 : ∀ x : R, x * 0 = 0)
    (p q X Xm AB c : Arr R) (xp xq : List Nat)
    (hp : p.validB = true) (hq : q.validB = true) (hfp : p.fermi = true) (hfq : q.fermi = true)
    (hadm : ValidP.tdotAdmissibleB p q xp xq = true) (H : HalfPair X Xm p q xp xq)
    (e1 : X.tensordotF p (.pair ((List.range (freeAxes p.ndim xp).length).map Int.ofNat)
        ((freeAxes p.ndim xp).map Int.ofNat)) .blockwise = .ok AB)
    (e2 : AB.tensordotF q (.pair ((axesTW p.ndim q.ndim xp xq).map Int.ofNat)
        ((freeAxes q.ndim xq ++ xq).map Int.ofNat)) .blockwise = .ok c)
    (hc : c.ndim = 0) (m1 m2 : TdotMode) :
    ∃ ABm cm, Xm.tensordotF p (.pair ((List.range (freeAxes p.ndim xp).length).map Int.ofNat)
          ((freeAxes p.ndim xp).map Int.ofNat)) m1 = .ok ABm
      ∧ ABm.tensordotF q (.pair ((axesTW p.ndim q.ndim xp xq).map Int.ofNat)
          ((freeAxes q.ndim xq ++ xq).map Int.ofNat)) m2 = .ok cm
      ∧ cm.ndim = 0 ∧ cm.oddpos = c.oddpos ∧ cm.elem [] [] = c.elem [] [] := by
  have h := Adm.of hp hq hfp hfq hadm
  have nX := keys_nodup_of_validB H.vX
  have nXm := keys_nodup_of_validB H.vXm
  have hXn := halfS_ndim X p q xp xq H.frX nX
  have hXmn := halfS_ndim Xm p q xp xq H.frXm nXm
  have ltR : ∀ (Y : Arr R), Y.ndim = (freeAxes p.ndim xp).length + (freeAxes q.ndim xq).length →
      ∀ i ∈ List.range (freeAxes p.ndim xp).length, i < Y.ndim := by
    intro Y hY i hi; have := List.mem_range.mp hi; omega
  have ltS : ∀ (Y : Arr R), Y.ndim = (freeAxes p.ndim xp).length + (freeAxes q.ndim xq).length →
      ∀ i ∈ (List.range (freeAxes q.ndim xq).length).map ((freeAxes p.ndim xp).length + ·),
        i < Y.ndim := by
    intro Y hY i hi
    obtain ⟨j, hj, rfl⟩ := List.mem_map.mp hi
    have := List.mem_range.mp hj; omega
  have W1q : AdmW X p (List.range (freeAxes p.ndim xp).length) (freeAxes p.ndim xp) :=
    ⟨H.vX, hp, H.fX, hfp, H.sX, (commonS_Xp X p q xp xq H.frX nX hp).1, List.nodup_range,
      freeAxes_nodup _ _, ltR X hXn, fun i hi => mem_freeAxes_lt i hi⟩
  have W1p : AdmW Xm p (List.range (freeAxes p.ndim xp).length) (freeAxes p.ndim xp) :=
    ⟨H.vXm, hp, H.fXm, hfp, H.sXm, (commonS_Xp Xm p q xp xq H.frXm nXm hp).1, List.nodup_range,
      freeAxes_nodup _ _, ltR Xm hXmn, fun i hi => mem_freeAxes_lt i hi⟩
  obtain ⟨zp, ezp, pz, oz, cz⟩ :=
    pad_blockwise hz1 hz2 H.pad (Pad.refl hp) W1p W1q H.odd H.chg rfl rfl AB e1
  obtain ⟨ABm, e1m, pABm, IABm, _, oABm, cABm⟩ := call_any2 hz1 hz2 Xm p _ _ W1p m1 zp ezp
  obtain ⟨_, _, _, _, IAB, _, _⟩ := call_any2 hz1 hz2 X p _ _ W1q .blockwise AB e1
  have mids : ∀ (Y : Arr R), Y.ndim = (freeAxes p.ndim xp).length + (freeAxes q.ndim xq).length →
      Mid Y.ndim (List.range (freeAxes p.ndim xp).length)
        ((List.range (freeAxes q.ndim xq).length).map ((freeAxes p.ndim xp).length + ·)) := by
    intro Y hY
    refine Mid.of (by rw [range_split]; exact List.nodup_range) ?_
    intro i hi
    rcases List.mem_append.mp hi with h1 | h1
    · exact ltR Y hY i h1
    · exact ltS Y hY i h1
  have mB : Mid p.ndim (freeAxes p.ndim xp) xp :=
    Mid.of ((perm_left h.nA h.ltA).nodup_iff.mpr List.nodup_range) (by
      intro i hi
      rcases List.mem_append.mp hi with h1 | h1
      · exact mem_freeAxes_lt i h1
      · exact h.ltA i h1)
  have mC : Mid q.ndim xq (freeAxes q.ndim xq) :=
    Mid.of ((perm_right h.nB h.ltB).nodup_iff.mpr List.nodup_range) (by
      intro i hi
      rcases List.mem_append.mp hi with h1 | h1
      · exact h.ltB i h1
      · exact mem_freeAxes_lt i h1)
  have Tm : Assoc3P.TriW Xm p q (List.range (freeAxes p.ndim xp).length)
      ((List.range (freeAxes q.ndim xq).length).map ((freeAxes p.ndim xp).length + ·))
      (freeAxes p.ndim xp) xp xq (freeAxes q.ndim xq) :=
    ⟨W1p, AdmW.ofAdm h, mids Xm hXmn, mB, mC, (commonS_Xq Xm p q xp xq H.frXm nXm hq).1⟩
  have Tb : Assoc3P.TriW X p q (List.range (freeAxes p.ndim xp).length)
      ((List.range (freeAxes q.ndim xq).length).map ((freeAxes p.ndim xp).length + ·))
      (freeAxes p.ndim xp) xp xq (freeAxes q.ndim xq) :=
    ⟨W1q, AdmW.ofAdm h, mids X hXn, mB, mC, (commonS_Xq X p q xp xq H.frX nX hq).1⟩
  have W2p := admW_left_tri_w IABm Tm
  have W2q := admW_left_tri_w IAB Tb
  have eax : ∀ (Y : Arr R), Y.ndim = (freeAxes p.ndim xp).length + (freeAxes q.ndim xq).length →
      Assoc2P.axesAB Y.ndim p.ndim (List.range (freeAxes p.ndim xp).length)
        ((List.range (freeAxes q.ndim xq).length).map ((freeAxes p.ndim xp).length + ·))
        (freeAxes p.ndim xp) xp = axesTW p.ndim q.ndim xp xq := by
    intro Y hY; unfold axesTW; rw [hY]
  rw [eax Xm hXmn] at W2p
  rw [eax X hXn] at W2q
  obtain ⟨zp2, ezp2, pz2, oz2, _⟩ := pad_blockwise hz1 hz2 (pABm.trans pz) (Pad.refl hq) W2p W2q
    (oABm.trans oz) (cABm.trans cz) rfl rfl c e2
  obtain ⟨cm, e2m, pcm, _, ocm, _⟩ := call_any hz1 hz2 ABm q _ _ W2p m2 zp2 ezp2
  have n1 : cm.ndim = 0 := pcm.ndim.trans (pz2.ndim.trans hc)
  exact ⟨ABm, cm, e1m, e2m, n1, ocm.trans oz2,
    by rw [pad_elem_nil pcm n1, pad_elem_nil pz2 (pz2.ndim.trans hc)]⟩

/-- `p·(q·Xm)` in modes `m1`, `m2` from the blockwise `p·(q·X)` -/
theorem tw_right_any (hz1 : ∀ x : R, 0 * x = 0) (hz2 : ∀ x : R, x * 0 = 0)
    (p q X Xm BC c : Arr R) (xp xq : List Nat)
    (hp : p.validB = true) (hq : q.validB = true) (hfp : p.fermi = true) (hfq : q.fermi = true)
    (hadm : ValidP.tdotAdmissibleB p q xp xq = true) (H : HalfPair X Xm p q xp xq)
    (e1 : q.tensordotF X (.pair ((freeAxes q.ndim xq).map Int.ofNat)
        (((List.range (freeAxes q.ndim xq).length).map ((freeAxes p.ndim xp).length + ·)).map
          Int.ofNat)) .blockwise = .ok BC)
    (e2 : p.tensordotF BC (.pair ((xp ++ freeAxes p.ndim xp).map Int.ofNat)
        ((axesTWr p.ndim q.ndim xp xq).map Int.ofNat)) .blockwise = .ok c)
    (hc : c.ndim = 0) (m1 m2 : TdotMode) :
    ∃ BCm cm, q.tensordotF Xm (.pair ((freeAxes q.ndim xq).map Int.ofNat)
          (((List.range (freeAxes q.ndim xq).length).map ((freeAxes p.ndim xp).length + ·)).map
            Int.ofNat)) m1 = .ok BCm
      ∧ p.tensordotF BCm (.pair ((xp ++ freeAxes p.ndim xp).map Int.ofNat)
          ((axesTWr p.ndim q.ndim xp xq).map Int.ofNat)) m2 = .ok cm
      ∧ cm.ndim = 0 ∧ cm.oddpos = c.oddpos ∧ cm.elem [] [] = c.elem [] [] := by
  have h := Adm.of hp hq hfp hfq hadm
  have nX := keys_nodup_of_validB H.vX
  have nXm := keys_nodup_of_validB H.vXm
  have hXn := halfS_ndim X p q xp xq H.frX nX
  have hXmn := halfS_ndim Xm p q xp xq H.frXm nXm
  have ltR : ∀ (Y : Arr R), Y.ndim = (freeAxes p.ndim xp).length + (freeAxes q.ndim xq).length →
      ∀ i ∈ List.range (freeAxes p.ndim xp).length, i < Y.ndim := by
    intro Y hY i hi; have := List.mem_range.mp hi; omega
  have ltS : ∀ (Y : Arr R), Y.ndim = (freeAxes p.ndim xp).length + (freeAxes q.ndim xq).length →
      ∀ i ∈ (List.range (freeAxes q.ndim xq).length).map ((freeAxes p.ndim xp).length + ·),
        i < Y.ndim := by
    intro Y hY i hi
    obtain ⟨j, hj, rfl⟩ := List.mem_map.mp hi
    have := List.mem_range.mp hj; omega
  have W1q : AdmW q X (freeAxes q.ndim xq)
      ((List.range (freeAxes q.ndim xq).length).map ((freeAxes p.ndim xp).length + ·)) :=
    ⟨hq, H.vX, hfq, H.fX, by rw [H.sX, h.sym], (commonS_Xq X p q xp xq H.frX nX hq).2,
      freeAxes_nodup _ _, shift_nodup _ _, fun i hi => mem_freeAxes_lt i hi, ltS X hXn⟩
  have W1p : AdmW q Xm (freeAxes q.ndim xq)
      ((List.range (freeAxes q.ndim xq).length).map ((freeAxes p.ndim xp).length + ·)) :=
    ⟨hq, H.vXm, hfq, H.fXm, by rw [H.sXm, h.sym], (commonS_Xq Xm p q xp xq H.frXm nXm hq).2,
      freeAxes_nodup _ _, shift_nodup _ _, fun i hi => mem_freeAxes_lt i hi, ltS Xm hXmn⟩
  obtain ⟨zp, ezp, pz, oz, cz⟩ :=
    pad_blockwise hz1 hz2 (Pad.refl hq) H.pad W1p W1q rfl rfl H.odd H.chg BC e1
  obtain ⟨BCm, e1m, pBCm, IBCm, _, oBCm, cBCm⟩ := call_any2 hz1 hz2 q Xm _ _ W1p m1 zp ezp
  obtain ⟨_, _, _, _, IBC, _, _⟩ := call_any2 hz1 hz2 q X _ _ W1q .blockwise BC e1
  have mids : ∀ (Y : Arr R), Y.ndim = (freeAxes p.ndim xp).length + (freeAxes q.ndim xq).length →
      Mid Y.ndim ((List.range (freeAxes q.ndim xq).length).map ((freeAxes p.ndim xp).length + ·))
        (List.range (freeAxes p.ndim xp).length) := by
    intro Y hY
    refine Mid.of ?_ ?_
    · have : ((List.range (freeAxes q.ndim xq).length).map ((freeAxes p.ndim xp).length + ·)
          ++ List.range (freeAxes p.ndim xp).length).Perm
          (List.range ((freeAxes p.ndim xp).length + (freeAxes q.ndim xq).length)) := by
        rw [← range_split]; exact List.perm_append_comm
      exact this.nodup_iff.mpr List.nodup_range
    · intro i hi
      rcases List.mem_append.mp hi with h1 | h1
      · exact ltS Y hY i h1
      · exact ltR Y hY i h1
  have mA : Mid p.ndim xp (freeAxes p.ndim xp) :=
    Mid.of ((perm_right h.nA h.ltA).nodup_iff.mpr List.nodup_range) (by
      intro i hi
      rcases List.mem_append.mp hi with h1 | h1
      · exact h.ltA i h1
      · exact mem_freeAxes_lt i h1)
  have mB : Mid q.ndim xq (freeAxes q.ndim xq) :=
    Mid.of ((perm_right h.nB h.ltB).nodup_iff.mpr List.nodup_range) (by
      intro i hi
      rcases List.mem_append.mp hi with h1 | h1
      · exact h.ltB i h1
      · exact mem_freeAxes_lt i h1)
  have Tm : Assoc3P.TriW p q Xm xp (freeAxes p.ndim xp) xq (freeAxes q.ndim xq)
      ((List.range (freeAxes q.ndim xq).length).map ((freeAxes p.ndim xp).length + ·))
      (List.range (freeAxes p.ndim xp).length) :=
    ⟨AdmW.ofAdm h, W1p, mA, mB, mids Xm hXmn, (commonS_Xp Xm p q xp xq H.frXm nXm hp).2⟩
  have Tb : Assoc3P.TriW p q X xp (freeAxes p.ndim xp) xq (freeAxes q.ndim xq)
      ((List.range (freeAxes q.ndim xq).length).map ((freeAxes p.ndim xp).length + ·))
      (List.range (freeAxes p.ndim xp).length) :=
    ⟨AdmW.ofAdm h, W1q, mA, mB, mids X hXn, (commonS_Xp X p q xp xq H.frX nX hp).2⟩
  have W2p := admW_right_tri_w IBCm Tm
  have W2q := admW_right_tri_w IBC Tb
  have eax : ∀ (Y : Arr R), Y.ndim = (freeAxes p.ndim xp).length + (freeAxes q.ndim xq).length →
      Assoc2P.axesBC q.ndim Y.ndim xq (freeAxes q.ndim xq)
        ((List.range (freeAxes q.ndim xq).length).map ((freeAxes p.ndim xp).length + ·))
        (List.range (freeAxes p.ndim xp).length) = axesTWr p.ndim q.ndim xp xq := by
    intro Y hY; unfold axesTWr; rw [hY]
  rw [eax Xm hXmn] at W2p
  rw [eax X hXn] at W2q
  obtain ⟨zp2, ezp2, pz2, oz2, _⟩ := pad_blockwise hz1 hz2 (Pad.refl hp) (pBCm.trans pz) W2p W2q
    rfl rfl (oBCm.trans oz) (cBCm.trans cz) c e2
  obtain ⟨cm, e2m, pcm, _, ocm, _⟩ := call_any hz1 hz2 p BCm _ _ W2p m2 zp2 ezp2
  have n1 : cm.ndim = 0 := pcm.ndim.trans (pz2.ndim.trans hc)
  exact ⟨BCm, cm, e1m, e2m, n1, ocm.trans oz2,
    by rw [pad_elem_nil pcm n1, pad_elem_nil pz2 (pz2.ndim.trans hc)]⟩

end anymode

end SymmModel.NormNet
