/-
  SymmModel.Proofs.FuseElem — target 7 of property C05 (one multi-axis group, insert strategy):
  the element of the fused array at (new sector, offsets) is the element of the original at the
  address obtained by `splitAddr` on the fused axis and un-permuting.
-/
import SymmModel.Proofs.FuseAll
namespace SymmModel
namespace FuseP
set_option linter.unusedSectionVars false

variable {R : Type}

/-! ### ravel over a grouped axis -/

theorem ravel_append {A B ia ib : List Nat} (h : ia.length = A.length) :
    ravel (A ++ B) (ia ++ ib) = ravel A ia * prod B + ravel B ib := by
  induction A generalizing ia with
  | nil =>
    have := List.eq_nil_of_length_eq_zero h; subst this
    simp [ravel]
  | cons d ds ih =>
    cases ia with
    | nil => simp at h
    | cons x xs =>
      simp only [List.cons_append, ravel]
      rw [ih (by simpa using h), prod_append, Nat.add_mul, Nat.mul_assoc, Nat.add_assoc]

theorem unravel_length (s : List Nat) (n : Nat) : (unravel s n).length = s.length := by
  induction s generalizing n with
  | nil => rfl
  | cons d ds ih => simp [unravel, ih]

/-- flat position under a grouped axis: offset `r` on one axis of size `prod M` equals the
    offsets `unravel M r` on axes of sizes `M` -/
theorem ravel_group {A M C ia ic : List Nat} {r : Nat} (ha : ia.length = A.length) (hr : r < prod M) :
    ravel (A ++ [prod M] ++ C) (ia ++ [r] ++ ic) = ravel (A ++ M ++ C) (ia ++ unravel M r ++ ic) := by
  rw [List.append_assoc, List.append_assoc, ravel_append ha, List.append_assoc, List.append_assoc,
    ravel_append ha]
  congr 1
  · rw [prod_append, prod_append]; simp [prod]
  · rw [ravel_append (A := [prod M]) (ia := [r]) (by simp),
      ravel_append (A := M) (ia := unravel M r) (unravel_length M r), ravel_unravel hr]
    simp [ravel, prod]

theorem list_split_at {α : Type} (i : List α) (p : Nat) (d : α) (hp : p < i.length) :
    i = i.take p ++ [i.getD p d] ++ i.drop (p + 1) := by
  have h1 : i.getD p d = i[p] := by simp [List.getD_eq_getElem?_getD, List.getElem?_eq_getElem hp]
  rw [h1]
  simp

theorem set_split_at {α : Type} (i : List α) (p : Nat) (v : α) (hp : p < i.length) :
    i.set p v = i.take p ++ [v] ++ i.drop (p + 1) := by
  simp [List.set_eq_take_append_cons_drop, hp]

theorem zipWith_sub_set {i : List Nat} {n p st : Nat} (hl : i.length = n) :
    List.zipWith (· - ·) i ((List.replicate n 0).set p st) = i.set p (i.getD p 0 - st) := by
  apply List.ext_getElem?
  intro k
  simp only [List.getElem?_zipWith, List.getElem?_set, List.getElem?_replicate, List.length_replicate]
  by_cases hk : k < n
  · have hk' : k < i.length := by omega
    rw [List.getElem?_eq_getElem hk']
    by_cases hpk : p = k
    · subst hpk
      simp [hk, hk', List.getD_eq_getElem?_getD]
    · simp [hpk, hk]
  · have hk' : ¬ k < i.length := by omega
    rw [List.getElem?_eq_none (Nat.le_of_not_lt hk')]
    by_cases hpk : p = k
    · subst hpk; simp [hk']
    · simp [hpk]

/-! ### transposeK at a permuted multi-index -/

theorem indexOf?_of_mem {perm : List Nat} {ax : Nat} (h : ax ∈ perm) :
    ∃ k, indexOf? perm ax = some k ∧ perm[k]? = some ax := by
  induction perm with
  | nil => simp at h
  | cons x xs ih =>
    simp only [indexOf?]
    by_cases hx : x == ax
    · exact ⟨0, by simp [hx], by simp [eq_of_beq hx]⟩
    · have hne : x ≠ ax := fun e => hx (by rw [e]; exact BEq.rfl)
      rcases List.mem_cons.1 h with h | h
      · exact absurd h.symm hne
      · obtain ⟨k, hk1, hk2⟩ := ih h
        exact ⟨k + 1, by simp [hx, hk1], by simpa using hk2⟩

theorem transposeK_get_permuted [Zero R] (b : Blk R) {perm offs : List Nat} {n : Nat}
    (hn : b.shape.length = n) (ho : offs.length = n) (hcover : ∀ ax, ax < n → ax ∈ perm)
    (hlt : ∀ p ∈ perm, p < n)
    (hbox : inBox (permuted b.shape perm) (permuted offs perm) = true) :
    (b.transposeK perm).get (permuted offs perm) = b.get offs := by
  unfold Blk.transposeK
  rw [ofFn_get _ hbox]
  congr 1
  rw [permuted_eq_map offs 0 perm (by rw [ho]; exact hlt)]
  apply List.ext_getElem
  · simp [hn, ho]
  · intro ax h1 h2
    simp only [List.length_map, List.length_range] at h1
    simp only [List.getElem_map, List.getElem_range]
    obtain ⟨k, hk1, hk2⟩ := indexOf?_of_mem (hcover ax (by omega))
    simp only [hk1]
    simp [List.getD_eq_getElem?_getD, List.getElem?_map, hk2, List.getElem?_eq_getElem h2]

/-! ### the element map -/

section One
variable {a : Arr R} {gaxes : List Nat} [Zero R]

/-- the box of a fused block, split at the fused axis -/
theorem fusedBox_split {A C i : List Nat} {D : Nat} (hi : inBox (A ++ [D] ++ C) i = true) :
    inBox A (i.take A.length) = true ∧ i.getD A.length 0 < D ∧ inBox C (i.drop (A.length + 1)) = true := by
  have hl := inBox_length hi
  simp only [List.length_append, List.length_cons, List.length_nil] at hl
  have hp : A.length < i.length := by omega
  rw [list_split_at i A.length 0 hp, inBox_append (by simp; omega),
    inBox_append (by simp; omega)] at hi
  simp only [Bool.and_eq_true, inBox, decide_eq_true_eq] at hi
  exact ⟨hi.1.1, hi.1.2.1, hi.2⟩

/-- **element map, block form**: the entry of a fused block at offsets `i` is the entry of the
    original block found by splitting the fused offset with the index's own table and
    un-permuting (zero when that sector is not stored) -/
theorem fused_get (hv : ValidArr a) (hok : GroupsOk [gaxes] a.ndim) (hlen : gaxes.length ≠ 1)
    {ns : Sector} {B : Blk R} (hB : alookup (fusedBlocks a gaxes) ns = some B)
    {i : List Nat} (hi : inBox B.shape i = true) :
    ∃ ss suboffs, splitAddr (fix1 a gaxes) (ns.getD (gi1 a gaxes).position (0, 0))
        (i.getD (gi1 a gaxes).position 0) = some (ss, suboffs) ∧
      ∀ s offs, s.length = a.ndim → offs.length = a.ndim →
        permuted s (gi1 a gaxes).perm = replaceWithSeq ns (gi1 a gaxes).position ss →
        permuted offs (gi1 a gaxes).perm = replaceWithSeq i (gi1 a gaxes).position suboffs →
        B.get i = (match alookup a.blocks s with
          | some b => b.get offs
          | none => 0) := by
  have hok' : GroupsOk [gaxes] a.duals.length := by rw [duals_length]; exact hok
  have hinv := fusedBlocks_inv hv hok hlen
  obtain ⟨sb0, hsb0, hns, _, hBs, hc⟩ := fusedBlock_info hv hok hlen (alookup_some_mem hB)
  simp only at hns hBs hc
  subst hns
  obtain ⟨e, D, st0, h1, _, h3, h4⟩ := stored_in_table hv hok hlen hsb0
  obtain ⟨_, _, hext⟩ := fix1_extent hv hok hlen h1
  have hD : DOf a gaxes (cOf a gaxes sb0.1) = D := by simp [DOf, h3]
  have hBl : B.shape.length = (newIndices1 a gaxes).length := by rw [hBs, fusedShape_length hok]
  have hil : i.length = (newIndices1 a gaxes).length := by rw [inBox_length hi, hBl]
  have hpl : (shPre a gaxes sb0.2.shape).length = (gi1 a gaxes).position := shPre_length hok _
  have hpos : (gi1 a gaxes).position < i.length := by rw [hil, newIndices1_length hok]; omega
  rw [hBs, hD] at hi
  obtain ⟨hipre, hip, hipost⟩ := fusedBox_split hi
  rw [hpl] at hipre hip hipost
  obtain ⟨ss, r, hso⟩ := splitOffset_some (ext := e) (o := i.getD (gi1 a gaxes).position 0)
    (by rw [h4]; exact hip)
  obtain ⟨st, d, hst, hr, hio⟩ := splitOffset_startOf hext.nodup hso
  obtain ⟨hssl, ⟨shpM, hshpM, hprod⟩, _⟩ := hext.entry ss d (startOf_mem hst)
  have h1u := h1
  unfold exts1 at h1u
  refine ⟨ss, unravel shpM r, by simp only [splitAddr, fix1_sub, hc, h1u, hso, hshpM], ?_⟩
  intro s offs hsl hol hK hJ
  by_cases hstored : ∃ sb ∈ a.blocks, sb.1 = s
  · obtain ⟨sb, hsb, rfl⟩ := hstored
    rw [alookup_of_mem_nodup hv.nodup hsb]
    simp only
    obtain ⟨hns', hss'⟩ := key_analysis hv hok hlen hsb h1 hst hK.symm
    have hbox' : inBox (shapeOf1 a gaxes (nsOf a gaxes sb.1)) i = true := by
      rw [hns', ← hinv.shape _ B hB, hBs, hD]; exact hi
    obtain ⟨e', D', st', h1', h2', _, _⟩ := stored_in_table hv hok hlen hsb
    rw [cOf_of_ns hok hns', h1] at h1'
    simp only [Option.some.injEq] at h1'; subst h1'
    rw [hss', hst] at h2'
    simp only [Option.some.injEq, Prod.mk.injEq] at h2'
    obtain ⟨rfl, hdd⟩ := h2'
    have hstq : stOf a gaxes sb.1 = st := by simp [stOf, cOf_of_ns hok hns', h1, hss', hst]
    have hreg := (toItem_region hv hok hlen hsb hbox').2 (by rw [hstq, ← hdd]; omega)
    have hget := hinv.hit _ B (by show alookup _ (nsOf a gaxes sb.1) = _; rw [hns']; exact hB) (toItem a gaxes sb) (List.mem_map.2 ⟨sb, hsb, rfl⟩) rfl
      i hbox' hreg
    rw [hget]
    -- the source block read at `i` with the fused offset made relative
    have hstarts : (toItem a gaxes sb).2.1
        = (List.replicate (newIndices1 a gaxes).length 0).set (gi1 a gaxes).position st := by
      simp only [toItem, hstq]
    rw [hstarts, zipWith_sub_set hil]
    have hrel : i.getD (gi1 a gaxes).position 0 - st = r := by omega
    rw [hrel, set_split_at i _ r hpos]
    -- shapes
    have hshape := blockShape?_length (hv.blk sb hsb).2.1
    have hl : sb.2.shape.length = a.ndim := by rw [hshape.2]; exact (hv.blk sb hsb).1
    have hM : shpM = shMid gaxes sb.2.shape := by
      have := blockShape?_map (hv.blk sb hsb).2.1 gaxes (gaxes_lt hok)
      have hss'' : ssOf gaxes sb.1 = ss := hss'
      simp only [ssOf] at hss''
      rw [hss''] at this
      have h5 : Arr.blockShape? (subs1 a gaxes) ss = some shpM := hshpM
      simp only [subs1] at h5
      rw [this] at h5
      simp only [Option.some.injEq] at h5
      exact h5.symm
    subst hM
    -- pre/post shapes of `sb` and `sb0` agree (same fused block)
    have hshapes : shPre a gaxes sb.2.shape = shPre a gaxes sb0.2.shape
        ∧ shPost a gaxes sb.2.shape = shPost a gaxes sb0.2.shape := by
      have e1 := shapeOf1_stored hv hok hlen hsb
      have e2 := shapeOf1_stored hv hok hlen hsb0
      rw [hns', e2] at e1
      simp only [Option.some.injEq, List.append_assoc] at e1
      have := List.append_inj e1 (by rw [shPre_length hok, shPre_length hok])
      have h6 := this.2
      simp only [List.singleton_append, List.cons.injEq] at h6
      exact ⟨this.1.symm, h6.2.symm⟩
    have hJ' : permuted offs (gi1 a gaxes).perm
        = i.take (gi1 a gaxes).position ++ unravel (shMid gaxes sb.2.shape) r ++ i.drop ((gi1 a gaxes).position + 1) := by
      rw [hJ]; rfl
    have htl : (i.take (gi1 a gaxes).position).length = (shPre a gaxes sb.2.shape).length := by
      rw [shPre_length hok, List.length_take]; omega
    have hrp : r < prod (shMid gaxes sb.2.shape) := by rw [hprod]; exact hr
    have hsrc : (toItem a gaxes sb).2.2.get (i.take (gi1 a gaxes).position ++ [r] ++ i.drop ((gi1 a gaxes).position + 1))
        = (sb.2.transposeK (gi1 a gaxes).perm).get (permuted offs (gi1 a gaxes).perm) := by
      rw [hJ']
      simp only [toItem, Blk.reshapeK, Blk.get]
      have hT : (sb.2.transposeK (gi1 a gaxes).perm).shape = permuted sb.2.shape (gi1 a gaxes).perm := rfl
      rw [hT, permuted_shape hok hl, newShapeOf, ravel_group htl hrp]
    rw [hsrc]
    apply transposeK_get_permuted sb.2 hl hol
    · intro ax hax; rw [mem_perm hok', duals_length]; exact hax
    · intro p hp; rw [← duals_length]; exact (mem_perm hok').1 hp
    · rw [hJ', permuted_shape hok hl, inBox_append (by simp [htl, unravel_length]),
        inBox_append htl, hshapes.1, hshapes.2, hipre, hipost, unravel_inBox hrp]
      rfl
  · -- the sector is not stored: the fused entry was never written
    have hnone : alookup a.blocks s = none := by
      rw [alookup_eq_none_iff]
      intro hm
      obtain ⟨sb, hsb, rfl⟩ := List.mem_map.1 hm
      exact hstored ⟨sb, hsb, rfl⟩
    rw [hnone]
    simp only
    have hbox0 : inBox (shapeOf1 a gaxes (nsOf a gaxes sb0.1)) i = true := by
      rw [← hinv.shape _ B hB, hBs, hD]; exact hi
    apply hinv.miss _ B hB i hbox0
    intro it hit hkey
    obtain ⟨sb, hsb, rfl⟩ := List.mem_map.1 hit
    have hkey' : nsOf a gaxes sb.1 = nsOf a gaxes sb0.1 := hkey
    cases hreg : inRegion (toItem a gaxes sb).2.1 (toItem a gaxes sb).2.2.shape i with
    | false => rfl
    | true =>
      exfalso
      have hbox' : inBox (shapeOf1 a gaxes (nsOf a gaxes sb.1)) i = true := by rw [hkey']; exact hbox0
      have hrg := (toItem_region hv hok hlen hsb hbox').1 hreg
      obtain ⟨e', D', st', h1', h2', _, _⟩ := stored_in_table hv hok hlen hsb
      rw [cOf_of_ns hok hkey', h1] at h1'
      simp only [Option.some.injEq] at h1'; subst h1'
      have hstq : stOf a gaxes sb.1 = st' := by simp [stOf, cOf_of_ns hok hkey', h1, h2']
      rw [hstq] at hrg
      have hsseq : ssOf gaxes sb.1 = ss := by
        by_cases hq : ssOf gaxes sb.1 = ss
        · exact hq
        · have := startOf_disjoint h2' hst hq; omega
      apply hstored
      refine ⟨sb, hsb, ?_⟩
      have hperm : permuted sb.1 (gi1 a gaxes).perm = permuted s (gi1 a gaxes).perm := by
        rw [hK, permuted_sector hok (hv.blk sb hsb).1, ← hkey', replaceWithSeq_ns hok, hsseq]
      apply sector_ext (hv.blk sb hsb).1 hsl (perm := (gi1 a gaxes).perm)
      · intro ax hax; rw [mem_perm hok', duals_length]; exact hax
      · have hlt1 : ∀ p ∈ (gi1 a gaxes).perm, p < sb.1.length := by
          intro p hp; rw [(hv.blk sb hsb).1, ← duals_length]; exact (mem_perm hok').1 hp
        have hlt2 : ∀ p ∈ (gi1 a gaxes).perm, p < s.length := by
          intro p hp; rw [hsl, ← duals_length]; exact (mem_perm hok').1 hp
        rw [permuted_eq_map _ (0, 0) _ hlt1, permuted_eq_map _ (0, 0) _ hlt2] at hperm
        exact fun ax hax => List.map_inj_left.1 hperm ax hax

/-- **onto**: every stored address of the original has a fused address that `splitAddr` maps back
    to it -/
theorem fused_onto (hv : ValidArr a) (hok : GroupsOk [gaxes] a.ndim) (hlen : gaxes.length ≠ 1)
    {sb : Sector × Blk R} (hsb : sb ∈ a.blocks) {offs : List Nat} (ho : inBox sb.2.shape offs = true) :
    ∃ B i, alookup (fusedBlocks a gaxes) (nsOf a gaxes sb.1) = some B ∧ inBox B.shape i = true
      ∧ splitAddr (fix1 a gaxes) ((nsOf a gaxes sb.1).getD (gi1 a gaxes).position (0, 0))
          (i.getD (gi1 a gaxes).position 0)
          = some (ssOf gaxes sb.1, gaxes.map (fun ax => offs.getD ax 0))
      ∧ permuted sb.1 (gi1 a gaxes).perm
          = replaceWithSeq (nsOf a gaxes sb.1) (gi1 a gaxes).position (ssOf gaxes sb.1)
      ∧ permuted offs (gi1 a gaxes).perm
          = replaceWithSeq i (gi1 a gaxes).position (gaxes.map (fun ax => offs.getD ax 0)) := by
  have hinv := fusedBlocks_inv hv hok hlen
  have hshape := blockShape?_length (hv.blk sb hsb).2.1
  have hl : sb.2.shape.length = a.ndim := by rw [hshape.2]; exact (hv.blk sb hsb).1
  have hol : offs.length = a.ndim := by rw [inBox_length ho, hl]
  have hkey : nsOf a gaxes sb.1 ∈ (fusedBlocks a gaxes).map (·.1) := by
    rw [hinv.keys]; simp only [List.map_map]; exact List.mem_map.2 ⟨sb, hsb, rfl⟩
  obtain ⟨B, hB⟩ := Option.isSome_iff_exists.1 (alookup_isSome_iff.2 hkey)
  have hBs : B.shape = shPre a gaxes sb.2.shape ++ [DOf a gaxes (cOf a gaxes sb.1)] ++ shPost a gaxes sb.2.shape := by
    rw [hinv.shape _ B hB]; simp [shapeOf1, shapeOf1_stored hv hok hlen hsb]
  obtain ⟨e, D, st, h1, h2, h3, h4⟩ := stored_in_table hv hok hlen hsb
  have hD : DOf a gaxes (cOf a gaxes sb.1) = D := by simp [DOf, h3]
  -- the permuted offsets, split like the permuted shape
  have hb : ∀ ax ∈ (gi1 a gaxes).axesBefore, ax < offs.length := by
    intro ax h; rw [hol]; exact before_lt hok ax h
  have ha : ∀ ax ∈ (gi1 a gaxes).axesAfter, ax < offs.length := by
    intro ax h; rw [hol]; exact after_lt ax h
  have hg : ∀ ax ∈ gaxes, ax < offs.length := by
    intro ax h; rw [hol]; exact gaxes_lt hok ax h
  have hperm : permuted offs (gi1 a gaxes).perm
      = (gi1 a gaxes).axesBefore.map (fun ax => offs.getD ax 0) ++ gaxes.map (fun ax => offs.getD ax 0)
        ++ (gi1 a gaxes).axesAfter.map (fun ax => offs.getD ax 0) := by
    rw [perm_eq, permuted_append, permuted_append]
    simp only [List.flatten_cons, List.flatten_nil, List.append_nil]
    rw [permuted_eq_map _ 0 _ hb, permuted_eq_map _ 0 _ ha, permuted_eq_map _ 0 _ hg]
  -- pointwise bounds
  have hpt : ∀ axes : List Nat, (∀ ax ∈ axes, ax < sb.2.shape.length) →
      inBox (axes.map (fun ax => sb.2.shape.getD ax 0)) (axes.map (fun ax => offs.getD ax 0)) = true := by
    intro axes hax
    induction axes with
    | nil => rfl
    | cons x xs ih =>
      simp only [List.map_cons, inBox_cons]
      exact ⟨(inBox_iff.1 ho).2 x (hax x (by simp)), ih (fun y hy => hax y (List.mem_cons_of_mem _ hy))⟩
  have hlb : ∀ ax ∈ (gi1 a gaxes).axesBefore, ax < sb.2.shape.length := by
    intro ax h; rw [hl]; exact before_lt hok ax h
  have hla : ∀ ax ∈ (gi1 a gaxes).axesAfter, ax < sb.2.shape.length := by
    intro ax h; rw [hl]; exact after_lt ax h
  have hlg : ∀ ax ∈ gaxes, ax < sb.2.shape.length := by
    intro ax h; rw [hl]; exact gaxes_lt hok ax h
  have hmid := hpt gaxes hlg
  have hrv : ravel (shMid gaxes sb.2.shape) (gaxes.map (fun ax => offs.getD ax 0))
      < prod (shMid gaxes sb.2.shape) := ravel_lt hmid
  have hpl : ((gi1 a gaxes).axesBefore.map (fun ax => offs.getD ax 0)).length = (gi1 a gaxes).position := by
    rw [List.length_map, axesBefore_length (by rw [duals_length]; exact hok)]
  refine ⟨B, (gi1 a gaxes).axesBefore.map (fun ax => offs.getD ax 0)
      ++ [st + ravel (shMid gaxes sb.2.shape) (gaxes.map (fun ax => offs.getD ax 0))]
      ++ (gi1 a gaxes).axesAfter.map (fun ax => offs.getD ax 0), hB, ?_, ?_, ?_, ?_⟩
  · rw [hBs, hD, inBox_append (by simp [shPre]), inBox_append (by simp [shPre])]
    simp only [shPre, shPost, hpt _ hlb, hpt _ hla, inBox, Bool.and_true, Bool.true_and, decide_eq_true_eq]
    have := startOf_bound h2
    rw [h4] at this
    omega
  · have hget : ((gi1 a gaxes).axesBefore.map (fun ax => offs.getD ax 0)
        ++ [st + ravel (shMid gaxes sb.2.shape) (gaxes.map (fun ax => offs.getD ax 0))]
        ++ (gi1 a gaxes).axesAfter.map (fun ax => offs.getD ax 0)).getD (gi1 a gaxes).position 0
        = st + ravel (shMid gaxes sb.2.shape) (gaxes.map (fun ax => offs.getD ax 0)) := by
      rw [← hpl]; simp
    rw [hget, nsOf_getD_pos hok]
    apply splitAddr_joinAddr
    have hbs : Arr.blockShape? (subs1 a gaxes) (ssOf gaxes sb.1) = some (shMid gaxes sb.2.shape) :=
      blockShape?_map (hv.blk sb hsb).2.1 gaxes (gaxes_lt hok)
    have h1u := h1
    unfold exts1 at h1u
    have hmid' : inBox (shMid gaxes sb.2.shape) (gaxes.map (fun ax => offs.getD ax 0)) = true := hmid
    simp only [joinAddr, fix1_sub, h1u, hbs, hmid', if_true, joinOffset, h2, hrv]
  · rw [replaceWithSeq_ns hok, permuted_sector hok (hv.blk sb hsb).1]
  · rw [hperm, ← hpl, replaceWithSeq_mid]

end One

end FuseP
end SymmModel
