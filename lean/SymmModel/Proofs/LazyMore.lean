/-
  SymmModel.Proofs.LazyMore — second helper file for property C09 ("every operation gives equal
  results on an array and on its sign-synchronised copy"): the operations not covered by
  Proofs/LazyLemmas.lean.  Namespace `SymmModel.Lazy` (continued).  Nothing here changes a model
  definition; `syncF`, `sumF`, `mapF`, `reduceF` transcribe the repaired reductions / unary maps
  of the library (the driver's "sum" case is `sumF`).
-/
import SymmModel.Proofs.LazyLemmas
import SymmModel.Props.C12
import SymmModel.Props.C11
import SymmModel.Props.C08b
import SymmModel.Proofs.ValidMore
import SymmModel.Props.C02b
namespace SymmModel.Lazy
open SymmModel
set_option linter.unusedSectionVars false

/-! ## 1. reductions and unary maps as the repaired library performs them: synchronise first -/
section syncfirst1
variable {R : Type} [Zero R] [Neg R]

/-- `FermionicArray._do_reduction / _do_unary_op / clip` (commit 9260944): a fermionic array is
    synchronised before its blocks are read; an abelian array is used as is -/
def syncF (a : Arr R) : Arr R := if a.fermi then a.phaseSync else a

/-- `x.sum()` exactly as the driver's "sum" case computes it -/
def sumF [Add R] (a : Arr R) : R :=
  (syncF a).blocks.foldl (fun acc (_, b) => acc + b.sumAll) 0

/-- `x.abs()`, `x.sqrt()`, `x.clip(lo, hi)`, … : any elementwise map of the stored numbers of the
    synchronised array -/
def mapF (f : R → R) (a : Arr R) : Arr R :=
  { syncF a with blocks := (syncF a).blocks.map (fun (k, b) => (k, b.map f)) }

/-- `x.max()`, `x.min()`, … : fold a per-block reduction `g` with `op` over the blocks -/
def reduceF {S : Type} (g : Blk R → S) (op : S → S → S) (e : S) (a : Arr R) : S :=
  (syncF a).blocks.foldl (fun acc (_, b) => op acc (g b)) e

/-- observationally equal valid fermionic arrays are synchronised to the same data -/
theorem syncF_congr [LawfulNeg R] {a a' : Arr R} (h : ObsEq a a') (fa : Full a) (fa' : Full a')
    (hf : a.fermi = true) : syncF a = syncF a' := by
  unfold syncF
  rw [← h.fermi, hf]
  exact canon h fa fa'

/-- **every function of the synchronised array** — in particular every reduction and every unary
    map, for ARBITRARY `f` (no oddness needed) — gives identical results on observationally
    equal arrays -/
theorem syncFirst_congr [LawfulNeg R] {α : Type} (F : Arr R → α) {a a' : Arr R} (h : ObsEq a a')
    (fa : Full a) (fa' : Full a') (hf : a.fermi = true) : F (syncF a) = F (syncF a') := by
  rw [syncF_congr h fa fa' hf]

theorem sumF_congr [Add R] [LawfulNeg R] {a a' : Arr R} (h : ObsEq a a') (fa : Full a)
    (fa' : Full a') (hf : a.fermi = true) : sumF a = sumF a' := by
  unfold sumF; rw [syncF_congr h fa fa' hf]

theorem mapF_congr [LawfulNeg R] (f : R → R) {a a' : Arr R} (h : ObsEq a a') (fa : Full a)
    (fa' : Full a') (hf : a.fermi = true) : mapF f a = mapF f a' := by
  unfold mapF; rw [syncF_congr h fa fa' hf]

theorem reduceF_congr [LawfulNeg R] {S : Type} (g : Blk R → S) (op : S → S → S) (e : S)
    {a a' : Arr R} (h : ObsEq a a') (fa : Full a) (fa' : Full a') (hf : a.fermi = true) :
    reduceF g op e a = reduceF g op e a' := by
  unfold reduceF; rw [syncF_congr h fa fa' hf]

theorem phaseSync_of_nil (a : Arr R) (h : a.phases = []) : a.phaseSync = a := by
  have hb : a.phaseSync.blocks = a.blocks := by
    rw [phaseSync_blocks_eq]
    conv_rhs => rw [← List.map_id a.blocks]
    apply List.map_congr_left
    intro p _
    simp [syncBlk, h, phOf]
  exact arr_ext rfl rfl rfl rfl hb h.symm rfl

/-- on a fermionic array and on its synchronised copy the synchronised data are the same — no
    hypothesis on the array -/
theorem syncF_sync (a : Arr R) (hf : a.fermi = true) : syncF a.phaseSync = syncF a := by
  unfold syncF
  show (if a.fermi = true then a.phaseSync.phaseSync else a.phaseSync) = _
  rw [hf]; exact phaseSync_idem a

theorem sumF_sync [Add R] (a : Arr R) (hf : a.fermi = true) : sumF a.phaseSync = sumF a := by
  unfold sumF; rw [syncF_sync a hf]

theorem mapF_sync (f : R → R) (a : Arr R) (hf : a.fermi = true) : mapF f a.phaseSync = mapF f a := by
  unfold mapF; rw [syncF_sync a hf]

theorem reduceF_sync {S : Type} (g : Blk R → S) (op : S → S → S) (e : S) (a : Arr R)
    (hf : a.fermi = true) : reduceF g op e a.phaseSync = reduceF g op e a := by
  unfold reduceF; rw [syncF_sync a hf]

/-- the repaired `mapF` is the unrepaired `mapVals` after synchronising; its value view is `f` of
    the value view whenever `f 0 = 0` — for EVERY such `f` (even ones like `abs` included) -/
theorem mapF_elem [LawfulNeg R] (f : R → R) (hf0 : f 0 = 0) (a : Arr R) (hf : a.fermi = true)
    (s : Sector) (off : List Nat) : (mapF f a).elem s off = f (a.elem s off) := by
  have e : mapF f a = mapVals f a.phaseSync := by unfold mapF syncF; rw [hf]; rfl
  rw [e, ← phaseSync_elem a s off, elem_eq, elem_eq]
  show (match alookup (a.phaseSync.blocks.map (fun p => (p.1, (fun _ b => Blk.map f b) p.1 p.2))) s with
      | none => 0
      | some b => sgnI (phOf [] s) (b.get off)) = _
  rw [alookup_map_val (fun _ b => Blk.map f b)]
  cases alookup a.phaseSync.blocks s with
  | none => exact hf0.symm
  | some b => simp [Blk.get_map f hf0, phOf, alookup, phaseSync_phases]

end syncfirst1

section sumdense
variable {R : Type} [AddCommMonoid R] [Neg R]

/-- **the repaired `sum` is the sum of the dense value** (pending signs applied) -/
theorem sumF_dense [LawfulNeg R] (a : Arr R) (hv : a.validB = true) (hf : a.fermi = true)
    (hne : C08.NoEmpty a) (d : Blk R) (hd : a.toDenseF = .ok d) : sumF a = d.sumAll := by
  have hv' := LinalgLemmas.phaseSync_valid a hv
  obtain ⟨h1, h2, _, _, _, _⟩ := SymmModel.validB_facts a.phaseSync hv'
  have : syncF a = a.phaseSync := by unfold syncF; rw [hf]; rfl
  unfold sumF; rw [this]
  exact C08.sum_toDense a.phaseSync rfl hne h1 h2 (DenseP.validB_wf hv') d hd

end sumdense

/-! ### the block-data norm -/
section norm2
variable {R S : Type} [Zero R] [Neg R] [Zero S] [Add S]

/-- `norm2` (sum of `nsq` over the stored data, `nsq` even) does not see pending signs -/
theorem normSq2_congr [LawfulNeg R] (nsq : R → S) (hneg : ∀ x, nsq (-x) = nsq x) {a a' : Arr R}
    (h : ObsEq a a') (fa : Full a) (fa' : Full a') :
    C12.normSq2 nsq a = C12.normSq2 nsq a' := by
  rw [← C12.norm_sq_phaseSync nsq hneg a, ← C12.norm_sq_phaseSync nsq hneg a', canon h fa fa']

end norm2
/-! ## 2. decompositions -/
section linalg
variable {R : Type} [Zero R] [Neg R]

/-- the conditional synchronisation at the head of `eigh_fermionic` / `solve_fermionic` -/
theorem condSync_eq (a : Arr R) (hf : a.fermi = true) :
    (if a.fermi && !a.phases.isEmpty then a.phaseSync else a) = a.phaseSync := by
  rw [hf]
  cases hp : a.phases with
  | nil => simp; exact (phaseSync_of_nil a hp).symm
  | cons x xs => simp

/-- **`eigh` synchronises first**: identical results on a fermionic array and its synchronised copy -/
theorem eighA_sync (K : Kernels R) (a : Arr R) (hf : a.fermi = true) :
    eighA K a = eighA K a.phaseSync := by
  have h1 := condSync_eq a hf
  have h2 : (if a.phaseSync.fermi && !a.phaseSync.phases.isEmpty then a.phaseSync.phaseSync
      else a.phaseSync) = a.phaseSync := by
    show (if a.fermi && !([] : List (Sector × Int)).isEmpty then _ else _) = _
    simp
  unfold eighA
  simp only [h1, h2]

theorem eighA_congr [LawfulNeg R] (K : Kernels R) {a a' : Arr R} (h : ObsEq a a') (fa : Full a)
    (fa' : Full a') (hf : a.fermi = true) : eighA K a = eighA K a' := by
  rw [eighA_sync K a hf, eighA_sync K a' (h.fermi ▸ hf), canon h fa fa']

/-- **`solve` synchronises both operands first** -/
theorem solveA_sync (K : Kernels R) (a b : Arr R) (hfa : a.fermi = true) (hfb : b.fermi = true) :
    solveA K a b = solveA K a.phaseSync b.phaseSync := by
  have h1 := condSync_eq a hfa
  have h2 : (if a.phaseSync.fermi && !a.phaseSync.phases.isEmpty then a.phaseSync.phaseSync
      else a.phaseSync) = a.phaseSync := by
    show (if a.fermi && !([] : List (Sector × Int)).isEmpty then _ else _) = _
    simp
  have h3 : (if a.phaseSync.fermi && !b.phases.isEmpty then b.phaseSync else b) = b.phaseSync := by
    show (if a.fermi && !b.phases.isEmpty then b.phaseSync else b) = b.phaseSync
    have := condSync_eq b hfb
    rw [hfb] at this; rw [hfa]; exact this
  have h4 : (if a.phaseSync.fermi && !b.phaseSync.phases.isEmpty then b.phaseSync.phaseSync
      else b.phaseSync) = b.phaseSync := by
    show (if a.fermi && !([] : List (Sector × Int)).isEmpty then _ else _) = _
    simp
  unfold solveA
  simp only [h1, h2, h3, h4]

theorem solveA_congr [LawfulNeg R] (K : Kernels R) {a a' b b' : Arr R} (ha : ObsEq a a')
    (hb : ObsEq b b') (fa : Full a) (fa' : Full a') (fb : Full b) (fb' : Full b')
    (hfa : a.fermi = true) (hfb : b.fermi = true) : solveA K a b = solveA K a' b' := by
  rw [solveA_sync K a b hfa hfb, solveA_sync K a' b' (ha.fermi ▸ hfa) (hb.fermi ▸ hfb),
    canon ha fa fa', canon hb fb fb']

/-- the singular values a kernel returns do not change when the block is negated (true of every
    SVD: `-b = (-U) s Vh`) -/
def SvdSignInvariant (K : Kernels R) : Prop := ∀ b : Blk R, (K.svd b.negK).2.1 = (K.svd b).2.1

/-- the singular values `svd` stores (charge ↦ vector), as data -/
def svdVals (K : Kernels R) (x : Arr R) : Except Err (BVec R) := (svdA K x).map (fun r => r.2.1)

theorem svdVals_eq (K : Kernels R) (x : Arr R) :
    svdVals K x = if x.ndim != 2 then .error Err.notimpl
      else .ok ⟨adict (x.blocks.map (fun p => (p.1.getD 1 (0, 0), (K.svd p.2).2.1)))⟩ := by
  unfold svdVals svdA
  split
  · rfl
  · simp only [Except.map, pure, Except.pure, List.map_map]
    rfl

/-- **singular values do not see pending signs**: the same on an array and on its synchronised copy -/
theorem svdVals_sync (K : Kernels R) (hK : SvdSignInvariant K) (x : Arr R) :
    svdVals K x.phaseSync = svdVals K x := by
  rw [svdVals_eq, svdVals_eq]
  show (if x.ndim != 2 then _ else _) = _
  congr 3
  rw [phaseSync_blocks_eq, List.map_map]
  congr 1
  apply List.map_congr_left
  intro p _
  simp only [Function.comp, syncBlk]
  split
  · rw [hK]
  · rfl

theorem svdVals_congr [LawfulNeg R] (K : Kernels R) (hK : SvdSignInvariant K) {a a' : Arr R}
    (h : ObsEq a a') (fa : Full a) (fa' : Full a') : svdVals K a = svdVals K a' := by
  rw [← svdVals_sync K hK a, ← svdVals_sync K hK a', canon h fa fa']

end linalg

section recon
variable {R : Type} [Zero R] [Add R] [Mul R] [Neg R] [NegLaws R] [LawfulNeg R]

theorem addrOf_sync {x : Arr R} {s : Sector} {off : List Nat} (h : LinalgLemmas.AddrOf x s off) :
    LinalgLemmas.AddrOf x.phaseSync s off := by
  rcases h with h | ⟨b, hb, ho⟩
  · left; rw [phaseSync_sectors]; exact h
  · right
    refine ⟨syncBlk x s b, ?_, ?_⟩
    · rw [phaseSync_blocks_eq]
      exact List.mem_map.mpr ⟨(s, b), hb, rfl⟩
    · have : (syncBlk x s b).shape = b.shape := by unfold syncBlk; split <;> rfl
      rw [this]; exact ho

/-- **QR on an array and on its synchronised copy reconstruct the same value**: under the shape
    and value contracts of the QR kernel, both `q @ r` succeed, carry the same label and agree at
    every address (each equals the value view of `x`) -/
theorem qr_recon_sync (K : Kernels R) (hK : K.ShapeOk) (hC : K.QRContract) (x : Arr R)
    (hv : x.validB = true) (h2 : x.ndim = 2) (hf : x.fermi = true) (hodd : x.oddpos.length ≤ 1) :
    ∃ q r y q' r' y', qrA K x = .ok (q, r) ∧ Arr.matmulF q r = .ok y
      ∧ qrA K x.phaseSync = .ok (q', r') ∧ Arr.matmulF q' r' = .ok y'
      ∧ y.oddpos = y'.oddpos
      ∧ ∀ s off, LinalgLemmas.AddrOf x s off → y.elem s off = y'.elem s off := by
  obtain ⟨q, r, y, e1, e2, e3, e4⟩ := C11.qr_reconstructs_fermionic K hK hC x hv h2 hf hodd
  obtain ⟨q', r', y', g1, g2, g3, g4⟩ := C11.qr_reconstructs_fermionic K hK hC x.phaseSync
    (LinalgLemmas.phaseSync_valid x hv) h2 hf hodd
  refine ⟨q, r, y, q', r', y', e1, e2, g1, g2, e3.trans g3.symm, fun s off ha => ?_⟩
  rw [e4 s off ha, g4 s off (addrOf_sync ha), phaseSync_elem]

/-- likewise for `(U · diag s) @ VH` -/
theorem svd_recon_sync (K : Kernels R) (hK : K.ShapeOk) (hC : K.SVDContract) (x : Arr R)
    (hv : x.validB = true) (h2 : x.ndim = 2) (hf : x.fermi = true) (hodd : x.oddpos.length ≤ 1) :
    ∃ u s vh y u' s' vh' y', svdA K x = .ok (u, s, vh)
      ∧ Arr.matmulF (multiplyDiagonal u s 1) vh = .ok y
      ∧ svdA K x.phaseSync = .ok (u', s', vh')
      ∧ Arr.matmulF (multiplyDiagonal u' s' 1) vh' = .ok y'
      ∧ y.oddpos = y'.oddpos
      ∧ ∀ sec off, LinalgLemmas.AddrOf x sec off → y.elem sec off = y'.elem sec off := by
  obtain ⟨u, s, vh, y, e1, e2, e3, e4⟩ := C11.svd_reconstructs_fermionic K hK hC x hv h2 hf hodd
  obtain ⟨u', s', vh', y', g1, g2, g3, g4⟩ := C11.svd_reconstructs_fermionic K hK hC x.phaseSync
    (LinalgLemmas.phaseSync_valid x hv) h2 hf hodd
  refine ⟨u, s, vh, y, u', s', vh', y', e1, e2, g1, g2, e3.trans g3.symm, fun sec off ha => ?_⟩
  rw [e4 sec off ha, g4 sec off (addrOf_sync ha), phaseSync_elem]

end recon
/-! ## 3. `_map_blocks`: `squeeze`, `expand_dims` -/
section mapblocks
variable {R : Type} [Zero R] [Neg R]

/-- results that are both errors of the same kind or both values related by `r` -/
def ExceptRel {α : Type} (r : α → α → Prop) : Except Err α → Except Err α → Prop
  | .ok x, .ok y => r x y
  | .error e, .error e' => e = e'
  | _, _ => False

theorem ExceptRel.of_eq {α : Type} {r : α → α → Prop} (hr : ∀ x, r x x) {x y : Except Err α}
    (h : x = y) : ExceptRel r x y := by
  subst h; cases x with
  | ok v => exact hr v
  | error e => rfl

omit [Zero R] [Neg R] in
/-- lookup in a sub-list selected by a predicate on the key, at a key that satisfies it -/
theorem alookup_filter_fst {κ β : Type} [BEq κ] [LawfulBEq κ] (q : κ → Bool) (l : List (κ × β))
    (k : κ) (hk : q k = true) : alookup (l.filter (fun p => q p.1)) k = alookup l k := by
  induction l with
  | nil => rfl
  | cons p l ih =>
    obtain ⟨k1, v1⟩ := p
    by_cases h : k1 = k
    · subst h; simp [List.filter, hk, alookup]
    · have h1 : (k1 == k) = false := by simpa using h
      cases hq : q k1 <;> simp [List.filter, hq, alookup, h1, ih]

/-- the entries of the sign table that `_map_blocks` re-keys: those of stored blocks -/
def livePhases (a : Arr R) : List (Sector × Int) :=
  a.phases.filter (fun p => (alookup a.blocks p.1).isSome)

omit [Zero R] [Neg R] in
theorem livePhases_keys_stored (a : Arr R) : ∀ k ∈ akeys (livePhases a), k ∈ a.sectors := by
  intro k hk
  obtain ⟨p, hp, rfl⟩ := List.mem_map.mp hk
  exact alookup_isSome_iff.mp (List.mem_filter.mp hp).2

omit [Zero R] [Neg R] in
theorem livePhases_nodup {a : Arr R} (h : PhOk a.phases) : (akeys (livePhases a)).Nodup :=
  List.Nodup.sublist (List.Sublist.map _ List.filter_sublist) h.1

omit [Zero R] [Neg R] in
/-- at a stored sector the live part of the sign table answers like the whole table -/
theorem phOf_livePhases (a : Arr R) {s : Sector} (hs : s ∈ a.sectors) :
    phOf (livePhases a) s = phOf a.phases s := by
  unfold phOf livePhases
  rw [alookup_filter_fst (fun k => (alookup a.blocks k).isSome) a.phases s
    (alookup_isSome_iff.mpr hs)]

/-- **`_map_blocks` on an array and on its synchronised copy.**  `fs` re-keys sectors (and the
    sign entries of the stored blocks; entries of sectors without a block are discarded), `fb`
    maps blocks.  If `fs` is injective on the stored sectors and `fb` commutes with negation, the
    two results are observationally equal — whatever else the sign table holds. -/
theorem mapBlocks_sync_obsEq [LawfulNeg R] (a : Arr R) (fs : Sector → Sector) (fb : Blk R → Blk R)
    (hf : a.fermi = true) (h : SignOk a)
    (hinj : ∀ k1 k2, k1 ∈ a.sectors → k2 ∈ a.sectors → fs k1 = fs k2 → k1 = k2)
    (hneg : ∀ b, fb b.negK = (fb b).negK) :
    ObsEq (a.mapBlocks fs fb) (a.phaseSync.mapBlocks fs fb) := by
  -- blocks
  have hnodupB : (akeys (a.blocks.map (fun p => (fs p.1, fb p.2)))).Nodup := by
    rw [akeys_map_key fs fb]
    exact List.Nodup.map_on (fun x hx y hy e => hinj x y hx hy e) h.sectors
  have hB : (a.mapBlocks fs fb).blocks = a.blocks.map (fun p => (fs p.1, fb p.2)) :=
    adict_eq_self hnodupB
  have hsyncmap : a.phaseSync.blocks.map (fun p => (fs p.1, fb p.2))
      = a.blocks.map (fun p => (fs p.1, if phOf a.phases p.1 = -1 then (fb p.2).negK else fb p.2)) := by
    rw [phaseSync_blocks_eq, List.map_map]
    apply List.map_congr_left
    intro p _
    simp only [Function.comp, syncBlk]
    split
    · rw [hneg]
    · rfl
  have hnodupB' : (akeys (a.phaseSync.blocks.map (fun p => (fs p.1, fb p.2)))).Nodup := by
    rw [akeys_map_key fs fb]
    have : akeys a.phaseSync.blocks = a.sectors := phaseSync_sectors a
    rw [this]
    exact List.Nodup.map_on (fun x hx y hy e => hinj x y hx hy e) h.sectors
  have hB' : (a.phaseSync.mapBlocks fs fb).blocks
      = a.blocks.map (fun p => (fs p.1, if phOf a.phases p.1 = -1 then (fb p.2).negK else fb p.2)) := by
    rw [← hsyncmap]; exact adict_eq_self hnodupB'
  -- phases: only the live entries are re-keyed
  have hlive := livePhases_keys_stored a
  have hP : (a.mapBlocks fs fb).phases = (livePhases a).map (fun p => (fs p.1, id p.2)) := by
    show (if a.fermi then adict ((a.phases.filter (fun (s, _) => (alookup a.blocks s).isSome)).map
      (fun (s, p) => (fs s, p))) else a.phases) = _
    rw [hf]
    show adict ((livePhases a).map (fun p => (fs p.1, id p.2))) = _
    apply adict_eq_self
    rw [akeys_map_key fs id]
    exact List.Nodup.map_on (fun x hx y hy e => hinj x y (hlive x hx) (hlive y hy) e)
      (livePhases_nodup h.phases)
  have hP' : (a.phaseSync.mapBlocks fs fb).phases = [] := by
    show (if a.fermi then adict ((([] : List (Sector × Int)).filter
      (fun (s, _) => (alookup a.phaseSync.blocks s).isSome)).map (fun (s, p) => (fs s, p))) else []) = _
    rw [hf]; rfl
  refine ⟨rfl, rfl, rfl, rfl, rfl, ?_, ?_⟩
  · unfold skel
    rw [hB, hB']
    simp only [List.map_map]
    apply List.map_congr_left
    intro p _
    simp only [Function.comp]
    split
    · rfl
    · rfl
  · intro t off
    rw [elem_eq, elem_eq, hB, hB', hP, hP']
    by_cases ht : ∃ s ∈ a.sectors, fs s = t
    · obtain ⟨s, hs, rfl⟩ := ht
      rw [alookup_map_inj fs fb a.blocks s (fun k hk he => hinj k s hk hs he),
        show a.blocks.map (fun p => (fs p.1, if phOf a.phases p.1 = -1 then (fb p.2).negK else fb p.2))
          = (a.blocks.map (fun p => (p.1, (fun k b => if phOf a.phases k = -1 then (fb b).negK else fb b) p.1 p.2))).map
              (fun p => (fs p.1, id p.2)) by simp [List.map_map, Function.comp_def],
        alookup_map_inj fs id _ s (fun k hk he => by
          rw [akeys_map_val (fun k b => if phOf a.phases k = -1 then (fb b).negK else fb b)] at hk
          exact hinj k s hk hs he),
        alookup_map_val (fun k b => if phOf a.phases k = -1 then (fb b).negK else fb b)]
      have hph : phOf ((livePhases a).map (fun p => (fs p.1, id p.2))) (fs s) = phOf a.phases s := by
        rw [← phOf_livePhases a hs]
        unfold phOf
        rw [alookup_map_inj fs id (livePhases a) s (fun k hk he => hinj k s (hlive k hk) hs he)]
        simp
      rw [hph]
      cases alookup a.blocks s with
      | none => rfl
      | some b =>
        simp only [Option.map_some, id, phOf, alookup, Option.getD_none, sgnI_one]
        by_cases hp : (alookup a.phases s).getD 1 = -1
        · simp only [hp, if_true, sgnI_neg_one]; exact (Blk.get_negK (fb b) off).symm
        · simp only [hp, if_false, sgnI]
    · have hn1 : alookup (a.blocks.map (fun p => (fs p.1, fb p.2))) t = none := by
        apply alookup_eq_none
        rw [akeys_map_key fs fb]
        intro hm
        obtain ⟨s, hs, he⟩ := List.mem_map.mp hm
        exact ht ⟨s, hs, he⟩
      have hn2 : alookup (a.blocks.map (fun p => (fs p.1,
          if phOf a.phases p.1 = -1 then (fb p.2).negK else fb p.2))) t = none := by
        apply alookup_eq_none
        intro hm
        simp only [akeys, List.map_map, Function.comp_def] at hm
        obtain ⟨p, hp, he⟩ := List.mem_map.mp hm
        exact ht ⟨p.1, List.mem_map_of_mem (f := (·.1)) hp, he⟩
      rw [hn1, hn2]


theorem ObsEq.withFrame {x y : Arr R} (h : ObsEq x y) (idx : List Index) (c : Charge) :
    ObsEq ({ x with indices := idx, charge := c } : Arr R) ({ y with indices := idx, charge := c } : Arr R) :=
  ⟨h.sym, h.fermi, rfl, rfl, h.oddpos, h.skel, h.elem⟩

/-- every stored sector has its charges in the index tables (a clause of `validB`) -/
def SecInTables (a : Arr R) : Prop :=
  ∀ s ∈ a.sectors, (Arr.blockShape? a.indices s).isSome = true

/-- every stored sector and every key of the sign table has its charges in the index tables
    (`validB` gives the first part; the second is `ValidP.phaseKeysInTablesB`, which holds
    whenever the sign-table keys are sectors that were stored at some time).  Only the first part
    (`SecInTables`) is needed since `_map_blocks` re-keys the sign entries of stored blocks only;
    the second was what the unrepaired `squeeze` needed. -/
def InTables (a : Arr R) : Prop :=
  (∀ s ∈ a.sectors, (Arr.blockShape? a.indices s).isSome = true)
  ∧ (∀ k ∈ akeys a.phases, (Arr.blockShape? a.indices k).isSome = true)

theorem SecInTables.of_valid {a : Arr R} (hv : a.validB = true) : SecInTables a := by
  intro s hs
  obtain ⟨p, hp, rfl⟩ := List.mem_map.mp hs
  unfold Arr.validB at hv
  simp only [Bool.and_eq_true] at hv
  have := List.all_eq_true.mp hv.1.2 p hp
  simp only [Bool.and_eq_true, beq_iff_eq] at this
  rw [this.1.2]; rfl

theorem InTables.sectors {a : Arr R} (h : InTables a) : SecInTables a := h.1

theorem InTables.of_valid {a : Arr R} (hv : a.validB = true)
    (hk : ValidP.phaseKeysInTablesB a = true) : InTables a := by
  refine ⟨SecInTables.of_valid hv, fun k hk' => ?_⟩
  obtain ⟨p, hp, rfl⟩ := List.mem_map.mp hk'
  unfold ValidP.phaseKeysInTablesB at hk
  exact List.all_eq_true.mp hk p hp

theorem squeezeMask_congr {a a' : Arr R} (h : ObsEq a a') (axis : Option (List Nat)) :
    DenseP.squeezeMask a axis = DenseP.squeezeMask a' axis := by
  unfold DenseP.squeezeMask; rw [h.indices, h.sym]

/-- squeeze of an array and of its synchronised copy; no hypothesis on the keys of the sign
    table -/
theorem squeezed_sync_obsEq [LawfulNeg R] {a : Arr R} {axis : Option (List Nat)} {m : List Bool}
    (hm : DenseP.squeezeMask a axis = .ok m) (hf : a.fermi = true) (h : SignOk a)
    (hT : SecInTables a) :
    ObsEq (DenseP.squeezed a (DenseP.keptAxes m 0)) (DenseP.squeezed a.phaseSync (DenseP.keptAxes m 0)) := by
  obtain ⟨hlen, hspec⟩ := DenseP.squeezeMask_ok hm
  have hmask : ∀ (i : Nat) (ix : Index), a.indices[i]? = some ix → m[i]? = some true →
      ∃ d, ix.cm = [(a.sym.zero, d)] ∧ d ≤ 1 := fun i ix hix hi => ((hspec i ix hix).1 hi).2
  have hinj : ∀ k1 k2, k1 ∈ a.sectors → k2 ∈ a.sectors →
      permuted k1 (DenseP.keptAxes m 0) = permuted k2 (DenseP.keptAxes m 0) → k1 = k2 := by
    intro k1 k2 h1 h2 he
    obtain ⟨sh1, e1⟩ := Option.isSome_iff_exists.mp (hT k1 h1)
    obtain ⟨sh2, e2⟩ := Option.isSome_iff_exists.mp (hT k2 h2)
    have l1 : k1.length = m.length := by rw [Arr.blockShape?_length e1, hlen]
    have l2 : k2.length = m.length := by rw [Arr.blockShape?_length e2, hlen]
    rw [DenseP.permuted_keptAxes_zero m k1 l1, DenseP.permuted_keptAxes_zero m k2 l2] at he
    refine DenseP.dropMask_inj l1 l2 (fun i hi => ?_) he
    obtain ⟨_, _, g1, _⟩ := DenseP.masked_facts hlen hmask e1 i hi
    obtain ⟨_, _, g2, _⟩ := DenseP.masked_facts hlen hmask e2 i hi
    rw [g1, g2]
  have := mapBlocks_sync_obsEq a (fun s => permuted s (DenseP.keptAxes m 0))
    (fun b => b.squeezeK (DenseP.keptAxes m 0)) hf h hinj (fun _ => rfl)
  exact this.withFrame (permuted a.indices (DenseP.keptAxes m 0)) a.charge

/-- **congruence of `squeeze`**: same error, or observationally equal results — whatever the
    sign tables hold besides the entries of the stored blocks -/
theorem squeeze_congr_any_phases [LawfulNeg R] {a a' : Arr R} (h : ObsEq a a') (fa : Full a)
    (fa' : Full a') (hf : a.fermi = true) (hT : SecInTables a) (hT' : SecInTables a')
    (axis : Option (List Nat)) :
    ExceptRel ObsEq (a.squeeze axis) (a'.squeeze axis) := by
  rw [DenseP.squeeze_eq, DenseP.squeeze_eq, ← squeezeMask_congr h axis]
  cases hm : DenseP.squeezeMask a axis with
  | error e => rfl
  | ok m =>
    have hm' : DenseP.squeezeMask a' axis = .ok m := by rw [← squeezeMask_congr h axis]; exact hm
    have e1 := squeezed_sync_obsEq hm hf fa.sign hT
    have e2 := squeezed_sync_obsEq hm' (h.fermi ▸ hf) fa'.sign hT'
    rw [canon h fa fa'] at e1
    exact e1.trans e2.symm

theorem squeeze_sync_any_phases [LawfulNeg R] {a : Arr R} (fa : Full a) (hf : a.fermi = true)
    (hT : SecInTables a) (axis : Option (List Nat)) :
    ExceptRel ObsEq (a.squeeze axis) (a.phaseSync.squeeze axis) := by
  rw [DenseP.squeeze_eq, DenseP.squeeze_eq, ← squeezeMask_congr (phaseSync_obsEq a).symm axis]
  cases hm : DenseP.squeezeMask a axis with
  | error e => rfl
  | ok m => exact squeezed_sync_obsEq hm hf fa.sign hT

/-- the former statements (with the hypothesis on the sign-table keys that the unrepaired
    `_map_blocks` needed); implied by the `_any_phases` forms -/
theorem squeeze_congr [LawfulNeg R] {a a' : Arr R} (h : ObsEq a a') (fa : Full a) (fa' : Full a')
    (hf : a.fermi = true) (hT : InTables a) (hT' : InTables a') (axis : Option (List Nat)) :
    ExceptRel ObsEq (a.squeeze axis) (a'.squeeze axis) :=
  squeeze_congr_any_phases h fa fa' hf hT.1 hT'.1 axis

theorem squeeze_sync [LawfulNeg R] {a : Arr R} (fa : Full a) (hf : a.fermi = true)
    (hT : InTables a) (axis : Option (List Nat)) :
    ExceptRel ObsEq (a.squeeze axis) (a.phaseSync.squeeze axis) :=
  squeeze_sync_any_phases fa hf hT.1 axis

theorem shapesOk_phaseSync {a : Arr R} (h : Arr.ShapesOk a) : Arr.ShapesOk a.phaseSync := by
  refine ⟨h.1, fun s b hb => ?_⟩
  rw [phaseSync_blocks_eq, alookup_map_val (syncBlk a)] at hb
  cases hb0 : alookup a.blocks s with
  | none => rw [hb0] at hb; cases hb
  | some b0 =>
    rw [hb0] at hb
    simp only [Option.map_some, Option.some.injEq] at hb
    subst hb
    have := h.2 s b0 hb0
    show Arr.blockShape? a.indices s = some (syncBlk a s b0).shape
    unfold syncBlk
    split
    · exact this
    · exact this

/-- **value view of `squeeze` with an arbitrary sign table.**  Dropping the masked coordinates of
    a sector of the tables and of an offset of its box gives an address of the squeezed array that
    holds the same value: an entry of the sign table whose sector has no block contributes no
    sign to any block of the result. -/
theorem squeezed_elem_any_phases [LawfulNeg R] {a : Arr R} {axis : Option (List Nat)}
    {m : List Bool} (hm : DenseP.squeezeMask a axis = .ok m) (hf : a.fermi = true) (fa : Full a)
    (hT : SecInTables a) (hsh : Arr.ShapesOk a)
    (s : Sector) (shp off : List Nat) (hshp : Arr.blockShape? a.indices s = some shp)
    (hoff : inBox shp off = true) :
    (DenseP.squeezed a (DenseP.keptAxes m 0)).elem (DenseP.dropMask m s) (DenseP.dropMask m off)
      = a.elem s off := by
  obtain ⟨hlen, hspec⟩ := DenseP.squeezeMask_ok hm
  have hmask : ∀ (i : Nat) (ix : Index), a.indices[i]? = some ix → m[i]? = some true →
      ∃ d, ix.cm = [(a.sym.zero, d)] ∧ d ≤ 1 := fun i ix hix hi => ((hspec i ix hix).1 hi).2
  have e1 := (squeezed_sync_obsEq hm hf fa.sign hT).elem (DenseP.dropMask m s) (DenseP.dropMask m off)
  have e2 := DenseP.squeezed_elem a.phaseSync m hlen hmask rfl (shapesOk_phaseSync hsh)
    (by rw [show a.phaseSync.sectors = a.sectors from phaseSync_sectors a]; exact fa.sign.sectors)
    s shp off hshp hoff
  rw [e1, e2]
  exact (phaseSync_obsEq a).elem s off

omit [Zero R] [Neg R] in
theorem insert_inj {α : Type} (axis : Nat) (c : α) {s t : List α}
    (h : s.take axis ++ [c] ++ s.drop axis = t.take axis ++ [c] ++ t.drop axis) : s = t := by
  have hl : s.length = t.length := by
    have := congrArg List.length h
    simp only [List.length_append, List.length_take, List.length_drop, List.length_cons,
      List.length_nil] at this
    omega
  have hlt : (s.take axis).length = (t.take axis).length := by simp [hl]
  rw [List.append_assoc, List.append_assoc] at h
  have h1 := List.append_inj_left h hlt
  have h2 := List.append_inj_right h hlt
  simp only [List.singleton_append, List.cons.injEq, true_and] at h2
  rw [← List.take_append_drop axis s, ← List.take_append_drop axis t, h1, h2]

/-- `expand_dims` of an array and of its synchronised copy -/
theorem expandDims_sync_obsEq [LawfulNeg R] (a : Arr R) (axis : Nat) (c : Option Charge)
    (dual : Option Bool) (hf : a.fermi = true) (h : SignOk a) :
    ObsEq (a.expandDims axis c dual) (a.phaseSync.expandDims axis c dual) := by
  cases c with
  | none =>
    have := mapBlocks_sync_obsEq a (fun s => s.take axis ++ [a.sym.zero] ++ s.drop axis)
      (fun b => b.expandK axis) hf h (fun _ _ _ _ e => insert_inj axis _ e) (fun _ => rfl)
    exact this.withFrame _ _
  | some c =>
    have := mapBlocks_sync_obsEq a (fun s => s.take axis ++ [c] ++ s.drop axis)
      (fun b => b.expandK axis) hf h (fun _ _ _ _ e => insert_inj axis _ e) (fun _ => rfl)
    exact this.withFrame _ _

/-- **congruence of `expand_dims`** -/
theorem expandDims_congr [LawfulNeg R] {a a' : Arr R} (h : ObsEq a a') (fa : Full a) (fa' : Full a')
    (hf : a.fermi = true) (axis : Nat) (c : Option Charge) (dual : Option Bool) :
    ObsEq (a.expandDims axis c dual) (a'.expandDims axis c dual) := by
  have e1 := expandDims_sync_obsEq a axis c dual hf fa.sign
  have e2 := expandDims_sync_obsEq a' axis c dual (h.fermi ▸ hf) fa'.sign
  rw [canon h fa fa'] at e1
  exact e1.trans e2.symm

/-! ### `fuse` when every group is empty -/

/-- with only empty groups `fuse` does not touch the blocks: it returns the array itself, or the
    `ValueError` of `expand_empty` -/
theorem fuseF_allEmpty (a : Arr R) (groups : List (List Nat)) (mode : FuseMode) (expandEmpty : Bool)
    (he : (groups.filter (fun g => !g.isEmpty)).isEmpty = true) :
    a.fuseF groups mode expandEmpty
      = if expandEmpty && !((groups.zipIdx.filter (fun p => p.1.isEmpty)).map (·.2)).isEmpty
        then .error Err.value else .ok a := by
  have hnil : groups.filter (fun g => !g.isEmpty) = [] := List.isEmpty_iff.mp he
  unfold Arr.fuseF
  simp only [hnil, List.isEmpty_nil, if_true, pure_bind, List.flatten_nil]
  split <;> rfl

theorem fuseF_allEmpty_congr {a a' : Arr R} (h : ObsEq a a') (groups : List (List Nat))
    (mode : FuseMode) (expandEmpty : Bool)
    (he : (groups.filter (fun g => !g.isEmpty)).isEmpty = true) :
    ExceptRel ObsEq (a.fuseF groups mode expandEmpty) (a'.fuseF groups mode expandEmpty) := by
  rw [fuseF_allEmpty a groups mode expandEmpty he, fuseF_allEmpty a' groups mode expandEmpty he]
  split
  · rfl
  · exact h

/-- **congruence of `fuse`, all cases** -/
theorem fuseF_congr_all [LawfulNeg R] {a a' : Arr R} (h : ObsEq a a') (fa : Full a) (fa' : Full a')
    (groups : List (List Nat)) (mode : FuseMode) (expandEmpty : Bool)
    (hg : (groups.filter (fun g => !g.isEmpty)).isEmpty = false →
      Arr.isPerm (calcFuseGroupInfo (groups.filter (fun g => !g.isEmpty)) a.duals).perm a.ndim = true) :
    ExceptRel ObsEq (a.fuseF groups mode expandEmpty) (a'.fuseF groups mode expandEmpty) := by
  cases he : (groups.filter (fun g => !g.isEmpty)).isEmpty with
  | true => exact fuseF_allEmpty_congr h groups mode expandEmpty he
  | false =>
    exact ExceptRel.of_eq ObsEq.refl (fuseF_congr h fa fa' groups mode expandEmpty he (hg he))

end mapblocks
/-! ## 5. programs over all operations -/
section prog2
variable {R : Type} [Zero R] [Add R] [Mul R] [Neg R] [Conj R]

/-- the state invariant of the extended programs: clauses of `Arr.validB` for a fermionic array
    (nothing about the keys of the sign table: `tables` speaks of the stored sectors only) -/
structure StOk (a : Arr R) : Prop where
  full : Full a
  fermi : a.fermi = true
  tables : SecInTables a

/-- every valid fermionic array satisfies the invariant -/
theorem StOk.of_valid_any_phases {a : Arr R} (hv : a.validB = true) (hf : a.fermi = true) : StOk a :=
  ⟨Full.of_valid hv hf, hf, SecInTables.of_valid hv⟩

/-- the former form (the third hypothesis is no longer used) -/
theorem StOk.of_valid {a : Arr R} (hv : a.validB = true) (hf : a.fermi = true)
    (_hk : ValidP.phaseKeysInTablesB a = true) : StOk a :=
  StOk.of_valid_any_phases hv hf

/-- the guard of `tensordot` (the normalised axes are distinct and in range) -/
def tdGuard (a b : Arr R) (axes : AxesArg) : Prop :=
  ∀ axesA axesB, parseAxes a.ndim b.ndim axes = .ok (axesA, axesB) →
    Arr.isPerm (without (List.range a.ndim) axesA ++ axesA) a.ndim = true
    ∧ Arr.isPerm (axesB ++ without (List.range b.ndim) axesB) b.ndim = true

/-- the operations of a fermionic array: those of `SOp` and the block-restructuring ones -/
inductive Op2 (R : Type) where
  | base (op : SOp)
  | squeeze (axis : Option (List Nat))
  | expandDims (axis : Nat) (c : Option Charge) (dual : Option Bool)
  | mdiag (v : BVec R) (axis : Nat)
  | fuse (groups : List (List Nat)) (mode : FuseMode) (expandEmpty : Bool)
  | unfuse (axis : Nat)
  | tdotL (b : Arr R) (axes : AxesArg) (mode : TdotMode)   -- `tensordot(x, b, axes)`
  | tdotR (b : Arr R) (axes : AxesArg) (mode : TdotMode)   -- `tensordot(b, x, axes)`

def Op2.apply : Op2 R → Arr R → Except Err (Arr R)
  | .base op, a => .ok (op.apply a)
  | .squeeze axis, a => a.squeeze axis
  | .expandDims axis c dual, a => .ok (a.expandDims axis c dual)
  | .mdiag v axis, a => .ok (multiplyDiagonal a v axis)
  | .fuse g m e, a => a.fuseF g m e
  | .unfuse axis, a => a.unfuseF axis
  | .tdotL b axes mode, a => a.tensordotF b axes mode
  | .tdotR b axes mode, a => b.tensordotF a axes mode

/-- guards (where Python raises and the model is totalised) and the validity of fixed partners -/
def Op2.ok : Op2 R → Arr R → Prop
  | .base op, a => op.ok a
  | .fuse g _ _, a => (g.filter (fun x => !x.isEmpty)).isEmpty = false →
      Arr.isPerm (calcFuseGroupInfo (g.filter (fun x => !x.isEmpty)) a.duals).perm a.ndim = true
  | .tdotL b axes _, a => Full b ∧ tdGuard a b axes
  | .tdotR b axes _, a => Full b ∧ tdGuard b a axes
  | _, _ => True

/-- run a program as written -/
def runE : List (Op2 R) → Arr R → Except Err (Arr R)
  | [], a => .ok a
  | op :: p, a => op.apply a >>= runE p

/-- run a program eagerly: `phase_sync()` after every step -/
def runSyncE : List (Op2 R) → Arr R → Except Err (Arr R)
  | [], a => .ok a
  | op :: p, a => (op.apply a).map Arr.phaseSync >>= runSyncE p

/-- every state of the lazy run satisfies the invariant (property C01) and every guard holds -/
def runOkE : List (Op2 R) → Arr R → Prop
  | [], a => StOk a
  | op :: p, a => StOk a ∧ op.ok a ∧ ∀ r, op.apply a = .ok r → runOkE p r

/-- every state of the eager run satisfies the invariant -/
def runSyncOkE : List (Op2 R) → Arr R → Prop
  | [], a => StOk a
  | op :: p, a => StOk a ∧ ∀ r, op.apply a = .ok r → runSyncOkE p r.phaseSync

theorem ExceptRel.ok_ok {α : Type} {r : α → α → Prop} {x y : α} (h : r x y) :
    ExceptRel r (.ok x) (.ok y) := h

/-- **every operation gives observationally equal results (or the same error) on
    observationally equal valid inputs** -/
theorem Op2.apply_rel [LawfulNegConj R] [LawfulMulNeg R] (op : Op2 R) {a a' : Arr R}
    (h : ObsEq a a') (sa : StOk a) (sa' : StOk a') (ho : op.ok a) :
    ExceptRel ObsEq (op.apply a) (op.apply a') := by
  cases op with
  | base op => exact op.apply_congr h sa.full.inv sa'.full.inv ho
  | squeeze axis => exact squeeze_congr_any_phases h sa.full sa'.full sa.fermi sa.tables sa'.tables axis
  | expandDims axis c dual => exact expandDims_congr h sa.full sa'.full sa.fermi axis c dual
  | mdiag v axis => exact multiplyDiagonal_congr h v axis
  | fuse g m e => exact fuseF_congr_all h sa.full sa'.full g m e ho
  | unfuse axis => exact ExceptRel.of_eq ObsEq.refl (unfuseF_congr h sa.full sa'.full axis)
  | tdotL b axes mode =>
    exact ExceptRel.of_eq ObsEq.refl
      (tensordotF_congr h (ObsEq.refl b) sa.full sa'.full ho.1 ho.1 axes mode ho.2)
  | tdotR b axes mode =>
    exact ExceptRel.of_eq ObsEq.refl
      (tensordotF_congr (ObsEq.refl b) h ho.1 ho.1 sa.full sa'.full axes mode ho.2)

/-- **lazy signs are unobservable, all operations**: the lazy and the eager run of a program
    return the same error or observationally equal arrays -/
theorem run_runSyncE [LawfulNegConj R] [LawfulMulNeg R] (p : List (Op2 R)) {a a' : Arr R}
    (h : ObsEq a a') (hl : runOkE p a) (he : runSyncOkE p a') :
    ExceptRel ObsEq (runE p a) (runSyncE p a') := by
  induction p generalizing a a' with
  | nil => exact h
  | cons op p ih =>
    obtain ⟨sa, ho, hn⟩ := hl
    obtain ⟨sa', hn'⟩ := he
    have hr := op.apply_rel h sa sa' ho
    unfold runE runSyncE
    cases e1 : op.apply a with
    | error e =>
      cases e2 : op.apply a' with
      | error e' => rw [e1, e2] at hr; exact hr
      | ok r' => rw [e1, e2] at hr; exact hr.elim
    | ok r =>
      cases e2 : op.apply a' with
      | error e' => rw [e1, e2] at hr; exact hr.elim
      | ok r' =>
        rw [e1, e2] at hr
        exact ih ((show ObsEq r r' from hr).trans (phaseSync_obsEq r').symm) (hn r e1) (hn' r' e2)

/-- the final states satisfy the invariant -/
theorem runOkE_final (p : List (Op2 R)) {a r : Arr R} (hl : runOkE p a) (h : runE p a = .ok r) :
    StOk r := by
  induction p generalizing a with
  | nil => cases h; exact hl
  | cons op p ih =>
    obtain ⟨_, _, hn⟩ := hl
    unfold runE at h
    cases e1 : op.apply a with
    | error e => rw [e1] at h; cases h
    | ok r1 => rw [e1] at h; exact ih (hn r1 e1) h

theorem runSyncOkE_final (p : List (Op2 R)) {a r : Arr R} (hl : runSyncOkE p a)
    (h : runSyncE p a = .ok r) : StOk r := by
  induction p generalizing a with
  | nil => cases h; exact hl
  | cons op p ih =>
    obtain ⟨_, hn⟩ := hl
    unfold runSyncE at h
    cases e1 : op.apply a with
    | error e => rw [e1] at h; cases h
    | ok r1 => rw [e1] at h; exact ih (hn r1 e1) h

/-- **terminal observations**: whatever is computed from the synchronised final array — `sum`,
    `max`, `abs`, `clip`, `to_dense`, `norm`, `eigh`, `solve`, singular values, … — is the same
    for the lazy and the eager run -/
theorem run_observe [LawfulNegConj R] [LawfulMulNeg R] {α : Type} (F : Arr R → α)
    (p : List (Op2 R)) {a : Arr R} (hl : runOkE p a) (he : runSyncOkE p a) :
    ExceptRel (fun r r' => F (syncF r) = F (syncF r')) (runE p a) (runSyncE p a) := by
  have hr := run_runSyncE p (ObsEq.refl a) hl he
  cases e1 : runE p a with
  | error e =>
    cases e2 : runSyncE p a with
    | error e' => rw [e1, e2] at hr; exact hr
    | ok r' => rw [e1, e2] at hr; exact hr.elim
  | ok r =>
    cases e2 : runSyncE p a with
    | error e' => rw [e1, e2] at hr; exact hr.elim
    | ok r' =>
      rw [e1, e2] at hr
      have s1 := runOkE_final p hl e1
      have s2 := runSyncOkE_final p he e2
      exact syncFirst_congr F hr s1.full s2.full s1.fermi

end prog2
/-! ## 4. single-array fermionic `einsum` -/
section einsum
variable {R : Type} [Zero R] [Neg R]

/-- the axis order `FermionicArray.einsum` transposes to: axes sorted (stably) by
    (position of the label in the output or −1 for traced labels, label, ket before bra) — every
    traced pair becomes adjacent, in front, as (bra, ket) -/
def einOrder (a : Arr R) (lhs rhs : List Nat) : List Nat :=
  let key (i : Nat) : Int × Nat × Bool :=
    let c := lhs.getD i 0
    ((match indexOf? rhs c with | some j => (j : Int) | none => -1), c,
     !(a.indices.getD i default).dual)
  let klt (x y : Int × Nat × Bool) : Bool :=
    x.1 < y.1 || (x.1 == y.1 && (x.2.1 < y.2.1 || (x.2.1 == y.2.1 && (!x.2.2 && y.2.2))))
  isort (fun i j => klt (key i) (key j)) (List.range a.ndim)

theorem isPerm_einOrder (a : Arr R) (lhs rhs : List Nat) :
    Arr.isPerm (einOrder a lhs rhs) a.ndim = true := isPerm_isort _ _

/-- the operand of the abelian einsum: transposed (with its Koszul signs) and synchronised -/
def einOperand (a : Arr R) (lhs rhs : List Nat) : Arr R :=
  (a.transposeF (einOrder a lhs rhs)).phaseSync

/-- `FermionicArray.einsum` = transpose to `einOrder`, synchronise, abelian einsum (traces of
    adjacent (bra, ket) pairs and the output permutation) -/
theorem einsumF_eq [Add R] (a : Arr R) (lhs rhs : List Nat) :
    a.einsumF lhs rhs =
      if lhs.length != a.ndim then .error Err.index
      else einsumA (einOperand a lhs rhs) (permuted lhs (einOrder a lhs rhs)) rhs := by
  unfold Arr.einsumF
  split <;> rfl

/-- the value `transpose` puts at the transposed address, up to the Koszul sign (intrinsic form) -/
def transposedElem (a : Arr R) (axes : List Nat) (s : Sector) (off : List Nat) : R :=
  match alookup (skel a) s with
  | none => 0
  | some shp => match boxIdx (permuted shp axes) off with
    | none => 0
    | some i => a.elem s (srcIdx shp.length axes i)

/-- for an offset inside the transposed box it is the value at the source address -/
theorem transposedElem_inBox (a : Arr R) (axes : List Nat) (s : Sector) (b : Blk R)
    (hb : alookup a.blocks s = some b) (off : List Nat)
    (ho : inBox (permuted b.shape axes) off = true) :
    transposedElem a axes s off = a.elem s (srcIdx b.shape.length axes off) := by
  unfold transposedElem
  rw [alookup_skel, hb]
  simp only [Option.map_some]
  rw [boxIdx_of_inBox ho]

/-- the value view of the einsum operand -/
theorem einOperand_elem [LawfulNeg R] {a : Arr R} (lhs rhs : List Nat) (fa : Full a) {s : Sector}
    (hs : s.length = a.ndim) (off : List Nat) :
    (einOperand a lhs rhs).elem (permuted s (einOrder a lhs rhs)) off
      = sgnI (koszul (a.parities s) (some (einOrder a lhs rhs)))
          (transposedElem a (einOrder a lhs rhs) s off) := by
  unfold einOperand
  rw [phaseSync_elem, transposeF_elem (fa.trOk (isPerm_einOrder a lhs rhs)) s hs off]
  rfl

theorem einOperand_sectors {a : Arr R} (lhs rhs : List Nat) (fa : Full a) :
    (einOperand a lhs rhs).sectors = a.sectors.map (fun s => permuted s (einOrder a lhs rhs)) := by
  unfold einOperand
  rw [phaseSync_sectors, transposeF_sectors (fa.trOk (isPerm_einOrder a lhs rhs))]

end einsum

section einsum2
variable {R : Type} [AddMonoid R] [Neg R]

theorem filter_map_sum {α β : Type} (π : α → β) (P : β → Bool) (G : β → R) (l : List α) :
    (((l.map π).filter P).map G).sum = ((l.filter (P ∘ π)).map (G ∘ π)).sum := by
  rw [List.filter_map, List.map_map]

/-- **einsumF_refines_graded** (element level).  Valid fermionic `a`, one label per axis, every
    output label on the left, every traced label exactly twice.  Then `a.einsum(lhs -> rhs)`
    succeeds; its indices are those of `a` permuted by `einOrder` and then by the output
    permutation; and its element at `(s', o')` is the sum, over the stored sectors `s` of `a`
    whose traced pairs carry equal charges and whose kept part is `s'`, of the Koszul sign of
    `einOrder` on the parities of `s` times the sum over the traced box of the transposed value
    of `a` at the assembled offsets: the graded trace — bring every traced pair to the front as
    (bra, ket) with the Koszul sign, then take plain traces. -/
theorem einsumF_elem [LawfulNeg R] (neg_add : ∀ x y : R, -(x + y) = -x + -y) (a : Arr R)
    (lhs rhs perm2 : List Nat) (hv : a.validB = true) (hf : a.fermi = true)
    (hlen : lhs.length = a.ndim)
    (hperm : TdotP.einPerm? (permuted lhs (einOrder a lhs rhs)) rhs = .ok perm2)
    (h2 : (TdotP.einTracedPos (permuted lhs (einOrder a lhs rhs)) rhs).any
      (fun js => js.length != 2) = false)
    (s' : Sector) (o' : List Nat)
    (ho : ∀ s ∈ (einOperand a lhs rhs).sectors,
      TdotP.einKeep (permuted lhs (einOrder a lhs rhs)) rhs s = true → permuted s perm2 = s' →
      inBox (rhs.map (TdotP.einSize (Arr.blockShapeD (einOperand a lhs rhs).indices s)
        (permuted lhs (einOrder a lhs rhs)))) o' = true) :
    ∃ c, a.einsumF lhs rhs = .ok c
      ∧ c.indices = permuted (permuted a.indices (einOrder a lhs rhs)) perm2
      ∧ c.elem s' o' =
        ((a.sectors.filter (fun s =>
            TdotP.einKeep (permuted lhs (einOrder a lhs rhs)) rhs (permuted s (einOrder a lhs rhs))
            && permuted (permuted s (einOrder a lhs rhs)) perm2 == s')).map (fun s =>
          sgnI (koszul (a.parities s) (some (einOrder a lhs rhs)))
            (((allIdx ((TdotP.einTraced (permuted lhs (einOrder a lhs rhs)) rhs).map
                (TdotP.einSize (Arr.blockShapeD (einOperand a lhs rhs).indices
                  (permuted s (einOrder a lhs rhs))) (permuted lhs (einOrder a lhs rhs))))).map
              (fun t => transposedElem a (einOrder a lhs rhs) s
                (TdotP.einIdx (permuted lhs (einOrder a lhs rhs)) rhs o' t))).sum))).sum := by
  have fa : Full a := Full.of_valid hv hf
  have hvx : (einOperand a lhs rhs).validB = true :=
    LinalgLemmas.phaseSync_valid _ (C01.transposeF_valid a _ true hv hf (isPerm_einOrder a lhs rhs))
  obtain ⟨c, h1, h2', _, h4⟩ := C02.einsumA_elem (einOperand a lhs rhs)
    (permuted lhs (einOrder a lhs rhs)) rhs perm2 hperm h2 rfl
    (TdotP.Arr.allDistinct_of_validB hvx) (TdotP.Arr.shapesOk_of_validB hvx) s' o' ho
  refine ⟨c, ?_, ?_, ?_⟩
  · rw [einsumF_eq]
    have : (lhs.length != a.ndim) = false := by simp [hlen]
    rw [this]; exact h1
  · rw [h2']
    show permuted (a.transposeF (einOrder a lhs rhs)).indices perm2 = _
    rw [(transposeF_frame a _).2.2.1]
  · rw [h4, einOperand_sectors lhs rhs fa, filter_map_sum]
    congr 1
    apply List.map_congr_left
    intro s hs
    have hsm : s ∈ a.sectors := (List.mem_filter.mp hs).1
    simp only [Function.comp]
    have hsgn : ∀ (σ : Int) (f : List Nat → R) (l : List (List Nat)),
        (l.map (fun x => sgnI σ (f x))).sum = sgnI σ ((l.map f).sum) := by
      intro σ f l
      induction l with
      | nil => simp [sgnI_zero]
      | cons x xs ih =>
        simp only [List.map_cons, List.sum_cons, ih]
        unfold sgnI; split
        · exact (neg_add _ _).symm
        · rfl
    rw [← hsgn]
    congr 1
    apply List.map_congr_left
    intro t _
    exact einOperand_elem lhs rhs fa (fa.len s hsm) _

end einsum2
end SymmModel.Lazy
