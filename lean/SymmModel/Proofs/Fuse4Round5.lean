/-
  SymmModel.Proofs.Fuse4Round5 — **unfuseF ∘ fuseF**: unfusing every group of the fermionic fused
  array with `unfuseF` (last group first) gives, in the value view, the transposed array: the fuse
  signs cancel exactly.
-/
import SymmModel.Proofs.Fuse4Round4
namespace SymmModel
namespace FuseP
set_option linter.unusedSectionVars false
open SymmModel.KoszulP SymmModel.Lazy

variable {R : Type} [Zero R] [Neg R] [LawfulNeg R]

section Stage
variable {a : Arr R} {groups : List (List Nat)}

variable (a groups) in
/-- the fermionic array `Z` and the sign-free array `X` after the last `j` groups were unfused -/
structure FInv (j : Nat) (Z X : Arr R) : Prop where
  rel : FRel Z X
  sym : Z.sym = a.sym
  lab : Z.charge = a.charge ∧ Z.oddpos = a.oddpos
  stage : StageInv (signAdj a groups) (newGroupsF groups a.duals) j X
  sign : ∀ sb4 ∈ (signAdj a groups).blocks, ∀ J,
    inBox (SM (signAdj a groups) (newGroupsF groups a.duals) sb4 j) J = true →
    Z.elem (KM (signAdj a groups) (newGroupsF groups a.duals) sb4 j) J
      = sgnI (tauF a groups sb4.1 j) (X.elem (KM (signAdj a groups) (newGroupsF groups a.duals) sb4 j) J)

variable (a groups) in
/-- unfuse group `g` with `unfuseF` if it is a multi-axis group -/
def stageStepF (Z : Arr R) (g : Nat) : Except Err (Arr R) :=
  if multiB groups g then Arr.unfuseF Z ((calcFuseGroupInfo groups a.duals).position + g) else pure Z

theorem finv_step (hv : a.validB = true) (hf : a.fermi = true) (hok : GroupsOk groups a.ndim) {j : Nat}
    (hj : j < groups.length) {Z X : Arr R} (h : FInv a groups j Z X) :
    ∃ Z' X', stageStepF a groups Z (groups.length - (j + 1)) = .ok Z' ∧ FInv a groups (j + 1) Z' X' := by
  have hfld := signAdj_fields a groups
  have hc4 : ValidP.Core (signAdj a groups) := (signAdj_valid a groups hv hf hok).core
  have hva4 := validArr_of_core hc4
  have hnd4 : (signAdj a groups).ndim = a.ndim := by
    show (signAdj a groups).indices.length = a.ndim
    rw [hfld.2.1]; exact permutedM_length hok a.indices rfl
  have hd4 : (signAdj a groups).duals.length = a.duals.length := by
    rw [duals_length, duals_length, hnd4]
  have hok4 : GroupsOk (newGroupsF groups a.duals) (signAdj a groups).ndim := by
    rw [hnd4, ← duals_length]; exact newGroupsF_ok (hokD hok)
  obtain ⟨hpos, _, _⟩ := newGroups_plan (hokD hok) hd4
  have hlen : (newGroupsF groups a.duals).length = groups.length := newGroupsF_length _ _
  have hj4 : j < (newGroupsF groups a.duals).length := by rw [hlen]; exact hj
  by_cases hm : multiB (newGroupsF groups a.duals) ((newGroupsF groups a.duals).length - (j + 1)) = true
  · -- a multi-axis group: one `unfuseF`
    obtain ⟨X', hX', hS'⟩ := stage_multi hc4 hok4 hj4 hm h.stage
    obtain ⟨gx, hgg, hgl⟩ := multiB_iff.1 hm
    have hvX := validArr_of_core h.stage.core
    have hlI : (giM (signAdj a groups) (newGroupsF groups a.duals)).position + (newGroupsF groups a.duals).length
        ≤ (newIdxM (signAdj a groups) (newGroupsF groups a.duals)).length := by
      rw [newIdxM_length hok4]; exact ndimM_ge
    have hplt : (giM (signAdj a groups) (newGroupsF groups a.duals)).position
        + ((newGroupsF groups a.duals).length - (j + 1)) < X.indices.length := by
      rw [h.stage.idx, idxStage, partG_length (Nat.le_of_lt hj4) hlI]; omega
    have hix : X.indices[(giM (signAdj a groups) (newGroupsF groups a.duals)).position
        + ((newGroupsF groups a.duals).length - (j + 1))]?
        = some (ixM (signAdj a groups) (newGroupsF groups a.duals) ((newGroupsF groups a.duals).length - (j + 1))) := by
      rw [getElem?_of_getD _ default hplt, h.stage.idx, idxStage,
        partG_getD_low default (Nat.le_of_lt hj4) hlI (by omega)]
      rfl
    have hsub := ixM_sub (a := signAdj a groups) hok4 hgg hgl
    have hgd : (newGroupsF groups a.duals).getD ((newGroupsF groups a.duals).length - (j + 1)) [] = gx := by
      simp [List.getD_eq_getElem?_getD, hgg]
    have hsubs : gx.map (fun ax => (signAdj a groups).indices.getD ax default)
        = segIx (signAdj a groups) (newGroupsF groups a.duals) ((newGroupsF groups a.duals).length - (j + 1)) := by
      simp only [segIx, hgd]
    rw [hsubs] at hsub
    obtain ⟨Z', hZ', hrel', hsym', hlab', hprop⟩ := stepF h.rel hix hsub hX'
    refine ⟨Z', X', ?_, hrel', by rw [hsym', h.sym], ⟨hlab'.1.trans h.lab.1, hlab'.2.trans h.lab.2⟩, hS', ?_⟩
    · have hmg : multiB groups (groups.length - (j + 1)) = true := by
        rw [← multiB_newGroupsF groups a.duals, ← hlen]; exact hm
      simp only [stageStepF, hmg, if_true]
      rw [← hpos, ← hlen]; exact hZ'
    · intro sb4 hsb4 J hJ
      obtain ⟨V, hV, hVs, _⟩ := h.stage.here sb4 hsb4
      obtain ⟨e, D, t1, t2, _, _, _⟩ := stored_tableM hva4 hok4 hgg hgl hsb4
      have hlN : (giM (signAdj a groups) (newGroupsF groups a.duals)).position + (newGroupsF groups a.duals).length
          ≤ (planM (signAdj a groups) (newGroupsF groups a.duals) sb4).newSector.length := by
        rw [planM_newSector_length hok4]; exact ndimM_ge
      have hlB : (giM (signAdj a groups) (newGroupsF groups a.duals)).position + (newGroupsF groups a.duals).length
          ≤ (BshM (signAdj a groups) (newGroupsF groups a.duals) sb4).length := by
        rw [BshM_length]; exact ndimM_ge
      have hKp : (KM (signAdj a groups) (newGroupsF groups a.duals) sb4 j).getD
          ((giM (signAdj a groups) (newGroupsF groups a.duals)).position + ((newGroupsF groups a.duals).length - (j + 1))) (0, 0)
          = cM (a := signAdj a groups) (groups := newGroupsF groups a.duals) sb4 ((newGroupsF groups a.duals).length - (j + 1)) := by
        simp only [KM]
        rw [partG_getD_low (0, 0) (Nat.le_of_lt hj4) hlN (by omega)]
        rfl
      have hseg : ssM (a := signAdj a groups) (groups := newGroupsF groups a.duals) sb4 ((newGroupsF groups a.duals).length - (j + 1))
          = segS (newGroupsF groups a.duals) sb4 ((newGroupsF groups a.duals).length - (j + 1)) := by
        rw [ssM_eq hgg]; simp only [segS, hgd]
      rw [hseg] at t2
      obtain ⟨subshape, hbs, hval⟩ := hprop _ V hV e _ _ _ (by rw [hKp]; exact t1) t2
        (tauF a groups sb4.1 j) (tauF_pm _ _ _ _) (by
          intro J' hJ'
          exact h.sign sb4 hsb4 J' (by rw [← hVs]; exact hJ'))
      have hsh : subshape = segSh (newGroupsF groups a.duals) sb4 ((newGroupsF groups a.duals).length - (j + 1)) := by
        have := blockShape?_map (hva4.blk sb4 hsb4).2.1 gx (groupM_lt hok4 hgg)
        have hb2 : Arr.blockShape? (segIx (signAdj a groups) (newGroupsF groups a.duals)
            ((newGroupsF groups a.duals).length - (j + 1)))
            (segS (newGroupsF groups a.duals) sb4 ((newGroupsF groups a.duals).length - (j + 1)))
            = some (segSh (newGroupsF groups a.duals) sb4 ((newGroupsF groups a.duals).length - (j + 1))) := by
          simp only [segIx, segS, segSh, hgd]; exact this
        rw [hb2] at hbs
        simpa using hbs.symm
      subst hsh
      have hKsucc : KM (signAdj a groups) (newGroupsF groups a.duals) sb4 (j + 1)
          = replaceWithSeq (KM (signAdj a groups) (newGroupsF groups a.duals) sb4 j)
              ((giM (signAdj a groups) (newGroupsF groups a.duals)).position + ((newGroupsF groups a.duals).length - (j + 1)))
              (segS (newGroupsF groups a.duals) sb4 ((newGroupsF groups a.duals).length - (j + 1))) := by
        simp only [KM]; exact partG_succ hj4 hlN
      have hSsucc : SM (signAdj a groups) (newGroupsF groups a.duals) sb4 (j + 1)
          = replaceWithSeq V.shape
              ((giM (signAdj a groups) (newGroupsF groups a.duals)).position + ((newGroupsF groups a.duals).length - (j + 1)))
              (segSh (newGroupsF groups a.duals) sb4 ((newGroupsF groups a.duals).length - (j + 1))) := by
        rw [hVs]; simp only [SM]; exact partG_succ hj4 hlB
      rw [hSsucc] at hJ
      have := hval J hJ
      rw [← hKsucc] at this
      rw [this]
      congr 1
      -- the sign of this step
      have hZn : (giM (signAdj a groups) (newGroupsF groups a.duals)).position + (groups.length - (j + 1)) < Z.ndim := by
        show _ < Z.indices.length
        rw [h.rel.shape.1, ← hlen]; exact hplt
      have hsg := unfuseSign_group hv hf hok (sb4 := sb4) hj (by rw [← hlen]; exact hm) h.sym hZn
      rw [← hlen] at hsg
      rw [hsg]
      simp only [tauF, hlen]
  · -- a single-axis group: nothing happens
    have hm' : multiB (newGroupsF groups a.duals) ((newGroupsF groups a.duals).length - (j + 1)) = false := by
      simpa using hm
    obtain ⟨e1, e2, e3, e4⟩ := stage_single hva4 hok4 hj4 hm'
    obtain ⟨X', hX', hS'⟩ := stage_step hc4 hok4 hj4 h.stage
    have hXeq : X' = X := by
      simp only [stageStep, hm', Bool.false_eq_true, if_false, pure, Except.pure, Except.ok.injEq] at hX'
      exact hX'.symm
    subst hXeq
    refine ⟨Z, X', ?_, h.rel, h.sym, h.lab, hS', ?_⟩
    · have hmg : multiB groups (groups.length - (j + 1)) = false := by
        rw [← multiB_newGroupsF groups a.duals, ← hlen]; exact hm'
      simp only [stageStepF, hmg, Bool.false_eq_true, if_false]; rfl
    · intro sb4 hsb4 J hJ
      rw [e1 sb4]
      rw [e2 sb4 hsb4] at hJ
      rw [h.sign sb4 hsb4 J hJ]
      congr 1
      -- the factor of a single-axis group is 1
      have hg : (newGroupsF groups a.duals).length - (j + 1) < (newGroupsF groups a.duals).length := by omega
      have hgg : (newGroupsF groups a.duals)[(newGroupsF groups a.duals).length - (j + 1)]?
          = some (newGroupsF groups a.duals)[(newGroupsF groups a.duals).length - (j + 1)] :=
        List.getElem?_eq_getElem hg
      have hl1 : ((newGroupsF groups a.duals)[(newGroupsF groups a.duals).length - (j + 1)]).length = 1 := by
        by_contra hne
        have := multiB_iff.2 ⟨_, hgg, hne⟩
        rw [hm'] at this; cases this
      simp only [tauF]
      rw [← hlen]
      have hgd : (newGroupsF groups a.duals).getD ((newGroupsF groups a.duals).length - (j + 1)) []
          = (newGroupsF groups a.duals)[(newGroupsF groups a.duals).length - (j + 1)] := by
        simp [List.getD_eq_getElem?_getD, hgg]
      rw [hgd]
      match hgx : (newGroupsF groups a.duals)[(newGroupsF groups a.duals).length - (j + 1)], hl1 with
      | [ax'], _ => rw [groupFactor_single]; simp

end Stage

end FuseP
end SymmModel
