/-
  SymmModel.Proofs.Fuse9Main — `unfuseAllF (conjF (fuseF a groups))` against `conjF (transposeF a perm)`.
-/
import SymmModel.Proofs.Fuse9Fold
import SymmModel.Proofs.Fuse6Fuse2
import SymmModel.Proofs.Fuse5All2
import SymmModel.Props.C05f
namespace SymmModel
namespace FuseP
set_option linter.unusedSectionVars false
open SymmModel.Lazy SymmModel.KoszulP SymmModel.LinalgLemmas

variable {R : Type} [Zero R] [Neg R] [Conj R] [LawfulNegConj R]

/-- the axes of the fully unfused conjugate whose odd charges give the sign -/
def mmAxes (a : Arr R) (groups : List (List Nat)) : List Nat :=
  mmRec (newIdxM (signAdj a groups) (newGroupsF groups a.duals)) groups
    (calcFuseGroupInfo groups a.duals).position groups.length []

theorem conj_sub_isSome (ix : Index) : ix.conj.sub.isSome = ix.sub.isSome := by
  obtain ⟨c, d, s⟩ := ix
  cases s with
  | none => rfl
  | some q => obtain ⟨subs, e⟩ := q; rfl

theorem conj_fuse_main (a : Arr R) (groups : List (List Nat)) (e : Bool) (hv : a.validB = true)
    (hf : a.fermi = true) (hg : groupsOkB groups a.ndim = true) (hplain : ∀ ix ∈ a.indices, ix.sub = none) :
    ∃ y z, Arr.fuseF a groups .insert e = .ok y ∧ Arr.unfuseAllF y.conjF = .ok z
      ∧ z.validB = true ∧ z.fermi = true
      ∧ z.indices = (a.transposeF (calcFuseGroupInfo groups a.duals).perm).conjF.indices
      ∧ z.sym = (a.transposeF (calcFuseGroupInfo groups a.duals).perm).conjF.sym
      ∧ z.charge = (a.transposeF (calcFuseGroupInfo groups a.duals).perm).conjF.charge
      ∧ z.oddpos = (a.transposeF (calcFuseGroupInfo groups a.duals).perm).conjF.oddpos
      ∧ ∀ K shp, Arr.blockShape? z.indices K = some shp → ∀ J, inBox shp J = true →
          z.elem K J = sgnI (Lazy.flipSign a.sym (mmAxes a groups) K)
            ((a.transposeF (calcFuseGroupInfo groups a.duals).perm).conjF.elem K J) := by
  have hok := groupsOk_iff.1 hg
  have hfld := signAdj_fields a groups
  have hnd4 : (signAdj a groups).ndim = a.ndim := by
    show (signAdj a groups).indices.length = a.ndim
    rw [hfld.2.1]; exact permutedM_length hok a.indices rfl
  have hd4 : (signAdj a groups).duals.length = a.duals.length := by
    rw [duals_length, duals_length, hnd4]
  have hok4 : GroupsOk (newGroupsF groups a.duals) (signAdj a groups).ndim := by
    rw [hnd4, ← duals_length]; exact newGroupsF_ok (hokD hok)
  obtain ⟨hpos, _, _⟩ := newGroups_plan (hokD hok) hd4
  have hlen : (newGroupsF groups a.duals).length = groups.length := newGroupsF_length _ _
  have hposM : (giM (signAdj a groups) (newGroupsF groups a.duals)).position
      = (calcFuseGroupInfo groups a.duals).position := hpos
  have hplain4 : ∀ ix ∈ (signAdj a groups).indices, ix.sub = none := by
    intro ix hix; rw [hfld.2.1] at hix; exact hplain ix (mem_permuted hix)
  -- last group first, as value views
  obtain ⟨y, w, hy, hw, hwv, hwT⟩ := C05.unfuseGroupsF_fuseF_veq a groups e hv hf hg
  obtain ⟨hy0, _⟩ := fuseF_elemT a groups e hv hf hok
  rw [hy0] at hy
  simp only [Except.ok.injEq] at hy
  subst hy
  have hyV : (fusedArrM (signAdj a groups) (newGroupsF groups a.duals)).validB = true :=
    (ValidP.validB_iff _).2 (ValidP.fuseF_valid a _ groups e ((ValidP.validB_iff a).1 hv) hf
      (admissible_of_groupsOk hok) hy0)
  have hyf : (fusedArrM (signAdj a groups) (newGroupsF groups a.duals)).fermi = true := by
    show (signAdj a groups).fermi = true; rw [hfld.2.2.2.1]; exact hf
  have hysym : (fusedArrM (signAdj a groups) (newGroupsF groups a.duals)).sym = a.sym := hfld.2.2.1
  set y := fusedArrM (signAdj a groups) (newGroupsF groups a.duals) with hydef
  have hyi : y.indices = newIdxM (signAdj a groups) (newGroupsF groups a.duals) := rfl
  -- the fused axes of `y`
  have hfa := fusedArrM_fusedAtL (a := signAdj a groups) hok4
  rw [hposM, multiPL_newGroupsF] at hfa
  have hfused : ∀ g', g' < groups.length → multiB groups g' = true →
      ∃ ix subs exts, y.indices[(calcFuseGroupInfo groups a.duals).position + g']? = some ix
        ∧ ix.sub = some (subs, exts) ∧ 0 < subs.length := by
    intro g' hg' hm
    obtain ⟨hL, ix, subs, exts, h1, h2, h3⟩ := hfa ((calcFuseGroupInfo groups a.duals).position + g',
        (groups.getD g' []).length)
      (List.mem_map.2 ⟨g', List.mem_filter.2 ⟨List.mem_range.2 hg', hm⟩, rfl⟩)
    exact ⟨ix, subs, exts, by simpa using h1, h2, by rw [h3]; exact hL⟩
  -- the relation through the run
  obtain ⟨w', z, hw', hz, hrel⟩ := CRel.run y.indices groups (calcFuseGroupInfo groups a.duals).position
    groups.length y y.conjF [] (CRel.base y hyV hyf) (by simp) (fun _ _ => rfl) hfused
  rw [runR_eq] at hw' hz
  have hw'' : C05.unfuseGroupsF groups (calcFuseGroupInfo groups a.duals).position y = .ok w' := hw'
  rw [hw] at hw''
  simp only [Except.ok.injEq] at hw''
  subst hw''
  -- `unfuse_all` on the conjugate is that run
  have hycv : y.conjF.validB = true := C01.conjF_valid y true false hyV hyf
  have hycf : y.conjF.fermi = true := by rw [(conjF_frame y true false).2.1]; exact hyf
  have hall : Arr.unfuseAllF y.conjF
      = C05.unfuseGroupsF groups (calcFuseGroupInfo groups a.duals).position y.conjF := by
    apply unfuseAllF_eq_groups groups _ _ hycv hycf
    · show _ ≤ y.conjF.indices.length
      rw [(conjF_frame y true false).2.2.1, List.length_map, hyi, newIdxM_length hok4]
      simp only [ndimM, hposM, hlen]; omega
    · intro ax ix hix
      rw [(conjF_frame y true false).2.2.1, List.getElem?_map] at hix
      cases hq : y.indices[ax]? with
      | none => rw [hq] at hix; cases hix
      | some ix0 =>
        rw [hq] at hix
        simp only [Option.map_some, Option.some.injEq] at hix
        subst hix
        rw [conj_sub_isSome, newIdxM_fused_axes hok4 hplain4 ax ix0 hq, hposM]
        congr 1
        exact multiB_newGroupsF groups a.duals _
  have hT := conjF_veq hwT hwv (by
      have hisp : Arr.isPerm (calcFuseGroupInfo groups a.duals).perm a.ndim = true := by
        have := perm_isPerm (hokD hok); rwa [duals_length] at this
      exact (ValidP.validB_iff _).2 (ValidP.transposeF_valid a _ true ((ValidP.validB_iff a).1 hv) hf hisp))
    hrel.wf
  refine ⟨y, z, hy0, by rw [hall]; exact hz, hrel.zv, hrel.zf, by rw [hrel.idx, hT.indices],
    by rw [hrel.sym, hT.sym], by rw [hrel.charge, hT.charge], by rw [hrel.oddpos, hT.oddpos], ?_⟩
  intro K shp hK J hJ
  rw [hrel.elem K shp hK J hJ, hT.elem]
  have hws : w.sym = a.sym := hwT.sym
  rw [hws]
  rfl

end FuseP
end SymmModel
