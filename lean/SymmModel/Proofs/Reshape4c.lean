/-
  SymmModel.Proofs.Reshape4c — the exact round trip of `reshape` for one merged run of adjacent axes,
  fermionic arrays: `reshape` there is `fuse((p,…,p+n-1))`, `reshape` back is `unfuse(p)`, and
  `C05.unfuseF_fuseF` says that the signs cancel.
-/
import SymmModel.Proofs.Reshape4b
import SymmModel.Props.C05d
import SymmModel.Proofs.NormLemmas

namespace SymmModel
namespace Reshape4
open C07 ReshapeP

variable {R : Type}

/-- `z` is `a` again: same kind, indices, symmetry, charge, labels; every stored sector of `a` is
    stored with the same block shape and — pending signs included — the same values; every
    additional stored block has value zero -/
structure Restored [Zero R] [Neg R] (a z : Arr R) : Prop where
  valid : z.validB = true
  fermi : z.fermi = a.fermi
  indices : z.indices = a.indices
  sym : z.sym = a.sym
  charge : z.charge = a.charge
  oddpos : z.oddpos = a.oddpos
  stored : ∀ s b, (s, b) ∈ a.blocks → ∃ V, alookup z.blocks s = some V ∧ V.shape = b.shape
    ∧ ∀ J, inBox V.shape J = true → z.elem s J = a.elem s J
  extra : ∀ K V, alookup z.blocks K = some V → (∀ s b, (s, b) ∈ a.blocks → K ≠ s) →
    ∀ J, inBox V.shape J = true → z.elem K J = 0

theorem symFuse_single (st : SymShape) (p n : Nat) (hn : 1 ≤ n) (hle : p + n ≤ st.length) :
    symFuse st [List.range' p n]
      = some (st.take p ++ [symGroup st (List.range' p n)] ++ st.drop (p + n)) := by
  obtain ⟨m, rfl⟩ : ∃ m, n = m + 1 := ⟨n - 1, by omega⟩
  unfold symFuse
  simp only [List.flatten_cons, List.flatten_nil, List.append_nil]
  rw [List.range'_succ]
  simp only [List.all_cons, List.all_nil, List.isEmpty_cons, Bool.not_false, Bool.and_true,
    Bool.true_and, List.length_cons, List.length_range']
  rw [← List.range'_succ, beqNats_refl]
  have : Nat.ble (p + (m + 1)) st.length = true := Nat.ble_eq_true_of_le hle
  simp [this]

theorem groupsOk_single (p n N : Nat) (hn : 1 ≤ n) (hle : p + n ≤ N) :
    FuseP.groupsOkB [List.range' p n] N = true := by
  rw [FuseP.groupsOk_iff]
  refine ⟨by simp, ?_, ?_, ?_⟩
  · intro g hg
    rw [List.mem_singleton.mp hg]
    intro hc
    have := congrArg List.length hc
    simp at this; omega
  · intro ax hax
    simp only [List.flatten_cons, List.flatten_nil, List.append_nil, List.mem_range'_1] at hax
    omega
  · simp only [List.flatten_cons, List.flatten_nil, List.append_nil]
    exact List.nodup_range'

/-- **fermionic round trip, one merged run**: `fuse((p,…,p+n-1))` by the forward plan, then
    `reshape` to the original shape -/
theorem roundtrip_fermionic_single [Zero R] [Neg R] [Lazy.LawfulNeg R] (a : Arr R) (p n : Nat)
    (hv : a.validB = true) (hf : a.fermi = true) (hnf : ∀ ix ∈ a.indices, ix.sub = none)
    (hn : 2 ≤ n) (hle : p + n ≤ a.ndim) :
    ∃ y z, applyPlan a ([], [[List.range' p n]], []) = .ok y
      ∧ reshapeArr y (a.shape.map Int.ofNat) = .ok z ∧ Restored a z := by
  have hgok := groupsOk_single p n a.ndim (by omega) hle
  obtain ⟨y, z, hy, hz, hzv, hzf, hzi, hzs, hzc, hzo, hst, hex⟩ :=
    C05.unfuseF_fuseF a [List.range' p n] true hv hf hgok
  -- the group info of one consecutive run
  have hdl := FuseP.duals_length a
  obtain ⟨hb, _, hperm⟩ := ValidP.groupInfo_consecutive (groups := [List.range' p n]) (duals := a.duals)
    (p := p) (n := n) (by simp) (by omega) (by rw [hdl]; exact hle)
  rw [hdl] at hperm
  have hpos : (calcFuseGroupInfo [List.range' p n] a.duals).position = p := by
    obtain ⟨_, _, _, _, _, hb', _⟩ := C05.calcFuseGroupInfo_perm [List.range' p n] a.duals
      (by rw [hdl]; exact hgok)
    have := congrArg List.length (hb'.symm.trans hb)
    simpa using this
  rw [hpos] at hz
  rw [hperm] at hzi hst hex
  -- the plan there
  have hfwd : applyPlan a ([], [[List.range' p n]], []) = .ok y := by
    simp only [applyPlan, List.foldlM_cons, List.foldlM_nil, bind, Except.bind, pure, Except.pure,
      fuseDispatch, hf, if_true]
    rw [hy]
  -- unfusing the one group
  have hzu : Arr.unfuseF y p = .ok z := by
    have hm : FuseP.multiB [List.range' p n] 0 = true :=
      FuseP.multiB_iff.2 ⟨_, rfl, by simp; omega⟩
    unfold C05.unfuseGroupsF at hz
    have e0 : (List.range [List.range' p n].length).reverse = [0] := rfl
    rw [e0] at hz
    simp only [List.foldlM_cons, List.foldlM_nil, hm, if_true, Nat.add_zero, bind, Except.bind,
      pure, Except.pure] at hz
    cases hu : Arr.unfuseF y p with
    | error e => rw [hu] at hz; cases hz
    | ok v => rw [hu] at hz; exact hz
  obtain ⟨ix, subIdx, exts, hix, hsub, hzidx, _⟩ := ValidP.unfuseF_indices hzu
  -- indices of `z` are the indices of `a`
  have hfull := Lazy.Full.of_valid hv hf
  have hobs := Norm.transposeF_id_obsEq hfull (Lazy.ShapeLen.of_valid hv)
  have hzia : z.indices = a.indices := by rw [hzi]; exact hobs.indices
  -- number of axes of `y`
  have hsim := ValidP.sim_init a
  have hsl : (a.shape.zip a.subsizes).length = a.ndim := by
    rw [← ValidP.Sim.ndim_eq hsim]
  have hsf := symFuse_single (a.shape.zip a.subsizes) p n (by omega) (by rw [hsl]; exact hle)
  have hyd : fuseDispatch a [List.range' p n] = .ok y := by
    simp only [fuseDispatch, hf, if_true]; exact hy
  obtain ⟨hsy, hyf⟩ := ValidP.fuseDispatch_sim hsim hsf hyd
  have hynd : y.ndim = p + 1 + (a.ndim - (p + n)) := by
    rw [← ValidP.Sim.ndim_eq hsy]
    simp [hsl, Nat.min_eq_left (by omega : p ≤ a.ndim)]
    omega
  have hsn : subIdx ≠ [] := by
    intro hc
    have h1 := congrArg List.length hzidx
    rw [hzia, hc] at h1
    have hp := (List.getElem?_eq_some_iff.mp hix).1
    simp only [replaceWithSeq, List.append_nil, List.length_append, List.length_take,
      List.length_drop] at h1
    have : a.indices.length = a.ndim := rfl
    have : y.indices.length = y.ndim := rfl
    omega
  have hidx : a.indices = replaceWithSeq y.indices p subIdx := by rw [← hzia, hzidx]
  have hback : reshapeArr y (a.shape.map Int.ofNat) = .ok z := by
    rw [reshape_back_eq y a p ix subIdx exts hix hsub hsn hidx hnf]
    simp only [unfuseDispatch, hyf, hf, if_true]
    exact hzu
  refine ⟨y, z, hfwd, hback, hzv, by rw [hzf, hf], hzia, hzs, hzc, hzo, ?_, ?_⟩
  · intro s b hsb
    have hsl' : s.length = a.ndim := hfull.len s (List.mem_map_of_mem (f := (·.1)) hsb)
    have hbl : b.shape.length = a.ndim := Lazy.ShapeLen.of_valid hv _ hsb
    have e1 : permuted s (List.range a.ndim) = s := by rw [← hsl']; exact Lazy.permuted_range s
    have e2 : permuted b.shape (List.range a.ndim) = b.shape := by
      rw [← hbl]; exact Lazy.permuted_range b.shape
    obtain ⟨V, hV, hVs, hVe⟩ := hst s b hsb
    rw [e1] at hV hVe
    rw [e2] at hVs
    exact ⟨V, hV, hVs, fun J hJ => (hVe J hJ).trans (hobs.elem s J)⟩
  · intro K V hl hK J hJ
    refine (hex K V hl (fun s b hsb => ?_) J hJ).1
    have hsl' : s.length = a.ndim := hfull.len s (List.mem_map_of_mem (f := (·.1)) hsb)
    have e1 : permuted s (List.range a.ndim) = s := by rw [← hsl']; exact Lazy.permuted_range s
    rw [e1]; exact hK s b hsb

end Reshape4
end SymmModel
