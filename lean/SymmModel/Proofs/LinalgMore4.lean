/-
  SymmModel.Proofs.LinalgMore4 — absorbing the singular values into the factors
  (`svd_truncated`, symmray/linalg.py:368-381) and the array-level form of C13's
  "the three absorb options give the same product".
-/
import SymmModel.Proofs.LinalgMore3
import SymmModel.Proofs.LinalgTrunc
import SymmModel.Props.C13

namespace SymmModel

variable {R : Type}

/-- the `absorb` argument: `-1`/"left", `1`/"right", `0`/"both" -/
inductive Absorb where
  | left | right | both
  deriving DecidableEq, Repr

/-- update `d[k] = f(d[k])` on an insertion-ordered dict (no-op where Python raises `KeyError`;
    the callers guard) -/
def aupdate {κ β : Type} [BEq κ] (d : List (κ × β)) (k : κ) (f : β → β) : List (κ × β) :=
  match alookup d k with
  | some v => ainsert d k (f v)
  | none => d

/-- one pass of the loop `for c0, c1 in U.sectors:` (linalg.py:368-381) on the two block
    dictionaries `(U.blocks, VH.blocks)`; `sqrtK` is the backend's elementwise `sqrt` -/
def absorbStep [Zero R] [Mul R] (mode : Absorb) (sqrtK : Blk R → Blk R) (sv : BVec R)
    (st : List (Sector × Blk R) × List (Sector × Blk R)) (sec : Sector) :
    List (Sector × Blk R) × List (Sector × Blk R) :=
  let c1 := sec.getD 1 (0, 0)
  match alookup sv.blocks c1 with
  | none => st
  | some sb =>
    match mode with
    | .left => (aupdate st.1 sec (fun ub => ub.mulAxisK sb 1), st.2)
    | .right => (st.1, aupdate st.2 [c1, c1] (fun vb => vb.mulAxisK sb 0))
    | .both =>
      let r := sqrtK sb
      (aupdate st.1 sec (fun ub => ub.mulAxisK r 1), aupdate st.2 [c1, c1] (fun vb => vb.mulAxisK r 0))

/-- `U, VH` after absorbing `s` (`absorb ≠ None`) -/
def absorbA [Zero R] [Mul R] (mode : Absorb) (sqrtK : Blk R → Blk R) (u : Arr R) (sv : BVec R)
    (vh : Arr R) : Arr R × Arr R :=
  let st := u.sectors.foldl (absorbStep mode sqrtK sv) (u.blocks, vh.blocks)
  ({ u with blocks := st.1 }, { vh with blocks := st.2 })

namespace LinalgLemmas

/-! ### updating every entry of a dict once -/
section Upd
variable {α κ β : Type} [BEq κ] [LawfulBEq κ]

theorem alookup_append_right (l1 l2 : List (κ × β)) (k : κ) (h : k ∉ l1.map (·.1)) :
    alookup (l1 ++ l2) k = alookup l2 k := by
  induction l1 with
  | nil => rfl
  | cons p l ih =>
    obtain ⟨k1, v1⟩ := p
    simp only [List.map_cons, List.mem_cons, not_or] at h
    have : (k1 == k) = false := by simp; exact fun e => h.1 e.symm
    simp only [List.cons_append, alookup, this, Bool.false_eq_true, if_false, ih h.2]

theorem ainsert_append_right (l1 l2 : List (κ × β)) (k : κ) (v : β) (h : k ∉ l1.map (·.1)) :
    ainsert (l1 ++ l2) k v = l1 ++ ainsert l2 k v := by
  induction l1 with
  | nil => rfl
  | cons p l ih =>
    obtain ⟨k1, v1⟩ := p
    simp only [List.map_cons, List.mem_cons, not_or] at h
    have : (k1 == k) = false := by simp; exact fun e => h.1 e.symm
    simp only [List.cons_append, ainsert, this, Bool.false_eq_true, if_false, ih h.2]

theorem fold_update_aux (key : α → κ) (val : α → β) (F : α → β → β) (pre suf : List α)
    (hnd : ((pre ++ suf).map key).Nodup) :
    suf.foldl (fun acc p => aupdate acc (key p) (F p))
        (pre.map (fun p => (key p, F p (val p))) ++ suf.map (fun p => (key p, val p)))
      = (pre ++ suf).map (fun p => (key p, F p (val p))) := by
  induction suf generalizing pre with
  | nil => simp
  | cons p suf ih =>
    have hk : key p ∉ (pre.map (fun p => (key p, F p (val p)))).map (·.1) := by
      rw [List.map_map]
      intro hm
      rw [List.map_append, List.map_cons] at hnd
      exact (List.nodup_append.mp hnd).2.2 _ hm _ List.mem_cons_self rfl
    simp only [List.foldl_cons, List.map_cons]
    have hl : alookup (pre.map (fun p => (key p, F p (val p))) ++ (key p, val p) ::
        suf.map (fun p => (key p, val p))) (key p) = some (val p) := by
      rw [alookup_append_right _ _ _ hk]; simp [alookup]
    have hstep : aupdate (pre.map (fun p => (key p, F p (val p))) ++ (key p, val p) ::
        suf.map (fun p => (key p, val p))) (key p) (F p)
        = (pre ++ [p]).map (fun p => (key p, F p (val p))) ++ suf.map (fun p => (key p, val p)) := by
      unfold aupdate
      rw [hl]
      simp only
      rw [ainsert_append_right _ _ _ _ hk]
      simp [ainsert]
    rw [hstep, ih (pre ++ [p]) (by simpa using hnd)]
    simp

/-- visiting every key of a dict with distinct keys once and replacing its value -/
theorem fold_update_all (key : α → κ) (val : α → β) (F : α → β → β) (l : List α)
    (hnd : (l.map key).Nodup) :
    l.foldl (fun acc p => aupdate acc (key p) (F p)) (l.map (fun p => (key p, val p)))
      = l.map (fun p => (key p, F p (val p))) := by
  have := fold_update_aux key val F [] l (by simpa using hnd)
  simpa using this

theorem foldl_pair {σ τ ι : Type} (f1 : σ → ι → σ) (f2 : τ → ι → τ) (l : List ι) (a : σ) (b : τ) :
    l.foldl (fun st p => (f1 st.1 p, f2 st.2 p)) (a, b) = (l.foldl f1 a, l.foldl f2 b) := by
  induction l generalizing a b with
  | nil => rfl
  | cons p l ih => simp only [List.foldl_cons, ih]

theorem foldl_id {σ ι : Type} (l : List ι) (a : σ) : l.foldl (fun acc _ => acc) a = a := by
  induction l with
  | nil => rfl
  | cons p l ih => simp [ih]

end Upd

/-! ### factors aligned with a list of items -/

/-- `u`, `s`, `vh` store, for every item `p` of `l` (a stored block of the decomposed matrix, or
    a kept block after truncation), a block at `sec p`, at the column charge of `sec p` and at
    the diagonal sector of that column charge -/
structure Aligned {α : Type} (l : List α) (sec : α → Sector) (ub sb vb : α → Blk R)
    (u : Arr R) (sv : BVec R) (vh : Arr R) : Prop where
  hlen : ∀ p ∈ l, (sec p).length = 2
  hsec : (l.map sec).Nodup
  hcol : (l.map (fun p => colOf (sec p))).Nodup
  hu : u.blocks = l.map (fun p => (sec p, ub p))
  hs : sv.blocks = l.map (fun p => (colOf (sec p), sb p))
  hv : vh.blocks = l.map (fun p => ([colOf (sec p), colOf (sec p)], vb p))

def absU [Zero R] [Mul R] (mode : Absorb) (sqrtK : Blk R → Blk R) (ub sb : Blk R) : Blk R :=
  match mode with
  | .left => ub.mulAxisK sb 1
  | .right => ub
  | .both => ub.mulAxisK (sqrtK sb) 1

def absV [Zero R] [Mul R] (mode : Absorb) (sqrtK : Blk R → Blk R) (vb sb : Blk R) : Blk R :=
  match mode with
  | .left => vb
  | .right => vb.mulAxisK sb 0
  | .both => vb.mulAxisK (sqrtK sb) 0

theorem aupdate_id {κ β : Type} [BEq κ] [LawfulBEq κ] (d : List (κ × β)) (k : κ) :
    aupdate d k (fun v => v) = d := by
  unfold aupdate
  cases h : alookup d k with
  | none => rfl
  | some v =>
    simp only
    induction d with
    | nil => simp [alookup] at h
    | cons p d ih =>
      obtain ⟨k1, v1⟩ := p
      simp only [alookup] at h
      by_cases e : (k1 == k) = true
      · simp only [e, if_true, Option.some.injEq] at h
        simp only [ainsert, e, if_true, h]
      · simp only [e, Bool.false_eq_true, if_false] at h
        simp only [ainsert, e, Bool.false_eq_true, if_false, ih h]

/-- closed form of the absorb loop on aligned factors -/
theorem absorbA_eq [Zero R] [Mul R] {α : Type} {l : List α} {sec : α → Sector}
    {ub sb vb : α → Blk R} {u : Arr R} {sv : BVec R} {vh : Arr R}
    (A : Aligned l sec ub sb vb u sv vh) (mode : Absorb) (sqrtK : Blk R → Blk R) :
    absorbA mode sqrtK u sv vh
      = ({ u with blocks := l.map (fun p => (sec p, absU mode sqrtK (ub p) (sb p))) },
         { vh with blocks := l.map (fun p =>
             ([colOf (sec p), colOf (sec p)], absV mode sqrtK (vb p) (sb p))) }) := by
  have hdiag : (l.map (fun p => [colOf (sec p), colOf (sec p)])).Nodup := by
    have h' := nodup_map_of_inj _ (fun c : Charge => [c, c]) A.hcol
      (fun a _ b _ e => (List.cons.inj e).1)
    simpa [List.map_map, Function.comp_def] using h'
  have hskeys : (sv.blocks.map (·.1)).Nodup := by
    rw [A.hs, List.map_map]; exact A.hcol
  have hstep : ∀ st, ∀ p ∈ l, absorbStep mode sqrtK sv st (sec p)
      = (aupdate st.1 (sec p) (fun b => absU mode sqrtK b (sb p)),
         aupdate st.2 [colOf (sec p), colOf (sec p)] (fun b => absV mode sqrtK b (sb p))) := by
    intro st p hp
    have hl : alookup sv.blocks (colOf (sec p)) = some (sb p) := by
      apply alookup_of_mem_nodup hskeys
      rw [A.hs]; exact List.mem_map.mpr ⟨p, hp, rfl⟩
    unfold absorbStep
    simp only [colOf] at hl ⊢
    rw [hl]
    cases mode with
    | left => simp only [absU, absV, aupdate_id]
    | right => simp only [absU, absV, aupdate_id]
    | both => simp only [absU, absV]
  have hfold : u.sectors.foldl (absorbStep mode sqrtK sv) (u.blocks, vh.blocks)
      = (l.map (fun p => (sec p, absU mode sqrtK (ub p) (sb p))),
         l.map (fun p => ([colOf (sec p), colOf (sec p)], absV mode sqrtK (vb p) (sb p)))) := by
    have hs : u.sectors = l.map sec := by
      simp [Arr.sectors, A.hu, List.map_map, Function.comp_def]
    rw [hs, List.foldl_map,
      foldl_ext' _ (fun st p => (aupdate st.1 (sec p) (fun b => absU mode sqrtK b (sb p)),
         aupdate st.2 [colOf (sec p), colOf (sec p)] (fun b => absV mode sqrtK b (sb p)))) _ l hstep,
      foldl_pair (fun acc p => aupdate acc (sec p) (fun b => absU mode sqrtK b (sb p)))
        (fun acc p => aupdate acc [colOf (sec p), colOf (sec p)] (fun b => absV mode sqrtK b (sb p))),
      A.hu, A.hv,
      fold_update_all sec ub (fun p b => absU mode sqrtK b (sb p)) l A.hsec,
      fold_update_all (fun p => [colOf (sec p), colOf (sec p)]) vb
        (fun p b => absV mode sqrtK b (sb p)) l hdiag]
  unfold absorbA
  simp only [hfold]

/-! ### the product of aligned factors -/

theorem tdot_blocks_items [Zero R] [Add R] [Mul R] {α : Type} (l : List α) (sec : α → Sector)
    (hlen : ∀ p ∈ l, (sec p).length = 2) (hsec : (l.map sec).Nodup)
    (hcol : (l.map (fun p => colOf (sec p))).Nodup) (fA fB : α → Blk R) (a b : Arr R)
    (ha : a.blocks = l.map (fun p => (sec p, fA p)))
    (hb : b.blocks = l.map (fun p => ([colOf (sec p), colOf (sec p)], fB p))) :
    (tensordotBlockwise a b [0] [1] [0] [1]).blocks
      = l.map (fun p => (sec p, (fA p).tensordotK (fB p) [1] [0])) := by
  have hpairs : (a.blocks.flatMap (fun (sa, ba) =>
      let ka := permuted sa [1]
      (b.blocks.filter (fun (sb, _) => permuted sb [0] == ka)).map (fun (sb, bb) =>
        (permuted sa [0] ++ permuted sb [1], ba, bb))))
      = l.map (fun p => (sec p, fA p, fB p)) := by
    rw [ha, hb, List.flatMap_map]
    apply flatMap_eq_map_of_singleton
    intro p hp
    obtain ⟨r, c, hs⟩ := length_two (hlen p hp)
    simp only [List.filter_map]
    have hf : l.filter ((fun (q : Sector × Blk R) => permuted q.1 [0] == permuted (sec p) [1])
        ∘ fun p => ([colOf (sec p), colOf (sec p)], fB p)) = [p] := by
      apply filter_key_eq_singleton l (fun p => colOf (sec p)) hcol hp
      intro q _
      simp only [Function.comp, hs, colOf]
      show ([((sec q).getD 1 (0, 0))] == [c]) = true ↔ _
      simp
    rw [hf]
    simp only [List.map_cons, List.map_nil, hs, colOf]
    rfl
  unfold tensordotBlockwise
  simp only []
  rw [hpairs]
  have := accum_fold (R := R) [1] [0] (l.map (fun p => (sec p, fA p, fB p))) []
    (by simpa [List.map_map, Function.comp_def] using hsec)
  simp only [List.nil_append, List.map_map, Function.comp_def] at this
  exact this

/-- shapes of the three blocks of an item: `[m, k]`, `[k]`, `[k, n]` -/
def ItemShape (ub sb vb : Blk R) (m k n : Nat) : Prop :=
  ub.shape = [m, k] ∧ sb.shape = [k] ∧ vb.shape = [k, n]

theorem mulAxisK0_get [Zero R] [Mul R] (b v : Blk R) {k n : Nat} (hb : b.shape = [k, n])
    {t j : Nat} (ht : t < k) (hj : j < n) :
    (b.mulAxisK v 0).get [t, j] = b.get [t, j] * v.get [t] := by
  unfold Blk.mulAxisK
  rw [hb, ofFn_get _ _ ((inBox_pair k n t j).mpr ⟨ht, hj⟩)]
  rfl

/-- entry of the product of the absorbed blocks, for the three modes -/
theorem absorbed_entry [CommRing R] (mode : Absorb) (sqrtK : Blk R → Blk R) {ub sb vb : Blk R}
    {m k n : Nat} (hsh : ItemShape ub sb vb m k n)
    (hsq : mode = .both → (sqrtK sb).shape = [k]
      ∧ ∀ t, t < k → (sqrtK sb).get [t] * (sqrtK sb).get [t] = sb.get [t])
    {i j : Nat} (hi : i < m) (hj : j < n) :
    ((absU mode sqrtK ub sb).tensordotK (absV mode sqrtK vb sb) [1] [0]).get [i, j]
      = (List.range k).foldl (fun acc t => acc + (ub.get [i, t] * sb.get [t]) * vb.get [t, j]) 0 := by
  obtain ⟨h1, h2, h3⟩ := hsh
  cases mode with
  | left =>
    simp only [absU, absV]
    rw [tensordotK_matmul_get _ _ (by rw [mulAxisK_shape]; exact h1) h3 hi hj]
    apply foldl_ext'
    intro acc t ht
    rw [mulAxisK_get _ _ h1 hi (List.mem_range.mp ht)]
  | right =>
    simp only [absU, absV]
    rw [tensordotK_matmul_get _ _ h1 (by rw [mulAxisK_shape]; exact h3) hi hj]
    apply foldl_ext'
    intro acc t ht
    rw [mulAxisK0_get _ _ h3 (List.mem_range.mp ht) hj]
    ring
  | both =>
    simp only [absU, absV]
    rw [tensordotK_matmul_get _ _ (by rw [mulAxisK_shape]; exact h1)
      (by rw [mulAxisK_shape]; exact h3) hi hj]
    apply foldl_ext'
    intro acc t ht
    have ht' := List.mem_range.mp ht
    rw [mulAxisK_get _ _ h1 hi ht', mulAxisK0_get _ _ h3 ht' hj]
    have := (C13.absorb_same_product (ub.get [i, t]) ((sqrtK sb).get [t]) (sb.get [t])
      (vb.get [t, j]) ((hsq rfl).2 t ht')).1
    rw [← this]
    ring

/-- **array level.**  For factors aligned with the items `l`, whatever the absorb mode the
    blockwise product of the absorbed factors stores, at every item's sector and every offset of
    its `m × n` box, the entry `Σ_t (u[i,t] · s[t]) · vh[t,j]` — the same for the three modes —
    and it has the same sectors, and the same pending signs, so the same value view. -/
theorem absorb_product [CommRing R] {α : Type} {l : List α} {sec : α → Sector}
    {ub sb vb : α → Blk R} {u : Arr R} {sv : BVec R} {vh : Arr R}
    (A : Aligned l sec ub sb vb u sv vh) (sqrtK : Blk R → Blk R)
    (dims : α → Nat × Nat × Nat)
    (hsh : ∀ p ∈ l, ItemShape (ub p) (sb p) (vb p) (dims p).1 (dims p).2.1 (dims p).2.2)
    (mode : Absorb)
    (hsq : mode = .both → ∀ p ∈ l, (sqrtK (sb p)).shape = [(dims p).2.1]
      ∧ ∀ t, t < (dims p).2.1 → (sqrtK (sb p)).get [t] * (sqrtK (sb p)).get [t] = (sb p).get [t]) :
    let P := tensordotBlockwise (absorbA mode sqrtK u sv vh).1 (absorbA mode sqrtK u sv vh).2
      [0] [1] [0] [1]
    P.phases = u.phases ∧ P.sectors = l.map sec ∧
    ∀ p ∈ l, ∀ i j, i < (dims p).1 → j < (dims p).2.2 →
      P.elem (sec p) [i, j]
        = (if alookup u.phases (sec p) == some (-1) then
            - (List.range (dims p).2.1).foldl
                (fun acc t => acc + ((ub p).get [i, t] * (sb p).get [t]) * (vb p).get [t, j]) 0
           else (List.range (dims p).2.1).foldl
                (fun acc t => acc + ((ub p).get [i, t] * (sb p).get [t]) * (vb p).get [t, j]) 0) := by
  intro P
  have hP : P.blocks = l.map (fun p => (sec p,
      (absU mode sqrtK (ub p) (sb p)).tensordotK (absV mode sqrtK (vb p) (sb p)) [1] [0])) := by
    show (tensordotBlockwise _ _ [0] [1] [0] [1]).blocks = _
    rw [absorbA_eq A mode sqrtK]
    exact tdot_blocks_items l sec A.hlen A.hsec A.hcol _ _ _ _ rfl rfl
  have hph : P.phases = u.phases := by
    show (tensordotBlockwise _ _ [0] [1] [0] [1]).phases = _
    rw [absorbA_eq A mode sqrtK]; rfl
  refine ⟨hph, by simp [Arr.sectors, hP, List.map_map, Function.comp_def], ?_⟩
  intro p hp i j hi hj
  have hnd : (P.blocks.map (·.1)).Nodup := by
    rw [hP, List.map_map]; exact A.hsec
  have hl : alookup P.blocks (sec p) = some ((absU mode sqrtK (ub p) (sb p)).tensordotK
      (absV mode sqrtK (vb p) (sb p)) [1] [0]) := by
    apply alookup_of_mem_nodup hnd
    rw [hP]; exact List.mem_map.mpr ⟨p, hp, rfl⟩
  simp only [Arr.elem, hl, hph]
  rw [absorbed_entry mode sqrtK (hsh p hp) (fun hm => hsq hm p hp) hi hj]

/-- two absorb modes give arrays with the same sectors, pending signs and value view -/
theorem absorb_agree_items [CommRing R] {α : Type} {l : List α} {sec : α → Sector}
    {ub sb vb : α → Blk R} {u : Arr R} {sv : BVec R} {vh : Arr R}
    (A : Aligned l sec ub sb vb u sv vh) (sqrtK : Blk R → Blk R)
    (dims : α → Nat × Nat × Nat)
    (hsh : ∀ p ∈ l, ItemShape (ub p) (sb p) (vb p) (dims p).1 (dims p).2.1 (dims p).2.2)
    (hsq : ∀ p ∈ l, (sqrtK (sb p)).shape = [(dims p).2.1]
      ∧ ∀ t, t < (dims p).2.1 → (sqrtK (sb p)).get [t] * (sqrtK (sb p)).get [t] = (sb p).get [t])
    (m1 m2 : Absorb) :
    let P1 := tensordotBlockwise (absorbA m1 sqrtK u sv vh).1 (absorbA m1 sqrtK u sv vh).2 [0] [1] [0] [1]
    let P2 := tensordotBlockwise (absorbA m2 sqrtK u sv vh).1 (absorbA m2 sqrtK u sv vh).2 [0] [1] [0] [1]
    P1.sectors = P2.sectors ∧ P1.phases = P2.phases ∧
    ∀ s off, (s ∉ l.map sec ∨ ∃ p ∈ l, s = sec p ∧ inBox [(dims p).1, (dims p).2.2] off = true) →
      P1.elem s off = P2.elem s off := by
  intro P1 P2
  obtain ⟨a1, a2, a3⟩ := absorb_product A sqrtK dims hsh m1 (fun _ => hsq)
  obtain ⟨b1, b2, b3⟩ := absorb_product A sqrtK dims hsh m2 (fun _ => hsq)
  refine ⟨a2.trans b2.symm, a1.trans b1.symm, ?_⟩
  intro s off h
  rcases h with h | ⟨p, hp, rfl, hbox⟩
  · have h1 : alookup P1.blocks s = none := by
      rw [alookup_eq_none_iff]; show s ∉ P1.sectors; rw [a2]; exact h
    have h2 : alookup P2.blocks s = none := by
      rw [alookup_eq_none_iff]; show s ∉ P2.sectors; rw [b2]; exact h
    simp only [Arr.elem, h1, h2]
  · obtain ⟨i, j, rfl, hij⟩ := inBox_pair_elim hbox
    rw [a3 p hp i j hij.1 hij.2, b3 p hp i j hij.1 hij.2]

/-! ### the factors of `svdA`, before and after `applyCounts`, are aligned -/

theorem aligned_svd {K : Kernels R} {x : Arr R} (hv : x.validB = true) (h2 : x.ndim = 2) :
    Aligned x.blocks (fun p => p.1) (fun p => (K.svd p.2).1) (fun p => (K.svd p.2).2.1)
      (fun p => (K.svd p.2).2.2)
      (leftF x (fun b => (K.svd b).1)) ⟨x.blocks.map (fun p => (colOf p.1, (K.svd p.2).2.1))⟩
      (rightF x (fun b => (K.svd b).1) (fun b => (K.svd b).2.2)) := by
  obtain ⟨i0, i1, hi⟩ := ndim_two h2
  refine ⟨?_, sectors_nodup hv, ?_, rfl, rfl, rightF_fields.2.2.2.2.1⟩
  · intro p hp
    obtain ⟨r, c, m, n, B⟩ := mat_block hv hi (s := p.1) (b := p.2) hp
    rw [B.hs]; rfl
  · have := colCharges_nodup hv h2
    simpa [Arr.sectors, List.map_map, Function.comp_def, colOf] using this

theorem svd_itemShape {K : Kernels R} (hK : K.ShapeOk) {x : Arr R} (hv : x.validB = true)
    (h2 : x.ndim = 2) : ∀ p ∈ x.blocks,
    ItemShape (K.svd p.2).1 (K.svd p.2).2.1 (K.svd p.2).2.2 (p.2.shape.getD 0 0)
      (min (p.2.shape.getD 0 0) (p.2.shape.getD 1 0)) (p.2.shape.getD 1 0) := by
  obtain ⟨i0, i1, hi⟩ := ndim_two h2
  intro p hp
  obtain ⟨r, c, m, n, B⟩ := mat_block hv hi (s := p.1) (b := p.2) hp
  obtain ⟨a1, _, a3, _, a5, _⟩ := hK.svd p.2 m n B.hshape B.hwf
  simp only [B.hshape, List.getD_cons_zero, List.getD_cons_succ]
  exact ⟨a1, a3, a5⟩

theorem aligned_trunc [Zero R] {K : Kernels R} {x : Arr R} (hv : x.validB = true) (h2 : x.ndim = 2)
    {counts : List Nat} (hlen : counts.length = x.blocks.length) :
    Aligned (kept x counts) (fun t => t.1.1)
      (fun t => ((K.svd t.1.2).1).sliceK [0, 0] [((K.svd t.1.2).1).shape.getD 0 0, t.2])
      (fun t => ((K.svd t.1.2).2.1).sliceK [0] [t.2])
      (fun t => ((K.svd t.1.2).2.2).sliceK [0, 0] [t.2, ((K.svd t.1.2).2.2).shape.getD 1 0])
      (truncU x (fun b => (K.svd b).1) counts) (truncS x (fun b => (K.svd b).2.1) counts)
      (truncV x (fun b => (K.svd b).1) (fun b => (K.svd b).2.2) counts) := by
  obtain ⟨i0, i1, hi⟩ := ndim_two h2
  have hsub : ((kept x counts).map (·.1)).Sublist x.blocks := by
    have := (List.filter_sublist (l := x.blocks.zip counts) (p := fun t => t.2 != 0)).map (·.1)
    rwa [tri_map_fst hlen] at this
  refine ⟨?_, ?_, ?_, rfl, rfl, rfl⟩
  · intro t ht
    obtain ⟨r, c, m, n, B⟩ := mat_block hv hi (s := t.1.1) (b := t.1.2) (kept_mem hlen ht).1
    rw [B.hs]; rfl
  · have e : (kept x counts).map (fun t => t.1.1) = ((kept x counts).map (·.1)).map (·.1) := by
      rw [List.map_map]; rfl
    rw [e]
    exact (sectors_nodup hv).sublist (hsub.map _)
  · have hk := keptCm_keys_nodup (counts := counts) hv h2 hlen
    simpa [keptCm, List.map_map, Function.comp_def] using hk

theorem trunc_itemShape [Zero R] {K : Kernels R} (hK : K.ShapeOk) {x : Arr R}
    (hv : x.validB = true) (h2 : x.ndim = 2) {counts : List Nat}
    (hlen : counts.length = x.blocks.length) : ∀ t ∈ kept x counts,
    ItemShape (((K.svd t.1.2).1).sliceK [0, 0] [((K.svd t.1.2).1).shape.getD 0 0, t.2])
      (((K.svd t.1.2).2.1).sliceK [0] [t.2])
      (((K.svd t.1.2).2.2).sliceK [0, 0] [t.2, ((K.svd t.1.2).2.2).shape.getD 1 0])
      (t.1.2.shape.getD 0 0) t.2 (t.1.2.shape.getD 1 0) := by
  obtain ⟨i0, i1, hi⟩ := ndim_two h2
  intro t ht
  obtain ⟨r, c, m, n, B⟩ := mat_block hv hi (s := t.1.1) (b := t.1.2) (kept_mem hlen ht).1
  obtain ⟨a1, _, a3, _, a5, _⟩ := hK.svd t.1.2 m n B.hshape B.hwf
  simp only [ItemShape, sliceK_shape, a1, a5, B.hshape, List.getD_cons_zero, List.getD_cons_succ,
    and_self]

end LinalgLemmas
end SymmModel
