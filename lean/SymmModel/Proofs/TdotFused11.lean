/-
  SymmModel.Proofs.TdotFused11 — "the kernel call agrees" (`KernelOk`: fused strategy = blockwise,
  value view AND block shapes) as an abstract hypothesis, and `tensordot_fermionic` in fused / auto
  mode derived from it: structure, agreement with blockwise mode, block shapes of the result.
  Namespace `SymmModel.TdotP`.
-/
import SymmModel.Proofs.TdotFused10

namespace SymmModel
namespace TdotP
variable {R : Type}

/-- the fused strategy on `(X, Y)` along `(xa, xb)` succeeds, its result has the value view of the
    blockwise result, distinct sector keys, and every stored block has the shape the operands' free
    legs give for its key -/
def KernelOk [Zero R] [Add R] [Mul R] [Neg R] (X Y : Arr R) (xa xb : List Nat) : Prop :=
  ∃ c, tensordotViaFused X Y (freeAxes X.ndim xa) xa xb (freeAxes Y.ndim xb) = .ok c
    ∧ SameView c (tensordotBlockwise X Y (freeAxes X.ndim xa) xa xb (freeAxes Y.ndim xb))
    ∧ c.sectors.Nodup
    ∧ List.Forall₂ SizeLe c.indices (without X.indices xa ++ without Y.indices xb)
    ∧ ∀ K V, alookup c.blocks K = some V →
        Arr.blockShape? (without X.indices xa ++ without Y.indices xb) K = some V.shape

/-! ### `tensordot_fermionic` from the kernel call -/

open GradedP RoutesP in
/-- the free legs of the prepared operands are the free legs of the original operands -/
theorem prepared_tables [AddMonoid R] [Mul R] [Neg R] [SignRing R] (a b : Arr R) (xa xb : List Nat)
    (h : Adm a b xa xb) :
    without (ValidP.tdF34 a b xa xb).1.phaseSync.indices ((List.range a.ndim).drop (a.ndim - xa.length))
      = without a.indices xa
    ∧ without (ValidP.tdF34 a b xa xb).2.phaseSync.indices (List.range xa.length)
      = without b.indices xb := by
  obtain ⟨ha, hb, hfa, hfb, hsym, hc, hnA, hnB, hA, hB⟩ := h
  have hlen := contractible_len hc
  have props := ValidP.tdF34_props a b xa xb ((ValidP.validB_iff a).mp ha) ((ValidP.validB_iff b).mp hb)
    hfa hfb hnA hnB hA hB
  have hXi : (ValidP.tdF34 a b xa xb).1.phaseSync.indices = permuted a.indices (freeAxes a.ndim xa ++ xa) := by
    show (ValidP.tdF34 a b xa xb).1.indices = _
    rw [props.ia, without_range]
  have hYi : (ValidP.tdF34 a b xa xb).2.phaseSync.indices = permuted b.indices (xb ++ freeAxes b.ndim xb) := by
    show (ValidP.tdF34 a b xa xb).2.indices = _
    rw [props.ib, without_range]
  have hXn : (ValidP.tdF34 a b xa xb).1.phaseSync.indices.length = a.ndim := by
    rw [hXi]; exact left_lengths hnA hA a.indices rfl
  have hYn : (ValidP.tdF34 a b xa xb).2.phaseSync.indices.length = b.ndim := by
    rw [hYi]; exact right_lengths hnB hB b.indices rfl
  constructor
  · rw [without_eq_permuted_freeAxes, without_eq_permuted_freeAxes, hXn, hXi]
    exact left_free hnA hA a.indices rfl
  · rw [without_eq_permuted_freeAxes, without_eq_permuted_freeAxes, hYn, hYi, hlen]
    exact right_free hnB hB b.indices rfl

open GradedP RoutesP in
/-- **structure of `tensordot_fermionic` in fused / auto mode, given the kernel call agrees**:
    the label sort followed by attaching labels and label sign to a core `cm` that has the value
    view of the blockwise core `coreT` and block shapes given by the operands' tables -/
theorem tensordotF_core_of_kernel [AddCommMonoid R] [Mul R] [Neg R] [SignRing R]
    (a b : Arr R) (xa xb : List Nat) (h : Adm a b xa xb)
    (mode : TdotMode) (hmode : mode = .fused ∨ (mode = .auto ∧ xa ≠ []))
    (hK : KernelOk (ValidP.tdF34 a b xa xb).1.phaseSync (ValidP.tdF34 a b xa xb).2.phaseSync
      ((List.range a.ndim).drop (a.ndim - xa.length)) (List.range xa.length)) :
    ∃ cm, SameView cm (coreT a b xa xb) ∧ cm.sectors.Nodup
      ∧ List.Forall₂ SizeLe cm.indices (without a.indices xa ++ without b.indices xb)
      ∧ (∀ K V, alookup cm.blocks K = some V →
          Arr.blockShape? (without a.indices xa ++ without b.indices xb) K = some V.shape)
      ∧ a.tensordotF b (.pair (xa.map Int.ofNat) (xb.map Int.ofNat)) mode
          = (OddposP.mergeOddpos a.parity a.oddpos b.oddpos).map (finish cm) := by
  obtain ⟨_, _, _, _, _, hXn, hYn, _⟩ := prepared_ok a b xa xb h
  obtain ⟨e1, e2⟩ := prepared_tables a b xa xb h
  obtain ⟨ha, hb, hfa, hfb, hsym, hc, hnA, hnB, hA, hB⟩ := h
  have hlen := contractible_len hc
  have props := ValidP.tdF34_props a b xa xb ((ValidP.validB_iff a).mp ha) ((ValidP.validB_iff b).mp hb)
    hfa hfb hnA hnB hA hB
  rw [ValidP.tensordotF_eq a b xa xb mode hlen hA hB]
  have hXpar : (ValidP.tdF34 a b xa xb).1.phaseSync.parity = a.parity := by
    show Sym.parity (ValidP.tdF34 a b xa xb).1.sym (ValidP.tdF34 a b xa xb).1.charge = _
    rw [props.sa, props.ca]; rfl
  have hXodd : (ValidP.tdF34 a b xa xb).1.phaseSync.oddpos = a.oddpos := props.oa
  have hYodd : (ValidP.tdF34 a b xa xb).2.phaseSync.oddpos = b.oddpos := props.ob
  have hcT : coreT a b xa xb = tensordotBlockwise (ValidP.tdF34 a b xa xb).1.phaseSync
      (ValidP.tdF34 a b xa xb).2.phaseSync
      (freeAxes (ValidP.tdF34 a b xa xb).1.phaseSync.ndim ((List.range a.ndim).drop (a.ndim - xa.length)))
      ((List.range a.ndim).drop (a.ndim - xa.length)) (List.range xa.length)
      (freeAxes (ValidP.tdF34 a b xa xb).2.phaseSync.ndim (List.range xa.length)) := rfl
  generalize (ValidP.tdF34 a b xa xb).1.phaseSync = X at *
  generalize (ValidP.tdF34 a b xa xb).2.phaseSync = Y at *
  obtain ⟨cm, hcm, hsv, hnd, hframe, hshape⟩ := hK
  have hk : xa.length ≤ a.ndim := by have := freeAxes_length hnA hA; omega
  have hk' : xb.length ≤ b.ndim := by have := freeAxes_length hnB hB; omega
  have hA' : ∀ i ∈ (List.range a.ndim).drop (a.ndim - xa.length), i < X.ndim := by
    intro i hi; rw [hXn]; exact List.mem_range.mp (List.mem_of_mem_drop hi)
  have hB' : ∀ i ∈ List.range xa.length, i < Y.ndim := by
    intro i hi; rw [hYn]; have := List.mem_range.mp hi; omega
  have hparse := ValidP.parseAxes_nat X.ndim Y.ndim ((List.range a.ndim).drop (a.ndim - xa.length))
    (List.range xa.length) (by simp; omega) hA' hB'
  have hcall : tensordotA X Y (.pair (((List.range a.ndim).drop (a.ndim - xa.length)).map Int.ofNat)
      ((List.range xa.length).map Int.ofNat)) mode = .ok cm := by
    rcases hmode with rfl | ⟨rfl, hne⟩
    · rw [tensordotA_fused' X Y _ _ _ hparse]; exact hcm
    · have hneK : (List.range a.ndim).drop (a.ndim - xa.length) ≠ [] := by
        intro e
        have := congrArg List.length e
        have hxl := List.length_pos_iff.mpr hne
        simp at this; omega
      rw [tensordotA_auto_fused X Y _ _ _ hparse hneK]; exact hcm
  refine ⟨cm, by rw [hcT]; exact hsv, hnd, by rwa [e1, e2] at hframe, ?_, ?_⟩
  · intro K V hl
    have := hshape K V hl
    rwa [e1, e2] at this
  · rw [hcall]
    simp only [bind, Except.bind]
    rw [OddposP.resolveCombinedOddpos_eq, hXpar, hXodd, hYodd]
    rfl

open GradedP RoutesP in
/-- **fused / auto = blockwise for `tensordot_fermionic`, given the kernel call agrees.**  Same
    failure; on success same labels, charge, symmetry, kind, rank; every blockwise sector stored;
    every stored block has the shape given by the operands' index tables; every stored entry
    (pending sign included) equals the blockwise element. -/
theorem tensordotF_modes_of_kernel [AddCommMonoid R] [Mul R] [Neg R] [SignRing R]
    (a b : Arr R) (xa xb : List Nat) (h : Adm a b xa xb)
    (mode : TdotMode) (hmode : mode = .fused ∨ (mode = .auto ∧ xa ≠ []))
    (hK : KernelOk (ValidP.tdF34 a b xa xb).1.phaseSync (ValidP.tdF34 a b xa xb).2.phaseSync
      ((List.range a.ndim).drop (a.ndim - xa.length)) (List.range xa.length)) :
    (∀ e, OddposP.mergeOddpos a.parity a.oddpos b.oddpos = .error e →
        a.tensordotF b (.pair (xa.map Int.ofNat) (xb.map Int.ofNat)) mode = .error e
        ∧ a.tensordotF b (.pair (xa.map Int.ofNat) (xb.map Int.ofNat)) .blockwise = .error e)
    ∧ (∀ r, OddposP.mergeOddpos a.parity a.oddpos b.oddpos = .ok r →
        ∃ rm rb, a.tensordotF b (.pair (xa.map Int.ofNat) (xb.map Int.ofNat)) mode = .ok rm
          ∧ a.tensordotF b (.pair (xa.map Int.ofNat) (xb.map Int.ofNat)) .blockwise = .ok rb
          ∧ rm.oddpos = rb.oddpos ∧ rm.charge = rb.charge ∧ rm.sym = rb.sym ∧ rm.fermi = rb.fermi
          ∧ rm.indices.length = rb.indices.length
          ∧ (∀ s ∈ rb.sectors, s ∈ rm.sectors)
          ∧ rm.sectors.Nodup
          ∧ List.Forall₂ SizeLe rm.indices (without a.indices xa ++ without b.indices xb)
          ∧ (∀ K V, alookup rm.blocks K = some V →
              Arr.blockShape? (without a.indices xa ++ without b.indices xb) K = some V.shape)
          ∧ (∀ K V, alookup rm.blocks K = some V → ∀ J, inBox V.shape J = true →
              rm.elem K J = rb.elem K J)) := by
  obtain ⟨cm, hsv, hnd, hframe, hshape, hcall⟩ := tensordotF_core_of_kernel a b xa xb h mode hmode hK
  have hbw := tensordotF_eq_core a b xa xb h
  have F := coreT_frame a b xa xb h
  rw [hcall, hbw]
  constructor
  · intro e he; rw [he]; exact ⟨rfl, rfl⟩
  · intro r hr
    rw [hr]
    refine ⟨finish cm r, finish (coreT a b xa xb) r, rfl, rfl, ?_⟩
    obtain ⟨g1, g2, g3, g4, g5, g6⟩ := AssocP.finish_fields cm r
    obtain ⟨k1, k2, k3, k4, k5, k6⟩ := AssocP.finish_fields (coreT a b xa xb) r
    have hSm : Lazy.SignOk cm := ⟨hnd, by rw [hsv.phases, F.phases]; exact Lazy.PhOk.nil⟩
    have hSb : Lazy.SignOk (coreT a b xa xb) := AssocP.coreFrame_signOk F
    refine ⟨by rw [g6, k6], by rw [g1, k1, hsv.charge], by rw [g2, k2, hsv.sym],
      by rw [g3, k3, hsv.fermi], by rw [g4, k4, hsv.rank], ?_, by rw [g5]; exact hnd,
      by rw [g4]; exact hframe, ?_, ?_⟩
    · intro s hs; rw [k5] at hs; rw [g5]; exact hsv.sectors s hs
    · intro K V hl
      rw [finish_blocks] at hl
      exact hshape K V hl
    · intro K V hl J hJ
      rw [finish_blocks] at hl
      rw [AssocP.finish_elem cm r hSm, AssocP.finish_elem _ r hSb, hsv.elem K V hl J hJ]

/-- a table-box address lies in the box of every stored block whose shape is the table shape -/
theorem ownBox_of_table {c : Arr R} {idx : List Index}
    (hshape : ∀ K V, alookup c.blocks K = some V → Arr.blockShape? idx K = some V.shape)
    (s : Sector) (o : List Nat) (ho : inBox (Arr.blockShapeD idx s) o = true) :
    ∀ V, alookup c.blocks s = some V → inBox V.shape o = true := by
  intro V hl
  have := hshape s V hl
  unfold Arr.blockShapeD at ho
  rw [this] at ho
  exact ho

end TdotP
end SymmModel
