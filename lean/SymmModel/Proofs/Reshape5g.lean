/-
  SymmModel.Proofs.Reshape5g — the forward plan from the shapes alone: the shape is a concatenation
  of runs, the target has one axis per run (the product of the run); runs of several axes have all
  sizes ≥ 2.  The planner returns no unfuse step, no expansion and exactly the fuse calls `callsR`
  (adjacent merged runs in one call, positions in the coordinates after the previous calls).
-/
import SymmModel.Proofs.Reshape5f
namespace SymmModel.Reshape5
open SymmModel SymmModel.Reshape SymmModel.C07 SymmModel.Reshape4

/-- a run is kept (one axis) or merged (several axes, all of size ≥ 2) -/
def RunOk (r : List Nat) : Prop := r ≠ [] ∧ (r.length ≠ 1 → ∀ d ∈ r, 2 ≤ d)

instance : DecidablePred RunOk := fun r => by unfold RunOk; infer_instance

def labelsR : Nat → List (List Nat) → List Lbl
  | _, [] => []
  | n, r :: rs => if r.length = 1 then Lbl.o :: labelsR n rs
      else List.replicate r.length (Lbl.g n) ++ labelsR (n + 1) rs

def multiLens : List (List Nat) → List Nat
  | [] => []
  | r :: rs => if r.length = 1 then multiLens rs else r.length :: multiLens rs

def hasMulti : List (List Nat) → Bool
  | [] => false
  | r :: rs => if r.length = 1 then hasMulti rs else true

/-- the fuse calls: `i` current axis (coordinates after the calls already issued), `cur` pending groups -/
def callsR : List (List Nat) → Nat → List (List Nat) → List (List (List Nat))
  | [], _, cur => if cur.isEmpty then [] else [cur]
  | r :: rs, i, cur =>
    if r.length = 1 then
      if cur.isEmpty then callsR rs (i + 1) []
      else cur :: callsR rs (i - sumN (cur.map List.length) + cur.length + 1) []
    else callsR rs (i + r.length) (cur ++ [List.range' i r.length])

theorem prod_ge_one {l : List Nat} (h : ∀ d ∈ l, 2 ≤ d) : 1 ≤ prod l := by
  induction l with
  | nil => simp [prod]
  | cons a l ih =>
    have h1 := h a (by simp)
    have h2 := ih (fun d hd => h d (by simp [hd]))
    simp only [prod]
    exact Nat.le_trans (by omega) (Nat.mul_le_mul h1 h2)

theorem prod_ge_two {l : List Nat} (h : ∀ d ∈ l, 2 ≤ d) (hne : l ≠ []) : 2 ≤ prod l := by
  cases l with
  | nil => exact (hne rfl).elim
  | cons a l =>
    have h1 := h a (by simp)
    have h2 := prod_ge_one (fun d hd => h d (by simp [hd]) : ∀ d ∈ l, 2 ≤ d)
    simp only [prod]
    exact Nat.le_trans (by omega) (Nat.mul_le_mul h1 h2)

/-- the inner `while di < dj` loop consumes exactly the rest of the run -/
theorem fuseScan_run (shape : List Nat) (dj : Nat) (lbl : Lbl) :
    ∀ (rest : List Nat) (fuel di i s : Nat) (term : List Lbl), (∀ d ∈ rest, 2 ≤ d) → 1 ≤ di →
      di * prod rest = dj → (shape.drop i).take rest.length = rest → rest.length + 1 ≤ fuel →
      fuseScan shape dj lbl fuel di i s term
        = .ok (dj, i + rest.length, s + rest.length, term ++ List.replicate rest.length lbl) := by
  intro rest
  induction rest with
  | nil =>
    intro fuel di i s term _ _ hp _ hf
    obtain ⟨f, rfl⟩ : ∃ f, fuel = f + 1 := ⟨fuel - 1, by simp at hf; omega⟩
    simp only [prod, Nat.mul_one] at hp
    subst hp
    simp [fuseScan, Nat.blt, pure, Except.pure]
  | cons d r ih =>
    intro fuel di i s term h2 hdi hp hw hf
    obtain ⟨f, rfl⟩ : ∃ f, fuel = f + 1 := ⟨fuel - 1, by simp at hf; omega⟩
    have hd := h2 d (by simp)
    have hr : ∀ d' ∈ r, 2 ≤ d' := fun d' hd' => h2 d' (by simp [hd'])
    have hpr := prod_ge_one hr
    have hi : i < shape.length := by
      rcases Nat.lt_or_ge i shape.length with hc | hc
      · exact hc
      · rw [List.drop_eq_nil_of_le hc] at hw; simp at hw
    rw [List.drop_eq_getElem_cons hi] at hw
    simp only [List.length_cons, List.take_succ_cons, List.cons.injEq] at hw
    have hget : shape[i]? = some d := by rw [List.getElem?_eq_getElem hi, hw.1]
    have hlt : di < dj := by
      rw [← hp]; simp only [prod]
      have : 2 ≤ d * prod r := Nat.le_trans (by omega) (Nat.mul_le_mul hd hpr)
      calc di = di * 1 := by omega
        _ < di * (d * prod r) := Nat.mul_lt_mul_of_pos_left (by omega) (by omega)
    have hb : Nat.blt di dj = true := by simp [Nat.blt]; omega
    simp only [fuseScan, hb, if_true, hget]
    rw [ih f (di * d) (i + 1) (s + 1) (term ++ [lbl]) hr (Nat.le_trans (by omega) (Nat.mul_le_mul hdi hd))
      (by rw [← hp]; simp only [prod]; rw [Nat.mul_assoc]) hw.2 (by simp at hf ⊢; omega)]
    simp only [List.length_cons, List.replicate_succ, List.append_assoc, List.singleton_append,
      Except.ok.injEq, Prod.mk.injEq, and_true, true_and]
    omega

theorem nat_beq_false {a b : Nat} (h : a ≠ b) : Nat.beq a b = false := by
  cases hb : Nat.beq a b with
  | false => rfl
  | true => exact absurd (Nat.eq_of_beq_eq_true hb) h

theorem flatten_getElem (pre : List (List Nat)) (d0 : Nat) (rest : List Nat) (rs : List (List Nat)) :
    (pre ++ (d0 :: rest) :: rs).flatten[pre.flatten.length]? = some d0 := by
  simp [List.flatten_append]

/-- the first loop on a concatenation of runs -/
theorem mainLoop_runs (runs : List (List Nat)) :
    ∀ (rs pre : List (List Nat)) (fuel : Nat) (term : List Lbl) (fs : List Nat) (af : Bool),
      runs = pre ++ rs → rs.length ≤ fuel → (∀ r ∈ rs, RunOk r) →
      mainLoop runs.flatten (runs.map prod) (nones runs.flatten) fuel
          ⟨pre.flatten.length, pre.length, pre.length, term, [], [], fs, [], false, af⟩
        = .ok ⟨runs.flatten.length, runs.length, runs.length, term ++ labelsR fs.length rs, [], [],
               fs ++ multiLens rs, [], false, af || hasMulti rs⟩ := by
  intro rs
  induction rs with
  | nil =>
    intro pre fuel term fs af hs _ _
    have : runs = pre := by simp [hs]
    subst this
    rw [mainLoop_done _ _ _ _ _ (by simp)]
    simp [labelsR, multiLens, hasMulti]
  | cons r rs ih =>
    intro pre fuel term fs af hs hf hok
    cases fuel with
    | zero => simp at hf
    | succ f =>
      have hs' : runs = (pre ++ [r]) ++ rs := by simp [hs]
      have hokr : ∀ r' ∈ rs, RunOk r' := fun r' hr' => hok r' (by simp [hr'])
      obtain ⟨hrne, hr2⟩ := hok r (by simp)
      obtain ⟨d0, rest, rfl⟩ := List.exists_cons_of_ne_nil hrne
      have g1 : runs.flatten[pre.flatten.length]? = some d0 := by rw [hs]; exact flatten_getElem _ _ _ _
      have g2 : (runs.map prod)[pre.length]? = some (prod (d0 :: rest)) := by rw [hs]; simp
      have hlt : pre.flatten.length < runs.flatten.length := (List.getElem?_eq_some_iff.mp g1).1
      have g3 := nones_getElem? runs.flatten _ hlt
      by_cases h1 : (d0 :: rest).length = 1
      · have hrest : rest = [] := by simpa using h1
        subst hrest
        have := ih (pre ++ [[d0]]) f (term ++ [Lbl.o]) fs af hs' (by simpa using hf) hokr
        simp only [List.flatten_append, List.length_append, List.flatten_cons, List.flatten_nil,
          List.length_cons, List.length_nil, List.append_nil, Nat.zero_add] at this
        simp only [mainLoop, g1, g2, g3, unfuseMatch, prod, Nat.mul_one, Nat.beq_refl, if_true]
        rw [this]
        simp [labelsR, multiLens, hasMulti]
      · have hrest : rest ≠ [] := by
          intro hc; subst hc; simp at h1
        have h2 := hr2 h1
        have hd0 := h2 d0 (by simp)
        have hr2' : ∀ d ∈ rest, 2 ≤ d := fun d hd => h2 d (by simp [hd])
        have hpr := prod_ge_two hr2' hrest
        have hdj : prod (d0 :: rest) = d0 * prod rest := rfl
        have hlt2 : d0 < d0 * prod rest :=
          calc d0 = d0 * 1 := by omega
            _ < d0 * prod rest := Nat.mul_lt_mul_of_pos_left (by omega) (by omega)
        have c1 : Nat.beq d0 (d0 * prod rest) = false := nat_beq_false (by omega)
        have c2 : Nat.beq d0 1 = false := nat_beq_false (by omega)
        have c3 : Nat.beq (d0 * prod rest) 1 = false := nat_beq_false (by omega)
        have c4 : Nat.blt d0 (d0 * prod rest) = true := by simp [Nat.blt]; omega
        have hwin : (runs.flatten.drop (pre.flatten.length + 1)).take rest.length = rest := by
          rw [hs]
          have : (pre ++ (d0 :: rest) :: rs).flatten = (pre.flatten ++ [d0]) ++ (rest ++ rs.flatten) := by
            simp [List.flatten_append]
          rw [this, List.drop_left' (by simp), List.take_left' rfl]
        have hfuel : rest.length + 1 ≤ runs.flatten.length + 1 := by
          rw [hs]; simp [List.flatten_append]; omega
        have hscan := fuseScan_run runs.flatten (d0 * prod rest) (Lbl.g fs.length) rest
          (runs.flatten.length + 1) d0 (pre.flatten.length + 1) 1 (term ++ [Lbl.g fs.length])
          hr2' (by omega) rfl hwin hfuel
        have := ih (pre ++ [d0 :: rest]) f
          (term ++ [Lbl.g fs.length] ++ List.replicate rest.length (Lbl.g fs.length))
          (fs ++ [1 + rest.length]) true hs' (by simpa using hf) hokr
        simp only [List.flatten_append, List.length_append, List.flatten_cons, List.flatten_nil,
          List.length_cons, List.length_nil, List.append_nil, Nat.zero_add] at this
        simp only [mainLoop, g1, g2, g3, unfuseMatch, hdj, c1, c2, c3, c4, Bool.false_eq_true, if_false,
          if_true, hscan, Nat.beq_refl, Bool.not_true]
        have e1 : pre.flatten.length + 1 + rest.length = pre.flatten.length + (rest.length + 1) := by omega
        rw [e1, this]
        simp [labelsR, multiLens, hasMulti, List.replicate_succ, Nat.add_comm]
        exact ⟨hrest, Or.inr (Or.inl hrest)⟩

theorem sumN_append (a b : List Nat) : sumN (a ++ b) = sumN a + sumN b := by
  induction a with
  | nil => simp [sumN]
  | cons x a ih => simp [sumN, ih, Nat.add_assoc]

/-- the fuse phase on the labels of a concatenation of runs -/
theorem fuseLoop_runs : ∀ (rs : List (List Nat)) (fuel : Nat) (pre : List Lbl) (n : Nat) (fs0 : List Nat)
    (cur : List (List Nat)) (acc : List (List (List Nat))), fs0.length = n →
    2 * (labelsR n rs).length + 2 ≤ fuel → (∀ r ∈ rs, r ≠ []) →
    sumN (cur.map List.length) ≤ pre.length →
    fuseLoop (fs0 ++ multiLens rs) fuel pre.length (pre ++ labelsR n rs) cur acc
      = .ok (acc ++ callsR rs pre.length cur) := by
  intro rs
  induction rs with
  | nil =>
    intro fuel pre n fs0 cur acc _ hf _ _
    obtain ⟨f, rfl⟩ : ∃ f, fuel = f + 1 := ⟨fuel - 1, by omega⟩
    simp only [labelsR, List.append_nil, fuseLoop, callsR]
    have : pre[pre.length]? = none := by simp
    simp only [this, pure, Except.pure]
    cases cur <;> simp
  | cons r rs ih =>
    intro fuel pre n fs0 cur acc hn hf hne hsum
    obtain ⟨f, rfl⟩ : ∃ f, fuel = f + 1 := ⟨fuel - 1, by omega⟩
    have hner : ∀ r' ∈ rs, r' ≠ [] := fun r' hr' => hne r' (by simp [hr'])
    by_cases h1 : r.length = 1
    · -- a kept axis
      have hl : labelsR n (r :: rs) = Lbl.o :: labelsR n rs := by simp [labelsR, h1]
      have hm : multiLens (r :: rs) = multiLens rs := by simp [multiLens, h1]
      have hcur : (pre ++ Lbl.o :: labelsR n rs)[pre.length]? = some Lbl.o := by simp
      rw [hl, hm]
      rw [hl] at hf
      simp only [List.length_cons] at hf
      simp only [fuseLoop, hcur, callsR, h1, if_true]
      have e1 : pre ++ Lbl.o :: labelsR n rs = (pre ++ [Lbl.o]) ++ labelsR n rs := by simp
      cases hc : cur.isEmpty with
      | true =>
        have hce : cur = [] := List.isEmpty_iff.mp hc
        subst hce
        simp only [Bool.not_true, Bool.false_eq_true, if_false, if_true]
        have e2 : pre.length + 1 = (pre ++ [Lbl.o]).length := by simp
        rw [e1, e2, ih f (pre ++ [Lbl.o]) n fs0 [] acc hn (by omega) hner (by simp [sumN])]
      | false =>
        simp only [Bool.not_false, if_true, Bool.false_eq_true, if_false]
        obtain ⟨f', rfl⟩ : ∃ f', f = f' + 1 := ⟨f - 1, by omega⟩
        obtain ⟨i0, hi0⟩ : ∃ i0, i0 = pre.length - sumN (cur.map List.length) := ⟨_, rfl⟩
        have hi0le : i0 ≤ pre.length := by omega
        have et : (pre ++ Lbl.o :: labelsR n rs).take i0 ++ List.replicate cur.length Lbl.o
            ++ (pre ++ Lbl.o :: labelsR n rs).drop pre.length
            = (pre.take i0 ++ List.replicate cur.length Lbl.o) ++ Lbl.o :: labelsR n rs := by
          rw [List.drop_left' rfl, List.take_append_of_le_length hi0le]
        have el : i0 + cur.length = (pre.take i0 ++ List.replicate cur.length Lbl.o).length := by
          simp [Nat.min_eq_left hi0le]
        rw [← hi0, et, el]
        have hcur2 : ((pre.take i0 ++ List.replicate cur.length Lbl.o) ++ Lbl.o :: labelsR n rs)[
            (pre.take i0 ++ List.replicate cur.length Lbl.o).length]? = some Lbl.o := by simp
        simp only [fuseLoop, hcur2, List.isEmpty_nil, Bool.not_true, Bool.false_eq_true, if_false]
        have e3 : (pre.take i0 ++ List.replicate cur.length Lbl.o) ++ Lbl.o :: labelsR n rs
            = ((pre.take i0 ++ List.replicate cur.length Lbl.o) ++ [Lbl.o]) ++ labelsR n rs := by simp
        have e4 : (pre.take i0 ++ List.replicate cur.length Lbl.o).length + 1
            = ((pre.take i0 ++ List.replicate cur.length Lbl.o) ++ [Lbl.o]).length := by simp; omega
        rw [e3, e4, ih f' _ n fs0 [] (acc ++ [cur]) hn (by omega) hner (by simp [sumN])]
        simp [Nat.min_eq_left hi0le]
    · -- a merged run
      have hrl : 1 ≤ r.length := List.length_pos_iff.mpr (hne r (by simp))
      have hl : labelsR n (r :: rs) = List.replicate r.length (Lbl.g n) ++ labelsR (n + 1) rs := by
        simp [labelsR, h1]
      have hm : fs0 ++ multiLens (r :: rs) = (fs0 ++ [r.length]) ++ multiLens rs := by
        simp [multiLens, h1]
      have hcur : (pre ++ (List.replicate r.length (Lbl.g n) ++ labelsR (n + 1) rs))[pre.length]?
          = some (Lbl.g n) := by
        obtain ⟨m, hm'⟩ : ∃ m, r.length = m + 1 := ⟨r.length - 1, by omega⟩
        rw [hm']; simp [List.replicate_succ]
      have hfs : ((fs0 ++ [r.length]) ++ multiLens rs)[n]? = some r.length := by
        rw [List.append_assoc, List.getElem?_append_right (by omega)]
        simp [hn]
      rw [hl, hm]
      rw [hl] at hf
      simp only [List.length_append, List.length_replicate] at hf
      simp only [fuseLoop, hcur, hfs, callsR, h1, if_false]
      have e1 : pre ++ (List.replicate r.length (Lbl.g n) ++ labelsR (n + 1) rs)
          = (pre ++ List.replicate r.length (Lbl.g n)) ++ labelsR (n + 1) rs := by simp
      have e2 : pre.length + r.length = (pre ++ List.replicate r.length (Lbl.g n)).length := by simp
      rw [e1, e2, ih f _ (n + 1) (fs0 ++ [r.length]) _ acc (by simp [hn]) (by omega) hner (by
        rw [List.map_append, sumN_append]
        simp [sumN]; omega)]

theorem callsR_no_multi : ∀ (rs : List (List Nat)) (i : Nat), hasMulti rs = false → callsR rs i [] = [] := by
  intro rs
  induction rs with
  | nil => intro i _; rfl
  | cons r rs ih =>
    intro i h
    by_cases h1 : r.length = 1
    · simp only [hasMulti, h1, if_true] at h
      simp only [callsR, h1, if_true, List.isEmpty_nil]
      exact ih _ h
    · simp [hasMulti, h1] at h

/-- **the forward plan from the shapes**: runs of adjacent axes, one target axis per run -/
theorem planner_runs (runs : List (List Nat)) (hok : ∀ r ∈ runs, RunOk r) :
    calcReshapeArgs runs.flatten (runs.map prod) (nones runs.flatten) = .ok ([], callsR runs 0 [], []) := by
  have hmain := mainLoop_runs runs runs [] (runs.flatten.length + (runs.map prod).length) [] [] false rfl
    (by simp) hok
  simp only [List.flatten_nil, List.length_nil, List.nil_append, Bool.false_or] at hmain
  unfold calcReshapeArgs
  have e0 : ({} : RState) = ⟨0, 0, 0, [], [], [], [], [], false, false⟩ := rfl
  rw [e0, hmain]
  simp only [Nat.sub_self, List.length_map, List.replicate_zero, List.append_nil, Nat.blt,
    unfusePhase, pure, Except.pure]
  cases hm : hasMulti runs with
  | false =>
    simp [callsR_no_multi runs 0 hm]
  | true =>
    have := fuseLoop_runs runs (2 * (labelsR 0 runs).length + 2) [] 0 [] [] [] rfl (Nat.le_refl _)
      (fun r hr => (hok r hr).1) (by simp [sumN])
    simp only [List.nil_append, List.length_nil] at this
    simp [this]

example : callsR [[2, 3], [7], [4, 5]] 0 [] = [[[0, 1]], [[2, 3]]]
    ∧ callsR [[2, 3], [4, 5]] 0 [] = [[[0, 1], [2, 3]]] := by decide

end SymmModel.Reshape5
