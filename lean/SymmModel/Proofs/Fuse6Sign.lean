/-
  SymmModel.Proofs.Fuse6Sign — the sign of an `unfuseF` step only depends on the segment of the
  sector at the unfused axis.
-/
import SymmModel.Proofs.Fuse6Parts
namespace SymmModel
namespace FuseP
set_option linter.unusedSectionVars false
open SymmModel.Lazy SymmModel.KoszulP

variable {R : Type} [Zero R] [Neg R]

/-- the sign of an `unfuseF` step as a function of the segment -/
def segSign (sym : Sym) (ix : Index) (subs : List Index) (S : Sector) : Int :=
  if ix.dual then
    Lazy.flipSign sym ((List.range subs.length).filter (fun t => !(subs.getD t default).dual)) S
      * revSign (S.map sym.parity) (List.range subs.length)
  else 1

theorem segSign_pm (sym : Sym) (ix : Index) (subs : List Index) (S : Sector) :
    segSign sym ix subs S = 1 ∨ segSign sym ix subs S = -1 := by
  unfold segSign
  split
  · exact mul_pm (Lazy.flipSign_pm _ _ _) (by unfold revSign; exact sgn_cases _)
  · exact Or.inl rfl

theorem getD_range_self (L t : Nat) (ht : t < L) : (List.range L).getD t 0 = t := by
  simp [List.getD_eq_getElem?_getD, List.getElem?_range ht]

theorem unfuseVperm_zero (N p : Nat) : unfuseVperm N 0 p = List.range (N - 1) := by
  unfold unfuseVperm
  have : ∀ ax, (if (decide (p ≤ ax) && decide (ax < p + 0)) = true then p + 0 - (ax - p) - 1 else ax) = ax := by
    intro ax
    split
    · rename_i h; simp at h; omega
    · rfl
  conv_rhs => rw [← List.map_id (List.range (N - 1))]
  apply List.map_congr_left
  intro ax _
  exact this ax

theorem unfuseSign_seg (a : Arr R) (ix : Index) (subs : List Index) (p : Nat) (hp : p < a.ndim)
    {A S X : Sector} (hA : A.length = p) (hS : S.length = subs.length) :
    unfuseSign a ix subs p (A ++ S ++ X) = segSign a.sym ix subs S := by
  have hget : ∀ t, t < (List.range subs.length).length →
      (A ++ S ++ X).getD (p + t) (0, 0) = S.getD ((List.range subs.length).getD t 0) (0, 0) := by
    intro t ht
    simp only [List.length_range] at ht
    rw [getD_range_self _ _ ht, ← hA]
    exact getD_mid A S X t (0, 0) (by omega)
  unfold unfuseSign segSign
  split
  · congr 1
    · exact flipSign_transfer a.sym (A ++ S ++ X) S (List.range subs.length) p subs subs (by simp)
        (fun t ht => by simp only [List.length_range] at ht; rw [getD_range_self _ _ ht]) hget
    · by_cases hL : 0 < subs.length
      · rw [koszul_unfuseVperm _ a.ndim subs.length p hp hL]
        unfold revSign
        have := oddCount_transfer a.sym (A ++ S ++ X) S (List.range subs.length) p hget
        rw [List.length_range] at this
        rw [this]
      · have h0 : subs.length = 0 := by omega
        rw [h0, unfuseVperm_zero, koszul_id']
        simp [revSign, oddCount, sgn]
  · rfl

end FuseP
end SymmModel
