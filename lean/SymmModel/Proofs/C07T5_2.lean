/-
  SymmModel.Proofs.C07T5_2 — kernel-checked planner table, shapes with 5 axes whose first
  axis has size 2 (one chunk per size of the second axis; ~1 800 shape/target pairs each,
  every pair forward and back).  `decide +kernel` only.
-/
import SymmModel.Model.ReshapePlan
namespace SymmModel.C07

theorem table_5_2_1 : chunkOk [2, 1] 3 = true := by decide +kernel
theorem table_5_2_2 : chunkOk [2, 2] 3 = true := by decide +kernel
theorem table_5_2_3 : chunkOk [2, 3] 3 = true := by decide +kernel
theorem table_5_2_4 : chunkOk [2, 4] 3 = true := by decide +kernel
theorem table_5_2_6 : chunkOk [2, 6] 3 = true := by decide +kernel

end SymmModel.C07
