/-
  SymmModel.Proofs.Fuse6Fuse2 — fuse, then unfuse the fused axes left to right: same value view as
  unfusing them last group first.
-/
import SymmModel.Proofs.Fuse6Fuse
namespace SymmModel
namespace FuseP
set_option linter.unusedSectionVars false
open SymmModel.Lazy

theorem multiPL_newGroupsF (groups : List (List Nat)) (duals : List Bool) (pos : Nat) :
    multiPL (newGroupsF groups duals) pos = multiPL groups pos := by
  unfold multiPL
  rw [newGroupsF_length]
  have hf : (List.range groups.length).filter (multiB (newGroupsF groups duals))
      = (List.range groups.length).filter (multiB groups) := by
    apply List.filter_congr
    intro g _
    exact multiB_newGroupsF groups duals g
  rw [hf]
  apply List.map_congr_left
  intro g _
  simp only [List.getD_eq_getElem?_getD, newGroupsF_getElem?]
  cases groups[g]? with
  | none => rfl
  | some gx => simp

section
variable {R : Type} [Zero R] [Neg R] [LawfulNeg R]

/-- fermionic: fuse, unfuse left to right -/
theorem l2r_fuseF (a : Arr R) (groups : List (List Nat)) (e : Bool) (hv : a.validB = true)
    (hf : a.fermi = true) (hok : GroupsOk groups a.ndim) :
    ∃ y z z', Arr.fuseF a groups .insert e = .ok y
      ∧ (l2rAxes (multiPL groups (calcFuseGroupInfo groups a.duals).position) 0).foldlM Arr.unfuseF y = .ok z
      ∧ C05.unfuseGroupsF groups (calcFuseGroupInfo groups a.duals).position y = .ok z'
      ∧ z.validB = true ∧ z.fermi = true ∧ VEq z z' := by
  have hfld := signAdj_fields a groups
  have hnd4 : (signAdj a groups).ndim = a.ndim := by
    show (signAdj a groups).indices.length = a.ndim
    rw [hfld.2.1]; exact permutedM_length hok a.indices rfl
  have hd4 : (signAdj a groups).duals.length = a.duals.length := by
    rw [duals_length, duals_length, hnd4]
  have hok4 : GroupsOk (newGroupsF groups a.duals) (signAdj a groups).ndim := by
    rw [hnd4, ← duals_length]; exact newGroupsF_ok (hokD hok)
  obtain ⟨hpos, _, _⟩ := newGroups_plan (hokD hok) hd4
  obtain ⟨hy, _⟩ := fuseF_elemT a groups e hv hf hok
  have hyV : (fusedArrM (signAdj a groups) (newGroupsF groups a.duals)).validB = true :=
    (ValidP.validB_iff _).2 (ValidP.fuseF_valid a _ groups e ((ValidP.validB_iff a).1 hv) hf
      (admissible_of_groupsOk hok) hy)
  have hyf : (fusedArrM (signAdj a groups) (newGroupsF groups a.duals)).fermi = true := by
    show (signAdj a groups).fermi = true; rw [hfld.2.2.2.1]; exact hf
  have hposM : (giM (signAdj a groups) (newGroupsF groups a.duals)).position
      = (calcFuseGroupInfo groups a.duals).position := hpos
  have hfa := fusedArrM_fusedAtL (a := signAdj a groups) hok4
  rw [hposM, multiPL_newGroupsF] at hfa
  obtain ⟨z, z', hz, hz', hgz, _, hveq⟩ := l2r_r2l (stepOK_F (R := R))
    (multiPL groups (calcFuseGroupInfo groups a.duals).position) 0 _ ⟨hyV, hyf⟩ (multiPL_sorted _ _) hfa
  rw [r2l_multiPL] at hz'
  exact ⟨_, z, z', hy, hz, hz', hgz.1, hgz.2, hveq⟩

end

section
variable {R : Type} [Zero R] [Neg R] [LawfulNeg R]

/-- abelian: fuse, unfuse left to right -/
theorem l2r_fuseA (a : Arr R) (groups : List (List Nat)) (hv : a.validB = true)
    (hf : a.fermi = false) (hok : GroupsOk groups a.ndim) :
    ∃ z z', (l2rAxes (multiPL groups (calcFuseGroupInfo groups a.duals).position) 0).foldlM unfuseA
          (fusedArrM a groups) = .ok z
      ∧ C05.unfuseGroups groups (calcFuseGroupInfo groups a.duals).position (fusedArrM a groups) = .ok z'
      ∧ z.validB = true ∧ z.fermi = false ∧ VEq z z' := by
  have hx := fuseCore_multi_eq (validArr_of_validB hv) hok
  have hxv := C01.fuseCore_valid a _ groups hv hf (admissible_of_groupsOk hok) hx
  have hxf : (fusedArrM a groups).fermi = false := hf
  have hfa := fusedArrM_fusedAtL (a := a) hok
  obtain ⟨z, z', hz, hz', hgz, _, hveq⟩ := l2r_r2l (stepOK_A (R := R))
    (multiPL groups (giM a groups).position) 0 _ ⟨hxv, hxf⟩ (multiPL_sorted _ _) hfa
  rw [r2l_multiPL] at hz'
  exact ⟨z, z', hz, hz', hgz.1, hgz.2, hveq⟩

end

end FuseP
end SymmModel
