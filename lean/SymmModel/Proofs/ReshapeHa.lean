/-
  SymmModel.Proofs.ReshapeHa — the planner sees the sub-size table only through `unfuseMatch`:
  two tables that give the same answers to every window question the first loop can ask produce
  the same plan (`calcReshapeArgs_congr`).  Hence, when no fused axis' sub-sizes equal a window of the
  requested shape (`noWinB`), the planner treats the input as if it had no fused axes
  (`planner_nowin_nones`).
-/
import SymmModel.Proofs.Reshape7c
namespace SymmModel.ReshapeH
open SymmModel SymmModel.Reshape SymmModel.C07

/-- the sub-size tables answer every window question of the first loop alike -/
def SubsAgree (newshape : List Nat) (A B : List (Option (List Nat))) : Prop :=
  A.length = B.length ∧ ∀ (i : Nat) (sa sb : Option (List Nat)), A[i]? = some sa → B[i]? = some sb →
    ∀ j, j < newshape.length → unfuseMatch newshape j sa = unfuseMatch newshape j sb

theorem mainLoop_congr (shape newshape : List Nat) (A B : List (Option (List Nat)))
    (h : SubsAgree newshape A B) :
    ∀ fuel, mainLoop shape newshape A fuel = mainLoop shape newshape B fuel := by
  intro fuel
  induction fuel with
  | zero => funext st; simp only [mainLoop]
  | succ fuel ih =>
    funext st
    simp only [mainLoop]
    rw [ih]
    cases h1 : shape[st.i]? with
    | none => rfl
    | some di =>
      cases h2 : newshape[st.j]? with
      | none => rfl
      | some dj =>
        have hj : st.j < newshape.length := by
          rcases Nat.lt_or_ge st.j newshape.length with hlt | hge
          · exact hlt
          · rw [List.getElem?_eq_none hge] at h2; cases h2
        simp only []
        cases hA : A[st.i]? with
        | none =>
          have : B[st.i]? = none := by
            rw [List.getElem?_eq_none_iff] at hA ⊢
            rw [← h.1]; exact hA
          rw [this]
        | some sa =>
          cases hB : B[st.i]? with
          | none =>
            have : A[st.i]? = none := by
              rw [List.getElem?_eq_none_iff] at hB ⊢
              rw [h.1]; exact hB
            rw [this] at hA; cases hA
          | some sb =>
            simp only []
            rw [h.2 st.i sa sb hA hB st.j hj]

/-- **the plan depends on the sub-sizes only through the window questions** -/
theorem calcReshapeArgs_congr (shape newshape : List Nat) (A B : List (Option (List Nat)))
    (h : SubsAgree newshape A B) : calcReshapeArgs shape newshape A = calcReshapeArgs shape newshape B := by
  unfold calcReshapeArgs
  rw [mainLoop_congr shape newshape A B h]

/-- no fused axis' sub-sizes equal a window of the requested shape -/
def noWinB (newshape : List Nat) (subsizes : List (Option (List Nat))) : Bool :=
  subsizes.all (fun sub => (List.range newshape.length).all (fun j => (unfuseMatch newshape j sub).isNone))

theorem noWin_spec {newshape : List Nat} {subsizes : List (Option (List Nat))}
    (h : noWinB newshape subsizes = true) {sub : Option (List Nat)} (hs : sub ∈ subsizes) {j : Nat}
    (hj : j < newshape.length) : unfuseMatch newshape j sub = none := by
  simp only [noWinB, List.all_eq_true, List.mem_range, Option.isNone_iff_eq_none] at h
  exact h sub hs j hj

theorem subsAgree_nones {shape newshape : List Nat} {subsizes : List (Option (List Nat))}
    (hlen : shape.length = subsizes.length) (h : noWinB newshape subsizes = true) :
    SubsAgree newshape subsizes (nones shape) := by
  refine ⟨by rw [nones_length, hlen], ?_⟩
  intro i sa sb ha hb j hj
  rw [noWin_spec h (List.mem_of_getElem? ha) hj]
  simp only [nones, List.getElem?_map] at hb
  cases hsh : shape[i]? with
  | none => rw [hsh] at hb; cases hb
  | some d =>
    rw [hsh] at hb
    simp only [Option.map_some, Option.some.injEq] at hb
    subst hb; rfl

/-- **without a window match the planner treats the input as unfused** -/
theorem planner_nowin_nones (shape newshape : List Nat) (subsizes : List (Option (List Nat)))
    (hlen : shape.length = subsizes.length) (h : noWinB newshape subsizes = true) :
    calcReshapeArgs shape newshape subsizes = calcReshapeArgs shape newshape (nones shape) :=
  calcReshapeArgs_congr shape newshape subsizes (nones shape) (subsAgree_nones hlen h)

end SymmModel.ReshapeH
