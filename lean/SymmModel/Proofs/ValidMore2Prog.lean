/-
  SymmModel.Proofs.ValidMore2Prog — programs over EVERY public operation preserve validity.
  `OpAll R` extends `Op R` (Proofs/ValidProg.lean) by fuse in concat mode, einsum, reshape,
  solve, svd_truncated and align_axes (both components); `Ctor R` lists the ways of building the first array.
-/
import SymmModel.Proofs.ValidProg
import SymmModel.Proofs.ValidMore2Reshape
import SymmModel.Proofs.ValidMore2Linalg
import SymmModel.Proofs.ValidMore2Einsum
import SymmModel.Proofs.ValidMore2Construct
import SymmModel.Proofs.ValidMore2Concat
import SymmModel.Proofs.ValidMore2Cert

namespace SymmModel
namespace ValidP

variable {R : Type}

inductive OpAll (R : Type) where
  | base (op : Op R)
  | reshape (newshape : List Int)
  | einsum (lhs rhs : List Nat)
  | fuseConcat (groups : List (List Nat)) (expandEmpty : Bool)
  | solve (K : Kernels R) (b : Arr R)
  | svdTruncU (K : Kernels R) (counts : List Nat)
  | svdTruncV (K : Kernels R) (counts : List Nat)
  | alignL (b : Arr R) (axesA axesB : List Nat)
  | alignR (a : Arr R) (axesA axesB : List Nat)

def OpAll.admissible [Zero R] [Neg R] : OpAll R → Arr R → Bool
  | .base op, a => op.admissible a
  | .reshape ns, a => reshapeAdmissibleB a ns
  | .einsum lhs rhs, a => einsumAdmissibleB a lhs rhs
  | .fuseConcat groups _, a => fuseAdmissibleB groups a.ndim
  | .solve _ b, a => solveAdmissibleB a b
  | .svdTruncU K counts, a => svdTruncAdmissibleB K a counts
  | .svdTruncV K counts, a => svdTruncAdmissibleB K a counts
  | .alignL b _ _, _ => b.validB
  | .alignR a _ _, _ => a.validB

def OpAll.KernelOk : OpAll R → Prop
  | .base op => op.KernelOk
  | .solve K _ => K.ShapeOk
  | .svdTruncU K _ => K.ShapeOk
  | .svdTruncV K _ => K.ShapeOk
  | _ => True

def OpAll.apply [Zero R] [Add R] [Mul R] [Neg R] [Conj R] : OpAll R → Arr R → Except Err (Arr R)
  | .base op, a => op.apply a
  | .reshape ns, a => reshapeArr a ns
  | .einsum lhs rhs, a => if a.fermi then a.einsumF lhs rhs else einsumA a lhs rhs
  | .fuseConcat groups expandEmpty, a =>
      if a.fermi then a.fuseF groups .concat expandEmpty else fuseA a groups .concat expandEmpty
  | .solve K b, a => solveA K a b
  | .svdTruncU K counts, a => do
      let (u, s, vh) ← svdA K a
      pure (applyCounts u s vh counts).1
  | .svdTruncV K counts, a => do
      let (u, s, vh) ← svdA K a
      pure (applyCounts u s vh counts).2.2
  | .alignL b axesA axesB, a => pure (dropMisaligned a b axesA axesB).1
  | .alignR a axesA axesB, b => pure (dropMisaligned a b axesA axesB).2

theorem OpAll.apply_valid [Zero R] [Add R] [Mul R] [Neg R] [Conj R] (op : OpAll R) (a r : Arr R)
    (hv : Valid a) (hK : op.KernelOk) (hadm : op.admissible a = true)
    (h : op.apply a = .ok r) : Valid r := by
  cases op with
  | base op => exact op.apply_valid a r hv hK hadm h
  | reshape ns => exact reshapeArr_valid a r ns hv hadm h
  | einsum lhs rhs =>
    simp only [OpAll.apply] at h
    split at h
    · rename_i hf; exact einsumF_valid a r lhs rhs hv hf hadm h
    · rename_i hf; exact einsumA_valid a r lhs rhs hv (by simpa using hf) hadm h
  | fuseConcat groups expandEmpty =>
    simp only [OpAll.apply] at h
    split at h
    · rename_i hf; exact fuseF_concat_valid a r groups expandEmpty hv hf hadm h
    · rename_i hf; exact fuseA_concat_valid a r groups expandEmpty hv (by simpa using hf) hadm h
  | solve K b =>
    exact (validB_iff r).mp (solve_valid K hK a b r ((validB_iff a).mpr hv) hadm h)
  | svdTruncU K counts =>
    simp only [OpAll.apply] at h
    obtain ⟨⟨u, s, vh⟩, husv, h⟩ := bind_ok h
    simp only [pure, Except.pure, Except.ok.injEq] at h
    subst h
    exact (validB_iff _).mp (svdTrunc_valid K hK a u vh s counts ((validB_iff a).mpr hv) hadm husv).1
  | svdTruncV K counts =>
    simp only [OpAll.apply] at h
    obtain ⟨⟨u, s, vh⟩, husv, h⟩ := bind_ok h
    simp only [pure, Except.pure, Except.ok.injEq] at h
    subst h
    exact (validB_iff _).mp (svdTrunc_valid K hK a u vh s counts ((validB_iff a).mpr hv) hadm husv).2
  | alignL b axesA axesB =>
    simp only [OpAll.apply, pure, Except.pure, Except.ok.injEq] at h
    subst h
    exact (dropMisaligned_valid a b axesA axesB hv ((validB_iff b).mp hadm)).1
  | alignR a0 axesA axesB =>
    simp only [OpAll.apply, pure, Except.pure, Except.ok.injEq] at h
    subst h
    exact (dropMisaligned_valid a0 a axesA axesB ((validB_iff a0).mp hadm) hv).2

/-! ### programs: a constructor followed by operations -/

def OpAll.step [Zero R] [Add R] [Mul R] [Neg R] [Conj R] (op : OpAll R) (a : Arr R) :
    Except Err (Arr R) :=
  if op.admissible a then op.apply a else throw Err.value

theorem OpAll.step_valid [Zero R] [Add R] [Mul R] [Neg R] [Conj R] (op : OpAll R) (a r : Arr R)
    (hv : Valid a) (hK : op.KernelOk) (h : op.step a = .ok r) : Valid r := by
  unfold OpAll.step at h
  split at h
  · rename_i hadm; exact op.apply_valid a r hv hK hadm h
  · cases h

/-- the ways of obtaining the first array of a program -/
inductive Ctor (R : Type) where
  | given (a : Arr R)
  | construct (sym : Sym) (fermi : Bool) (indices : List Index) (charge : Option Charge)
      (blocks : List (Sector × Blk R)) (oddpos : List (Int × Bool))
  | fromBlocks (sym : Sym) (fermi : Bool) (blocks : List (Sector × Blk R)) (duals : List Bool)
      (charge : Option Charge) (oddpos : List (Int × Bool))
  | fromDense (sym : Sym) (fermi : Bool) (dense : Blk R) (maps : List (List Charge))
      (duals : List Bool) (charge : Option Charge) (oddpos : List (Int × Bool))
  | fromFillFn (sym : Sym) (fermi : Bool) (indices : List Index) (charge : Option Charge)
      (fill : Sector → List Nat → Blk R) (oddpos : List (Int × Bool))

/-- decidable precondition of a constructor call (consistent inputs) -/
def Ctor.admissible : Ctor R → Bool
  | .given a => a.validB
  | .construct sym fermi indices charge blocks oddpos =>
      constructOkB sym fermi indices charge blocks oddpos
  | .fromBlocks sym fermi blocks duals charge oddpos =>
      fromBlocksOkB sym fermi blocks duals charge oddpos
  | .fromDense sym fermi _ maps _ charge oddpos => fromDenseOkB sym fermi maps charge oddpos
  | .fromFillFn sym fermi indices charge _ oddpos => fromFillFnOkB sym fermi indices charge oddpos

/-- the contract of the fill function of `from_fill_fn`: blocks of the requested shape -/
def Ctor.FillOk : Ctor R → Prop
  | .fromFillFn _ _ indices _ fill _ => ValidP.FillOk indices fill
  | _ => True

def Ctor.build [Zero R] : Ctor R → Except Err (Arr R)
  | .given a => pure a
  | .construct sym fermi indices charge blocks oddpos =>
      SymmModel.construct sym fermi indices charge blocks oddpos
  | .fromBlocks sym fermi blocks duals charge oddpos =>
      SymmModel.fromBlocks sym fermi blocks duals charge oddpos
  | .fromDense sym fermi dense maps duals charge oddpos =>
      SymmModel.fromDense sym fermi dense maps duals charge oddpos
  | .fromFillFn sym fermi indices charge fill oddpos =>
      SymmModel.fromFillFn sym fermi indices charge fill oddpos

theorem Ctor.build_valid [Zero R] (c : Ctor R) (a : Arr R) (hadm : c.admissible = true)
    (hfill : c.FillOk) (h : c.build = .ok a) : Valid a := by
  cases c with
  | given a0 =>
    simp only [Ctor.build, pure, Except.pure, Except.ok.injEq] at h
    subst h; exact (validB_iff _).mp hadm
  | construct sym fermi indices charge blocks oddpos =>
    exact (validB_iff a).mp (construct_valid hadm h)
  | fromBlocks sym fermi blocks duals charge oddpos =>
    exact (validB_iff a).mp (fromBlocks_valid hadm h)
  | fromDense sym fermi dense maps duals charge oddpos =>
    exact (validB_iff a).mp (fromDense_valid hadm h)
  | fromFillFn sym fermi indices charge fill oddpos =>
    exact (validB_iff a).mp (fromFillFn_valid hadm hfill h)

/-- a program: how the first array is built, then a list of operations -/
structure ProgAll (R : Type) where
  ctor : Ctor R
  ops : List (OpAll R)

def runOps [Zero R] [Add R] [Mul R] [Neg R] [Conj R] : List (OpAll R) → Arr R → Except Err (Arr R)
  | [], a => pure a
  | op :: rest, a => do
    let a' ← op.step a
    runOps rest a'

def ProgAll.run [Zero R] [Add R] [Mul R] [Neg R] [Conj R] (p : ProgAll R) : Except Err (Arr R) :=
  if p.ctor.admissible then do
    let a ← p.ctor.build
    runOps p.ops a
  else throw Err.value

theorem runOps_valid [Zero R] [Add R] [Mul R] [Neg R] [Conj R] (ops : List (OpAll R)) (a r : Arr R)
    (hv : Valid a) (hK : ∀ op ∈ ops, op.KernelOk) (h : runOps ops a = .ok r) : Valid r := by
  induction ops generalizing a with
  | nil =>
    simp only [runOps, pure, Except.pure, Except.ok.injEq] at h
    subst h; exact hv
  | cons op rest ih =>
    simp only [runOps] at h
    obtain ⟨a', ha', h⟩ := bind_ok h
    exact ih a' (op.step_valid a a' hv (hK op (by simp)) ha') (fun o ho => hK o (by simp [ho])) h

theorem ProgAll.run_valid [Zero R] [Add R] [Mul R] [Neg R] [Conj R] (p : ProgAll R) (r : Arr R)
    (hfill : p.ctor.FillOk) (hK : ∀ op ∈ p.ops, op.KernelOk) (h : p.run = .ok r) : Valid r := by
  unfold ProgAll.run at h
  split at h
  · rename_i hadm
    obtain ⟨a, ha, h⟩ := bind_ok h
    exact runOps_valid p.ops a r (p.ctor.build_valid a hadm hfill ha) hK h
  · cases h

end ValidP
end SymmModel
