/-
  SymmModel.Proofs.Heap2Lemmas — the frame theorems of property C14 for ANY operation given as an
  `OpSpec` whose program obeys the ownership discipline (`Safe`), and for programs of such calls
  (`runG`).  `Props/C14.lean` proves the same statements for the `Op` table; here they are proved once
  for the union of the tables `Op` and `Op2`.
-/
import SymmModel.Model.Heap2
import SymmModel.Proofs.HeapLemmas
namespace SymmModel.Heap

/-- ownership of the operand variables at the start of a call: exactly the targets -/
def OpSpec.flags (s : OpSpec) : List Bool := (List.range s.arity).map fun j => s.targets.contains j

/-- at the end, the returned objects are owned -/
def OpSpec.ResOwned (s : OpSpec) : List Bool → Prop := fun o' => ∀ r ∈ s.results, o'.getD r false = true

/-- the operation obeys the discipline: it mutates only through variables it owns (objects it has
    allocated, or the operands it is asked to modify) and returns owned objects -/
structure OpSpec.OK (s : OpSpec) : Prop where
  safe : Safe s.ResOwned s.flags s.prog
  tlt : ∀ j ∈ s.targets, j < s.arity

def OpSpec.targetObjs (s : OpSpec) (operands : List ObjId) : List ObjId := s.targets.map (envGet operands)

theorem envGet_take' {l : List ObjId} {n j : Nat} (hj : j < n) : envGet (l.take n) j = envGet l j := by
  simp [envGet, List.getD, hj]

theorem OpSpec.flags_true {s : OpSpec} {j : Nat} (h : s.flags.getD j false = true) :
    j < s.arity ∧ j ∈ s.targets := by
  have hlt := getD_true_lt h
  simp only [OpSpec.flags, List.length_map, List.length_range] at hlt
  refine ⟨hlt, ?_⟩
  simp only [OpSpec.flags, List.getD, List.getElem?_map, List.getElem?_range hlt, Option.map_some,
    Option.getD_some, List.contains_iff_mem] at h
  exact h

/-- **the footprint of one call** (any table) -/
theorem spec_step (s : OpSpec) (ok : s.OK) (h : Heap) (operands : List ObjId)
    (hn : s.arity ≤ operands.length) (htg : ∀ x ∈ s.targetObjs operands, x < h.size) :
    Step (· ∈ s.targetObjs operands) (· ∈ reachable h (s.targetObjs operands)) h (s.run h operands).1 ∧
    (∀ r ∈ (s.run h operands).2,
      Own h (· ∈ s.targetObjs operands) (· ∈ reachableDicts h (s.targetObjs operands)) (s.run h operands).1 r) ∧
    (∀ x ∈ s.targetObjs operands,
      Own h (· ∈ s.targetObjs operands) (· ∈ reachableDicts h (s.targetObjs operands)) (s.run h operands).1 x) := by
  have I0 : Inv h (· ∈ s.targetObjs operands) (· ∈ reachableDicts h (s.targetObjs operands))
      h (operands.take s.arity) s.flags := by
    refine ⟨Step.refl _ _ _, by simp [OpSpec.flags, Nat.min_eq_left hn], ?_⟩
    intro j hj
    obtain ⟨hlt, hmem⟩ := OpSpec.flags_true hj
    rw [envGet_take' hlt]
    have hx : envGet operands j ∈ s.targetObjs operands := List.mem_map_of_mem hmem
    refine ⟨htg _ hx, Or.inr hx, fun d hd => Or.inr ?_⟩
    simp only [reachableDicts, List.mem_flatMap]
    exact ⟨_, hx, hd⟩
  obtain ⟨ext, e2, hq, he, I⟩ := safe_inv s.prog ok.safe I0
  refine ⟨I.step.mono (fun _ e => e) ?_, ?_, ?_⟩
  · intro i hi
    simp only [reachable, List.mem_flatMap, List.mem_cons]
    rcases hi with hi | hi
    · exact ⟨i, hi, Or.inl rfl⟩
    · simp only [reachableDicts, List.mem_flatMap] at hi
      obtain ⟨x, hx, hd⟩ := hi
      exact ⟨x, hx, Or.inr hd⟩
  · intro r hr
    simp only [OpSpec.run, List.mem_map] at hr
    obtain ⟨j, hj, rfl⟩ := hr
    exact I.own j (hq j hj)
  · intro x hx
    simp only [OpSpec.targetObjs, List.mem_map] at hx
    obtain ⟨j, hj, rfl⟩ := hx
    have hlt : j < s.arity := ok.tlt j hj
    have hfl : s.flags.getD j false = true := by
      simp only [OpSpec.flags, List.getD, List.getElem?_map, List.getElem?_range hlt, Option.map_some,
        Option.getD_some, List.contains_iff_mem]
      exact hj
    have hlen : j < s.flags.length := by simp [OpSpec.flags, hlt]
    have := I.own j (by rw [getD_append_left' hlen]; exact hfl)
    rw [he] at this
    have hj' : j < (operands.take s.arity).length := by simp [Nat.min_eq_left hn, hlt]
    simpa [OpSpec.run, envGet, List.getD, List.getElem?_append_left hj', List.getElem?_take, hlt] using this

/-- a call not asked to modify anything: nothing that existed is rebound or mutated -/
theorem spec_step_out (s : OpSpec) (ok : s.OK) (h : Heap) (operands : List ObjId)
    (hn : s.arity ≤ operands.length) (hout : s.targets = []) :
    Step Never Never h (s.run h operands).1 := by
  have htg : ∀ x ∈ s.targetObjs operands, x < h.size := by simp [OpSpec.targetObjs, hout]
  exact (spec_step s ok h operands hn htg).1.mono (by simp [OpSpec.targetObjs, hout])
    (by simp [OpSpec.targetObjs, hout, reachable])

theorem spec_frame_all (s : OpSpec) (ok : s.OK) (h : Heap) (operands : List ObjId)
    (hn : s.arity ≤ operands.length) (hout : s.targets = []) :
    ∀ i o, h.get? i = some o → (s.run h operands).1.get? i = some o := by
  intro i o ho
  exact (spec_step_out s ok h operands hn hout).same ho (fun e => e) (fun e => e)

/-- every returned object, and every dict it points to, was allocated by the call -/
theorem spec_result_objects_new (s : OpSpec) (ok : s.OK) (h : Heap) (operands : List ObjId)
    (hn : s.arity ≤ operands.length) (hout : s.targets = []) :
    ∀ r ∈ (s.run h operands).2, h.size ≤ r ∧ ∀ d ∈ dictsOf (s.run h operands).1 r, h.size ≤ d := by
  have htg : ∀ x ∈ s.targetObjs operands, x < h.size := by simp [OpSpec.targetObjs, hout]
  obtain ⟨_, ow, _⟩ := spec_step s ok h operands hn htg
  intro r hr
  have w := ow r hr
  refine ⟨?_, fun d hd => ?_⟩
  · rcases w.self with h1 | h1
    · exact h1
    · simp [OpSpec.targetObjs, hout] at h1
  · rcases w.dicts d hd with h1 | h1
    · exact h1
    · simp [OpSpec.targetObjs, hout, reachableDicts] at h1

/-! ### programs of calls of both tables -/

/-- ownership discipline for a program of calls: whatever a call is asked to modify is an owned
    variable (a result of an earlier call); results of every call are owned afterwards -/
def GCallsOwned : List Bool → List GCall → Prop
  | _, [] => True
  | oo, c :: r => c.spec.OK ∧ c.spec.arity ≤ c.args.length ∧
      (∀ j ∈ c.spec.targets, oo.getD (c.args.getD j 0) false = true) ∧
      GCallsOwned (oo ++ List.replicate c.spec.results.length true) r

structure GInv (h0 h : Heap) (env : Env) (oo : List Bool) : Prop where
  step : Step Never Never h0 h
  len : oo.length = env.length
  own : ∀ j, oo.getD j false = true → Own h0 Never Never h (envGet env j)

theorem own_lift' {h0 h h' : Heap} {WA WD : ObjId → Prop} {r : ObjId} (w : Own h WA WD h' r)
    (hs : h0.size ≤ h.size) (hA : ∀ x, WA x → h0.size ≤ x) (hD : ∀ d, WD d → h0.size ≤ d) :
    Own h0 Never Never h' r := by
  refine ⟨w.lt, ?_, fun d hd => ?_⟩
  · rcases w.self with h1 | h1
    · exact Or.inl (Nat.le_trans hs h1)
    · exact Or.inl (hA _ h1)
  · rcases w.dicts d hd with h1 | h1
    · exact Or.inl (Nat.le_trans hs h1)
    · exact Or.inl (hD _ h1)

theorem spec_run_results_length (s : OpSpec) (h : Heap) (operands : List ObjId) :
    (s.run h operands).2.length = s.results.length := by simp [OpSpec.run]

theorem gcall_inv {h0 h : Heap} {env : Env} {oo : List Bool} (c : GCall) (I : GInv h0 h env oo)
    (ok : c.spec.OK) (hn : c.spec.arity ≤ c.args.length)
    (ht : ∀ j ∈ c.spec.targets, oo.getD (c.args.getD j 0) false = true) :
    GInv h0 (c.spec.run h (c.args.map (envGet env))).1
      (env ++ (c.spec.run h (c.args.map (envGet env))).2)
      (oo ++ List.replicate c.spec.results.length true) := by
  have tgOwn : ∀ x ∈ c.spec.targetObjs (c.args.map (envGet env)), Own h0 Never Never h x := by
    intro x hx
    simp only [OpSpec.targetObjs, List.mem_map] at hx
    obtain ⟨j, hj, rfl⟩ := hx
    have hlt : j < c.args.length := Nat.lt_of_lt_of_le (ok.tlt j hj) hn
    have : envGet (c.args.map (envGet env)) j = envGet env (c.args.getD j 0) := by
      simp [envGet, List.getD, List.getElem?_map, List.getElem?_eq_getElem hlt]
    rw [this]; exact I.own _ (ht j hj)
  have fA : ∀ x, x ∈ c.spec.targetObjs (c.args.map (envGet env)) → h0.size ≤ x := by
    intro x hx
    rcases (tgOwn x hx).self with h1 | h1
    · exact h1
    · exact h1.elim
  have fD : ∀ d, d ∈ reachableDicts h (c.spec.targetObjs (c.args.map (envGet env))) → h0.size ≤ d := by
    intro d hd
    simp only [reachableDicts, List.mem_flatMap] at hd
    obtain ⟨x, hx, hd⟩ := hd
    rcases (tgOwn x hx).dicts d hd with h1 | h1
    · exact h1
    · exact h1.elim
  obtain ⟨st, ro, to⟩ := spec_step c.spec ok h (c.args.map (envGet env)) (by simpa using hn)
    (fun x hx => (tgOwn x hx).lt)
  refine ⟨I.step.trans st ?_ ?_, by simp [I.len, spec_run_results_length], ?_⟩
  · intro i hi hx
    have := fA i hx
    omega
  · intro i hi hx
    simp only [reachable, List.mem_flatMap, List.mem_cons] at hx
    obtain ⟨x, hx, hd⟩ := hx
    rcases hd with rfl | hd
    · have := fA i hx; omega
    · have := fD i (by simp only [reachableDicts, List.mem_flatMap]; exact ⟨x, hx, hd⟩)
      omega
  · intro j hj
    by_cases hlt : j < oo.length
    · rw [getD_append_left' hlt] at hj
      have hlt' : j < env.length := I.len ▸ hlt
      have : envGet (env ++ (c.spec.run h (c.args.map (envGet env))).2) j = envGet env j := by
        simp [envGet, List.getD, List.getElem?_append_left hlt']
      rw [this]
      by_cases hm : envGet env j ∈ c.spec.targetObjs (c.args.map (envGet env))
      · exact own_lift' (to _ hm) I.step.size fA fD
      · exact (I.own j hj).ext st hm
    · have hge : oo.length ≤ j := Nat.le_of_not_lt hlt
      obtain ⟨k, rfl⟩ : ∃ k, j = oo.length + k := ⟨j - oo.length, by omega⟩
      have hk : k < (c.spec.run h (c.args.map (envGet env))).2.length := by
        have := getD_true_lt hj
        simp only [List.length_append, List.length_replicate] at this
        rw [spec_run_results_length]; omega
      have : envGet (env ++ (c.spec.run h (c.args.map (envGet env))).2) (oo.length + k) =
          (c.spec.run h (c.args.map (envGet env))).2[k] := by
        simp [envGet, List.getD, I.len, List.getElem?_append_right, List.getElem?_eq_getElem hk]
      rw [this]
      exact own_lift' (ro _ (List.getElem_mem hk)) I.step.size fA fD

theorem gcalls_inv {h0 : Heap} (cs : List GCall) :
    ∀ {h : Heap} {env : Env} {oo : List Bool}, GCallsOwned oo cs → GInv h0 h env oo →
      ∃ oo', GInv h0 (runG cs h env).1 (runG cs h env).2 oo' := by
  induction cs with
  | nil => intro h env oo _ I; exact ⟨oo, I⟩
  | cons c r ih =>
    intro h env oo hc I
    obtain ⟨ok, hn, ht, hr⟩ := hc
    exact ih hr (gcall_inv c I ok hn ht)

theorem GInv.init (h : Heap) (operands : List ObjId) :
    GInv h h operands (List.replicate operands.length false) :=
  ⟨Step.refl _ _ _, by simp, fun j hj => by
    have := getD_true_lt hj
    simp only [List.length_replicate] at this
    simp [List.getD, this] at hj⟩

/-- **programs of calls of both tables**: if every call is only ever asked to modify results of
    earlier calls, every object that existed before the program is identical after it -/
theorem gprog_frame (cs : List GCall) (h : Heap) (env : Env)
    (hcs : GCallsOwned (List.replicate env.length false) cs) :
    ∀ i o, h.get? i = some o → (runG cs h env).1.get? i = some o := by
  obtain ⟨oo', I⟩ := gcalls_inv cs hcs (GInv.init h env)
  intro i o ho
  exact I.step.same ho (fun e => e) (fun e => e)

/-- run an operation out of place, then ANY program of calls (of both tables) that is only ever asked
    to modify the results: every object that existed before the first call is identical at the end -/
theorem g_result_mutation_safe (s : OpSpec) (ok : s.OK) (h : Heap) (operands : List ObjId)
    (hn : s.arity ≤ operands.length) (hout : s.targets = []) (cs : List GCall)
    (hcs : GCallsOwned (List.replicate operands.length false ++ List.replicate s.results.length true) cs) :
    ∀ i o, h.get? i = some o →
      (runG cs (s.run h operands).1 (operands ++ (s.run h operands).2)).1.get? i = some o := by
  have I1 := gcall_inv (h0 := h) ⟨s, List.range operands.length⟩ (GInv.init h operands) ok
    (by simpa using hn) (by simp [hout])
  have hmap : (List.range operands.length).map (envGet operands) = operands := by
    apply List.ext_getElem
    · simp
    · intro i h1 h2
      simp only [List.length_map, List.length_range] at h1
      simp [envGet, List.getD, List.getElem?_eq_getElem h1]
  simp only [hmap] at I1
  obtain ⟨oo', I2⟩ := gcalls_inv cs hcs I1
  intro i o ho
  exact I2.step.same ho (fun e => e) (fun e => e)

theorem runG_append (cs1 cs2 : List GCall) (h : Heap) (env : Env) :
    runG (cs1 ++ cs2) h env = runG cs2 (runG cs1 h env).1 (runG cs1 h env).2 := by
  induction cs1 generalizing h env with
  | nil => rfl
  | cons c r ih => simp only [List.cons_append, runG]; exact ih _ _

/-! ### the `Op2` table obeys the discipline -/

theorem safe_syncCopyK {Q : List Bool → Prop} {o : List Bool} {n : Nat} (hn : o.length = n) (src : Nat)
    (k : Prog) : Safe Q o (syncCopyK src n k) ↔ Safe Q (o ++ [true]) k := by
  unfold syncCopyK
  simp only [Safe, Cmd.ok, Cmd.push, true_and]
  have : (o ++ [true]).getD n false = true := by
    have := getD_append_right' (l := [true]) hn 0
    simpa using this
  rw [safe_script this]

theorem op2_ok (op : Op2) : op.spec.OK := by
  refine ⟨?_, by simp [Op2.spec]⟩
  cases op with
  | observe n => simp [Op2.spec, Op2.prog, Safe, OpSpec.ResOwned, Op2.results]
  | getParams =>
    simp [Op2.spec, Op2.prog, Safe, OpSpec.ResOwned, Op2.results, OpSpec.flags, Op2.arity, Cmd.ok, Cmd.push,
      List.range, List.range.loop]
  | reduceF =>
    simp only [Op2.spec, Op2.prog, OpSpec.flags, Op2.arity]
    exact safe_syncedK (by rfl) _ _ _ (by simp [Safe, OpSpec.ResOwned, Op2.results])
      (by simp [Safe, OpSpec.ResOwned, Op2.results])
  | toDenseF =>
    simp only [Op2.spec, Op2.prog, OpSpec.flags, Op2.arity]
    rw [safe_syncCopyK (by rfl)]; simp [Safe, OpSpec.ResOwned, Op2.results]
  | allcloseF =>
    simp only [Op2.spec, Op2.prog, OpSpec.flags, Op2.arity]
    rw [safe_syncCopyK (by rfl), safe_syncCopyK (by rfl)]; simp [Safe, OpSpec.ResOwned, Op2.results]
  | traceF flip =>
    cases flip with
    | none =>
      simp only [Op2.spec, Op2.prog, OpSpec.flags, Op2.arity]
      rw [safe_syncCopyK (by rfl)]; simp [Safe, OpSpec.ResOwned, Op2.results]
    | some odd =>
      simp only [Op2.spec, Op2.prog, OpSpec.flags, Op2.arity, Safe, Cmd.ok, Cmd.push, true_and]
      rw [safe_script (by rfl), safe_syncCopyK (by rfl)]; simp [Safe, OpSpec.ResOwned, Op2.results]
  | clipA tag =>
    simp only [Op2.spec, Op2.prog, OpSpec.flags, Op2.arity, Safe, Cmd.ok, Cmd.push, true_and]
    rw [safe_script (by rfl)]; simp [Safe, OpSpec.ResOwned, Op2.results, List.range, List.range.loop]
  | clipF tag =>
    simp only [Op2.spec, Op2.prog, OpSpec.flags, Op2.arity]
    refine safe_syncedK (by rfl) _ _ _ ?_ ?_ <;>
    · simp only [Safe, Cmd.ok, Cmd.push, true_and]
      rw [safe_script (by rfl)]; simp [Safe, OpSpec.ResOwned, Op2.results]
  | einsumA p scalar =>
    cases scalar <;>
      simp [Op2.spec, Op2.prog, Safe, OpSpec.ResOwned, Op2.results, OpSpec.flags, Op2.arity, Cmd.ok, Cmd.push,
        List.range, List.range.loop]
  | einsumF fk fi sg p scalar =>
    simp only [Op2.spec, Op2.prog, OpSpec.flags, Op2.arity, Safe, Cmd.ok, Cmd.push, true_and]
    rw [safe_script (by rfl), safe_script (by rfl)]
    cases scalar <;>
      simp [Safe, OpSpec.ResOwned, Op2.results, Cmd.ok, Cmd.push, List.range, List.range.loop]
  | matmulF flip tdot oddFlip oddpos scalar =>
    simp only [Op2.spec, Op2.prog, OpSpec.flags, Op2.arity]
    have tail : ∀ b : Bool, Safe (Op2.spec (.matmulF flip tdot oddFlip oddpos scalar)).ResOwned [false, false, b]
        (syncCopyK 0 3 <| syncCopyK 2 4 <| tdotBlockwiseK 3 4 tdot <| .read fun v =>
          (S.resolveOddpos (oddFlip (v.at 3) (v.at 4)) (oddpos (v.at 3) (v.at 4))).prog 5 [] <|
          if scalar then S.phaseSync.prog 5 [] .done else .done) := by
      intro b
      rw [safe_syncCopyK (by rfl), safe_syncCopyK (by rfl), safe_tdotBlockwiseK]
      intro v
      rw [safe_script (by rfl)]
      cases scalar
      · simp [Safe, OpSpec.ResOwned, Op2.spec, Op2.results]
      · simp only [if_true]
        rw [safe_script (by rfl)]; simp [Safe, OpSpec.ResOwned, Op2.spec, Op2.results]
    cases flip with
    | none =>
      simp only [flipOtherK, Safe, Cmd.ok, Cmd.push, true_and]
      exact tail _
    | some odd =>
      simp only [flipOtherK, Safe, Cmd.ok, Cmd.push, true_and]
      rw [safe_script (by rfl)]
      exact tail _
  | construct i c es f o =>
    simp [Op2.spec, Op2.prog, Safe, OpSpec.ResOwned, Op2.results, OpSpec.flags, Op2.arity, Cmd.ok, Cmd.push,
      List.range, List.range.loop]
  | fromFill i c f o keys =>
    simp only [Op2.spec, Op2.prog, OpSpec.flags, Op2.arity, Safe, Cmd.ok, Cmd.push, true_and]
    rw [safe_actsK (by rfl)]
    simp [Safe, OpSpec.ResOwned, Op2.results, List.range, List.range.loop]

end SymmModel.Heap
