/-
  SymmModel.Proofs.ReconEigh — `ev.multiply_diagonal(w, 1) @ ev.dagger()` for a fermionic
  charge-zero matrix that carries a (necessarily even) sorted list of non-dual labels: the labels
  of `ev` and of `ev†` annihilate pairwise (`NormNet.resolve_nested`) without a sign.
  The proof is `LinalgLemmas.eigh_recon_fermi` with the label steps replaced.
  Namespace `SymmModel.ReconP`.
-/
import SymmModel.Proofs.ReconLabels
import SymmModel.Proofs.NormNetLabels

namespace SymmModel
namespace ReconP
open LinalgLemmas OddposP

variable {R : Type}

/-- `FermionicArray.dagger()` of an array without pending signs whose conjugate charge is even
    (any labels) -/
theorem daggerF_even [Zero R] [Conj R] (e : Arr R) (hp : e.phases = [])
    (hpar : e.sym.parity (e.sym.sign e.charge true) = false) :
    (e.daggerF).blocks = e.blocks.map (fun p =>
        (p.1.reverse, (p.2.conjK).transposeK (Arr.reversedAxes e.ndim)))
    ∧ (e.daggerF).phases = [] ∧ (e.daggerF).oddpos = Arr.oddposDag e.oddpos
    ∧ (e.daggerF).indices = e.indices.reverse.map Index.conj
    ∧ (e.daggerF).sym = e.sym := by
  have hph : e.blocks.filterMap (fun (p : Sector × Blk R) =>
      if e.getPhase p.1 == -1 then some (p.1.reverse, (-1 : Int)) else none) = [] := by
    rw [List.filterMap_eq_nil_iff]
    intro p _
    simp [Arr.getPhase, hp, alookup]
  unfold Arr.daggerF
  simp only [Arr.parity, hpar, Bool.false_and, Bool.false_eq_true, if_false]
  exact ⟨trivial, hph, trivial, trivial, trivial⟩

theorem eigh_recon_fermi_labels [Zero R] [Add R] [Mul R] [Neg R] [Conj R] [SignLaws R]
    (hc0 : Conj.conj (0 : R) = 0) {K : Kernels R} (hK : K.ShapeOk) {a : Arr R} (H : EighInput a)
    (hf : a.fermi = true) (hlab : SortedLabels a.oddpos) (hket : ∀ l ∈ a.oddpos, l.2 = false)
    (hE : ∀ p ∈ a.phaseSync.blocks, K.EighBlock p.2) :
    ∃ w ev y, eighA K a = .ok (w, ev) ∧ Arr.matmulF (multiplyDiagonal ev w 1) ev.daggerF = .ok y
      ∧ y.oddpos = [] ∧ ∀ s off, AddrOf a s off → y.elem s off = a.elem s off := by
  have HA := eighInput_syncIf H
  obtain ⟨f1, f2, f3, f4, f5, f6⟩ := syncIf_fields a
  obtain ⟨i0, i1, hi⟩ := ndim_two HA.h2
  have hi1 : (syncIf a).indices.getD 1 default = i1 := by rw [hi]; rfl
  have hAph : (syncIf a).phases = [] := syncIf_phases a H.hv
  have hAo : (syncIf a).oddpos = a.oddpos := f5
  have hfA : (syncIf a).fermi = true := f2.trans hf
  have hcore := eighCore_eq K HA
  -- name the pieces
  generalize hW : (⟨let ev := (syncIf a).blocks.map (fun p => (colOf p.1, (K.eigh p.2).1))
        if (syncIf a).fermi && !((syncIf a).indices.getD 1 default).dual then
          ev.map (fun q => if (syncIf a).sym.parity q.1 then (q.1, q.2.negK) else (q.1, q.2))
        else ev⟩ : BVec R) = W at hcore
  generalize hEV : ({ syncIf a with blocks := (syncIf a).blocks.map (fun p => (p.1, (K.eigh p.2).2)) }
      : Arr R) = EV at hcore
  have hEVb : EV.blocks = (syncIf a).blocks.map (fun p => (p.1, (K.eigh p.2).2)) := by rw [← hEV]
  have hEVp : EV.phases = [] := by rw [← hEV]; exact hAph
  have hEVo : EV.oddpos = a.oddpos := by rw [← hEV]; exact hAo
  have hEVi : EV.indices = [i0, i1] := by rw [← hEV]; exact hi
  have hEVn : EV.ndim = 2 := by simp [Arr.ndim, hEVi]
  -- eigenvalues with the sign `eigh_fermionic` applies
  have hWb : W.blocks = (syncIf a).blocks.map (fun p => (colOf p.1,
      if (!i1.dual && (syncIf a).sym.parity (colOf p.1)) then (K.eigh p.2).1.negK
      else (K.eigh p.2).1)) := by
    rw [← hW]
    simp only [hfA, hi1, Bool.true_and]
    by_cases hd : i1.dual = true
    · simp [hd]
    · simp only [hd, Bool.not_false, Bool.true_and, if_true, List.map_map, Function.comp_def]
      apply List.map_congr_left
      intro p _
      split <;> rfl
  -- left operand
  have hLb := multiplyDiagonal_blocks' HA.hv HA.h2 (fun p => (K.eigh p.2).2)
    (fun p => if (!i1.dual && (syncIf a).sym.parity (colOf p.1)) then (K.eigh p.2).1.negK
      else (K.eigh p.2).1) EV W hEVb hWb
  have hLp : (multiplyDiagonal EV W 1).phases = [] := hEVp
  have hLo : (multiplyDiagonal EV W 1).oddpos = a.oddpos := hEVo
  have hLn : (multiplyDiagonal EV W 1).ndim = 2 := hEVn
  -- right operand
  have hEVc : EV.sym.parity (EV.sym.sign EV.charge true) = false := by
    rw [← hEV]
    show (syncIf a).sym.parity ((syncIf a).sym.sign (syncIf a).charge true) = false
    rw [HA.hc]
    cases (syncIf a).sym <;> decide
  obtain ⟨hDb, hDp, hDo, hDi, hDs⟩ := daggerF_even EV hEVp hEVc
  have hDi' : EV.daggerF.indices = [i1.conj, i0.conj] := by rw [hDi, hEVi]; rfl
  have hDb' : EV.daggerF.blocks = (syncIf a).blocks.map (fun p =>
      ([colOf p.1, colOf p.1], ((K.eigh p.2).2.conjK).transposeK [1, 0])) := by
    rw [hDb, hEVb, List.map_map, hEVn]
    apply List.map_congr_left
    intro p hp
    obtain ⟨c, m, hs, _⟩ := eigh_block HA (s := p.1) (b := p.2) hp
    simp only [Function.comp, hs]
    rfl
  have hDnd : EV.daggerF.sectors.Nodup := by
    have := colCharges_nodup HA.hv HA.h2
    have h' := nodup_map_of_inj _ (fun c : Charge => [c, c]) this (fun a _ b _ e => (List.cons.inj e).1)
    simpa [Arr.sectors, hDb', List.map_map, Function.comp_def, colOf] using h'
  have hB2b : (if i1.conj.dual then EV.daggerF.phaseFlip [0] else EV.daggerF).phaseSync.blocks
      = (syncIf a).blocks.map (fun p => ([colOf p.1, colOf p.1],
          if (!i1.dual && (syncIf a).sym.parity (colOf p.1))
          then (((K.eigh p.2).2.conjK).transposeK [1, 0]).negK
          else ((K.eigh p.2).2.conjK).transposeK [1, 0])) := by
    by_cases hd : i1.conj.dual = true
    · rw [if_pos hd]
      have hfb : (EV.daggerF.phaseFlip [0]).blocks = (syncIf a).blocks.map (fun p =>
          ([colOf p.1, colOf p.1], ((K.eigh p.2).2.conjK).transposeK [1, 0])) := by
        rw [(phaseFlip_fields _ [0]).2.2.2.2.1, hDb']
      rw [phaseSync_blocks_map _ (syncIf a).blocks (fun p => [colOf p.1, colOf p.1])
        (fun p => ((K.eigh p.2).2.conjK).transposeK [1, 0]) hfb]
      apply List.map_congr_left
      intro p hp
      rw [phaseFlip0_phases _ hDp hDnd, alookup_flagged]
      have hmem : [colOf p.1, colOf p.1] ∈ EV.daggerF.sectors := by
        simp only [Arr.sectors, hDb', List.map_map, List.mem_map, Function.comp]
        exact ⟨p, hp, rfl⟩
      have hd' : i1.dual = false := by
        rw [conj_dual] at hd; simpa using hd
      have hsym : EV.daggerF.sym = (syncIf a).sym := by
        rw [hDs, ← hEV]
      simp only [hmem, decide_true, Bool.true_and, List.getD_cons_zero, hd', Bool.not_false, hsym]
    · rw [if_neg hd, phaseSync_blocks_nil _ hDp, hDb']
      have hd' : i1.dual = true := by
        rw [conj_dual] at hd; simpa using hd
      simp [hd']
  have hB2o : (if i1.conj.dual then EV.daggerF.phaseFlip [0] else EV.daggerF).phaseSync.oddpos
      = Arr.oddposDag a.oddpos := by
    show (if i1.conj.dual then EV.daggerF.phaseFlip [0] else EV.daggerF).oddpos = _
    split
    · rw [(phaseFlip_fields _ [0]).2.2.2.2.2, hDo, hEVo]
    · rw [hDo, hEVo]
  have hA2b := (phaseSync_blocks_nil _ hLp).trans hLb
  have hcb := tdot_blocks_aligned HA.hv HA.h2
    (fun p => (K.eigh p.2).2.mulAxisK
      (if (!i1.dual && (syncIf a).sym.parity (colOf p.1)) then (K.eigh p.2).1.negK
       else (K.eigh p.2).1) 1)
    (fun p => if (!i1.dual && (syncIf a).sym.parity (colOf p.1))
      then (((K.eigh p.2).2.conjK).transposeK [1, 0]).negK
      else ((K.eigh p.2).2.conjK).transposeK [1, 0]) _ _ hA2b hB2b
  have hm : Arr.matmulF (multiplyDiagonal EV W 1) EV.daggerF = .ok
      { tensordotBlockwise (multiplyDiagonal EV W 1).phaseSync
          (if i1.conj.dual then EV.daggerF.phaseFlip [0] else EV.daggerF).phaseSync [0] [1] [0] [1]
        with oddpos := [] } := by
    have hLpar : (multiplyDiagonal EV W 1).phaseSync.parity = false := by
      show EV.sym.parity EV.charge = false
      rw [← hEV]
      show (syncIf a).sym.parity (syncIf a).charge = false
      rw [HA.hc]
      cases (syncIf a).sym <;> decide
    have heven : a.oddpos.length % 2 = 0 := by
      have h5 := ((validB_iff a).mp H.hv).2.2.2.2
      unfold fermiOk at h5
      rw [if_pos hf] at h5
      simp only [Bool.and_eq_true, beq_iff_eq] at h5
      have hp : a.parity = false := by
        show a.sym.parity a.charge = false
        rw [H.hc]; cases a.sym <;> decide
      have := h5.2
      rw [hp] at this
      rcases Nat.mod_two_eq_zero_or_one a.oddpos.length with e | e
      · exact e
      · rw [e] at this; simp at this
    have hns : NormNet.nestSign (Arr.oddposDag a.oddpos) = 1 := by
      rw [NormNet.nestSign_dual _ (NormNet.oddposDag_all_dual _ hket), Lazy.oddposDag_length, heven]
      rfl
    rw [matmulF_eq _ _ hLn _ _ hDi',
      NormNet.resolve_nested _ _ _ (Arr.oddposDag a.oddpos)
        (by show (multiplyDiagonal EV W 1).oddpos = _; rw [hLo, Lazy.oddposDag_involutive]) hB2o
        (by rw [Lazy.oddposDag_involutive]; exact hlab.1)
        (NormNet.oddposDag_distinct _ hlab.2),
      hLpar, hns]
    rfl
  refine ⟨W, EV, _, by rw [eighA_eq_core]; exact hcore, hm, rfl, ?_⟩
  · intro s off ha
    rw [← syncIf_elem SignLaws.neg_zero a s off]
    apply elem_of_blocks_map HA.hv HA.h2 _ _ hcb rfl hAph _ s off (addrOf_syncIf H.hv ha)
    intro p hp i j hi' hj'
    obtain ⟨c, m, hs, hsh, hwf, _⟩ := eigh_block HA (s := p.1) (b := p.2) hp
    simp only [hsh, List.getD_cons_zero, List.getD_cons_succ] at hi' hj'
    obtain ⟨a1, _, a3, _⟩ := hK.eigh p.2 m hsh hwf
    have hEp : K.EighBlock p.2 := hE p (by rw [← syncIf_blocks_fermi a hf]; exact hp)
    rw [tensordotK_matmul_get _ _ (by rw [mulAxisK_shape]; exact a3)
      (show (if (!i1.dual && (syncIf a).sym.parity (colOf p.1)) = true
          then (((K.eigh p.2).2.conjK).transposeK [1, 0]).negK
          else ((K.eigh p.2).2.conjK).transposeK [1, 0]).shape = [m, m] by
        split
        · rw [negK_shape]; exact transposeK10_shape _ (by rw [conjK_shape]; exact a3)
        · exact transposeK10_shape _ (by rw [conjK_shape]; exact a3)) hi' hj',
      ← hEp m hsh i j hi' hj']
    apply foldl_ext'
    intro acc t ht
    have ht' := List.mem_range.mp ht
    rw [mulAxisK_get _ _ a3 hi' ht']
    have hWt : (if (!i1.dual && (syncIf a).sym.parity (colOf p.1)) = true then (K.eigh p.2).1.negK
        else (K.eigh p.2).1).get [t]
        = if (!i1.dual && (syncIf a).sym.parity (colOf p.1)) then - (K.eigh p.2).1.get [t]
          else (K.eigh p.2).1.get [t] := by
      split
      · rw [negK_get SignLaws.neg_zero]
      · rfl
    have hCt : (if (!i1.dual && (syncIf a).sym.parity (colOf p.1)) = true
          then (((K.eigh p.2).2.conjK).transposeK [1, 0]).negK
          else ((K.eigh p.2).2.conjK).transposeK [1, 0]).get [t, j]
        = if (!i1.dual && (syncIf a).sym.parity (colOf p.1))
          then - Conj.conj ((K.eigh p.2).2.get [j, t]) else Conj.conj ((K.eigh p.2).2.get [j, t]) := by
      split
      · rw [negK_get SignLaws.neg_zero, transposeK10_get _ (by rw [conjK_shape]; exact a3) ht' hj',
          conjK_get hc0]
      · rw [transposeK10_get _ (by rw [conjK_shape]; exact a3) ht' hj', conjK_get hc0]
    rw [hWt, hCt, signed_term]

end ReconP
end SymmModel
