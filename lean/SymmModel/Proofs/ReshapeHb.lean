/-
  SymmModel.Proofs.ReshapeHb — the multi-call round trip for inputs that ALREADY carry fused axes.
  The invariant of Reshape5c (`Inv`) identifies "fused axis" with "axis created by the forward plan";
  here every axis of the intermediate array carries a mark (`true` = created by a fuse call of the
  plan), the old fused axes of the input stay what they are.  The way back unfuses the marked axes
  only — provided no old fused axis' sub-sizes equal a window of the original shape (`noWinB`), the
  planner's window matching then answers as if the old fused axes were plain (`ReshapeHa`).
-/
import SymmModel.Proofs.ReshapeHa
namespace SymmModel.ReshapeH
open SymmModel SymmModel.Reshape SymmModel.C07 SymmModel.Reshape5 ReshapeP FuseP
set_option linter.unusedSectionVars false

variable {R : Type}

/-- the sub-indices of a fused index -/
def subsOf (ix : Index) : List Index := match ix.sub with
  | some se => se.1
  | none => []

/-- what a marked axis stands for in the original array -/
def expM (s : Index × Bool) : List Index := if s.2 then subsOf s.1 else [s.1]

/-- (axis, number of sub-indices) of the marked axes, left to right; `b` = axis of the first -/
def newPL : List (Index × Bool) → Nat → List (Nat × Nat)
  | [], _ => []
  | s :: r, b => if s.2 then (b, (subsOf s.1).length) :: newPL r (b + 1) else newPL r (b + 1)

/-- a marked axis is fused and has at least one sub-index -/
def SegOk (s : Index × Bool) : Prop := s.2 = true → ∃ se, s.1.sub = some se ∧ se.1 ≠ []

/-- the symbolic shape in which only the marked axes count as fused -/
def symH (segs : List (Index × Bool)) : SymShape :=
  segs.map (fun s => (s.1.sizeTotal, if s.2 then s.1.sub.map (fun se => se.1.map Index.sizeTotal) else none))

def AllOld (segs : List (Index × Bool)) : Prop := ∀ s ∈ segs, s.2 = false

theorem newPL_append : ∀ (A B : List (Index × Bool)) (b : Nat),
    newPL (A ++ B) b = newPL A b ++ newPL B (b + A.length) := by
  intro A
  induction A with
  | nil => intro B b; simp [newPL]
  | cons s A ih =>
    intro B b
    simp only [List.cons_append, newPL, List.length_cons]
    cases s.2 with
    | false => simp only [Bool.false_eq_true, if_false]; rw [ih]; congr 2; omega
    | true => simp only [if_true, List.cons_append]; rw [ih]; congr 3; omega

theorem newPL_old {A : List (Index × Bool)} (h : AllOld A) (b : Nat) : newPL A b = [] := by
  induction A generalizing b with
  | nil => rfl
  | cons s A ih =>
    simp only [newPL, h s (by simp), Bool.false_eq_true, if_false]
    exact ih (fun i hi => h i (by simp [hi])) _

theorem flatMap_old {A : List (Index × Bool)} (h : AllOld A) : A.flatMap expM = A.map (·.1) := by
  induction A with
  | nil => rfl
  | cons s A ih =>
    simp only [List.flatMap_cons, List.map_cons, expM, h s (by simp), Bool.false_eq_true, if_false]
    rw [ih (fun i hi => h i (by simp [hi]))]; rfl

theorem newPL_mem : ∀ (segs : List (Index × Bool)) (b : Nat) (pl : Nat × Nat), pl ∈ newPL segs b →
    b ≤ pl.1 ∧ ∃ ix, segs[pl.1 - b]? = some (ix, true) ∧ (subsOf ix).length = pl.2 := by
  intro segs
  induction segs with
  | nil => intro b pl h; simp [newPL] at h
  | cons s r ih =>
    intro b pl h
    obtain ⟨ix0, m⟩ := s
    simp only [newPL] at h
    cases m with
    | false =>
      simp only [Bool.false_eq_true, if_false] at h
      obtain ⟨h1, ix, h2, h3⟩ := ih (b + 1) pl h
      refine ⟨by omega, ix, ?_, h3⟩
      have : pl.1 - b = (pl.1 - (b + 1)) + 1 := by omega
      rw [this]; simpa using h2
    | true =>
      simp only [if_true] at h
      rcases List.mem_cons.mp h with rfl | h
      · exact ⟨Nat.le_refl _, ix0, by simp, rfl⟩
      · obtain ⟨h1, ix, h2, h3⟩ := ih (b + 1) pl h
        refine ⟨by omega, ix, ?_, h3⟩
        have : pl.1 - b = (pl.1 - (b + 1)) + 1 := by omega
        rw [this]; simpa using h2

theorem newPL_sorted : ∀ (segs : List (Index × Bool)) (b : Nat),
    ((newPL segs b).map (·.1)).Pairwise (· < ·) := by
  intro segs
  induction segs with
  | nil => intro b; simp [newPL]
  | cons s r ih =>
    intro b
    simp only [newPL]
    cases s.2 with
    | false => simp only [Bool.false_eq_true, if_false]; exact ih (b + 1)
    | true =>
      simp only [if_true, List.map_cons, List.pairwise_cons]
      refine ⟨?_, ih (b + 1)⟩
      intro q hq
      obtain ⟨pl, hpl, rfl⟩ := List.mem_map.mp hq
      have := (newPL_mem r (b + 1) pl hpl).1
      omega

/-! ### the masked symbolic shape -/

theorem sizes_symH (segs : List (Index × Bool)) :
    SymShape.sizes (symH segs) = (segs.map (·.1)).map Index.sizeTotal := by
  simp [symH, SymShape.sizes, List.map_map, Function.comp_def]

theorem tgt_symH (segs : List (Index × Bool)) (hok : ∀ s ∈ segs, SegOk s) :
    tgt (symH segs) = (segs.flatMap expM).map Index.sizeTotal := by
  induction segs with
  | nil => rfl
  | cons s r ih =>
    have ih' := ih (fun i hi => hok i (by simp [hi]))
    simp only [symH, List.map_cons, tgt_cons, List.flatMap_cons, List.map_append] at ih' ⊢
    rw [ih']
    congr 1
    obtain ⟨ix, m⟩ := s
    cases m with
    | false => simp [tgt1, expM]
    | true =>
      obtain ⟨se, hse, _⟩ := hok (ix, true) (by simp) rfl
      simp only at hse
      simp [tgt1, expM, subsOf, hse]

theorem fusedOk_symH (segs : List (Index × Bool)) (hok : ∀ s ∈ segs, SegOk s) : FusedOk (symH segs) := by
  intro e he subs hs
  simp only [symH, List.mem_map] at he
  obtain ⟨s, hs', rfl⟩ := he
  obtain ⟨ix, m⟩ := s
  cases m with
  | false => simp at hs
  | true =>
    obtain ⟨se, hse, hne⟩ := hok (ix, true) hs' rfl
    simp only at hse
    simp only [if_true, hse, Option.map_some, Option.some.injEq] at hs
    subst hs
    simpa using hne

theorem backAxes_symH : ∀ (segs : List (Index × Bool)) (b off : Nat), (∀ s ∈ segs, SegOk s) →
    backAxes (symH segs) (b + off) = l2rAxes (newPL segs b) off := by
  intro segs
  induction segs with
  | nil => intro b off _; rfl
  | cons s r ih =>
    intro b off hok
    have hokr : ∀ s ∈ r, SegOk s := fun i hi => hok i (by simp [hi])
    obtain ⟨ix, m⟩ := s
    cases m with
    | false =>
      simp only [symH, List.map_cons, Bool.false_eq_true, if_false, backAxes, newPL]
      have := ih (b + 1) off hokr
      simp only [symH] at this
      rw [← this]; congr 1; omega
    | true =>
      obtain ⟨se, hse, hne⟩ := hok (ix, true) (by simp) rfl
      simp only at hse
      have hl : 1 ≤ se.1.length := List.length_pos_iff.mpr hne
      simp only [symH, List.map_cons, if_true, hse, Option.map_some, backAxes, newPL, l2rAxes,
        List.length_map, subsOf]
      congr 1
      have := ih (b + 1) (off + se.1.length - 1) hokr
      simp only [symH] at this
      rw [← this]; congr 1; omega

/-- two sub-size tables read off the same list agree when they agree entry by entry -/
theorem subsAgree_map {α : Type} (ns : List Nat) (l : List α) (f g : α → Option (List Nat))
    (h : ∀ s ∈ l, ∀ j, j < ns.length → unfuseMatch ns j (f s) = unfuseMatch ns j (g s)) :
    SubsAgree ns (l.map f) (l.map g) := by
  refine ⟨by simp, ?_⟩
  intro i sa sb ha hb j hj
  rw [List.getElem?_map] at ha hb
  cases hs : l[i]? with
  | none => rw [hs] at ha; cases ha
  | some s =>
    rw [hs] at ha hb
    simp only [Option.map_some, Option.some.injEq] at ha hb
    subst ha; subst hb
    exact h s (List.mem_of_getElem? hs) j hj

/-- **the plan of the way back**: unfuse the marked axes left to right -/
theorem back_plan_marked (y a : Arr R) (segs : List (Index × Bool)) (hidx : y.indices = segs.map (·.1))
    (hexp : segs.flatMap expM = a.indices) (hok : ∀ s ∈ segs, SegOk s)
    (hnw : noWinB a.shape a.subsizes = true) :
    calcReshapeArgs y.shape a.shape y.subsizes = .ok (l2rAxes (newPL segs 0) 0, [], []) := by
  have h1 := back_plan_multi (symH segs) (fusedOk_symH segs hok)
  have hsz : SymShape.sizes (symH segs) = y.shape := by rw [sizes_symH, ← hidx]; rfl
  have htg : tgt (symH segs) = a.shape := by rw [tgt_symH segs hok, hexp]; rfl
  have hba := backAxes_symH segs 0 0 hok
  simp only [Nat.add_zero] at hba
  rw [hsz, htg, hba] at h1
  rw [← h1]
  apply calcReshapeArgs_congr
  have e1 : y.subsizes = segs.map (fun s => s.1.sub.map (fun se => se.1.map Index.sizeTotal)) := by
    simp only [Arr.subsizes, hidx, List.map_map]; rfl
  have e2 : SymShape.subs (symH segs)
      = segs.map (fun s => if s.2 then s.1.sub.map (fun se => se.1.map Index.sizeTotal) else none) := by
    simp only [SymShape.subs, symH, List.map_map]; rfl
  rw [e1, e2]
  apply subsAgree_map
  intro s hs j hj
  obtain ⟨ix, m⟩ := s
  cases m with
  | true => rfl
  | false =>
    simp only [Bool.false_eq_true, if_false]
    have hmem : ix ∈ a.indices := by
      rw [← hexp, List.mem_flatMap]
      exact ⟨(ix, false), hs, by simp [expM]⟩
    have : ix.sub.map (fun se => se.1.map Index.sizeTotal) ∈ a.subsizes := by
      simp only [Arr.subsizes]
      exact List.mem_map_of_mem hmem
    rw [noWin_spec hnw this hj]; rfl

/-! ### the invariant along the fuse calls -/

variable [Zero R] [Neg R] [Lazy.LawfulNeg R]

/-- the invariant: `a` is the original array (fused axes allowed), `segs` the marked axes of `y` -/
structure InvH (unf : Arr R → Nat → Except Err (Arr R)) (Good : Arr R → Prop) (a y : Arr R) (lb : Nat)
    (segs : List (Index × Bool)) : Prop where
  good : Good y
  idx : y.indices = segs.map (·.1)
  exp : segs.flatMap expM = a.indices
  ok : ∀ s ∈ segs, SegOk s
  old : AllOld (segs.drop lb)
  chain : ∃ z, ((newPL segs 0).map (·.1)).reverse.foldlM unf y = .ok z ∧ Good z ∧ VEq z a

theorem allOld_init (l : List Index) : AllOld (l.map (fun ix => (ix, false))) := by
  intro s hs
  obtain ⟨ix, _, rfl⟩ := List.mem_map.mp hs
  rfl

theorem invH_init {unf : Arr R → Nat → Except Err (Arr R)} {Good : Arr R → Prop} (a : Arr R)
    (hg : Good a) : InvH unf Good a a 0 (a.indices.map (fun ix => (ix, false))) where
  good := hg
  idx := by simp [List.map_map, Function.comp_def]
  exp := by rw [flatMap_old (allOld_init _)]; simp [List.map_map, Function.comp_def]
  ok := fun s hs h => by rw [allOld_init _ s hs] at h; cases h
  old := fun s hs => allOld_init _ s (List.mem_of_mem_drop hs)
  chain := ⟨a, by rw [newPL_old (allOld_init _)]; rfl, hg, VEq.refl a⟩

theorem mids_factsH : ∀ (Ss : List (List Index)) (mids : List Index) (b : Nat), mids.length = Ss.length →
    (∀ (i : Nat) (S : List Index), Ss[i]? = some S →
      ∃ (ix : Index) (e : Extents), mids[i]? = some ix ∧ ix.sub = some (S, e)) →
    (mids.map (fun m => (m, true))).flatMap expM = Ss.flatten
    ∧ (newPL (mids.map (fun m => (m, true))) b).map (·.1) = (List.range Ss.length).map (fun g => b + g)
    ∧ ((∀ S ∈ Ss, S ≠ []) → ∀ s ∈ mids.map (fun m => (m, true)), SegOk s) := by
  intro Ss
  induction Ss with
  | nil =>
    intro mids b hl _
    have : mids = [] := List.length_eq_zero_iff.mp hl
    subst this
    exact ⟨rfl, rfl, fun _ s hs => by simp at hs⟩
  | cons S Ss ih =>
    intro mids b hl h
    cases mids with
    | nil => simp at hl
    | cons m mids =>
      obtain ⟨ix, e, h0, hsub⟩ := h 0 S (by simp)
      simp only [List.getElem?_cons_zero, Option.some.injEq] at h0
      subst h0
      obtain ⟨i1, i2, i3⟩ := ih mids (b + 1) (by simpa using hl) (fun i S' hS' => by
        have := h (i + 1) S' (by simpa using hS')
        simpa using this)
      refine ⟨?_, ?_, ?_⟩
      · simp only [List.map_cons, List.flatMap_cons, List.flatten_cons, i1]
        simp [expM, subsOf, hsub]
      · simp only [List.map_cons, newPL, if_true, List.length_cons, List.range_succ_eq_map,
          List.map_map, i2, Nat.add_zero, List.cons.injEq, true_and]
        apply List.map_congr_left
        intro g _
        simp only [Function.comp]; omega
      · intro hne s hs
        simp only [List.map_cons] at hs
        rcases List.mem_cons.mp hs with rfl | hs
        · intro _
          exact ⟨(S, e), hsub, hne S (by simp)⟩
        · exact i3 (fun S' hS' => hne S' (by simp [hS'])) s hs

variable {fuse : Arr R → List (List Nat) → Except Err (Arr R)}
  {unf : Arr R → Nat → Except Err (Arr R)} {Good : Arr R → Prop}
  {sg : Sym → Index → List Index → Sector → Int}

/-- one fuse call keeps the invariant -/
theorem invH_step (H : StepOK unf Good sg) (F : FuseOK fuse unf Good)
    (hind : ∀ x p y, unf x p = .ok y → ∃ ix subs exts, x.indices[p]? = some ix ∧ ix.sub = some (subs, exts))
    {a y : Arr R} {lb P : Nat} {G : List (List Nat)} {segs : List (Index × Bool)}
    (hI : InvH unf Good a y lb segs) (hc : CallOk G P lb y.ndim) :
    ∃ y' segs', fuse y G = .ok y' ∧ InvH unf Good a y' (P + G.length) segs'
      ∧ y'.ndim = y.ndim - G.flatten.length + G.length := by
  obtain ⟨y', mids, w, hy', gy', hidx, hml, hmids, hw, gw, hvw⟩ :=
    F.fuse y G P hI.good hc.ne hc.two hc.flat hc.le
  have hnd : y.indices.length = y.ndim := rfl
  have hsl : segs.length = y.ndim := by rw [← hnd, hI.idx]; simp
  obtain ⟨N, hN⟩ : ∃ N, N = G.flatten.length := ⟨_, rfl⟩
  have hle : P + N ≤ y.indices.length := by rw [hN, hnd]; exact hc.le
  have hsplit : segs = segs.take P ++ ((segs.drop P).take N ++ segs.drop (P + N)) := by
    rw [← List.drop_drop, List.take_append_drop, List.take_append_drop]
  have hWold : AllOld ((segs.drop P).take N) := by
    intro s hs
    apply hI.old s
    have h1 : s ∈ segs.drop P := List.mem_of_mem_take hs
    have : segs.drop P = (segs.drop lb).drop (P - lb) := by
      rw [List.drop_drop]; congr 1; have := hc.lb; omega
    rw [this] at h1
    exact List.mem_of_mem_drop h1
  have hCold : AllOld (segs.drop (P + N)) := by
    intro s hs
    apply hI.old s
    have : segs.drop (P + N) = (segs.drop lb).drop (P + N - lb) := by
      rw [List.drop_drop]; congr 1; have := hc.lb; omega
    rw [this] at hs
    exact List.mem_of_mem_drop hs
  -- the sub-indices of the new axes
  have hSs : (G.map (fun g => g.map (fun ax => y.indices.getD ax default))).flatten
      = (y.indices.drop P).take N := by
    rw [← List.map_flatten, hc.flat, ← hN]
    apply List.ext_getElem?
    intro j
    by_cases hj : j < N
    · rw [List.getElem?_map, List.getElem?_range' (by simpa using hj), List.getElem?_take_of_lt hj,
        List.getElem?_drop]
      simp only [Option.map_some, List.getD_eq_getElem?_getD]
      have : P + 1 * j < y.indices.length := by omega
      rw [Nat.one_mul] at this ⊢
      rw [List.getElem?_eq_getElem this]; rfl
    · rw [List.getElem?_eq_none (by simp; omega), List.getElem?_eq_none (by simp; omega)]
  obtain ⟨m1, m2, m3⟩ := mids_factsH (G.map (fun g => g.map (fun ax => y.indices.getD ax default))) mids P
    (by simpa using hml) (by
      intro i S hS
      rw [List.getElem?_map] at hS
      cases hg : G[i]? with
      | none => rw [hg] at hS; cases hS
      | some g =>
        rw [hg] at hS
        simp only [Option.map_some, Option.some.injEq] at hS
        subst hS
        exact hmids i g hg)
  rw [hSs] at m1
  simp only [List.length_map] at m2
  have hokm : ∀ s ∈ mids.map (fun m => (m, true)), SegOk s := m3 (by
    intro S hS
    obtain ⟨g, hg, rfl⟩ := List.mem_map.mp hS
    intro hc0
    have hl0 := congrArg List.length hc0
    have h2 := hc.two g hg
    simp only [List.length_map, List.length_nil] at hl0; omega)
  have hAl : (segs.take P).length = P := by rw [List.length_take]; omega
  have hWmap : ((segs.drop P).take N).map (·.1) = (y.indices.drop P).take N := by
    rw [hI.idx, List.map_take, List.map_drop]
  refine ⟨y', segs.take P ++ mids.map (fun m => (m, true)) ++ segs.drop (P + N), hy',
    ⟨gy', ?_, ?_, ?_, ?_, ?_⟩, ?_⟩
  · -- indices
    rw [hidx, ← hN, hI.idx]
    simp [List.map_take, List.map_drop, List.map_map, Function.comp_def]
  · -- what the axes stand for
    rw [List.flatMap_append, List.flatMap_append, m1, ← hWmap, ← flatMap_old hWold, ← hI.exp]
    conv => rhs; rw [hsplit, List.flatMap_append, List.flatMap_append]
    simp
  · -- marked axes are fused
    intro s hs
    simp only [List.mem_append] at hs
    rcases hs with (hs | hs) | hs
    · exact hI.ok s (List.mem_of_mem_take hs)
    · exact hokm s hs
    · exact hI.ok s (List.mem_of_mem_drop hs)
  · -- old tail
    have : (segs.take P ++ mids.map (fun m => (m, true)) ++ segs.drop (P + N)).drop (P + G.length)
        = segs.drop (P + N) := by
      rw [List.drop_left' (by simp [hAl, hml])]
    rw [this]; exact hCold
  · -- the right-to-left chain
    obtain ⟨zy, hzy, gzy, hvzy⟩ := hI.chain
    have e1 : newPL segs 0 = newPL (segs.take P) 0 := by
      conv => lhs; rw [hsplit]
      rw [newPL_append, newPL_append, newPL_old hWold, newPL_old hCold]
      simp
    have e2 : newPL (segs.take P ++ mids.map (fun m => (m, true)) ++ segs.drop (P + N)) 0
        = newPL (segs.take P) 0 ++ newPL (mids.map (fun m => (m, true))) P := by
      rw [newPL_append, newPL_append, newPL_old hCold]
      simp [hAl]
    rw [e1] at hzy
    obtain ⟨zw, hzw, _, gzw, hvz⟩ := chain_veq H hind _ y w zy hvw.symm hI.good gw hzy
    refine ⟨zw, ?_, gzw, hvz.symm.trans hvzy⟩
    rw [e2, List.map_append, List.reverse_append, List.foldlM_append, m2, hw]
    exact hzw
  · have := congrArg List.length hidx
    have hAy : (y.indices.take P).length = P := by rw [List.length_take]; omega
    simp only [List.length_append, hAy, hml, List.length_drop] at this
    have h1 : y'.indices.length = y'.ndim := rfl
    rw [← hN]; omega

/-- all fuse calls keep the invariant -/
theorem invH_calls (H : StepOK unf Good sg) (F : FuseOK fuse unf Good)
    (hind : ∀ x p y, unf x p = .ok y → ∃ ix subs exts, x.indices[p]? = some ix ∧ ix.sub = some (subs, exts))
    (hfd : ∀ x G, Good x → fuseDispatch x G = fuse x G) (a : Arr R) :
    ∀ (calls : List (List (List Nat))) (y : Arr R) (lb : Nat) (segs : List (Index × Bool)),
      InvH unf Good a y lb segs → CallsOk calls lb y.ndim →
      ∃ y' lb' segs', calls.foldlM fuseDispatch y = .ok y' ∧ InvH unf Good a y' lb' segs' := by
  intro calls
  induction calls with
  | nil => intro y lb segs hI _; exact ⟨y, lb, segs, rfl, hI⟩
  | cons G rest ih =>
    intro y lb segs hI hc
    obtain ⟨P, hc1, hc2⟩ := hc
    obtain ⟨y1, segs1, hy1, hI1, hnd⟩ := invH_step H F hind hI hc1
    rw [← hnd] at hc2
    obtain ⟨y', lb', segs', h1, h2⟩ := ih y1 _ segs1 hI1 hc2
    exact ⟨y', lb', segs', by rw [List.foldlM_cons, hfd y G hI.good, hy1]; exact h1, h2⟩

/-! ### the way back -/

theorem newPL_fusedAtL (y : Arr R) (segs : List (Index × Bool)) (hidx : y.indices = segs.map (·.1))
    (hok : ∀ s ∈ segs, SegOk s) : ∀ pl ∈ newPL segs 0, 0 < pl.2 ∧ FusedAtL y pl.1 pl.2 := by
  intro pl hpl
  obtain ⟨_, ix, h1, h2⟩ := newPL_mem segs 0 pl hpl
  simp only [Nat.sub_zero] at h1
  obtain ⟨se, hse, hne⟩ := hok (ix, true) (List.mem_of_getElem? h1) rfl
  simp only at hse
  have hl : (subsOf ix).length = se.1.length := by simp [subsOf, hse]
  refine ⟨by rw [← h2, hl]; exact List.length_pos_iff.mpr hne, ix, se.1, se.2, ?_, hse, by rw [← h2, hl]⟩
  rw [hidx, List.getElem?_map, h1]; rfl

/-- `reshape` back: the plan unfuses the marked axes left to right; the result has the value view of
    the original array -/
theorem back_of_invH (H : StepOK unf Good sg)
    (hdisp : ∀ x p, Good x → unfuseDispatch x p = unf x p)
    (hind : ∀ x p y, unf x p = .ok y → ∃ ix subs exts, x.indices[p]? = some ix ∧ ix.sub = some (subs, exts))
    {a y : Arr R} {lb : Nat} {segs : List (Index × Bool)} (hI : InvH unf Good a y lb segs)
    (hnw : noWinB a.shape a.subsizes = true) :
    ∃ z, reshapeArr y (a.shape.map Int.ofNat) = .ok z ∧ Good z ∧ VEq z a := by
  obtain ⟨zr, hzr, _, hvzr⟩ := hI.chain
  obtain ⟨zl, zr', hl, hr, gzl, _, hv⟩ := l2r_r2l H (newPL segs 0) 0 y hI.good
    (newPL_sorted _ _) (by simpa using newPL_fusedAtL y segs hI.idx hI.ok)
  simp only [Nat.add_zero] at hr
  rw [hzr] at hr; injection hr with hr; subst hr
  refine ⟨zl, ?_, gzl, hv.trans hvzr⟩
  rw [reshapeArr_eq y _ _ a.shape _ (findFullReshape_nat a.shape y.size) (mapM_toNat a.shape)
    (back_plan_marked y a segs hI.idx hI.exp hI.ok hnw)]
  simp only [applyPlan, List.foldlM_nil, bind, Except.bind, pure, Except.pure]
  have key : ∀ (ps : List Nat) (x : Arr R), Good x → ps.foldlM unfuseDispatch x = ps.foldlM unf x := by
    intro ps
    induction ps with
    | nil => intro x _; rfl
    | cons p ps ih =>
      intro x hx
      rw [List.foldlM_cons, List.foldlM_cons, hdisp x p hx]
      cases hu : unf x p with
      | error e => rfl
      | ok x1 =>
        obtain ⟨ix, subs, exts, hix, hsub⟩ := hind x p x1 hu
        obtain ⟨x2, h2, g2, _⟩ := H.step x p ix subs exts hx hix hsub
        rw [hu] at h2; injection h2 with h2; subst h2
        exact ih x1 g2
  rw [key _ y hI.good, hl]

/-- **there and back from `CallsOk`, fused axes allowed** -/
theorem roundtrip_fused_generic (H : StepOK unf Good sg) (F : FuseOK fuse unf Good)
    (hind : ∀ x p y, unf x p = .ok y → ∃ ix subs exts, x.indices[p]? = some ix ∧ ix.sub = some (subs, exts))
    (hfd : ∀ x G, Good x → fuseDispatch x G = fuse x G)
    (hdisp : ∀ x p, Good x → unfuseDispatch x p = unf x p)
    (a : Arr R) (hg : Good a) (hnw : noWinB a.shape a.subsizes = true)
    (calls : List (List (List Nat))) (hc : CallsOk calls 0 a.ndim) :
    ∃ y z, applyPlan a ([], calls, []) = .ok y ∧ reshapeArr y (a.shape.map Int.ofNat) = .ok z
      ∧ Good z ∧ VEq z a := by
  obtain ⟨y, lb, segs, hy, hI⟩ := invH_calls H F hind hfd a calls a 0 _ (invH_init a hg) hc
  obtain ⟨z, hz, gz, hv⟩ := back_of_invH H hdisp hind hI hnw
  refine ⟨y, z, ?_, hz, gz, hv⟩
  simp only [applyPlan, List.foldlM_nil, bind, Except.bind, pure, Except.pure]
  rw [hy]

end SymmModel.ReshapeH
