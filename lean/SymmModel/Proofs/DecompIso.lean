/-
  SymmModel.Proofs.DecompIso — the array-level isometry statements of C11 for FERMIONIC factors,
  through the library's `dagger()`, `@` and `tensordot` (every mode):
    `Q† · Q`  (left factor `leftF x L`: `q` of `qr`, `u` of `svd`)  is, on the bond sector
              `(c, c)` of the block with sector `s = (r, c)`, the Gram matrix of the columns of the
              block times the sign `isoSignL x s` =
                 (−1)^(number of DUAL labels of x) · (−1 if x's row index is dual and r is odd);
    `VH · VH†` (right factor `rightF x L Rt`) is the Gram matrix of the rows times
              `bondSign x c` = −1 iff x's column index is NOT dual and c is odd.
  Proof: C03's graded semantics of `@` / `tensordot` (`DecompP.graded_matmul_and_tensordot`), the
  single sector pair per bond charge (`GramPair`), the value view of `dagger()`
  (`Lazy.daggerF_phOf`), and the nested label merge `NormNet.resolveScan_nested`.
  Namespace `SymmModel.DecompP`.  Nothing here changes a model definition.
-/
import SymmModel.Proofs.DecompGram
import SymmModel.Proofs.DecompTdot

namespace SymmModel
namespace DecompP
set_option linter.unusedSectionVars false
open LinalgLemmas ReconP Recon2P TdotP GradedP RoutesP OddposP
open Lazy (sgnI)

variable {R : Type}

/-! ### labels -/

/-- the conjugated (reversed) list of a sorted label list is sorted -/
theorem oddposDag_sorted (o : List (Int × Bool)) (hs : o.Pairwise (fun a b => oddLt a b = true)) :
    (Arr.oddposDag o).Pairwise (fun a b => oddLt a b = true) := by
  rw [NormNet.oddposDag_eq_bar, List.pairwise_map, List.pairwise_reverse]
  refine hs.imp ?_
  intro a b hab
  obtain ⟨a1, a2⟩ := a
  obtain ⟨b1, b2⟩ := b
  unfold oddLt at hab ⊢
  simp only [NormNet.bar]
  cases a2 <;> cases b2 <;> simp at hab ⊢ <;> first | exact hab | exact decide_eq_true hab

/-- the label merge of `dagger(q)` with `q`: all labels annihilate, sign `-1` per dual label
    (and the sign for moving an odd number of labels over an odd left operand) -/
theorem merge_nested (pa : Bool) (o : List (Int × Bool)) (hl : SortedLabels o) :
    mergeOddpos pa (Arr.oddposDag o) o
      = .ok ([], (if pa && o.length % 2 == 1 then -1 else 1) * NormNet.nestSign o) := by
  unfold mergeOddpos
  apply NormNet.resolveScan_nested o (oddposDag_sorted o hl.1) hl.2
  simp only [List.length_append, Lazy.oddposDag_length]
  generalize o.length = n
  have : n ≤ (n + n) * (n + n) := by
    calc n ≤ n + n := by omega
      _ ≤ (n + n) * (n + n) := Nat.le_mul_self _
  omega

/-! ### the value view of `dagger()` -/

section dag
variable [Zero R] [Neg R] [Conj R] [Lazy.LawfulNeg R]

theorem daggerF_elem {a : Arr R} (h : Lazy.SignOk a) {s : Sector} {b : Blk R}
    (hm : (s, b) ∈ a.blocks) (off : List Nat) :
    (a.daggerF).elem s.reverse off
      = sgnI (Lazy.dagSign a false s * Lazy.phOf a.phases s)
          (((b.conjK).transposeK (Arr.reversedAxes a.ndim)).get off) := by
  have hs : s ∈ a.sectors := List.mem_map.mpr ⟨(s, b), hm, rfl⟩
  have hl : alookup (a.daggerF).blocks s.reverse
      = some ((b.conjK).transposeK (Arr.reversedAxes a.ndim)) := by
    apply alookup_of_mem_nodup (h.daggerF false).sectors
    rw [Lazy.daggerF_blocks]
    exact List.mem_map.mpr ⟨(s, b), hm, rfl⟩
  rw [Lazy.elem_eq, hl]
  simp only []
  rw [Lazy.daggerF_phOf h false hs]

theorem elem_sgn {a : Arr R} (h : Lazy.SignOk a) {s : Sector} {b : Blk R}
    (hm : (s, b) ∈ a.blocks) (off : List Nat) :
    a.elem s off = sgnI (Lazy.phOf a.phases s) (b.get off) := by
  rw [Lazy.elem_eq, alookup_of_mem_nodup h.sectors hm]

end dag

/-- sign of `Q† · Q` on the bond sector of the block with sector `s` -/
def isoSignL (x : Arr R) (s : Sector) : Int :=
  NormNet.nestSign x.oddpos
    * (if (x.indices.getD 0 default).dual && x.sym.parity (rowOf s) then -1 else 1)

theorem isoSignL_pm (x : Arr R) (s : Sector) : isoSignL x s = 1 ∨ isoSignL x s = -1 :=
  Lazy.mul_pm (NormNet.nestSign_pm _) (by split <;> simp)

/-! ### `Q† · Q` -/

/-- `Q` is a left-factor-like array of the fermionic matrix `x` restricted to the items `l`: it keeps
    `x`'s symmetry, charge, labels and row index, and stores `fA p` (shape `[m, k]`) at the sector
    `sec p` of `x` (any pending signs).  Instances: `q` of `qr`, `u` of `svd`, `u'` of
    `svd_truncated`. -/
structure LeftLike (x Q : Arr R) {α : Type} (l : List α) (sec : α → Sector) (fA : α → Blk R)
    (dims : α → Nat × Nat) : Prop where
  v : Q.validB = true
  f : Q.fermi = true
  sym : Q.sym = x.sym
  ch : Q.charge = x.charge
  od : Q.oddpos = x.oddpos
  idx : ∃ J, Q.indices = [x.indices.getD 0 default, J]
  bl : Q.blocks = l.map (fun p => (sec p, fA p))
  hin : ∀ p ∈ l, sec p ∈ x.sectors
  hsec : (l.map sec).Nodup
  hsh : ∀ p ∈ l, (fA p).shape = [(dims p).1, (dims p).2]

/-- `V` is a right-factor-like array: no labels, `x`'s symmetry and column index, `fB p` (shape
    `[k, n]`) at the diagonal sector of the column charge of `sec p` (any pending signs). -/
structure RightLike (x V : Arr R) {α : Type} (l : List α) (sec : α → Sector) (fB : α → Blk R)
    (dims : α → Nat × Nat) : Prop where
  v : V.validB = true
  f : V.fermi = true
  sym : V.sym = x.sym
  od : V.oddpos = []
  idx : ∃ J, V.indices = [J, x.indices.getD 1 default]
  bl : V.blocks = l.map (fun p => (diagOf (sec p), fB p))
  hin : ∀ p ∈ l, sec p ∈ x.sectors
  hsec : (l.map sec).Nodup
  hsh : ∀ p ∈ l, (fB p).shape = [(dims p).1, (dims p).2]

section items
variable {x : Arr R} {α : Type} {l : List α} {sec : α → Sector}

theorem items_rc (hv : x.validB = true) (h2 : x.ndim = 2) (hin : ∀ p ∈ l, sec p ∈ x.sectors) :
    ∀ p ∈ l, sec p = [rowOf (sec p), colOf (sec p)] := by
  obtain ⟨i0, i1, hi⟩ := ndim_two h2
  intro p hp
  obtain ⟨⟨s0, b⟩, hm, e⟩ := List.mem_map.mp (hin p hp)
  obtain ⟨r, c, m, n, B⟩ := mat_block hv hi hm
  have e' : sec p = [r, c] := by rw [← e]; exact B.hs
  rw [e']; rfl

theorem items_rows (hv : x.validB = true) (h2 : x.ndim = 2) (hin : ∀ p ∈ l, sec p ∈ x.sectors)
    (hsec : (l.map sec).Nodup) : (l.map (fun p => rowOf (sec p))).Nodup := by
  have := nodup_map_of_inj (l.map sec) rowOf hsec (by
    intro a ha b hb e
    obtain ⟨p, hp, rfl⟩ := List.mem_map.mp ha
    obtain ⟨q, hq, rfl⟩ := List.mem_map.mp hb
    exact (sector_inj hv h2 (hin p hp) (hin q hq)).1 e)
  simpa [List.map_map, Function.comp_def] using this

theorem items_cols (hv : x.validB = true) (h2 : x.ndim = 2) (hin : ∀ p ∈ l, sec p ∈ x.sectors)
    (hsec : (l.map sec).Nodup) : (l.map (fun p => colOf (sec p))).Nodup := by
  have := nodup_map_of_inj (l.map sec) colOf hsec (by
    intro a ha b hb e
    obtain ⟨p, hp, rfl⟩ := List.mem_map.mp ha
    obtain ⟨q, hq, rfl⟩ := List.mem_map.mp hb
    exact (sector_inj hv h2 (hin p hp) (hin q hq)).2 e)
  simpa [List.map_map, Function.comp_def] using this

theorem items_diag (hv : x.validB = true) (h2 : x.ndim = 2) (hin : ∀ p ∈ l, sec p ∈ x.sectors)
    (hsec : (l.map sec).Nodup) :
    (l.map (fun p => [colOf (sec p), colOf (sec p)])).Nodup := by
  have h' := nodup_map_of_inj _ (fun c : Charge => [c, c]) (items_cols hv h2 hin hsec)
    (fun a _ b _ e => (List.cons.inj e).1)
  simpa [List.map_map, Function.comp_def] using h'

end items

section left
variable [AddCommMonoid R] [Mul R] [Neg R] [SignRing R] [Conj R]
variable {x Q : Arr R} {α : Type} {l : List α} {sec : α → Sector} {fA : α → Blk R}
  {dims : α → Nat × Nat}

/-- **`dagger(Q) · Q` for a left-factor-like array of a fermionic matrix**, through `@` and through
    `tensordot` in every mode: success, no labels, and on the bond sector of every item the signed
    Gram matrix of the columns of its block. -/
theorem gram_left_fermi_items (hz1 : ∀ v : R, 0 * v = 0) (hz2 : ∀ v : R, v * 0 = 0)
    (hc0 : Conj.conj (0 : R) = 0) (hv : x.validB = true) (h2 : x.ndim = 2)
    (hlab : SortedLabels x.oddpos) (P : LeftLike x Q l sec fA dims) :
    (∃ y, Q.daggerF.matmulF Q = .ok y ∧ y.oddpos = []
      ∧ ∀ p ∈ l, ∀ t t', t < (dims p).2 → t' < (dims p).2 →
          y.elem (diagOf (sec p)) [t, t'] = sgnI (isoSignL x (sec p))
            ((List.range (dims p).1).foldl
              (fun acc i => acc + Conj.conj ((fA p).get [i, t]) * (fA p).get [i, t']) 0))
    ∧ ∀ tm, ∃ c, Q.daggerF.tensordotF Q (.pair [1] [0]) tm = .ok c
      ∧ c.oddpos = []
      ∧ ∀ p ∈ l, ∀ t t', t < (dims p).2 → t' < (dims p).2 →
          c.elem (diagOf (sec p)) [t, t'] = sgnI (isoSignL x (sec p))
            ((List.range (dims p).1).foldl
              (fun acc i => acc + Conj.conj ((fA p).get [i, t]) * (fA p).get [i, t']) 0) := by
  obtain ⟨i0, i1, hi⟩ := ndim_two h2
  have hi0 : x.indices.getD 0 default = i0 := by rw [hi]; rfl
  obtain ⟨J, hQi'⟩ := P.idx
  have hQv := P.v
  have hQf := P.f
  have hQi : Q.indices = [i0, J] := by rw [hQi', hi0]
  have hQn : Q.ndim = 2 := by simp [Arr.ndim, hQi]
  obtain ⟨d1, d2, d3, d4, d5⟩ := daggerF_fields Q
  have hAv : Q.daggerF.validB = true :=
    (ValidP.validB_iff _).mpr (ValidP.daggerF_valid _ false ((ValidP.validB_iff _).mp hQv) hQf)
  have hAi : Q.daggerF.indices = [J.conj, i0.conj] := by rw [d3, hQi]; rfl
  have hAn : Q.daggerF.ndim = 2 := by simp [Arr.ndim, hAi]
  have hAdm : Adm Q.daggerF Q [1] [0] := by
    refine ⟨hAv, hQv, d2.trans hQf, hQf, d1, ?_, by decide, by decide, ?_, ?_⟩
    · unfold ValidP.contractibleB
      rw [hAi, hQi]
      simp
    · intro a ha; simp at ha; subst ha; rw [hAn]; decide
    · intro a ha; simp at ha; subst ha; rw [hQn]; decide
  have hsQ : Lazy.SignOk Q := Lazy.SignOk.of_valid hQv hQf
  have hrc := items_rc hv h2 P.hin
  have hQs : Q.sectors = l.map sec := by
    simp [Arr.sectors, P.bl, List.map_map, Function.comp_def]
  have G : GramPair Q.daggerF Q l (fun p => colOf (sec p))
      (fun p => rowOf (sec p)) (fun p => colOf (sec p)) := by
    refine ⟨hAn, hQn, ?_, ?_, items_rows hv h2 P.hin P.hsec, items_diag hv h2 P.hin P.hsec⟩
    · rw [Lazy.daggerF_sectors, hQs, List.map_map]
      apply List.map_congr_left
      intro p hp
      simp only [Function.comp]
      rw [hrc p hp]; rfl
    · rw [hQs]
      apply List.map_congr_left
      intro p hp
      exact hrc p hp
  -- labels
  have hpar : Q.daggerF.parity = x.sym.parity (x.sym.sign x.charge true) := by
    show Q.daggerF.sym.parity Q.daggerF.charge = _
    rw [d1, d4, P.sym, P.ch]
  have hm : mergeOddpos Q.daggerF.parity Q.daggerF.oddpos Q.oddpos
      = .ok ([], (if x.sym.parity (x.sym.sign x.charge true) && x.oddpos.length % 2 == 1
          then -1 else 1) * NormNet.nestSign x.oddpos) := by
    rw [hpar, d5, P.od]
    exact merge_nested _ x.oddpos hlab
  -- values
  have hval : ∀ p ∈ l, ∀ t t', t < (dims p).2 → t' < (dims p).2 →
      inBox (Arr.blockShapeD (without Q.daggerF.indices [1] ++ without Q.indices [0])
          (diagOf (sec p))) [t, t'] = true
      ∧ sgnI ((if x.sym.parity (x.sym.sign x.charge true) && x.oddpos.length % 2 == 1
            then -1 else 1) * NormNet.nestSign x.oddpos)
          (gradedContract Q.daggerF Q [1] [0] (diagOf (sec p)) [t] [t'])
        = sgnI (isoSignL x (sec p)) ((List.range (dims p).1).foldl
            (fun acc i => acc + Conj.conj ((fA p).get [i, t]) * (fA p).get [i, t']) 0) := by
    intro p hp t t' ht ht'
    have hs := hrc p hp
    generalize hr : rowOf (sec p) = r at hs
    generalize hc : colOf (sec p) = c at hs
    have l1 := P.hsh p hp
    have hdg : diagOf (sec p) = [c, c] := by simp [diagOf, hc]
    have hQm : (sec p, fA p) ∈ Q.blocks := by rw [P.bl]; exact List.mem_map.mpr ⟨p, hp, rfl⟩
    -- tables
    have hQsh := (((validB_iff _).mp hQv).2.2.2.1 (sec p) (fA p) hQm).2.2.1
    rw [hQi, hs, l1] at hQsh
    obtain ⟨m0, k0, e1, e2, e3⟩ := (blockShape?_pair _ _ r c _).mp hQsh
    have hm0 : m0 = (dims p).1 := (List.cons.inj e3).1.symm
    have hk0 : k0 = (dims p).2 := (List.cons.inj (List.cons.inj e3).2).1.symm
    subst hm0 hk0
    have hAsh : Arr.blockShapeD Q.daggerF.indices [c, r] = [(dims p).2, (dims p).1] := by
      unfold Arr.blockShapeD
      rw [hAi, (blockShape?_pair _ _ c r [(dims p).2, (dims p).1]).mpr
        ⟨(dims p).2, (dims p).1, by rw [conj_cm]; exact e2, by rw [conj_cm]; exact e1, rfl⟩]
      rfl
    have hbox : inBox (Arr.blockShapeD (without Q.daggerF.indices [1] ++ without Q.indices [0])
        (diagOf (sec p))) [t, t'] = true := by
      have hidx : without Q.daggerF.indices [1] ++ without Q.indices [0] = [J.conj, J] := by
        rw [hAi, hQi]; rfl
      rw [hidx, hdg]
      unfold Arr.blockShapeD
      rw [(blockShape?_pair _ _ c c [(dims p).2, (dims p).2]).mpr
        ⟨(dims p).2, (dims p).2, by rw [conj_cm]; exact e2, e2, rfl⟩]
      exact (inBox_pair _ _ t t').mpr ⟨ht, ht'⟩
    refine ⟨hbox, ?_⟩
    have hgc := G.gradedContract (p := p) hp (dims p).2 (dims p).1
      (by simp only [hc, hr]; exact hAsh) t t'
    simp only [hc, hr] at hgc
    rw [hdg, hgc]
    -- the two value views
    have hrev : [c, r] = (sec p).reverse := by rw [hs]; rfl
    have hterm : ∀ i ∈ List.range (dims p).1,
        Q.daggerF.elem [c, r] [t, i] * Q.elem [r, c] [i, t']
          = sgnI (Lazy.dagSign Q false (sec p))
              (Conj.conj ((fA p).get [i, t]) * (fA p).get [i, t']) := by
      intro i hi'
      have hi'' := List.mem_range.mp hi'
      rw [hrev, daggerF_elem hsQ hQm, ← hs, elem_sgn hsQ hQm, hQn]
      have hrv : Arr.reversedAxes 2 = [1, 0] := rfl
      rw [hrv, transposeK10_get _ (by rw [conjK_shape]; exact l1) ht hi'', conjK_get hc0,
        sgnI_mul_mul (Lazy.mul_pm (Lazy.dagSign_pm _ _ _) (hsQ.phases.phOf (sec p)))
          (hsQ.phases.phOf (sec p))]
      congr 1
      rcases hsQ.phases.phOf (sec p) with h | h <;> rw [h] <;> simp
    rw [List.map_congr_left hterm, sgnI_sum, sum_map_eq_foldl]
    -- the signs
    have hdgs : Lazy.dagSign Q false (sec p)
        = if x.sym.parity (x.sym.sign x.charge true) && x.oddpos.length % 2 == 1 then -1 else 1 := by
      unfold Lazy.dagSign Lazy.conjGlob
      rw [P.sym, P.ch, P.od]
      simp only [Bool.false_eq_true, if_false, Int.one_mul, Bool.true_and, Lazy.oddposDag_length]
    have hgs : (!(Q.daggerF.indices.getD 1 default).dual && Q.daggerF.sym.parity r)
        = ((x.indices.getD 0 default).dual && x.sym.parity (rowOf (sec p))) := by
      rw [hAi, d1, P.sym, hi0, hr]
      show (!i0.conj.dual && x.sym.parity r) = _
      rw [conj_dual]; simp
    rw [hdgs, hgs]
    unfold isoSignL
    generalize ((List.range (dims p).1).foldl
      (fun acc i => acc + Conj.conj ((fA p).get [i, t]) * (fA p).get [i, t']) 0) = S
    rcases NormNet.nestSign_pm x.oddpos with h | h <;> rw [h] <;>
      cases (x.sym.parity (x.sym.sign x.charge true) && x.oddpos.length % 2 == 1) <;>
      cases ((x.indices.getD 0 default).dual && x.sym.parity (rowOf (sec p))) <;>
      simp [sgnI, SignRing.neg_neg]
  obtain ⟨⟨y, hy, hyo, _, hye⟩, hT⟩ := graded_matmul_and_tensordot hz1 hz2 _ _ hAdm hAn hQn _ _ hm
  refine ⟨⟨y, hy, hyo, ?_⟩, ?_⟩
  · intro p hp t t' ht ht'
    obtain ⟨hbox, hv'⟩ := hval p hp t t' ht ht'
    rw [hye _ t t' hbox, hv']
  · intro tm
    obtain ⟨c, hc, hco, _, hce⟩ := hT tm
    refine ⟨c, hc, hco, ?_⟩
    intro p hp t t' ht ht'
    obtain ⟨hbox, hv'⟩ := hval p hp t t' ht ht'
    rw [hce _ t t' hbox, hv']

end left

/-- the left factor of `qr` / `svd` is left-factor-like -/
theorem leftLike_leftF {x : Arr R} {L Rt : Blk R → Blk R} (hv : x.validB = true) (h2 : x.ndim = 2)
    (hf : x.fermi = true) (hL : FacShape L Rt) :
    LeftLike x (leftF x L) x.blocks (fun p => p.1) (fun p => L p.2)
      (fun p => (p.2.shape.getD 0 0, min (p.2.shape.getD 0 0) (p.2.shape.getD 1 0))) := by
  obtain ⟨i0, i1, hi⟩ := ndim_two h2
  refine ⟨leftF_valid hv h2 hi hL, hf, rfl, rfl, rfl, ⟨bondIx x L, rfl⟩, rfl,
    fun p hp => List.mem_map.mpr ⟨p, hp, rfl⟩, sectors_nodup hv, ?_⟩
  intro p hp
  obtain ⟨r, c, m, n, B⟩ := mat_block hv hi (s := p.1) (b := p.2) hp
  obtain ⟨l1, _, _, _⟩ := hL p.2 m n B.hshape B.hwf
  simp only [B.hshape, List.getD_cons_zero, List.getD_cons_succ]
  exact l1

section left'
variable [AddCommMonoid R] [Mul R] [Neg R] [SignRing R] [Conj R]
variable {x : Arr R} {L Rt : Blk R → Blk R}

/-- **`dagger(Q) · Q` for the left factor of a fermionic matrix** -/
theorem gram_left_fermi (hz1 : ∀ v : R, 0 * v = 0) (hz2 : ∀ v : R, v * 0 = 0)
    (hc0 : Conj.conj (0 : R) = 0) (hv : x.validB = true) (h2 : x.ndim = 2) (hf : x.fermi = true)
    (hlab : SortedLabels x.oddpos) (hL : FacShape L Rt) :
    (∃ y, (leftF x L).daggerF.matmulF (leftF x L) = .ok y ∧ y.oddpos = []
      ∧ ∀ s b, (s, b) ∈ x.blocks → ∀ m n, b.shape = [m, n] → ∀ t t', t < min m n → t' < min m n →
          y.elem (diagOf s) [t, t'] = sgnI (isoSignL x s)
            ((List.range m).foldl
              (fun acc i => acc + Conj.conj ((L b).get [i, t]) * (L b).get [i, t']) 0))
    ∧ ∀ tm, ∃ c, (leftF x L).daggerF.tensordotF (leftF x L) (.pair [1] [0]) tm = .ok c
      ∧ c.oddpos = []
      ∧ ∀ s b, (s, b) ∈ x.blocks → ∀ m n, b.shape = [m, n] → ∀ t t', t < min m n → t' < min m n →
          c.elem (diagOf s) [t, t'] = sgnI (isoSignL x s)
            ((List.range m).foldl
              (fun acc i => acc + Conj.conj ((L b).get [i, t]) * (L b).get [i, t']) 0) := by
  obtain ⟨⟨y, hy, hyo, hye⟩, hT⟩ := gram_left_fermi_items hz1 hz2 hc0 hv h2 hlab
    (leftLike_leftF (L := L) (Rt := Rt) hv h2 hf hL)
  refine ⟨⟨y, hy, hyo, ?_⟩, ?_⟩
  · intro s b hm m n hs t t' ht ht'
    have := hye (s, b) hm t t'
    simp only [hs, List.getD_cons_zero, List.getD_cons_succ] at this
    exact this ht ht'
  · intro tm
    obtain ⟨c, hc, hco, hce⟩ := hT tm
    refine ⟨c, hc, hco, ?_⟩
    intro s b hm m n hs t t' ht ht'
    have := hce (s, b) hm t t'
    simp only [hs, List.getD_cons_zero, List.getD_cons_succ] at this
    exact this ht ht'

end left'

/-! ### `VH · VH†` -/

section right
variable [AddCommMonoid R] [Mul R] [Neg R] [SignRing R] [Conj R]
variable {x V : Arr R} {α : Type} {l : List α} {sec : α → Sector} {fB : α → Blk R}
  {dims : α → Nat × Nat}

/-- **`V · dagger(V)` for a right-factor-like array of a fermionic matrix**, through `@` and
    through `tensordot` in every mode: success, no labels, and on the bond sector `(c, c)` of every
    item the Gram matrix of the rows of its block times `bondSign x c`. -/
theorem gram_right_fermi_items (hz1 : ∀ v : R, 0 * v = 0) (hz2 : ∀ v : R, v * 0 = 0)
    (hc0 : Conj.conj (0 : R) = 0) (hv : x.validB = true) (h2 : x.ndim = 2)
    (P : RightLike x V l sec fB dims) :
    (∃ y, V.matmulF V.daggerF = .ok y ∧ y.oddpos = []
      ∧ ∀ p ∈ l, ∀ t t', t < (dims p).1 → t' < (dims p).1 →
          y.elem (diagOf (sec p)) [t, t'] = sgnI (bondSign x (colOf (sec p)))
            ((List.range (dims p).2).foldl
              (fun acc j => acc + (fB p).get [t, j] * Conj.conj ((fB p).get [t', j])) 0))
    ∧ ∀ tm, ∃ c, V.tensordotF V.daggerF (.pair [1] [0]) tm = .ok c
      ∧ c.oddpos = []
      ∧ ∀ p ∈ l, ∀ t t', t < (dims p).1 → t' < (dims p).1 →
          c.elem (diagOf (sec p)) [t, t'] = sgnI (bondSign x (colOf (sec p)))
            ((List.range (dims p).2).foldl
              (fun acc j => acc + (fB p).get [t, j] * Conj.conj ((fB p).get [t', j])) 0) := by
  obtain ⟨i0, i1, hi⟩ := ndim_two h2
  have hi1 : x.indices.getD 1 default = i1 := by rw [hi]; rfl
  obtain ⟨J, hVi'⟩ := P.idx
  have hVv := P.v
  have hVf := P.f
  have hVi : V.indices = [J, i1] := by rw [hVi', hi1]
  have hVn : V.ndim = 2 := by simp [Arr.ndim, hVi]
  obtain ⟨d1, d2, d3, d4, d5⟩ := daggerF_fields V
  have hBv : V.daggerF.validB = true :=
    (ValidP.validB_iff _).mpr (ValidP.daggerF_valid _ false ((ValidP.validB_iff _).mp hVv) hVf)
  have hBi : V.daggerF.indices = [i1.conj, J.conj] := by rw [d3, hVi]; rfl
  have hBn : V.daggerF.ndim = 2 := by simp [Arr.ndim, hBi]
  have hAdm : Adm V V.daggerF [1] [0] := by
    refine ⟨hVv, hBv, hVf, d2.trans hVf, d1.symm, ?_, by decide, by decide, ?_, ?_⟩
    · unfold ValidP.contractibleB
      rw [hVi, hBi]
      simp
    · intro a ha; simp at ha; subst ha; rw [hVn]; decide
    · intro a ha; simp at ha; subst ha; rw [hBn]; decide
  have hsV : Lazy.SignOk V := Lazy.SignOk.of_valid hVv hVf
  have hVs : V.sectors = l.map (fun p => [colOf (sec p), colOf (sec p)]) := by
    simp [Arr.sectors, P.bl, List.map_map, Function.comp_def, diagOf]
  have G : GramPair V V.daggerF l (fun p => colOf (sec p))
      (fun p => colOf (sec p)) (fun p => colOf (sec p)) := by
    refine ⟨hVn, hBn, hVs, ?_, items_cols hv h2 P.hin P.hsec, items_diag hv h2 P.hin P.hsec⟩
    rw [Lazy.daggerF_sectors, hVs, List.map_map]
    rfl
  have hm : mergeOddpos V.parity V.oddpos V.daggerF.oddpos = .ok ([], 1) := by
    rw [d5, P.od]
    cases V.parity <;> rfl
  have hval : ∀ p ∈ l, ∀ t t', t < (dims p).1 → t' < (dims p).1 →
      inBox (Arr.blockShapeD (without V.indices [1] ++ without V.daggerF.indices [0])
          (diagOf (sec p))) [t, t'] = true
      ∧ sgnI 1 (gradedContract V V.daggerF [1] [0] (diagOf (sec p)) [t] [t'])
        = sgnI (bondSign x (colOf (sec p))) ((List.range (dims p).2).foldl
            (fun acc j => acc + (fB p).get [t, j] * Conj.conj ((fB p).get [t', j])) 0) := by
    intro p hp t t' ht ht'
    generalize hc : colOf (sec p) = c
    have l3 := P.hsh p hp
    have hdg : diagOf (sec p) = [c, c] := by simp [diagOf, hc]
    have hVm : ([c, c], fB p) ∈ V.blocks := by
      rw [P.bl]; exact List.mem_map.mpr ⟨p, hp, by rw [hdg]⟩
    have hVsh := (((validB_iff _).mp hVv).2.2.2.1 [c, c] (fB p) hVm).2.2.1
    rw [hVi, l3] at hVsh
    obtain ⟨k0, n0, e1, e2, e3⟩ := (blockShape?_pair _ _ c c _).mp hVsh
    have hk0 : k0 = (dims p).1 := (List.cons.inj e3).1.symm
    have hn0 : n0 = (dims p).2 := (List.cons.inj (List.cons.inj e3).2).1.symm
    subst hk0 hn0
    have hAsh : Arr.blockShapeD V.indices [c, c] = [(dims p).1, (dims p).2] := by
      unfold Arr.blockShapeD
      rw [hVi, (blockShape?_pair _ _ c c [(dims p).1, (dims p).2]).mpr
        ⟨(dims p).1, (dims p).2, e1, e2, rfl⟩]
      rfl
    have hbox : inBox (Arr.blockShapeD (without V.indices [1] ++ without V.daggerF.indices [0])
        (diagOf (sec p))) [t, t'] = true := by
      have hidx : without V.indices [1] ++ without V.daggerF.indices [0] = [J, J.conj] := by
        rw [hVi, hBi]; rfl
      rw [hidx, hdg]
      unfold Arr.blockShapeD
      rw [(blockShape?_pair _ _ c c [(dims p).1, (dims p).1]).mpr
        ⟨(dims p).1, (dims p).1, e1, by rw [conj_cm]; exact e1, rfl⟩]
      exact (inBox_pair _ _ t t').mpr ⟨ht, ht'⟩
    refine ⟨hbox, ?_⟩
    have hgc := G.gradedContract (p := p) hp (dims p).1 (dims p).2
      (by simp only [hc]; exact hAsh) t t'
    simp only [hc] at hgc
    rw [hdg, hgc, Lazy.sgnI_one]
    have hdgs : Lazy.dagSign V false [c, c] = 1 := by
      unfold Lazy.dagSign Lazy.conjGlob
      rw [P.od]
      simp [Arr.oddposDag]
    have hterm : ∀ j ∈ List.range (dims p).2,
        V.elem [c, c] [t, j] * V.daggerF.elem [c, c] [j, t']
          = (fB p).get [t, j] * Conj.conj ((fB p).get [t', j]) := by
      intro j hj'
      have hj'' := List.mem_range.mp hj'
      have hd : V.daggerF.elem [c, c] [j, t']
          = sgnI (Lazy.dagSign V false [c, c] * Lazy.phOf V.phases [c, c])
              ((((fB p).conjK).transposeK (Arr.reversedAxes V.ndim)).get [j, t']) :=
        daggerF_elem hsV hVm [j, t']
      rw [hd, elem_sgn hsV hVm, hVn, hdgs, Int.one_mul]
      have hrv : Arr.reversedAxes 2 = [1, 0] := rfl
      rw [hrv, transposeK10_get _ (by rw [conjK_shape]; exact l3) hj'' ht', conjK_get hc0,
        sgnI_mul_mul (hsV.phases.phOf _) (hsV.phases.phOf _)]
      rcases hsV.phases.phOf ([c, c] : Sector) with h | h <;> rw [h] <;> simp
    rw [List.map_congr_left hterm, sum_map_eq_foldl]
    congr 1
    unfold bondSign
    rw [hVi, P.sym, hi1]
    rfl
  obtain ⟨⟨y, hy, hyo, _, hye⟩, hT⟩ := graded_matmul_and_tensordot hz1 hz2 _ _ hAdm hVn hBn _ _ hm
  refine ⟨⟨y, hy, hyo, ?_⟩, ?_⟩
  · intro p hp t t' ht ht'
    obtain ⟨hbox, hv'⟩ := hval p hp t t' ht ht'
    rw [hye _ t t' hbox, hv']
  · intro tm
    obtain ⟨c, hc, hco, _, hce⟩ := hT tm
    refine ⟨c, hc, hco, ?_⟩
    intro p hp t t' ht ht'
    obtain ⟨hbox, hv'⟩ := hval p hp t t' ht ht'
    rw [hce _ t t' hbox, hv']

end right

/-- the right factor of `qr` / `svd` is right-factor-like -/
theorem rightLike_rightF {x : Arr R} {L Rt : Blk R → Blk R} (hv : x.validB = true)
    (h2 : x.ndim = 2) (hf : x.fermi = true) (hL : FacShape L Rt) :
    RightLike x (rightF x L Rt) x.blocks (fun p => p.1) (fun p => Rt p.2)
      (fun p => (min (p.2.shape.getD 0 0) (p.2.shape.getD 1 0), p.2.shape.getD 1 0)) := by
  obtain ⟨i0, i1, hi⟩ := ndim_two h2
  obtain ⟨f1, f2, f3, f4, f5, f6⟩ := rightF_fields (x := x) (L := L) (Rt := Rt)
  refine ⟨rightF_valid hv h2 hi hL, f2.trans hf, f1, f6, ⟨_, f3⟩, f5,
    fun p hp => List.mem_map.mpr ⟨p, hp, rfl⟩, sectors_nodup hv, ?_⟩
  intro p hp
  obtain ⟨r, c, m, n, B⟩ := mat_block hv hi (s := p.1) (b := p.2) hp
  obtain ⟨_, _, l3, _⟩ := hL p.2 m n B.hshape B.hwf
  simp only [B.hshape, List.getD_cons_zero, List.getD_cons_succ]
  exact l3

section right'
variable [AddCommMonoid R] [Mul R] [Neg R] [SignRing R] [Conj R]
variable {x : Arr R} {L Rt : Blk R → Blk R}

/-- **`VH · dagger(VH)` for the right factor of a fermionic matrix** -/
theorem gram_right_fermi (hz1 : ∀ v : R, 0 * v = 0) (hz2 : ∀ v : R, v * 0 = 0)
    (hc0 : Conj.conj (0 : R) = 0) (hv : x.validB = true) (h2 : x.ndim = 2) (hf : x.fermi = true)
    (hL : FacShape L Rt) :
    (∃ y, (rightF x L Rt).matmulF (rightF x L Rt).daggerF = .ok y ∧ y.oddpos = []
      ∧ ∀ s b, (s, b) ∈ x.blocks → ∀ m n, b.shape = [m, n] → ∀ t t', t < min m n → t' < min m n →
          y.elem (diagOf s) [t, t'] = sgnI (bondSign x (colOf s))
            ((List.range n).foldl
              (fun acc j => acc + (Rt b).get [t, j] * Conj.conj ((Rt b).get [t', j])) 0))
    ∧ ∀ tm, ∃ c, (rightF x L Rt).tensordotF (rightF x L Rt).daggerF (.pair [1] [0]) tm = .ok c
      ∧ c.oddpos = []
      ∧ ∀ s b, (s, b) ∈ x.blocks → ∀ m n, b.shape = [m, n] → ∀ t t', t < min m n → t' < min m n →
          c.elem (diagOf s) [t, t'] = sgnI (bondSign x (colOf s))
            ((List.range n).foldl
              (fun acc j => acc + (Rt b).get [t, j] * Conj.conj ((Rt b).get [t', j])) 0) := by
  obtain ⟨⟨y, hy, hyo, hye⟩, hT⟩ := gram_right_fermi_items hz1 hz2 hc0 hv h2
    (rightLike_rightF (L := L) (Rt := Rt) hv h2 hf hL)
  refine ⟨⟨y, hy, hyo, ?_⟩, ?_⟩
  · intro s b hm m n hs t t' ht ht'
    have := hye (s, b) hm t t'
    simp only [hs, List.getD_cons_zero, List.getD_cons_succ] at this
    exact this ht ht'
  · intro tm
    obtain ⟨c, hc, hco, hce⟩ := hT tm
    refine ⟨c, hc, hco, ?_⟩
    intro s b hm m n hs t t' ht ht'
    have := hce (s, b) hm t t'
    simp only [hs, List.getD_cons_zero, List.getD_cons_succ] at this
    exact this ht ht'

end right'

end DecompP
end SymmModel
