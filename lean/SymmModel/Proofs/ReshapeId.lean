/-
  SymmModel.Proofs.ReshapeId — which windows the planner's first loop asks about.
  `visits shape newshape B fuel i j`: the pairs (input axis, target position) at which the first loop,
  run with the sub-size table `B` from the loop state `(i, j)`, evaluates `unfuseMatch`.
  `mainLoop_agree`: two tables that answer alike AT THE VISITED PAIRS of one of them give the same run.
  `mainLoop_win_unfuses`: if a visited pair of the unfused run has a window match in the table `A`, the
  run with `A` takes the unfuse branch.
-/
import SymmModel.Proofs.ReshapeHd
namespace SymmModel.ReshapeI
open SymmModel SymmModel.Reshape SymmModel.C07 SymmModel.Reshape3 SymmModel.Reshape5 SymmModel.ReshapeH

/-- `fuseScan` without the label bookkeeping: `(di', i')` -/
def scanI (shape : List Nat) (dj : Nat) : Nat → Nat → Nat → Option (Nat × Nat)
  | 0, _, _ => none
  | fuel + 1, di, i =>
    if Nat.blt di dj then
      match shape[i]? with
      | none => none
      | some d => scanI shape dj fuel (di * d) (i + 1)
    else some (di, i)

theorem fuseScan_scanI (shape : List Nat) (dj : Nat) (lbl : Lbl) :
    ∀ (fuel di i s : Nat) (term : List Lbl) (r : Nat × Nat × Nat × List Lbl),
      fuseScan shape dj lbl fuel di i s term = .ok r → scanI shape dj fuel di i = some (r.1, r.2.1) := by
  intro fuel
  induction fuel with
  | zero => intro di i s term r h; simp [fuseScan, throw, throwThe, MonadExceptOf.throw] at h
  | succ fuel ih =>
    intro di i s term r h
    simp only [fuseScan] at h
    simp only [scanI]
    split at h
    · rename_i hc
      rw [if_pos hc]
      split at h
      · cases h
      · rename_i d hd
        rw [hd]
        exact ih _ _ _ _ _ h
    · rename_i hc
      rw [if_neg hc]
      simp only [pure, Except.pure] at h
      injection h with h
      rw [← h]

/-- the (input axis, target position) pairs at which the first loop asks the window question -/
def visits (shape newshape : List Nat) (B : List (Option (List Nat))) : Nat → Nat → Nat → List (Nat × Nat)
  | 0, _, _ => []
  | fuel + 1, i, j =>
    match shape[i]?, newshape[j]? with
    | some di, some dj =>
      match B[i]? with
      | none => []
      | some sub =>
        (i, j) ::
        (match unfuseMatch newshape j sub with
         | some subs => visits shape newshape B fuel (i + 1) (j + subs.length)
         | none =>
           if Nat.beq di dj then visits shape newshape B fuel (i + 1) (j + 1)
           else if Nat.beq di 1 then visits shape newshape B fuel (i + 1) j
           else if Nat.beq dj 1 then visits shape newshape B fuel i (j + 1)
           else if Nat.blt di dj then
             match scanI shape dj (shape.length + 1) di (i + 1) with
             | some (di', i') => if Nat.beq di' dj then visits shape newshape B fuel i' (j + 1) else []
             | none => []
           else [])
    | _, _ => []

theorem getElem?_both {α β : Type} {A : List α} {B : List β} (hlen : A.length = B.length) (i : Nat) :
    (A[i]? = none ∧ B[i]? = none) ∨ (∃ a b, A[i]? = some a ∧ B[i]? = some b) := by
  by_cases h : i < A.length
  · exact Or.inr ⟨A[i], B[i]'(by omega), List.getElem?_eq_getElem h, List.getElem?_eq_getElem (by omega)⟩
  · exact Or.inl ⟨List.getElem?_eq_none (by omega), List.getElem?_eq_none (by omega)⟩

/-- **two tables that agree at the pairs visited by the run of one of them give the same run** -/
theorem mainLoop_agree (shape newshape : List Nat) (A B : List (Option (List Nat)))
    (hlen : A.length = B.length) :
    ∀ (fuel : Nat) (st : RState),
      (∀ p ∈ visits shape newshape B fuel st.i st.j,
        unfuseMatch newshape p.2 (A.getD p.1 none) = unfuseMatch newshape p.2 (B.getD p.1 none)) →
      mainLoop shape newshape A fuel st = mainLoop shape newshape B fuel st := by
  intro fuel
  induction fuel with
  | zero => intro st _; simp only [mainLoop]
  | succ fuel ih =>
    intro st hvis
    simp only [mainLoop]
    cases h1 : shape[st.i]? with
    | none => rfl
    | some di =>
      cases h2 : newshape[st.j]? with
      | none => rfl
      | some dj =>
        simp only []
        rcases getElem?_both hlen st.i with ⟨hA, hB⟩ | ⟨sa, sb, hA, hB⟩
        · rw [hA, hB]
        · rw [hA, hB]
          simp only []
          have hhead : unfuseMatch newshape st.j sa = unfuseMatch newshape st.j sb := by
            have := hvis (st.i, st.j) (by simp [visits, h1, h2, hB])
            simpa [List.getD_eq_getElem?_getD, hA, hB] using this
          rw [hhead]
          cases hm : unfuseMatch newshape st.j sb with
          | some subs =>
            simp only []
            cases hc : unfuseCheck newshape subs 0 st.j st.k with
            | error e => rfl
            | ok r =>
              obtain ⟨s, j, k⟩ := r
              have := unfuseCheck_ok _ _ _ _ _ _ hc
              simp only [Prod.mk.injEq] at this
              obtain ⟨rfl, rfl, rfl⟩ := this
              simp only []
              apply ih
              intro p hp
              exact hvis p (by simp only [visits, h1, h2, hB, hm]; exact List.mem_cons_of_mem _ hp)
          | none =>
            simp only []
            cases c1 : Nat.beq di dj with
            | true =>
              simp only [if_true]
              apply ih
              intro p hp
              exact hvis p (by simp only [visits, h1, h2, hB, hm, c1, if_true]; exact List.mem_cons_of_mem _ hp)
            | false =>
              simp only [Bool.false_eq_true, if_false]
              cases c2 : Nat.beq di 1 with
              | true =>
                simp only [if_true]
                apply ih
                intro p hp
                exact hvis p (by
                  simp only [visits, h1, h2, hB, hm, c1, c2, Bool.false_eq_true, if_false, if_true]
                  exact List.mem_cons_of_mem _ hp)
              | false =>
                simp only [Bool.false_eq_true, if_false]
                cases c3 : Nat.beq dj 1 with
                | true =>
                  simp only [if_true]
                  apply ih
                  intro p hp
                  exact hvis p (by
                    simp only [visits, h1, h2, hB, hm, c1, c2, c3, Bool.false_eq_true, if_false, if_true]
                    exact List.mem_cons_of_mem _ hp)
                | false =>
                  simp only [Bool.false_eq_true, if_false]
                  cases c4 : Nat.blt di dj with
                  | false => simp only [Bool.false_eq_true, if_false]
                  | true =>
                    simp only [if_true]
                    cases hfs : fuseScan shape dj (Lbl.g st.fuseSizes.length) (shape.length + 1) di (st.i + 1) 1
                        (st.term ++ [Lbl.g st.fuseSizes.length]) with
                    | error e => rfl
                    | ok r =>
                      obtain ⟨di', i', s, term'⟩ := r
                      have hsc := fuseScan_scanI _ _ _ _ _ _ _ _ _ hfs
                      simp only [] at hsc ⊢
                      cases c5 : Nat.beq di' dj with
                      | false => simp only [Bool.not_false, if_true]
                      | true =>
                        simp only [Bool.not_true, Bool.false_eq_true, if_false]
                        apply ih
                        intro p hp
                        exact hvis p (by
                          simp only [visits, h1, h2, hB, hm, c1, c2, c3, c4, hsc, c5, Bool.false_eq_true,
                            if_false, if_true]
                          exact List.mem_cons_of_mem _ hp)

theorem nones_getD (shape : List Nat) (i : Nat) : (nones shape).getD i none = none := by
  simp only [nones, List.getD_eq_getElem?_getD, List.getElem?_map]
  cases shape[i]? <;> rfl

/-- **a window match at a visited pair makes the planner take the unfuse branch** -/
theorem mainLoop_win_unfuses (shape newshape : List Nat) (A : List (Option (List Nat)))
    (hlen : A.length = shape.length) :
    ∀ (fuel : Nat) (st st' : RState),
      (∃ p ∈ visits shape newshape (nones shape) fuel st.i st.j,
        unfuseMatch newshape p.2 (A.getD p.1 none) ≠ none) →
      mainLoop shape newshape A fuel st = .ok st' → st'.unfuseSizes ≠ [] := by
  intro fuel
  induction fuel with
  | zero => intro st st' ⟨p, hp, _⟩ _; simp [visits] at hp
  | succ fuel ih =>
    intro st st' ⟨p, hp, hne⟩ h
    simp only [mainLoop] at h
    cases h1 : shape[st.i]? with
    | none => simp [visits, h1] at hp
    | some di =>
      cases h2 : newshape[st.j]? with
      | none => simp [visits, h1, h2] at hp
      | some dj =>
        have hi : st.i < shape.length := (List.getElem?_eq_some_iff.mp h1).1
        have hN : (nones shape)[st.i]? = some none := nones_getElem? shape st.i hi
        have hA : A[st.i]? = some (A[st.i]'(by omega)) := List.getElem?_eq_getElem (by omega)
        rw [h1, h2] at h
        simp only [hA] at h
        cases hm : unfuseMatch newshape st.j (A[st.i]'(by omega)) with
        | some subs =>
          rw [hm] at h
          simp only [] at h
          split at h
          · cases h
          · exact mainLoop_us_mono _ _ _ _ _ _ (by simp) h
        | none =>
          rw [hm] at h
          simp only [] at h
          simp only [visits, h1, h2, hN, unfuseMatch, List.mem_cons] at hp
          rcases hp with rfl | hp
          · exfalso
            apply hne
            simp only [List.getD_eq_getElem?_getD, hA, Option.getD_some]
            exact hm
          · cases c1 : Nat.beq di dj with
            | true =>
              simp only [c1, if_true] at h hp
              exact ih _ _ ⟨p, hp, hne⟩ h
            | false =>
              simp only [c1, Bool.false_eq_true, if_false] at h hp
              cases c2 : Nat.beq di 1 with
              | true =>
                simp only [c2, if_true] at h hp
                exact ih _ _ ⟨p, hp, hne⟩ h
              | false =>
                simp only [c2, Bool.false_eq_true, if_false] at h hp
                cases c3 : Nat.beq dj 1 with
                | true =>
                  simp only [c3, if_true] at h hp
                  exact ih _ _ ⟨p, hp, hne⟩ h
                | false =>
                  simp only [c3, Bool.false_eq_true, if_false] at h hp
                  cases c4 : Nat.blt di dj with
                  | false => simp only [c4, Bool.false_eq_true, if_false] at h; cases h
                  | true =>
                    simp only [c4, if_true] at h hp
                    cases hfs : fuseScan shape dj (Lbl.g st.fuseSizes.length) (shape.length + 1) di (st.i + 1) 1
                        (st.term ++ [Lbl.g st.fuseSizes.length]) with
                    | error e => rw [hfs] at h; cases h
                    | ok r =>
                      obtain ⟨di', i', s, term'⟩ := r
                      have hsc := fuseScan_scanI _ _ _ _ _ _ _ _ _ hfs
                      rw [hfs] at h
                      simp only [] at hsc h
                      rw [hsc] at hp
                      simp only [] at hp
                      cases c5 : Nat.beq di' dj with
                      | false => simp only [c5, Bool.not_false, if_true] at h; cases h
                      | true =>
                        simp only [c5, Bool.not_true, Bool.false_eq_true, if_false, if_true] at h hp
                        exact ih _ _ ⟨p, hp, hne⟩ h

/-! ### the exact condition -/

/-- no window match at any pair the planner visits on `shape → newshape` (run as for an unfused
    input) -/
def noWinVisB (shape newshape : List Nat) (subsizes : List (Option (List Nat))) : Bool :=
  (visits shape newshape (nones shape) (shape.length + newshape.length) 0 0).all
    (fun p => (unfuseMatch newshape p.2 (subsizes.getD p.1 none)).isNone)

/-- **no visited window match ⇒ the planner treats the input as unfused** -/
theorem planner_vis_nones (shape newshape : List Nat) (subsizes : List (Option (List Nat)))
    (hlen : shape.length = subsizes.length) (h : noWinVisB shape newshape subsizes = true) :
    calcReshapeArgs shape newshape subsizes = calcReshapeArgs shape newshape (nones shape) := by
  unfold calcReshapeArgs
  rw [mainLoop_agree shape newshape subsizes (nones shape) (by rw [nones_length, hlen]) _ {}]
  intro p hp
  simp only [noWinVisB, List.all_eq_true, Option.isNone_iff_eq_none] at h
  have e0 : ({} : RState).i = 0 := rfl
  have e1 : ({} : RState).j = 0 := rfl
  rw [e0, e1] at hp
  rw [h p hp, nones_getD]
  rfl

/-- **a visited window match ⇒ every plan contains an unfuse step** -/
theorem planner_vis_unfuses (shape newshape : List Nat) (subsizes : List (Option (List Nat)))
    (hlen : shape.length = subsizes.length) (hw : noWinVisB shape newshape subsizes = false)
    (t : List Nat × List (List (List Nat)) × List Nat)
    (h : calcReshapeArgs shape newshape subsizes = .ok t) : t.1 ≠ [] := by
  have hex : ∃ p ∈ visits shape newshape (nones shape) (shape.length + newshape.length) 0 0,
      unfuseMatch newshape p.2 (subsizes.getD p.1 none) ≠ none := by
    simp only [noWinVisB, ← Bool.not_eq_true, List.all_eq_true, Option.isNone_iff_eq_none] at hw
    exact Classical.not_forall.mp hw |>.elim fun p hp => ⟨p, Classical.not_imp.mp hp⟩
  unfold calcReshapeArgs at h
  split at h
  · cases h
  · rename_i st hst
    have hus' : st.unfuseSizes ≠ [] :=
      mainLoop_win_unfuses shape newshape subsizes hlen.symm _ {} st hex hst
    simp only [] at h
    split at h
    · cases h
    · rename_i term2 axsU hu
      have hl := unfusePhase_len _ _ _ _ _ hu
      simp only [List.length_nil, Nat.zero_add] at hl
      split at h
      · cases h
      · split at h
        · cases h
        · simp only [pure, Except.pure] at h
          injection h with h
          rw [← h]
          intro hc
          simp only at hc
          rw [hc] at hl
          exact hus' (List.length_eq_zero_iff.mp hl.symm)

end SymmModel.ReshapeI
