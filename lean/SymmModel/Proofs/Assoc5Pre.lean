/-
  SymmModel.Proofs.Assoc5Pre — S6 of property C04 (pre-transposition of the left operand) under
  the WEAK guard `contractibleCommonB`: statement and proof of `RoutesP.tdotF_pretranspose` with `Adm`
  replaced by `AdmW`.  Namespace `SymmModel.Assoc5P`.
-/
import SymmModel.Proofs.Assoc4Swap

namespace SymmModel
namespace Assoc5P
open TdotP GradedP RoutesP KoszulP OddposP AssocP Assoc3P Assoc4P
set_option linter.unusedSectionVars false

variable {R : Type}

/-- the weak guard after transposing the left operand -/
theorem commonB_pre {a a' b : Arr R} {p xa xa' q xb : List Nat}
    (hc : contractibleCommonB a b xa xb = true) (hT : PreT a.ndim p xa xa' q)
    (hidx : a'.indices = permuted a.indices p) :
    contractibleCommonB a' b xa' xb = true := by
  refine commonB_prune_left (a := a) (xa := xa) hT.len ?_ hc
  intro j hj3
  have hj1 : j < xa'.length := by rw [hT.len]; exact hj3
  have hax : xa'[j] < p.length := by rw [hT.plen]; exact hT.ltA' _ (List.getElem_mem hj1)
  have hxj : p.getD xa'[j] 0 = xa.getD j 0 := by
    have h1 := congrArg (fun l => l[j]?) hT.hx
    simp only [permuted_getElem? p xa' (by rw [hT.plen]; exact hT.ltA'), List.getElem?_eq_getElem hj1,
      Option.bind_some, List.getElem?_eq_getElem hj3, List.getElem?_eq_getElem hax] at h1
    rw [List.getD_eq_getElem?_getD, List.getD_eq_getElem?_getD, List.getElem?_eq_getElem hax,
      List.getElem?_eq_getElem hj3]
    simpa using h1
  have e : xa'.getD j 0 = xa'[j] := by
    rw [List.getD_eq_getElem?_getD, List.getElem?_eq_getElem hj1]; rfl
  rw [e, hidx, getD_permuted_ax a.indices p hT.plt _ hax, hxj]
  exact Pruned.refl _

section
variable [AddMonoid R] [Mul R] [Neg R] [SignRing R]
open Lazy (sgnI)

theorem admW_pre {a b : Arr R} {p xa xa' q xb : List Nat} (h : AdmW a b xa xb)
    (hp : Arr.isPerm p a.ndim = true) (hT : PreT a.ndim p xa xa' q) :
    AdmW (a.transposeF p) b xa' xb := by
  have hnd : (a.transposeF p).ndim = a.ndim := hT.lenT a.indices rfl
  refine ⟨(ValidP.validB_iff _).mpr (ValidP.transposeF_valid a p true ((ValidP.validB_iff a).mp h.va)
    h.fa hp), h.vb, h.fa, h.fb, h.sym, commonB_pre h.con hT rfl, hT.nA', h.nB, ?_, h.ltB⟩
  rw [hnd]; exact hT.ltA'

/-- **S6.**  Transposing the left operand first (and renumbering the contracted axes) gives a
    result with the same labels, charge and label sign whose value, at the address with the left
    free part re-listed along the induced permutation `q`, is the original value times the Koszul
    sign of `q` on the parities of the left free charges — i.e. the value of
    `transposeF c (q ++ id)`. -/
theorem tdotF_pretranspose_w (a b c : Arr R) (p xa xa' q xb : List Nat) (h : AdmW a b xa xb)
    (hp : Arr.isPerm p a.ndim = true) (hT : PreT a.ndim p xa xa' q)
    (hc : a.tensordotF b (.pair (xa.map Int.ofNat) (xb.map Int.ofNat)) .blockwise = .ok c) :
    ∃ c', (a.transposeF p).tensordotF b (.pair (xa'.map Int.ofNat) (xb.map Int.ofNat)) .blockwise = .ok c'
      ∧ c'.oddpos = c.oddpos ∧ c'.charge = c.charge ∧ c'.sym = c.sym ∧ c'.fermi = c.fermi
      ∧ ∀ (L Rr : Sector) (oL oR : List Nat), L.length = (freeAxes a.ndim xa).length →
          oL.length = (freeAxes a.ndim xa).length →
          inBox (Arr.blockShapeD (without a.indices xa ++ without b.indices xb) (L ++ Rr))
            (oL ++ oR) = true →
          c'.elem (permuted L q ++ Rr) (permuted oL q ++ oR)
            = sgnI (koszul (L.map a.sym.parity) (some q)) (c.elem (L ++ Rr) (oL ++ oR)) := by
  have h' := admW_pre h hp hT
  have hsa := Arr.shapesOk_of_validB h.va
  have hsb := Arr.shapesOk_of_validB h.vb
  have T := transOf_transposeF a p h.va h.fa hp
  have hnd : (a.transposeF p).ndim = a.ndim := hT.lenT a.indices rfl
  rw [tensordotF_eq_core_w a b xa xb h] at hc
  rw [tensordotF_eq_core_w _ b xa' xb h']
  have hpar : (a.transposeF p).parity = a.parity := rfl
  have hodd : (a.transposeF p).oddpos = a.oddpos := rfl
  rw [hpar, hodd]
  cases hm : OddposP.mergeOddpos a.parity a.oddpos b.oddpos with
  | error e => rw [hm] at hc; cases hc
  | ok r =>
    rw [hm] at hc
    simp only [Except.map, Except.ok.injEq] at hc ⊢
    subst hc
    have F := coreT_frame_w a b xa xb h
    have F' := coreT_frame_w (a.transposeF p) b xa' xb h'
    refine ⟨_, rfl, rfl, ?_, ?_, ?_, ?_⟩
    · show (if (r.2 == -1) = true then (coreT (a.transposeF p) b xa' xb).phaseGlobal
          else coreT (a.transposeF p) b xa' xb).charge
        = (if (r.2 == -1) = true then (coreT a b xa xb).phaseGlobal else coreT a b xa xb).charge
      have e1 : ∀ T : Arr R, T.phaseGlobal.charge = T.charge := fun _ => rfl
      split <;> simp only [e1, F.charge, F'.charge] <;> rfl
    · show (if (r.2 == -1) = true then (coreT (a.transposeF p) b xa' xb).phaseGlobal
          else coreT (a.transposeF p) b xa' xb).sym
        = (if (r.2 == -1) = true then (coreT a b xa xb).phaseGlobal else coreT a b xa xb).sym
      have e1 : ∀ T : Arr R, T.phaseGlobal.sym = T.sym := fun _ => rfl
      split <;> simp only [e1, F.sym, F'.sym] <;> rfl
    · show (if (r.2 == -1) = true then (coreT (a.transposeF p) b xa' xb).phaseGlobal
          else coreT (a.transposeF p) b xa' xb).fermi
        = (if (r.2 == -1) = true then (coreT a b xa xb).phaseGlobal else coreT a b xa xb).fermi
      have e1 : ∀ T : Arr R, T.phaseGlobal.fermi = T.fermi := fun _ => rfl
      split <;> simp only [e1, F.fermi, F'.fermi] <;> rfl
    · intro L Rr oL oR hL hoL ho
      have ho' := box_pre a (a.transposeF p) b p xa xa' q xb hT rfl L Rr hL oL oR hoL ho
      have hoL' : (permuted oL q).length = (freeAxes (a.transposeF p).ndim xa').length := by
        rw [hnd, hT.freeLen, permuted_length _ _ (by rw [hoL]; exact mem_lt_of_perm hT.hq),
          hT.hq.length_eq, List.length_range]
      have hsign : ∀ (T : Arr R), Lazy.SignOk T → T.phases = [] → ∀ s o,
          (finish T r).elem s o = sgnI r.2 (T.elem s o) := by
        intro T hTs _ s o
        show (if (r.2 == -1) = true then T.phaseGlobal else T).elem s o = _
        by_cases hph : r.2 = -1
        · rw [hph]
          simp only [beq_self_eq_true, if_true]
          rw [Lazy.phaseGlobal_elem _ hTs, Lazy.sgnI_neg_one]
        · have : (r.2 == -1) = false := by simpa using hph
          simp only [this, Bool.false_eq_true, if_false]
          unfold sgnI
          rw [if_neg hph]
      have hok : ∀ (a0 b0 : Arr R) (x0 y0 : List Nat), CoreFrame a0 b0 x0 y0 (coreT a0 b0 x0 y0) →
          Lazy.SignOk (coreT a0 b0 x0 y0) := by
        intro a0 b0 x0 y0 F0
        refine ⟨by rw [F0.sectors]; exact nodup_eraseDups _, ?_⟩
        rw [F0.phases]; exact Lazy.PhOk.nil
      rw [hsign _ (hok _ _ _ _ F') F'.phases, hsign _ (hok _ _ _ _ F) F.phases,
        F'.elem _ _ _ hoL' ho', F.elem _ _ _ hoL ho,
        gradedContract_pre a (a.transposeF p) b p xa xa' q xb hsa hsb hT T L Rr hL oL oR hoL ho]
      have hr : r.2 = 1 ∨ r.2 = -1 ∨ (r.2 ≠ 1 ∧ r.2 ≠ -1) := by omega
      unfold sgnI
      by_cases h1 : r.2 = -1 <;> by_cases h2 : koszul (L.map a.sym.parity) (some q) = -1 <;> simp [h1, h2]

end

end Assoc5P
end SymmModel
