/-
  SymmModel.Proofs.Net4M1 — tools for four-tensor networks with every call in its own contraction
  mode: the guards of the later calls when the intermediate result comes from a call in ANY mode
  (`InterW`) and the leaf guards are the weak ones (`TriW`), and one call in any mode on zero-padded
  operands (`pad_call`).  Namespace `SymmModel.Net4P`.
-/
import SymmModel.Proofs.TdotChain1
import SymmModel.Proofs.Net4Star

namespace SymmModel
namespace Net4P
open TdotP GradedP RoutesP KoszulP AssocP Assoc2P Assoc3P
set_option linter.unusedSectionVars false

variable {R : Type}

section admw
variable [AddCommMonoid R] [Mul R] [Neg R] [SignRing R]
variable {A B C AB BC : Arr R}

/-- the guard of `(A·B, C)` for a chain, intermediate of any mode, weak leaf guards -/
theorem admW_left_chainW {xa xb1 xb2 xc : List Nat} (I : InterW A B xa xb1 AB) (hAB : AdmW A B xa xb1)
    (hBC : AdmW B C xb2 xc) (h : Mid B.ndim xb1 xb2) :
    AdmW AB C (AssocP.axesAB A.ndim B.ndim xa xb1 xb2) xc := by
  refine ⟨I.valid, hBC.vb, I.fermi, hBC.fb, by rw [I.sym, hAB.sym, hBC.sym], ?_, AssocP.axesAB_nodup h,
    hBC.nB, ?_, hBC.ltB⟩
  · refine commonB_sizeLe_left (a := B) (xa := xb2) (AssocP.axesAB_len h) ?_ hBC.con
    intro j hj
    obtain ⟨e1, e2, e3⟩ := AssocP.axesAB_getD (nA := A.ndim) (xa := xa) h j hj
    have := I.leg_right _ e2
    rw [e3, ← e1] at this
    refine ⟨this, I.leg_nodup _ ?_⟩
    rw [e1, I.ndim]; omega
  · rw [I.ndim]; exact AssocP.axesAB_lt h

/-- the guard of `(A, B·C)` for a chain, intermediate of any mode, weak leaf guards -/
theorem admW_right_chainW {xa xb1 xb2 xc : List Nat} (I : InterW B C xb2 xc BC) (hAB : AdmW A B xa xb1)
    (h : Mid B.ndim xb1 xb2) : AdmW A BC xa (AssocP.axesBC B.ndim xb1 xb2) := by
  refine ⟨hAB.va, I.valid, hAB.fa, I.fermi, by rw [I.sym]; exact hAB.sym, ?_, hAB.nA,
    h.symm.pos_nodup, hAB.ltA, ?_⟩
  · refine commonB_sizeLe_right (b := B) (xb := xb1) h.symm.pos_len ?_ hAB.con
    intro j hj
    have hjp : j < (positions (freeAxes B.ndim xb2) xb1).length := by rw [h.symm.pos_len]; exact hj
    have e2 : (positions (freeAxes B.ndim xb2) xb1).getD j 0 < (freeAxes B.ndim xb2).length := by
      rw [List.getD_eq_getElem?_getD, List.getElem?_eq_getElem hjp]
      exact h.symm.pos_lt _ (List.getElem_mem hjp)
    have e3 : (freeAxes B.ndim xb2).getD ((positions (freeAxes B.ndim xb2) xb1).getD j 0) 0
        = xb1.getD j 0 := by
      rw [← getD_permuted_ax (freeAxes B.ndim xb2) _ h.symm.pos_lt j hjp 0, h.symm.pos_spec]
    have := I.leg_left _ e2
    rw [e3] at this
    exact this
  · intro i hi
    rw [I.ndim]
    have := h.symm.pos_lt i hi
    omega

/-- the guard of `(A·B, C)` in a triangle, intermediate of any mode, weak leaf guards -/
theorem admW_left_triW {xa1 xa3 xb1 xb2 xc2 xc3 : List Nat} (I : InterW A B xa1 xb1 AB)
    (T : TriW A B C xa1 xa3 xb1 xb2 xc2 xc3) :
    AdmW AB C (Assoc2P.axesAB A.ndim B.ndim xa1 xa3 xb1 xb2) (xc3 ++ xc2) := by
  refine ⟨I.valid, T.hBC.vb, I.fermi, T.hBC.fb, by rw [I.sym, T.hAB.sym, T.hBC.sym], ?_,
    Assoc2P.axesAB_nodup T.mA T.mB,
    List.nodup_append.mpr ⟨T.mC.n2, T.mC.n1, fun x hx y hy e => T.mC.disj y hy (e ▸ hx)⟩, ?_, ?_⟩
  · unfold Assoc2P.axesAB
    refine commonB_append (by rw [T.mA.pos_len, commonB_len T.conAC]) ?_
      (admW_left_chainW I T.hAB T.hBC T.mB).con
    refine commonB_sizeLe_left (a := A) (xa := xa3) T.mA.pos_len ?_ T.conAC
    intro j hj
    obtain ⟨e2, e3⟩ := pos_getD T.mA j hj
    have := I.leg_left _ e2
    rw [e3] at this
    refine ⟨this, I.leg_nodup _ ?_⟩
    rw [I.ndim]; omega
  · rw [I.ndim]; exact Assoc2P.axesAB_lt T.mA T.mB
  · intro i hi
    rcases List.mem_append.mp hi with h | h
    · exact T.mC.lt2 i h
    · exact T.mC.lt1 i h

/-- the guard of `(A, B·C)` in a triangle, intermediate of any mode, weak leaf guards -/
theorem admW_right_triW {xa1 xa3 xb1 xb2 xc2 xc3 : List Nat} (I : InterW B C xb2 xc2 BC)
    (T : TriW A B C xa1 xa3 xb1 xb2 xc2 xc3) :
    AdmW A BC (xa1 ++ xa3) (Assoc2P.axesBC B.ndim C.ndim xb1 xb2 xc2 xc3) := by
  refine ⟨T.hAB.va, I.valid, T.hAB.fa, I.fermi, by rw [I.sym]; exact T.hAB.sym, ?_,
    List.nodup_append.mpr ⟨T.mA.n1, T.mA.n2, fun x hx y hy e => T.mA.disj x hx (e ▸ hy)⟩,
    Assoc2P.axesAB_nodup T.mB.symm T.mC, ?_, ?_⟩
  · unfold Assoc2P.axesBC
    refine commonB_append (by rw [T.mB.symm.pos_len, T.hAB.len])
      (admW_right_chainW I T.hAB T.mB).con ?_
    refine commonB_sizeLe_right (b := C) (xb := xc3) (by rw [List.length_map, T.mC.pos_len]) ?_
      T.conAC
    intro j hj
    obtain ⟨e1, e2, e3⟩ := AssocP.axesAB_getD (nA := B.ndim) (xa := xb2) T.mC j hj
    have := I.leg_right _ e2
    rw [e3, ← e1] at this
    exact this
  · intro i hi
    rcases List.mem_append.mp hi with h | h
    · exact T.mA.lt1 i h
    · exact T.mA.lt2 i h
  · rw [I.ndim]; exact Assoc2P.axesAB_lt T.mB.symm T.mC

end admw

/-- a call in mode `m` -/
abbrev tdM [Zero R] [Add R] [Mul R] [Neg R] (m : TdotMode) (X Y : Arr R) (xa xb : List Nat) :
    Except Err (Arr R) :=
  X.tensordotF Y (.pair (xa.map Int.ofNat) (xb.map Int.ofNat)) m

/-- what is carried along a route: `Xm` (calls in arbitrary modes) is a zero-padded copy of the
    blockwise `X` -/
structure PadA [Zero R] [Neg R] (Xm X : Arr R) : Prop where
  pad : Pad Xm X
  oddpos : Xm.oddpos = X.oddpos
  charge : Xm.charge = X.charge

theorem PadA.refl [Zero R] [Neg R] {X : Arr R} (hv : X.validB = true) : PadA X X :=
  ⟨Pad.refl hv, rfl, rfl⟩

/-- **one call in ANY mode on zero-padded operands**: a zero-padded copy of the blockwise call on
    the plain operands, and an `InterW` of the padded operands -/
theorem pad_call [AddCommMonoid R] [Mul R] [Neg R] [SignRing R]
    (hz1 : ∀ x : R, 0 * x = 0) (hz2 : ∀ x : R, x * 0 = 0) {P Q P' Q' : Arr R} {x y : List Nat}
    (hp : PadA P Q) (hp' : PadA P' Q') (Wp : AdmW P P' x y) (Wq : AdmW Q Q' x y) (zq : Arr R)
    (hq : tdM .blockwise Q Q' x y = .ok zq) (mode : TdotMode) :
    ∃ zm, tdM mode P P' x y = .ok zm ∧ PadA zm zq ∧ InterW P P' x y zm := by
  obtain ⟨zp, hzp, pz, oz, cz⟩ := pad_blockwise hz1 hz2 hp.pad hp'.pad Wp Wq hp.oddpos hp.charge
    hp'.oddpos hp'.charge zq hq
  obtain ⟨zf, hzf, pf, If, Ib, of, cf⟩ := call_w hz1 hz2 P P' x y Wp .fused (Or.inl rfl) zp hzp
  cases mode with
  | blockwise => exact ⟨zp, hzp, ⟨pz, oz, cz⟩, Ib⟩
  | fused => exact ⟨zf, hzf, ⟨pf.trans pz, of.trans oz, cf.trans cz⟩, If⟩
  | auto =>
    obtain ⟨za, hza, pa, Ia, _, oa, ca⟩ := call_w hz1 hz2 P P' x y Wp .auto (Or.inr rfl) zp hzp
    exact ⟨za, hza, ⟨pa.trans pz, oa.trans oz, ca.trans cz⟩, Ia⟩

end Net4P
end SymmModel
