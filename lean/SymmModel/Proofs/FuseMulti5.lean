/-
  SymmModel.Proofs.FuseMulti5 — arbitrary groups: permuted lists, plans and offsets in
  front / group / back form; what `splitAddr` finds on a multi-axis group axis of a fused block.
-/
import SymmModel.Proofs.FuseMulti4
namespace SymmModel
namespace FuseP
set_option linter.unusedSectionVars false

variable {R : Type}

theorem getD_zipWith_sub {a b : List Nat} (h : a.length = b.length) (k : Nat) :
    (List.zipWith (· - ·) a b).getD k 0 = a.getD k 0 - b.getD k 0 := by
  induction a generalizing b k with
  | nil => cases b <;> simp_all
  | cons x xs ih =>
    cases b with
    | nil => simp at h
    | cons y ys =>
      cases k with
      | zero => simp
      | succ k => simpa using ih (by simpa using h) k

theorem inBox_range_map (n : Nat) (f g : Nat → Nat) (h : ∀ x, x < n → f x < g x) :
    inBox ((List.range n).map g) ((List.range n).map f) = true := by
  rw [inBox_iff]
  refine ⟨by simp, ?_⟩
  intro k hk
  simp only [List.length_map, List.length_range] at hk
  rw [getD_range_map _ _ _ _ hk, getD_range_map _ _ _ _ hk]
  exact h k hk

section Multi
variable {a : Arr R} {groups : List (List Nat)}

/-- `permuted l perm` in front / group / back form (any list of length `ndim`) -/
theorem permutedM_eq {α : Type} (hok : GroupsOk groups a.ndim) (l : List α) (d : α) (hl : l.length = a.ndim) :
    permuted l (giM a groups).perm
      = (List.range (giM a groups).position).map (fun x => l.getD x d)
        ++ ((List.range groups.length).map (fun g => (groups.getD g []).map (fun ax => l.getD ax d))).flatten
        ++ (List.range (giM a groups).axesAfter.length).map (fun j => l.getD ((giM a groups).axesAfter.getD j 0) d) := by
  have hall : ∀ p ∈ (giM a groups).perm, p < l.length := by
    intro p hp; rw [hl, ← duals_length]; exact (mem_perm (hokD hok)).1 hp
  rw [permuted_eq_map l d _ hall, perm_eq, List.map_append, List.map_append, axesBefore_eq (hokD hok),
    List.map_flatten, map_eq_range_map groups [] (List.map (fun p => l.getD p d)),
    map_eq_range_map (giM a groups).axesAfter 0 (fun p => l.getD p d)]

theorem permutedM_length {α : Type} (hok : GroupsOk groups a.ndim) (l : List α) (hl : l.length = a.ndim) :
    (permuted l (giM a groups).perm).length = a.ndim := by
  rw [permuted_length, perm_length (hokD hok), duals_length]
  intro p hp; rw [hl, ← duals_length]; exact (mem_perm (hokD hok)).1 hp

/-- the fused charge of a multi-axis group is the signed combination of the sub-sector -/
theorem cM_eq_combine (hok : GroupsOk groups a.ndim) {g : Nat} {gaxes : List Nat} (hg : groups[g]? = some gaxes)
    (hlen : gaxes.length ≠ 1) (sb : Sector × Blk R) :
    cM (a := a) (groups := groups) sb g = a.sym.combine (List.zipWith (fun c' (sub : Index) =>
      a.sym.sign c' ((giM a groups).groupDuals.getD g false != sub.dual))
      (ssM (a := a) (groups := groups) sb g) (gaxes.map (fun ax => a.indices.getD ax default))) := by
  rw [ssM_eq hg]
  simp only [cM, planM]
  rw [planOf_newSector_getD _ _ _ _ _ _ (hokD hok) hg]
  have hl : (gaxes.length == 1) = false := by simpa using hlen
  simp only [midOf, hl, Bool.false_eq_true, if_false, fusedCharge]
  rw [List.zipWith_map, List.zipWith_self]

/-- the new sector of a stored block in front / group / back form -/
theorem nsM_parts (hok : GroupsOk groups a.ndim) (sb : Sector × Blk R) :
    (planM a groups sb).newSector
      = (List.range (giM a groups).position).map (fun x => sb.1.getD x (0, 0))
        ++ (List.range groups.length).map (fun g => cM (a := a) (groups := groups) sb g)
        ++ (List.range (giM a groups).axesAfter.length).map
            (fun j => sb.1.getD ((giM a groups).axesAfter.getD j 0) (0, 0)) := by
  rw [three_parts (planM a groups sb).newSector (0, 0) _ _ _ (planM_newSector_length hok sb)]
  congr 1
  · congr 1
    apply List.map_congr_left
    intro x hx
    simp only [List.mem_range] at hx
    exact planOf_newSector_before _ _ _ _ _ _ (hokD hok) hx
  · apply List.map_congr_left
    intro j hj
    simp only [List.mem_range] at hj
    exact planOf_newSector_after _ _ _ _ _ _ (hokD hok) hj

theorem nshM_parts (hok : GroupsOk groups a.ndim) (sb : Sector × Blk R) :
    (planM a groups sb).newShape
      = (List.range (giM a groups).position).map (fun x => sb.2.shape.getD x 0)
        ++ (List.range groups.length).map
            (fun g => prod ((groups.getD g []).map (fun ax => sb.2.shape.getD ax 0)))
        ++ (List.range (giM a groups).axesAfter.length).map
            (fun j => sb.2.shape.getD ((giM a groups).axesAfter.getD j 0) 0) := by
  rw [three_parts (planM a groups sb).newShape 0 _ _ _ (planM_newShape_length hok sb)]
  congr 1
  · congr 1
    · apply List.map_congr_left
      intro x hx
      simp only [List.mem_range] at hx
      exact planOf_newShape_before _ _ _ _ (hokD hok) hx
    · apply List.map_congr_left
      intro g hg
      simp only [List.mem_range] at hg
      have hgg : groups[g]? = some groups[g] := List.getElem?_eq_getElem hg
      have := dM_eq (a := a) hok hgg sb
      simp only [dM] at this
      rw [this]
      simp [List.getD_eq_getElem?_getD, List.getElem?_eq_getElem hg]
  · apply List.map_congr_left
    intro j hj
    simp only [List.mem_range] at hj
    exact planOf_newShape_after _ _ _ _ (hokD hok) hj

/-! ### splitting the offset on a multi-axis group axis -/

/-- what `splitAddr` returns at a multi-axis group axis of a fused block, with all table facts -/
theorem split_factsM (hv : ValidArr a) (hok : GroupsOk groups a.ndim) {g : Nat} {gaxes : List Nat}
    (hg : groups[g]? = some gaxes) (hlen : gaxes.length ≠ 1) {sb0 : Sector × Blk R} (hsb0 : sb0 ∈ a.blocks)
    {o : Nat} (ho : o < DM a groups sb0 g) :
    ∃ e ss r st d shpM, alookup (extsM a groups g) (cM (a := a) (groups := groups) sb0 g) = some e
      ∧ (e.map (·.1)).Nodup
      ∧ splitAddr (ixM a groups g) (cM (a := a) (groups := groups) sb0 g) o = some (ss, unravel shpM r)
      ∧ startOf e ss = some (st, d) ∧ r < d ∧ o = st + r
      ∧ Arr.blockShape? (gaxes.map (fun ax => a.indices.getD ax default)) ss = some shpM ∧ prod shpM = d
      ∧ ss.length = gaxes.length
      ∧ a.sym.combine (List.zipWith (fun c' (sub : Index) =>
          a.sym.sign c' ((giM a groups).groupDuals.getD g false != sub.dual)) ss
          (gaxes.map (fun ax => a.indices.getD ax default))) = cM (a := a) (groups := groups) sb0 g := by
  obtain ⟨e, D, h1, _, _, h4, h5⟩ := stored_tableM hv hok hg hlen hsb0
  obtain ⟨_, _, hext⟩ := ixM_extent hv hok hg hlen h1
  rw [h5] at ho
  obtain ⟨ss, r, hso⟩ := splitOffset_some (ext := e) (o := o) (by rw [h4]; exact ho)
  obtain ⟨st, d, hst, hr, hio⟩ := splitOffset_startOf hext.nodup hso
  obtain ⟨hssl, ⟨shpM, hshpM, hprod⟩, hc⟩ := hext.entry ss d (startOf_mem hst)
  refine ⟨e, ss, r, st, d, shpM, h1, hext.nodup, ?_, hst, hr, hio, hshpM, hprod, by simpa using hssl, hc⟩
  have hsub := ixM_sub (a := a) hok hg hlen
  simp only [splitAddr, hsub, h1, hso, hshpM]

end Multi

end FuseP
end SymmModel
