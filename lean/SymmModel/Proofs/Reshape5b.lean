/-
  SymmModel.Proofs.Reshape5b — vocabulary of the multi-group round trip: the fused axes of an index
  list (`fusedPL`), the index list with every fused index replaced by its sub-indices (`expand1`),
  the plan of the way back in terms of them, and: a chain of unfuse steps respects equality of
  value views (`chain_veq`, for every step function satisfying `FuseP.StepOK`).
-/
import SymmModel.Proofs.Reshape5a
import SymmModel.Proofs.Reshape4g
import SymmModel.Props.C05All4

namespace SymmModel
namespace Reshape5
open C07 ReshapeP FuseP

variable {R : Type}

/-- (axis, number of sub-indices) of the fused indices, left to right; `b` = axis of the first -/
def fusedPL : List Index → Nat → List (Nat × Nat)
  | [], _ => []
  | ix :: r, b => match ix.sub with
    | none => fusedPL r (b + 1)
    | some se => (b, se.1.length) :: fusedPL r (b + 1)

/-- every fused index replaced by its sub-indices -/
def expand1 (idx : List Index) : List Index :=
  idx.flatMap (fun ix => match ix.sub with
    | none => [ix]
    | some se => se.1)

/-- fused indices have at least one sub-index -/
def Dep1 (idx : List Index) : Prop := ∀ ix ∈ idx, ∀ se, ix.sub = some se → se.1 ≠ []

def Plain (idx : List Index) : Prop := ∀ ix ∈ idx, ix.sub = none

/-- the symbolic shape of an index list -/
def symOf (idx : List Index) : SymShape :=
  idx.map (fun ix => (ix.sizeTotal, ix.sub.map (fun s => s.1.map Index.sizeTotal)))

theorem symOf_sizes (y : Arr R) : SymShape.sizes (symOf y.indices) = y.shape := by
  simp [symOf, SymShape.sizes, Arr.shape, List.map_map, Function.comp_def]

theorem symOf_subs (y : Arr R) : SymShape.subs (symOf y.indices) = y.subsizes := by
  simp [symOf, SymShape.subs, Arr.subsizes, List.map_map, Function.comp_def]

theorem tgt_symOf (idx : List Index) : tgt (symOf idx) = (expand1 idx).map Index.sizeTotal := by
  induction idx with
  | nil => rfl
  | cons ix r ih =>
    simp only [symOf, List.map_cons, tgt_cons, expand1, List.flatMap_cons, List.map_append] at ih ⊢
    rw [ih]
    congr 1
    cases ix.sub <;> simp [tgt1]

theorem fusedOk_symOf {idx : List Index} (h : Dep1 idx) : FusedOk (symOf idx) := by
  intro e he subs hs
  simp only [symOf, List.mem_map] at he
  obtain ⟨ix, hix, rfl⟩ := he
  simp only at hs
  cases hsub : ix.sub with
  | none => rw [hsub] at hs; cases hs
  | some se =>
    rw [hsub] at hs
    simp only [Option.map_some, Option.some.injEq] at hs
    subst hs
    have := h ix hix se hsub
    simpa using this

theorem backAxes_symOf : ∀ (idx : List Index) (b off : Nat), Dep1 idx →
    backAxes (symOf idx) (b + off) = l2rAxes (fusedPL idx b) off := by
  intro idx
  induction idx with
  | nil => intro b off _; rfl
  | cons ix r ih =>
    intro b off hd
    have hdr : Dep1 r := fun i hi => hd i (by simp [hi])
    cases hsub : ix.sub with
    | none =>
      simp only [symOf, List.map_cons, hsub, Option.map_none, backAxes, fusedPL]
      have := ih (b + 1) off hdr
      simp only [symOf] at this
      rw [← this]; congr 1; omega
    | some se =>
      have hne := hd ix (by simp) se hsub
      have hl : 1 ≤ se.1.length := List.length_pos_iff.mpr hne
      simp only [symOf, List.map_cons, hsub, Option.map_some, backAxes, fusedPL, l2rAxes,
        List.length_map]
      congr 1
      have := ih (b + 1) (off + se.1.length - 1) hdr
      simp only [symOf] at this
      rw [← this]; congr 1; omega

theorem fusedPL_append : ∀ (A B : List Index) (b : Nat),
    fusedPL (A ++ B) b = fusedPL A b ++ fusedPL B (b + A.length) := by
  intro A
  induction A with
  | nil => intro B b; simp [fusedPL]
  | cons ix A ih =>
    intro B b
    simp only [List.cons_append, fusedPL, List.length_cons]
    cases ix.sub with
    | none => simp only []; rw [ih]; congr 2; omega
    | some se => simp only [List.cons_append]; rw [ih]; congr 3; omega

theorem fusedPL_plain {A : List Index} (h : Plain A) (b : Nat) : fusedPL A b = [] := by
  induction A generalizing b with
  | nil => rfl
  | cons ix A ih =>
    simp only [fusedPL, h ix (by simp)]
    exact ih (fun i hi => h i (by simp [hi])) _

theorem fusedPL_mem : ∀ (idx : List Index) (b : Nat) (pl : Nat × Nat), pl ∈ fusedPL idx b →
    b ≤ pl.1 ∧ ∃ ix se, idx[pl.1 - b]? = some ix ∧ ix.sub = some se ∧ se.1.length = pl.2 := by
  intro idx
  induction idx with
  | nil => intro b pl h; simp [fusedPL] at h
  | cons ix r ih =>
    intro b pl h
    simp only [fusedPL] at h
    cases hsub : ix.sub with
    | none =>
      rw [hsub] at h
      obtain ⟨h1, ix', se, h2, h3, h4⟩ := ih (b + 1) pl h
      refine ⟨by omega, ix', se, ?_, h3, h4⟩
      have : pl.1 - b = (pl.1 - (b + 1)) + 1 := by omega
      rw [this]; simpa using h2
    | some se =>
      rw [hsub] at h
      rcases List.mem_cons.mp h with rfl | h
      · exact ⟨Nat.le_refl _, ix, se, by simp, hsub, rfl⟩
      · obtain ⟨h1, ix', se', h2, h3, h4⟩ := ih (b + 1) pl h
        refine ⟨by omega, ix', se', ?_, h3, h4⟩
        have : pl.1 - b = (pl.1 - (b + 1)) + 1 := by omega
        rw [this]; simpa using h2

theorem fusedPL_sorted : ∀ (idx : List Index) (b : Nat), ((fusedPL idx b).map (·.1)).Pairwise (· < ·) := by
  intro idx
  induction idx with
  | nil => intro b; simp [fusedPL]
  | cons ix r ih =>
    intro b
    simp only [fusedPL]
    cases ix.sub with
    | none => exact ih (b + 1)
    | some se =>
      simp only [List.map_cons, List.pairwise_cons]
      refine ⟨?_, ih (b + 1)⟩
      intro q hq
      obtain ⟨pl, hpl, rfl⟩ := List.mem_map.mp hq
      have := (fusedPL_mem r (b + 1) pl hpl).1
      omega

theorem fusedPL_fusedAtL (y : Arr R) (hd : Dep1 y.indices) :
    ∀ pl ∈ fusedPL y.indices 0, 0 < pl.2 ∧ FusedAtL y pl.1 pl.2 := by
  intro pl hpl
  obtain ⟨_, ix, se, h1, h2, h3⟩ := fusedPL_mem y.indices 0 pl hpl
  simp only [Nat.sub_zero] at h1
  have hne := hd ix (List.mem_of_getElem? h1) se h2
  refine ⟨by rw [← h3]; exact List.length_pos_iff.mpr hne, ix, se.1, se.2, h1, h2, h3⟩

/-- **the plan of `y.reshape(target)`** when the target is `y`'s shape with every fused axis
    replaced by its sub-sizes: unfuse the fused axes left to right -/
theorem back_plan_arr_multi (y : Arr R) (hd : Dep1 y.indices) :
    calcReshapeArgs y.shape ((expand1 y.indices).map Index.sizeTotal) y.subsizes
      = .ok (l2rAxes (fusedPL y.indices 0) 0, [], []) := by
  have := back_plan_multi (symOf y.indices) (fusedOk_symOf hd)
  rw [symOf_sizes, symOf_subs, tgt_symOf] at this
  rw [this]
  have := backAxes_symOf y.indices 0 0 hd
  simp only [Nat.add_zero] at this
  rw [this]

/-! ### unfuse steps and value views -/

section Step
variable [Zero R] [Neg R] [Lazy.LawfulNeg R]
variable {unf : Arr R → Nat → Except Err (Arr R)} {Good : Arr R → Prop}
  {sg : Sym → Index → List Index → Sector → Int}

/-- one unfuse step respects equality of value views -/
theorem step_veq (H : StepOK unf Good sg) {x x' : Arr R} (h : VEq x x') (hx : Good x) (hx' : Good x')
    {p : Nat} {ix : Index} {subs : List Index} {exts : Extents} (hix : x.indices[p]? = some ix)
    (hsub : ix.sub = some (subs, exts)) :
    ∃ y y', unf x p = .ok y ∧ unf x' p = .ok y' ∧ Good y ∧ Good y' ∧ VEq y y' := by
  obtain ⟨y, hy, gy, yi, ys, yf, yc, yo, yv⟩ := H.step x p ix subs exts hx hix hsub
  obtain ⟨y', hy', gy', yi', ys', yf', yc', yo', yv'⟩ :=
    H.step x' p ix subs exts hx' (by rw [← h.indices]; exact hix) hsub
  have hidx : y.indices = y'.indices := by rw [yi, yi', h.indices]
  refine ⟨y, y', hy, hy', gy, gy', ⟨by rw [ys, ys', h.sym], by rw [yf, yf', h.fermi], hidx,
    by rw [yc, yc', h.charge], by rw [yo, yo', h.oddpos], ?_⟩⟩
  apply elem_ext_of_inBox (H.valid y gy) (H.valid y' gy') hidx
  intro K shp hK J hJ
  rw [yv K shp hK J hJ, yv' K shp (by rw [← hidx]; exact hK) J hJ]
  have he : x.elem = x'.elem := funext (fun s => funext (fun o => h.elem s o))
  rw [he, h.sym]

/-- a chain of unfuse steps respects equality of value views -/
theorem chain_veq (H : StepOK unf Good sg)
    (hind : ∀ x p y, unf x p = .ok y → ∃ ix subs exts, x.indices[p]? = some ix ∧ ix.sub = some (subs, exts)) :
    ∀ (ps : List Nat) (x x' z : Arr R), VEq x x' → Good x → Good x' → ps.foldlM unf x = .ok z →
      ∃ z', ps.foldlM unf x' = .ok z' ∧ Good z ∧ Good z' ∧ VEq z z' := by
  intro ps
  induction ps with
  | nil =>
    intro x x' z h hx hx' hz
    simp only [List.foldlM_nil, pure, Except.pure, Except.ok.injEq] at hz
    subst hz
    exact ⟨x', rfl, hx, hx', h⟩
  | cons p ps ih =>
    intro x x' z h hx hx' hz
    rw [List.foldlM_cons] at hz
    cases hu : unf x p with
    | error e => rw [hu] at hz; cases hz
    | ok y =>
      rw [hu] at hz
      obtain ⟨ix, subs, exts, hix, hsub⟩ := hind x p y hu
      obtain ⟨y1, y', h1, h2, gy, gy', hv⟩ := step_veq H h hx hx' hix hsub
      rw [hu] at h1; injection h1 with h1; subst h1
      obtain ⟨z', hz', g1, g2, hvz⟩ := ih y y' z hv gy gy' hz
      exact ⟨z', by rw [List.foldlM_cons, h2]; exact hz', g1, g2, hvz⟩

end Step

end Reshape5
end SymmModel
