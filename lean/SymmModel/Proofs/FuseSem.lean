/-
  SymmModel.Proofs.FuseSem — what the blocks produced by `fuseInsert` (one multi-axis group)
  contain: each stored block sits, reshaped, in its own range of the fused axis; the rest is zero.
-/
import SymmModel.Proofs.FuseInsert
namespace SymmModel
namespace FuseP
set_option linter.unusedSectionVars false

variable {R : Type}

theorem getD_set (l : List Nat) (p v k : Nat) :
    (l.set p v).getD k 0 = if p = k ∧ k < l.length then v else l.getD k 0 := by
  simp only [List.getD_eq_getElem?_getD, List.getElem?_set]
  by_cases hp : p = k
  · subst hp
    by_cases hk : p < l.length
    · simp [hk]
    · simp [hk]
  · simp [hp]

/-- the region written for a range `[st, st+d)` of axis `p`, full extent on all other axes -/
theorem inRegion_set {sh i : List Nat} {p st d : Nat} (hi : inBox sh i = true) (hp : p < sh.length) :
    inRegion ((List.replicate sh.length 0).set p st) (sh.set p d) i = true
      ↔ st ≤ i.getD p 0 ∧ i.getD p 0 < st + d := by
  have hb := inBox_iff.1 hi
  rw [inRegion_iff (n := sh.length) hb.1 (by simp) (by simp)]
  constructor
  · intro h
    have := h p hp
    rw [getD_set, getD_set] at this
    simpa [hp] using this
  · intro h k hk
    rw [getD_set, getD_set]
    by_cases hpk : p = k
    · subst hpk; simpa [hp] using h
    · have hkk := hb.2 k hk
      simp only [hpk, false_and, if_false, List.length_replicate]
      simp only [List.getD_eq_getElem?_getD, List.getElem?_replicate, hk, if_true, Option.getD_some,
        Nat.zero_le, Nat.zero_add, true_and]
      simpa [List.getD_eq_getElem?_getD] using hkk

/-- a sector is determined by its charges on the axes of a list covering all axes -/
theorem sector_ext {s s' : Sector} {n : Nat} (h1 : s.length = n) (h2 : s'.length = n) {perm : List Nat}
    (hcover : ∀ ax, ax < n → ax ∈ perm) (h : ∀ ax ∈ perm, s.getD ax (0, 0) = s'.getD ax (0, 0)) :
    s = s' := by
  apply List.ext_getElem (by rw [h1, h2])
  intro k hk hk'
  have := h k (hcover k (by omega))
  simpa [List.getD_eq_getElem?_getD, List.getElem?_eq_getElem hk, List.getElem?_eq_getElem hk'] using this

section One
variable {a : Arr R} {gaxes : List Nat}

theorem postOf_length (s : Sector) : (postOf a gaxes s).length = (gi1 a gaxes).axesAfter.length := by
  simp [postOf]

theorem nsOf_length (hok : GroupsOk [gaxes] a.ndim) (s : Sector) :
    (nsOf a gaxes s).length = (newIndices1 a gaxes).length := by
  rw [newIndices1_length hok]
  simp [nsOf, preOf_length hok, postOf_length]; omega

/-- equal new sectors and equal sub-sectors force equal sectors -/
theorem sector_of_ns_ss (hok : GroupsOk [gaxes] a.ndim) {s s' : Sector} (h1 : s.length = a.ndim)
    (h2 : s'.length = a.ndim) (hns : nsOf a gaxes s = nsOf a gaxes s') (hss : ssOf gaxes s = ssOf gaxes s') :
    s = s' := by
  have hok' : GroupsOk [gaxes] a.duals.length := by rw [duals_length]; exact hok
  simp only [nsOf, List.append_assoc] at hns
  have hpre := List.append_inj hns (by rw [preOf_length hok, preOf_length hok])
  have hpost : postOf a gaxes s = postOf a gaxes s' := by
    have := hpre.2
    simp only [List.singleton_append, List.cons.injEq] at this
    exact this.2
  apply sector_ext h1 h2 (perm := (gi1 a gaxes).perm)
  · intro ax hax
    rw [mem_perm hok', duals_length]; exact hax
  · intro ax hax
    rw [perm_eq] at hax
    simp only [List.flatten_cons, List.flatten_nil, List.append_nil, List.mem_append] at hax
    rcases hax with (hax | hax) | hax
    · exact List.map_inj_left.1 hpre.1 ax hax
    · exact List.map_inj_left.1 hss ax hax
    · exact List.map_inj_left.1 hpost ax hax

theorem cOf_of_ns (hok : GroupsOk [gaxes] a.ndim) {s s' : Sector} (hns : nsOf a gaxes s = nsOf a gaxes s') :
    cOf a gaxes s = cOf a gaxes s' := by
  rw [← nsOf_getD_pos hok s, ← nsOf_getD_pos hok s', hns]

theorem newShapeOf_eq_set (hok : GroupsOk [gaxes] a.ndim) (shp : List Nat) (D : Nat) :
    newShapeOf a gaxes shp
      = (shPre a gaxes shp ++ [D] ++ shPost a gaxes shp).set (gi1 a gaxes).position (prod (shMid gaxes shp)) := by
  rw [← shPre_length hok shp, set_mid]; rfl

theorem fusedShape_length (hok : GroupsOk [gaxes] a.ndim) (shp : List Nat) (D : Nat) :
    (shPre a gaxes shp ++ [D] ++ shPost a gaxes shp).length = (newIndices1 a gaxes).length := by
  rw [newIndices1_length hok]
  simp [shPre_length hok, shPost]; omega

variable [Zero R]

/-- the region of the item written for a stored block, inside its fused block -/
theorem toItem_region (hv : ValidArr a) (hok : GroupsOk [gaxes] a.ndim) (hlen : gaxes.length ≠ 1)
    {sb : Sector × Blk R} (hsb : sb ∈ a.blocks) {i : List Nat}
    (hi : inBox (shapeOf1 a gaxes (nsOf a gaxes sb.1)) i = true) :
    inRegion (toItem a gaxes sb).2.1 (toItem a gaxes sb).2.2.shape i = true
      ↔ stOf a gaxes sb.1 ≤ i.getD (gi1 a gaxes).position 0
        ∧ i.getD (gi1 a gaxes).position 0 < stOf a gaxes sb.1 + prod (shMid gaxes sb.2.shape) := by
  have hsh : shapeOf1 a gaxes (nsOf a gaxes sb.1)
      = shPre a gaxes sb.2.shape ++ [DOf a gaxes (cOf a gaxes sb.1)] ++ shPost a gaxes sb.2.shape := by
    simp [shapeOf1, shapeOf1_stored hv hok hlen hsb]
  rw [hsh] at hi
  simp only [toItem, Blk.reshapeK]
  rw [newShapeOf_eq_set hok _ (DOf a gaxes (cOf a gaxes sb.1)), ← fusedShape_length hok sb.2.shape
    (DOf a gaxes (cOf a gaxes sb.1))]
  apply inRegion_set hi
  rw [fusedShape_length hok, newIndices1_length hok]; omega

theorem items_disj (hv : ValidArr a) (hok : GroupsOk [gaxes] a.ndim) (hlen : gaxes.length ≠ 1) :
    (a.blocks.map (toItem a gaxes)).Pairwise (Disj (shapeOf1 a gaxes)) := by
  rw [List.pairwise_map]
  have hnd : a.blocks.Pairwise (fun x y => x.1 ≠ y.1) := by
    have := hv.nodup
    rwa [List.Nodup, List.pairwise_map] at this
  apply List.Pairwise.imp_of_mem _ hnd
  intro x y hx hy hne hkey i hi hrx hry
  have hkey' : nsOf a gaxes x.1 = nsOf a gaxes y.1 := hkey
  obtain ⟨e, D, st, h1, h2, _, _⟩ := stored_in_table hv hok hlen hx
  obtain ⟨e', D', st', h1', h2', _, _⟩ := stored_in_table hv hok hlen hy
  have hc := cOf_of_ns hok hkey'
  rw [← hc, h1] at h1'
  simp only [Option.some.injEq] at h1'; subst h1'
  have hss : ssOf gaxes x.1 ≠ ssOf gaxes y.1 := by
    intro hss
    exact hne (sector_of_ns_ss hok (hv.blk x hx).1 (hv.blk y hy).1 hkey' hss)
  have hdis := startOf_disjoint h2 h2' hss
  have hstx : stOf a gaxes x.1 = st := by simp [stOf, h1, h2]
  have hsty : stOf a gaxes y.1 = st' := by simp [stOf, ← hc, h1, h2']
  have hi' : inBox (shapeOf1 a gaxes (nsOf a gaxes x.1)) i = true := hi
  have hxr := (toItem_region hv hok hlen hx hi').1 hrx
  rw [hkey'] at hi'
  have hyr := (toItem_region hv hok hlen hy hi').1 hry
  rw [hstx] at hxr
  rw [hsty] at hyr
  omega

/-- the blocks of the fused array -/
def fusedBlocks (a : Arr R) (gaxes : List Nat) : List (Sector × Blk R) :=
  insFold (shapeOf1 a gaxes) (a.blocks.map (toItem a gaxes))

theorem fusedBlocks_inv (hv : ValidArr a) (hok : GroupsOk [gaxes] a.ndim) (hlen : gaxes.length ≠ 1) :
    InsInv (shapeOf1 a gaxes) (a.blocks.map (toItem a gaxes)) (fusedBlocks a gaxes) :=
  insFold_inv _ _ (items_disj hv hok hlen)

end One

end FuseP
end SymmModel
