/-
  SymmModel.Proofs.ReshapeIc — the other direction of the element statement: every STORED element of
  the input appears in the result of the fermionic `reshape` (plan of several fuse calls).
  `onto_call`: one fuse call stores, for every stored address `(s, offs)` of the input, an address
  `(ns, i)` whose split address is `(s, offs)` — in particular "fuse stores the sector a stored source
  sector combines to".  `onto_chain`: composed over the calls (`Pulled`).
-/
import SymmModel.Proofs.ReshapeIb
namespace SymmModel.ReshapeI
open SymmModel SymmModel.Reshape SymmModel.C07 SymmModel.Reshape5 SymmModel.ReshapeH ReshapeP FuseP
open SymmModel.Lazy
set_option linter.unusedSectionVars false

variable {R : Type} [Zero R] [Neg R] [LawfulNeg R]

/-- one call, onto: every stored address of `a` is the split address of a stored address of `y` -/
def OntoStep (a y : Arr R) (G : List (List Nat)) (P : Nat) : Prop :=
  ∀ s b, alookup a.blocks s = some b → ∀ offs, inBox b.shape offs = true →
    ∃ ns B i, ∃ segs : List (Sector × List Nat), alookup y.blocks ns = some B ∧ inBox B.shape i = true
      ∧ segs.length = G.length
      ∧ (∀ g gaxes, G[g]? = some gaxes →
          splitAddr (y.indices.getD (P + g) default) (ns.getD (P + g) (0, 0)) (i.getD (P + g) 0) = segs[g]?)
      ∧ s = ns.take P ++ (segs.map (·.1)).flatten ++ ns.drop (P + G.length)
      ∧ offs = i.take P ++ (segs.map (·.2)).flatten ++ i.drop (P + G.length)

theorem onto_call (a : Arr R) (G : List (List Nat)) (P lb : Nat)
    (hv : a.validB = true) (hf : a.fermi = true) (hc : CallOk G P lb a.ndim) :
    ∃ y, fuseDispatch a G = .ok y ∧ OntoStep a y G P := by
  have hok := groupsOk_of_call hc.ne hc.two hc.flat hc.le
  have hgok : C05.groupsOkB G a.ndim = true := groupsOk_iff.2 hok
  have hdl := FuseP.duals_length a
  obtain ⟨hb, _, hperm⟩ := ValidP.groupInfo_consecutive (groups := G) (duals := a.duals)
    (p := P) (n := G.flatten.length) hc.flat (flatten_pos hc.ne hc.two) (by rw [hdl]; exact hc.le)
  rw [hdl] at hperm
  have hpos0 : (calcFuseGroupInfo G a.duals).position = P := by
    obtain ⟨_, _, _, _, _, hb', _⟩ := C05.calcFuseGroupInfo_perm G a.duals (by rw [hdl]; exact hgok)
    have := congrArg List.length (hb'.symm.trans hb)
    simpa using this
  obtain ⟨h0, hT⟩ := fuseF_elemT a G true hv hf hok
  have hfld := signAdj_fields a G
  have hva4 : ValidArr (signAdj a G) := validArr_of_core (signAdj_valid a G hv hf hok).core
  have hnd4 : (signAdj a G).ndim = a.ndim := by
    show (signAdj a G).indices.length = a.ndim
    rw [hfld.2.1]; exact permutedM_length hok a.indices rfl
  have hd4 : (signAdj a G).duals.length = a.duals.length := by
    rw [duals_length, duals_length, hnd4]
  have hok4 : GroupsOk (newGroupsF G a.duals) (signAdj a G).ndim := by
    rw [hnd4, ← duals_length]; exact newGroupsF_ok (hokD hok)
  obtain ⟨hpos, hperm4, _⟩ := newGroups_plan (hokD hok) hd4
  rw [hdl] at hperm4
  have hlen : (newGroupsF G a.duals).length = G.length := newGroupsF_length _ _
  have hfull := Full.of_valid hv hf
  have hisp : Arr.isPerm (calcFuseGroupInfo G a.duals).perm a.ndim = true := by
    have := perm_isPerm (hokD hok); rwa [duals_length] at this
  have htr := hfull.trOk hisp
  refine ⟨_, by simp only [fuseDispatch, hf, if_true]; exact h0, ?_⟩
  intro s b hbs offs ho
  have hsl : s.length = a.ndim := ((validArr_of_validB hv).blk (s, b) (Lazy.alookup_mem hbs)).1
  have hbl : b.shape.length = a.ndim := ShapeLen.of_valid hv (s, b) (Lazy.alookup_mem hbs)
  have hol : offs.length = a.ndim := by rw [inBox_length ho, hbl]
  obtain ⟨b4, hb4, hsh⟩ := signAdj_block (groups := G) htr hbs
  rw [hperm] at hb4 hsh
  have e1 : permuted s (List.range a.ndim) = s := by rw [← hsl]; exact Lazy.permuted_range s
  have e2 : permuted b.shape (List.range a.ndim) = b.shape := by rw [← hbl]; exact Lazy.permuted_range _
  have e3 : permuted offs (List.range a.ndim) = offs := by rw [← hol]; exact Lazy.permuted_range _
  rw [e1] at hb4
  rw [e2] at hsh
  obtain ⟨B, hB, hiB, _, hK, hJ⟩ := fused_ontoM hva4 hok4 (sb := (s, b4)) (Lazy.alookup_mem hb4)
    (offs := offs) (by rw [hsh]; exact ho)
  rw [hperm4] at hK hJ
  simp only [e1] at hK
  rw [e3] at hJ
  obtain ⟨h1, _, _, _, _⟩ := hT _ B hB _ hiB
  have eK : ∀ ns i, expandK (signAdj a G) (newGroupsF G a.duals) ns i
      = ns.take P
        ++ (((List.range G.length).map (segM (signAdj a G) (newGroupsF G a.duals) ns i)).map (·.1)).flatten
        ++ ns.drop (P + G.length) := by
    intro ns i
    simp only [expandK, hpos, hpos0, hlen, List.map_map]
    rfl
  have eJ : ∀ ns i, expandJ (signAdj a G) (newGroupsF G a.duals) ns i
      = i.take P
        ++ (((List.range G.length).map (segM (signAdj a G) (newGroupsF G a.duals) ns i)).map (·.2)).flatten
        ++ i.drop (P + G.length) := by
    intro ns i
    simp only [expandJ, hpos, hpos0, hlen, List.map_map]
    rfl
  refine ⟨_, B, _, (List.range G.length).map (segM (signAdj a G) (newGroupsF G a.duals) _ _), hB, hiB,
    by simp, ?_, by rw [← eK]; exact hK, by rw [← eJ]; exact hJ⟩
  intro g gaxes hgg
  have hgl := getElem?_lt hgg
  have h2 := hc.two gaxes (List.mem_of_getElem? hgg)
  have hm : multiB G g = true := multiB_iff.2 ⟨_, hgg, by omega⟩
  rw [List.getElem?_map, List.getElem?_range hgl]
  have := h1 g hgl hm
  rw [hpos0] at this
  show splitAddr ((newIdxM (signAdj a G) (newGroupsF G a.duals)).getD _ default) _ _ = _
  have hix : (newIdxM (signAdj a G) (newGroupsF G a.duals)).getD (P + g) default
      = ixM (signAdj a G) (newGroupsF G a.duals) g := by
    simp only [ixM]; rw [hpos, hpos0]
  rw [hix]; exact this

/-- **every stored element of the input appears in the result** of a plan of fuse calls -/
theorem onto_chain : ∀ (calls : List (List (List Nat))) (a : Arr R) (lb : Nat), a.validB = true →
    a.fermi = true → CallsOk calls lb a.ndim → ∀ y, calls.foldlM fuseDispatch a = .ok y →
    ∀ s o, Stored a s o → ∃ ns i σ, Stored y ns i ∧ Pulled a calls lb y ns i s o σ := by
  intro calls
  induction calls with
  | nil =>
    intro a lb _ _ _ y hy s o hst
    simp only [List.foldlM_nil, pure, Except.pure] at hy
    injection hy with hy; subst hy
    exact ⟨s, o, 1, hst, rfl, rfl, rfl⟩
  | cons G rest ih =>
    intro a lb hv hf hc y hy s o hst
    obtain ⟨P, hc1, hc2⟩ := hc
    obtain ⟨y1, hy1, hv1, hf1, hnd, _⟩ := elem_step a G P lb hv hf hc1
    obtain ⟨y1', hy1', honto⟩ := onto_call a G P lb hv hf hc1
    rw [hy1] at hy1'; injection hy1' with hy1'; subst hy1'
    rw [← hnd] at hc2
    rw [List.foldlM_cons, hy1] at hy
    obtain ⟨b, hb, hbox⟩ := hst
    obtain ⟨s1, B1, o1, segs, hB1, hin, hsl, hsp, hs, ho⟩ := honto s b hb o hbox
    obtain ⟨ns, i, σ1, hsty, hpr⟩ := ih y1 (P + G.length) hv1 hf1 hc2 y hy s1 o1 ⟨B1, hB1, hin⟩
    have hsl' : s.length = a.ndim := ((validArr_of_validB hv).blk (s, b) (Lazy.alookup_mem hb)).1
    have hbl : b.shape.length = a.ndim := ShapeLen.of_valid hv (s, b) (Lazy.alookup_mem hb)
    have hol : o.length = a.ndim := by rw [inBox_length hbox, hbl]
    exact ⟨ns, i, _, hsty, P, y1, s1, o1, σ1, B1, segs, hc1, hy1, hpr, hB1, hin, hsl, hsp, hsl', hol,
      hs, ho, rfl⟩

end SymmModel.ReshapeI
