/-
  SymmModel.Proofs.Fuse4Round2 — the sign `unfuseF` applies, in the per-group form of the fuse sign:
  flip of the non-dual legs times the reversal sign of the new legs' odd charges.
-/
import SymmModel.Proofs.Fuse4Round1
namespace SymmModel
namespace FuseP
set_option linter.unusedSectionVars false
open SymmModel.KoszulP SymmModel.Lazy

variable {R : Type}

/-! ### the virtual reversal of `unfuseF` -/

theorem unfuseVperm_eq (N L p : Nat) (hp : p < N) (hL : 0 < L) :
    unfuseVperm N L p
      = List.range p ++ ((List.range L).map (fun t => p + t)).reverse
        ++ (List.range (N - 1 - p)).map (fun j => p + L + j) := by
  have hN : N + L - 1 = p + L + (N - 1 - p) := by omega
  unfold unfuseVperm
  rw [hN, List.range_add, List.range_add, List.map_append, List.map_append, List.map_map, List.map_map]
  congr 1
  · congr 1
    · conv_rhs => rw [← List.map_id (List.range p)]
      apply List.map_congr_left
      intro x hx
      simp only [List.mem_range] at hx
      have : ¬ (p ≤ x) := by omega
      simp [this]
    · apply List.ext_getElem (by simp)
      intro t h1 h2
      simp only [List.length_map, List.length_range] at h1
      simp only [List.getElem_map, List.getElem_range, Function.comp, List.getElem_reverse, List.length_map,
        List.length_range]
      have c1 : p ≤ p + t := by omega
      have c2 : p + t < p + L := by omega
      simp only [c1, c2, decide_true, Bool.and_self, if_true]
      omega
  · apply List.map_congr_left
    intro j hj
    simp only [Function.comp]
    have : ¬ (p + L + j < p + L) := by omega
    simp [this]

theorem koszul_unfuseVperm (par : List Bool) (N L p : Nat) (hp : p < N) (hL : 0 < L) :
    koszul par (some (unfuseVperm N L p)) = revSign par ((List.range L).map (fun t => p + t)) := by
  have hN : N + L - 1 = p + L + (N - 1 - p) := by omega
  have hr : List.range (N + L - 1) = List.range p ++ (List.range L).map (fun t => p + t)
      ++ (List.range (N - 1 - p)).map (fun j => p + L + j) := by
    rw [hN, List.range_add, List.range_add]
  rw [unfuseVperm_eq N L p hp hL, koszul_reverse_block par _ _ _ (N + L - 1) (by rw [← hr]), ← hr,
    koszul_id', Int.one_mul]
  rfl

/-! ### counting odd charges on a run of axes -/

theorem getD_map_parity (sym : Sym) (K : Sector) (x : Nat) :
    (K.map sym.parity).getD x false = sym.parity (K.getD x (0, 0)) := by
  simp only [List.getD_eq_getElem?_getD, List.getElem?_map]
  cases K[x]? with
  | none => simp [parity_zero_charge]
  | some c => rfl

theorem list_eq_range_map (l : List Nat) : l = (List.range l.length).map (fun t => l.getD t 0) := by
  have := map_eq_range_map l 0 (fun x => x)
  simpa using this

/-- the odd-charge count of a run, through an index correspondence -/
theorem oddCount_transfer (sym : Sym) (K S : Sector) (gx : List Nat) (p : Nat)
    (h : ∀ t, t < gx.length → K.getD (p + t) (0, 0) = S.getD (gx.getD t 0) (0, 0)) :
    oddCount (K.map sym.parity) ((List.range gx.length).map (fun t => p + t))
      = oddCount (S.map sym.parity) gx := by
  conv_rhs => rw [list_eq_range_map gx]
  simp only [oddCount, List.filter_map, List.length_map]
  congr 1
  apply List.filter_congr
  intro t ht
  simp only [List.mem_range] at ht
  simp only [Function.comp, isOdd, getD_map_parity, h t ht]

theorem zipIdx_filter_map {α : Type} (l : List α) (d : α) (q : α → Bool) (h : Nat → Nat) :
    (l.zipIdx.filter (fun x => q x.1)).map (fun x => h x.2)
      = ((List.range l.length).filter (fun t => q (l.getD t d))).map h := by
  have hz : l.zipIdx = (List.range l.length).map (fun g => (l.getD g d, g)) := by
    have := zipIdx_map_eq_range_map l d (fun x => x)
    simpa using this
  rw [hz, List.filter_map, List.map_map]
  rfl

/-- the flip count of `unfuseF` equals the flip count of the group in the fuse sign -/
theorem flipSign_transfer (sym : Sym) (K S : Sector) (gx : List Nat) (p : Nat) (subs : List Index)
    (idx : List Index) (hl : subs.length = gx.length)
    (hs : ∀ t, t < gx.length → (subs.getD t default).dual = (idx.getD (gx.getD t 0) default).dual)
    (h : ∀ t, t < gx.length → K.getD (p + t) (0, 0) = S.getD (gx.getD t 0) (0, 0)) :
    Lazy.flipSign sym (unfuseFlipAxes subs p) K
      = Lazy.flipSign sym (gx.filter (fun ax => !(idx.getD ax default).dual)) S := by
  unfold unfuseFlipAxes
  have e1 := zipIdx_filter_map subs default (fun ix : Index => !ix.dual) (fun t => p + t)
  rw [e1, hl]
  have hL : (List.filter (fun ax => sym.parity (K.getD ax (0, 0)))
      (List.map (fun t => p + t) (List.filter (fun t => !(subs.getD t default).dual) (List.range gx.length)))).length
      = (List.filter (fun t => sym.parity (K.getD (p + t) (0, 0)))
          (List.filter (fun t => !(subs.getD t default).dual) (List.range gx.length))).length := by
    rw [List.filter_map, List.length_map]; rfl
  have hR : (List.filter (fun ax => sym.parity (S.getD ax (0, 0)))
      (List.filter (fun ax => !(idx.getD ax default).dual) gx)).length
      = (List.filter (fun t => sym.parity (S.getD (gx.getD t 0) (0, 0)))
          (List.filter (fun t => !(idx.getD (gx.getD t 0) default).dual) (List.range gx.length))).length := by
    conv_lhs => rw [list_eq_range_map gx]
    rw [List.filter_map, List.filter_map, List.length_map]
    rfl
  have hmid : List.filter (fun t => sym.parity (K.getD (p + t) (0, 0)))
        (List.filter (fun t => !(subs.getD t default).dual) (List.range gx.length))
      = List.filter (fun t => sym.parity (S.getD (gx.getD t 0) (0, 0)))
        (List.filter (fun t => !(idx.getD (gx.getD t 0) default).dual) (List.range gx.length)) := by
    have e2 : List.filter (fun t => !(subs.getD t default).dual) (List.range gx.length)
        = List.filter (fun t => !(idx.getD (gx.getD t 0) default).dual) (List.range gx.length) := by
      apply List.filter_congr
      intro t ht
      rw [hs t (List.mem_range.1 ht)]
    rw [e2]
    apply List.filter_congr
    intro t ht
    rw [h t (List.mem_range.1 (List.mem_filter.1 ht).1)]
  have hcount := hL.trans ((congrArg List.length hmid).trans hR.symm)
  have hodd : Lazy.flipOdd sym (List.map (fun t => p + t)
        (List.filter (fun t => !(subs.getD t default).dual) (List.range gx.length))) K
      = Lazy.flipOdd sym (List.filter (fun ax => !(idx.getD ax default).dual) gx) S := by
    unfold Lazy.flipOdd
    rw [hcount]
  unfold Lazy.flipSign
  rw [hodd]

end FuseP
end SymmModel
