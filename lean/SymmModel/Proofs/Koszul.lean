/-
  SymmModel.Proofs.Koszul — helper lemmas for properties C03 / C04 about the Koszul sign
  (`isOdd`, `crossed`, `swapsLoop`, `koszulNeg`, `koszul` of Model/Sym.lean) and about the
  lazily tracked sign table of fermionic arrays (`Arr.getPhase`, `Arr.setPhase`,
  `Arr.transposeF`, `Arr.phaseFlip`, `Arr.phaseTranspose`, `Arr.phaseGlobal` of Model/Fermi.lean).

  Nothing here changes a model definition.  Everything lives in `namespace SymmModel.KoszulP`.
  * `sgn`, `tri`                        : (-1)^n and the triangular numbers
  * `invR`, `crossR`                    : generic inversion counting w.r.t. a Boolean relation,
                                          additivity under concatenation, behaviour under block
                                          exchange / reversal / permutation of a block
  * `AdjReach`                          : every permutation is reached by adjacent swaps
  * `invOdd`, `swapsLoop_eq_invOdd`     : the code's loop (with its `moved` set) counts exactly
                                          the reversed pairs of odd entries
  * `compose`, `permuted_permuted`, `perm_of_isPerm` : composition of axis permutations
  * `koszul_block_move`, `koszul_reverse_block`, `koszul_swap_adjacent'`,
    `koszul_none_eq_reverse'`, `koszul_cocycle'` : the sign laws
  * association-list (`alookup/ainsert/aerase/adict`) laws, `foldl_pget` (sign-table fold)
  * `ofFn_get`, `transposeK_get`        : numpy's transpose kernel moves entries
  * `transposeF_getPhase`, `phaseFlip_getPhase`, `phaseTranspose_getPhase`,
    `phaseGlobal_getPhase`, `elem_of_getPhase_mul`, `transposeF_elem`, `valid_sign_hyps`.
-/
import SymmModel.Model.Fermi
import SymmModel.Model.Valid
import Mathlib.Data.List.Nodup
import Mathlib.Data.List.Perm.Basic
import Mathlib.Data.List.Range
import Mathlib.Tactic.Ring

namespace SymmModel
namespace KoszulP

/-! ### signs and triangular numbers -/

/-- `(-1)^n` -/
def sgn (n : Nat) : Int := if n % 2 = 0 then 1 else -1

theorem sgn_zero : sgn 0 = 1 := rfl

theorem sgn_cases (n : Nat) : sgn n = 1 ∨ sgn n = -1 := by
  unfold sgn; split <;> simp

theorem sgn_add (a b : Nat) : sgn (a + b) = sgn a * sgn b := by
  unfold sgn
  rcases Nat.mod_two_eq_zero_or_one a with ha | ha <;>
    rcases Nat.mod_two_eq_zero_or_one b with hb | hb <;>
    simp [Nat.add_mod, ha, hb]

theorem sgn_succ (n : Nat) : sgn (n + 1) = - sgn n := by
  rw [sgn_add]; simp [sgn]

theorem sgn_mul_self (n : Nat) : sgn n * sgn n = 1 := by
  rcases sgn_cases n with h | h <;> simp [h]

theorem sgn_eq_pow (n : Nat) : sgn n = (-1 : Int) ^ n := by
  induction n with
  | zero => rfl
  | succ n ih => rw [sgn_succ, ih, Int.pow_succ]; omega

/-- parity bookkeeping: `a + 2c = b + d` gives `(-1)^a = (-1)^b (-1)^d` -/
theorem sgn_of_eq {a b c d : Nat} (h : a + 2 * c = b + d) : sgn a = sgn b * sgn d := by
  rw [← sgn_add]; unfold sgn
  have : a % 2 = (b + d) % 2 := by omega
  rw [this]

theorem sgn_congr {a b : Nat} (h : a % 2 = b % 2) : sgn a = sgn b := by
  unfold sgn; rw [h]

/-- triangular numbers `0, 0, 1, 3, 6, …` (number of pairs among `n` things) -/
def tri : Nat → Nat
  | 0 => 0
  | n + 1 => tri n + n

theorem two_mul_tri (n : Nat) : 2 * tri n = n * (n - 1) := by
  induction n with
  | zero => rfl
  | succ n ih =>
    cases n with
    | zero => rfl
    | succ m =>
      simp only [tri] at ih ⊢
      have : (m + 1 + 1) * (m + 1 + 1 - 1) = (m + 1) * (m + 1 - 1) + 2 * (m + 1) := by
        simp only [Nat.add_sub_cancel]; ring
      omega

theorem tri_eq (n : Nat) : tri n = n * (n - 1) / 2 := by
  have := two_mul_tri n; omega

/-- `C(k,2)` and `k div 2` have the same parity (the `sum // 2 % 2` shortcut) -/
theorem tri_mod_two (k : Nat) : tri k % 2 = (k / 2) % 2 := by
  induction k with
  | zero => rfl
  | succ k ih =>
    simp only [tri]
    have h4 : k % 4 = 0 ∨ k % 4 = 1 ∨ k % 4 = 2 ∨ k % 4 = 3 := by omega
    rcases h4 with h | h | h | h <;> omega

theorem sgn_tri (k : Nat) : sgn (tri k) = sgn (k / 2) := sgn_congr (tri_mod_two k)

/-! ### generic inversion counting

`r a b = true` means "`a` standing before `b` counts as an inversion". -/

section Inv
variable {α : Type}

/-- number of pairs `(a ∈ l, b ∈ m)` with `r a b` -/
def crossR (r : α → α → Bool) : List α → List α → Nat
  | [], _ => 0
  | a :: l, m => (m.filter (r a)).length + crossR r l m

/-- number of pairs `a` before `b` in the list with `r a b` -/
def invR (r : α → α → Bool) : List α → Nat
  | [] => 0
  | a :: l => (l.filter (r a)).length + invR r l

variable (r : α → α → Bool)

@[simp] theorem crossR_nil_left (m : List α) : crossR r [] m = 0 := rfl

@[simp] theorem crossR_nil_right (l : List α) : crossR r l [] = 0 := by
  induction l with
  | nil => rfl
  | cons a l ih => simp [crossR, ih]

theorem crossR_append_left (l₁ l₂ m : List α) :
    crossR r (l₁ ++ l₂) m = crossR r l₁ m + crossR r l₂ m := by
  induction l₁ with
  | nil => simp
  | cons a l ih => simp only [List.cons_append, crossR, ih]; omega

theorem crossR_append_right (l m₁ m₂ : List α) :
    crossR r l (m₁ ++ m₂) = crossR r l m₁ + crossR r l m₂ := by
  induction l with
  | nil => simp
  | cons a l ih =>
    simp only [crossR, ih, List.filter_append, List.length_append]; omega

theorem crossR_cons_right (l : List α) (b : α) (m : List α) :
    crossR r l (b :: m) = (l.filter (fun a => r a b)).length + crossR r l m := by
  induction l with
  | nil => simp
  | cons a l ih =>
    simp only [crossR, ih, List.filter_cons]
    cases r a b <;> simp <;> omega

theorem invR_append (l₁ l₂ : List α) :
    invR r (l₁ ++ l₂) = invR r l₁ + invR r l₂ + crossR r l₁ l₂ := by
  induction l₁ with
  | nil => simp [invR]
  | cons a l ih =>
    simp only [List.cons_append, invR, crossR, ih, List.filter_append, List.length_append]; omega

theorem crossR_perm_left {l₁ l₂ : List α} (h : l₁.Perm l₂) (m : List α) :
    crossR r l₁ m = crossR r l₂ m := by
  induction h with
  | nil => rfl
  | cons x _ ih => simp only [crossR, ih]
  | swap x y l => simp only [crossR]; omega
  | trans _ _ ih1 ih2 => exact ih1.trans ih2

theorem crossR_perm_right (l : List α) {m₁ m₂ : List α} (h : m₁.Perm m₂) :
    crossR r l m₁ = crossR r l m₂ := by
  induction l with
  | nil => rfl
  | cons a l ih => simp only [crossR, ih, (h.filter (r a)).length_eq]

/-- complementary filters partition the list -/
theorem filter_compl_length (p q : α → Bool) (m : List α) (h : ∀ b ∈ m, p b = !q b) :
    (m.filter p).length + (m.filter q).length = m.length := by
  induction m with
  | nil => rfl
  | cons b m ih =>
    have hb := h b (by simp)
    have := ih (fun x hx => h x (List.mem_cons_of_mem _ hx))
    simp only [List.filter_cons, hb]
    cases q b <;> simp <;> omega

/-- if for every `a ∈ l`, `b ∈ m` exactly one of the two orders is an inversion, the two cross
    counts add up to the number of pairs -/
theorem crossR_add_swap (l m : List α) (hex : ∀ a ∈ l, ∀ b ∈ m, r a b = !r b a) :
    crossR r l m + crossR r m l = l.length * m.length := by
  induction l with
  | nil => simp
  | cons a l ih =>
    have h1 := ih (fun x hx => hex x (List.mem_cons_of_mem _ hx))
    have h2 := filter_compl_length (r a) (fun b => r b a) m (fun b hb => hex a (by simp) b hb)
    simp only [crossR, crossR_cons_right, List.length_cons, Nat.succ_mul]
    omega

/-- exchanging two adjacent blocks only changes the pairs between the two blocks -/
theorem invR_block_swap (xs A B ys : List α) :
    invR r (xs ++ A ++ B ++ ys) + crossR r B A = invR r (xs ++ B ++ A ++ ys) + crossR r A B := by
  simp only [invR_append, crossR_append_left]; omega

/-- replacing a block by a permutation of itself only changes the block's own inversions -/
theorem invR_block_perm (xs ys : List α) {A A' : List α} (h : A.Perm A') :
    invR r (xs ++ A ++ ys) + invR r A' = invR r (xs ++ A' ++ ys) + invR r A := by
  simp only [invR_append, crossR_append_left, crossR_perm_left r h, crossR_perm_right r _ h]; omega

/-- a list and its reversal together invert every pair exactly once -/
theorem invR_add_reverse (l : List α) (hex : l.Pairwise (fun a b => r a b = !r b a)) :
    invR r l + invR r l.reverse = tri l.length := by
  induction l with
  | nil => rfl
  | cons a l ih =>
    rw [List.pairwise_cons] at hex
    have h1 := ih hex.2
    have h2 := filter_compl_length (r a) (fun b => r b a) l (fun b hb => hex.1 b hb)
    have h3 : (l.reverse.filter (fun b => r b a)).length = (l.filter (fun b => r b a)).length := by
      rw [List.filter_reverse, List.length_reverse]
    simp only [List.reverse_cons, invR_append, invR, crossR_cons_right, crossR_nil_right,
      List.filter_nil, List.length_nil, List.length_cons, tri, h3]
    omega

/-- a list sorted against `r` has no inversions -/
theorem invR_eq_zero_of_pairwise (l : List α) (h : l.Pairwise (fun a b => r a b = false)) :
    invR r l = 0 := by
  induction l with
  | nil => rfl
  | cons a l ih =>
    rw [List.pairwise_cons] at h
    have : l.filter (r a) = [] := by
      rw [List.filter_eq_nil_iff]; intro b hb; simp [h.1 b hb]
    simp [invR, this, ih h.2]

/-- crude bound: at most all pairs are inverted -/
theorem invR_le (l : List α) : 2 * invR r l + l.length ≤ l.length * l.length := by
  induction l with
  | nil => simp [invR]
  | cons a l ih =>
    have := List.length_filter_le (r a) l
    have e : (l.length + 1) * (l.length + 1) = l.length * l.length + 2 * l.length + 1 := by ring
    simp only [invR, List.length_cons, e]
    omega

end Inv

/-! ### every permutation is reached by adjacent swaps -/

/-- `AdjReach l m`: `m` is obtained from `l` by finitely many swaps of adjacent entries -/
inductive AdjReach {α : Type} : List α → List α → Prop
  | refl (l : List α) : AdjReach l l
  | step {l xs : List α} {a b : α} {ys : List α} :
      AdjReach l (xs ++ a :: b :: ys) → AdjReach l (xs ++ b :: a :: ys)

namespace AdjReach
variable {α : Type}

theorem trans {l m k : List α} (h1 : AdjReach l m) (h2 : AdjReach m k) : AdjReach l k := by
  induction h2 with
  | refl => exact h1
  | step _ ih => exact .step ih

theorem cons (x : α) {l m : List α} (h : AdjReach l m) : AdjReach (x :: l) (x :: m) := by
  induction h with
  | refl => exact .refl _
  | @step xs a b ys _ ih => exact @AdjReach.step _ _ (x :: xs) a b ys ih

theorem of_perm {l m : List α} (h : l.Perm m) : AdjReach l m := by
  induction h with
  | nil => exact .refl _
  | cons x _ ih => exact ih.cons x
  | swap x y l => exact @AdjReach.step _ (y :: x :: l) [] y x l (.refl _)
  | trans _ _ ih1 ih2 => exact ih1.trans ih2

theorem perm {l m : List α} (h : AdjReach l m) : l.Perm m := by
  induction h with
  | refl => exact List.Perm.refl _
  | @step xs a b ys _ ih =>
    exact ih.trans (List.Perm.append_left xs (List.Perm.swap b a ys))

end AdjReach

/-! ### the loop of `calc_phase_permutation` counts the reversed pairs of odd entries -/

/-- specification: pairs of odd entries that the permutation puts in reversed order -/
def invOdd (par : List Bool) : List Nat → Nat
  | [] => 0
  | ax :: rest =>
      (if isOdd par ax then (rest.filter fun o => decide (o < ax) && isOdd par o).length else 0)
        + invOdd par rest

theorem crossed_eq (par : List Bool) (moved rest : List Nat) (ax n : Nat)
    (hnd : (ax :: rest).Nodup)
    (hcover : ∀ o, o < n → (o ∈ moved ∨ o ∈ ax :: rest))
    (hdisj : ∀ o, o ∈ moved → o ∉ ax :: rest)
    (hlt : ∀ o ∈ ax :: rest, o < n) :
    crossed par moved ax = (rest.filter fun o => decide (o < ax) && isOdd par o).length := by
  unfold crossed
  apply List.Perm.length_eq
  apply (List.perm_ext_iff_of_nodup ?_ ?_).2
  · intro o
    simp only [List.mem_filter, List.mem_range, Bool.and_eq_true, Bool.not_eq_true',
      decide_eq_true_eq, List.contains_eq_mem, decide_eq_false_iff_not]
    constructor
    · rintro ⟨ho, hnm, hodd⟩
      have hax : ax < n := hlt ax (by simp)
      rcases hcover o (by omega) with h | h
      · exact absurd h hnm
      · rcases List.mem_cons.1 h with h | h
        · omega
        · exact ⟨h, ho, hodd⟩
    · rintro ⟨hr, ho, hodd⟩
      refine ⟨ho, ?_, hodd⟩
      intro hm
      exact hdisj o hm (List.mem_cons_of_mem _ hr)
  · exact (List.nodup_range).filter _
  · exact (List.nodup_cons.1 hnd).2.filter _

theorem swapsLoop_eq_invOdd_aux (par : List Bool) (n : Nat) :
    ∀ (perm moved : List Nat), perm.Nodup →
      (∀ o, o < n → (o ∈ moved ∨ o ∈ perm)) → (∀ o, o ∈ moved → o ∉ perm) → (∀ o ∈ perm, o < n) →
      swapsLoop par perm moved = invOdd par perm
  | [], _, _, _, _, _ => rfl
  | ax :: rest, moved, hnd, hcover, hdisj, hlt => by
    simp only [swapsLoop, invOdd]
    rw [crossed_eq par moved rest ax n hnd hcover hdisj hlt]
    congr 1
    apply swapsLoop_eq_invOdd_aux par n rest (ax :: moved) (List.nodup_cons.1 hnd).2
    · intro o ho
      rcases hcover o ho with h | h
      · exact Or.inl (List.mem_cons_of_mem _ h)
      · rcases List.mem_cons.1 h with h | h
        · exact Or.inl (by simp [h])
        · exact Or.inr h
    · intro o hm hr
      rcases List.mem_cons.1 hm with h | h
      · subst h; exact (List.nodup_cons.1 hnd).1 hr
      · exact hdisj o h (List.mem_cons_of_mem _ hr)
    · intro o ho; exact hlt o (List.mem_cons_of_mem _ ho)

/-- for every permutation of `range n` the code's loop counts exactly the odd inversions -/
theorem swapsLoop_eq_invOdd (par : List Bool) (perm : List Nat) (n : Nat)
    (hperm : perm.Perm (List.range n)) :
    swapsLoop par perm [] = invOdd par perm := by
  apply swapsLoop_eq_invOdd_aux par n perm [] (hperm.nodup_iff.2 List.nodup_range)
  · intro o ho; exact Or.inr (hperm.mem_iff.2 (List.mem_range.2 ho))
  · intro o h; simp at h
  · intro o ho; exact List.mem_range.1 (hperm.mem_iff.1 ho)

/-- "`a` before `b` is an inversion" for axis numbers -/
def gtR (a b : Nat) : Bool := decide (b < a)

theorem gtR_ex {a b : Nat} (h : a ≠ b) : gtR a b = !gtR b a := by
  unfold gtR
  by_cases h1 : b < a <;> by_cases h2 : a < b <;> simp [h1, h2] <;> omega

/-- number of odd entries among the listed axes -/
def oddCount (par : List Bool) (l : List Nat) : Nat := (l.filter (isOdd par)).length

/-- the odd inversions are the inversions of the sub-list of odd entries -/
theorem invOdd_eq_invR (par : List Bool) (l : List Nat) :
    invOdd par l = invR gtR (l.filter (isOdd par)) := by
  induction l with
  | nil => rfl
  | cons ax rest ih =>
    simp only [invOdd, List.filter_cons]
    cases h : isOdd par ax
    · simp [ih]
    · simp only [if_true, invR, List.filter_filter, ih]
      rfl

theorem koszul_some (par : List Bool) (perm : List Nat) :
    koszul par (some perm) = sgn (swapsLoop par perm []) := by
  unfold koszul koszulNeg sgn
  rcases Nat.mod_two_eq_zero_or_one (swapsLoop par perm []) with h | h <;> simp [h]

theorem koszul_none (par : List Bool) :
    koszul par none = sgn ((par.filter id).length / 2) := by
  unfold koszul koszulNeg sgn
  rcases Nat.mod_two_eq_zero_or_one ((par.filter id).length / 2) with h | h <;> simp [h]

theorem koszul_eq_sgn_invR (par : List Bool) (perm : List Nat) (n : Nat)
    (hperm : perm.Perm (List.range n)) :
    koszul par (some perm) = sgn (invR gtR (perm.filter (isOdd par))) := by
  rw [koszul_some, swapsLoop_eq_invOdd par perm n hperm, invOdd_eq_invR]

/-- distinct axes: exactly one order of two entries is an inversion -/
theorem gtR_ex_of_disjoint {A B : List Nat} (h : ∀ a ∈ A, ∀ b ∈ B, a ≠ b) (p : Nat → Bool) :
    ∀ a ∈ A.filter p, ∀ b ∈ B.filter p, gtR a b = !gtR b a := by
  intro a ha b hb
  exact gtR_ex (h a (List.mem_filter.1 ha).1 b (List.mem_filter.1 hb).1)

theorem gtR_ex_of_nodup {A : List Nat} (h : A.Nodup) (p : Nat → Bool) :
    (A.filter p).Pairwise (fun a b => gtR a b = !gtR b a) := by
  have h' : (A.filter p).Nodup := h.filter _
  exact List.Pairwise.imp (fun {a b} hab => gtR_ex hab) h'

/-- the identity has no inversions -/
theorem invR_gtR_sorted (l : List Nat) (h : l.Pairwise (· < ·)) : invR gtR l = 0 := by
  apply invR_eq_zero_of_pairwise
  exact List.Pairwise.imp (fun {a b} hab => by unfold gtR; simp; omega) h

/-- number of odd positions of `par`, counted through `isOdd` -/
theorem oddCount_range (par : List Bool) :
    oddCount par (List.range par.length) = (par.filter id).length := by
  unfold oddCount
  induction par with
  | nil => rfl
  | cons b par ih =>
    rw [List.length_cons, List.range_succ_eq_map, List.filter_cons, List.filter_map]
    have h0 : isOdd (b :: par) 0 = b := rfl
    have hs : (isOdd (b :: par) ∘ Nat.succ) = isOdd par := by
      funext i; simp [isOdd]
    rw [h0, hs, List.filter_cons]
    cases b <;> simp [ih]

/-! ### permutations of `range n`, composition -/

/-- composition of axis permutations: `transpose(transpose(x, p), q) = transpose(x, compose p q)` -/
def compose (p q : List Nat) : List Nat := permuted p q

theorem getElem?_permuted {α : Type} (l : List α) (p : List Nat) (hp : ∀ i ∈ p, i < l.length)
    (j : Nat) : (permuted l p)[j]? = p[j]?.bind (fun i => l[i]?) := by
  unfold permuted
  induction p generalizing j with
  | nil => simp
  | cons i p ih =>
    have hi : i < l.length := hp i (by simp)
    have ih' := ih (fun x hx => hp x (List.mem_cons_of_mem _ hx))
    rw [List.filterMap_cons, List.getElem?_eq_getElem hi]
    cases j with
    | zero => simp [List.getElem?_eq_getElem hi]
    | succ j => simpa using ih' j

/-- `permuted (permuted l p) q = permuted l (compose p q)` whenever `p` only mentions valid
    positions of `l` -/
theorem permuted_permuted {α : Type} (l : List α) (p q : List Nat)
    (hp : ∀ i ∈ p, i < l.length) :
    permuted (permuted l p) q = permuted l (compose p q) := by
  unfold compose
  show q.filterMap (fun j => (permuted l p)[j]?) = (q.filterMap (fun j => p[j]?)).filterMap _
  rw [List.filterMap_filterMap]
  congr 1
  funext j
  rw [getElem?_permuted l p hp j]

theorem permuted_range {α : Type} (l : List α) : permuted l (List.range l.length) = l := by
  unfold permuted
  apply List.ext_getElem?
  intro j
  induction l generalizing j with
  | nil => simp
  | cons a l ih =>
    rw [List.length_cons, List.range_succ_eq_map, List.filterMap_cons]
    simp only [List.getElem?_cons_zero, List.filterMap_map]
    cases j with
    | zero => rfl
    | succ j =>
      simp only [List.getElem?_cons_succ]
      have : ((fun p => (a :: l)[p]?) ∘ Nat.succ) = fun p => l[p]? := by funext p; simp
      rw [this]; exact ih j

theorem perm_range_mem_lt {p : List Nat} {n : Nat} (hp : p.Perm (List.range n)) :
    ∀ i ∈ p, i < n := fun _ hi => List.mem_range.1 (hp.mem_iff.1 hi)

theorem compose_perm {p q : List Nat} {n : Nat} (hp : p.Perm (List.range n))
    (hq : q.Perm (List.range n)) : (compose p q).Perm (List.range n) := by
  unfold compose permuted
  have h1 : (q.filterMap (fun j => p[j]?)).Perm ((List.range n).filterMap (fun j => p[j]?)) :=
    hq.filterMap _
  have h2 : (List.range n).filterMap (fun j => p[j]?) = p := by
    have := permuted_range p
    rw [hp.length_eq, List.length_range] at this
    exact this
  rw [h2] at h1
  exact h1.trans hp

/-- `Arr.isPerm` (the guard of every transposition) says exactly "a permutation of `range n`" -/
theorem perm_of_isPerm {axes : List Nat} {n : Nat} (h : Arr.isPerm axes n = true) :
    axes.Perm (List.range n) := by
  unfold Arr.isPerm at h
  simp only [Bool.and_eq_true, beq_iff_eq, List.all_eq_true, List.mem_range,
    List.contains_eq_mem, decide_eq_true_eq] at h
  obtain ⟨hlen, hall⟩ := h
  have hsub : List.range n ⊆ axes := fun i hi => hall i (List.mem_range.1 hi)
  have hsp : (List.range n).Subperm axes := List.subperm_of_subset List.nodup_range hsub
  exact (hsp.perm_of_length_le (by simp [hlen])).symm

theorem isPerm_of_perm {axes : List Nat} {n : Nat} (h : axes.Perm (List.range n)) :
    Arr.isPerm axes n = true := by
  unfold Arr.isPerm
  simp only [Bool.and_eq_true, beq_iff_eq, List.all_eq_true, List.mem_range,
    List.contains_eq_mem, decide_eq_true_eq]
  exact ⟨by simpa using h.length_eq, fun i hi => h.mem_iff.2 (List.mem_range.2 hi)⟩

/-! ### sign laws for the Koszul sign -/

/-- the identity permutation has sign `+1` (for every parity list, no hypothesis) -/
theorem koszul_id' (par : List Bool) (n : Nat) : koszul par (some (List.range n)) = 1 := by
  rw [koszul_eq_sgn_invR par _ n (List.Perm.refl _),
    invR_gtR_sorted _ (List.Pairwise.filter _ List.pairwise_lt_range)]
  rfl

/-- S2a: exchanging two adjacent blocks costs `(-1)^(#odd A · #odd B)` -/
theorem koszul_block_move (par : List Bool) (xs A B ys : List Nat) (n : Nat)
    (h : (xs ++ A ++ B ++ ys).Perm (List.range n)) :
    koszul par (some (xs ++ B ++ A ++ ys))
      = koszul par (some (xs ++ A ++ B ++ ys)) * sgn (oddCount par A * oddCount par B) := by
  have hnd : (xs ++ A ++ B ++ ys).Nodup := h.nodup_iff.2 List.nodup_range
  have hp' : (xs ++ B ++ A ++ ys).Perm (xs ++ A ++ B ++ ys) := by
    simp only [List.append_assoc]
    apply List.Perm.append_left
    rw [← List.append_assoc, ← List.append_assoc]
    exact List.Perm.append_right _ List.perm_append_comm
  have hdisj : ∀ a ∈ A, ∀ b ∈ B, a ≠ b := by
    have h1 : (A ++ B).Nodup := by
      have : ((xs ++ (A ++ B)) ++ ys).Nodup := by simpa [List.append_assoc] using hnd
      exact (List.nodup_append.1 (List.nodup_append.1 this).1).2.1
    intro a ha b hb
    exact (List.nodup_append.1 h1).2.2 a ha b hb
  rw [koszul_eq_sgn_invR par _ n h, koszul_eq_sgn_invR par _ n (hp'.trans h)]
  simp only [List.filter_append]
  have e1 := invR_block_swap gtR (xs.filter (isOdd par)) (A.filter (isOdd par))
    (B.filter (isOdd par)) (ys.filter (isOdd par))
  have e2 := crossR_add_swap gtR (A.filter (isOdd par)) (B.filter (isOdd par))
    (gtR_ex_of_disjoint hdisj _)
  unfold oddCount
  apply sgn_of_eq (c := crossR gtR (A.filter (isOdd par)) (B.filter (isOdd par)))
  generalize (List.filter (isOdd par) A).length * (List.filter (isOdd par) B).length = N at *
  omega

/-- S2b: reversing a block with `k` odd entries costs `(-1)^(k(k-1)/2)` -/
theorem koszul_reverse_block (par : List Bool) (xs A ys : List Nat) (n : Nat)
    (h : (xs ++ A ++ ys).Perm (List.range n)) :
    koszul par (some (xs ++ A.reverse ++ ys))
      = koszul par (some (xs ++ A ++ ys)) * sgn (oddCount par A * (oddCount par A - 1) / 2) := by
  have hnd : (xs ++ A ++ ys).Nodup := h.nodup_iff.2 List.nodup_range
  have hA : A.Nodup := (List.nodup_append.1 (List.nodup_append.1 hnd).1).2.1
  have hp' : (xs ++ A.reverse ++ ys).Perm (xs ++ A ++ ys) :=
    List.Perm.append_right _ (List.Perm.append_left _ (List.reverse_perm A))
  rw [koszul_eq_sgn_invR par _ n h, koszul_eq_sgn_invR par _ n (hp'.trans h), ← tri_eq]
  simp only [List.filter_append, List.filter_reverse]
  have e1 := invR_block_perm gtR (xs.filter (isOdd par)) (ys.filter (isOdd par))
    (List.reverse_perm (A.filter (isOdd par))).symm
  have e2 := invR_add_reverse gtR (A.filter (isOdd par)) (gtR_ex_of_nodup hA _)
  unfold oddCount
  apply sgn_of_eq (c := invR gtR (A.filter (isOdd par)))
  omega

/-- swapping two adjacent entries of the permutation flips the sign exactly when both are odd -/
theorem koszul_swap_adjacent' (par : List Bool) (xs : List Nat) (a b : Nat) (ys : List Nat) (n : Nat)
    (h : (xs ++ a :: b :: ys).Perm (List.range n)) :
    koszul par (some (xs ++ b :: a :: ys))
      = koszul par (some (xs ++ a :: b :: ys)) * (if isOdd par a && isOdd par b then -1 else 1) := by
  have e : ∀ (u v : Nat), xs ++ u :: v :: ys = xs ++ [u] ++ [v] ++ ys := by intro u v; simp
  rw [e a b] at h ⊢
  rw [e b a, koszul_block_move par xs [a] [b] ys n h]
  congr 1
  unfold oddCount
  cases h1 : isOdd par a <;> cases h2 : isOdd par b <;> simp [h1, h2, sgn]

/-- the `perm = None` shortcut `(sum // 2) % 2` is the general loop on the full reversal -/
theorem koszul_none_eq_reverse' (par : List Bool) :
    koszul par none = koszul par (some (List.range par.length).reverse) := by
  rw [koszul_none, koszul_eq_sgn_invR par _ par.length (List.reverse_perm _), List.filter_reverse,
    ← oddCount_range, ← sgn_tri]
  have hnd : ((List.range par.length).filter (isOdd par)).Pairwise (· < ·) :=
    List.Pairwise.filter _ List.pairwise_lt_range
  have e0 := invR_gtR_sorted _ hnd
  have e2 := invR_add_reverse gtR ((List.range par.length).filter (isOdd par))
    (gtR_ex_of_nodup List.nodup_range _)
  unfold oddCount
  rw [← e2, e0, Nat.zero_add]

/-- `isOdd` of a permuted parity list -/
theorem isOdd_permuted (par : List Bool) (p : List Nat) (hp : ∀ i ∈ p, i < par.length)
    (a : Nat) (ha : a < p.length) : isOdd (permuted par p) a = isOdd par p[a] := by
  unfold isOdd
  rw [List.getD_eq_getElem?_getD, List.getD_eq_getElem?_getD, getElem?_permuted par p hp a,
    List.getElem?_eq_getElem ha]
  rfl

/-- S1: the Koszul sign is a cocycle for composition of axis permutations -/
theorem koszul_cocycle' (par : List Bool) (p q : List Nat) (n : Nat) (hpar : par.length = n)
    (hp : p.Perm (List.range n)) (hq : q.Perm (List.range n)) :
    koszul par (some (compose p q))
      = koszul par (some p) * koszul (permuted par p) (some q) := by
  have hplen : p.length = n := by simpa using hp.length_eq
  have hplt : ∀ i ∈ p, i < par.length := by rw [hpar]; exact perm_range_mem_lt hp
  have key : ∀ q', AdjReach (List.range n) q' →
      koszul par (some (compose p q'))
        = koszul par (some p) * koszul (permuted par p) (some q') := by
    intro q' hr
    induction hr with
    | refl =>
      have : compose p (List.range n) = p := by
        unfold compose; rw [← hplen]; exact permuted_range p
      rw [this, koszul_id', Int.mul_one]
    | @step xs a b ys hprev ih =>
      have hq' : (xs ++ a :: b :: ys).Perm (List.range n) := hprev.perm.symm
      have ha : a < p.length := by
        rw [hplen]; exact perm_range_mem_lt hq' a (by simp)
      have hb : b < p.length := by
        rw [hplen]; exact perm_range_mem_lt hq' b (by simp)
      have hc : ∀ (u v : Nat) (hu : u < p.length) (hv : v < p.length),
          compose p (xs ++ u :: v :: ys) = compose p xs ++ p[u] :: p[v] :: compose p ys := by
        intro u v hu hv
        unfold compose permuted
        rw [List.filterMap_append, List.filterMap_cons, List.filterMap_cons,
          List.getElem?_eq_getElem hu, List.getElem?_eq_getElem hv]
      have hcp := compose_perm hp hq'
      rw [hc a b ha hb] at hcp ih
      rw [hc b a hb ha, koszul_swap_adjacent' par _ _ _ _ n hcp,
        koszul_swap_adjacent' (permuted par p) _ _ _ _ n hq', ih,
        isOdd_permuted par p hplt a ha, isOdd_permuted par p hplt b hb, Int.mul_assoc]
  exact key q (AdjReach.of_perm hq.symm)

/-! ### association lists (`alookup / ainsert / aerase / adict`) as sign tables -/

section Assoc
variable {κ : Type} [BEq κ] [LawfulBEq κ]

/-- the pending sign a table gives to a key (`phases.get(sector, 1)`) -/
def pget (ph : List (κ × Int)) (k : κ) : Int := (alookup ph k).getD 1

/-- a table is a dict: its keys are distinct -/
def KeysNodup {β : Type} (ph : List (κ × β)) : Prop := (ph.map (·.1)).Nodup

omit [LawfulBEq κ] in
theorem alookup_cons {β : Type} (k1 : κ) (v1 : β) (rest : List (κ × β)) (k' : κ) :
    alookup ((k1, v1) :: rest) k' = if k1 == k' then some v1 else alookup rest k' := rfl

omit [LawfulBEq κ] in
theorem ainsert_cons {β : Type} (k1 : κ) (v1 : β) (rest : List (κ × β)) (k : κ) (v : β) :
    ainsert ((k1, v1) :: rest) k v
      = if k1 == k then (k1, v) :: rest else (k1, v1) :: ainsert rest k v := rfl

omit [LawfulBEq κ] in
theorem aerase_cons {β : Type} (k1 : κ) (v1 : β) (rest : List (κ × β)) (k : κ) :
    aerase ((k1, v1) :: rest) k = if k1 == k then rest else (k1, v1) :: aerase rest k := rfl

theorem beq_false_of_left {a b c : κ} (h1 : (a == b) = false) (h2 : (a == c) = true) :
    (b == c) = false := by
  have e : a = c := eq_of_beq h2
  subst e
  cases h : b == a
  · rfl
  · rw [eq_of_beq h] at h1; simp at h1

theorem alookup_ainsert {β : Type} (l : List (κ × β)) (k k' : κ) (v : β) :
    alookup (ainsert l k v) k' = if k == k' then some v else alookup l k' := by
  induction l with
  | nil => simp [ainsert, alookup]
  | cons kv rest ih =>
    obtain ⟨k1, v1⟩ := kv
    rw [ainsert_cons]
    cases h1 : k1 == k
    · simp only [Bool.false_eq_true, if_false, alookup_cons, ih]
      cases h2 : k1 == k'
      · simp
      · simp [beq_false_of_left h1 h2]
    · have e : k1 = k := eq_of_beq h1
      subst e
      simp only [if_true, alookup_cons]
      cases h2 : k1 == k' <;> simp

theorem alookup_eq_none_of_not_mem {β : Type} (l : List (κ × β)) (k : κ)
    (h : k ∉ l.map (·.1)) : alookup l k = none := by
  induction l with
  | nil => rfl
  | cons kv rest ih =>
    obtain ⟨k1, v1⟩ := kv
    simp only [List.map_cons, List.mem_cons, not_or] at h
    have : (k1 == k) = false := by
      cases h' : k1 == k
      · rfl
      · exact absurd (eq_of_beq h').symm h.1
    simp [alookup_cons, this, ih h.2]

omit [BEq κ] [LawfulBEq κ] in
theorem keysNodup_cons {β : Type} (k1 : κ) (v1 : β) (rest : List (κ × β)) :
    KeysNodup ((k1, v1) :: rest) ↔ (k1 ∉ rest.map (·.1)) ∧ KeysNodup rest := by
  unfold KeysNodup; rw [List.map_cons, List.nodup_cons]

theorem alookup_aerase {β : Type} (l : List (κ × β)) (hnd : KeysNodup l) (k k' : κ) :
    alookup (aerase l k) k' = if k == k' then none else alookup l k' := by
  induction l with
  | nil => simp [aerase, alookup]
  | cons kv rest ih =>
    obtain ⟨k1, v1⟩ := kv
    have hnd' := (keysNodup_cons k1 v1 rest).1 hnd
    rw [aerase_cons]
    cases h1 : k1 == k
    · simp only [Bool.false_eq_true, if_false, alookup_cons, ih hnd'.2]
      cases h2 : k1 == k'
      · simp
      · simp [beq_false_of_left h1 h2]
    · have e : k1 = k := eq_of_beq h1
      subst e
      simp only [if_true, alookup_cons]
      cases h2 : k1 == k'
      · simp
      · have e : k1 = k' := eq_of_beq h2
        subst e
        simp [alookup_eq_none_of_not_mem rest k1 hnd'.1]

theorem mem_keys_ainsert {β : Type} (l : List (κ × β)) (k : κ) (v : β) (x : κ) :
    x ∈ (ainsert l k v).map (·.1) ↔ x = k ∨ x ∈ l.map (·.1) := by
  induction l with
  | nil => simp [ainsert]
  | cons kv rest ih =>
    obtain ⟨k1, v1⟩ := kv
    rw [ainsert_cons]
    cases h1 : k1 == k
    · simp only [Bool.false_eq_true, if_false, List.map_cons, List.mem_cons, ih]
      constructor
      · rintro (h | h | h)
        · exact Or.inr (Or.inl h)
        · exact Or.inl h
        · exact Or.inr (Or.inr h)
      · rintro (h | h | h)
        · exact Or.inr (Or.inl h)
        · exact Or.inl h
        · exact Or.inr (Or.inr h)
    · have e : k1 = k := eq_of_beq h1
      subst e
      simp only [if_true, List.map_cons, List.mem_cons]
      constructor
      · rintro (h | h)
        · exact Or.inl h
        · exact Or.inr (Or.inr h)
      · rintro (h | h | h)
        · exact Or.inl h
        · exact Or.inl h
        · exact Or.inr h

theorem keysNodup_ainsert {β : Type} (l : List (κ × β)) (hnd : KeysNodup l) (k : κ) (v : β) :
    KeysNodup (ainsert l k v) := by
  induction l with
  | nil => simp [ainsert, KeysNodup]
  | cons kv rest ih =>
    obtain ⟨k1, v1⟩ := kv
    have hnd' := (keysNodup_cons k1 v1 rest).1 hnd
    rw [ainsert_cons]
    cases h1 : k1 == k
    · simp only [Bool.false_eq_true, if_false]
      rw [keysNodup_cons]
      refine ⟨?_, ih hnd'.2⟩
      rw [mem_keys_ainsert]
      rintro (h | h)
      · rw [h] at h1; simp at h1
      · exact hnd'.1 h
    · simp only [if_true]
      exact (keysNodup_cons k1 v rest).2 hnd'

omit [LawfulBEq κ] in
theorem mem_keys_aerase {β : Type} (l : List (κ × β)) (k : κ) (x : κ)
    (h : x ∈ (aerase l k).map (·.1)) : x ∈ l.map (·.1) := by
  induction l with
  | nil => exact h
  | cons kv rest ih =>
    obtain ⟨k1, v1⟩ := kv
    rw [aerase_cons] at h
    cases h1 : k1 == k
    · simp only [h1, Bool.false_eq_true, if_false, List.map_cons, List.mem_cons] at h ⊢
      rcases h with h | h
      · exact Or.inl h
      · exact Or.inr (ih h)
    · simp only [h1, if_true] at h
      exact List.mem_cons_of_mem _ h

omit [LawfulBEq κ] in
theorem keysNodup_aerase {β : Type} (l : List (κ × β)) (hnd : KeysNodup l) (k : κ) :
    KeysNodup (aerase l k) := by
  induction l with
  | nil => exact hnd
  | cons kv rest ih =>
    obtain ⟨k1, v1⟩ := kv
    have hnd' := (keysNodup_cons k1 v1 rest).1 hnd
    rw [aerase_cons]
    cases h1 : k1 == k
    · simp only [Bool.false_eq_true, if_false]
      rw [keysNodup_cons]
      exact ⟨fun h => hnd'.1 (mem_keys_aerase rest k k1 h), ih hnd'.2⟩
    · simp only [if_true]
      exact hnd'.2

theorem pget_ainsert (ph : List (κ × Int)) (k k' : κ) (v : Int) :
    pget (ainsert ph k v) k' = if k == k' then v else pget ph k' := by
  unfold pget; rw [alookup_ainsert]; split <;> rfl

theorem pget_aerase (ph : List (κ × Int)) (hnd : KeysNodup ph) (k k' : κ) :
    pget (aerase ph k) k' = if k == k' then 1 else pget ph k' := by
  unfold pget; rw [alookup_aerase ph hnd]; split <;> rfl

/-- folding a per-key update over distinct keys updates each listed key exactly once -/
theorem foldl_pget (step : List (κ × Int) → κ → List (κ × Int)) (g : κ → Int → Int)
    (hstep : ∀ ph k, KeysNodup ph → KeysNodup (step ph k) ∧
      ∀ k', pget (step ph k) k' = if k == k' then g k (pget ph k) else pget ph k')
    (ks : List κ) (hnd : ks.Nodup) (ph : List (κ × Int)) (hph : KeysNodup ph) :
    KeysNodup (ks.foldl step ph) ∧
      ∀ k', pget (ks.foldl step ph) k' = if k' ∈ ks then g k' (pget ph k') else pget ph k' := by
  induction ks generalizing ph with
  | nil => exact ⟨hph, fun k' => by simp⟩
  | cons k ks ih =>
    rw [List.nodup_cons] at hnd
    obtain ⟨h1, h2⟩ := hstep ph k hph
    obtain ⟨i1, i2⟩ := ih hnd.2 (step ph k) h1
    refine ⟨i1, fun k' => ?_⟩
    rw [List.foldl_cons, i2 k', h2 k']
    by_cases hm : k' ∈ ks
    · have hne : (k == k') = false := by
        cases h : k == k'
        · rfl
        · exact absurd (eq_of_beq h ▸ hm) hnd.1
      simp [hm, hne]
    · by_cases he : (k == k') = true
      · have e : k = k' := eq_of_beq he
        subst e
        simp [hm]
      · have hne : ¬ k' = k := fun e => he (by simp [e])
        simp [hm, he, hne]

/-- `dict(pairs)` when every value is `-1`: a key gets `-1` iff it occurs -/
theorem pget_adict_neg (ps : List (κ × Int)) (hv : ∀ p ∈ ps, p.2 = -1) (k : κ) :
    pget (adict ps) k = if k ∈ ps.map (·.1) then -1 else 1 := by
  have key : ∀ (acc : List (κ × Int)),
      pget (ps.foldl (fun acc p => ainsert acc p.1 p.2) acc) k
        = if k ∈ ps.map (·.1) then -1 else pget acc k := by
    induction ps with
    | nil => intro acc; simp
    | cons p ps ih =>
      intro acc
      have hp := hv p (by simp)
      rw [List.foldl_cons, ih (fun q hq => hv q (List.mem_cons_of_mem _ hq)), pget_ainsert, hp]
      by_cases hm : k ∈ ps.map (·.1)
      · simp [hm]
      · by_cases he : (p.1 == k) = true
        · have e : p.1 = k := eq_of_beq he
          simp [e]
        · have hne : ¬ k = p.1 := fun e => he (by simp [e])
          simp only [hm, he, List.map_cons, List.mem_cons, hne, or_self, if_false]
          rfl
  have := key []
  unfold adict
  rw [this]
  rfl

/-- `dict(pairs)` of pairs with distinct keys looks up like the pair list itself -/
theorem alookup_adict_of_nodup {β : Type} (ps : List (κ × β)) (h : KeysNodup ps) (k : κ) :
    alookup (adict ps) k = alookup ps k := by
  have key : ∀ (acc : List (κ × β)),
      alookup (ps.foldl (fun acc p => ainsert acc p.1 p.2) acc) k
        = match alookup ps k with
          | some v => some v
          | none => alookup acc k := by
    induction ps with
    | nil => intro acc; rfl
    | cons p ps ih =>
      obtain ⟨k1, v1⟩ := p
      intro acc
      have h' := (keysNodup_cons k1 v1 ps).1 h
      rw [List.foldl_cons, ih h'.2, alookup_ainsert, alookup_cons]
      cases h1 : k1 == k
      · simp
      · have e : k1 = k := eq_of_beq h1
        subst e
        simp [alookup_eq_none_of_not_mem ps k1 h'.1]
  have := key []
  unfold adict
  rw [this]
  cases alookup ps k <;> rfl

/-- re-keying a table through a map that is injective on the keys involved -/
theorem alookup_map_key {β β' : Type} (l : List (κ × β)) (f : κ → κ) (g : β → β') (k : κ)
    (hinj : ∀ k' ∈ l.map (·.1), f k' = f k → k' = k) :
    alookup (l.map (fun p => (f p.1, g p.2))) (f k) = (alookup l k).map g := by
  induction l with
  | nil => rfl
  | cons p l ih =>
    obtain ⟨k1, v1⟩ := p
    have ih' := ih (fun k' hk' => hinj k' (List.mem_cons_of_mem _ hk'))
    rw [List.map_cons, alookup_cons, alookup_cons, ih']
    cases h1 : k1 == k
    · have : (f k1 == f k) = false := by
        cases h2 : f k1 == f k
        · rfl
        · have := hinj k1 (by simp) (eq_of_beq h2)
          rw [this] at h1; simp at h1
      simp [this]
    · have e : k1 = k := eq_of_beq h1
      subst e
      simp

theorem nodup_of_allDistinct (l : List κ) (h : allDistinct l = true) : l.Nodup := by
  induction l with
  | nil => exact List.nodup_nil
  | cons a as ih =>
    simp only [allDistinct, Bool.and_eq_true, Bool.not_eq_true', List.contains_eq_mem,
      decide_eq_false_iff_not] at h
    exact List.nodup_cons.2 ⟨h.1, ih h.2⟩

end Assoc

/-- `permuted · axes` is injective on lists of the right length -/
theorem permuted_injective {α : Type} (s s' : List α) (axes : List Nat) (n : Nat)
    (hax : axes.Perm (List.range n)) (hs : s.length = n) (hs' : s'.length = n)
    (h : permuted s axes = permuted s' axes) : s = s' := by
  apply List.ext_getElem?
  intro i
  by_cases hi : i < n
  · have hmem : i ∈ axes := hax.mem_iff.2 (List.mem_range.2 hi)
    obtain ⟨j, hj⟩ := List.mem_iff_getElem?.1 hmem
    have e1 := getElem?_permuted s axes (by rw [hs]; exact perm_range_mem_lt hax) j
    have e2 := getElem?_permuted s' axes (by rw [hs']; exact perm_range_mem_lt hax) j
    rw [hj] at e1 e2
    simp only [Option.bind_some] at e1 e2
    rw [← e1, ← e2, h]
  · rw [List.getElem?_eq_none (by omega), List.getElem?_eq_none (by omega)]

/-! ### the dense `transpose` kernel moves entries (`Blk.transposeK`, `Blk.ofFn`, `Blk.get`) -/

theorem length_flatMap_uniform {α : Type} (g : Nat → List α) (L : Nat) (hL : ∀ j, (g j).length = L)
    (d : Nat) : ((List.range d).flatMap g).length = d * L := by
  induction d with
  | zero => simp
  | succ d ih =>
    rw [List.range_succ, List.flatMap_append, List.length_append, ih, Nat.succ_mul]
    simp [hL]

theorem getElem?_flatMap_uniform {α : Type} (g : Nat → List α) (L : Nat)
    (hL : ∀ j, (g j).length = L) (d j r : Nat) (hj : j < d) (hr : r < L) :
    ((List.range d).flatMap g)[j * L + r]? = (g j)[r]? := by
  induction d with
  | zero => omega
  | succ d ih =>
    rw [List.range_succ, List.flatMap_append]
    have hlen := length_flatMap_uniform g L hL d
    by_cases hjd : j < d
    · have : j * L + r < ((List.range d).flatMap g).length := by
        rw [hlen]
        have : (j + 1) * L ≤ d * L := Nat.mul_le_mul_right L hjd
        rw [Nat.succ_mul] at this
        omega
      rw [List.getElem?_append_left this, ih hjd]
    · have e : j = d := by omega
      subst e
      rw [List.getElem?_append_right (by rw [hlen]; omega), hlen]
      simp

theorem length_allIdx (s : List Nat) : (allIdx s).length = prod s := by
  induction s with
  | nil => rfl
  | cons d ds ih =>
    rw [allIdx, length_flatMap_uniform _ (prod ds) (fun j => by simp [ih])]
    rfl

theorem ravel_lt (s i : List Nat) (h : inBox s i = true) : ravel s i < prod s := by
  induction s generalizing i with
  | nil => cases i <;> simp [ravel, prod]
  | cons d ds ih =>
    cases i with
    | nil => simp [inBox] at h
    | cons i0 is =>
      simp only [inBox, Bool.and_eq_true, decide_eq_true_eq] at h
      have := ih is h.2
      simp only [ravel, prod]
      have h2 : (i0 + 1) * prod ds ≤ d * prod ds := Nat.mul_le_mul_right _ h.1
      rw [Nat.succ_mul] at h2
      omega

theorem allIdx_getElem? (s i : List Nat) (h : inBox s i = true) :
    (allIdx s)[ravel s i]? = some i := by
  induction s generalizing i with
  | nil =>
    cases i with
    | nil => rfl
    | cons _ _ => simp [inBox] at h
  | cons d ds ih =>
    cases i with
    | nil => simp [inBox] at h
    | cons i0 is =>
      simp only [inBox, Bool.and_eq_true, decide_eq_true_eq] at h
      rw [allIdx, ravel, getElem?_flatMap_uniform _ (prod ds)
        (fun j => by simp [length_allIdx]) d i0 _ h.1 (ravel_lt ds is h.2)]
      rw [List.getElem?_map, ih is h.2]
      rfl

theorem ofFn_get {R : Type} [Zero R] (s : List Nat) (f : List Nat → R) (i : List Nat)
    (h : inBox s i = true) : (Blk.ofFn s f).get i = f i := by
  unfold Blk.get Blk.ofFn
  simp only [Array.getD_eq_getD_getElem?, List.getElem?_toArray, List.getElem?_map,
    allIdx_getElem? s i h]
  rfl

theorem inBox_iff (s i : List Nat) :
    inBox s i = true ↔ s.length = i.length ∧ ∀ k, k < s.length → i.getD k 0 < s.getD k 0 := by
  induction s generalizing i with
  | nil =>
    cases i with
    | nil => simp [inBox]
    | cons _ _ => simp [inBox]
  | cons d ds ih =>
    cases i with
    | nil => simp [inBox]
    | cons i0 is =>
      simp only [inBox, Bool.and_eq_true, decide_eq_true_eq, ih, List.length_cons]
      constructor
      · rintro ⟨h0, hl, hk⟩
        refine ⟨by omega, fun k hk' => ?_⟩
        cases k with
        | zero => simpa using h0
        | succ k => simpa using hk k (by omega)
      · rintro ⟨hl, hk⟩
        refine ⟨by simpa using hk 0 (by omega), by omega, fun k hk' => ?_⟩
        simpa using hk (k + 1) (by omega)

theorem length_permuted {α : Type} (l : List α) (p : List Nat) (hp : ∀ i ∈ p, i < l.length) :
    (permuted l p).length = p.length := by
  unfold permuted
  induction p with
  | nil => rfl
  | cons i p ih =>
    rw [List.filterMap_cons, List.getElem?_eq_getElem (hp i (by simp))]
    simp [ih (fun x hx => hp x (List.mem_cons_of_mem _ hx))]

theorem getD_permuted (l : List Nat) (p : List Nat) (hp : ∀ i ∈ p, i < l.length) (k : Nat)
    (hk : k < p.length) : (permuted l p).getD k 0 = l.getD p[k] 0 := by
  rw [List.getD_eq_getElem?_getD, List.getD_eq_getElem?_getD, getElem?_permuted l p hp k,
    List.getElem?_eq_getElem hk]
  rfl

theorem inBox_permuted (s i p : List Nat) (n : Nat) (hp : p.Perm (List.range n))
    (hs : s.length = n) (h : inBox s i = true) : inBox (permuted s p) (permuted i p) = true := by
  rw [inBox_iff] at h ⊢
  have hps : ∀ x ∈ p, x < s.length := by rw [hs]; exact perm_range_mem_lt hp
  have hpi : ∀ x ∈ p, x < i.length := by rw [← h.1]; exact hps
  refine ⟨by rw [length_permuted s p hps, length_permuted i p hpi], fun k hk => ?_⟩
  rw [length_permuted s p hps] at hk
  rw [getD_permuted i p hpi k hk, getD_permuted s p hps k hk]
  exact h.2 _ (hps _ (List.getElem_mem hk))

theorem indexOf?_of_mem (l : List Nat) (x : Nat) (h : x ∈ l) :
    ∃ k, indexOf? l x = some k ∧ l[k]? = some x := by
  induction l with
  | nil => simp at h
  | cons y l ih =>
    unfold indexOf?
    by_cases hy : y = x
    · exact ⟨0, by simp [hy], by simp [hy]⟩
    · have hx : x ∈ l := by
        rcases List.mem_cons.1 h with h | h
        · exact absurd h.symm hy
        · exact h
      obtain ⟨k, h1, h2⟩ := ih hx
      have : (y == x) = false := by simpa using hy
      exact ⟨k + 1, by simp [this, h1], by simpa using h2⟩

/-- numpy's `transpose` kernel: the entry at `off` is found at the permuted multi-index -/
theorem transposeK_get {R : Type} [Zero R] (b : Blk R) (p : List Nat) (n : Nat)
    (hp : p.Perm (List.range n)) (hs : b.shape.length = n) (off : List Nat)
    (h : inBox b.shape off = true) :
    (b.transposeK p).get (permuted off p) = b.get off := by
  unfold Blk.transposeK
  rw [ofFn_get _ _ _ (inBox_permuted b.shape off p n hp hs h)]
  congr 1
  have hlen : off.length = n := by rw [← hs]; exact ((inBox_iff _ _).1 h).1.symm
  have hpo : ∀ x ∈ p, x < off.length := by rw [hlen]; exact perm_range_mem_lt hp
  apply List.ext_getElem
  · simp [hs, hlen]
  · intro ax h1 h2
    simp only [List.length_map, List.length_range] at h1
    rw [List.getElem_map, List.getElem_range]
    have hmem : ax ∈ p := hp.mem_iff.2 (List.mem_range.2 (by omega))
    obtain ⟨k, hk1, hk2⟩ := indexOf?_of_mem p ax hmem
    have hk : k < p.length := by
      by_contra hc
      rw [List.getElem?_eq_none (by omega)] at hk2; cases hk2
    rw [hk1]
    simp only []
    rw [getD_permuted off p hpo k hk]
    have : p[k] = ax := by
      rw [List.getElem?_eq_getElem hk] at hk2; simpa using hk2
    rw [this, List.getD_eq_getElem?_getD, List.getElem?_eq_getElem h2]
    rfl

/-! ### the lazily tracked sign table of a fermionic array -/

section ArrTable
variable {R : Type}
open Arr

theorem getPhase_eq_pget (a : Arr R) (s : Sector) : a.getPhase s = pget a.phases s := rfl

/-- the sign `phase_flip(*axs)` gives to a sector: `-1` iff an odd number of the listed axes
    carries an odd charge -/
def flipSign (a : Arr R) (axs : List Nat) (s : Sector) : Int :=
  if (axs.filter (fun ax => a.sym.parity (s.getD ax (0, 0)))).length % 2 == 1 then -1 else 1

theorem pget_setPhase (ph : List (Sector × Int)) (hnd : KeysNodup ph) (k k' : Sector) (v : Int) :
    pget (setPhase ph k v) k' = if k == k' then v else pget ph k' := by
  unfold setPhase
  cases hv : v == 1
  · simp only [Bool.false_eq_true, if_false, pget_ainsert]
  · have e : v = 1 := by simpa using hv
    simp only [if_true, pget_aerase ph hnd, e]

theorem keysNodup_setPhase (ph : List (Sector × Int)) (hnd : KeysNodup ph) (k : Sector) (v : Int) :
    KeysNodup (setPhase ph k v) := by
  unfold setPhase
  split
  · exact keysNodup_aerase ph hnd k
  · exact keysNodup_ainsert ph hnd k v


/-- `phase_transpose(axes)` multiplies the pending sign of every stored sector by the Koszul
    sign of its parities; other keys of the table are untouched -/
theorem phaseTranspose_getPhase (a : Arr R) (axes : Option (List Nat))
    (hs : allDistinct a.sectors = true) (hph : allDistinct (a.phases.map (·.1)) = true)
    (s : Sector) :
    (a.phaseTranspose axes).getPhase s
      = if s ∈ a.sectors then a.getPhase s * koszul (a.parities s) axes else a.getPhase s := by
  have h := foldl_pget
    (fun ph k => setPhase ph k ((alookup ph k).getD 1 * koszul (a.parities k) axes))
    (fun k v => v * koszul (a.parities k) axes)
    (fun ph k hnd => ⟨keysNodup_setPhase ph hnd k _, fun k' => pget_setPhase ph hnd k k' _⟩)
    a.sectors (nodup_of_allDistinct _ hs) a.phases (nodup_of_allDistinct _ hph)
  exact h.2 s

/-- `phase_flip(*axs)` -/
theorem phaseFlip_getPhase (a : Arr R) (axs : List Nat)
    (hs : allDistinct a.sectors = true) (hph : allDistinct (a.phases.map (·.1)) = true)
    (s : Sector) :
    (a.phaseFlip axs).getPhase s
      = if s ∈ a.sectors then a.getPhase s * flipSign a axs s else a.getPhase s := by
  unfold phaseFlip
  cases hemp : axs.isEmpty
  · simp only [Bool.false_eq_true, if_false]
    have h := foldl_pget
      (fun ph s =>
        let odd := ((axs.filter (fun ax => a.sym.parity (s.getD ax (0, 0)))).length % 2 == 1)
        if odd then
          let np := - (alookup ph s).getD 1
          if np == 1 then aerase ph s else ainsert ph s np
        else ph)
      (fun k v => v * flipSign a axs k)
      (fun ph k hnd => by
        unfold flipSign
        cases hodd : ((axs.filter (fun ax => a.sym.parity (k.getD ax (0, 0)))).length % 2 == 1)
        · refine ⟨by simpa [hodd] using hnd, fun k' => ?_⟩
          simp only [Bool.false_eq_true, if_false, Int.mul_one]
          split <;> rename_i hk
          · rw [eq_of_beq hk]
          · rfl
        · simp only [if_true]
          cases hnp : (- (alookup ph k).getD 1 == 1)
          · refine ⟨by simpa using keysNodup_ainsert ph hnd k _, fun k' => ?_⟩
            simp only [Bool.false_eq_true, if_false, pget_ainsert]
            split
            · unfold pget; omega
            · rfl
          · refine ⟨by simpa using keysNodup_aerase ph hnd k, fun k' => ?_⟩
            have e : - (alookup ph k).getD 1 = 1 := by simpa using hnp
            simp only [if_true, pget_aerase ph hnd]
            split
            · unfold pget; omega
            · rfl)
      a.sectors (nodup_of_allDistinct _ hs) a.phases (nodup_of_allDistinct _ hph)
    exact h.2 s
  · have e : axs = [] := by simpa using hemp
    subst e
    simp [flipSign]

/-- `phase_global()` -/
theorem phaseGlobal_getPhase (a : Arr R)
    (hs : allDistinct a.sectors = true) (hph : allDistinct (a.phases.map (·.1)) = true)
    (s : Sector) :
    a.phaseGlobal.getPhase s
      = if s ∈ a.sectors then (if a.getPhase s == 1 then -1 else 1) else a.getPhase s := by
  have h := foldl_pget
    (fun ph s =>
      let np := - (alookup ph s).getD 1
      if np == -1 then ainsert (aerase ph s) s (-1) else aerase ph s)
    (fun _ v => if v == 1 then -1 else 1)
    (fun ph k hnd => by
      have hiff : (- (alookup ph k).getD 1 == -1) = (pget ph k == 1) := by
        unfold pget
        by_cases h : (alookup ph k).getD 1 = 1
        · simp [h]
        · have h' : ¬ (- (alookup ph k).getD 1 = -1) := by omega
          simp [h, h']
      simp only [hiff]
      cases hv : pget ph k == 1
      · refine ⟨by simpa using keysNodup_aerase ph hnd k, fun k' => ?_⟩
        simp only [Bool.false_eq_true, if_false, pget_aerase ph hnd]
      · refine ⟨by simpa using keysNodup_ainsert _ (keysNodup_aerase ph hnd k) k _, fun k' => ?_⟩
        simp only [if_true, pget_ainsert, pget_aerase ph hnd]
        split <;> rfl)
    a.sectors (nodup_of_allDistinct _ hs) a.phases (nodup_of_allDistinct _ hph)
  exact h.2 s

/-- `FermionicArray.transpose(axes)` rebuilds the table: the new key `permuted s axes` carries
    the old pending sign times the Koszul sign of `axes` on the sector's parities -/
theorem transposeF_getPhase [Zero R] (a : Arr R) (axes : List Nat)
    (hlen : ∀ s ∈ a.sectors, s.length = a.ndim) (hax : isPerm axes a.ndim = true)
    (s : Sector) (hmem : s ∈ a.sectors) (hpm : a.getPhase s = 1 ∨ a.getPhase s = -1) :
    (a.transposeF axes).getPhase (permuted s axes)
      = a.getPhase s * koszul (a.parities s) (some axes) := by
  have hperm := perm_of_isPerm hax
  let f : Sector → Option (Sector × Int) := fun s =>
    let np := a.getPhase s * koszul (a.parities s) (some axes)
    if np == -1 then some (permuted s axes, (-1 : Int)) else none
  have e0 : (a.transposeF axes).getPhase (permuted s axes)
      = pget (adict (a.sectors.filterMap f)) (permuted s axes) := rfl
  rw [e0, pget_adict_neg]
  · have hk : koszul (a.parities s) (some axes) = 1 ∨ koszul (a.parities s) (some axes) = -1 := by
      unfold koszul; split <;> simp
    have hnp : a.getPhase s * koszul (a.parities s) (some axes) = 1
        ∨ a.getPhase s * koszul (a.parities s) (some axes) = -1 := by
      rcases hpm with h | h <;> rcases hk with h' | h' <;> simp [h, h']
    split <;> rename_i hin
    · -- the key is present: some sector with sign -1 is mapped to it; it must be `s`
      simp only [List.mem_map, List.mem_filterMap] at hin
      obtain ⟨⟨k, v⟩, ⟨s', hs', hf⟩, hkey⟩ := hin
      simp only [f] at hf
      split at hf
      · rename_i hneg
        simp only [Option.some.injEq, Prod.mk.injEq] at hf
        have e : s' = s := by
          apply permuted_injective s' s axes a.ndim hperm (hlen s' hs') (hlen s hmem)
          rw [hf.1]; exact hkey
        subst e
        have hneg' : a.getPhase s' * koszul (a.parities s') (some axes) = -1 := by simpa using hneg
        exact hneg'.symm
      · simp at hf
    · rcases hnp with h | h
      · exact h.symm
      · exfalso
        apply hin
        simp only [List.mem_map, List.mem_filterMap]
        refine ⟨(permuted s axes, -1), ⟨s, hmem, ?_⟩, rfl⟩
        simp [f, h]
  · intro p hp
    simp only [List.mem_filterMap] at hp
    obtain ⟨s', _, hf⟩ := hp
    simp only [f] at hf
    split at hf
    · simp only [Option.some.injEq] at hf; rw [← hf]
    · simp at hf


/-! #### value view: the sign table acts on the stored elements -/

/-- multiply a scalar by a sign `±1` -/
def applySign [Neg R] (σ : Int) (x : R) : R := if σ = -1 then -x else x

/-- the value view `Arr.elem` reads the pending sign through `getPhase` -/
theorem elem_eq_applySign [Zero R] [Neg R] (a : Arr R) (s : Sector) (off : List Nat) :
    a.elem s off = match alookup a.blocks s with
      | none => 0
      | some b => applySign (a.getPhase s) (b.get off) := by
  unfold elem getPhase applySign
  cases alookup a.blocks s with
  | none => rfl
  | some b =>
    cases h : alookup a.phases s with
    | none => simp
    | some v => by_cases hv : v = -1 <;> simp [hv]

theorem alookup_isSome_of_mem {κ β : Type} [BEq κ] [LawfulBEq κ] (l : List (κ × β)) (k : κ)
    (h : k ∈ l.map (·.1)) : ∃ v, alookup l k = some v := by
  induction l with
  | nil => simp at h
  | cons kv rest ih =>
    obtain ⟨k1, v1⟩ := kv
    rw [alookup_cons]
    cases h1 : k1 == k
    · simp only [List.map_cons, List.mem_cons] at h
      rcases h with h | h
      · rw [h] at h1; simp at h1
      · simpa using ih h
    · exact ⟨v1, by simp⟩

/-- if an operation leaves the blocks alone and multiplies the pending sign of a stored sector by
    `σ = ±1`, the stored elements of that sector are multiplied by `σ` -/
theorem elem_of_getPhase_mul [Zero R] [Neg R] (hneg : ∀ x : R, - -x = x) (a a' : Arr R)
    (hb : a'.blocks = a.blocks) (s : Sector) (hmem : s ∈ a.sectors) (σ : Int) (hσ : σ = 1 ∨ σ = -1)
    (hpm : a.getPhase s = 1 ∨ a.getPhase s = -1) (hp : a'.getPhase s = a.getPhase s * σ)
    (off : List Nat) : a'.elem s off = applySign σ (a.elem s off) := by
  rw [elem_eq_applySign, elem_eq_applySign, hb, hp]
  obtain ⟨b, hbk⟩ := alookup_isSome_of_mem a.blocks s hmem
  rw [hbk]
  unfold applySign
  rcases hσ with h | h <;> rcases hpm with h' | h' <;> simp [h, h', hneg]


/-- element-level transposition, given that the dense kernel moves the block entry (`hK`) -/
theorem transposeF_elem_of_kernel [Zero R] [Neg R] (hneg : ∀ x : R, - -x = x) (a : Arr R)
    (axes : List Nat) (hs : allDistinct a.sectors = true)
    (hlen : ∀ s ∈ a.sectors, s.length = a.ndim) (hax : isPerm axes a.ndim = true)
    (s : Sector) (hmem : s ∈ a.sectors) (hpm : a.getPhase s = 1 ∨ a.getPhase s = -1)
    (off : List Nat)
    (hK : ∀ b, alookup a.blocks s = some b →
      (b.transposeK axes).get (permuted off axes) = b.get off) :
    (a.transposeF axes).elem (permuted s axes) (permuted off axes)
      = applySign (koszul (a.parities s) (some axes)) (a.elem s off) := by
  have hperm := perm_of_isPerm hax
  obtain ⟨b, hb⟩ := alookup_isSome_of_mem a.blocks s hmem
  have hinj : ∀ k' ∈ a.blocks.map (·.1), permuted k' axes = permuted s axes → k' = s :=
    fun k' hk' e => permuted_injective k' s axes a.ndim hperm (hlen k' hk') (hlen s hmem) e
  have hmapfun : (fun (x : Sector × Blk R) =>
      match x with | (s, b) => (permuted s axes, b.transposeK axes))
      = fun p => (permuted p.1 axes, p.2.transposeK axes) := by
    funext ⟨s', b'⟩; rfl
  have hblocks : alookup (a.transposeF axes).blocks (permuted s axes) = some (b.transposeK axes) := by
    show alookup (adict (a.blocks.map _)) (permuted s axes) = _
    rw [hmapfun, alookup_adict_of_nodup, alookup_map_key a.blocks (fun k => permuted k axes)
      (fun b => b.transposeK axes) s hinj, hb]
    · rfl
    · have hnd : (a.blocks.map (·.1)).Nodup := nodup_of_allDistinct _ hs
      unfold KeysNodup
      rw [List.map_map]
      have : ((fun x : Sector × Blk R => x.1) ∘ fun p : Sector × Blk R =>
          (permuted p.1 axes, p.2.transposeK axes))
          = (fun k => permuted k axes) ∘ (fun x : Sector × Blk R => x.1) := by
        funext p; rfl
      rw [this, ← List.map_map]
      apply List.Nodup.map_on _ hnd
      intro x hx y hy e
      exact permuted_injective x y axes a.ndim hperm (hlen x hx) (hlen y hy) e
  rw [elem_eq_applySign, elem_eq_applySign, hblocks, hb,
    transposeF_getPhase a axes hlen hax s hmem hpm]
  simp only []
  rw [hK b hb]
  have hk : koszul (a.parities s) (some axes) = 1 ∨ koszul (a.parities s) (some axes) = -1 := by
    unfold koszul; split <;> simp
  unfold applySign
  rcases hk with h | h <;> rcases hpm with h' | h' <;> simp [h, h', hneg]

theorem mem_sectors_of_alookup (a : Arr R) (s : Sector) (b : Blk R)
    (hb : alookup a.blocks s = some b) : s ∈ a.sectors := by
  by_contra hc
  rw [alookup_eq_none_of_not_mem a.blocks s hc] at hb
  cases hb

/-- **Element-level transposition.**  For a stored sector `s` with block `b` and a multi-index
    `off` inside the block, the transposed array holds at the permuted address
    `(permuted s axes, permuted off axes)` the old element times the Koszul sign of `axes`
    restricted to the sector's odd entries (pending signs on either side included). -/
theorem transposeF_elem [Zero R] [Neg R] (hneg : ∀ x : R, - -x = x) (a : Arr R)
    (axes : List Nat) (hs : allDistinct a.sectors = true)
    (hlen : ∀ s ∈ a.sectors, s.length = a.ndim) (hax : isPerm axes a.ndim = true)
    (s : Sector) (b : Blk R) (hb : alookup a.blocks s = some b) (hbs : b.shape.length = a.ndim)
    (hpm : a.getPhase s = 1 ∨ a.getPhase s = -1)
    (off : List Nat) (hoff : inBox b.shape off = true) :
    (a.transposeF axes).elem (permuted s axes) (permuted off axes)
      = applySign (koszul (a.parities s) (some axes)) (a.elem s off) := by
  apply transposeF_elem_of_kernel hneg a axes hs hlen hax s (mem_sectors_of_alookup a s b hb) hpm
  intro b' hb'
  rw [hb] at hb'
  cases hb'
  exact transposeK_get b axes a.ndim (perm_of_isPerm hax) hbs off hoff

end ArrTable

theorem alookup_some_mem {κ β : Type} [BEq κ] [LawfulBEq κ] (l : List (κ × β)) (k : κ) (v : β)
    (h : alookup l k = some v) : (k, v) ∈ l := by
  induction l with
  | nil => cases h
  | cons p l ih =>
    obtain ⟨k1, v1⟩ := p
    rw [alookup_cons] at h
    cases h1 : k1 == k
    · rw [h1] at h; exact List.mem_cons_of_mem _ (ih h)
    · rw [h1] at h
      have e : k1 = k := eq_of_beq h1
      simp only [if_true, Option.some.injEq] at h
      rw [e, h]; exact List.mem_cons_self

/-- the hypotheses of the sign-table theorems are clauses of the validity predicate `Arr.validB`
    (Model/Valid.lean) for fermionic arrays -/
theorem valid_sign_hyps {R : Type} (a : Arr R) (hv : a.validB = true) (hf : a.fermi = true) :
    allDistinct a.sectors = true ∧ allDistinct (a.phases.map (·.1)) = true
      ∧ (∀ s ∈ a.sectors, s.length = a.ndim)
      ∧ (∀ s, a.getPhase s = 1 ∨ a.getPhase s = -1) := by
  unfold Arr.validB at hv
  simp only [hf, if_true, Bool.and_eq_true, List.all_eq_true, beq_iff_eq, Bool.or_eq_true] at hv
  obtain ⟨⟨⟨⟨_, _⟩, hd⟩, hb⟩, ⟨hpk, hpv⟩, _⟩ := hv
  refine ⟨hd, hpk, ?_, ?_⟩
  · intro s hs
    obtain ⟨⟨s', b⟩, hm, rfl⟩ := List.mem_map.1 hs
    exact (hb (s', b) hm).1.1.1
  · intro s
    unfold Arr.getPhase
    cases h : alookup a.phases s with
    | none => exact Or.inl rfl
    | some v =>
      have := hpv (s, v) (alookup_some_mem a.phases s v h)
      exact this.2


end KoszulP
end SymmModel
