/-
  SymmModel.Proofs.NormNet9 — network form of the norm (property C10), part 9:
  two generic tensor-by-tensor steps by S7 (`Assoc2P.tdotF_assoc_tri`).  `p`, `q` are two tensors
  bonded along `xp`/`xq`, `X` is an array carrying the conjugated un-pruned frame of `p·q` (the
  other half of the network):
    `tw_left`  : `(X·p)·q = X·(p·q)`,
    `tw_right` : `p·(q·X) = (p·q)·X`,
  all legs contracted.
-/
import SymmModel.Proofs.NormNet8
namespace SymmModel.NormNet
open SymmModel SymmModel.Lazy SymmModel.Norm SymmModel.TdotP SymmModel.GradedP SymmModel.RoutesP
open SymmModel.AssocP
set_option linter.unusedSectionVars false

section swap
variable {R : Type}

theorem mem_zip_swap {α β : Type} {l : List α} {m : List β} {p : β × α} (h : p ∈ m.zip l) :
    (p.2, p.1) ∈ l.zip m := by
  obtain ⟨i, hi, rfl⟩ := List.mem_iff_getElem.mp h
  simp only [List.length_zip] at hi
  apply List.mem_iff_getElem.mpr
  refine ⟨i, by simp only [List.length_zip]; omega, ?_⟩
  simp

theorem contractibleB_swap {a b : Arr R} {xa xb : List Nat}
    (h : ValidP.contractibleB a b xa xb = true) : ValidP.contractibleB b a xb xa = true := by
  unfold ValidP.contractibleB at h ⊢
  simp only [Bool.and_eq_true, beq_iff_eq, List.all_eq_true] at h ⊢
  refine ⟨h.1.symm, ?_⟩
  intro p hp
  have := h.2 (p.2, p.1) (mem_zip_swap hp)
  refine ⟨this.1.symm, ?_⟩
  have h2 := this.2
  revert h2
  cases (a.indices.getD p.2 default).dual <;> cases (b.indices.getD p.1 default).dual <;> simp

theorem all_left {n : Nat} (ax : List Nat) : ∀ i, i < n → i ∈ freeAxes n ax ++ ax := by
  intro i hi
  by_cases hx : i ∈ ax
  · exact List.mem_append_right _ hx
  · exact List.mem_append_left _ (mem_freeAxes.mpr ⟨hi, hx⟩)

theorem all_right {n : Nat} (ax : List Nat) : ∀ i, i < n → i ∈ ax ++ freeAxes n ax := by
  intro i hi
  by_cases hx : i ∈ ax
  · exact List.mem_append_left _ hx
  · exact List.mem_append_right _ (mem_freeAxes.mpr ⟨hi, hx⟩)

theorem axesAB_all (nA nB : Nat) (xa xb : List Nat) :
    Assoc2P.axesAB nA nB xa (freeAxes nA xa) xb (freeAxes nB xb)
      = List.range ((freeAxes nA xa).length + (freeAxes nB xb).length) := by
  unfold Assoc2P.axesAB
  rw [positions_self _ (freeAxes_nodup nA xa), positions_self _ (freeAxes_nodup nB xb), range_split]

end swap

section tw
variable {R : Type} [AddCommMonoid R] [Mul R] [Neg R] [SignRing R] [AssocLaws R]

/-- the axes of `(X·p)` contracted with `q` in `tw_left`: the images of `X`'s legs that belong to
    `q`'s dangling legs (the first ones), then the images of `p`'s bond legs -/
def axesTW (np nq : Nat) (xp xq : List Nat) : List Nat :=
  Assoc2P.axesAB ((freeAxes np xp).length + (freeAxes nq xq).length) np
    (List.range (freeAxes np xp).length)
    ((List.range (freeAxes nq xq).length).map ((freeAxes np xp).length + ·))
    (freeAxes np xp) xp

/-- the axes of `(q·X)` contracted with `p` in `tw_right`: the images of `q`'s bond legs, then the
    images of `X`'s legs that belong to `p`'s dangling legs -/
def axesTWr (np nq : Nat) (xp xq : List Nat) : List Nat :=
  Assoc2P.axesBC nq ((freeAxes np xp).length + (freeAxes nq xq).length) xq (freeAxes nq xq)
    ((List.range (freeAxes nq xq).length).map ((freeAxes np xp).length + ·))
    (List.range (freeAxes np xp).length)

/-- `(X·p)·q = X·(p·q)` with everything contracted -/
theorem tw_left (p q X PQ r : Arr R) (xp xq : List Nat)
    (hp : p.validB = true) (hq : q.validB = true) (hX : X.validB = true)
    (hfp : p.fermi = true) (hfq : q.fermi = true) (hfX : X.fermi = true)
    (hadm : ValidP.tdotAdmissibleB p q xp xq = true)
    (ePQ : p.tensordotF q (.pair (xp.map Int.ofNat) (xq.map Int.ofNat)) .blockwise = .ok PQ)
    (hXs : X.sym = p.sym)
    (hXi : X.indices = (without p.indices xp ++ without q.indices xq).map Index.conj)
    (hn : PQ.ndim = X.ndim)
    (hL : Assoc2P.LabelRoutes X.parity p.parity X.oddpos p.oddpos q.oddpos)
    (hr : X.tensordotF PQ (allAxes PQ.ndim) .blockwise = .ok r) :
    ∃ AB c, X.tensordotF p (.pair ((List.range (freeAxes p.ndim xp).length).map Int.ofNat)
          ((freeAxes p.ndim xp).map Int.ofNat)) .blockwise = .ok AB
      ∧ AB.tensordotF q (.pair ((axesTW p.ndim q.ndim xp xq).map Int.ofNat)
          ((freeAxes q.ndim xq ++ xq).map Int.ofNat)) .blockwise = .ok c
      ∧ c.indices = r.indices ∧ c.oddpos = r.oddpos ∧ c.elem [] [] = r.elem [] [] := by
  have h := Adm.of hp hq hfp hfq hadm
  have hXn := half_ndim X p q xp xq Index.conj hXi
  obtain ⟨AB, BC, d1, d2, e1, e2, e3, e4, r1, r7, r9⟩ :=
    assoc_scalar X p q (List.range (freeAxes p.ndim xp).length)
      ((List.range (freeAxes q.ndim xq).length).map ((freeAxes p.ndim xp).length + ·))
      (freeAxes p.ndim xp) xp xq (freeAxes q.ndim xq) hX hp hq hfX hfp hfq
      (adm_half_left X p q xp xq Index.conj conj_F hXi hXs) hadm
      (con_half_right X p q xp xq Index.conj conj_F hXi)
      (by rw [range_split]; exact List.nodup_range)
      ((perm_left h.nA h.ltA).nodup_iff.mpr List.nodup_range)
      ((perm_right h.nB h.ltB).nodup_iff.mpr List.nodup_range)
      (by
        intro i hi
        obtain ⟨j, hj, rfl⟩ := List.mem_map.mp hi
        have := List.mem_range.mp hj
        rw [hXn]; omega)
      (fun i hi => mem_freeAxes_lt i hi) hL
      (by rw [range_split, hXn]; exact freeAxes_range_self _)
      (freeAxes_all _ _ (all_left xp)) (freeAxes_all _ _ (all_right xq))
  obtain rfl : BC = PQ := by rw [ePQ] at e3; exact (Except.ok.inj e3).symm
  rw [range_split, axesBC_all, ← hXn, ← hn] at e4
  obtain rfl : d2 = r := by
    rw [show (Arr.tensordotF X BC (.pair ((List.range BC.ndim).map Int.ofNat)
      ((List.range BC.ndim).map Int.ofNat)) .blockwise) = X.tensordotF BC (allAxes BC.ndim) .blockwise
      from rfl, hr] at e4
    exact (Except.ok.inj e4).symm
  refine ⟨AB, d1, e1, ?_, r7.symm, r1.symm, r9.symm⟩
  have : axesTW p.ndim q.ndim xp xq = Assoc2P.axesAB X.ndim p.ndim
      (List.range (freeAxes p.ndim xp).length)
      ((List.range (freeAxes q.ndim xq).length).map ((freeAxes p.ndim xp).length + ·))
      (freeAxes p.ndim xp) xp := by unfold axesTW; rw [hXn]
  rw [this]; exact e2

/-- `p·(q·X) = (p·q)·X` with everything contracted -/
theorem tw_right (p q X PQ r : Arr R) (xp xq : List Nat)
    (hp : p.validB = true) (hq : q.validB = true) (hX : X.validB = true)
    (hfp : p.fermi = true) (hfq : q.fermi = true) (hfX : X.fermi = true)
    (hadm : ValidP.tdotAdmissibleB p q xp xq = true)
    (ePQ : p.tensordotF q (.pair (xp.map Int.ofNat) (xq.map Int.ofNat)) .blockwise = .ok PQ)
    (hXs : X.sym = p.sym)
    (hXi : X.indices = (without p.indices xp ++ without q.indices xq).map Index.conj)
    (hn : PQ.ndim = X.ndim)
    (hL : Assoc2P.LabelRoutes p.parity q.parity p.oddpos q.oddpos X.oddpos)
    (hr : PQ.tensordotF X (allAxes PQ.ndim) .blockwise = .ok r) :
    ∃ BC c, q.tensordotF X (.pair ((freeAxes q.ndim xq).map Int.ofNat)
          (((List.range (freeAxes q.ndim xq).length).map ((freeAxes p.ndim xp).length + ·)).map
            Int.ofNat)) .blockwise = .ok BC
      ∧ p.tensordotF BC (.pair ((xp ++ freeAxes p.ndim xp).map Int.ofNat)
          ((axesTWr p.ndim q.ndim xp xq).map Int.ofNat)) .blockwise = .ok c
      ∧ c.indices = r.indices ∧ c.oddpos = r.oddpos ∧ c.elem [] [] = r.elem [] [] := by
  have h := Adm.of hp hq hfp hfq hadm
  have hXn := half_ndim X p q xp xq Index.conj hXi
  have h2 : ValidP.tdotAdmissibleB q X (freeAxes q.ndim xq)
      ((List.range (freeAxes q.ndim xq).length).map ((freeAxes p.ndim xp).length + ·)) = true := by
    unfold ValidP.tdotAdmissibleB
    simp only [Bool.and_eq_true, decide_eq_true_eq, ValidP.allDistinct_iff, List.all_eq_true]
    refine ⟨⟨⟨⟨⟨by rw [hXs, h.sym], contractibleB_swap
      (con_half_right X p q xp xq Index.conj conj_F hXi)⟩, freeAxes_nodup _ _⟩, ?_⟩,
      fun i hi => mem_freeAxes_lt i hi⟩, ?_⟩
    · exact (List.nodup_range.map (fun a b hab => by omega))
    · intro i hi
      obtain ⟨j, hj, rfl⟩ := List.mem_map.mp hi
      have := List.mem_range.mp hj
      rw [hXn]; omega
  obtain ⟨AB, BC, d1, d2, e1, e2, e3, e4, r1, r7, r9⟩ :=
    assoc_scalar p q X xp (freeAxes p.ndim xp) xq (freeAxes q.ndim xq)
      ((List.range (freeAxes q.ndim xq).length).map ((freeAxes p.ndim xp).length + ·))
      (List.range (freeAxes p.ndim xp).length) hp hq hX hfp hfq hfX hadm h2
      (contractibleB_swap (con_half_left X p q xp xq Index.conj conj_F hXi))
      ((perm_right h.nA h.ltA).nodup_iff.mpr List.nodup_range)
      ((perm_right h.nB h.ltB).nodup_iff.mpr List.nodup_range)
      (by
        have : ((List.range (freeAxes q.ndim xq).length).map ((freeAxes p.ndim xp).length + ·)
            ++ List.range (freeAxes p.ndim xp).length).Perm
            (List.range ((freeAxes p.ndim xp).length + (freeAxes q.ndim xq).length)) := by
          rw [← range_split]; exact List.perm_append_comm
        exact this.nodup_iff.mpr List.nodup_range)
      (fun i hi => mem_freeAxes_lt i hi)
      (by
        intro i hi
        have := List.mem_range.mp hi
        rw [hXn]; omega)
      hL
      (freeAxes_all _ _ (all_right xp)) (freeAxes_all _ _ (all_right xq))
      (by
        apply freeAxes_all
        intro i hi
        rw [hXn] at hi
        by_cases h1 : i < (freeAxes p.ndim xp).length
        · exact List.mem_append_right _ (List.mem_range.mpr h1)
        · refine List.mem_append_left _ (List.mem_map.mpr
            ⟨i - (freeAxes p.ndim xp).length, List.mem_range.mpr (by omega), by omega⟩))
  obtain rfl : AB = PQ := by rw [ePQ] at e1; exact (Except.ok.inj e1).symm
  rw [range_split, axesAB_all, ← hXn, ← hn] at e2
  obtain rfl : d1 = r := by
    rw [show (Arr.tensordotF AB X (.pair ((List.range AB.ndim).map Int.ofNat)
      ((List.range AB.ndim).map Int.ofNat)) .blockwise) = AB.tensordotF X (allAxes AB.ndim) .blockwise
      from rfl, hr] at e2
    exact (Except.ok.inj e2).symm
  refine ⟨BC, d2, e3, ?_, r7, r1, r9⟩
  have : axesTWr p.ndim q.ndim xp xq = Assoc2P.axesBC q.ndim X.ndim xq (freeAxes q.ndim xq)
      ((List.range (freeAxes q.ndim xq).length).map ((freeAxes p.ndim xp).length + ·))
      (List.range (freeAxes p.ndim xp).length) := by unfold axesTWr; rw [hXn]
  rw [this]; exact e4

end tw

end SymmModel.NormNet
