import SymmModel.Proofs.TdotFuseC3
import SymmModel.Proofs.Routes

/-!
# C06 — fusing leading free legs commutes with the *graded* contraction

`TdotFuseC3.lead_commute` at the level of the specification `gradedContract` (sign of every sector
pair included): the Koszul signs do not see the leading block that stays in place, the contracted
legs are untouched.
-/

namespace SymmModel.TdotP
open SymmModel SymmModel.GradedP SymmModel.Lazy

variable {R : Type}

/-- the sum over the stored aligned pairs as a sum over a covering list of contracted sub-sectors,
    for any summand that vanishes off the stored pairs -/
theorem sum_storedPairs_Ks [AddCommMonoid R] (a b : Arr R) (xa xb : List Nat)
    (hda : allDistinct a.sectors = true) (hdb : allDistinct b.sectors = true)
    (hsa : a.shapesOk) (hsb : b.shapesOk)
    (hxa : xa.Nodup) (hxa' : ∀ x ∈ xa, x < a.ndim) (hxb : xb.Nodup) (hxb' : ∀ x ∈ xb, x < b.ndim)
    (hlen : xa.length = xb.length)
    (Ks : List Sector) (hKn : Ks.Nodup) (hKl : ∀ K ∈ Ks, K.length = xa.length)
    (hKc : ∀ sa ∈ a.sectors, permuted sa xa ∈ Ks)
    (L Rr : Sector) (hL : L.length = (freeAxes a.ndim xa).length)
    (hR : Rr.length = (freeAxes b.ndim xb).length)
    (g : Sector × Sector → R) (hg : ∀ p : Sector × Sector, p.1 ∉ a.sectors ∨ p.2 ∉ b.sectors → g p = 0) :
    ((storedPairs a b (freeAxes a.ndim xa) xa xb (freeAxes b.ndim xb) (L ++ Rr)).map g).sum =
      (Ks.map (fun K => g (mergeSec a.ndim xa K L, mergeSec b.ndim xb K Rr))).sum := by
  have cov : ∀ (n : Nat) (axes : List Nat) y, y < n → y ∈ axes ∨ y ∈ freeAxes n axes := by
    intro n axes y hy
    by_cases h : y ∈ axes
    · exact Or.inl h
    · exact Or.inr (mem_freeAxes.mpr ⟨hy, h⟩)
  have hdisj : ∀ (n : Nat) (axes : List Nat), ∀ x ∈ freeAxes n axes, x ∉ axes :=
    fun n axes x hx => (mem_freeAxes.mp hx).2
  have mA_axes : ∀ K ∈ Ks, permuted (mergeSec a.ndim xa K L) xa = K := fun K hK =>
    permuted_mergeIdx_axes _ hxa hxa' (hKl K hK)
  have mB_axes : ∀ K ∈ Ks, permuted (mergeSec b.ndim xb K Rr) xb = K := fun K hK =>
    permuted_mergeIdx_axes _ hxb hxb' ((hKl K hK).trans hlen)
  have mA_free : ∀ K, permuted (mergeSec a.ndim xa K L) (freeAxes a.ndim xa) = L := fun K =>
    permuted_mergeIdx_free _ (freeAxes_nodup _ _) mem_freeAxes_lt (hdisj _ _) hL
  have mB_free : ∀ K, permuted (mergeSec b.ndim xb K Rr) (freeAxes b.ndim xb) = Rr := fun K =>
    permuted_mergeIdx_free _ (freeAxes_nodup _ _) mem_freeAxes_lt (hdisj _ _) hR
  let P : Sector → Bool := fun K =>
    a.sectors.contains (mergeSec a.ndim xa K L) && b.sectors.contains (mergeSec b.ndim xb K Rr)
  rw [← sum_filter_of_zero P _ Ks (by
    intro K _ hP
    apply hg
    simp only [P, Bool.and_eq_false_iff, List.contains_eq_mem, decide_eq_false_iff_not] at hP
    exact hP)]
  rw [show (fun K => g (mergeSec a.ndim xa K L, mergeSec b.ndim xb K Rr)) =
      g ∘ (fun K => (mergeSec a.ndim xa K L, mergeSec b.ndim xb K Rr)) from rfl,
    ← List.map_map]
  apply List.Perm.sum_eq
  apply List.Perm.map
  rw [List.perm_ext_iff_of_nodup
    (storedPairs_nodup _ xa xb _ _ (allDistinct_iff_nodup.mp hda) (allDistinct_iff_nodup.mp hdb))]
  · rintro ⟨sa, sb⟩
    rw [mem_storedPairs, List.mem_map]
    constructor
    · rintro ⟨hA, hB, hm, hs⟩
      have la := Arr.sector_length hsa hA
      have lb := Arr.sector_length hsb hB
      have hl1 : (permuted sa (freeAxes a.ndim xa)).length = L.length := by
        rw [permuted_length _ _ (by rw [la]; exact mem_freeAxes_lt), hL]
      obtain ⟨e1, e2⟩ := List.append_inj hs hl1
      have hsa' : mergeSec a.ndim xa (permuted sa xa) L = sa := by
        rw [← e1]; exact mergeIdx_permuted _ la hxa' mem_freeAxes_lt (cov _ _)
      have hsb' : mergeSec b.ndim xb (permuted sa xa) Rr = sb := by
        rw [← e2, ← hm]; exact mergeIdx_permuted _ lb hxb' mem_freeAxes_lt (cov _ _)
      refine ⟨permuted sa xa, List.mem_filter.mpr ⟨hKc sa hA, ?_⟩, by rw [hsa', hsb']⟩
      simp only [P, hsa', hsb', List.contains_eq_mem, hA, hB, decide_true, Bool.and_self]
    · rintro ⟨K, hK, hp⟩
      obtain ⟨hK1, hK2⟩ := List.mem_filter.mp hK
      simp only [Prod.mk.injEq] at hp
      obtain ⟨rfl, rfl⟩ := hp
      simp only [P, Bool.and_eq_true, List.contains_eq_mem, decide_eq_true_eq] at hK2
      exact ⟨hK2.1, hK2.2, by rw [mA_axes K hK1, mB_axes K hK1], by rw [mA_free, mB_free]⟩
  · refine List.Nodup.map_on ?_ (hKn.filter _)
    intro K hK K' hK' h
    have h1 := congrArg Prod.fst h
    simp only at h1
    rw [← mA_axes K (List.mem_filter.mp hK).1, ← mA_axes K' (List.mem_filter.mp hK').1, h1]

/-- one summand of `lead_commute`: the contraction of one merged sector pair before and after fusing
    the leading free legs, and how the two merged sectors are related -/
theorem lead_term [AddCommMonoid R] [Mul R] [Neg R]
    (hz1 : ∀ x : R, 0 * x = 0) (hz2 : ∀ x : R, x * 0 = 0) (a b : Arr R) (xa xb : List Nat) (k : Nat)
    (ha : a.validB = true) (hb : b.validB = true) (hpa : a.phases = [])
    (hvF : (FuseP.fusedArrM a [List.range k]).validB = true)
    (hnA : xa.Nodup) (hnB : xb.Nodup) (hA : ∀ x ∈ xa, x < a.ndim) (hB : ∀ x ∈ xb, x < b.ndim)
    (hlen : xa.length = xb.length) (hk1 : 1 ≤ k) (hk : k ≤ a.ndim) (hxa : ∀ x ∈ xa, k ≤ x)
    {c0 : Charge} {i0 d : Nat} {S : Sector} {O : List Nat}
    (hdec : decAx a [List.range k] 0 c0 i0 = some (S, O))
    (hz : (FuseP.ixM a [List.range k] 0).sizeOf? c0 = some d) (hi : i0 < d)
    {Lr Rs : Sector} {oLr oR shpLr shpR : List Nat}
    (hLr : Arr.blockShape? (permuted a.indices (freeTail a.ndim k xa)) Lr = some shpLr)
    (hbLr : inBox shpLr oLr = true)
    (hR : Arr.blockShape? (permuted b.indices (freeAxes b.ndim xb)) Rs = some shpR)
    (hbR : inBox shpR oR = true) {sa : Sector} (hsa' : sa ∈ a.sectors) :
    contractPair (FuseP.fusedArrM a [List.range k]) b (xa.map (sh k)) xb (i0 :: oLr) oR
        (mergeSec (1 + (a.ndim - k)) (xa.map (sh k)) (permuted sa xa) (c0 :: Lr),
          mergeSec b.ndim xb (permuted sa xa) Rs)
      = contractPair a b xa xb (O ++ oLr) oR
        (mergeSec a.ndim xa (permuted sa xa) (S ++ Lr), mergeSec b.ndim xb (permuted sa xa) Rs)
    ∧ mergeSec (1 + (a.ndim - k)) (xa.map (sh k)) (permuted sa xa) (c0 :: Lr)
        = c0 :: (mergeSec a.ndim xa (permuted sa xa) (S ++ Lr)).drop k
    ∧ (mergeSec a.ndim xa (permuted sa xa) (S ++ Lr)).length = a.ndim := by
  have hva := FuseP.validArr_of_validB ha
  have hok := lead_groupsOk (X := a) hk1 hk
  have e0 : ([List.range k] : List (List Nat))[0]? = some (List.range k) := rfl
  have ean : a.indices.length = a.ndim := rfl
  have ebn : b.indices.length = b.ndim := rfl
  have hsa := Arr.shapesOk_of_validB ha
  have hsb := Arr.shapesOk_of_validB hb
  have hsF := Arr.shapesOk_of_validB hvF
  have iF : (FuseP.fusedArrM a [List.range k]).indices
      = FuseP.ixM a [List.range k] 0 :: a.indices.drop k := lead_newIdx hk1 hk
  have nF : (FuseP.fusedArrM a [List.range k]).ndim = 1 + (a.ndim - k) := by
    show (FuseP.fusedArrM a [List.range k]).indices.length = _
    rw [iF, List.length_cons, List.length_drop, ean]; omega
  have hpF : (FuseP.fusedArrM a [List.range k]).phases = [] := hpa
  -- the shifted contracted axes
  have hnA' : (xa.map (sh k)).Nodup := by
    refine hnA.map_on ?_
    intro x hx y hy e
    have := hxa x hx; have := hxa y hy
    unfold sh at e; omega
  have hA' : ∀ x ∈ xa.map (sh k), x < (FuseP.fusedArrM a [List.range k]).ndim := by
    intro y hy
    obtain ⟨x, hx, rfl⟩ := List.mem_map.mp hy
    have := hA x hx; have := hxa x hx
    rw [nF]; unfold sh; omega
  have hlen' : (xa.map (sh k)).length = xb.length := by rw [List.length_map]; exact hlen
  -- the decoded leading block
  obtain ⟨shpS, hshpS, hboxS⟩ := decAx_facts hva hok e0 hdec hz hi
  have hpk : (permuted a.indices (List.range k)).length = k := by
    rw [ValidP.permuted_range_take, List.length_take, ean]; omega
  have hSl : S.length = k := by rw [(blockShape?_length hshpS).1, hpk]
  have hOl : O.length = k := by rw [inBox_length hboxS, (blockShape?_length hshpS).2, hpk]
  have hFTlt : ∀ x ∈ freeTail a.ndim k xa, x < a.indices.length := fun x hx => (mem_freeTail hx).2.1
  have hLrl : Lr.length = (freeTail a.ndim k xa).length := by
    rw [(blockShape?_length hLr).1, permuted_length _ _ hFTlt]
  have hoLrl : oLr.length = (freeTail a.ndim k xa).length := by
    rw [inBox_length hbLr, (blockShape?_length hLr).2, permuted_length _ _ hFTlt]
  have hRl : Rs.length = (freeAxes b.ndim xb).length := by
    rw [(blockShape?_length hR).1, permuted_length _ _ (by simpa [ebn] using mem_freeAxes_lt)]
  -- shapes of the two left free parts
  have hLshape : Arr.blockShape? (permuted a.indices (freeAxes a.ndim xa)) (S ++ Lr) = some (shpS ++ shpLr) := by
    rw [freeAxes_lead a.ndim k xa hk hxa, ValidP.permuted_append]
    exact blockShape?_append hshpS hLr
  have hFidx : permuted (FuseP.fusedArrM a [List.range k]).indices
      (freeAxes (FuseP.fusedArrM a [List.range k]).ndim (xa.map (sh k)))
      = FuseP.ixM a [List.range k] 0 :: permuted a.indices (freeTail a.ndim k xa) := by
    rw [nF, freeAxes_shift a.ndim k xa hk1 hk hxa, iF, permuted_zero_cons,
      permuted_cons_drop_shift _ a.indices k hk1 _ (fun x hx => (mem_freeTail hx).1)]
  have hLfshape : Arr.blockShape? (permuted (FuseP.fusedArrM a [List.range k]).indices
      (freeAxes (FuseP.fusedArrM a [List.range k]).ndim (xa.map (sh k)))) (c0 :: Lr) = some (d :: shpLr) := by
    rw [hFidx, Arr.blockShape?_cons, hz, hLr]; rfl
  have hKidx : permuted (FuseP.fusedArrM a [List.range k]).indices (xa.map (sh k)) = permuted a.indices xa := by
    rw [iF, permuted_cons_drop_shift _ a.indices k hk1 xa hxa]
  -- the common list of contracted sub-sectors
  let Ks : List Sector := (a.sectors.map (fun s => permuted s xa)).eraseDups
  have hKn : Ks.Nodup := nodup_eraseDups _
  have hKl : ∀ K ∈ Ks, K.length = xa.length := by
    intro K hK
    obtain ⟨s, hs, rfl⟩ := List.mem_map.mp (List.mem_eraseDups.mp hK)
    exact permuted_length _ _ (by rw [Arr.sector_length hsa hs]; exact hA)
  have hKc : ∀ sa ∈ a.sectors, permuted sa xa ∈ Ks := fun sa hs =>
    List.mem_eraseDups.mpr (List.mem_map.mpr ⟨sa, hs, rfl⟩)
  have hKcF : ∀ sF ∈ (FuseP.fusedArrM a [List.range k]).sectors, permuted sF (xa.map (sh k)) ∈ Ks := by
    intro sF hsF'
    obtain ⟨p, hp, rfl⟩ := List.mem_map.mp hsF'
    have hl : alookup (FuseP.fusedBlocksM a [List.range k]) p.1 = some p.2 :=
      alookup_of_mem (Arr.allDistinct_of_validB hvF) hp
    obtain ⟨sb0, hsb0, hns0, _⟩ := FuseP.fusedBlockM_info hva hok hl
    have hsl0 : sb0.1.length = a.ndim := (hva.blk sb0 hsb0).1
    rw [← hns0, lead_newSector hk1 hk sb0 hsl0, permuted_cons_drop_shift _ sb0.1 k hk1 xa hxa]
    exact hKc _ (List.mem_map.mpr ⟨sb0, hsb0, rfl⟩)
  -- boxes
  have hboxA : inBox (Arr.blockShapeD (without a.indices xa ++ without b.indices xb) ((S ++ Lr) ++ Rs))
      ((O ++ oLr) ++ oR) = true := by
    rw [without_eq_permuted_freeAxes, without_eq_permuted_freeAxes, Arr.blockShapeD, ean, ebn,
      blockShape?_append hLshape hR]
    simp only [Option.getD_some]
    rw [inBox_append (by rw [List.length_append, List.length_append, inBox_length hboxS, inBox_length hbLr]),
      inBox_append (inBox_length hboxS), hboxS, hbLr, hbR]
    rfl
  have hboxF : inBox (Arr.blockShapeD (without (FuseP.fusedArrM a [List.range k]).indices (xa.map (sh k))
      ++ without b.indices xb) ((c0 :: Lr) ++ Rs)) ((i0 :: oLr) ++ oR) = true := by
    have eF : (FuseP.fusedArrM a [List.range k]).indices.length = (FuseP.fusedArrM a [List.range k]).ndim := rfl
    rw [without_eq_permuted_freeAxes, without_eq_permuted_freeAxes, Arr.blockShapeD, ebn, eF,
      blockShape?_append hLfshape hR]
    simp only [Option.getD_some]
    rw [inBox_append (by simp [inBox_length hbLr]), hbR]
    simp [inBox, hi, hbLr]
  have hLfl : (c0 :: Lr).length = (freeAxes (FuseP.fusedArrM a [List.range k]).ndim (xa.map (sh k))).length := by
    rw [nF, freeAxes_shift a.ndim k xa hk1 hk hxa, List.length_cons, List.length_cons, List.length_map, hLrl]
  have hoLfl : (i0 :: oLr).length = (freeAxes (FuseP.fusedArrM a [List.range k]).ndim (xa.map (sh k))).length := by
    rw [nF, freeAxes_shift a.ndim k xa hk1 hk hxa, List.length_cons, List.length_cons, List.length_map, hoLrl]
  have hLl : (S ++ Lr).length = (freeAxes a.ndim xa).length := by
    rw [freeAxes_lead a.ndim k xa hk hxa, List.length_append, List.length_append, hSl, hLrl, List.length_range]
  have hoLl : (O ++ oLr).length = (freeAxes a.ndim xa).length := by
    rw [freeAxes_lead a.ndim k xa hk hxa, List.length_append, List.length_append, hOl, hoLrl, List.length_range]
  have hK : permuted sa xa ∈ Ks := hKc sa hsa'
  obtain ⟨shpA, hA1, _, hA3, hA4⟩ := GradedP.shape_of_mem hsa hsa'
  have hKshape : Arr.blockShape? (permuted a.indices xa) (permuted sa xa) = some (permuted shpA xa) :=
    blockShape?_permuted hA1 xa (by simpa [ean] using hA)
  have hKlen := hKl _ hK
  obtain ⟨m1, m2, _⟩ := merge_lead ((0, 0) : Charge) a.ndim k xa hk1 hk hnA hA hxa (permuted sa xa) hKlen
    c0 S Lr hSl hLrl
  refine ⟨?_, m2, mergeSec_length _ _ _ _⟩
  rw [← nF]
  simp only [contractPair]
  rw [contracted_box (A := FuseP.fusedArrM a [List.range k]) hnA' hA' (by rw [hKidx]; exact hKshape) hLfshape,
    contracted_box (A := a) hnA hA hKshape hLshape]
  apply sum_map_congr
  intro kk hkk
  have hkbox : inBox (permuted shpA xa) kk = true := mem_allIdx_iff.mp hkk
  have hkkl : kk.length = xa.length := by
    rw [inBox_length hkbox, permuted_length _ _ (by intro x hx; rw [hA3]; exact hA x hx)]
  obtain ⟨o1, o2, _⟩ := merge_lead (0 : Nat) a.ndim k xa hk1 hk hnA hA hxa kk hkkl i0 O oLr hOl hoLrl
  -- the merged sector has a block shape; its tail lies in the tail box
  have pA : permuted (mergeSec a.ndim xa (permuted sa xa) (S ++ Lr)) xa = permuted sa xa :=
    permuted_mergeSec_axes hnA hA hKlen
  have pF : permuted (mergeSec a.ndim xa (permuted sa xa) (S ++ Lr)) (freeAxes a.ndim xa) = S ++ Lr :=
    permuted_mergeSec_free hLl
  have hSch : List.Forall₂ (fun c (ix : Index) => c ∈ ix.charges)
      (mergeSec a.ndim xa (permuted sa xa) (S ++ Lr)) a.indices := by
    apply forall₂_of_parts (n := a.ndim) (xa := xa) (l := freeAxes a.ndim xa)
      (mergeSec_length _ _ _ _) ean hA mem_freeAxes_lt
    · intro y hy
      by_cases hm : y ∈ xa
      · exact Or.inl hm
      · exact Or.inr (mem_freeAxes.mpr ⟨hy, hm⟩)
    · rw [pA]; exact charges_of_blockShape? hKshape
    · rw [pF]; exact charges_of_blockShape? hLshape
  obtain ⟨shpM, hshpM⟩ := blockShape?_of_charges hSch
  have hMl : shpM.length = a.ndim := (blockShape?_length hshpM).2
  have hMk : permuted shpM xa = permuted shpA xa := by
    have := blockShape?_permuted hshpM xa (by simpa [ean] using hA)
    rw [pA, hKshape] at this
    exact (Option.some.inj this).symm
  have hMf : permuted shpM (freeAxes a.ndim xa) = shpS ++ shpLr := by
    have := blockShape?_permuted hshpM (freeAxes a.ndim xa) (by simpa [ean] using mem_freeAxes_lt)
    rw [pF, hLshape] at this
    exact (Option.some.inj this).symm
  have hMbox : inBox shpM (mergeIdx 0 a.ndim xa (freeAxes a.ndim xa) kk (O ++ oLr)) = true := by
    have := inBox_mergeIdx (shape := shpM) (axes := xa) (k := kk) (f := O ++ oLr)
      (by intro x hx; rw [hMl]; exact hA x hx) (by rw [hMk]; exact hkbox)
      (by rw [hMl, hMf, inBox_append (inBox_length hboxS), hboxS, hbLr]; rfl)
    rwa [hMl] at this
  have hsplit : Arr.blockShape? (a.indices.take k ++ a.indices.drop k)
      (S ++ (mergeSec a.ndim xa (permuted sa xa) (S ++ Lr)).drop k) = some shpM := by
    rw [List.take_append_drop]
    have : S ++ (mergeSec a.ndim xa (permuted sa xa) (S ++ Lr)).drop k
        = mergeSec a.ndim xa (permuted sa xa) (S ++ Lr) := m1.symm
    rw [this]; exact hshpM
  obtain ⟨p, q, rfl, hp1, hq1⟩ := blockShape?_split (by rw [hSl, List.length_take, ean]; omega) hsplit
  have hpl : p.length = k := by rw [(blockShape?_length hp1).2, List.length_take, ean]; omega
  have hqbox : inBox q ((mergeIdx 0 a.ndim xa (freeAxes a.ndim xa) kk (O ++ oLr)).drop k) = true := by
    rw [o1, inBox_append (by rw [hOl, hpl])] at hMbox
    simp only [Bool.and_eq_true] at hMbox
    exact hMbox.2
  unfold contractTerm
  congr 1
  rw [nF]
  show (FuseP.fusedArrM a [List.range k]).elem
      (mergeIdx ((0, 0) : Charge) (1 + (a.ndim - k)) (xa.map (sh k)) (freeAxes (1 + (a.ndim - k)) (xa.map (sh k)))
        (permuted sa xa) (c0 :: Lr))
      (mergeIdx 0 (1 + (a.ndim - k)) (xa.map (sh k)) (freeAxes (1 + (a.ndim - k)) (xa.map (sh k))) kk (i0 :: oLr))
    = a.elem (mergeIdx ((0, 0) : Charge) a.ndim xa (freeAxes a.ndim xa) (permuted sa xa) (S ++ Lr))
      (mergeIdx 0 a.ndim xa (freeAxes a.ndim xa) kk (O ++ oLr))
  rw [m2, o2]
  conv_rhs => rw [m1, o1]
  exact lead_elem hva hpa hk1 hk hdec hz hi hq1 hqbox

theorem getD_cons_drop_shift {α : Type} (c : α) (M : List α) (k x : Nat) (hk1 : 1 ≤ k) (hx : k ≤ x) (d : α) :
    (c :: M.drop k).getD (sh k x) d = M.getD x d := by
  have e : sh k x = (x - k) + 1 := by unfold sh; omega
  rw [e, List.getD_cons_succ, List.getD_eq_getElem?_getD, List.getElem?_drop, List.getD_eq_getElem?_getD]
  congr 2
  omega

/-- the contracted and the remaining free axes, shifted down by `k`, are a permutation -/
theorem tail_perm {n k : Nat} {xa : List Nat} (hk : k ≤ n) (hn : xa.Nodup) (hr : ∀ x ∈ xa, x < n)
    (hxa : ∀ x ∈ xa, k ≤ x) :
    ((freeTail n k xa ++ xa).map (· - k)).Perm (List.range (n - k)) := by
  have h := GradedP.perm_left hn hr
  rw [freeAxes_lead n k xa hk hxa] at h
  have e : n = k + (n - k) := by omega
  have hr2 : List.range n = List.range k ++ (List.range (n - k)).map (k + ·) := by
    conv_lhs => rw [e]
    exact List.range_add
  rw [hr2, List.append_assoc, List.perm_append_left_iff] at h
  have h2 := h.map (· - k)
  rw [List.map_map] at h2
  have e2 : ((· - k) ∘ (k + ·)) = (id : Nat → Nat) := by
    funext j; simp
  rw [e2, List.map_id] at h2
  exact h2

theorem map_sub_add {k : Nat} {l : List Nat} (h : ∀ x ∈ l, k ≤ x) (c : Nat) :
    (l.map (· - k)).map (c + ·) = l.map (fun x => c + (x - k)) := by
  rw [List.map_map]; rfl

/-- the sign of a sector pair does not see the fusion of the leading free legs -/
theorem gradedSign_lead (F a b : Arr R) (xa xb : List Nat) (k : Nat) (ix0 : Index)
    (hsym : F.sym = a.sym) (hidx : F.indices = ix0 :: a.indices.drop k)
    (hk1 : 1 ≤ k) (hk : k ≤ a.ndim) (hn : xa.Nodup) (hr : ∀ x ∈ xa, x < a.ndim) (hxa : ∀ x ∈ xa, k ≤ x)
    (c0 : Charge) (M : Sector) (hM : M.length = a.ndim) (sb : Sector) :
    gradedSign F b (xa.map (sh k)) xb (c0 :: M.drop k) sb = gradedSign a b xa xb M sb := by
  have ean : a.indices.length = a.ndim := rfl
  have nF : F.ndim = 1 + (a.ndim - k) := by
    show F.indices.length = _
    rw [hidx, List.length_cons, List.length_drop, ean]; omega
  have hπ := tail_perm hk hn hr hxa
  have hQl : ((M.drop k).map a.sym.parity).length = a.ndim - k := by
    rw [List.length_map, List.length_drop, hM]
  have hshift : ∀ l : List Nat, (∀ x ∈ l, k ≤ x) → l.map (sh k) = (l.map (· - k)).map (1 + ·) := by
    intro l hl
    rw [List.map_map]
    apply List.map_congr_left
    intro x hx
    have := hl x hx
    simp only [Function.comp, sh]; omega
  have hback : ∀ l : List Nat, (∀ x ∈ l, k ≤ x) → l = (l.map (· - k)).map (k + ·) := by
    intro l hl
    rw [List.map_map]
    conv_lhs => rw [← List.map_id l]
    apply List.map_congr_left
    intro x hx
    have := hl x hx
    simp only [Function.comp, id]; omega
  have hge : ∀ x ∈ freeTail a.ndim k xa ++ xa, k ≤ x := by
    intro x hx
    rcases List.mem_append.mp hx with h | h
    · exact (mem_freeTail h).1
    · exact hxa x h
  -- the Koszul sign of `a`
  have k1 : koszul (F.parities (c0 :: M.drop k)) (some (freeAxes F.ndim (xa.map (sh k)) ++ xa.map (sh k)))
      = koszul (a.parities M) (some (freeAxes a.ndim xa ++ xa)) := by
    have eA : a.parities M = (M.take k).map a.sym.parity ++ (M.drop k).map a.sym.parity := by
      show M.map _ = _
      rw [← List.map_append, List.take_append_drop]
    have eF : F.parities (c0 :: M.drop k) = [a.sym.parity c0] ++ (M.drop k).map a.sym.parity := by
      show (c0 :: M.drop k).map F.sym.parity = _
      rw [hsym]; rfl
    have lA : ((M.take k).map a.sym.parity).length = k := by
      rw [List.length_map, List.length_take, hM]; omega
    have pA : freeAxes a.ndim xa ++ xa
        = List.range ((M.take k).map a.sym.parity).length
          ++ ((freeTail a.ndim k xa ++ xa).map (· - k)).map (((M.take k).map a.sym.parity).length + ·) := by
      rw [lA, ← hback _ hge, freeAxes_lead a.ndim k xa hk hxa, List.append_assoc]
    have pF : freeAxes F.ndim (xa.map (sh k)) ++ xa.map (sh k)
        = List.range [a.sym.parity c0].length
          ++ ((freeTail a.ndim k xa ++ xa).map (· - k)).map ([a.sym.parity c0].length + ·) := by
      rw [nF, freeAxes_shift a.ndim k xa hk1 hk hxa]
      show 0 :: _ ++ _ = [0] ++ ((freeTail a.ndim k xa ++ xa).map (· - k)).map (1 + ·)
      rw [← hshift _ hge, List.map_append]
      rfl
    rw [eA, eF, pA, pF,
      RoutesP.koszul_id_block_left _ _ _ (by rw [hQl]; exact hπ),
      RoutesP.koszul_id_block_left _ _ _ (by rw [hQl]; exact hπ)]
  have k3 : oddContracted F (xa.map (sh k)) (c0 :: M.drop k) = oddContracted a xa M := by
    unfold oddContracted
    rw [permuted_cons_drop_shift c0 M k hk1 xa hxa, hsym]
  have k4 : ketOdd F (xa.map (sh k)) (c0 :: M.drop k) = ketOdd a xa M := by
    unfold ketOdd
    rw [List.filter_map, List.filter_map, List.length_map, hsym, hidx]
    congr 1
    rw [List.filter_filter, List.filter_filter]
    apply List.filter_congr
    intro x hx
    have hkx := hxa x hx
    simp only [Function.comp]
    rw [getD_cons_drop_shift ix0 a.indices k x hk1 hkx, getD_cons_drop_shift c0 M k x hk1 hkx]
  unfold gradedSign
  rw [k1, k3, k4]

/-- **fusing the leading free legs of the left operand commutes with the graded contraction**:
    `lead_commute` with the sign of every sector pair (the specification `gradedContract` of the
    fermionic `tensordot`), for operands without pending phases. -/
theorem lead_commute_graded [AddCommMonoid R] [Mul R] [Neg R] [SignRing R]
    (hz1 : ∀ x : R, 0 * x = 0) (hz2 : ∀ x : R, x * 0 = 0) (a b : Arr R) (xa xb : List Nat) (k : Nat)
    (ha : a.validB = true) (hb : b.validB = true) (hpa : a.phases = [])
    (hvF : (FuseP.fusedArrM a [List.range k]).validB = true)
    (hnA : xa.Nodup) (hnB : xb.Nodup) (hA : ∀ x ∈ xa, x < a.ndim) (hB : ∀ x ∈ xb, x < b.ndim)
    (hlen : xa.length = xb.length) (hk1 : 1 ≤ k) (hk : k ≤ a.ndim) (hxa : ∀ x ∈ xa, k ≤ x)
    {c0 : Charge} {i0 d : Nat} {S : Sector} {O : List Nat}
    (hdec : decAx a [List.range k] 0 c0 i0 = some (S, O))
    (hz : (FuseP.ixM a [List.range k] 0).sizeOf? c0 = some d) (hi : i0 < d)
    {Lr Rs : Sector} {oLr oR shpLr shpR : List Nat}
    (hLr : Arr.blockShape? (permuted a.indices (freeTail a.ndim k xa)) Lr = some shpLr)
    (hbLr : inBox shpLr oLr = true)
    (hR : Arr.blockShape? (permuted b.indices (freeAxes b.ndim xb)) Rs = some shpR)
    (hbR : inBox shpR oR = true) :
    gradedContract (FuseP.fusedArrM a [List.range k]) b (xa.map (sh k)) xb ((c0 :: Lr) ++ Rs) (i0 :: oLr) oR
      = gradedContract a b xa xb ((S ++ Lr) ++ Rs) (O ++ oLr) oR := by
  have hva := FuseP.validArr_of_validB ha
  have hok := lead_groupsOk (X := a) hk1 hk
  have e0 : ([List.range k] : List (List Nat))[0]? = some (List.range k) := rfl
  have ean : a.indices.length = a.ndim := rfl
  have ebn : b.indices.length = b.ndim := rfl
  have hsa := Arr.shapesOk_of_validB ha
  have hsb := Arr.shapesOk_of_validB hb
  have hsF := Arr.shapesOk_of_validB hvF
  have iF : (FuseP.fusedArrM a [List.range k]).indices
      = FuseP.ixM a [List.range k] 0 :: a.indices.drop k := lead_newIdx hk1 hk
  have nF : (FuseP.fusedArrM a [List.range k]).ndim = 1 + (a.ndim - k) := by
    show (FuseP.fusedArrM a [List.range k]).indices.length = _
    rw [iF, List.length_cons, List.length_drop, ean]; omega
  have hpF : (FuseP.fusedArrM a [List.range k]).phases = [] := hpa
  -- the shifted contracted axes
  have hnA' : (xa.map (sh k)).Nodup := by
    refine hnA.map_on ?_
    intro x hx y hy e
    have := hxa x hx; have := hxa y hy
    unfold sh at e; omega
  have hA' : ∀ x ∈ xa.map (sh k), x < (FuseP.fusedArrM a [List.range k]).ndim := by
    intro y hy
    obtain ⟨x, hx, rfl⟩ := List.mem_map.mp hy
    have := hA x hx; have := hxa x hx
    rw [nF]; unfold sh; omega
  have hlen' : (xa.map (sh k)).length = xb.length := by rw [List.length_map]; exact hlen
  -- the decoded leading block
  obtain ⟨shpS, hshpS, hboxS⟩ := decAx_facts hva hok e0 hdec hz hi
  have hpk : (permuted a.indices (List.range k)).length = k := by
    rw [ValidP.permuted_range_take, List.length_take, ean]; omega
  have hSl : S.length = k := by rw [(blockShape?_length hshpS).1, hpk]
  have hOl : O.length = k := by rw [inBox_length hboxS, (blockShape?_length hshpS).2, hpk]
  have hFTlt : ∀ x ∈ freeTail a.ndim k xa, x < a.indices.length := fun x hx => (mem_freeTail hx).2.1
  have hLrl : Lr.length = (freeTail a.ndim k xa).length := by
    rw [(blockShape?_length hLr).1, permuted_length _ _ hFTlt]
  have hoLrl : oLr.length = (freeTail a.ndim k xa).length := by
    rw [inBox_length hbLr, (blockShape?_length hLr).2, permuted_length _ _ hFTlt]
  have hRl : Rs.length = (freeAxes b.ndim xb).length := by
    rw [(blockShape?_length hR).1, permuted_length _ _ (by simpa [ebn] using mem_freeAxes_lt)]
  -- shapes of the two left free parts
  have hLshape : Arr.blockShape? (permuted a.indices (freeAxes a.ndim xa)) (S ++ Lr) = some (shpS ++ shpLr) := by
    rw [freeAxes_lead a.ndim k xa hk hxa, ValidP.permuted_append]
    exact blockShape?_append hshpS hLr
  have hFidx : permuted (FuseP.fusedArrM a [List.range k]).indices
      (freeAxes (FuseP.fusedArrM a [List.range k]).ndim (xa.map (sh k)))
      = FuseP.ixM a [List.range k] 0 :: permuted a.indices (freeTail a.ndim k xa) := by
    rw [nF, freeAxes_shift a.ndim k xa hk1 hk hxa, iF, permuted_zero_cons,
      permuted_cons_drop_shift _ a.indices k hk1 _ (fun x hx => (mem_freeTail hx).1)]
  have hLfshape : Arr.blockShape? (permuted (FuseP.fusedArrM a [List.range k]).indices
      (freeAxes (FuseP.fusedArrM a [List.range k]).ndim (xa.map (sh k)))) (c0 :: Lr) = some (d :: shpLr) := by
    rw [hFidx, Arr.blockShape?_cons, hz, hLr]; rfl
  have hKidx : permuted (FuseP.fusedArrM a [List.range k]).indices (xa.map (sh k)) = permuted a.indices xa := by
    rw [iF, permuted_cons_drop_shift _ a.indices k hk1 xa hxa]
  -- the common list of contracted sub-sectors
  let Ks : List Sector := (a.sectors.map (fun s => permuted s xa)).eraseDups
  have hKn : Ks.Nodup := nodup_eraseDups _
  have hKl : ∀ K ∈ Ks, K.length = xa.length := by
    intro K hK
    obtain ⟨s, hs, rfl⟩ := List.mem_map.mp (List.mem_eraseDups.mp hK)
    exact permuted_length _ _ (by rw [Arr.sector_length hsa hs]; exact hA)
  have hKc : ∀ sa ∈ a.sectors, permuted sa xa ∈ Ks := fun sa hs =>
    List.mem_eraseDups.mpr (List.mem_map.mpr ⟨sa, hs, rfl⟩)
  have hKcF : ∀ sF ∈ (FuseP.fusedArrM a [List.range k]).sectors, permuted sF (xa.map (sh k)) ∈ Ks := by
    intro sF hsF'
    obtain ⟨p, hp, rfl⟩ := List.mem_map.mp hsF'
    have hl : alookup (FuseP.fusedBlocksM a [List.range k]) p.1 = some p.2 :=
      alookup_of_mem (Arr.allDistinct_of_validB hvF) hp
    obtain ⟨sb0, hsb0, hns0, _⟩ := FuseP.fusedBlockM_info hva hok hl
    have hsl0 : sb0.1.length = a.ndim := (hva.blk sb0 hsb0).1
    rw [← hns0, lead_newSector hk1 hk sb0 hsl0, permuted_cons_drop_shift _ sb0.1 k hk1 xa hxa]
    exact hKc _ (List.mem_map.mpr ⟨sb0, hsb0, rfl⟩)
  -- boxes
  have hboxA : inBox (Arr.blockShapeD (without a.indices xa ++ without b.indices xb) ((S ++ Lr) ++ Rs))
      ((O ++ oLr) ++ oR) = true := by
    rw [without_eq_permuted_freeAxes, without_eq_permuted_freeAxes, Arr.blockShapeD, ean, ebn,
      blockShape?_append hLshape hR]
    simp only [Option.getD_some]
    rw [inBox_append (by rw [List.length_append, List.length_append, inBox_length hboxS, inBox_length hbLr]),
      inBox_append (inBox_length hboxS), hboxS, hbLr, hbR]
    rfl
  have hboxF : inBox (Arr.blockShapeD (without (FuseP.fusedArrM a [List.range k]).indices (xa.map (sh k))
      ++ without b.indices xb) ((c0 :: Lr) ++ Rs)) ((i0 :: oLr) ++ oR) = true := by
    have eF : (FuseP.fusedArrM a [List.range k]).indices.length = (FuseP.fusedArrM a [List.range k]).ndim := rfl
    rw [without_eq_permuted_freeAxes, without_eq_permuted_freeAxes, Arr.blockShapeD, ebn, eF,
      blockShape?_append hLfshape hR]
    simp only [Option.getD_some]
    rw [inBox_append (by simp [inBox_length hbLr]), hbR]
    simp [inBox, hi, hbLr]
  have hLfl : (c0 :: Lr).length = (freeAxes (FuseP.fusedArrM a [List.range k]).ndim (xa.map (sh k))).length := by
    rw [nF, freeAxes_shift a.ndim k xa hk1 hk hxa, List.length_cons, List.length_cons, List.length_map, hLrl]
  have hoLfl : (i0 :: oLr).length = (freeAxes (FuseP.fusedArrM a [List.range k]).ndim (xa.map (sh k))).length := by
    rw [nF, freeAxes_shift a.ndim k xa hk1 hk hxa, List.length_cons, List.length_cons, List.length_map, hoLrl]
  have hLl : (S ++ Lr).length = (freeAxes a.ndim xa).length := by
    rw [freeAxes_lead a.ndim k xa hk hxa, List.length_append, List.length_append, hSl, hLrl, List.length_range]
  have hoLl : (O ++ oLr).length = (freeAxes a.ndim xa).length := by
    rw [freeAxes_lead a.ndim k xa hk hxa, List.length_append, List.length_append, hOl, hoLrl, List.length_range]
  unfold gradedContract
  rw [sum_storedPairs_Ks (FuseP.fusedArrM a [List.range k]) b (xa.map (sh k)) xb
      (Arr.allDistinct_of_validB hvF) (Arr.allDistinct_of_validB hb) hsF hsb hnA' hA' hnB hB hlen' Ks hKn
      (fun K hK => by rw [List.length_map]; exact hKl K hK) hKcF (c0 :: Lr) Rs hLfl hRl _
      (fun p hp => by rw [contractPair_eq_zero hz1 hz2 _ _ _ _ _ _ p hp]; exact sgnI_zero _),
    sum_storedPairs_Ks a b xa xb (Arr.allDistinct_of_validB ha)
      (Arr.allDistinct_of_validB hb) hsa hsb hnA hA hnB hB hlen Ks hKn hKl hKc (S ++ Lr) Rs hLl hRl _
      (fun p hp => by rw [contractPair_eq_zero hz1 hz2 _ _ _ _ _ _ p hp]; exact sgnI_zero _)]
  apply sum_map_congr
  intro K hK
  obtain ⟨sa, hsa', rfl⟩ := List.mem_map.mp (List.mem_eraseDups.mp hK)
  obtain ⟨t1, t2, t3⟩ := lead_term hz1 hz2 a b xa xb k ha hb hpa hvF hnA hnB hA hB hlen hk1 hk hxa
    hdec hz hi hLr hbLr hR hbR hsa'
  simp only
  rw [nF, t1, t2, gradedSign_lead (FuseP.fusedArrM a [List.range k]) a b xa xb k _ rfl iF hk1 hk hnA hA hxa c0 _ t3]

end SymmModel.TdotP
