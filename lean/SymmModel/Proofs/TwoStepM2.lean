/-
  SymmModel.Proofs.TwoStepM2 — "several pairs at once or one after another" (C04/C02), ABELIAN form: the
  concrete index sets of the trace over the remaining pairs in the intermediate
  (`tsSurv`: the surviving sectors, `tsBox`: the box of the remaining pairs) and the hypotheses of
  `two_step_core_abelian` for them (`surv_mem`, `surv_box`, `surv_inBox`).  The geometric lemmas of
  `TwoStepSec`/`TwoStepGeom` are stated under the fermionic guard `AdmW`; an abelian array is given the
  fermionic flag (`fz`, same indices / sectors / blocks) to use them.
  Namespace `SymmModel.TwoStepP`.
-/
import SymmModel.Proofs.TwoStepFinal
import SymmModel.Proofs.TwoStepM1

namespace SymmModel
namespace TwoStepP
open TdotP GradedP RoutesP AssocP KoszulP Assoc3P
set_option linter.unusedSectionVars false

variable {R : Type}

/-- the abelian array `a` given the fermionic flag (and one dummy label when its charge is odd) -/
def fz (a : Arr R) : Arr R :=
  { a with fermi := true, oddpos := if a.parity then [((0 : Int), false)] else [] }

theorem fz_valid {a : Arr R} (h : a.validB = true) (hf : a.fermi = false) : (fz a).validB = true := by
  unfold Arr.validB at h ⊢
  rw [hf] at h
  simp only [Bool.false_eq_true, if_false, Bool.and_eq_true] at h
  obtain ⟨h1, hp, ho⟩ := h
  have hp' : a.phases = [] := List.isEmpty_iff.mp hp
  have e : (fz a).phases = [] := hp'
  have e2 : (fz a).parity = a.parity := rfl
  show (Index.wfListB a.sym a.indices && a.sym.valid a.charge && allDistinct a.sectors
    && a.blocks.all (fun (s, b) => s.length == a.ndim && a.isValidSector s
        && Arr.blockShape? a.indices s == some b.shape && b.wf)
    && (if true = true then
        allDistinct ((fz a).phases.map (·.1))
        && (fz a).phases.all (fun (s, p) => s.length == (fz a).ndim && (fz a).isValidSector s && (p == 1 || p == -1))
        && ((fz a).oddpos.length % 2 == 1) == (fz a).parity
      else (fz a).phases.isEmpty && (fz a).oddpos.isEmpty)) = true
  rw [e, e2]
  simp only [if_true, Bool.and_eq_true]
  refine ⟨h1, ⟨rfl, rfl⟩, ?_⟩
  show (((if a.parity then [((0 : Int), false)] else []).length % 2 == 1) == a.parity) = true
  cases a.parity <;> rfl

theorem phases_of_abelian {a : Arr R} (h : a.validB = true) (hf : a.fermi = false) : a.phases = [] := by
  unfold Arr.validB at h
  rw [hf] at h
  simp only [Bool.false_eq_true, if_false, Bool.and_eq_true] at h
  exact List.isEmpty_iff.mp h.2.1

theorem fz_guard (a b : Arr R) (xa xb : List Nat) :
    tdotAdmissibleCommonB (fz a) (fz b) xa xb = tdotAdmissibleCommonB a b xa xb := rfl

/-- the sectors of the intermediate `c` that survive the trace of the remaining pairs (equal charges at
    the positions `tsPA[i]`, `tsPB[i]`) and whose untraced part is `s'` -/
def tsSurv (c : Arr R) (na nb : Nat) (xa xb ya yb : List Nat) (s' : Sector) : List Sector :=
  c.sectors.filter (fun s => permuted s (tsPA na xa ya) == permuted s (tsPB na nb xa xb yb)
    && permuted s (tsRhs na nb xa xb ya yb) == s')

/-- the box of the remaining pairs in the block `s` of the intermediate: the sizes of its legs `tsPA` -/
def tsBox (a b : Arr R) (xa xb ya : List Nat) (s : Sector) : List Nat :=
  permuted (Arr.blockShapeD (without a.indices xa ++ without b.indices xb) s) (tsPA a.ndim xa ya)

/-- block shape of the un-pruned frame of the free legs at a sector made of two stored sectors -/
theorem free_shape {a b : Arr R} (hsA : a.shapesOk) (hsB : b.shapesOk) {sa sb : Sector}
    (hsa : sa ∈ a.sectors) (hsb : sb ∈ b.sectors) (xa xb : List Nat) :
    Arr.blockShapeD (without a.indices xa ++ without b.indices xb)
        (permuted sa (freeAxes a.ndim xa) ++ permuted sb (freeAxes b.ndim xb))
      = permuted (Arr.blockShapeD a.indices sa) (freeAxes a.ndim xa)
        ++ permuted (Arr.blockShapeD b.indices sb) (freeAxes b.ndim xb) := by
  obtain ⟨shpA, hA1, hA2, _, _⟩ := shape_of_mem hsA hsa
  obtain ⟨shpB, hB1, hB2, _, _⟩ := shape_of_mem hsB hsb
  have e := TdotP.blockShape?_append
    (blockShape?_permuted hA1 (freeAxes a.ndim xa) (fun x hx => (mem_freeAxes.mp hx).1))
    (blockShape?_permuted hB1 (freeAxes b.ndim xb) (fun x hx => (mem_freeAxes.mp hx).1))
  rw [Arr.blockShapeD, without_eq_permuted_freeAxes, without_eq_permuted_freeAxes, hA2, hB2]
  show (Arr.blockShape? (permuted a.indices (freeAxes a.ndim xa) ++ permuted b.indices (freeAxes b.ndim xb))
    (permuted sa (freeAxes a.ndim xa) ++ permuted sb (freeAxes b.ndim xb))).getD [] = _
  rw [e]
  rfl

section geom
variable [AddCommMonoid R] [Mul R] [Neg R] [SignRing R]
variable {a b c : Arr R} {xa xb ya yb : List Nat}

/-- `hmem` of the core for `tsSurv` -/
theorem surv_mem (W1 : AdmW a b xa xb) (W2 : AdmW a b (xa ++ ya) (xb ++ yb))
    (hc : ∀ s, s ∈ c.sectors ↔ ∃ sa ∈ a.sectors, ∃ sb ∈ b.sectors, permuted sa xa = permuted sb xb ∧
      s = permuted sa (freeAxes a.ndim xa) ++ permuted sb (freeAxes b.ndim xb))
    (s' : Sector) {sa sb : Sector} (hsa : sa ∈ a.sectors) (hsb : sb ∈ b.sectors)
    (halx : permuted sb xb = permuted sa xa) :
    (permuted sa (freeAxes a.ndim xa) ++ permuted sb (freeAxes b.ndim xb))
        ∈ tsSurv c a.ndim b.ndim xa xb ya yb s'
      ↔ (permuted sb (xb ++ yb) = permuted sa (xa ++ ya)
        ∧ permuted sa (freeAxes a.ndim (xa ++ ya)) ++ permuted sb (freeAxes b.ndim (xb ++ yb)) = s') := by
  have hA : Mid a.ndim xa ya := Mid.of W2.nA W2.ltA
  have hB : Mid b.ndim xb yb := Mid.of W2.nB W2.ltB
  have lA : sa.length = a.ndim := (shape_of_mem (Arr.shapesOk_of_validB W1.va) hsa).choose_spec.2.2.2
  have lB : sb.length = b.ndim := (shape_of_mem (Arr.shapesOk_of_validB W1.vb) hsb).choose_spec.2.2.2
  unfold tsSurv
  rw [List.mem_filter]
  simp only [Bool.and_eq_true, beq_iff_eq]
  rw [permuted_tsPA hA sa _ lA,
    permuted_tsPB hB _ sb (TdotP.permuted_length _ _ (by rw [lA]; exact hA.flt)) lB,
    permuted_tsRhs hA hB sa sb lA lB,
    aligned_split sa sb xa ya xb yb (by rw [lA]; exact W1.ltA) (by rw [lB]; exact W1.ltB) W1.len]
  constructor
  · rintro ⟨_, h1, h2⟩; exact ⟨⟨halx, h1.symm⟩, h2⟩
  · rintro ⟨⟨_, h1⟩, h2⟩
    exact ⟨(hc _).mpr ⟨sa, hsa, sb, hsb, halx.symm, rfl⟩, h1.symm, h2⟩

/-- `hT` of the core for `tsBox` -/
theorem surv_box (W2 : AdmW a b (xa ++ ya) (xb ++ yb)) {sa sb : Sector}
    (hsa : sa ∈ a.sectors) (hsb : sb ∈ b.sectors) :
    tsBox a b xa xb ya (permuted sa (freeAxes a.ndim xa) ++ permuted sb (freeAxes b.ndim xb))
      = permuted (Arr.blockShapeD a.indices sa) ya := by
  have hA : Mid a.ndim xa ya := Mid.of W2.nA W2.ltA
  unfold tsBox
  rw [free_shape (Arr.shapesOk_of_validB W2.va) (Arr.shapesOk_of_validB W2.vb) hsa hsb]
  obtain ⟨shpA, _, e2, e3, _⟩ := shape_of_mem (Arr.shapesOk_of_validB W2.va) hsa
  exact permuted_tsPA hA _ _ (by rw [e2, e3])

/-- `hboxI`: every assembled address lies in the intermediate's table box -/
theorem surv_inBox (W1 : AdmW a b xa xb) (W2 : AdmW a b (xa ++ ya) (xb ++ yb)) {sa sb : Sector}
    (hsa : sa ∈ a.sectors) (hsb : sb ∈ b.sectors)
    (hal : permuted sb (xb ++ yb) = permuted sa (xa ++ ya)) (t fL fR : List Nat)
    (ht : t ∈ allIdx (permuted (Arr.blockShapeD a.indices sa) ya))
    (hfL : fL.length = (freeAxes a.ndim (xa ++ ya)).length)
    (hbox : inBox (Arr.blockShapeD (without a.indices (xa ++ ya) ++ without b.indices (xb ++ yb))
      (permuted sa (freeAxes a.ndim (xa ++ ya)) ++ permuted sb (freeAxes b.ndim (xb ++ yb))))
      (fL ++ fR) = true) :
    inBox (Arr.blockShapeD (without a.indices xa ++ without b.indices xb)
        (permuted sa (freeAxes a.ndim xa) ++ permuted sb (freeAxes b.ndim xb)))
      (asmSide (freeAxes a.ndim xa) ya (freeAxes a.ndim (xa ++ ya)) t fL
        ++ asmSide (freeAxes b.ndim xb) yb (freeAxes b.ndim (xb ++ yb)) t fR) = true := by
  have hsA := Arr.shapesOk_of_validB W1.va
  have hsB := Arr.shapesOk_of_validB W1.vb
  have hlx := W1.len
  have hly : ya.length = yb.length := by
    have := W2.len; rw [List.length_append, List.length_append] at this; omega
  obtain ⟨hZ, hV, hZo⟩ := shape_ord W2 hlx hly hsa hsb hal
  have htb : inBox (permuted (Arr.blockShapeD a.indices sa) ya) t = true := mem_allIdx_iff.mp ht
  have htl : t.length = ya.length := by rw [inBox_length htb, hV]
  rw [free_shape hsA hsB hsa hsb] at hbox ⊢
  have hfR : fR.length = (freeAxes b.ndim (xb ++ yb)).length := by
    have h1 := inBox_length hbox
    rw [List.length_append, List.length_append,
      TdotP.permuted_length _ _ (by
        rw [(shape_of_mem hsA hsa).choose_spec.2.1, (shape_of_mem hsA hsa).choose_spec.2.2.1]
        intro x hx; exact (mem_freeAxes.mp hx).1),
      TdotP.permuted_length _ _ (by
        rw [(shape_of_mem hsB hsb).choose_spec.2.1, (shape_of_mem hsB hsb).choose_spec.2.2.1]
        intro x hx; exact (mem_freeAxes.mp hx).1)] at h1
    omega
  obtain ⟨hml, hmo⟩ := asm_ord a W2.nA W2.ltA W2.nB W2.ltB hly t fL fR htl hfL hfR
  have hboxO : inBox (permuted (permuted (Arr.blockShapeD a.indices sa) (freeAxes a.ndim xa)
        ++ permuted (Arr.blockShapeD b.indices sb) (freeAxes b.ndim xb)) (tsOrder a b.ndim xa xb ya yb))
      (dbl t ya.length ++ (fL ++ fR)) = true := by
    rw [hZo, TdotP.inBox_append (by rw [dbl_length, dbl_length]), inBox_dbl _ _ _ hV htb, hbox]
    rfl
  exact inBox_of_permuted _ _ (tsOrder a b.ndim xa xb ya yb) (tsN a.ndim b.ndim xa xb)
    (tsOrder_permH a b.ndim xa xb ya yb W2.nA W2.ltA W2.nB W2.ltB hly) hZ hml (by rw [hmo]; exact hboxO)

end geom

end TwoStepP
end SymmModel
