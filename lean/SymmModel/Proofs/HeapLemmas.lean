/-
  SymmModel.Proofs.HeapLemmas — frame reasoning for the heap model (property C14).

  `Step A D h h'`: `h'` is `h` after some effects that rebound slots only of array objects in `A`,
  mutated only dict objects in `D`, and allocated new objects; every object keeps its kind.
-/
import SymmModel.Model.Heap
namespace SymmModel.Heap

structure Step (A D : ObjId → Prop) (h h' : Heap) : Prop where
  size : h.size ≤ h'.size
  arr : ∀ i a, h.get? i = some (.arr a) → ∃ a', h'.get? i = some (.arr a') ∧ (¬ A i → a' = a)
  dict : ∀ i d, h.get? i = some (.dict d) → ∃ d', h'.get? i = some (.dict d') ∧ (¬ D i → d' = d)

def Never : ObjId → Prop := fun _ => False

theorem Step.refl (A D) (h : Heap) : Step A D h h :=
  ⟨Nat.le_refl _, fun _ a ha => ⟨a, ha, fun _ => rfl⟩, fun _ d hd => ⟨d, hd, fun _ => rfl⟩⟩

theorem get?_lt {h : Heap} {i : ObjId} {o : Obj} (hg : h.get? i = some o) : i < h.size := by
  unfold Heap.get? at hg
  unfold Heap.size
  exact (List.getElem?_eq_some_iff.mp hg).1

theorem Step.trans {A D A' D' : ObjId → Prop} {h h1 h2 : Heap}
    (s1 : Step A D h h1) (s2 : Step A' D' h1 h2)
    (hA : ∀ i, i < h.size → A' i → A i) (hD : ∀ i, i < h.size → D' i → D i) : Step A D h h2 := by
  refine ⟨Nat.le_trans s1.size s2.size, ?_, ?_⟩
  · intro i a ha
    obtain ⟨a1, h1a, e1⟩ := s1.arr i a ha
    obtain ⟨a2, h2a, e2⟩ := s2.arr i a1 h1a
    refine ⟨a2, h2a, fun hn => ?_⟩
    rw [e2 (fun h' => hn (hA i (get?_lt ha) h')), e1 hn]
  · intro i d hd
    obtain ⟨d1, h1d, e1⟩ := s1.dict i d hd
    obtain ⟨d2, h2d, e2⟩ := s2.dict i d1 h1d
    refine ⟨d2, h2d, fun hn => ?_⟩
    rw [e2 (fun h' => hn (hD i (get?_lt hd) h')), e1 hn]

theorem Step.mono {A D A' D' : ObjId → Prop} {h h' : Heap} (s : Step A D h h')
    (hA : ∀ i, A i → A' i) (hD : ∀ i, D i → D' i) : Step A' D' h h' :=
  ⟨s.size, fun i a ha => let ⟨a', h1, e⟩ := s.arr i a ha; ⟨a', h1, fun hn => e (fun x => hn (hA i x))⟩,
   fun i d hd => let ⟨d', h1, e⟩ := s.dict i d hd; ⟨d', h1, fun hn => e (fun x => hn (hD i x))⟩⟩

/-- an object that existed and is outside both write sets is identical afterwards -/
theorem Step.same {A D : ObjId → Prop} {h h' : Heap} (s : Step A D h h') {i : ObjId} {o : Obj}
    (hg : h.get? i = some o) (hA : ¬ A i) (hD : ¬ D i) : h'.get? i = some o := by
  cases o with
  | arr a => obtain ⟨a', h1, e⟩ := s.arr i a hg; rw [h1, e hA]
  | dict d => obtain ⟨d', h1, e⟩ := s.dict i d hg; rw [h1, e hD]

/-! ### primitives -/

theorem alloc_get?_old (h : Heap) (o : Obj) {i : ObjId} (hi : i < h.size) :
    (alloc h o).1.get? i = h.get? i := by
  simp only [alloc, Heap.get?]
  exact List.getElem?_append_left hi

theorem alloc_get?_new (h : Heap) (o : Obj) : (alloc h o).1.get? h.size = some o := by
  simp [alloc, Heap.get?, Heap.size]

theorem alloc_size (h : Heap) (o : Obj) : (alloc h o).1.size = h.size + 1 := by
  simp [alloc, Heap.size]

theorem alloc_id (h : Heap) (o : Obj) : (alloc h o).2 = h.size := rfl

theorem alloc_bufs (h : Heap) (o : Obj) : (alloc h o).1.bufs = h.bufs := rfl

theorem alloc_step (h : Heap) (o : Obj) : Step Never Never h (alloc h o).1 := by
  refine ⟨by rw [alloc_size]; omega, ?_, ?_⟩
  · intro i a ha; exact ⟨a, by rw [alloc_get?_old h o (get?_lt ha)]; exact ha, fun _ => rfl⟩
  · intro i d hd; exact ⟨d, by rw [alloc_get?_old h o (get?_lt hd)]; exact hd, fun _ => rfl⟩

theorem write_size (h : Heap) (i : ObjId) (o : Obj) : (write h i o).size = h.size := by
  simp [write, Heap.size]

theorem write_get?_ne (h : Heap) {i j : ObjId} (o : Obj) (hne : i ≠ j) :
    (write h i o).get? j = h.get? j := by
  simp only [write, Heap.get?]
  exact List.getElem?_set_ne hne

theorem write_get?_eq (h : Heap) {i : ObjId} (o : Obj) (hi : i < h.size) :
    (write h i o).get? i = some o := by
  simp only [write, Heap.get?]
  rw [List.getElem?_set_self hi]

theorem write_bufs (h : Heap) (i : ObjId) (o : Obj) : (write h i o).bufs = h.bufs := rfl

theorem updDict_step (h : Heap) (d : DictId) (f : Dict → Dict) :
    Step Never (· = d) h (updDict h d f) := by
  unfold updDict
  split
  · rename_i l hl
    refine ⟨by rw [write_size]; omega, ?_, ?_⟩
    · intro i a ha
      have hne : d ≠ i := by intro e; subst e; rw [hl] at ha; cases ha
      exact ⟨a, by rw [write_get?_ne h _ hne]; exact ha, fun _ => rfl⟩
    · intro i l' hd
      by_cases e : d = i
      · subst e
        exact ⟨f l, write_get?_eq h _ (get?_lt hl), fun hn => absurd rfl hn⟩
      · exact ⟨l', by rw [write_get?_ne h _ e]; exact hd, fun _ => rfl⟩
  · exact Step.refl _ _ _

theorem updDict_bufs (h : Heap) (d : DictId) (f : Dict → Dict) : (updDict h d f).bufs = h.bufs := by
  unfold updDict; split <;> rfl

theorem rebindField_step (h : Heap) (x : ObjId) (f : Field) :
    Step (· = x) Never h (rebindField h x f) := by
  unfold rebindField
  split
  · rename_i a hx
    refine ⟨by rw [write_size]; omega, ?_, ?_⟩
    · intro i a' ha
      by_cases e : x = i
      · subst e
        exact ⟨f.apply a, write_get?_eq h _ (get?_lt hx), fun hn => absurd rfl hn⟩
      · exact ⟨a', by rw [write_get?_ne h _ e]; exact ha, fun _ => rfl⟩
    · intro i l hd
      have hne : x ≠ i := by intro e; subst e; rw [hx] at hd; cases hd
      exact ⟨l, by rw [write_get?_ne h _ hne]; exact hd, fun _ => rfl⟩
  · exact Step.refl _ _ _

theorem rebindField_bufs (h : Heap) (x : ObjId) (f : Field) : (rebindField h x f).bufs = h.bufs := by
  unfold rebindField; split <;> rfl

theorem newBuffer_objs (h : Heap) (t : Nat) (args : List BufId) : (newBuffer h t args).1.objs = h.objs := rfl

theorem newBuffer_step (h : Heap) (t : Nat) (args : List BufId) : Step Never Never h (newBuffer h t args).1 :=
  ⟨Nat.le_refl _, fun _ a ha => ⟨a, ha, fun _ => rfl⟩, fun _ d hd => ⟨d, hd, fun _ => rfl⟩⟩

/-! ### allocation-only effects: the old heap is a prefix of the new one -/

def Ext (h h' : Heap) : Prop := ∃ l, h'.objs = h.objs ++ l

theorem Ext.refl (h : Heap) : Ext h h := ⟨[], by simp⟩
theorem Ext.trans {h h1 h2 : Heap} (a : Ext h h1) (b : Ext h1 h2) : Ext h h2 := by
  obtain ⟨l1, e1⟩ := a; obtain ⟨l2, e2⟩ := b
  exact ⟨l1 ++ l2, by rw [e2, e1, List.append_assoc]⟩
theorem Ext.size {h h' : Heap} (e : Ext h h') : h.size ≤ h'.size := by
  obtain ⟨l, e⟩ := e; simp [Heap.size, e]
theorem Ext.get? {h h' : Heap} (e : Ext h h') {i : ObjId} (hi : i < h.size) : h'.get? i = h.get? i := by
  obtain ⟨l, e⟩ := e
  simp only [Heap.get?, e]
  exact List.getElem?_append_left hi
theorem Ext.step {h h' : Heap} (e : Ext h h') : Step Never Never h h' :=
  ⟨e.size, fun i a ha => ⟨a, by rw [e.get? (get?_lt ha)]; exact ha, fun _ => rfl⟩,
   fun i d hd => ⟨d, by rw [e.get? (get?_lt hd)]; exact hd, fun _ => rfl⟩⟩

theorem alloc_ext (h : Heap) (o : Obj) : Ext h (alloc h o).1 := ⟨[o], rfl⟩
theorem newBuffer_ext (h : Heap) (t : Nat) (a : List BufId) : Ext h (newBuffer h t a).1 := ⟨[], by simp [newBuffer]⟩

theorem buildEntries_objs (h : Heap) (es : List (Key × BufSrc)) : (buildEntries h es).1.objs = h.objs := by
  induction es generalizing h with
  | nil => rfl
  | cons e r ih =>
    obtain ⟨k, s⟩ := e
    cases s with
    | old b => simp only [buildEntries]; exact ih h
    | kern t a => simp only [buildEntries]; rw [ih]; rfl

theorem buildDict_objs (h : Heap) (es : List (Key × BufSrc)) :
    ∃ d, (buildDict h es).1.objs = h.objs ++ [Obj.dict d] ∧ (buildDict h es).2 = h.size := by
  refine ⟨(buildEntries h es).2.foldl (fun acc e => acc.set e.1 e.2) [], ?_, ?_⟩
  · simp only [buildDict, newDict, alloc, buildEntries_objs]
  · simp only [buildDict, newDict, alloc, buildEntries_objs, Heap.size]

theorem copyDict_objs (h : Heap) (d : DictId) :
    (copyDict h d).1.objs = h.objs ++ [Obj.dict (h.dictOf d)] ∧ (copyDict h d).2 = h.size := ⟨rfl, rfl⟩

theorem newDict_objs (h : Heap) (d : Dict) :
    (newDict h d).1.objs = h.objs ++ [Obj.dict d] ∧ (newDict h d).2 = h.size := ⟨rfl, rfl⟩

theorem allocArray_objs (h : Heap) (a : ArrObj) :
    (allocArray h a).1.objs = h.objs ++ [Obj.arr a] ∧ (allocArray h a).2 = h.size := ⟨rfl, rfl⟩

/-- a value created by an allocation-only effect: it and everything it points to is new -/
structure FreshObj (h h' : Heap) (x : ObjId) : Prop where
  ge : h.size ≤ x
  lt : x < h'.size
  dicts : ∀ d ∈ dictsOf h' x, h.size ≤ d

theorem dictsOf_of_get? {h : Heap} {x : ObjId} {a : ArrObj} (hx : h.get? x = some (.arr a)) :
    dictsOf h x = dictsOfArr a := by simp [dictsOf, Heap.arrOf, hx]

theorem dictsOf_of_dict {h : Heap} {x : ObjId} {d : Dict} (hx : h.get? x = some (.dict d)) :
    dictsOf h x = [] := by simp [dictsOf, Heap.arrOf, hx]

theorem get?_append_len (h : Heap) (l : List Obj) (o : Obj) (r : List Obj) :
    ({ h with objs := l ++ o :: r } : Heap).get? l.length = some o := by
  simp [Heap.get?]

theorem freshObj_dict {h h' : Heap} {x : ObjId} {d : Dict} (hge : h.size ≤ x)
    (hx : h'.get? x = some (.dict d)) : FreshObj h h' x :=
  ⟨hge, get?_lt hx, by rw [dictsOf_of_dict hx]; simp⟩

theorem newDict_spec (h : Heap) (d : Dict) :
    Ext h (newDict h d).1 ∧ FreshObj h (newDict h d).1 (newDict h d).2 :=
  ⟨alloc_ext _ _, freshObj_dict (d := d) (Nat.le_refl _) (alloc_get?_new _ _)⟩

theorem copyDict_spec (h : Heap) (d : DictId) :
    Ext h (copyDict h d).1 ∧ FreshObj h (copyDict h d).1 (copyDict h d).2 := newDict_spec _ _

theorem buildDict_ext (h : Heap) (es : List (Key × BufSrc)) : Ext h (buildDict h es).1 := by
  obtain ⟨d, e, _⟩ := buildDict_objs h es
  exact ⟨_, e⟩

theorem allocArray_fresh {h0 h : Heap} (a : ArrObj) (he : Ext h0 h) (hb : h0.size ≤ a.blocks)
    (hp : ∀ p, a.phases = some p → h0.size ≤ p) :
    Ext h0 (allocArray h a).1 ∧ FreshObj h0 (allocArray h a).1 (allocArray h a).2 := by
  refine ⟨he.trans (alloc_ext _ _), ?_, ?_, ?_⟩
  · exact he.size
  · show h.size < (alloc h _).1.size
    rw [alloc_size]; omega
  · have : (allocArray h a).1.get? (allocArray h a).2 = some (.arr a) := alloc_get?_new _ _
    rw [dictsOf_of_get? this]
    intro d hd
    simp only [dictsOfArr, List.mem_cons, Option.mem_toList] at hd
    rcases hd with rfl | hd
    · exact hb
    · exact hp d hd

theorem FreshObj.ge_of_ext {h0 h h' : Heap} {x : ObjId} (he : Ext h0 h) (f : FreshObj h h' x) : h0.size ≤ x :=
  Nat.le_trans he.size f.ge

theorem buildDict_spec (h : Heap) (es : List (Key × BufSrc)) :
    Ext h (buildDict h es).1 ∧ FreshObj h (buildDict h es).1 (buildDict h es).2 := by
  obtain ⟨d, e, hid⟩ := buildDict_objs h es
  refine ⟨⟨_, e⟩, ?_⟩
  have hg : (buildDict h es).1.get? (buildDict h es).2 = some (.dict d) := by
    rw [hid]; simp [Heap.get?, e, Heap.size]
  exact freshObj_dict (by rw [hid]; exact Nat.le_refl _) hg

theorem blocksFor_spec (h : Heap) (o : ArrObj) (mb) :
    Ext h (blocksFor h o mb).1 ∧ FreshObj h (blocksFor h o mb).1 (blocksFor h o mb).2 := by
  unfold blocksFor
  cases mb with
  | some es => exact buildDict_spec _ _
  | none => exact copyDict_spec _ _

theorem phasesFor_spec (h : Heap) (o : ArrObj) (mp) :
    Ext h (phasesFor h o mp).1 ∧ ∀ q, (phasesFor h o mp).2 = some q → h.size ≤ q := by
  unfold phasesFor
  cases o.phases with
  | none => exact ⟨Ext.refl _, by simp⟩
  | some p =>
    cases mp with
    | some d =>
      refine ⟨(newDict_spec h d).1, ?_⟩
      intro q hq
      simp only [Option.some.injEq] at hq
      subst hq; exact (newDict_spec h d).2.ge
    | none =>
      refine ⟨(copyDict_spec h p).1, ?_⟩
      intro q hq
      simp only [Option.some.injEq] at hq
      subst hq; exact (copyDict_spec h p).2.ge

theorem copyWithArr_spec (h : Heap) (x : ObjId) (m : Mods) :
    Ext h (copyWithArr h x m).1 ∧ FreshObj h (copyWithArr h x m).1 (copyWithArr h x m).2 := by
  unfold copyWithArr
  split
  · exact newDict_spec _ _
  · rename_i o ho
    have s1 := blocksFor_spec h o m.blocks
    have s2 := phasesFor_spec (blocksFor h o m.blocks).1 o m.phases
    exact allocArray_fresh _ (s1.1.trans s2.1) s1.2.ge
      (fun q hq => Nat.le_trans s1.1.size (s2.2 q hq))

theorem copyArr_spec (h : Heap) (x : ObjId) :
    Ext h (copyArr h x).1 ∧ FreshObj h (copyArr h x).1 (copyArr h x).2 := by
  unfold copyArr
  split
  · exact newDict_spec _ _
  · rename_i o ho
    have s1 := blocksFor_spec h o none
    have s2 := phasesFor_spec (blocksFor h o none).1 o none
    exact allocArray_fresh _ (s1.1.trans s2.1) s1.2.ge
      (fun q hq => Nat.le_trans s1.1.size (s2.2 q hq))

theorem constructArr_spec (h : Heap) (i : Nat) (c : Int) (es : List (Key × BufSrc)) (f : Bool) (o : Nat) :
    Ext h (constructArr h i c es f o).1 ∧
      FreshObj h (constructArr h i c es f o).1 (constructArr h i c es f o).2 := by
  unfold constructArr
  have s1 := buildDict_spec h es
  have s2 := copyDict_spec (buildDict h es).1 (buildDict h es).2
  cases f with
  | false =>
    simp only [Bool.false_eq_true, if_false]
    exact allocArray_fresh _ (s1.1.trans s2.1) (s2.2.ge_of_ext s1.1) (by simp)
  | true =>
    simp only [if_true]
    have s3 := newDict_spec (copyDict (buildDict h es).1 (buildDict h es).2).1 []
    refine allocArray_fresh _ ((s1.1.trans s2.1).trans s3.1) (s2.2.ge_of_ext s1.1) ?_
    intro q hq
    simp only [Option.some.injEq] at hq
    subst hq
    exact s3.2.ge_of_ext (s1.1.trans s2.1)

/-! ### in-place effects on one array object -/

theorem arrOf_eq_some {h : Heap} {x : ObjId} {o : ArrObj} : h.arrOf x = some o ↔ h.get? x = some (.arr o) := by
  unfold Heap.arrOf
  split
  · rename_i a ha; simp [ha]
  · rename_i hn
    constructor
    · intro e; cases e
    · intro e; exact absurd e (hn o)

theorem arrOf_eq_none_of_dict {h : Heap} {x : ObjId} {d : Dict} (hx : h.get? x = some (.dict d)) :
    h.arrOf x = none := by simp [Heap.arrOf, hx]

theorem Step.arrOf_same {A D : ObjId → Prop} {h h' : Heap} (s : Step A D h h') {x : ObjId} {o : ArrObj}
    (hx : h.arrOf x = some o) (hA : ¬ A x) : h'.arrOf x = some o := by
  obtain ⟨a', h1, e⟩ := s.arr x o (arrOf_eq_some.mp hx)
  rw [arrOf_eq_some, h1, e hA]

/-- an existing object that is not rebound keeps the dicts it points to -/
theorem Step.dictsOf_same {A D : ObjId → Prop} {h h' : Heap} (s : Step A D h h') {x : ObjId}
    (hx : x < h.size) (hA : ¬ A x) : dictsOf h' x = dictsOf h x := by
  have : ∃ o, h.get? x = some o := by
    unfold Heap.get?; unfold Heap.size at hx
    exact ⟨h.objs[x], List.getElem?_eq_getElem hx⟩
  obtain ⟨o, ho⟩ := this
  cases o with
  | arr a =>
    obtain ⟨a', h1, e⟩ := s.arr x a ho
    rw [dictsOf_of_get? h1, dictsOf_of_get? ho, e hA]
  | dict d =>
    obtain ⟨d', h1, _⟩ := s.dict x d ho
    rw [dictsOf_of_dict h1, dictsOf_of_dict ho]

def Field.dictIds : Field → List DictId
  | .blocks d => [d]
  | .phases d => [d]
  | _ => []

theorem dictsOf_rebindField (h : Heap) (x : ObjId) (f : Field) :
    ∀ d ∈ dictsOf (rebindField h x f) x, d ∈ dictsOf h x ∨ d ∈ f.dictIds := by
  unfold rebindField
  split
  · rename_i a hx
    have hg : (write h x (.arr (f.apply a))).get? x = some (.arr (f.apply a)) := write_get?_eq h _ (get?_lt hx)
    rw [dictsOf_of_get? hg, dictsOf_of_get? hx]
    intro d hd
    cases f <;> simp_all [Field.apply, dictsOfArr, Field.dictIds]
    · rcases hd with h1 | h1
      · exact Or.inr h1
      · exact Or.inl (Or.inr h1)
    · rcases hd with h1 | h1
      · exact Or.inl (Or.inl h1)
      · exact Or.inr h1
  · intro d hd; exact Or.inl hd

theorem rebinds_step (h : Heap) (x : ObjId) (fs : List Field) : Step (· = x) Never h (rebinds h x fs) := by
  induction fs generalizing h with
  | nil => exact Step.refl _ _ _
  | cons f r ih =>
    exact (rebindField_step h x f).trans (ih (rebindField h x f)) (fun _ _ e => e) (fun _ _ e => e)

theorem dictsOf_rebinds (h : Heap) (x : ObjId) (fs : List Field) :
    ∀ d ∈ dictsOf (rebinds h x fs) x, d ∈ dictsOf h x ∨ d ∈ fs.flatMap Field.dictIds := by
  induction fs generalizing h with
  | nil => intro d hd; exact Or.inl hd
  | cons f r ih =>
    intro d hd
    rcases ih (rebindField h x f) d hd with h1 | h1
    · rcases dictsOf_rebindField h x f d h1 with h2 | h2
      · exact Or.inl h2
      · exact Or.inr (by simp only [List.flatMap_cons, List.mem_append]; exact Or.inl h2)
    · exact Or.inr (by simp only [List.flatMap_cons, List.mem_append]; exact Or.inr h1)

theorem rebinds_bufs (h : Heap) (x : ObjId) (fs : List Field) : (rebinds h x fs).bufs = h.bufs := by
  induction fs generalizing h with
  | nil => rfl
  | cons f r ih => exact (ih _).trans (rebindField_bufs h x f)

theorem argBlocks_spec (h : Heap) (mb) :
    Ext h (argBlocks h mb).1 ∧ ∀ q, (argBlocks h mb).2 = some q → h.size ≤ q := by
  unfold argBlocks
  cases mb with
  | none => exact ⟨Ext.refl _, by simp⟩
  | some es =>
    refine ⟨(buildDict_spec h es).1, ?_⟩
    intro q hq
    simp only [Option.some.injEq] at hq
    subst hq; exact (buildDict_spec h es).2.ge

theorem argPhases_spec (h : Heap) (o : ArrObj) (mp) :
    Ext h (argPhases h o mp).1 ∧ ∀ q, (argPhases h o mp).2 = some q → h.size ≤ q := by
  unfold argPhases
  split
  · rename_i d _ _
    refine ⟨(newDict_spec h d).1, ?_⟩
    intro q hq
    simp only [Option.some.injEq] at hq
    subst hq; exact (newDict_spec h d).2.ge
  · exact ⟨Ext.refl _, by simp⟩

theorem runModify_spec (m : Mods) (h : Heap) (x : ObjId) (o : ArrObj) (hx : h.arrOf x = some o) :
    Step (· = x) Never h (runModify m h x o) ∧
    ∀ d ∈ dictsOf (runModify m h x o) x, d ∈ dictsOf h x ∨ h.size ≤ d := by
  unfold runModify
  have s1 := argBlocks_spec h m.blocks
  have s2 := argPhases_spec (argBlocks h m.blocks).1 o m.phases
  have e12 := s1.1.trans s2.1
  constructor
  · exact (e12.step.mono (fun _ f => f.elim) (fun _ f => f.elim)).trans (rebinds_step _ x _)
      (fun _ _ e => e) (fun _ _ e => e)
  · intro d hd
    rcases dictsOf_rebinds _ x _ d hd with h1 | h1
    · left
      rwa [e12.step.dictsOf_same (get?_lt (arrOf_eq_some.mp hx)) (fun f => f)] at h1
    · right
      simp only [List.flatMap_append, List.mem_append, List.mem_flatMap, Option.mem_toList,
        Option.map_eq_some_iff] at h1
      rcases h1 with ((⟨f, ⟨q, hq, rfl⟩, hf⟩ | ⟨f, ⟨q, hq, rfl⟩, hf⟩) | ⟨f, ⟨q, hq, rfl⟩, hf⟩) | ⟨f, ⟨q, hq, rfl⟩, hf⟩
      · simp only [Field.dictIds, List.mem_singleton] at hf
        subst hf; exact Nat.le_trans s1.1.size (s2.2 _ hq)
      · simp [Field.dictIds] at hf
      · simp [Field.dictIds] at hf
      · simp only [Field.dictIds, List.mem_singleton] at hf
        subst hf; exact s1.2 _ hq

/-- mutating one of the dicts `self` points to -/
theorem updOwn_spec (h : Heap) (x : ObjId) (o : ArrObj) (hx : h.arrOf x = some o) (d : DictId)
    (hd : d ∈ dictsOf h x) (f : Dict → Dict) :
    Step (· = x) (· ∈ dictsOf h x) h (updDict h d f) ∧
    ∀ q ∈ dictsOf (updDict h d f) x, q ∈ dictsOf h x ∨ h.size ≤ q := by
  have st := updDict_step h d f
  refine ⟨st.mono (fun _ e => e.elim) (fun i e => by subst e; exact hd), ?_⟩
  intro q hq
  rw [st.dictsOf_same (get?_lt (arrOf_eq_some.mp hx)) (fun e => e)] at hq
  exact Or.inl hq

theorem blocks_mem_dictsOf {h : Heap} {x : ObjId} {o : ArrObj} (hx : h.arrOf x = some o) :
    o.blocks ∈ dictsOf h x := by simp [dictsOf, hx, dictsOfArr]

theorem phases_mem_dictsOf {h : Heap} {x : ObjId} {o : ArrObj} (hx : h.arrOf x = some o) {p : DictId}
    (hp : o.phases = some p) : p ∈ dictsOf h x := by simp [dictsOf, hx, dictsOfArr, hp]

theorem onPhases_spec (h : Heap) (x : ObjId) (o : ArrObj) (hx : h.arrOf x = some o) (f : Dict → Dict) :
    Step (· = x) (· ∈ dictsOf h x) h (onPhases h o (fun p => updDict h p f)) ∧
    ∀ q ∈ dictsOf (onPhases h o (fun p => updDict h p f)) x, q ∈ dictsOf h x ∨ h.size ≤ q := by
  unfold onPhases
  split
  · rename_i p hp
    exact updOwn_spec h x o hx p (phases_mem_dictsOf hx hp) f
  · exact ⟨Step.refl _ _ _, fun q hq => Or.inl hq⟩

theorem runAct_spec (a : Act) (h : Heap) (x : ObjId) :
    Step (· = x) (· ∈ dictsOf h x) h (runAct a h x) ∧
    ∀ d ∈ dictsOf (runAct a h x) x, d ∈ dictsOf h x ∨ h.size ≤ d := by
  unfold runAct
  split
  · exact ⟨Step.refl _ _ _, fun q hq => Or.inl hq⟩
  · rename_i o hx
    cases a with
    | modify m =>
      obtain ⟨s, d⟩ := runModify_spec m h x o hx
      exact ⟨s.mono (fun _ e => e) (fun _ e => e.elim), d⟩
    | setOddpos v =>
      dsimp only
      refine ⟨(rebindField_step h x _).mono (fun _ e => e) (fun _ e => e.elim), ?_⟩
      intro d hd
      rcases dictsOf_rebindField h x _ d hd with h1 | h1
      · exact Or.inl h1
      · simp [Field.dictIds] at h1
    | bKern k tag args =>
      dsimp only
      have hx' : (newBuffer h tag args).1.arrOf x = some o := by
        simpa [Heap.arrOf, Heap.get?, newBuffer_objs] using hx
      have := updOwn_spec (newBuffer h tag args).1 x o hx' o.blocks (blocks_mem_dictsOf hx')
        (fun l => l.set k ((newBuffer h tag args).2 : Int))
      have hds : dictsOf (newBuffer h tag args).1 x = dictsOf h x := by
        simp [dictsOf, hx, hx']
      rw [hds] at this
      refine ⟨(newBuffer_step h tag args).mono (fun _ e => e.elim) (fun _ e => e.elim) |>.trans this.1
        (fun _ _ e => e) (fun _ _ e => e), this.2⟩
    | bPut k b => exact updOwn_spec h x o hx o.blocks (blocks_mem_dictsOf hx) _
    | bPop k => exact updOwn_spec h x o hx o.blocks (blocks_mem_dictsOf hx) _
    | bUpdate src => exact updOwn_spec h x o hx o.blocks (blocks_mem_dictsOf hx) _
    | pSet k s => exact onPhases_spec h x o hx _
    | pPop k => exact onPhases_spec h x o hx _
    | pPopItem => exact onPhases_spec h x o hx _
    | pClear => exact onPhases_spec h x o hx _
    | pCopyThen f =>
      dsimp only
      unfold onPhases
      split
      · rename_i p hp
        dsimp only
        have c := copyDict_spec h p
        have u := updDict_step (copyDict h p).1 (copyDict h p).2 f
        have r := rebindField_step (updDict (copyDict h p).1 (copyDict h p).2 f) x (.phases (copyDict h p).2)
        have hlt := get?_lt (arrOf_eq_some.mp hx)
        have s12 : Step Never Never h (updDict (copyDict h p).1 (copyDict h p).2 f) :=
          c.1.step.trans u (fun _ _ e => e) (fun i hi e => by have := c.2.ge; have e' : i = (copyDict h p).2 := e; omega)
        refine ⟨(s12.mono (fun _ e => e.elim) (fun _ e => e.elim)).trans r (fun _ _ e => e) (fun _ _ e => e.elim), ?_⟩
        intro d hd
        rcases dictsOf_rebindField _ x _ d hd with h1 | h1
        · rw [s12.dictsOf_same hlt (fun e => e)] at h1; exact Or.inl h1
        · simp only [Field.dictIds, List.mem_singleton] at h1
          subst h1; exact Or.inr c.2.ge
      · exact ⟨Step.refl _ _ _, fun q hq => Or.inl hq⟩

/-! ### the ownership discipline and its soundness -/

/-- `i` may be rebound / mutated: it was allocated after `h0`, or it is in the declared write set -/
def Fresh (h0 : Heap) (W : ObjId → Prop) (i : ObjId) : Prop := h0.size ≤ i ∨ W i

/-- a variable the program may mutate through: the object is writable (an array of the write set
    `WA` or a new object) and the dicts it points to are writable (in `WD` or new) -/
structure Own (h0 : Heap) (WA WD : ObjId → Prop) (h : Heap) (i : ObjId) : Prop where
  lt : i < h.size
  self : Fresh h0 WA i
  dicts : ∀ d ∈ dictsOf h i, Fresh h0 WD d

/-- does the command respect ownership (`o[j]` = variable `j` is owned)? -/
def Cmd.ok (o : List Bool) : Cmd → Bool
  | .act t _ => o.getD t false
  | .dmut t _ => o.getD t false
  | .shareBlocks _ _ => false
  | .sharePhases _ _ => false
  | _ => true

/-- ownership flags after the command -/
def Cmd.push (o : List Bool) : Cmd → List Bool
  | .copy _ => o ++ [true]
  | .copyWith _ _ => o ++ [true]
  | .construct _ _ _ _ _ => o ++ [true]
  | .dictCopy _ => o ++ [true]
  | .alias s => o ++ [o.getD s false]
  | .dictRef _ => o ++ [false]
  | _ => o

/-- the program mutates only through owned variables; `Q` holds of the final ownership flags -/
def Safe (Q : List Bool → Prop) : List Bool → Prog → Prop
  | o, .done => Q o
  | o, .cmd c k => c.ok o = true ∧ Safe Q (c.push o) k
  | o, .read f => ∀ v, Safe Q o (f v)

structure Inv (h0 : Heap) (WA WD : ObjId → Prop) (h : Heap) (env : Env) (o : List Bool) : Prop where
  step : Step WA (fun i => WA i ∨ WD i) h0 h
  len : o.length = env.length
  own : ∀ j, o.getD j false = true → Own h0 WA WD h (envGet env j)

theorem envGet_append_left {env : Env} {j : Nat} (x : ObjId) (hj : j < env.length) :
    envGet (env ++ [x]) j = envGet env j := by
  simp [envGet, List.getD, List.getElem?_append_left hj]

theorem envGet_append_len (env : Env) (x : ObjId) : envGet (env ++ [x]) env.length = x := by
  simp [envGet, List.getD]

theorem getD_append_left {o : List Bool} {j : Nat} (b : Bool) (hj : j < o.length) :
    (o ++ [b]).getD j false = o.getD j false := by
  simp [List.getD, List.getElem?_append_left hj]

theorem getD_append_len (o : List Bool) (b : Bool) : (o ++ [b]).getD o.length false = b := by
  simp [List.getD]

theorem getD_true_lt {o : List Bool} {j : Nat} (h : o.getD j false = true) : j < o.length := by
  by_cases hj : j < o.length
  · exact hj
  · simp [List.getD, List.getElem?_eq_none (Nat.le_of_not_lt hj)] at h

theorem Own.ext {h0 : Heap} {WA WD : ObjId → Prop} {h h' : Heap} {i : ObjId} (w : Own h0 WA WD h i)
    {A D : ObjId → Prop} (s : Step A D h h') (hA : ¬ A i) : Own h0 WA WD h' i :=
  ⟨Nat.lt_of_lt_of_le w.lt s.size, w.self, by rw [s.dictsOf_same w.lt hA]; exact w.dicts⟩

/-- pushing a freshly allocated value -/
theorem Inv.push_fresh {h0 : Heap} {WA WD : ObjId → Prop} {h h' : Heap} {env : Env} {o : List Bool}
    (I : Inv h0 WA WD h env o) (e : Ext h h') {x : ObjId} (f : FreshObj h h' x) :
    Inv h0 WA WD h' (env ++ [x]) (o ++ [true]) := by
  refine ⟨I.step.trans e.step (fun _ _ e => e.elim) (fun _ _ e => e.elim), by simp [I.len], ?_⟩
  intro j hj
  by_cases hlt : j < o.length
  · rw [getD_append_left _ hlt] at hj
    rw [envGet_append_left _ (I.len ▸ hlt)]
    exact (I.own j hj).ext e.step (fun e => e)
  · have hj' := getD_true_lt hj
    have : j = env.length := by simp at hj'; rw [← I.len]; omega
    subst this
    rw [envGet_append_len]
    exact ⟨f.lt, Or.inl (Nat.le_trans I.step.size f.ge),
      fun d hd => Or.inl (Nat.le_trans I.step.size (f.dicts d hd))⟩

/-- pushing an existing value with a given flag -/
theorem Inv.push_alias {h0 : Heap} {WA WD : ObjId → Prop} {h : Heap} {env : Env} {o : List Bool}
    (I : Inv h0 WA WD h env o) (x : ObjId) (b : Bool) (hb : b = true → Own h0 WA WD h x) :
    Inv h0 WA WD h (env ++ [x]) (o ++ [b]) := by
  refine ⟨I.step, by simp [I.len], ?_⟩
  intro j hj
  by_cases hlt : j < o.length
  · rw [getD_append_left _ hlt] at hj
    rw [envGet_append_left _ (I.len ▸ hlt)]
    exact I.own j hj
  · have hj' := getD_true_lt hj
    have : j = env.length := by simp at hj'; rw [← I.len]; omega
    subst this
    rw [envGet_append_len]
    rw [← I.len, getD_append_len] at hj
    exact hb hj

theorem updDict_arr_noop {h : Heap} {i : ObjId} {a : ArrObj} (hi : h.get? i = some (.arr a))
    (f : Dict → Dict) : updDict h i f = h := by
  unfold updDict; rw [hi]

theorem runCmd_inv {h0 : Heap} {WA WD : ObjId → Prop} (c : Cmd) {h : Heap} {env : Env} {o : List Bool}
    (hok : c.ok o = true) (I : Inv h0 WA WD h env o) :
    Inv h0 WA WD (runCmd c h env).1 (runCmd c h env).2 (c.push o) := by
  cases c with
  | copy s => exact I.push_fresh (copyArr_spec h _).1 (copyArr_spec h _).2
  | copyWith s m => exact I.push_fresh (copyWithArr_spec h _ m).1 (copyWithArr_spec h _ m).2
  | construct i c es f od => exact I.push_fresh (constructArr_spec h i c es f od).1 (constructArr_spec h i c es f od).2
  | alias s =>
    exact I.push_alias _ _ (fun hb => I.own s hb)
  | dictCopy s =>
    simp only [runCmd]
    split
    · exact I.push_fresh (copyDict_spec h _).1 (copyDict_spec h _).2
    · exact I.push_fresh (newDict_spec h _).1 (newDict_spec h _).2
  | dictRef s =>
    simp only [runCmd]
    split
    · exact I.push_alias _ false (fun hb => by cases hb)
    · exact I.push_alias _ false (fun hb => by cases hb)
  | act t a =>
    simp only [Cmd.ok] at hok
    have wt := I.own t hok
    obtain ⟨st, ds⟩ := runAct_spec a h (envGet env t)
    refine ⟨I.step.trans st ?_ ?_, I.len, ?_⟩
    · intro i hi e
      have e' : i = envGet env t := e
      rcases wt.self with h1 | h1
      · omega
      · rw [e']; exact h1
    · intro i hi e
      rcases wt.dicts i e with h1 | h1
      · omega
      · exact Or.inr h1
    · intro j hj
      show Own h0 WA WD (runAct a h (envGet env t)) (envGet env j)
      by_cases e : envGet env j = envGet env t
      · rw [e]
        refine ⟨Nat.lt_of_lt_of_le wt.lt st.size, wt.self, ?_⟩
        intro d hd
        rcases ds d hd with h1 | h1
        · exact wt.dicts d h1
        · exact Or.inl (Nat.le_trans I.step.size h1)
      · exact (I.own j hj).ext st e
  | dmut t f =>
    simp only [Cmd.ok] at hok
    have wt := I.own t hok
    have st := updDict_step h (envGet env t) f
    refine ⟨I.step.trans st (fun _ _ e => e.elim) ?_, I.len, ?_⟩
    · intro i hi e
      have e' : i = envGet env t := e
      rcases wt.self with h1 | h1
      · omega
      · rw [e']; exact Or.inl h1
    · intro j hj
      show Own h0 WA WD (updDict h (envGet env t) f) (envGet env j)
      exact (I.own j hj).ext st (fun e => e)
  | shareBlocks t s => simp [Cmd.ok] at hok
  | sharePhases t s => simp [Cmd.ok] at hok

theorem runCmd_env (c : Cmd) (h : Heap) (env : Env) : ∃ e2, (runCmd c h env).2 = env ++ e2 := by
  cases c with
  | copy s => exact ⟨_, rfl⟩
  | copyWith s m => exact ⟨_, rfl⟩
  | construct i c es f o => exact ⟨_, rfl⟩
  | alias s => exact ⟨_, rfl⟩
  | dictCopy s => simp only [runCmd]; split <;> exact ⟨_, rfl⟩
  | dictRef s => simp only [runCmd]; split <;> exact ⟨_, rfl⟩
  | act t a => exact ⟨[], by simp [runCmd]⟩
  | dmut t f => exact ⟨[], by simp [runCmd]⟩
  | shareBlocks t s => simp only [runCmd]; split <;> exact ⟨[], by simp⟩
  | sharePhases t s =>
    simp only [runCmd]
    split
    · split <;> exact ⟨[], by simp⟩
    · exact ⟨[], by simp⟩

theorem Cmd.push_ext (c : Cmd) (o : List Bool) : ∃ ext, c.push o = o ++ ext := by
  cases c with
  | copy s => exact ⟨_, rfl⟩
  | copyWith s m => exact ⟨_, rfl⟩
  | construct i c es f o => exact ⟨_, rfl⟩
  | alias s => exact ⟨_, rfl⟩
  | dictCopy s => exact ⟨_, rfl⟩
  | dictRef s => exact ⟨_, rfl⟩
  | act t a => exact ⟨[], by simp [Cmd.push]⟩
  | dmut t f => exact ⟨[], by simp [Cmd.push]⟩
  | shareBlocks t s => exact ⟨[], by simp [Cmd.push]⟩
  | sharePhases t s => exact ⟨[], by simp [Cmd.push]⟩

/-- **soundness of the discipline**: a program that mutates only through owned variables rebinds, of
    the objects that existed in `h0`, at most the arrays in `WA` and mutates at most the dicts in `WD`;
    variables are only appended -/
theorem safe_inv {h0 : Heap} {WA WD : ObjId → Prop} {Q : List Bool → Prop} (p : Prog) :
    ∀ {h : Heap} {env : Env} {o : List Bool}, Safe Q o p → Inv h0 WA WD h env o →
      ∃ ext e2, Q (o ++ ext) ∧ (p.run h env).2 = env ++ e2 ∧
        Inv h0 WA WD (p.run h env).1 (p.run h env).2 (o ++ ext) := by
  induction p with
  | done => intro h env o hs I; exact ⟨[], [], by simpa [Safe] using hs, by simp [Prog.run], by simpa [Prog.run] using I⟩
  | cmd c k ih =>
    intro h env o hs I
    obtain ⟨hok, hk⟩ := hs
    have I1 := runCmd_inv c hok I
    obtain ⟨x1, hx1⟩ := c.push_ext o
    obtain ⟨y1, hy1⟩ := runCmd_env c h env
    obtain ⟨ext, e2, hq, he, hI⟩ := ih hk I1
    refine ⟨x1 ++ ext, y1 ++ e2, ?_, ?_, ?_⟩
    · rw [← List.append_assoc, ← hx1]; exact hq
    · simp only [Prog.run]; rw [he, hy1, List.append_assoc]
    · simp only [Prog.run]; rw [← List.append_assoc, ← hx1]; exact hI
  | read f ih =>
    intro h env o hs I
    exact ih _ (hs _) I

/-! ### the discipline for the program combinators -/

theorem safe_actsK {Q : List Bool → Prop} {o : List Bool} {t : Nat} (ht : o.getD t false = true)
    (as : List Act) (k : Prog) : Safe Q o (Prog.actsK t as k) ↔ Safe Q o k := by
  induction as with
  | nil => exact Iff.rfl
  | cons a r ih =>
    simp only [Prog.actsK, Safe, Cmd.ok, Cmd.push, ht, true_and]
    exact ih

theorem safe_mutsK {Q : List Bool → Prop} {o : List Bool} (l : List Mut)
    (hl : ∀ m ∈ l, o.getD m.tgt false = true) (k : Prog) : Safe Q o (Prog.mutsK l k) ↔ Safe Q o k := by
  induction l with
  | nil => exact Iff.rfl
  | cons m r ih =>
    have hm := hl m (List.mem_cons_self ..)
    have hr := ih (fun m' h' => hl m' (List.mem_cons_of_mem _ h'))
    cases m with
    | act t a =>
      simp only [Prog.mutsK, Mut.cmd, Safe, Cmd.ok, Cmd.push]
      simp only [Mut.tgt] at hm
      simp only [hm, true_and]; exact hr
    | dmut t f =>
      simp only [Prog.mutsK, Mut.cmd, Safe, Cmd.ok, Cmd.push]
      simp only [Mut.tgt] at hm
      simp only [hm, true_and]; exact hr

theorem safe_script {Q : List Bool → Prop} {o : List Bool} {t : Nat} (ht : o.getD t false = true)
    (others : List Nat) (s : Script) (k : Prog) : Safe Q o (s.prog t others k) ↔ Safe Q o k := by
  induction s with
  | nil => exact Iff.rfl
  | acts as s ih => simp only [Script.prog]; rw [safe_actsK ht]; exact ih
  | read f ih =>
    simp only [Script.prog, Safe]
    constructor
    · intro hv; exact (ih _ _).mp (hv [])
    · intro hk v; exact (ih _ _).mpr hk

theorem getD_append_right' {o l : List Bool} {n : Nat} (hn : o.length = n) (i : Nat) :
    (o ++ l).getD (n + i) false = l.getD i false := by
  subst hn
  simp [List.getD, List.getElem?_append_right]

theorem getD_append_left' {o l : List Bool} {j : Nat} (hj : j < o.length) :
    (o ++ l).getD j false = o.getD j false := by
  simp [List.getD, List.getElem?_append_left hj]

theorem safe_alignK_false {Q : List Bool → Prop} {o : List Bool} (ia ib : Nat) (p : AlignP) (k : Prog) :
    Safe Q o (alignK ia ib p false k) ↔ Safe Q (o ++ [true] ++ [true]) k := by
  simp only [alignK, Safe, Cmd.ok, Cmd.push, Bool.false_eq_true, if_false, true_and]
  exact ⟨fun h => h [], fun h _ => h⟩

theorem safe_alignK_true {Q : List Bool → Prop} {o : List Bool} {ia ib : Nat}
    (ha : o.getD ia false = true) (hb : o.getD ib false = true) (p : AlignP) (k : Prog) :
    Safe Q o (alignK ia ib p true k) ↔ Safe Q o k := by
  simp only [alignK, Safe, Cmd.ok, Cmd.push, if_true, ha, hb, true_and]
  exact ⟨fun h => h [], fun h _ => h⟩

theorem safe_tdotBlockwiseK {Q : List Bool → Prop} {o : List Bool} (ia ib : Nat) (p : TdotP) (k : Prog) :
    Safe Q o (tdotBlockwiseK ia ib p k) ↔ Safe Q (o ++ [true]) k := by
  simp only [tdotBlockwiseK, Safe, Cmd.ok, Cmd.push, true_and]
  exact ⟨fun h => h [], fun h _ => h⟩

theorem safe_fuseOutK {Q : List Bool → Prop} {o : List Bool} (src : Nat) (f : Option FuseP) (k : Prog) :
    Safe Q o (fuseOutK src f k) ↔ Safe Q (o ++ [true]) k := by
  cases f with
  | none => simp only [fuseOutK, Safe, Cmd.ok, Cmd.push, true_and]
  | some c =>
    simp only [fuseOutK, Safe, Cmd.ok, Cmd.push, true_and]
    exact ⟨fun h => h [], fun h _ => h⟩

theorem safe_tdotFusedK {Q : List Bool → Prop} {o : List Bool} {base : Nat} (hb : o.length = base)
    (ia ib : Nat) (p : FusedP) (k : Prog) (hk : Safe Q (o ++ [true, true, true, true, true]) k) :
    Safe Q o (tdotFusedK ia ib base p k) := by
  unfold tdotFusedK
  rw [safe_alignK_false]
  intro v
  dsimp only
  by_cases hc : ((v.at base).blocks.isEmpty || (v.at (base + 1)).blocks.isEmpty) = true
  · rw [if_pos hc]
    simp only [Safe, Cmd.ok, Cmd.push, true_and]
    have h2 : (o ++ [true] ++ [true] ++ [true]).getD (base + 2) false = true := by
      rw [List.append_assoc, List.append_assoc, getD_append_right' hb]; rfl
    have h3 : (o ++ [true] ++ [true] ++ [true] ++ [true]).getD (base + 2) false = true := by
      rw [List.append_assoc, List.append_assoc, List.append_assoc, getD_append_right' hb]; rfl
    rw [h2, h3]
    simpa using hk
  · rw [if_neg hc]
    rw [safe_fuseOutK, safe_fuseOutK, safe_tdotBlockwiseK]
    have h4 : (o ++ [true] ++ [true] ++ [true] ++ [true] ++ [true]).getD (base + 4) false = true := by
      simp only [List.append_assoc]
      rw [getD_append_right' hb]; rfl
    rw [safe_script h4, safe_script h4]
    simpa using hk

theorem safe_syncedK {Q : List Bool → Prop} {o : List Bool} {n : Nat} (hn : o.length = n)
    (src : Nat) (fermi : Bool) (k : Prog)
    (h1 : Safe Q (o ++ [true]) k) (h2 : Safe Q (o ++ [o.getD src false]) k) :
    Safe Q o (syncedK src n fermi k) := by
  unfold syncedK
  intro v
  dsimp only
  by_cases hc : (fermi && !List.isEmpty ((v.at src).phases.getD [])) = true
  · rw [if_pos hc]
    simp only [Safe, Cmd.ok, Cmd.push, true_and]
    have : (o ++ [true]).getD n false = true := by
      have := getD_append_right' (l := [true]) hn 0
      simpa using this
    rw [safe_script this]; exact h1
  · rw [if_neg hc]
    simp only [Safe, Cmd.ok, Cmd.push, true_and]; exact h2

theorem safe_binaryK {Q : List Bool → Prop} {o : List Bool} {t tmp : Nat} (ht : o.getD t false = true)
    (hn : o.length = tmp) (src : Nat) (missing : Missing) (k : Prog) (hk : Safe Q (o ++ [true]) k) :
    Safe Q o (binaryK t src tmp missing k) := by
  have htmp : (o ++ [true]).getD tmp false = true := by
    have := getD_append_right' (l := [true]) hn 0
    simpa using this
  have ht' : (o ++ [true]).getD t false = true := by
    rw [getD_append_left' (getD_true_lt ht)]; exact ht
  unfold binaryK
  simp only [Safe, Cmd.ok, Cmd.push, true_and]
  intro v
  have both : ∀ (ob : Dict) (e : Key × Val), ∀ m ∈ ([Mut.dmut tmp (fun d => d.pop e.1),
      Mut.act t (.bKern e.1 tFn [e.2.toNat, (ob.getD e.1 0).toNat])] : List Mut),
      (o ++ [true]).getD m.tgt false = true := by
    intro ob e m hm
    simp only [List.mem_cons, List.not_mem_nil, or_false] at hm
    rcases hm with rfl | rfl
    · exact htmp
    · exact ht'
  cases missing with
  | strict =>
    dsimp only
    rw [safe_mutsK]; exact hk
    intro m hm
    simp only [List.mem_flatMap] at hm
    obtain ⟨e, _, hm⟩ := hm
    exact both _ e m hm
  | outer =>
    dsimp only
    rw [safe_mutsK]
    · intro v'
      simp only [Safe, Cmd.ok, Cmd.push, ht', true_and]; exact hk
    · intro m hm
      simp only [List.mem_flatMap] at hm
      obtain ⟨e, _, hm⟩ := hm
      split at hm
      · exact both _ e m hm
      · simp only [List.mem_cons, List.not_mem_nil, or_false] at hm
        subst hm; exact ht'
  | inner =>
    dsimp only
    rw [safe_mutsK]; exact hk
    intro m hm
    simp only [List.mem_flatMap] at hm
    obtain ⟨e, _, hm⟩ := hm
    split at hm
    · exact both _ e m hm
    · simp only [List.mem_cons, List.not_mem_nil, or_false] at hm
      subst hm; exact ht'

theorem safe_svdK {Q : List Bool → Prop} (p : FactorP) (k : Prog) (hk : Safe Q [false, true, true, true] k) :
    Safe Q [false] (svdK p k) := by
  unfold svdK
  intro v
  simp only [Safe, Cmd.ok, Cmd.push, true_and, List.cons_append, List.nil_append]
  rw [safe_script (by rfl)]; exact hk

end SymmModel.Heap
