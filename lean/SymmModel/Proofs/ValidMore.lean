/-
  SymmModel.Proofs.ValidMore — validity under sync_charges, drop_misaligned, multiply_diagonal,
  blockwise arithmetic, expand_dims and squeeze (property C01, items 4 and 6).
-/
import SymmModel.Proofs.ValidTdot

namespace SymmModel
namespace ValidP
open Sym

variable {R : Type}

/-! ## dropping blocks and unused charges -/

theorem signsOk_dropUnused {sym : Sym} {fermi : Bool} {idx : List Index} {ch : Charge}
    {ph : List (Sector × Int)} {op : List (Int × Bool)} (secs : List Sector)
    (h : SignsOk sym fermi idx ch ph op) : SignsOk sym fermi (dropUnused idx secs) ch ph op := by
  unfold SignsOk at *
  split
  · rename_i hf
    simp only [hf, if_true] at h
    exact ⟨phasesOk_retarget h.1 (fun s hs => secOk_dropUnused secs hs), h.2⟩
  · rename_i hf
    simp only [hf, if_false] at h
    exact h

/-- keep a sub-list of the blocks and drop the charges that the kept sectors do not use -/
theorem valid_filter_drop (a : Arr R) (hv : Valid a) (p : Sector × Blk R → Bool) :
    Valid { a with blocks := a.blocks.filter p,
                   indices := dropUnused a.indices ((a.blocks.filter p).map (·.1)) } := by
  refine ⟨dropUnused_wf _ hv.idx, hv.chg, ?_, ?_, signsOk_dropUnused _ hv.sgn⟩
  · exact List.Nodup.sublist (List.Sublist.map _ List.filter_sublist) hv.nodup
  · intro sb hsb
    obtain ⟨h1, h2, h3⟩ := hv.blk sb (List.mem_filter.mp hsb).1
    refine ⟨secOk_dropUnused _ h1, ?_, h3⟩
    show Arr.blockShape? (dropUnused a.indices _) sb.1 = some sb.2.shape
    rw [dropUnused_blockShape _ _ _ (List.mem_map.mpr ⟨sb, hsb, rfl⟩)]
    exact h2

theorem syncCharges_eq (a : Arr R) :
    a.syncCharges = { a with indices := dropUnused a.indices a.sectors } := rfl

theorem syncCharges_valid (a : Arr R) (hv : Valid a) : Valid a.syncCharges := by
  rw [syncCharges_eq]
  have := valid_filter_drop a hv (fun _ => true)
  simp only [List.filter_true] at this
  exact this

theorem dropMisaligned_valid (a b : Arr R) (axesA axesB : List Nat) (ha : Valid a) (hb : Valid b) :
    Valid (dropMisaligned a b axesA axesB).1 ∧ Valid (dropMisaligned a b axesA axesB).2 := by
  unfold dropMisaligned
  exact ⟨valid_filter_drop a ha _, valid_filter_drop b hb _⟩

/-! ## multiply_diagonal -/

theorem filterMap_keys_sublist {β γ : Type} (f : Sector × β → Option (Sector × γ))
    (hf : ∀ x y, f x = some y → y.1 = x.1) (l : List (Sector × β)) :
    ((l.filterMap f).map (·.1)).Sublist (l.map (·.1)) := by
  induction l with
  | nil => simp
  | cons x l ih =>
    rw [List.filterMap_cons]
    cases hx : f x with
    | none => simp only [List.map_cons]; exact ih.cons _
    | some y =>
      simp only [List.map_cons]
      rw [hf x y hx]
      exact ih.cons₂ _

theorem multiplyDiagonal_valid [Zero R] [Mul R] (a : Arr R) (v : BVec R) (axis : Nat)
    (hv : Valid a) : Valid (multiplyDiagonal a v axis) := by
  unfold multiplyDiagonal
  refine ⟨hv.idx, hv.chg, ?_, ?_, hv.sgn⟩
  · refine List.Nodup.sublist (filterMap_keys_sublist _ ?_ a.blocks) hv.nodup
    rintro ⟨s, b⟩ y hy
    simp only at hy
    split at hy
    · cases hy; rfl
    · cases hy
  · intro sb hsb
    obtain ⟨⟨s, b⟩, h0, h1⟩ := List.mem_filterMap.mp hsb
    simp only at h1
    split at h1
    · cases h1
      obtain ⟨a1, a2, _⟩ := hv.blk (s, b) h0
      exact ⟨a1, a2, ofFn_wf _ _⟩
    · cases h1

/-! ## blockwise arithmetic -/

/-- the kernel of a blockwise binary operation keeps the common shape (numpy `a op b`) -/
def ShapePreserving (fn : Blk R → Blk R → Blk R) : Prop :=
  ∀ x y : Blk R, x.shape = y.shape → x.wf = true → y.wf = true →
    (fn x y).shape = x.shape ∧ (fn x y).wf = true

theorem zipWith_shapePreserving [Zero R] (f : R → R → R) : ShapePreserving (Blk.zipWith f) :=
  fun _ _ _ _ _ => ⟨rfl, ofFn_wf _ _⟩

/-- blockwise arithmetic: the second operand only has to fit the first one's tables -/
theorem binaryBlockwise_valid' (fn : Blk R → Blk R → Blk R) (hfn : ShapePreserving fn)
    (missing : Missing) (x : Arr R) (yblocks r : List (Sector × Blk R))
    (hx : Valid x) (hynodup : (yblocks.map (·.1)).Nodup)
    (hyblk : ∀ sb ∈ yblocks, BlockOk x.sym x.indices x.charge sb)
    (h : binaryBlockwise fn missing x.blocks yblocks = .ok r) :
    Valid { x with blocks := r } := by
  -- the block that a key of `x` receives
  have hone : ∀ (k : Sector) (bx : Blk R), (k, bx) ∈ x.blocks →
      BlockOk x.sym x.indices x.charge
        (match alookup yblocks k with
          | some b => (k, fn bx b)
          | none => (k, bx)) := by
    intro k bx hk
    obtain ⟨a1, a2, a3⟩ := hx.blk (k, bx) hk
    split
    · rename_i b hb
      obtain ⟨b1, b2, b3⟩ := hyblk (k, b) (alookup_some_mem hb)
      have hsh : bx.shape = b.shape := by
        have := a2.symm.trans b2
        simpa using this
      obtain ⟨c1, c2⟩ := hfn bx b hsh a3 b3
      exact ⟨a1, by simp only [c1]; exact a2, c2⟩
    · exact ⟨a1, a2, a3⟩
  cases missing with
  | strict =>
    simp only [binaryBlockwise] at h
    split at h
    · cases h
    · split at h
      · cases h
      · simp only [pure, Except.pure, Except.ok.injEq] at h
        subst h
        refine ⟨hx.idx, hx.chg, ?_, ?_, hx.sgn⟩
        · show (List.map (fun p : Sector × Blk R => p.1) (x.blocks.map _)).Nodup
          rw [keys_map_of _ _ (by rintro ⟨k, bx⟩ _; simp only; split <;> rfl)]; exact hx.nodup
        · intro sb hsb
          obtain ⟨⟨k, bx⟩, h0, rfl⟩ := List.mem_map.mp hsb
          exact hone k bx h0
  | outer =>
    simp only [binaryBlockwise, pure, Except.pure, Except.ok.injEq] at h
    subst h
    refine ⟨hx.idx, hx.chg, ?_, ?_, hx.sgn⟩
    · show (List.map (fun p : Sector × Blk R => p.1) (x.blocks.map _ ++ yblocks.filter _)).Nodup
      rw [List.map_append, keys_map_of _ _ (by rintro ⟨k, bx⟩ _; simp only; split <;> rfl)]
      refine List.nodup_append.mpr ⟨hx.nodup, ?_, ?_⟩
      · exact List.Nodup.sublist (List.Sublist.map _ List.filter_sublist) hynodup
      · intro k hk k' hk' hkk
        subst hkk
        obtain ⟨⟨k2, b2⟩, hm, rfl⟩ := List.mem_map.mp hk'
        have hnone := (List.mem_filter.mp hm).2
        simp only [Option.isNone_iff_eq_none] at hnone
        exact (alookup_eq_none_iff.mp hnone) hk
    · intro sb hsb
      rcases List.mem_append.mp hsb with h1 | h1
      · obtain ⟨⟨k, bx⟩, h0, rfl⟩ := List.mem_map.mp h1
        exact hone k bx h0
      · exact hyblk sb (List.mem_filter.mp h1).1
  | inner =>
    simp only [binaryBlockwise, pure, Except.pure, Except.ok.injEq] at h
    subst h
    refine ⟨hx.idx, hx.chg, ?_, ?_, hx.sgn⟩
    · refine List.Nodup.sublist (filterMap_keys_sublist _ ?_ x.blocks) hx.nodup
      rintro ⟨k, bx⟩ z hz
      simp only at hz
      split at hz
      · cases hz; rfl
      · cases hz
    · intro sb hsb
      obtain ⟨⟨k, bx⟩, h0, h1⟩ := List.mem_filterMap.mp hsb
      simp only at h1
      split at h1
      · rename_i b hb
        cases h1
        have := hone k bx h0
        rw [hb] at this
        exact this
      · cases h1

theorem binaryBlockwise_valid (fn : Blk R → Blk R → Blk R) (hfn : ShapePreserving fn)
    (missing : Missing) (x y : Arr R) (r : List (Sector × Blk R))
    (hx : Valid x) (hy : Valid y) (hsym : y.sym = x.sym) (hidx : y.indices = x.indices)
    (hch : y.charge = x.charge)
    (h : binaryBlockwise fn missing x.blocks y.blocks = .ok r) :
    Valid { x with blocks := r } := by
  apply binaryBlockwise_valid' fn hfn missing x y.blocks r hx hy.nodup _ h
  intro sb hsb
  have := hy.blk sb hsb
  rw [hsym, hidx, hch] at this
  exact this

/-! ## expand_dims -/

/-- the direction `expand_dims` picks (copy of the model text) -/
def expandDual (a : Arr R) (axis : Nat) (dual : Option Bool) : Bool :=
  match dual with
  | some d => d
  | none =>
    if axis > 0 then (a.indices.getD (axis - 1) default).dual
    else if axis < a.ndim then (a.indices.getD axis default).dual
    else false

/-- a sub-table of a well-formed sign table is well formed (`_map_blocks` keeps only the entries
    of stored blocks) -/
theorem phasesOk_filter {sym : Sym} {idx : List Index} {ch : Charge} {ph : List (Sector × Int)}
    (p : Sector × Int → Bool) (h : PhasesOk sym idx ch ph) : PhasesOk sym idx ch (ph.filter p) :=
  ⟨List.Nodup.sublist (List.Sublist.map _ List.filter_sublist) h.1,
   fun sp hsp => h.2 sp (List.mem_filter.mp hsp).1⟩

/-- `expand_dims` with the inserted charge, direction and new total charge made explicit -/
def expandWith (a : Arr R) (axis : Nat) (c : Charge) (d : Bool) (newCharge : Charge) : Arr R :=
  let a' := a.mapBlocks (fun s => s.take axis ++ [c] ++ s.drop axis) (fun b => b.expandK axis)
  { a' with indices := a.indices.take axis ++ [Index.mk [(c, 1)] d none] ++ a.indices.drop axis,
            charge := newCharge }

theorem expandDims_none (a : Arr R) (axis : Nat) (dual : Option Bool) :
    a.expandDims axis none dual = expandWith a axis a.sym.zero (expandDual a axis dual) a.charge := rfl

theorem expandDims_some (a : Arr R) (axis : Nat) (c : Charge) (dual : Option Bool) :
    a.expandDims axis (some c) dual = expandWith a axis c (expandDual a axis dual)
      (a.sym.combine [a.charge, a.sym.sign c (expandDual a axis dual)]) := rfl

theorem combine_zero_right_valid (s : Sym) (c : Charge) (h : s.valid c = true) :
    s.combine [c, s.zero] = c := by
  obtain ⟨c1, c2⟩ := c
  cases s <;> sym_arith

theorem zero_valid (s : Sym) : s.valid s.zero = true := by cases s <;> decide

theorem expandWith_valid (a : Arr R) (axis : Nat) (c : Charge) (d : Bool) (newCharge : Charge)
    (hv : Valid a) (hc : a.sym.valid c = true)
    (hnew : newCharge = a.sym.combine [a.charge, a.sym.sign c d])
    (hpar : a.fermi = false ∨ a.sym.parity newCharge = a.sym.parity a.charge) :
    Valid (expandWith a axis c d newCharge) := by
  have hsec : ∀ s, SecOk a.sym a.indices a.charge s →
      SecOk a.sym (a.indices.take axis ++ [Index.mk [(c, 1)] d none] ++ a.indices.drop axis)
        newCharge (s.take axis ++ [c] ++ s.drop axis) := by
    intro s hs
    rw [hnew]
    exact secOk_insert axis (Index.mk [(c, 1)] d none) c hs
  unfold expandWith Arr.mapBlocks
  refine ⟨?_, ?_, adict_keys_nodup _, ?_, ?_⟩
  · intro i hi
    simp only [List.append_assoc, List.mem_append, List.mem_cons, List.not_mem_nil, or_false] at hi
    rcases hi with hi | rfl | hi
    · exact hv.idx i (List.mem_of_mem_take hi)
    · refine (wfB_none _ _ _).mpr ⟨by simp [isSortedStrict], ?_⟩
      intro p hp
      simp only [List.mem_singleton] at hp
      subst hp
      exact ⟨Nat.one_pos, hc⟩
    · exact hv.idx i (List.mem_of_mem_drop hi)
  · show a.sym.valid newCharge = true
    rw [hnew]; exact Sym.combine_valid _ _
  · intro sb hsb
    obtain ⟨⟨s, b⟩, h0, rfl⟩ := List.mem_map.mp (mem_adict hsb)
    obtain ⟨a1, a2, a3⟩ := hv.blk (s, b) h0
    refine ⟨hsec s a1, ?_, expandK_wf b axis a3⟩
    exact blockShape?_insert axis (Index.mk [(c, 1)] d none) c 1
      (by simp [Index.sizeOf?, Index.cm, alookup]) a2
  · have hs := hv.sgn
    unfold SignsOk at hs ⊢
    show if a.fermi = true then _ else _
    split
    · rename_i hf
      simp only [hf, if_true] at hs ⊢
      refine ⟨?_, ?_⟩
      · have := phasesOk_adict_map (fun s => s.take axis ++ [c] ++ s.drop axis)
          (phasesOk_filter (fun sp => (alookup a.blocks sp.1).isSome) hs.1) hsec
        exact this
      · show ((a.oddpos.length % 2 == 1) = a.sym.parity newCharge)
        rcases hpar with h | h
        · rw [hf] at h; cases h
        · rw [h]; exact hs.2
    · rename_i hf
      simp only [hf, if_false] at hs ⊢
      exact hs

theorem expandDims_none_valid (a : Arr R) (axis : Nat) (dual : Option Bool) (hv : Valid a) :
    Valid (a.expandDims axis none dual) := by
  rw [expandDims_none]
  apply expandWith_valid a axis _ _ _ hv (zero_valid _)
  · rw [sign_zero, combine_zero_right_valid _ _ hv.chg]
  · exact Or.inr rfl

theorem expandDims_some_valid (a : Arr R) (axis : Nat) (c : Charge) (dual : Option Bool)
    (hv : Valid a) (hc : a.sym.valid c = true)
    (hpar : a.fermi = false ∨ a.sym.parity c = false) :
    Valid (a.expandDims axis (some c) dual) := by
  rw [expandDims_some]
  apply expandWith_valid a axis _ _ _ hv hc rfl
  rcases hpar with h | h
  · exact Or.inl h
  · right
    rw [parity_combine_pair', parity_sign', h]
    simp

/-! ## squeeze -/

theorem forIn_yield_inv {α β ε : Type} (f : α → β → Except ε (ForInStep β))
    (I : List α → β → Prop)
    (hstep : ∀ pre x b r, I pre b → f x b = .ok r → ∃ b', r = .yield b' ∧ I (pre ++ [x]) b') :
    ∀ (l pre : List α) (b r : β), I pre b → forIn l b f = .ok r → I (pre ++ l) r := by
  intro l
  induction l with
  | nil =>
    intro pre b r hI h
    simp only [List.forIn_nil, pure, Except.pure, Except.ok.injEq] at h
    subst h; simpa using hI
  | cons x xs ih =>
    intro pre b r hI h
    rw [List.forIn_cons] at h
    cases hfx : f x b with
    | error e => rw [hfx] at h; cases h
    | ok st =>
      rw [hfx] at h
      obtain ⟨b', rfl, hI'⟩ := hstep pre x b st hI hfx
      have := ih (pre ++ [x]) b' r hI' h
      simpa using this

/-- which axes `squeeze` removes -/
def sqRemove (axis : Option (List Nat)) (p : Index × Nat) : Bool :=
  match axis with
  | none => p.1.sizeTotal == 1
  | some axs => axs.contains p.2

/-- the loop invariant of `squeeze` -/
def SqInv (sym : Sym) (axis : Option (List Nat)) (pre : List (Index × Nat)) (keep : List Nat) : Prop :=
  keep = (pre.filter (fun p => !sqRemove axis p)).map (·.2)
  ∧ ∀ p ∈ pre, sqRemove axis p = true → ∃ d, p.1.cm = [(sym.zero, d)] ∧ d ≤ 1

theorem squeeze_inv (a : Arr R) (axis : Option (List Nat)) (r : Arr R)
    (h : a.squeeze axis = .ok r) :
    ∃ keep, SqInv a.sym axis a.indices.zipIdx keep
      ∧ r = { (a.mapBlocks (fun s => permuted s keep) (fun b => b.squeezeK keep)) with
              indices := permuted a.indices keep } := by
  unfold Arr.squeeze at h
  simp only [bind, Except.bind] at h
  split at h
  · cases h
  · rename_i keep hloop
    simp only [pure, Except.pure, Except.ok.injEq] at h
    refine ⟨keep, ?_, h.symm⟩
    have := forIn_yield_inv _ (SqInv a.sym axis) ?_ a.indices.zipIdx [] [] keep
      ⟨by simp, by simp⟩ hloop
    · simpa using this
    · rintro pre ⟨ix, ax⟩ b st ⟨hb1, hb2⟩ hst
      simp only at hst
      -- the join point, for a decided `remove`
      have hjp : ∀ remove : Bool, remove = sqRemove axis (ix, ax) →
          (remove = true → ix.sizeTotal ≤ 1) →
          (if remove = true then
              match ix.cm with
              | [(c, _)] =>
                if (c != a.sym.zero) = true then do
                  (throw Err.value : Except Err PUnit)
                  pure (ForInStep.yield b)
                else pure (ForInStep.yield b)
              | _ => do
                (throw Err.value : Except Err PUnit)
                pure (ForInStep.yield b)
            else pure (ForInStep.yield (b ++ [ax]))) = Except.ok st →
          ∃ b', st = ForInStep.yield b' ∧ SqInv a.sym axis (pre ++ [(ix, ax)]) b' := by
        intro remove hrem hsz hres
        split at hres
        · rename_i hr
          have hr' : sqRemove axis (ix, ax) = true := by rw [← hrem]; exact hr
          split at hres
          · rename_i c d hcm
            split at hres
            · cases hres
            · rename_i hne
              simp only [pure, Except.pure, Except.ok.injEq] at hres
              refine ⟨b, hres.symm, ?_, ?_⟩
              · rw [List.filter_append, List.map_append, ← hb1]
                simp [hr']
              · intro p hp hpr
                rcases List.mem_append.mp hp with hp | hp
                · exact hb2 p hp hpr
                · simp only [List.mem_singleton] at hp
                  subst hp
                  have : c = a.sym.zero := by simpa using hne
                  subst this
                  refine ⟨d, hcm, ?_⟩
                  have := hsz hr
                  simpa [Index.sizeTotal, hcm, sumN] using this
          · cases hres
        · rename_i hr
          have hr' : sqRemove axis (ix, ax) = false := by
            rw [← hrem]; simpa using hr
          simp only [pure, Except.pure, Except.ok.injEq] at hres
          refine ⟨b ++ [ax], hres.symm, ?_, ?_⟩
          · rw [List.filter_append, List.map_append, ← hb1]
            simp [hr']
          · intro p hp hpr
            rcases List.mem_append.mp hp with hp | hp
            · exact hb2 p hp hpr
            · simp only [List.mem_singleton] at hp
              subst hp
              rw [hr'] at hpr; cases hpr
      cases axis with
      | none =>
        exact hjp (ix.sizeTotal == 1) rfl (fun h => by simp only [beq_iff_eq] at h; omega) hst
      | some axs =>
        simp only at hst
        split at hst
        · rename_i hcont
          split at hst
          · cases hst
          · rename_i hsz
            exact hjp true (by simp only [sqRemove]; exact hcont.symm) (fun _ => by omega) hst
        · rename_i hcont
          exact hjp false (by simp only [sqRemove]; exact (Bool.eq_false_iff.mpr hcont).symm)
            (fun h => by cases h) hst

theorem permuted_zipIdx_filter {α : Type} (l : List α) (q : α × Nat → Bool) :
    permuted l ((l.zipIdx.filter q).map (·.2)) = (l.zipIdx.filter q).map (·.1) := by
  unfold permuted
  rw [List.filterMap_map, ← List.filterMap_eq_map]
  apply List.filterMap_congr
  rintro ⟨x, i⟩ hp
  obtain ⟨_, h2, h3⟩ := List.mem_zipIdx (List.mem_filter.mp hp).1
  simp only [Function.comp, Nat.zero_add, Nat.sub_zero] at h2 h3 ⊢
  rw [List.getElem?_eq_getElem h2, h3]

theorem combine_filter_zero {α : Type} (sym : Sym) (g : α → Charge) (q : α × Nat → Bool) :
    ∀ (l : List α) (k : Nat), (∀ p ∈ l.zipIdx k, q p = false → g p.1 = sym.zero) →
      sym.combine (((l.zipIdx k).filter q).map (fun p => g p.1)) = sym.combine (l.map g)
  | [], _, _ => rfl
  | x :: l, k, h => by
    have ih := combine_filter_zero sym g q l (k + 1) (fun p hp => h p (by simp [List.zipIdx_cons, hp]))
    rw [List.zipIdx_cons, List.map_cons, combine_cons sym (g x)]
    cases hq : q (x, k) with
    | true =>
      rw [List.filter_cons_of_pos (by simpa using hq), List.map_cons, combine_cons, ih]
    | false =>
      rw [List.filter_cons_of_neg (by simp [hq]), ih, h (x, k) (by simp [List.zipIdx_cons]) hq,
        combine_zero_left']

theorem prod_filter_one {α : Type} (g : α → Nat) (q : α × Nat → Bool) :
    ∀ (l : List α) (k : Nat), (∀ p ∈ l.zipIdx k, q p = false → g p.1 = 1) →
      prod (((l.zipIdx k).filter q).map (fun p => g p.1)) = prod (l.map g)
  | [], _, _ => rfl
  | x :: l, k, h => by
    have ih := prod_filter_one g q l (k + 1) (fun p hp => h p (by simp [List.zipIdx_cons, hp]))
    rw [List.zipIdx_cons, List.map_cons]
    cases hq : q (x, k) with
    | true =>
      rw [List.filter_cons_of_pos (by simpa using hq), List.map_cons]
      simp only [prod, ih]
    | false =>
      rw [List.filter_cons_of_neg (by simp [hq]), ih]
      simp only [prod, h (x, k) (by simp [List.zipIdx_cons]) hq, Nat.one_mul]

/-- re-keying by `squeeze`: a sector whose charges are in the tables stays charge-conserving, and
    the removed axes have size one -/
theorem squeeze_rekey {sym : Sym} {idx : List Index} {ch : Charge} {axis : Option (List Nat)}
    {keep : List Nat} (hwf : ∀ i ∈ idx, Index.wfB sym i = true)
    (hinv : SqInv sym axis idx.zipIdx keep) {s : Sector} {shp : List Nat}
    (hs : SecOk sym idx ch s) (hshp : Arr.blockShape? idx s = some shp) :
    SecOk sym (permuted idx keep) ch (permuted s keep) ∧ prod (permuted shp keep) = prod shp := by
  obtain ⟨T, hT, rfl, rfl, rfl⟩ := blockShape?_iff.mp hshp
  obtain ⟨hk, hrem⟩ := hinv
  -- the filter on triples
  let q : Trip × Nat → Bool := fun p => !sqRemove axis (p.1.1, p.2)
  have hkeep : keep = ((T.zipIdx).filter q).map (·.2) := by
    rw [hk, List.zipIdx_map, List.filter_map, List.map_map]
    rfl
  have hperm : permuted T keep = (T.zipIdx.filter q).map (·.1) := by
    rw [hkeep]; exact permuted_zipIdx_filter T q
  -- what is known about a removed position
  have hdrop : ∀ p ∈ T.zipIdx, q p = false → p.1.2.1 = sym.zero ∧ p.1.2.2 = 1 := by
    rintro ⟨⟨ix, c, n⟩, i⟩ hp hq
    have hmem : (ix, i) ∈ (T.map (·.1)).zipIdx := by
      rw [List.zipIdx_map]
      exact List.mem_map.mpr ⟨((ix, c, n), i), hp, rfl⟩
    have hr : sqRemove axis (ix, i) = true := by simpa [q] using hq
    obtain ⟨d, hcm, hd⟩ := hrem (ix, i) hmem hr
    simp only at hcm hd ⊢
    have hTm : (ix, c, n) ∈ T := by
      obtain ⟨_, h2, h3⟩ := List.mem_zipIdx hp
      rw [h3]; exact List.getElem_mem _
    have hsz := hT _ hTm
    simp only [Index.sizeOf?, hcm, alookup] at hsz
    split at hsz
    · rename_i hc
      have hc' : sym.zero = c := by simpa using hc
      have hn : d = n := by simpa using hsz
      have hpos := (wfB_sizeOf (hwf ix (List.mem_map.mpr ⟨_, hTm, rfl⟩))
        (c := c) (n := n) (by simp only [Index.sizeOf?, hcm, alookup, hc, if_true, hn])).1
      exact ⟨hc'.symm, by omega⟩
    · cases hsz
  refine ⟨?_, ?_⟩
  · obtain ⟨_, hcharge⟩ := hs
    refine secOk_iff.mpr ⟨(permuted T keep).map (fun t => (t.1, t.2.1)), ?_, ?_, ?_⟩
    · rw [List.map_map, ← permuted_map]; rfl
    · rw [List.map_map, ← permuted_map]; rfl
    · have h1 : sym.combine (sgn sym (T.map (fun t => (t.1, t.2.1)))) = ch := by
        rw [← sectorCharge_joint]
        simpa [List.map_map, Function.comp_def] using hcharge
      rw [← h1, hperm]
      unfold sgn
      simp only [List.map_map, Function.comp_def]
      apply combine_filter_zero sym (fun t : Trip => sym.sign t.2.1 t.1.dual) q T 0
      intro p hp hq
      rw [(hdrop p hp hq).1, sign_zero]
  · rw [permuted_map, hperm, List.map_map]
    apply prod_filter_one (fun t : Trip => t.2.2) q T 0
    intro p hp hq
    exact (hdrop p hp hq).2

/-- every key of the pending-sign table has its charges in the index tables (true whenever the
    keys are stored sectors).  Since the repair of `FermionicArray._map_blocks` (only the entries
    of stored blocks are re-keyed) no theorem needs this predicate any more; it is kept because it
    still describes the arrays the library builds by itself. -/
def phaseKeysInTablesB (a : Arr R) : Bool :=
  a.phases.all (fun sp => (Arr.blockShape? a.indices sp.1).isSome)

/-- **`squeeze` preserves validity, whatever the sign table holds**: entries of the sign table
    whose sector has no block (left behind by an operation that dropped blocks) are discarded by
    `_map_blocks`, the others are re-keyed together with their block. -/
theorem squeeze_valid_any_phases (a : Arr R) (axis : Option (List Nat)) (r : Arr R) (hv : Valid a)
    (h : a.squeeze axis = .ok r) : Valid r := by
  obtain ⟨keep, hinv, rfl⟩ := squeeze_inv a axis r h
  unfold Arr.mapBlocks
  refine ⟨fun i hi => hv.idx i (mem_permuted hi), hv.chg, adict_keys_nodup _, ?_, ?_⟩
  · intro sb hsb
    obtain ⟨⟨s, b⟩, h0, rfl⟩ := List.mem_map.mp (mem_adict hsb)
    obtain ⟨a1, a2, a3⟩ := hv.blk (s, b) h0
    obtain ⟨h1, h2⟩ := squeeze_rekey hv.idx hinv a1 a2
    refine ⟨h1, blockShape?_natT (natT_permuted keep) a2, ?_⟩
    simp only [Blk.wf, Blk.squeezeK, beq_iff_eq] at a3 ⊢
    rw [h2]; exact a3
  · have hs := hv.sgn
    unfold SignsOk at hs ⊢
    show if a.fermi = true then _ else _
    split
    · rename_i hf
      simp only [hf, if_true] at hs ⊢
      refine ⟨⟨adict_keys_nodup _, ?_⟩, hs.2⟩
      intro sp hsp
      obtain ⟨⟨s, p⟩, h0, rfl⟩ := List.mem_map.mp (mem_adict hsp)
      obtain ⟨h0, hstored⟩ := List.mem_filter.mp h0
      -- the entry belongs to a stored block, whose sector has a shape in the tables
      obtain ⟨b, hb⟩ := Option.isSome_iff_exists.mp hstored
      obtain ⟨_, hshp, _⟩ := hv.blk (s, b) (alookup_some_mem hb)
      exact ⟨(squeeze_rekey hv.idx hinv (hs.1.2 (s, p) h0).1 hshp).1, (hs.1.2 (s, p) h0).2⟩
    · rename_i hf
      simp only [hf] at hs ⊢
      exact hs

theorem mem_keys_foldl_ainsert {κ β : Type} [BEq κ] [LawfulBEq κ] (ps acc : List (κ × β)) {k : κ}
    (h : k ∈ acc.map (·.1) ∨ k ∈ ps.map (·.1)) :
    k ∈ (ps.foldl (fun acc p => ainsert acc p.1 p.2) acc).map (·.1) := by
  induction ps generalizing acc with
  | nil => simpa using h
  | cons p ps ih =>
    simp only [List.foldl_cons]
    apply ih
    rw [ainsert_keys]
    rcases h with h | h
    · left; split
      · exact h
      · exact List.mem_append_left _ h
    · rcases List.mem_cons.mp h with h | h
      · left; subst h; split
        · assumption
        · simp
      · right; exact h

/-- every key of the argument is a key of `dict(pairs)` -/
theorem mem_keys_adict_of_mem {κ β : Type} [BEq κ] [LawfulBEq κ] {ps : List (κ × β)} {k : κ}
    (h : k ∈ ps.map (·.1)) : k ∈ (adict ps).map (·.1) :=
  mem_keys_foldl_ainsert ps [] (Or.inr h)

/-- `_map_blocks` on a fermionic array: every key of the new sign table is a key of the new
    block dict -/
theorem mapBlocks_phase_keys_stored (a : Arr R) (fs : Sector → Sector) (fb : Blk R → Blk R)
    (hf : a.fermi = true) :
    ∀ k ∈ (a.mapBlocks fs fb).phases.map (·.1), k ∈ (a.mapBlocks fs fb).blocks.map (·.1) := by
  intro k hk
  simp only [Arr.mapBlocks, hf, if_true] at hk ⊢
  obtain ⟨⟨k', p⟩, hkp, rfl⟩ := List.mem_map.mp hk
  obtain ⟨⟨s, p'⟩, h0, he⟩ := List.mem_map.mp (mem_adict hkp)
  obtain ⟨_, hstored⟩ := List.mem_filter.mp h0
  obtain ⟨b, hb⟩ := Option.isSome_iff_exists.mp hstored
  have hk' : k' = fs s := (congrArg Prod.fst he).symm
  subst hk'
  apply mem_keys_adict_of_mem
  exact List.mem_map.mpr ⟨(fs s, fb b), List.mem_map.mpr ⟨(s, b), alookup_some_mem hb, rfl⟩, rfl⟩

/-- after `squeeze` no key of the sign table is stale -/
theorem squeeze_phase_keys_stored (a : Arr R) (axis : Option (List Nat)) (r : Arr R)
    (hf : a.fermi = true) (h : a.squeeze axis = .ok r) :
    ∀ k ∈ r.phases.map (·.1), k ∈ r.sectors := by
  obtain ⟨keep, _, rfl⟩ := squeeze_inv a axis r h
  exact mapBlocks_phase_keys_stored a (fun s => permuted s keep) (fun b => b.squeezeK keep) hf

/-- the form with the (now superfluous) hypothesis on the sign-table keys -/
theorem squeeze_valid (a : Arr R) (axis : Option (List Nat)) (r : Arr R) (hv : Valid a)
    (_hph : phaseKeysInTablesB a = true) (h : a.squeeze axis = .ok r) : Valid r :=
  squeeze_valid_any_phases a axis r hv h

end ValidP
end SymmModel
