/-
  SymmModel.Proofs.DenseMore — second batch of helper lemmas for property C08:
  reductions (sum / norm²) of the dense array = reductions over the stored blocks
  (the `locateAll` reindexing), squeeze / expand_dims, and block vectors.

  New names live in `SymmModel.DenseP` (the first batch, Proofs/DenseLemmas.lean, is at the root).
-/
import SymmModel.Proofs.DenseLemmas
import Mathlib.Algebra.BigOperators.Group.List.Basic

namespace SymmModel
namespace DenseP

/-! ## sums over lists -/

section sums
variable {M : Type} [AddCommMonoid M]

theorem sum_map_flatMap {α β : Type} (l : List α) (f : α → List β) (g : β → M) :
    ((l.flatMap f).map g).sum = (l.map (fun a => ((f a).map g).sum)).sum := by
  induction l with
  | nil => rfl
  | cons a l ih => simp [List.flatMap_cons, List.sum_append, ih]

/-- exchanging two finite sums -/
theorem sum_comm {α β : Type} (l1 : List α) (l2 : List β) (f : α → β → M) :
    (l1.map (fun a => (l2.map (fun b => f a b)).sum)).sum
      = (l2.map (fun b => (l1.map (fun a => f a b)).sum)).sum := by
  induction l1 with
  | nil => simp
  | cons a l ih => simp only [List.map_cons, List.sum_cons, ih, List.sum_map_add]

theorem sum_map_congr {α : Type} {l : List α} {f g : α → M} (h : ∀ a ∈ l, f a = g a) :
    (l.map f).sum = (l.map g).sum := by
  rw [List.map_congr_left h]

theorem foldl_add_eq_sum {α : Type} (l : List α) (f : α → M) (init : M) :
    l.foldl (fun acc x => acc + f x) init = init + (l.map f).sum := by
  induction l generalizing init with
  | nil => simp
  | cons a l ih => simp [ih, add_assoc]

/-- a sum over a duplicate-free list only sees the support: if `h` vanishes outside the
    duplicate-free sublist-set `K ⊆ L`, the sums over `L` and `K` agree -/
theorem sum_eq_sum_of_support {α : Type} [DecidableEq α] {L K : List α} (hL : L.Nodup)
    (hK : K.Nodup) (hsub : ∀ x ∈ K, x ∈ L) (h : α → M) (h0 : ∀ x ∈ L, x ∉ K → h x = 0) :
    (L.map h).sum = (K.map h).sum := by
  have hp := (List.filter_append_perm (fun x => decide (x ∈ K)) L).map h
  rw [← hp.sum_eq, List.map_append, List.sum_append]
  have hz : ((L.filter (fun x => !decide (x ∈ K))).map h).sum = 0 := by
    rw [sum_map_congr (g := fun _ => (0 : M)) (fun x hx => by
      simp only [List.mem_filter, Bool.not_eq_true', decide_eq_false_iff_not] at hx
      exact h0 x hx.1 hx.2)]
    simp
  rw [hz, add_zero]
  have hperm : (L.filter (fun x => decide (x ∈ K))).Perm K := by
    rw [List.perm_ext_iff_of_nodup (hL.filter _) hK]
    intro x
    simp only [List.mem_filter, decide_eq_true_eq]
    exact ⟨fun hx => hx.2, fun hx => ⟨hsub x hx, hx⟩⟩
  exact (hperm.map h).sum_eq

end sums

/-! ## the reindexing lemma: positions of the dense box ↔ addresses -/

section reindex
variable {M : Type} [AddCommMonoid M]

/-- one axis: summing over the positions of an axis = summing over the charges of its table and
    over the offsets inside each charge (same order, no commutativity needed) -/
theorem sum_locate (cm : List (Charge × Nat)) (F : Option (Charge × Nat) → M) :
    ((List.range (sumN (cm.map (·.2)))).map (fun q => F (Arr.locate cm q))).sum
      = (cm.map (fun cd => ((List.range cd.2).map (fun o => F (some (cd.1, o)))).sum)).sum := by
  induction cm with
  | nil => simp [sumN]
  | cons kd rest ih =>
    obtain ⟨k, d⟩ := kd
    simp only [List.map_cons, sumN, List.sum_cons, List.range_add, List.map_append, List.sum_append,
      List.map_map]
    congr 1
    · apply sum_map_congr
      intro q hq
      have : q < d := List.mem_range.mp hq
      simp [Arr.locate, this]
    · rw [← ih]
      apply sum_map_congr
      intro q _
      have : ¬ (d + q < d) := by omega
      simp [Arr.locate, this]

theorem cartesian_map {α β : Type} (f : α → β) (ls : List (List α)) :
    cartesian (ls.map (List.map f)) = (cartesian ls).map (List.map f) := by
  induction ls with
  | nil => rfl
  | cons l ls ih =>
    simp only [List.map_cons, cartesian, ih, List.flatMap_map, List.map_flatMap, List.map_map]
    rfl

/-- the sorted charge tables of the indices -/
def tables (idx : List Index) : List (List (Charge × Nat)) := idx.map (fun ix => Index.sortCm ix.cm)

/-- **reindexing.**  A sum over all positions of the dense box of a function of the located
    address equals the sum over all sectors of the product of the charge tables, and over all
    offsets of each sector's block box, of that function. -/
theorem sum_locateAll (idx : List Index) (G : Option (Sector × List Nat) → M) :
    ((allIdx (idx.map Index.sizeTotal)).map (fun p => G (Arr.locateAll idx p))).sum
      = ((cartesian (tables idx)).map (fun e =>
          ((allIdx (e.map (·.2))).map (fun off => G (some (e.map (·.1), off)))).sum)).sum := by
  induction idx generalizing G with
  | nil => simp [allIdx, tables, cartesian]
  | cons ix idx ih =>
    have hsz : ix.sizeTotal = sumN ((Index.sortCm ix.cm).map (·.2)) := by
      rw [sumN_sortCm]; rfl
    simp only [List.map_cons, allIdx, tables, cartesian]
    rw [sum_map_flatMap, sum_map_flatMap]
    simp only [List.map_map, Function.comp_def, Arr.locateAll_cons]
    rw [hsz, sum_locate (Index.sortCm ix.cm)
      (fun x => ((allIdx (idx.map Index.sizeTotal)).map (fun p =>
        G (x.bind (fun co => (Arr.locateAll idx p).map (fun sf => (co.1 :: sf.1, co.2 :: sf.2)))))).sum)]
    apply sum_map_congr
    intro cd _
    simp only [Option.bind_some]
    -- inner sums: apply the induction hypothesis for every offset, then exchange the sums
    have hih : ∀ o, ((allIdx (idx.map Index.sizeTotal)).map (fun p =>
        G ((Arr.locateAll idx p).map (fun sf => (cd.1 :: sf.1, o :: sf.2))))).sum
        = ((cartesian (tables idx)).map (fun e =>
          ((allIdx (e.map (·.2))).map (fun off => G (some (cd.1 :: e.map (·.1), o :: off)))).sum)).sum := by
      intro o
      exact ih (fun x => G (x.map (fun sf => (cd.1 :: sf.1, o :: sf.2))))
    rw [sum_map_congr (fun o _ => hih o), sum_comm]
    apply sum_map_congr
    intro e _
    simp only [List.map_cons, allIdx]
    rw [sum_map_flatMap]
    simp only [List.map_map, Function.comp_def]

end reindex

/-! ## block data = the values at the offsets of the block's box -/

theorem ravel_allIdx_getElem : ∀ (s : List Nat) (k : Nat) (hk : k < (allIdx s).length),
    ravel s ((allIdx s)[k]) = k
  | [], k, hk => by
    simp only [allIdx, List.length_singleton] at hk
    have : k = 0 := by omega
    subst this; rfl
  | d :: ds, k, hk => by
    have hlen : (allIdx (d :: ds)).length = d * prod ds := by rw [length_allIdx]; rfl
    have hP : 0 < prod ds := by
      rcases Nat.eq_zero_or_pos (prod ds) with h | h
      · rw [hlen, h] at hk; omega
      · exact h
    have hk' : k < d * prod ds := hlen ▸ hk
    have hj : k / prod ds < d := (Nat.div_lt_iff_lt_mul hP).mpr hk'
    have hr : k % prod ds < prod ds := Nat.mod_lt _ hP
    have hget := getElem?_flatMap_uniform (List.range d) (fun i => (allIdx ds).map (fun r => i :: r))
      (prod ds) (fun a _ => by simp [length_allIdx ds]) (k / prod ds) (k % prod ds) hr
    rw [Nat.div_add_mod' k (prod ds)] at hget
    have hr' : k % prod ds < (allIdx ds).length := by rw [length_allIdx]; exact hr
    simp only [List.getElem?_range hj, Option.bind_some, List.getElem?_map,
      List.getElem?_eq_getElem hr', Option.map_some] at hget
    have : (allIdx (d :: ds))[k] = (k / prod ds) :: (allIdx ds)[k % prod ds] := by
      have h2 : (allIdx (d :: ds))[k]? = some ((k / prod ds) :: (allIdx ds)[k % prod ds]) := hget
      rw [List.getElem?_eq_getElem hk] at h2
      exact Option.some.inj h2
    rw [this]
    simp only [ravel]
    rw [ravel_allIdx_getElem ds (k % prod ds) hr']
    exact Nat.div_add_mod' k (prod ds)

/-- the data of a well-formed block, read through `get` in C order -/
theorem allIdx_map_get {R : Type} [Zero R] (b : Blk R) (h : b.wf = true) :
    (allIdx b.shape).map b.get = b.data.toList := by
  have hsz : b.data.size = prod b.shape := by simpa [Blk.wf] using h
  apply List.ext_getElem
  · simp [length_allIdx, hsz]
  · intro k h1 h2
    simp only [List.length_map] at h1
    simp only [List.getElem_map, Blk.get, ravel_allIdx_getElem b.shape k h1]
    simp only [Array.length_toList] at h2
    simp [Array.getD, h2]

/-! ## sum over the dense array = sum over the stored blocks -/

section densesum
variable {R M : Type}

theorem blockShape?_of_mem_cartesian {idx : List Index}
    (hnd : ∀ ix ∈ idx, (ix.cm.map (·.1)).Nodup) {e : List (Charge × Nat)}
    (he : e ∈ cartesian (tables idx)) :
    Arr.blockShape? idx (e.map (·.1)) = some (e.map (·.2)) := by
  induction idx generalizing e with
  | nil =>
    simp only [tables, List.map_nil, cartesian, List.mem_singleton] at he
    subst he; rfl
  | cons ix idx ih =>
    simp only [tables, List.map_cons, cartesian, List.mem_flatMap, List.mem_map] at he
    obtain ⟨cd, hcd, r, hr, rfl⟩ := he
    simp only [List.map_cons, Arr.blockShape?_cons]
    have h1 : ix.sizeOf? cd.1 = some cd.2 :=
      alookup_of_mem_nodup (hnd ix (by simp)) (mem_sortCm.mp hcd)
    rw [h1, ih (fun ix' h' => hnd ix' (by simp [h'])) hr]
    rfl

theorem mem_cartesian_of_blockShape? {idx : List Index} {s : Sector} {shp : List Nat}
    (h : Arr.blockShape? idx s = some shp) :
    s ∈ cartesian ((tables idx).map (List.map (·.1))) := by
  induction idx generalizing s shp with
  | nil =>
    cases s with
    | nil => simp [tables, cartesian]
    | cons c s => simp [Arr.blockShape?] at h
  | cons ix idx ih =>
    cases s with
    | nil => simp [Arr.blockShape?] at h
    | cons c s =>
      rw [Arr.blockShape?_cons] at h
      cases hd : ix.sizeOf? c with
      | none => simp [hd] at h
      | some d =>
        cases hr : Arr.blockShape? idx s with
        | none => simp [hd, hr] at h
        | some shp' =>
          simp only [tables, List.map_cons, cartesian, List.mem_flatMap, List.mem_map]
          refine ⟨c, ⟨(c, d), mem_sortCm.mpr (alookup_eq_some_mem hd), rfl⟩, s, ih hr, rfl⟩

/-- **master statement.**  For a function `g` with `g 0 = 0` that does not see the pending
    sign of a stored entry: the sum of `g` over the data of the dense array equals the sum of `g`
    over the data of the stored blocks. -/
theorem sum_map_toDense [Zero R] [Neg R] [AddCommMonoid M] (g : R → M) (hg0 : g 0 = 0) (a : Arr R)
    (hne : a.indices.any (fun ix => ix.cm.isEmpty) = false) (hsh : Arr.ShapesOk a)
    (hnd : a.sectors.Nodup) (hwf : ∀ p ∈ a.blocks, p.2.wf = true)
    (hsign : ∀ s b off, alookup a.blocks s = some b → g (a.elem s off) = g (b.get off))
    (d : Blk R) (hd : Arr.toDenseA a = .ok d) :
    (d.data.toList.map g).sum = (a.blocks.map (fun p => (p.2.data.toList.map g).sum)).sum := by
  classical
  have hwfd : d.wf = true := by
    rw [Arr.toDenseA_eq a false hne] at hd
    injection hd with hd
    subst hd
    exact Blk.wf_ofFn _ _
  obtain ⟨d0, hd0, hsd, hget⟩ := Arr.toDenseA_get a hne
  rw [hd] at hd0
  injection hd0 with hd0
  subst hd0
  -- the dense side as a sum over positions of a function of the address
  let G : Option (Sector × List Nat) → M := fun x =>
    match x with
    | some (s, o) => g (a.elem s o)
    | none => 0
  have hL : (d.data.toList.map g).sum
      = ((allIdx (a.indices.map Index.sizeTotal)).map (fun p => G (Arr.locateAll a.indices p))).sum := by
    rw [← allIdx_map_get d hwfd, hsd, List.map_map]
    apply sum_map_congr
    intro p hp
    obtain ⟨sec, off, hl, hv⟩ := hget p (mem_allIdx.mp hp)
    simp only [Function.comp, G, hl, hv]
  rw [hL, sum_locateAll]
  -- per sector: the block's data, or nothing
  let H : Sector → M := fun s =>
    match alookup a.blocks s with
    | some b => (b.data.toList.map g).sum
    | none => 0
  have hinner : ∀ e ∈ cartesian (tables a.indices),
      ((allIdx (e.map (·.2))).map (fun off => G (some (e.map (·.1), off)))).sum = H (e.map (·.1)) := by
    intro e he
    simp only [G, H]
    cases hb : alookup a.blocks (e.map (·.1)) with
    | none =>
      rw [sum_map_congr (g := fun _ => (0 : M)) (fun off _ => by
        rw [Arr.elem]; simp only [hb]; exact hg0)]
      simp
    | some b =>
      have hshape : b.shape = e.map (·.2) := by
        have h1 := hsh.2 _ b hb
        rw [blockShape?_of_mem_cartesian hsh.1 he] at h1
        exact (Option.some.inj h1).symm
      rw [← hshape, sum_map_congr (fun off _ => hsign _ b off hb)]
      have hwfb := hwf (e.map (·.1), b) (alookup_eq_some_mem hb)
      show _ = (b.data.toList.map g).sum
      rw [← allIdx_map_get b hwfb, List.map_map]
      rfl
  rw [sum_map_congr hinner]
  have hS : ((cartesian (tables a.indices)).map (fun e => H (e.map (·.1)))).sum
      = ((cartesian ((tables a.indices).map (List.map (·.1)))).map H).sum := by
    rw [cartesian_map, List.map_map]; rfl
  rw [hS]
  have hSnd : (cartesian ((tables a.indices).map (List.map (·.1)))).Nodup := by
    apply cartesian_nodup
    intro l hl
    simp only [tables, List.map_map, List.mem_map, Function.comp] at hl
    obtain ⟨ix, hix, rfl⟩ := hl
    exact nodup_keys_sortCm (hsh.1 ix hix)
  rw [sum_eq_sum_of_support hSnd hnd (fun s hs => by
      obtain ⟨b, hb⟩ := Option.isSome_iff_exists.mp (alookup_isSome_iff.mpr hs)
      exact mem_cartesian_of_blockShape? (hsh.2 s b hb)) H
    (fun s _ hs => by
      simp only [H]
      rw [alookup_eq_none_iff.mpr hs])]
  simp only [Arr.sectors, List.map_map]
  apply sum_map_congr
  intro p hp
  obtain ⟨s, b⟩ := p
  simp only [Function.comp, H]
  rw [alookup_of_mem_nodup hnd hp]

end densesum

/-! ## conj keeps the structural hypotheses; the reversal is a permutation -/

section dagger
variable {R : Type}

theorem blockShape?_congr {idx idx' : List Index} (h : idx'.map Index.cm = idx.map Index.cm)
    (s : Sector) : Arr.blockShape? idx' s = Arr.blockShape? idx s := by
  induction idx generalizing idx' s with
  | nil =>
    cases idx' with
    | nil => rfl
    | cons a l => simp at h
  | cons ix idx ih =>
    cases idx' with
    | nil => simp at h
    | cons ix' idx' =>
      simp only [List.map_cons, List.cons.injEq] at h
      cases s with
      | nil => simp [Arr.blockShape?]
      | cons c s =>
        rw [Arr.blockShape?_cons, Arr.blockShape?_cons, ih h.2]
        simp only [Index.sizeOf?, h.1]

theorem shapesOk_conjA [Conj R] {a : Arr R} (h : Arr.ShapesOk a) : Arr.ShapesOk (Arr.conjA a) := by
  refine ⟨fun ix hix => ?_, fun s b hb => ?_⟩
  · simp only [Arr.conjA, List.mem_map] at hix
    obtain ⟨ix0, hix0, rfl⟩ := hix
    rw [Arr.cm_conj]; exact h.1 ix0 hix0
  · have hbl : (Arr.conjA a).blocks = a.blocks.map (fun (s, b) => (s, b.conjK)) := rfl
    rw [hbl, Arr.alookup_mapVals] at hb
    cases hb0 : alookup a.blocks s with
    | none => simp [hb0] at hb
    | some b0 =>
      simp only [hb0, Option.map_some, Option.some.injEq] at hb
      subst hb
      rw [show (Arr.conjA a).indices = a.indices.map Index.conj from rfl,
        blockShape?_congr (Arr.map_cm_conj a.indices)]
      exact h.2 s b0 hb0

theorem isPerm_reversedAxes (n : Nat) : Arr.isPerm (Arr.reversedAxes n) n = true := by
  simp [Arr.isPerm, Arr.reversedAxes]

theorem validB_wf {a : Arr R} (h : a.validB = true) : ∀ p ∈ a.blocks, p.2.wf = true := by
  simp only [Arr.validB, Bool.and_eq_true, List.all_eq_true] at h
  intro p hp
  have := h.1.2 p hp
  obtain ⟨s, b⟩ := p
  simp only at this
  exact this.2

end dagger

/-! ## dropping / inserting singleton axes -/

section mask
variable {α : Type}

/-- drop the entries whose mask bit is set (lists of equal length) -/
def dropMask : List Bool → List α → List α
  | b :: m, x :: l => if b then dropMask m l else x :: dropMask m l
  | _, _ => []

/-- the positions (counted from `k`) whose mask bit is clear -/
def keptAxes : List Bool → Nat → List Nat
  | [], _ => []
  | b :: m, k => if b then keptAxes m (k + 1) else k :: keptAxes m (k + 1)

@[simp] theorem dropMask_nil_left (l : List α) : dropMask [] l = [] := by
  cases l <;> rfl

@[simp] theorem dropMask_cons_cons (b : Bool) (m : List Bool) (x : α) (l : List α) :
    dropMask (b :: m) (x :: l) = if b then dropMask m l else x :: dropMask m l := rfl

theorem keptAxes_lt (m : List Bool) (k : Nat) : ∀ q ∈ keptAxes m k, k ≤ q ∧ q < k + m.length := by
  induction m generalizing k with
  | nil => simp [keptAxes]
  | cons b m ih =>
    intro q hq
    simp only [keptAxes] at hq
    split at hq
    · have := ih (k + 1) q hq; simp only [List.length_cons]; omega
    · rcases List.mem_cons.mp hq with rfl | hq
      · simp
      · have := ih (k + 1) q hq; simp only [List.length_cons]; omega

/-- selecting the kept axes = dropping the masked ones -/
theorem permuted_keptAxes (m : List Bool) (k : Nat) (l : List α) (h : (l.drop k).length = m.length) :
    permuted l (keptAxes m k) = dropMask m (l.drop k) := by
  induction m generalizing k with
  | nil => simp [keptAxes, permuted_nil]
  | cons b m ih =>
    have hk : k < l.length := by simp only [List.length_drop, List.length_cons] at h; omega
    have hd : l.drop k = l[k] :: l.drop (k + 1) := List.drop_eq_getElem_cons hk
    have h' : (l.drop (k + 1)).length = m.length := by
      simp only [List.length_drop, List.length_cons] at h ⊢; omega
    rw [hd, dropMask_cons_cons]
    simp only [keptAxes]
    cases b with
    | true => simpa using ih (k + 1) h'
    | false =>
      simp only [Bool.false_eq_true, if_false]
      rw [permuted_cons_of_lt l k _ hk, ih (k + 1) h']

theorem permuted_keptAxes_zero (m : List Bool) (l : List α) (h : l.length = m.length) :
    permuted l (keptAxes m 0) = dropMask m l := by
  simpa using permuted_keptAxes m 0 l (by simpa using h)

theorem dropMask_map {β : Type} (f : α → β) (m : List Bool) (l : List α) :
    dropMask m (l.map f) = (dropMask m l).map f := by
  induction m generalizing l with
  | nil => simp
  | cons b m ih =>
    cases l with
    | nil => rfl
    | cons x l => cases b <;> simp [ih]

theorem mem_of_mem_dropMask {m : List Bool} {l : List α} {x : α} (h : x ∈ dropMask m l) : x ∈ l := by
  induction m generalizing l with
  | nil => simp at h
  | cons b m ih =>
    cases l with
    | nil => simp [dropMask] at h
    | cons y l =>
      rw [dropMask_cons_cons] at h
      split at h
      · exact List.mem_cons_of_mem _ (ih h)
      · rcases List.mem_cons.mp h with rfl | h
        · simp
        · exact List.mem_cons_of_mem _ (ih h)

/-- lists that agree on the masked positions and after dropping them are equal -/
theorem dropMask_inj {m : List Bool} {l l' : List α} (hl : l.length = m.length)
    (hl' : l'.length = m.length) (hm : ∀ i : Nat, m[i]? = some true → l[i]? = l'[i]?)
    (h : dropMask m l = dropMask m l') : l = l' := by
  induction m generalizing l l' with
  | nil =>
    have e1 : l = [] := List.length_eq_zero_iff.mp (by simpa using hl)
    have e2 : l' = [] := List.length_eq_zero_iff.mp (by simpa using hl')
    rw [e1, e2]
  | cons b m ih =>
    cases l with
    | nil => simp at hl
    | cons x l =>
      cases l' with
      | nil => simp at hl'
      | cons y l' =>
        have hrest : ∀ i : Nat, m[i]? = some true → l[i]? = l'[i]? := fun i hi => by
          simpa using hm (i + 1) (by simpa using hi)
        simp only [dropMask_cons_cons] at h
        cases b with
        | true =>
          have hxy : x = y := by simpa using hm 0 (by simp)
          simp only [if_true] at h
          rw [hxy, ih (by simpa using hl) (by simpa using hl') hrest h]
        | false =>
          simp only [Bool.false_eq_true, if_false, List.cons.injEq] at h
          rw [h.1, ih (by simpa using hl) (by simpa using hl') hrest h.2]

/-- insert `x` before position `axis` -/
def ins (axis : Nat) (x : α) (l : List α) : List α := l.take axis ++ [x] ++ l.drop axis

/-- the mask of an array with `n` further axes and a new axis at `axis` -/
def insMask : Nat → Nat → List Bool
  | 0, n => true :: List.replicate n false
  | axis + 1, n + 1 => false :: insMask axis n
  | _ + 1, 0 => []

@[simp] theorem ins_zero (x : α) (l : List α) : ins 0 x l = x :: l := by simp [ins]
@[simp] theorem ins_succ_cons (axis : Nat) (x y : α) (l : List α) :
    ins (axis + 1) x (y :: l) = y :: ins axis x l := by simp [ins]

theorem dropMask_replicate_false (l : List α) : dropMask (List.replicate l.length false) l = l := by
  induction l with
  | nil => rfl
  | cons x l ih => simp [List.replicate_succ, ih]

theorem dropMask_ins (axis : Nat) (x : α) (l : List α) (h : axis ≤ l.length) :
    dropMask (insMask axis l.length) (ins axis x l) = l := by
  induction axis generalizing l with
  | zero => simp [insMask, dropMask_replicate_false]
  | succ axis ih =>
    cases l with
    | nil => simp at h
    | cons y l => simp [insMask, ih l (by simpa using h)]

theorem length_insMask (axis n : Nat) (h : axis ≤ n) : (insMask axis n).length = n + 1 := by
  induction axis generalizing n with
  | zero => simp [insMask]
  | succ axis ih =>
    cases n with
    | zero => omega
    | succ n => simp [insMask, ih n (by omega)]

theorem length_ins (axis : Nat) (x : α) (l : List α) : (ins axis x l).length = l.length + 1 := by
  simp only [ins, List.length_append, List.length_take, List.length_drop, List.length_singleton]
  omega

/-- at the masked position of an inserted list sits the inserted element -/
theorem ins_at_mask (axis : Nat) (x : α) (l : List α) (h : axis ≤ l.length) (i : Nat)
    (hi : (insMask axis l.length)[i]? = some true) : (ins axis x l)[i]? = some x := by
  induction axis generalizing l i with
  | zero =>
    cases i with
    | zero => simp
    | succ i =>
      simp only [insMask, List.getElem?_cons_succ, List.getElem?_replicate] at hi
      split at hi <;> simp at hi
  | succ axis ih =>
    cases l with
    | nil => simp at h
    | cons y l =>
      cases i with
      | zero => simp [insMask] at hi
      | succ i =>
        simp only [List.length_cons, insMask, List.getElem?_cons_succ] at hi
        simpa using ih l (by simpa using h) i hi

end mask

/-! ### `ravel`, the box and `locateAll` under dropping singleton axes -/

theorem prod_dropMask (m : List Bool) (shape : List Nat) (hl : shape.length = m.length)
    (h1 : ∀ i : Nat, m[i]? = some true → shape[i]? = some 1) : prod (dropMask m shape) = prod shape := by
  induction m generalizing shape with
  | nil =>
    have e1 : shape = [] := List.length_eq_zero_iff.mp (by simpa using hl)
    rw [e1]; rfl
  | cons b m ih =>
    cases shape with
    | nil => simp at hl
    | cons d ds =>
      have hrest : ∀ i : Nat, m[i]? = some true → ds[i]? = some 1 := fun i hi => by
        simpa using h1 (i + 1) (by simpa using hi)
      have ih' := ih ds (by simpa using hl) hrest
      cases b with
      | true =>
        have hd : d = 1 := by simpa using h1 0 (by simp)
        simp [prod, hd, ih']
      | false => simp [prod, ih']

theorem ravel_dropMask (m : List Bool) (shape off : List Nat) (hl : shape.length = m.length)
    (ho : off.length = m.length) (h1 : ∀ i : Nat, m[i]? = some true → shape[i]? = some 1)
    (h0 : ∀ i : Nat, m[i]? = some true → off[i]? = some 0) :
    ravel (dropMask m shape) (dropMask m off) = ravel shape off := by
  induction m generalizing shape off with
  | nil =>
    have e1 : shape = [] := List.length_eq_zero_iff.mp (by simpa using hl)
    have e2 : off = [] := List.length_eq_zero_iff.mp (by simpa using ho)
    rw [e1, e2]; rfl
  | cons b m ih =>
    cases shape with
    | nil => simp at hl
    | cons d ds =>
      cases off with
      | nil => simp at ho
      | cons o os =>
        have hrest1 : ∀ i : Nat, m[i]? = some true → ds[i]? = some 1 := fun i hi => by
          simpa using h1 (i + 1) (by simpa using hi)
        have hrest0 : ∀ i : Nat, m[i]? = some true → os[i]? = some 0 := fun i hi => by
          simpa using h0 (i + 1) (by simpa using hi)
        have ih' := ih ds os (by simpa using hl) (by simpa using ho) hrest1 hrest0
        cases b with
        | true =>
          have ho0 : o = 0 := by simpa using h0 0 (by simp)
          simp [ravel, ho0, ih']
        | false =>
          simp [ravel, ih', prod_dropMask m ds (by simpa using hl) hrest1]

theorem inBox_dropMask (m : List Bool) {shape p : List Nat} (h : inBox shape p = true) :
    inBox (dropMask m shape) (dropMask m p) = true := by
  induction m generalizing shape p with
  | nil => simp [inBox]
  | cons b m ih =>
    cases shape with
    | nil =>
      cases p with
      | nil => simp [dropMask, inBox]
      | cons q p => simp [inBox] at h
    | cons d ds =>
      cases p with
      | nil => simp [inBox] at h
      | cons q ps =>
        rw [inBox_cons] at h
        cases b with
        | true => simpa using ih h.2
        | false => simpa [inBox_cons] using ⟨h.1, ih h.2⟩

theorem locateAll_dropMask (m : List Bool) {idx : List Index} {p : List Nat} {sec : Sector}
    {off : List Nat} (h : Arr.locateAll idx p = some (sec, off)) (hp : p.length = idx.length) :
    Arr.locateAll (dropMask m idx) (dropMask m p) = some (dropMask m sec, dropMask m off) := by
  induction m generalizing idx p sec off with
  | nil => simp
  | cons b m ih =>
    cases idx with
    | nil =>
      cases p with
      | nil =>
        simp only [Arr.locateAll_nil_nil, Option.some.injEq, Prod.mk.injEq] at h
        obtain ⟨rfl, rfl⟩ := h; rfl
      | cons q p => simp at hp
    | cons ix idx =>
      cases p with
      | nil => simp at hp
      | cons q p =>
        rw [Arr.locateAll_cons] at h
        cases hco : Arr.locate (Index.sortCm ix.cm) q with
        | none => simp [hco] at h
        | some co =>
          cases hso : Arr.locateAll idx p with
          | none => simp [hco, hso] at h
          | some sf =>
            simp only [hco, hso, Option.bind_some, Option.map_some, Option.some.injEq,
              Prod.mk.injEq] at h
            obtain ⟨rfl, rfl⟩ := h
            have ih' := ih hso (by simpa using hp)
            cases b with
            | true => simpa using ih'
            | false => simp [Arr.locateAll_cons, hco, ih']

/-! ## `squeeze`: the loop -/

section squeezeLoop
variable {R : Type}

/-- is the axis selected for removal (before the checks)? -/
def sqSelected (axis : Option (List Nat)) (ix : Index) (ax : Nat) : Bool :=
  match axis with
  | none => ix.sizeTotal == 1
  | some axs => axs.contains ax

/-- the decision of `squeeze` for one axis: removed (`true`), kept (`false`), or `ValueError`
    (selected explicitly although larger than one, or a charge table that is not the single
    identity charge) -/
def sqRemove (zeroC : Charge) (axis : Option (List Nat)) (ix : Index) (ax : Nat) : Except Err Bool :=
  if sqSelected axis ix ax then
    if axis.isSome && decide (ix.sizeTotal > 1) then .error Err.value
    else match ix.cm with
      | [(c, _)] => if c != zeroC then .error Err.value else .ok true
      | _ => .error Err.value
  else .ok false

def sqStep (zeroC : Charge) (axis : Option (List Nat)) (keep : List Nat) (x : Index × Nat) :
    Except Err (List Nat) :=
  match sqRemove zeroC axis x.1 x.2 with
  | .error e => .error e
  | .ok true => .ok keep
  | .ok false => .ok (keep ++ [x.2])

/-- the result of `squeeze` once the kept axes are known -/
def squeezed (a : Arr R) (keep : List Nat) : Arr R :=
  let a' := a.mapBlocks (fun s => permuted s keep) (fun b => b.squeezeK keep)
  { a' with indices := permuted a.indices keep }

/-- the removal mask of `squeeze`, or the error it raises -/
def squeezeMask (a : Arr R) (axis : Option (List Nat)) : Except Err (List Bool) :=
  a.indices.zipIdx.mapM (fun x => sqRemove a.sym.zero axis x.1 x.2)

theorem squeeze_eq_foldlM (a : Arr R) (axis : Option (List Nat)) :
    a.squeeze axis =
      match a.indices.zipIdx.foldlM (sqStep a.sym.zero axis) [] with
      | .error e => .error e
      | .ok keep => .ok (squeezed a keep) := by
  unfold Arr.squeeze
  simp only [bind, Except.bind, pure, Except.pure]
  rw [forIn_except_eq_foldlM _ _ _ (sqStep a.sym.zero axis)]
  · cases List.foldlM (sqStep a.sym.zero axis) [] a.indices.zipIdx <;> rfl
  · intro x keep
    obtain ⟨ix, ax⟩ := x
    simp only [sqStep, sqRemove, sqSelected]
    cases axis with
    | none =>
      simp only [Option.isSome_none, Bool.false_and, Bool.false_eq_true, if_false]
      by_cases h1 : (ix.sizeTotal == 1) = true
      · simp only [h1, if_true]
        rcases hcm : ix.cm with _ | ⟨⟨c, d⟩, _ | ⟨y, l⟩⟩
        · rfl
        · by_cases hc : (c != a.sym.zero) = true
          · simp only [hc, if_true]; rfl
          · simp only [hc]; rfl
        · rfl
      · simp only [h1]; rfl
    | some axs =>
      simp only [Option.isSome_some, Bool.true_and]
      by_cases h1 : axs.contains ax = true
      · simp only [h1, if_true]
        by_cases h2 : ix.sizeTotal > 1
        · simp only [h2, decide_true, if_true]; rfl
        · simp only [h2, decide_false, Bool.false_eq_true, if_false]
          rcases hcm : ix.cm with _ | ⟨⟨c, d⟩, _ | ⟨y, l⟩⟩
          · rfl
          · by_cases hc : (c != a.sym.zero) = true
            · simp only [hc, if_true]; rfl
            · simp only [hc]; rfl
          · rfl
      · simp only [h1, Bool.false_eq_true, if_false]; rfl

theorem foldlM_sqStep (zeroC : Charge) (axis : Option (List Nat)) (idx : List Index) (k : Nat)
    (keep : List Nat) :
    (idx.zipIdx k).foldlM (sqStep zeroC axis) keep =
      match (idx.zipIdx k).mapM (fun x => sqRemove zeroC axis x.1 x.2) with
      | .error e => .error e
      | .ok m => .ok (keep ++ keptAxes m k) := by
  induction idx generalizing k keep with
  | nil => simp [List.mapM_nil, pure, Except.pure, keptAxes]
  | cons ix idx ih =>
    simp only [List.zipIdx_cons, List.foldlM_cons, List.mapM_cons, bind, Except.bind, pure,
      Except.pure, sqStep]
    cases hr : sqRemove zeroC axis ix k with
    | error e => rfl
    | ok b =>
      cases b with
      | true =>
        simp only [ih (k + 1) keep]
        cases List.mapM (fun x => sqRemove zeroC axis x.1 x.2) (idx.zipIdx (k + 1)) with
        | error e => rfl
        | ok m => simp [keptAxes]
      | false =>
        simp only [ih (k + 1) (keep ++ [k])]
        cases List.mapM (fun x => sqRemove zeroC axis x.1 x.2) (idx.zipIdx (k + 1)) with
        | error e => rfl
        | ok m => simp [keptAxes]

/-- `squeeze` = compute the mask (or raise), then drop the masked axes -/
theorem squeeze_eq (a : Arr R) (axis : Option (List Nat)) :
    a.squeeze axis =
      match squeezeMask a axis with
      | .error e => .error e
      | .ok m => .ok (squeezed a (keptAxes m 0)) := by
  rw [squeeze_eq_foldlM, squeezeMask]
  have := foldlM_sqStep a.sym.zero axis a.indices 0 []
  rw [this]
  cases List.mapM (fun x => sqRemove a.sym.zero axis x.1 x.2) (a.indices.zipIdx 0) with
  | error e => rfl
  | ok m => simp

theorem mapM_except_error {α β ε : Type} {f : α → Except ε β} {l : List α} {e : ε}
    (h : l.mapM f = .error e) : ∃ x ∈ l, f x = .error e := by
  induction l with
  | nil => simp [List.mapM_nil, pure, Except.pure] at h
  | cons a l ih =>
    rw [List.mapM_cons] at h
    simp only [bind, Except.bind, pure, Except.pure] at h
    cases hfa : f a with
    | error e' =>
      simp only [hfa] at h
      injection h with h; subst h
      exact ⟨a, by simp, hfa⟩
    | ok b =>
      cases hl : l.mapM f with
      | error e' =>
        simp only [hfa, hl] at h
        injection h with h; subst h
        obtain ⟨x, hx, hfx⟩ := ih hl
        exact ⟨x, by simp [hx], hfx⟩
      | ok r' => simp [hfa, hl] at h

theorem mapM_except_isOk {α β ε : Type} {f : α → Except ε β} {l : List α}
    (h : ∀ x ∈ l, ∃ b, f x = .ok b) : ∃ r, l.mapM f = .ok r := by
  induction l with
  | nil => exact ⟨[], rfl⟩
  | cons a l ih =>
    obtain ⟨b, hb⟩ := h a (by simp)
    obtain ⟨r, hr⟩ := ih (fun x hx => h x (by simp [hx]))
    exact ⟨b :: r, by
      rw [List.mapM_cons]; simp only [bind, Except.bind, pure, Except.pure, hb, hr]⟩

/-- what a successful mask says: one bit per axis; a set bit means the axis was selected, is not
    larger than one and carries exactly the identity charge; a clear bit means not selected -/
theorem squeezeMask_ok {a : Arr R} {axis : Option (List Nat)} {m : List Bool}
    (h : squeezeMask a axis = .ok m) :
    m.length = a.indices.length
    ∧ ∀ (i : Nat) (ix : Index), a.indices[i]? = some ix →
        (m[i]? = some true → sqSelected axis ix i = true ∧ ∃ d, ix.cm = [(a.sym.zero, d)] ∧ d ≤ 1)
        ∧ (m[i]? = some false → sqSelected axis ix i = false) := by
  have hf := mapM_except_ok h
  have hlen : m.length = a.indices.length := by
    have := hf.length_eq; simpa using this.symm
  refine ⟨hlen, fun i ix hix => ?_⟩
  have hi : i < a.indices.length := by
    by_contra hn; rw [List.getElem?_eq_none (by omega)] at hix; cases hix
  have hzi : a.indices.zipIdx[i]? = some (ix, i) := by
    rw [List.getElem?_zipIdx, hix]; simp
  have hmi : m[i]? = some m[i] := List.getElem?_eq_getElem (by omega)
  have hrel : sqRemove a.sym.zero axis ix i = .ok m[i] := by
    have := List.Forall₂.get hf (i := i) (by simpa using hi) (by omega)
    have h1 : a.indices.zipIdx[i]'(by simpa using hi) = (ix, i) := by
      have := List.getElem?_eq_getElem (l := a.indices.zipIdx) (i := i) (by simpa using hi)
      rw [hzi] at this; exact (Option.some.inj this).symm
    simpa [List.get_eq_getElem, h1] using this
  simp only [sqRemove] at hrel
  constructor
  · intro hm
    rw [hmi] at hm; injection hm with hm
    rw [hm] at hrel
    by_cases hs : sqSelected axis ix i = true
    · refine ⟨hs, ?_⟩
      rw [if_pos hs] at hrel
      split at hrel
      · cases hrel
      · rename_i hbig
        rcases hcm : ix.cm with _ | ⟨⟨c, d⟩, _ | ⟨y, l⟩⟩
        · simp [hcm] at hrel
        · simp only [hcm] at hrel
          split at hrel
          · cases hrel
          · rename_i hc
            have hc' : c = a.sym.zero := by simpa using hc
            subst hc'
            refine ⟨d, rfl, ?_⟩
            have hst : ix.sizeTotal = d := by simp [Index.sizeTotal, hcm, sumN]
            cases axis with
            | none => simp only [sqSelected] at hs; rw [hst] at hs; simp at hs; omega
            | some axs =>
              simp only [Option.isSome_some, Bool.true_and, decide_eq_true_eq] at hbig
              omega
        · simp [hcm] at hrel
    · rw [if_neg hs] at hrel; cases hrel
  · intro hm
    rw [hmi] at hm; injection hm with hm
    rw [hm] at hrel
    by_cases hs : sqSelected axis ix i = true
    · rw [if_pos hs] at hrel
      split at hrel
      · cases hrel
      · rcases hcm : ix.cm with _ | ⟨⟨c, d⟩, _ | ⟨y, l⟩⟩
        · simp [hcm] at hrel
        · simp only [hcm] at hrel
          split at hrel <;> cases hrel
        · simp [hcm] at hrel
    · simpa using hs

end squeezeLoop

/-! ## `squeeze`: value view and dense form -/

section squeezeSem
variable {R : Type}

/-- the address of a position names a sector of the tables, with the offset in its box -/
theorem locateAll_blockShape {idx : List Index} (hnd : ∀ ix ∈ idx, (ix.cm.map (·.1)).Nodup)
    {p : List Nat} {sec : Sector} {off : List Nat} (hp : p.length = idx.length)
    (h : Arr.locateAll idx p = some (sec, off)) :
    ∃ shp, Arr.blockShape? idx sec = some shp ∧ inBox shp off = true := by
  induction idx generalizing p sec off with
  | nil =>
    cases p with
    | nil =>
      simp only [Arr.locateAll_nil_nil, Option.some.injEq, Prod.mk.injEq] at h
      obtain ⟨rfl, rfl⟩ := h
      exact ⟨[], rfl, rfl⟩
    | cons q p => simp at hp
  | cons ix idx ih =>
    cases p with
    | nil => simp at hp
    | cons q p =>
      rw [Arr.locateAll_cons] at h
      cases hco : Arr.locate (Index.sortCm ix.cm) q with
      | none => simp [hco] at h
      | some co =>
        cases hso : Arr.locateAll idx p with
        | none => simp [hco, hso] at h
        | some sf =>
          obtain ⟨c, o⟩ := co
          simp only [hco, hso, Option.bind_some, Option.map_some, Option.some.injEq,
            Prod.mk.injEq] at h
          obtain ⟨rfl, rfl⟩ := h
          obtain ⟨shp', h1, h2⟩ := ih (fun ix' h' => hnd ix' (by simp [h'])) (by simpa using hp) hso
          obtain ⟨d, hm, ho⟩ := Arr.locate_spec hco
          have hd : ix.sizeOf? c = some d :=
            alookup_of_mem_nodup (hnd ix (by simp)) (mem_sortCm.mp hm)
          exact ⟨d :: shp', by rw [Arr.blockShape?_cons, hd, h1]; rfl, inBox_cons.mpr ⟨ho, h2⟩⟩

/-- a sector of the tables has, on every masked axis, the identity charge and a size ≤ 1 -/
theorem masked_facts {idx : List Index} {zeroC : Charge} {m : List Bool}
    (hm : m.length = idx.length)
    (hmask : ∀ (i : Nat) (ix : Index), idx[i]? = some ix → m[i]? = some true →
      ∃ d, ix.cm = [(zeroC, d)] ∧ d ≤ 1)
    {t : Sector} {sh : List Nat} (ht : Arr.blockShape? idx t = some sh) (i : Nat)
    (hi : m[i]? = some true) : ∃ d, d ≤ 1 ∧ t[i]? = some zeroC ∧ sh[i]? = some d := by
  have hil : i < m.length := by
    by_contra hn; rw [List.getElem?_eq_none (by omega)] at hi; cases hi
  have hix : idx[i]? = some idx[i] := List.getElem?_eq_getElem (by omega)
  have htl := Arr.blockShape?_length ht
  have hti : t[i]? = some t[i] := List.getElem?_eq_getElem (by omega)
  obtain ⟨d0, hcm, hd0⟩ := hmask i _ hix hi
  obtain ⟨d, h1, h2⟩ := blockShape?_getElem ht hix hti
  rw [hcm] at h2
  by_cases e : zeroC = t[i]
  · rw [← e] at h2 hti
    simp only [alookup_cons_self, Option.some.injEq] at h2
    exact ⟨d, by omega, hti, h1⟩
  · rw [alookup_cons_ne e] at h2; simp at h2

theorem inBox_getElem? {shape off : List Nat} (h : inBox shape off = true) {i d : Nat}
    (hd : shape[i]? = some d) : ∃ o, off[i]? = some o ∧ o < d := by
  rw [inBox_iff] at h
  have hi : i < shape.length := by
    by_contra hn; rw [List.getElem?_eq_none (by omega)] at hd; cases hd
  have := h.2 i hi
  rw [List.getD_eq_getElem?_getD, List.getD_eq_getElem?_getD, hd,
    List.getElem?_eq_getElem (show i < off.length by omega)] at this
  exact ⟨off[i], List.getElem?_eq_getElem (by omega), by simpa using this⟩

/-- **squeeze, value view.**  Dropping the masked coordinates of a sector of the tables and of
    an offset of its box gives an address of the squeezed array holding the same value. -/
theorem squeezed_elem [Zero R] [Neg R] (a : Arr R) (m : List Bool) (hm : m.length = a.indices.length)
    (hmask : ∀ (i : Nat) (ix : Index), a.indices[i]? = some ix → m[i]? = some true →
      ∃ d, ix.cm = [(a.sym.zero, d)] ∧ d ≤ 1)
    (hab : a.phases = []) (hsh : Arr.ShapesOk a) (hnd : a.sectors.Nodup)
    (s : Sector) (shp off : List Nat) (hshp : Arr.blockShape? a.indices s = some shp)
    (hoff : inBox shp off = true) :
    (squeezed a (keptAxes m 0)).elem (dropMask m s) (dropMask m off) = a.elem s off := by
  have hstored : ∀ t ∈ a.sectors, ∃ sh, Arr.blockShape? a.indices t = some sh := by
    intro t ht
    obtain ⟨b, hb⟩ := Option.isSome_iff_exists.mp (alookup_isSome_iff.mpr ht)
    exact ⟨_, hsh.2 t b hb⟩
  have hperm : ∀ t sh, Arr.blockShape? a.indices t = some sh →
      permuted t (keptAxes m 0) = dropMask m t := fun t sh ht =>
    permuted_keptAxes_zero m t (by rw [Arr.blockShape?_length ht, hm])
  have hinj : ∀ t sh t' sh', Arr.blockShape? a.indices t = some sh →
      Arr.blockShape? a.indices t' = some sh' →
      permuted t (keptAxes m 0) = permuted t' (keptAxes m 0) → t = t' := by
    intro t sh t' sh' ht ht' he
    rw [hperm t sh ht, hperm t' sh' ht'] at he
    refine dropMask_inj (by rw [Arr.blockShape?_length ht, hm]) (by rw [Arr.blockShape?_length ht', hm])
      (fun i hi => ?_) he
    obtain ⟨_, _, h1, _⟩ := masked_facts hm hmask ht i hi
    obtain ⟨_, _, h2, _⟩ := masked_facts hm hmask ht' i hi
    rw [h1, h2]
  have hph : (squeezed a (keptAxes m 0)).phases = [] := by
    simp only [squeezed, Arr.mapBlocks, hab]
    cases a.fermi <;> rfl
  have hkeys : ((a.blocks.map (fun (sb : Sector × Blk R) =>
      (permuted sb.1 (keptAxes m 0), sb.2.squeezeK (keptAxes m 0)))).map (·.1)).Nodup := by
    rw [List.map_map]
    have : ((fun x : Sector × Blk R => x.1) ∘ fun sb : Sector × Blk R =>
        (permuted sb.1 (keptAxes m 0), sb.2.squeezeK (keptAxes m 0)))
        = (fun t => permuted t (keptAxes m 0)) ∘ (·.1) := rfl
    rw [this, ← List.map_map]
    refine List.Nodup.map_on (fun x hx y hy hxy => ?_) hnd
    obtain ⟨shx, hx'⟩ := hstored x hx
    obtain ⟨shy, hy'⟩ := hstored y hy
    exact hinj x shx y shy hx' hy' hxy
  have hbl : (squeezed a (keptAxes m 0)).blocks = a.blocks.map (fun (sb : Sector × Blk R) =>
      (permuted sb.1 (keptAxes m 0), sb.2.squeezeK (keptAxes m 0))) := by
    simp only [squeezed, Arr.mapBlocks]
    exact adict_of_nodup _ hkeys
  rw [Arr.elem_abelian _ hph, Arr.elem_abelian a hab, hbl, ← hperm s shp hshp,
    alookup_map_inj a.blocks _ (fun t => permuted t (keptAxes m 0))
      (fun b => b.squeezeK (keptAxes m 0)) (fun _ => rfl) s (fun k hk hkk => by
        obtain ⟨shk, hk'⟩ := hstored k hk
        exact hinj k shk s shp hk' hshp hkk)]
  cases hb : alookup a.blocks s with
  | none => rfl
  | some b =>
    have hbs : b.shape = shp := by
      have := hsh.2 s b hb; rw [hshp] at this; exact (Option.some.inj this).symm
    have hsl : shp.length = m.length := by rw [Arr.blockShape?_shape_length hshp, hm]
    have hol : off.length = m.length := by rw [inBox_length hoff, hsl]
    simp only [Option.map_some, Blk.get, Blk.squeezeK, hbs]
    rw [permuted_keptAxes_zero m shp hsl,
      ravel_dropMask m shp off hsl hol
        (fun i hi => by
          obtain ⟨d, hd, _, h3⟩ := masked_facts hm hmask hshp i hi
          obtain ⟨o, _, ho⟩ := inBox_getElem? hoff h3
          rw [h3]; congr 1; omega)
        (fun i hi => by
          obtain ⟨d, hd, _, h3⟩ := masked_facts hm hmask hshp i hi
          obtain ⟨o, ho1, ho⟩ := inBox_getElem? hoff h3
          rw [ho1]; congr 1; omega)]

/-- **squeeze, dense form.**  The squeezed array's dense form has the masked axes dropped from
    the shape, and its entry at a position with the masked coordinates dropped is the original
    entry. -/
theorem squeezed_toDense [Zero R] [Neg R] (a : Arr R) (m : List Bool) (hm : m.length = a.indices.length)
    (hmask : ∀ (i : Nat) (ix : Index), a.indices[i]? = some ix → m[i]? = some true →
      ∃ d, ix.cm = [(a.sym.zero, d)] ∧ d ≤ 1)
    (hab : a.phases = []) (hsh : Arr.ShapesOk a) (hnd : a.sectors.Nodup)
    (hne : a.indices.any (fun ix => ix.cm.isEmpty) = false) :
    ∃ d d', Arr.toDenseA a = .ok d ∧ Arr.toDenseA (squeezed a (keptAxes m 0)) = .ok d'
      ∧ d.shape = a.shape ∧ d'.shape = dropMask m a.shape
      ∧ ∀ p, inBox a.shape p = true → d'.get (dropMask m p) = d.get p := by
  have hidx : (squeezed a (keptAxes m 0)).indices = dropMask m a.indices := by
    simp only [squeezed]; exact permuted_keptAxes_zero m a.indices hm.symm
  have hshape : (squeezed a (keptAxes m 0)).shape = dropMask m a.shape := by
    simp only [Arr.shape, hidx, dropMask_map]
  have hne' : (squeezed a (keptAxes m 0)).indices.any (fun ix => ix.cm.isEmpty) = false := by
    rw [hidx]
    rw [List.any_eq_false] at hne ⊢
    exact fun ix hix => hne ix (mem_of_mem_dropMask hix)
  obtain ⟨d, hd, hs, hg⟩ := Arr.toDenseA_get a hne
  obtain ⟨d', hd', hs', hg'⟩ := Arr.toDenseA_get (squeezed a (keptAxes m 0)) hne'
  refine ⟨d, d', hd, hd', hs, hs'.trans hshape, fun p hp => ?_⟩
  have hpl : p.length = a.indices.length := by simpa [Arr.shape] using inBox_length hp
  obtain ⟨sec, off, hl, hx⟩ := hg p hp
  obtain ⟨sec', off', hl', hx'⟩ := hg' (dropMask m p) (by rw [hshape]; exact inBox_dropMask m hp)
  rw [hidx, locateAll_dropMask m hl hpl] at hl'
  simp only [Option.some.injEq, Prod.mk.injEq] at hl'
  obtain ⟨rfl, rfl⟩ := hl'
  obtain ⟨shp, hshp, hoff⟩ := locateAll_blockShape hsh.1 hpl hl
  rw [hx, hx']
  exact squeezed_elem a m hm hmask hab hsh hnd sec shp off hshp hoff

end squeezeSem

/-! ## `expand_dims` (default charge): value view and dense form -/

section expand
variable {R : Type}

theorem ins_map {α β : Type} (f : α → β) (axis : Nat) (x : α) (l : List α) :
    (ins axis x l).map f = ins axis (f x) (l.map f) := by
  simp [ins, List.map_take, List.map_drop]

theorem mem_ins {α : Type} {axis : Nat} {x y : α} {l : List α} (h : y ∈ ins axis x l) :
    y = x ∨ y ∈ l := by
  simp only [ins, List.mem_append, List.mem_singleton] at h
  rcases h with (h | h) | h
  · exact Or.inr (List.mem_of_mem_take h)
  · exact Or.inl h
  · exact Or.inr (List.mem_of_mem_drop h)

theorem ins_inj {α : Type} {axis : Nat} {x : α} {l l' : List α} (hl : axis ≤ l.length)
    (hll : l'.length = l.length) (h : ins axis x l = ins axis x l') : l = l' := by
  have h1 := dropMask_ins axis x l hl
  have h2 := dropMask_ins axis x l' (by omega)
  rw [hll, ← h, h1] at h2
  exact h2

theorem inBox_ins {shape p : List Nat} (h : inBox shape p = true) (axis : Nat)
    (ha : axis ≤ shape.length) : inBox (ins axis 1 shape) (ins axis 0 p) = true := by
  induction axis generalizing shape p with
  | zero => simp [inBox_cons, h]
  | succ axis ih =>
    cases shape with
    | nil => simp at ha
    | cons d ds =>
      cases p with
      | nil => simp [inBox] at h
      | cons q ps =>
        rw [inBox_cons] at h
        simp only [ins_succ_cons, inBox_cons]
        exact ⟨h.1, ih h.2 (by simpa using ha)⟩

theorem locateAll_ins {idx : List Index} {p : List Nat} {sec : Sector} {off : List Nat}
    (h : Arr.locateAll idx p = some (sec, off)) (hp : p.length = idx.length) (axis : Nat)
    (ha : axis ≤ idx.length) (c : Charge) (dl : Bool) :
    Arr.locateAll (ins axis (Index.mk [(c, 1)] dl none) idx) (ins axis 0 p)
      = some (ins axis c sec, ins axis 0 off) := by
  induction axis generalizing idx p sec off with
  | zero =>
    simp only [ins_zero, Arr.locateAll_cons, h]
    rfl
  | succ axis ih =>
    cases idx with
    | nil => simp at ha
    | cons ix idx =>
      cases p with
      | nil => simp at hp
      | cons q p =>
        rw [Arr.locateAll_cons] at h
        cases hco : Arr.locate (Index.sortCm ix.cm) q with
        | none => simp [hco] at h
        | some co =>
          cases hso : Arr.locateAll idx p with
          | none => simp [hco, hso] at h
          | some sf =>
            simp only [hco, hso, Option.bind_some, Option.map_some, Option.some.injEq,
              Prod.mk.injEq] at h
            obtain ⟨rfl, rfl⟩ := h
            simp only [ins_succ_cons, Arr.locateAll_cons, hco,
              ih hso (by simpa using hp) (by simpa using ha), Option.bind_some, Option.map_some]

/-- the direction `expand_dims` gives the new index -/
def expandDual (a : Arr R) (axis : Nat) (dual : Option Bool) : Bool :=
  match dual with
  | some d => d
  | none =>
    if axis > 0 then (a.indices.getD (axis - 1) default).dual
    else if axis < a.ndim then (a.indices.getD axis default).dual
    else false

theorem expandDims_none_fields (a : Arr R) (axis : Nat) (dual : Option Bool) :
    (a.expandDims axis none dual).indices
        = ins axis (Index.mk [(a.sym.zero, 1)] (expandDual a axis dual) none) a.indices
    ∧ (a.expandDims axis none dual).charge = a.charge
    ∧ (a.expandDims axis none dual).sym = a.sym
    ∧ (a.expandDims axis none dual).blocks
        = adict (a.blocks.map (fun (sb : Sector × Blk R) =>
            (ins axis a.sym.zero sb.1, sb.2.expandK axis)))
    ∧ (a.phases = [] → (a.expandDims axis none dual).phases = []) := by
  refine ⟨?_, rfl, rfl, rfl, fun h => ?_⟩
  · cases dual <;> rfl
  · simp only [Arr.expandDims, Arr.mapBlocks, h]
    cases a.fermi <;> rfl

theorem get_expandK [Zero R] (b : Blk R) (axis : Nat) (off : List Nat) (ha : axis ≤ b.shape.length)
    (ho : off.length = b.shape.length) : (b.expandK axis).get (ins axis 0 off) = b.get off := by
  have hs : (b.expandK axis).shape = ins axis 1 b.shape := rfl
  simp only [Blk.get, hs]
  have hd : (b.expandK axis).data = b.data := rfl
  rw [hd]
  have hm := length_insMask axis b.shape.length ha
  have := ravel_dropMask (insMask axis b.shape.length) (ins axis 1 b.shape) (ins axis 0 off)
    (by rw [length_ins, hm]) (by rw [length_ins, hm, ho])
    (fun i hi => ins_at_mask axis 1 b.shape ha i hi)
    (fun i hi => by
      have := ins_at_mask axis 0 off (by omega) i (by rw [ho]; exact hi)
      exact this)
  rw [dropMask_ins axis 1 b.shape ha] at this
  have h2 := dropMask_ins axis 0 off (by omega)
  rw [ho] at h2
  rw [h2] at this
  rw [this]

/-- **expand_dims, value view.**  Inserting the identity charge into the sector and the offset 0
    into the offsets gives an address of the expanded array holding the same value. -/
theorem expandDims_elem_main [Zero R] [Neg R] (a : Arr R) (axis : Nat) (dual : Option Bool)
    (ha : axis ≤ a.ndim) (hab : a.phases = []) (hnd : a.sectors.Nodup)
    (hlen : ∀ t ∈ a.sectors, t.length = a.ndim)
    (hshape : ∀ t b, alookup a.blocks t = some b → b.shape.length = a.ndim)
    (s : Sector) (hs : s.length = a.ndim) (off : List Nat) (ho : off.length = a.ndim) :
    (a.expandDims axis none dual).elem (ins axis a.sym.zero s) (ins axis 0 off) = a.elem s off := by
  obtain ⟨_, _, _, hbl, hph⟩ := expandDims_none_fields a axis dual
  have hkeys : ((a.blocks.map (fun (sb : Sector × Blk R) =>
      (ins axis a.sym.zero sb.1, sb.2.expandK axis))).map (·.1)).Nodup := by
    rw [List.map_map]
    have : ((fun x : Sector × Blk R => x.1) ∘ fun sb : Sector × Blk R =>
        (ins axis a.sym.zero sb.1, sb.2.expandK axis)) = (fun t => ins axis a.sym.zero t) ∘ (·.1) := rfl
    rw [this, ← List.map_map]
    refine List.Nodup.map_on (fun x hx y hy hxy => ?_) hnd
    exact ins_inj (by rw [hlen x hx]; exact ha) (by rw [hlen x hx, hlen y hy]) hxy
  rw [Arr.elem_abelian _ (hph hab), Arr.elem_abelian a hab, hbl, adict_of_nodup _ hkeys,
    alookup_map_inj a.blocks _ (fun t => ins axis a.sym.zero t) (fun b => b.expandK axis)
      (fun _ => rfl) s (fun k hk hkk => ins_inj (by rw [hlen k hk]; exact ha)
        (by rw [hlen k hk, hs]) hkk)]
  cases hb : alookup a.blocks s with
  | none => rfl
  | some b =>
    simp only [Option.map_some]
    exact get_expandK b axis off (by rw [hshape s b hb]; exact ha) (by rw [ho, hshape s b hb])

/-- **expand_dims, dense form.**  The expanded array's dense form has a size-one axis inserted,
    and its entry at a position with coordinate 0 inserted is the original entry. -/
theorem expandDims_toDense_main [Zero R] [Neg R] (a : Arr R) (axis : Nat) (dual : Option Bool)
    (ha : axis ≤ a.ndim) (hab : a.phases = []) (hsh : Arr.ShapesOk a) (hnd : a.sectors.Nodup)
    (hlen : ∀ t ∈ a.sectors, t.length = a.ndim)
    (hne : a.indices.any (fun ix => ix.cm.isEmpty) = false) :
    ∃ d d', Arr.toDenseA a = .ok d ∧ Arr.toDenseA (a.expandDims axis none dual) = .ok d'
      ∧ d.shape = a.shape ∧ d'.shape = ins axis 1 a.shape
      ∧ ∀ p, inBox a.shape p = true → d'.get (ins axis 0 p) = d.get p := by
  obtain ⟨hidx, _, _, _, _⟩ := expandDims_none_fields a axis dual
  have hshape : (a.expandDims axis none dual).shape = ins axis 1 a.shape := by
    rw [Arr.shape, hidx, ins_map]; rfl
  have hne' : (a.expandDims axis none dual).indices.any (fun ix => ix.cm.isEmpty) = false := by
    rw [hidx]
    rw [List.any_eq_false] at hne ⊢
    intro ix hix
    rcases mem_ins hix with rfl | hix
    · simp [Index.cm]
    · exact hne ix hix
  obtain ⟨d, hd, hs, hg⟩ := Arr.toDenseA_get a hne
  obtain ⟨d', hd', hs', hg'⟩ := Arr.toDenseA_get (a.expandDims axis none dual) hne'
  refine ⟨d, d', hd, hd', hs, hs'.trans hshape, fun p hp => ?_⟩
  have hpl : p.length = a.indices.length := by simpa [Arr.shape] using inBox_length hp
  obtain ⟨sec, off, hl, hx⟩ := hg p hp
  obtain ⟨sec', off', hl', hx'⟩ := hg' (ins axis 0 p)
    (by rw [hshape]; exact inBox_ins hp axis (by simpa [Arr.shape, Arr.ndim] using ha))
  rw [hidx, locateAll_ins hl hpl axis ha] at hl'
  simp only [Option.some.injEq, Prod.mk.injEq] at hl'
  obtain ⟨rfl, rfl⟩ := hl'
  obtain ⟨hsl, hol⟩ := Arr.locateAll_length hl hpl
  rw [hx, hx']
  exact expandDims_elem_main a axis dual ha hab hnd hlen
    (fun t b hb => by simpa [Arr.ndim] using Arr.blockShape?_shape_length (hsh.2 t b hb))
    sec hsl off hol

end expand

/-! ## `squeeze`: when it raises -/

section squeezeErr
variable {R : Type}

theorem sqRemove_cases (z : Charge) (axis : Option (List Nat)) (ix : Index) (ax : Nat) :
    (sqRemove z axis ix ax = .error Err.value ∧ sqSelected axis ix ax = true
        ∧ ((axis.isSome = true ∧ ix.sizeTotal > 1) ∨ ∀ d, ix.cm ≠ [(z, d)]))
    ∨ (∃ b, sqRemove z axis ix ax = .ok b
        ∧ ¬ (sqSelected axis ix ax = true
          ∧ ((axis.isSome = true ∧ ix.sizeTotal > 1) ∨ ∀ d, ix.cm ≠ [(z, d)]))) := by
  simp only [sqRemove]
  by_cases hs : sqSelected axis ix ax = true
  · rw [if_pos hs]
    by_cases hbig : (axis.isSome && decide (ix.sizeTotal > 1)) = true
    · left
      rw [if_pos hbig]
      simp only [Bool.and_eq_true, decide_eq_true_eq] at hbig
      exact ⟨rfl, hs, Or.inl hbig⟩
    · rw [if_neg hbig]
      have hbig' : ¬ (axis.isSome = true ∧ ix.sizeTotal > 1) := by
        simpa only [Bool.and_eq_true, decide_eq_true_eq] using hbig
      rcases hcm : ix.cm with _ | ⟨⟨c, d⟩, _ | ⟨y, l⟩⟩
      · left; exact ⟨rfl, hs, Or.inr (fun d => by simp)⟩
      · by_cases hc : c = z
        · right
          subst hc
          refine ⟨true, by simp, ?_⟩
          rintro ⟨_, h | h⟩
          · exact hbig' h
          · exact h d rfl
        · left
          have : (c != z) = true := by simpa using hc
          refine ⟨by simp only [this, if_true], hs, Or.inr (fun d' h => ?_)⟩
          simp only [List.cons.injEq, Prod.mk.injEq, and_true] at h
          exact hc h.1
      · left; exact ⟨rfl, hs, Or.inr (fun d => by simp)⟩
  · right
    rw [if_neg hs]
    exact ⟨false, rfl, fun h => hs h.1⟩

/-- `squeeze` raises — a `ValueError` — exactly when some selected axis is explicitly requested
    although larger than one, or does not carry exactly the identity charge -/
theorem squeeze_error_iff_main (a : Arr R) (axis : Option (List Nat)) :
    ((∃ e, a.squeeze axis = .error e) ↔
      ∃ (i : Nat) (ix : Index), a.indices[i]? = some ix ∧ sqSelected axis ix i = true
        ∧ ((axis.isSome = true ∧ ix.sizeTotal > 1) ∨ ∀ d, ix.cm ≠ [(a.sym.zero, d)]))
    ∧ ∀ e, a.squeeze axis = .error e → e = Err.value := by
  rw [squeeze_eq]
  cases hm : squeezeMask a axis with
  | error e =>
    obtain ⟨x, hx, hfx⟩ := mapM_except_error hm
    obtain ⟨ix, i⟩ := x
    have hix : a.indices[i]? = some ix := by
      have := List.mem_zipIdx_iff_getElem?.mp hx; simpa using this
    rcases sqRemove_cases a.sym.zero axis ix i with ⟨h1, h2, h3⟩ | ⟨b, h1, _⟩
    · rw [h1] at hfx; injection hfx with hfx; subst hfx
      exact ⟨⟨fun _ => ⟨i, ix, hix, h2, h3⟩, fun _ => ⟨_, rfl⟩⟩, fun e he => (Except.error.inj he).symm⟩
    · rw [h1] at hfx; cases hfx
  | ok m =>
    refine ⟨⟨fun ⟨e, he⟩ => (by cases he), ?_⟩, fun e he => (by cases he)⟩
    rintro ⟨i, ix, hix, h2, h3⟩
    have hx : (ix, i) ∈ a.indices.zipIdx := List.mem_zipIdx_iff_getElem?.mpr (by simpa using hix)
    obtain ⟨b, hb⟩ : ∃ b, sqRemove a.sym.zero axis ix i = .ok b := by
      have hf := mapM_except_ok hm
      obtain ⟨k, hk⟩ := List.mem_iff_getElem.mp hx
      obtain ⟨hk1, hk2⟩ := hk
      have := List.Forall₂.get hf (i := k) hk1 (by have := hf.length_eq; omega)
      simp only [List.get_eq_getElem, hk2] at this
      exact ⟨_, this⟩
    rcases sqRemove_cases a.sym.zero axis ix i with ⟨h1, _, _⟩ | ⟨b', _, hn⟩
    · rw [h1] at hb; cases hb
    · exact absurd ⟨h2, h3⟩ hn

end squeezeErr

/-! ## block vectors (`BlockVector`, symmray/block_core.py)

The model has the data type `BVec` but no operations on it; these are the operations of
`BlockVector` written exactly as block_core.py performs them (the binary ones through the
model's `binaryBlockwise`). -/

section bvec
variable {R : Type}

/-- `apply_to_arrays(fn)` / `_do_unary_op(fn)` / scalar arithmetic: `fn` elementwise on every block -/
def mapV (f : R → R) (v : BVec R) : BVec R := ⟨v.blocks.map (fun (k, b) => (k, b.map f))⟩

/-- `_binary_blockwise_op(other, fn, missing)` -/
def binopV [Zero R] (f : R → R → R) (m : Missing) (x y : BVec R) : Except Err (BVec R) :=
  match binaryBlockwise (Blk.zipWith f) m x.blocks y.blocks with
  | .ok bl => .ok ⟨bl⟩
  | .error e => .error e

/-- the blocks in sorted key order (`sorted(self.blocks)`) -/
def sortedV (v : BVec R) : List (Charge × Blk R) := isort (fun a b => Charge.lt a.1 b.1) v.blocks

/-- `BlockVector.to_dense`: concatenate the blocks in sorted key order -/
def toDenseV [Zero R] (v : BVec R) : Blk R := Blk.concatK ((sortedV v).map (·.2)) 0

/-- reduction of one block with an operation `op` with identity `e` (`sum`, `max`, `any`, …) -/
def reduceBlk (op : R → R → R) (e : R) (b : Blk R) : R := b.data.foldl op e

/-- `_do_reduction(fn)`: `fn` of the stack of `fn` of every block -/
def reduceV (op : R → R → R) (e : R) (v : BVec R) : R :=
  (v.blocks.map (fun p => reduceBlk op e p.2)).foldl op e

/-- every block is a well-formed 1-D array -/
def VecOk (v : BVec R) : Prop := ∀ p ∈ v.blocks, p.2.wf = true ∧ ∃ n, p.2.shape = [n]

/-- decidable form of `VecOk` -/
theorem vecOk_of_all {v : BVec R}
    (h : v.blocks.all (fun p => p.2.wf && p.2.shape.length == 1) = true) : VecOk v := by
  intro p hp
  have := List.all_eq_true.mp h p hp
  simp only [Bool.and_eq_true, beq_iff_eq] at this
  obtain ⟨n, hn⟩ := List.length_eq_one_iff.mp this.2
  exact ⟨this.1, n, hn⟩

/-- decidable forms of the "same keys" / "same shapes" hypotheses -/
theorem sameKeys_of_all {x y : BVec R}
    (h : (x.blocks.all (fun p => (y.blocks.map (·.1)).contains p.1)
        && y.blocks.all (fun p => (x.blocks.map (·.1)).contains p.1)) = true) :
    ∀ k, k ∈ x.blocks.map (·.1) ↔ k ∈ y.blocks.map (·.1) := by
  simp only [Bool.and_eq_true, List.all_eq_true, List.contains_iff_mem] at h
  intro k
  constructor
  · intro hk
    obtain ⟨p, hp, rfl⟩ := List.mem_map.mp hk
    exact h.1 p hp
  · intro hk
    obtain ⟨p, hp, rfl⟩ := List.mem_map.mp hk
    exact h.2 p hp

theorem sameShapes_of_all {x y : BVec R}
    (h : x.blocks.all (fun p => match alookup y.blocks p.1 with
        | some b => p.2.shape == b.shape
        | none => true) = true) :
    ∀ k bx b, alookup x.blocks k = some bx → alookup y.blocks k = some b → bx.shape = b.shape := by
  intro k bx b hx hy
  have := List.all_eq_true.mp h (k, bx) (alookup_eq_some_mem hx)
  simp only [hy, beq_iff_eq] at this
  exact this

theorem isort_perm' {α : Type} (lt : α → α → Bool) (l : List α) : (isort lt l).Perm l :=
  isort_perm lt l

theorem insertSorted_map_key {β γ : Type} (g : Charge × β → Charge × γ) (hg : ∀ p, (g p).1 = p.1)
    (a : Charge × β) (l : List (Charge × β)) :
    insertSorted (fun a b => Charge.lt a.1 b.1) (g a) (l.map g)
      = (insertSorted (fun a b => Charge.lt a.1 b.1) a l).map g := by
  induction l with
  | nil => rfl
  | cons b l ih =>
    simp only [List.map_cons, insertSorted, hg]
    split
    · simp [ih]
    · simp

theorem isort_map_key {β γ : Type} (g : Charge × β → Charge × γ) (hg : ∀ p, (g p).1 = p.1)
    (l : List (Charge × β)) :
    isort (fun a b => Charge.lt a.1 b.1) (l.map g) = (isort (fun a b => Charge.lt a.1 b.1) l).map g := by
  induction l with
  | nil => rfl
  | cons a l ih => simp only [List.map_cons, isort, ih, insertSorted_map_key g hg]

theorem sortedV_mapV (f : R → R) (v : BVec R) :
    sortedV (mapV f v) = (sortedV v).map (fun p => (p.1, p.2.map f)) := by
  simp only [sortedV, mapV]
  exact isort_map_key (fun p => (p.1, p.2.map f)) (fun _ => rfl) v.blocks

theorem allIdx_one (n : Nat) : allIdx [n] = (List.range n).map (fun i => [i]) := by
  simp only [allIdx]
  induction (List.range n) with
  | nil => rfl
  | cons a l ih =>
    simp only [List.map_cons, List.map_nil] at ih
    simp only [List.flatMap_cons, List.map_cons, List.map_nil, ih]; rfl

/-- the data of a well-formed 1-D block, read by `get` -/
theorem range_map_get1 [Zero R] (b : Blk R) (hwf : b.wf = true) {n : Nat} (hs : b.shape = [n]) :
    (List.range n).map (fun o => b.get [o]) = b.data.toList := by
  have := allIdx_map_get b hwf
  rw [hs, allIdx_one, List.map_map] at this
  exact this

/-- reading along a concatenation: piece by piece -/
theorem range_map_locatePiece {γ : Type} (bs : List (Blk R)) (F : Blk R → Nat → γ) (z : γ) :
    (List.range (sumN (bs.map (fun b => b.shape.getD 0 0)))).map (fun q =>
        match Blk.locatePiece (bs.map (fun b => b.shape.getD 0 0)) q with
        | some (k, o) => (match bs[k]? with
                          | some b => F b o
                          | none => z)
        | none => z)
      = bs.flatMap (fun b => (List.range (b.shape.getD 0 0)).map (fun o => F b o)) := by
  induction bs with
  | nil => simp [sumN]
  | cons b bs ih =>
    simp only [List.map_cons, sumN, List.range_add, List.map_append, List.map_map,
      List.flatMap_cons]
    congr 1
    · apply List.map_congr_left
      intro q hq
      have : q < b.shape.getD 0 0 := List.mem_range.mp hq
      simp only [Blk.locatePiece, this, if_true, List.getElem?_cons_zero]
    · rw [← ih]
      apply List.map_congr_left
      intro q _
      have : ¬ (b.shape.getD 0 0 + q < b.shape.getD 0 0) := by omega
      simp only [Function.comp, Blk.locatePiece, this, if_false, Nat.add_sub_cancel_left]
      cases Blk.locatePiece (bs.map (fun b => b.shape.getD 0 0)) q with
      | none => rfl
      | some ko =>
        obtain ⟨k, o⟩ := ko
        simp only [Option.map_some, List.getElem?_cons_succ]

/-- **data view of `to_dense`.**  For a non-empty vector of well-formed 1-D blocks, the dense
    vector has the total length and its data is the concatenation of the blocks' data in sorted
    key order. -/
theorem toDenseV_data [Zero R] (v : BVec R) (hok : VecOk v) (hne : v.blocks ≠ []) :
    (toDenseV v).shape = [sumN ((sortedV v).map (fun p => p.2.shape.getD 0 0))]
    ∧ (toDenseV v).data.toList = (sortedV v).flatMap (fun p => p.2.data.toList) := by
  have hperm : (sortedV v).Perm v.blocks := isort_perm _ _
  have hok' : ∀ p ∈ sortedV v, p.2.wf = true ∧ ∃ n, p.2.shape = [n] :=
    fun p hp => hok p (hperm.mem_iff.mp hp)
  have hne' : sortedV v ≠ [] := fun h => hne (by
    have := hperm.length_eq; rw [h] at this; exact List.length_eq_zero_iff.mp this.symm)
  unfold toDenseV
  generalize sortedV v = sv at hok' hne'
  cases sv with
  | nil => exact absurd rfl hne'
  | cons p0 rest =>
    obtain ⟨n0, hn0⟩ := (hok' p0 (by simp)).2
    have hsizes : ((p0 :: rest).map (·.2)).map (fun b => b.shape.getD 0 0)
        = (p0 :: rest).map (fun p => p.2.shape.getD 0 0) := by
      rw [List.map_map]; rfl
    have hshape : (p0.2.shape.set 0 (sumN (((p0 :: rest).map (·.2)).map (fun b => b.shape.getD 0 0))))
        = [sumN ((p0 :: rest).map (fun p => p.2.shape.getD 0 0))] := by
      rw [hn0, hsizes]; rfl
    constructor
    · exact hshape
    · have hdata : (Blk.concatK ((p0 :: rest).map (·.2)) 0).data.toList
          = (allIdx [sumN (((p0 :: rest).map (·.2)).map (fun b => b.shape.getD 0 0))]).map (fun i =>
              match Blk.locatePiece (((p0 :: rest).map (·.2)).map (fun b => b.shape.getD 0 0)) (i.getD 0 0) with
              | some (k, o) => (match ((p0 :: rest).map (·.2))[k]? with
                                | some b => b.get (i.set 0 o)
                                | none => 0)
              | none => 0) := by
        simp only [List.map_cons, Blk.concatK, Blk.ofFn, hn0]
        rfl
      rw [hdata, allIdx_one, List.map_map]
      have := range_map_locatePiece ((p0 :: rest).map (·.2)) (fun b o => b.get [o]) (0 : R)
      refine Eq.trans ?_ (this.trans ?_)
      · rfl
      rw [List.flatMap_map]
      apply List.flatMap_congr
      intro p hp
      obtain ⟨hw, n, hn⟩ := hok' p hp
      rw [hn]
      exact range_map_get1 p.2 hw hn

/-- **elementwise functions and scalar operations commute with densification**: for any `f`
    (no condition on `f 0`: a block vector has no implicit zeros) -/
theorem mapV_toDense_main [Zero R] (f : R → R) (v : BVec R) (hok : VecOk v) (hne : v.blocks ≠ []) :
    toDenseV (mapV f v) = (toDenseV v).map f := by
  have hok' : VecOk (mapV f v) := by
    intro p hp
    simp only [mapV, List.mem_map] at hp
    obtain ⟨⟨k, b⟩, hb, rfl⟩ := hp
    obtain ⟨hw, n, hn⟩ := hok (k, b) hb
    exact ⟨by simpa [Blk.wf, Blk.map] using hw, n, hn⟩
  have hne' : (mapV f v).blocks ≠ [] := by simpa [mapV] using hne
  obtain ⟨s1, d1⟩ := toDenseV_data v hok hne
  obtain ⟨s2, d2⟩ := toDenseV_data (mapV f v) hok' hne'
  have hshape : (toDenseV (mapV f v)).shape = ((toDenseV v).map f).shape := by
    rw [s2, Blk.shape_map, s1, sortedV_mapV, List.map_map]; rfl
  have hdata : (toDenseV (mapV f v)).data = ((toDenseV v).map f).data := by
    apply Array.ext'
    rw [d2, sortedV_mapV, List.flatMap_map]
    simp only [Blk.map, Array.toList_map, d1, List.map_flatMap]
  cases h1 : toDenseV (mapV f v) with
  | mk sh da =>
    cases h2 : (toDenseV v).map f with
    | mk sh' da' =>
      rw [h1, h2] at hshape hdata
      simp only at hshape hdata
      rw [hshape, hdata]

/-! ### reductions -/

theorem foldl_op_init (op : R → R → R) (e : R) (hassoc : ∀ a b c, op (op a b) c = op a (op b c))
    (hid : ∀ a, op a e = a) (l : List R) (a : R) : l.foldl op a = op a (l.foldl op e) := by
  induction l generalizing a with
  | nil => simp [hid]
  | cons x l ih =>
    simp only [List.foldl_cons]
    rw [ih (op a x), ih (op e x), ← hassoc, ← hassoc, hid]

theorem foldl_op_flatMap {α : Type} (op : R → R → R) (e : R)
    (hassoc : ∀ a b c, op (op a b) c = op a (op b c)) (hid : ∀ a, op a e = a)
    (l : List α) (g : α → List R) :
    (l.flatMap g).foldl op e = (l.map (fun x => (g x).foldl op e)).foldl op e := by
  have key : ∀ a, (l.flatMap g).foldl op a = (l.map (fun x => (g x).foldl op e)).foldl op a := by
    induction l with
    | nil => intro a; rfl
    | cons x l ih =>
      intro a
      simp only [List.flatMap_cons, List.foldl_append, List.map_cons, List.foldl_cons]
      rw [ih, foldl_op_init op e hassoc hid (g x) a]
  exact key e

/-- **reductions commute with densification**: for an associative, commutative operation with
    identity (`sum`, and `max`/`min`/`all`/`any` on types where they have one), reducing the
    per-block reductions gives the reduction of the dense vector -/
theorem reduceV_toDense_main [Zero R] (op : R → R → R) (e : R)
    (hassoc : ∀ a b c, op (op a b) c = op a (op b c)) (hcomm : ∀ a b, op a b = op b a)
    (hid : ∀ a, op a e = a) (v : BVec R) (hok : VecOk v) (hne : v.blocks ≠ []) :
    reduceV op e v = reduceBlk op e (toDenseV v) := by
  obtain ⟨_, d1⟩ := toDenseV_data v hok hne
  simp only [reduceV, reduceBlk]
  rw [← Array.foldl_toList, d1, foldl_op_flatMap op e hassoc hid]
  have hperm : ((sortedV v).map (fun p => p.2.data.toList.foldl op e)).Perm
      (v.blocks.map (fun p => p.2.data.foldl op e)) := by
    have := (isort_perm (fun a b : Charge × Blk R => Charge.lt a.1 b.1) v.blocks).map
      (fun p => p.2.data.foldl op e)
    simpa [sortedV, Array.foldl_toList] using this
  have : RightCommutative op := ⟨fun a b c => by rw [hassoc, hcomm b c, ← hassoc]⟩
  exact (hperm.foldl_eq e).symm

/-! ### binary operations on vectors with the same key set -/

theorem insertSorted_sorted' {β : Type} (a : Charge × β) (l : List (Charge × β))
    (h : l.Pairwise (fun x y => Charge.lt y.1 x.1 = false)) :
    (insertSorted (fun a b => Charge.lt a.1 b.1) a l).Pairwise
      (fun x y => Charge.lt y.1 x.1 = false) := by
  induction l with
  | nil => simp [insertSorted]
  | cons b l ih =>
    rw [List.pairwise_cons] at h
    simp only [insertSorted]
    split
    · rename_i hba
      rw [List.pairwise_cons]
      refine ⟨fun x hx => ?_, ih h.2⟩
      rcases List.mem_cons.mp ((insertSorted_perm _ a l).mem_iff.mp hx) with e | hx'
      · subst e; exact Charge.lt_asymm hba
      · exact h.1 x hx'
    · rename_i hba
      have hba' : Charge.lt b.1 a.1 = false := by simpa using hba
      rw [List.pairwise_cons]
      refine ⟨fun x hx => ?_, List.pairwise_cons.mpr h⟩
      rcases List.mem_cons.mp hx with e | hx'
      · subst e; exact hba'
      · exact Charge.le_trans hba' (h.1 x hx')

theorem isort_sorted' {β : Type} (l : List (Charge × β)) :
    (isort (fun a b => Charge.lt a.1 b.1) l).Pairwise (fun x y => Charge.lt y.1 x.1 = false) := by
  induction l with
  | nil => simp [isort]
  | cons a l ih => exact insertSorted_sorted' a _ ih

/-- with distinct keys the sorted key list is strictly increasing -/
theorem sortedV_keys_strict (v : BVec R) (hnd : (v.blocks.map (·.1)).Nodup) :
    ((sortedV v).map (·.1)).Pairwise (fun a b => Charge.lt a b = true) := by
  have h1 := isort_sorted' v.blocks
  have h2 : ((sortedV v).map (·.1)).Nodup :=
    ((isort_perm (fun a b : Charge × Blk R => Charge.lt a.1 b.1) v.blocks).map _).nodup_iff.mpr hnd
  rw [List.pairwise_map]
  rw [List.Nodup, List.pairwise_map] at h2
  refine (h1.and h2).imp ?_
  rintro a b ⟨hle, hne⟩
  by_contra hlt
  exact hne (Charge.eq_of_not_lt (by simpa using hlt) hle)

/-- the block the result of a binary operation stores for the entry `p` of the left operand -/
def binBlock [Zero R] (f : R → R → R) (y : BVec R) (p : Charge × Blk R) : Charge × Blk R :=
  (p.1, match alookup y.blocks p.1 with
        | some b => Blk.zipWith f p.2 b
        | none => p.2)

/-- on operands with the same key set every mode (`strict`, `outer`, `inner`) succeeds and
    combines the blocks key by key, in the left operand's order -/
theorem binopV_same_keys [Zero R] (f : R → R → R) (mode : Missing) (x y : BVec R)
    (hk : ∀ k, k ∈ x.blocks.map (·.1) ↔ k ∈ y.blocks.map (·.1)) :
    binopV f mode x y = .ok ⟨x.blocks.map (binBlock f y)⟩ := by
  have hx : ∀ p ∈ x.blocks, ¬ alookup y.blocks p.1 = none := by
    intro p hp
    rw [alookup_eq_none_iff]
    exact fun h => h ((hk p.1).mp (List.mem_map.mpr ⟨p, hp, rfl⟩))
  have hy : ∀ p ∈ y.blocks, ¬ alookup x.blocks p.1 = none := by
    intro p hp
    rw [alookup_eq_none_iff]
    exact fun h => h ((hk p.1).mpr (List.mem_map.mpr ⟨p, hp, rfl⟩))
  have hmap : x.blocks.map (fun (kb : Charge × Blk R) =>
      match kb with
      | (k, bx) => match alookup y.blocks k with
        | some b => (k, Blk.zipWith f bx b)
        | none => (k, bx)) = x.blocks.map (binBlock f y) := by
    apply List.map_congr_left
    rintro ⟨k, bx⟩ _
    simp only [binBlock]
    cases alookup y.blocks k <;> rfl
  unfold binopV
  cases mode with
  | strict =>
    simp only [binaryBlockwise]
    rw [if_neg (by
      rw [Bool.not_eq_true, List.any_eq_false]
      rintro ⟨k, b⟩ hp
      simpa using hx (k, b) hp), if_neg (by
      rw [Bool.not_eq_true, List.any_eq_false]
      rintro ⟨k, b⟩ hp
      simpa using hy (k, b) hp)]
    simp only [pure, Except.pure]
    exact congrArg (fun l => Except.ok (BVec.mk l)) hmap
  | outer =>
    simp only [binaryBlockwise, pure, Except.pure]
    have hfil : y.blocks.filter (fun (kb : Charge × Blk R) =>
        match kb with | (k, _) => (alookup x.blocks k).isNone) = [] := by
      rw [List.filter_eq_nil_iff]
      rintro ⟨k, b⟩ hp
      simpa using hy (k, b) hp
    rw [hfil, List.append_nil]
    exact congrArg (fun l => Except.ok (BVec.mk l)) hmap
  | inner =>
    simp only [binaryBlockwise, pure, Except.pure]
    have hfm : x.blocks.filterMap (fun (kb : Charge × Blk R) =>
        match kb with
        | (k, bx) => match alookup y.blocks k with
          | some b => some (k, Blk.zipWith f bx b)
          | none => none) = x.blocks.map (binBlock f y) := by
      rw [← List.filterMap_eq_map]
      apply List.filterMap_congr
      rintro ⟨k, bx⟩ hp
      have := hx (k, bx) hp
      simp only [binBlock, Function.comp]
      cases h : alookup y.blocks k with
      | none => exact absurd h this
      | some b => rfl
    exact congrArg (fun l => Except.ok (BVec.mk l)) hfm

theorem data_zipWith1 [Zero R] (f : R → R → R) (a b : Blk R) (ha : a.wf = true) (hb : b.wf = true)
    {n : Nat} (hsa : a.shape = [n]) (hsb : b.shape = [n]) :
    (Blk.zipWith f a b).data.toList = List.zipWith f a.data.toList b.data.toList := by
  rw [← range_map_get1 a ha hsa, ← range_map_get1 b hb hsb]
  simp only [Blk.zipWith, Blk.ofFn, hsa, allIdx_one, List.map_map, List.zipWith_map_left,
    List.zipWith_map_right, List.zipWith_self]
  rfl

theorem zipWith_flatMap_forall₂ {α β : Type} (f : R → R → R) (g1 : α → List R) (g2 : β → List R)
    (h : α → List R) {l1 : List α} {l2 : List β} (rel : α → β → Prop)
    (hrel : List.Forall₂ rel l1 l2)
    (hchunk : ∀ a b, rel a b → a ∈ l1 → b ∈ l2 →
      (g1 a).length = (g2 b).length ∧ List.zipWith f (g1 a) (g2 b) = h a) :
    List.zipWith f (l1.flatMap g1) (l2.flatMap g2) = l1.flatMap h := by
  induction hrel with
  | nil => rfl
  | @cons a b l1' l2' hab _ ih =>
    obtain ⟨hlen, hz⟩ := hchunk a b hab (by simp) (by simp)
    simp only [List.flatMap_cons]
    rw [List.zipWith_append hlen, hz,
      ih (fun a' b' hr hm hm' => hchunk a' b' hr (by simp [hm]) (by simp [hm']))]

/-- **binary operations commute with densification** for vectors with the same (distinct) keys
    and equal block shapes per key: the dense form of the result is the elementwise combination
    of the dense forms -/
theorem binopV_toDense_main [Zero R] (f : R → R → R) (mode : Missing) (x y : BVec R)
    (hokx : VecOk x) (hoky : VecOk y) (hne : x.blocks ≠ [])
    (hndx : (x.blocks.map (·.1)).Nodup) (hndy : (y.blocks.map (·.1)).Nodup)
    (hk : ∀ k, k ∈ x.blocks.map (·.1) ↔ k ∈ y.blocks.map (·.1))
    (hshape : ∀ k bx b, alookup x.blocks k = some bx → alookup y.blocks k = some b → bx.shape = b.shape) :
    ∃ z, binopV f mode x y = .ok z
      ∧ (toDenseV z).shape = (toDenseV x).shape
      ∧ (toDenseV z).data.toList
          = List.zipWith f (toDenseV x).data.toList (toDenseV y).data.toList := by
  refine ⟨_, binopV_same_keys f mode x y hk, ?_⟩
  have hney : y.blocks ≠ [] := by
    intro h
    cases hx : x.blocks with
    | nil => exact hne hx
    | cons p l =>
      have := (hk p.1).mp (by rw [hx]; simp)
      rw [h] at this; simp at this
  -- the result vector
  have hzok : VecOk (⟨x.blocks.map (binBlock f y)⟩ : BVec R) := by
    intro p hp
    simp only [List.mem_map] at hp
    obtain ⟨q, hq, rfl⟩ := hp
    obtain ⟨hw, n, hn⟩ := hokx q hq
    simp only [binBlock]
    cases alookup y.blocks q.1 with
    | none => exact ⟨hw, n, hn⟩
    | some b => exact ⟨Blk.wf_ofFn _ _, n, hn⟩
  have hzne : (⟨x.blocks.map (binBlock f y)⟩ : BVec R).blocks ≠ [] := by simpa using hne
  have hsz : sortedV (⟨x.blocks.map (binBlock f y)⟩ : BVec R) = (sortedV x).map (binBlock f y) :=
    isort_map_key (binBlock f y) (fun _ => rfl) x.blocks
  obtain ⟨sx, dx⟩ := toDenseV_data x hokx hne
  obtain ⟨_, dy⟩ := toDenseV_data y hoky hney
  obtain ⟨sz, dz⟩ := toDenseV_data _ hzok hzne
  have hpx : (sortedV x).Perm x.blocks := isort_perm _ _
  have hpy : (sortedV y).Perm y.blocks := isort_perm _ _
  have hshp : ∀ p ∈ sortedV x, (binBlock f y p).2.shape = p.2.shape := by
    intro p _
    simp only [binBlock]
    cases alookup y.blocks p.1 <;> rfl
  constructor
  · rw [sz, sx, hsz, List.map_map]
    congr 1
    apply congrArg
    apply List.map_congr_left
    intro p hp
    simp only [Function.comp, hshp p hp]
  · -- the sorted key lists agree
    have hkeys : (sortedV x).map (·.1) = (sortedV y).map (·.1) := by
      refine sorted_ext (r := fun a b : Charge => Charge.lt a b = true)
        (fun a b h h' => by rw [Charge.lt_asymm h] at h'; cases h')
        (sortedV_keys_strict x hndx) (sortedV_keys_strict y hndy) (fun k => ?_)
      rw [(hpx.map _).mem_iff, (hpy.map _).mem_iff]
      exact hk k
    have hrel : List.Forall₂ (fun (p q : Charge × Blk R) => p.1 = q.1) (sortedV x) (sortedV y) := by
      have : List.Forall₂ Eq ((sortedV x).map (·.1)) ((sortedV y).map (·.1)) := by
        rw [hkeys]; exact List.forall₂_refl _
      rwa [List.forall₂_map_left_iff, List.forall₂_map_right_iff] at this
    rw [dz, dx, dy, hsz, List.flatMap_map]
    symm
    apply zipWith_flatMap_forall₂ f _ _ _ _ hrel
    intro p q hpq hp hq
    have hpm : p ∈ x.blocks := hpx.mem_iff.mp hp
    have hqm : q ∈ y.blocks := hpy.mem_iff.mp hq
    have hlx : alookup x.blocks p.1 = some p.2 := alookup_of_mem_nodup hndx hpm
    have hly : alookup y.blocks p.1 = some q.2 := by
      rw [hpq]; exact alookup_of_mem_nodup hndy hqm
    obtain ⟨hwp, n, hnp⟩ := hokx p hpm
    obtain ⟨hwq, _, _⟩ := hoky q hqm
    have hnq : q.2.shape = [n] := by rw [← hshape p.1 p.2 q.2 hlx hly, hnp]
    have hlen : p.2.data.toList.length = q.2.data.toList.length := by
      have h1 : p.2.data.size = prod p.2.shape := by simpa [Blk.wf] using hwp
      have h2 : q.2.data.size = prod q.2.shape := by simpa [Blk.wf] using hwq
      simp only [Array.length_toList, h1, h2, hnp, hnq]
    refine ⟨hlen, ?_⟩
    simp only [binBlock, hly]
    exact (data_zipWith1 f p.2 q.2 hwp hwq hnp hnq).symm

end bvec

end DenseP
end SymmModel
