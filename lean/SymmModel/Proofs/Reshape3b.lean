/-
  SymmModel.Proofs.Reshape3b — the unbounded planner theorem of C07, part b: the invariant of the
  first (matching) loop of `calc_reshape_args`.
-/
import SymmModel.Proofs.Reshape3a
namespace SymmModel.Reshape3
open SymmModel SymmModel.Reshape SymmModel.C07

/-- the dict `fuse_sizes` describes the `g` segments: key `k` ↦ number of axes of the run, every
    run non-empty, every key used once -/
structure GOk (fs : List Nat) (S : List Seg) : Prop where
  len : ∀ k es, Seg.g k es ∈ S → fs[k]? = some es.length ∧ 1 ≤ es.length
  nodup : (gKeys S).Nodup

theorem mem_gKeys {S : List Seg} {k : Nat} : k ∈ gKeys S ↔ ∃ es, Seg.g k es ∈ S := by
  simp only [gKeys, List.mem_filterMap]
  constructor
  · rintro ⟨a, ha, hk⟩
    cases a <;> simp [Seg.gKey] at hk
    subst hk; exact ⟨_, ha⟩
  · rintro ⟨es, h⟩; exact ⟨_, h, rfl⟩

theorem GOk.key_lt {fs : List Nat} {S : List Seg} (h : GOk fs S) {k : Nat} (hk : k ∈ gKeys S) :
    k < fs.length := by
  obtain ⟨es, hes⟩ := mem_gKeys.mp hk
  have := (h.len k es hes).1
  exact (List.getElem?_eq_some_iff.mp this).1

/-- the loop invariant of the first loop -/
structure MInv (shape newshape : List Nat) (subsizes : List (Option (List Nat))) (st : RState)
    (S : List Seg) : Prop where
  term : st.term = flatL S
  ax : flatE S = (shape.zip subsizes).take st.i
  ile : st.i ≤ shape.length
  out : flatA S = newshape.take st.j
  jle : st.j ≤ newshape.length
  k : st.k = (flatK S).length
  exp : st.axsExpand = expPosFrom 0 S
  us : st.unfuseSizes = uLens S
  uk : uKeys S = List.range' 0 (uLens S).length
  gok : GOk st.fuseSizes S
  sone : ∀ e, Seg.s e ∈ S → e.1 = 1
  anyS : st.anySingleton = false → ∀ e, Seg.s e ∉ S
  anyF : st.anyFused = false → ∀ k es, Seg.g k es ∉ S

theorem minv_init (shape newshape : List Nat) (subsizes : List (Option (List Nat))) :
    MInv shape newshape subsizes {} [] where
  term := rfl
  ax := by simp
  ile := Nat.zero_le _
  out := by simp
  jle := Nat.zero_le _
  k := rfl
  exp := rfl
  us := rfl
  uk := rfl
  gok := ⟨fun _ _ h => by simp at h, by simp [gKeys]⟩
  sone := fun _ h => by simp at h
  anyS := fun _ _ h => by simp at h
  anyF := fun _ _ _ h => by simp at h

theorem take_add' {α : Type} (l : List α) (i n : Nat) :
    l.take (i + n) = l.take i ++ (l.drop i).take n := by
  induction l generalizing i with
  | nil => simp
  | cons a l ih =>
    cases i with
    | zero => simp
    | succ i =>
      have : i + 1 + n = (i + n) + 1 := by omega
      rw [this]; simp [ih]

theorem drop_take_one {α : Type} {l : List α} {i : Nat} {v : α} (h : l[i]? = some v) :
    (l.drop i).take 1 = [v] := by
  obtain ⟨hi, hv⟩ := List.getElem?_eq_some_iff.mp h
  rw [List.drop_eq_getElem_cons hi, hv]; simp

/-- appending one segment keeps the invariant -/
theorem MInv.push {shape newshape : List Nat} {subsizes : List (Option (List Nat))}
    {st st' : RState} {S : List Seg} (h : MInv shape newshape subsizes st S) (a : Seg) (n m : Nat)
    (hterm : st'.term = st.term ++ a.lbl)
    (hi : st'.i = st.i + n) (hax : a.ax = ((shape.zip subsizes).drop st.i).take n)
    (hile : st'.i ≤ shape.length)
    (hj : st'.j = st.j + m) (hout : a.outA = (newshape.drop st.j).take m)
    (hjle : st'.j ≤ newshape.length)
    (hk : st'.k = st.k + a.outK.length)
    (hexp : st'.axsExpand = st.axsExpand ++ (if a.isX then [st.k] else []))
    (hus : st'.unfuseSizes = st.unfuseSizes ++ a.uLen.toList)
    (huk : a.uKey = a.uLen.map (fun _ => st.unfuseSizes.length))
    (hgok : GOk st'.fuseSizes (S ++ [a]))
    (hsone : ∀ e, a = Seg.s e → e.1 = 1)
    (hanyS : st'.anySingleton = false → st.anySingleton = false ∧ ∀ e, a ≠ Seg.s e)
    (hanyF : st'.anyFused = false → st.anyFused = false ∧ ∀ k es, a ≠ Seg.g k es) :
    MInv shape newshape subsizes st' (S ++ [a]) where
  term := by rw [hterm, h.term]; simp
  ax := by rw [hi, take_add', ← h.ax, ← hax]; simp
  ile := hile
  out := by rw [hj, take_add', ← h.out, ← hout]; simp
  jle := hjle
  k := by rw [hk, h.k]; simp
  exp := by
    rw [hexp, h.exp, expPosFrom_append, ← h.k]
    congr 1
    cases a <;> simp [Seg.isX, expPosFrom]
  us := by rw [hus, h.us, uLens_append, uLens_cons]; simp [uLens]
  uk := by
    rw [uKeys_append, uLens_append, h.uk, uKeys_cons, uLens_cons, huk, h.us]
    cases a.uLen with
    | none => simp [uKeys, uLens]
    | some v =>
      simp only [Option.map_some, Option.toList, uKeys, uLens, List.filterMap_nil, List.append_nil,
        List.length_append, List.length_cons, List.length_nil]
      rw [List.range'_concat]
      simp
  gok := hgok
  sone := by
    intro e he
    rcases List.mem_append.mp he with he | he
    · exact h.sone e he
    · exact hsone e (List.mem_singleton.mp he).symm
  anyS := by
    intro hs e he
    obtain ⟨h1, h2⟩ := hanyS hs
    rcases List.mem_append.mp he with he | he
    · exact h.anyS h1 e he
    · exact h2 e (List.mem_singleton.mp he).symm
  anyF := by
    intro hs k es he
    obtain ⟨h1, h2⟩ := hanyF hs
    rcases List.mem_append.mp he with he | he
    · exact h.anyF h1 k es he
    · exact h2 k es (List.mem_singleton.mp he).symm

/-- appending a segment that is not a `g` keeps `GOk` -/
theorem GOk.push_other {fs : List Nat} {S : List Seg} (h : GOk fs S) (a : Seg)
    (ha : ∀ k es, a ≠ Seg.g k es) : GOk fs (S ++ [a]) where
  len := by
    intro k es he
    rcases List.mem_append.mp he with he | he
    · exact h.len k es he
    · exact absurd (List.mem_singleton.mp he).symm (ha k es)
  nodup := by
    rw [gKeys_append, gKeys_cons]
    have : a.gKey = none := by
      cases a <;> simp [Seg.gKey]
      exact ha _ _ rfl
    rw [this]; simpa [gKeys] using h.nodup

/-- appending a new group with the next free key -/
theorem GOk.push_new {fs : List Nat} {S : List Seg} (h : GOk fs S) (es : List E) (hes : 1 ≤ es.length) :
    GOk (fs ++ [es.length]) (S ++ [Seg.g fs.length es]) where
  len := by
    intro k es' he
    rcases List.mem_append.mp he with he | he
    · obtain ⟨h1, h2⟩ := h.len k es' he
      have hk := (List.getElem?_eq_some_iff.mp h1).1
      exact ⟨by rw [List.getElem?_append_left hk]; exact h1, h2⟩
    · have := List.mem_singleton.mp he
      injection this with hk he'
      subst hk; subst he'
      exact ⟨by simp, hes⟩
  nodup := by
    rw [gKeys_append, gKeys_cons]
    simp only [Seg.gKey, Option.toList, gKeys, List.filterMap_nil, List.append_nil]
    rw [List.nodup_append]
    refine ⟨h.nodup, by simp, ?_⟩
    intro a ha b hb
    have := h.key_lt ha
    simp at hb; omega

/-! ### the inner loops -/

theorem unfuseMatch_some {ns : List Nat} {j : Nat} {sub : Option (List Nat)} {subs : List Nat}
    (h : unfuseMatch ns j sub = some subs) :
    sub = some subs ∧ subs = (ns.drop j).take subs.length := by
  cases sub with
  | none => simp [unfuseMatch] at h
  | some l =>
    simp only [unfuseMatch] at h
    split at h
    · rename_i hb
      injection h with h; subst h
      exact ⟨rfl, beqNats_iff.mp hb⟩
    · cases h

theorem unfuseCheck_ok (ns : List Nat) : ∀ (l : List Nat) (s j k : Nat) (r : Nat × Nat × Nat),
    unfuseCheck ns l s j k = .ok r → r = (s + l.length, j + l.length, k + l.length) := by
  intro l
  induction l with
  | nil => intro s j k r h; simp [unfuseCheck, pure, Except.pure] at h; simp [h]
  | cons d l ih =>
    intro s j k r h
    simp only [unfuseCheck] at h
    split at h
    · cases h
    · split at h
      · cases h
      · rw [ih _ _ _ _ h]; simp; omega

theorem fuseScan_ok (shape : List Nat) (dj : Nat) (lbl : Lbl) :
    ∀ (fuel di i s : Nat) (term : List Lbl) (r : Nat × Nat × Nat × List Lbl), i ≤ shape.length →
    fuseScan shape dj lbl fuel di i s term = .ok r →
    ∃ n, r = (di * prod ((shape.drop i).take n), i + n, s + n, term ++ List.replicate n lbl)
      ∧ i + n ≤ shape.length := by
  intro fuel
  induction fuel with
  | zero => intro di i s term r _ h; simp [fuseScan, throw, throwThe, MonadExceptOf.throw] at h
  | succ fuel ih =>
    intro di i s term r hile h
    simp only [fuseScan] at h
    split at h
    · split at h
      · cases h
      · rename_i d hd
        obtain ⟨hi, hv⟩ := List.getElem?_eq_some_iff.mp hd
        obtain ⟨n, hr, hle⟩ := ih _ _ _ _ _ (by omega) h
        refine ⟨n + 1, ?_, by omega⟩
        rw [hr, List.drop_eq_getElem_cons hi, hv]
        simp only [List.take_succ_cons, prod, List.replicate_succ, Prod.mk.injEq]
        refine ⟨by rw [Nat.mul_assoc], by omega, by omega, by simp⟩
    · simp only [pure, Except.pure] at h
      injection h with h
      exact ⟨0, by simp [← h, prod], hile⟩

theorem zip_getElem? {shape : List Nat} {subsizes : List (Option (List Nat))} {i di : Nat}
    {sub : Option (List Nat)} (h1 : shape[i]? = some di) (h2 : subsizes[i]? = some sub) :
    (shape.zip subsizes)[i]? = some (di, sub) := by
  simp [List.getElem?_zip_eq_some, h1, h2]

theorem sizes_take_drop_zip {shape : List Nat} {subsizes : List (Option (List Nat))}
    (hlen : shape.length = subsizes.length) (i n : Nat) :
    SymShape.sizes (((shape.zip subsizes).drop i).take n) = (shape.drop i).take n := by
  simp only [SymShape.sizes, List.map_take, List.map_drop]
  rw [List.map_fst_zip (by omega)]

/-- **the first loop keeps the invariant** and stops with one of the two shapes used up -/
theorem mainLoop_inv {shape newshape : List Nat} {subsizes : List (Option (List Nat))}
    (hlen : shape.length = subsizes.length) :
    ∀ (fuel : Nat) (st st' : RState) (S : List Seg), MInv shape newshape subsizes st S →
      mainLoop shape newshape subsizes fuel st = .ok st' →
      ∃ S', MInv shape newshape subsizes st' S'
        ∧ (shape.length ≤ st'.i ∨ newshape.length ≤ st'.j) := by
  intro fuel
  induction fuel with
  | zero =>
    intro st st' S hinv h
    simp only [mainLoop] at h
    split at h
    · cases h
    · rename_i hc
      simp only [pure, Except.pure] at h
      injection h with h; subst h
      refine ⟨S, hinv, ?_⟩
      simp only [Bool.and_eq_true, decide_eq_true_eq] at hc
      omega
  | succ fuel ih =>
    intro st st' S hinv h
    simp only [mainLoop] at h
    split at h
    · rename_i di dj hdi hdj
      have hi := (List.getElem?_eq_some_iff.mp hdi).1
      have hj := (List.getElem?_eq_some_iff.mp hdj).1
      split at h
      · cases h
      · rename_i sub hsub
        have hz := zip_getElem? hdi hsub
        split at h
        · -- unfuse
          rename_i subs hm
          obtain ⟨rfl, hsubs⟩ := unfuseMatch_some hm
          split at h
          · cases h
          · rename_i s j k hc
            have hr := unfuseCheck_ok _ _ _ _ _ _ hc
            simp only [Prod.mk.injEq, Nat.zero_add] at hr
            obtain ⟨rfl, rfl, rfl⟩ := hr
            have hjl : st.j + subs.length ≤ newshape.length := by
              have := congrArg List.length hsubs
              simp only [List.length_take, List.length_drop] at this
              omega
            refine ih _ st' (S ++ [Seg.u st.unfuseSizes.length di subs]) ?_ h
            refine hinv.push _ 1 subs.length rfl rfl ?_ (by simp; omega) rfl ?_ hjl ?_ ?_ ?_ ?_ ?_ ?_ ?_ ?_
            · rw [drop_take_one hz]; rfl
            · exact hsubs
            · rfl
            · simp [Seg.isX]
            · rfl
            · rfl
            · exact hinv.gok.push_other _ (fun _ _ h => by cases h)
            · intro e h; cases h
            · intro h; exact ⟨h, fun e h => by cases h⟩
            · intro h; exact ⟨h, fun k es h => by cases h⟩
        · split at h
          · -- "o"
            rename_i hb
            have hdd : di = dj := by simpa using hb
            refine ih _ st' (S ++ [Seg.o (di, sub)]) ?_ h
            refine hinv.push _ 1 1 rfl rfl ?_ (by simp; omega) rfl ?_ (by simp; omega) ?_ ?_ ?_ ?_ ?_ ?_ ?_ ?_
            · rw [drop_take_one hz]; rfl
            · rw [drop_take_one hdj, hdd]; rfl
            · rfl
            · simp [Seg.isX]
            · simp [Seg.uLen]
            · rfl
            · exact hinv.gok.push_other _ (fun _ _ h => by cases h)
            · intro e h; cases h
            · intro h; exact ⟨h, fun e h => by cases h⟩
            · intro h; exact ⟨h, fun k es h => by cases h⟩
          · split at h
            · -- "s"
              rename_i hb
              have hd1 : di = 1 := by simpa using hb
              refine ih _ st' (S ++ [Seg.s (di, sub)]) ?_ h
              refine hinv.push _ 1 0 rfl rfl ?_ (by simp; omega) rfl ?_ (by simp; omega) ?_ ?_ ?_ ?_ ?_ ?_ ?_ ?_
              · rw [drop_take_one hz]; rfl
              · rfl
              · rfl
              · simp [Seg.isX]
              · simp [Seg.uLen]
              · rfl
              · exact hinv.gok.push_other _ (fun _ _ h => by cases h)
              · intro e h; cases h; exact hd1
              · intro h; simp at h
              · intro h; exact ⟨h, fun k es h => by cases h⟩
            · split at h
              · -- expansion
                rename_i hb
                have hd1 : dj = 1 := by simpa using hb
                refine ih _ st' (S ++ [Seg.x]) ?_ h
                refine hinv.push _ 0 1 (by simp [Seg.lbl]) rfl ?_ (by simp; omega) rfl ?_ (by simp; omega) ?_ ?_ ?_ ?_ ?_ ?_ ?_ ?_
                · rfl
                · rw [drop_take_one hdj, hd1]; rfl
                · rfl
                · simp [Seg.isX]
                · simp [Seg.uLen]
                · rfl
                · exact hinv.gok.push_other _ (fun _ _ h => by cases h)
                · intro e h; cases h
                · intro h; exact ⟨h, fun e h => by cases h⟩
                · intro h; exact ⟨h, fun k es h => by cases h⟩
              · split at h
                · -- fuse
                  split at h
                  · cases h
                  · rename_i di' i' s term' hscan
                    obtain ⟨n, hr, hle⟩ := fuseScan_ok _ _ _ _ _ _ _ _ _ (by omega) hscan
                    simp only [Prod.mk.injEq] at hr
                    obtain ⟨rfl, rfl, rfl, rfl⟩ := hr
                    split at h
                    · cases h
                    · rename_i hb
                      have hdd : di * prod ((shape.drop (st.i + 1)).take n) = dj := by simpa using hb
                      have hes : (((shape.zip subsizes).drop st.i).take (n + 1)).length = n + 1 := by
                        simp only [List.length_take, List.length_drop, List.length_zip]
                        omega
                      have hgok := hinv.gok.push_new (((shape.zip subsizes).drop st.i).take (n + 1))
                        (by omega)
                      rw [hes] at hgok
                      refine ih _ st' (S ++ [Seg.g st.fuseSizes.length
                        (((shape.zip subsizes).drop st.i).take (n + 1))]) ?_ h
                      refine hinv.push _ (n + 1) 1 ?_ (by simp; omega) rfl (by simp; omega) rfl ?_
                        (by simp; omega) ?_ ?_ ?_ ?_ ?_ ?_ ?_ ?_
                      · simp only [Seg.lbl, hes, List.replicate_succ]
                        simp
                      · rw [drop_take_one hdj]
                        simp only [Seg.outA, Seg.outK]
                        rw [sizes_take_drop_zip hlen, List.drop_eq_getElem_cons hi,
                          (List.getElem?_eq_some_iff.mp hdi).2, List.take_succ_cons]
                        simp only [prod]
                        rw [hdd]
                      · simp [Seg.outK]
                      · simp [Seg.isX]
                      · simp [Seg.uLen]
                      · rfl
                      · simpa [Nat.add_comm] using hgok
                      · intro e h; cases h
                      · intro h; exact ⟨h, fun e h => by cases h⟩
                      · intro h; simp at h
                · cases h
    · rename_i hnone
      simp only [pure, Except.pure] at h
      injection h with h; subst h
      refine ⟨S, hinv, ?_⟩
      by_cases h1 : st.i < shape.length
      · by_cases h2 : st.j < newshape.length
        · exact (hnone _ _ (List.getElem?_eq_getElem h1) (List.getElem?_eq_getElem h2)).elim
        · right; omega
      · left; omega

end SymmModel.Reshape3
