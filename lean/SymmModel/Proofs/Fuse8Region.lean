/-
  SymmModel.Proofs.Fuse8Region — an address of the fused block chooses the sub-sectors of a stored
  sector exactly when it lies in the region the insert strategy writes that sector to; the in-piece
  address is then the address relative to the region.
-/
import SymmModel.Proofs.Fuse8Link
namespace SymmModel
namespace FuseP
set_option linter.unusedSectionVars false

variable {R : Type} [Zero R]

section
variable {a : Arr R} {groups : List (List Nat)}

theorem getD_map_fst (qs : List (Sector × Nat)) (g : Nat) :
    (qs.map (·.1)).getD g [] = (qs.getD g ([], 0)).1 := by
  simp only [List.getD_eq_getElem?_getD, List.getElem?_map]
  cases qs[g]? <;> rfl

theorem subsectors_length (sb : Sector × Blk R) : (planM a groups sb).subsectors.length = groups.length := by
  simp [planM, planOf]

/-- the link, one stored sector, one address -/
theorem region_link (hv : ValidArr a) (hok : GroupsOk groups a.ndim) {sb : Sector × Blk R} (hsb : sb ∈ a.blocks)
    {i : List Nat} (hi : inBox (BshM a groups sb) i = true) :
    (decQ (lvFrom a groups (planM a groups sb).newSector 0 groups.length) i).length = groups.length
    ∧ ((inRegion (startsM a groups sb) (planM a groups sb).newShape i = true
        ↔ (planM a groups sb).subsectors
            = (decQ (lvFrom a groups (planM a groups sb).newSector 0 groups.length) i).map (·.1)))
    ∧ (inRegion (startsM a groups sb) (planM a groups sb).newShape i = true →
        List.zipWith (· - ·) i (startsM a groups sb)
          = decOff (lvFrom a groups (planM a groups sb).newSector 0 groups.length) i) := by
  have hib := inBox_iff.1 hi
  rw [BshM_length] at hib
  have hN : ndimM a groups = (giM a groups).position + groups.length + (giM a groups).axesAfter.length := rfl
  -- every multi-axis coordinate is below the sum of its extent
  have hlt : ∀ t, t < groups.length → multiB groups (0 + t) = true →
      i.getD ((giM a groups).position + (0 + t)) 0
        < sumN ((extM a groups (planM a groups sb).newSector (0 + t)).map (·.2)) := by
    intro t ht hm
    rw [Nat.zero_add] at hm ⊢
    obtain ⟨gaxes, hgx, hlen⟩ := multiB_iff.1 hm
    rw [(ext_facts hv hok hgx hlen hsb).2.2.1]
    have := hib.2 ((giM a groups).position + t) (by omega)
    rw [BshM_getD sb (by omega), axMulti_mid ht, hm] at this
    simpa using this
  obtain ⟨m1, m2, m3, m4⟩ := dec_lvFrom (a := a) (groups := groups) (planM a groups sb).newSector groups.length 0 i
    (by rw [hib.1]; omega) hlt
  -- per multi-axis group
  have hgroup : ∀ g, g < groups.length → multiB groups g = true →
      ((stM a groups sb g ≤ i.getD ((giM a groups).position + g) 0
          ∧ i.getD ((giM a groups).position + g) 0 < stM a groups sb g + dM (a := a) (groups := groups) sb g)
        ↔ ssM (a := a) (groups := groups) sb g
            = ((decQ (lvFrom a groups (planM a groups sb).newSector 0 groups.length) i).getD g ([], 0)).1)
      ∧ (ssM (a := a) (groups := groups) sb g
            = ((decQ (lvFrom a groups (planM a groups sb).newSector 0 groups.length) i).getD g ([], 0)).1 →
          (decOff (lvFrom a groups (planM a groups sb).newSector 0 groups.length) i).getD
              ((giM a groups).position + g) 0
            = i.getD ((giM a groups).position + g) 0 - stM a groups sb g) := by
    intro g hg hm
    obtain ⟨gaxes, hgx, hlen⟩ := multiB_iff.1 hm
    obtain ⟨hnd, hst, _, _⟩ := ext_facts hv hok hgx hlen hsb
    obtain ⟨k, o, q, hloc, hq, hdq, hdo⟩ := (m3 g hg).1 (by rw [Nat.zero_add]; exact hm)
    rw [Nat.zero_add] at hloc hq hdo
    obtain ⟨ss, d, hk, hsplit⟩ := locatePiece_splitOffset hloc
    rw [hq] at hk
    simp only [Option.some.injEq] at hk
    obtain ⟨st, d', hst', hod, hp⟩ := splitOffset_startOf hnd hsplit
    rw [hdq, hdo, hk]
    refine ⟨⟨fun hr => ?_, fun hs => ?_⟩, fun hs => ?_⟩
    · have h2 := startOf_splitOffset hst (r := i.getD ((giM a groups).position + g) 0 - stM a groups sb g) (by omega)
      rw [show stM a groups sb g + (i.getD ((giM a groups).position + g) 0 - stM a groups sb g)
          = i.getD ((giM a groups).position + g) 0 by omega, hsplit] at h2
      simp only [Option.some.injEq, Prod.mk.injEq] at h2
      exact h2.1.symm
    · simp only at hs
      rw [← hs, hst] at hst'
      simp only [Option.some.injEq, Prod.mk.injEq] at hst'
      omega
    · simp only at hs
      rw [← hs, hst] at hst'
      simp only [Option.some.injEq, Prod.mk.injEq] at hst'
      omega
  -- single-axis groups always agree
  have hsingle : ∀ g, g < groups.length → multiB groups g = false →
      ssM (a := a) (groups := groups) sb g
        = ((decQ (lvFrom a groups (planM a groups sb).newSector 0 groups.length) i).getD g ([], 0)).1 := by
    intro g hg hm
    have := (m3 g hg).2 (by rw [Nat.zero_add]; exact hm)
    rw [Nat.zero_add] at this
    rw [this]
    have hgg : groups[g]? = some groups[g] := List.getElem?_eq_getElem hg
    have hlen : groups[g].length = 1 := by
      by_contra h
      have := multiB_iff.2 ⟨_, hgg, h⟩
      rw [hm] at this; cases this
    rw [ssM_eq hgg]
    have hc := cM_single (a := a) hok hgg hlen sb
    have hc' : (planM a groups sb).newSector.getD ((giM a groups).position + g) (0, 0)
        = sb.1.getD (groups[g].headD 0) (0, 0) := hc
    rw [hc']
    match hgx : groups[g], hlen with
    | [ax], _ => rfl
  have hkey : (planM a groups sb).subsectors
        = (decQ (lvFrom a groups (planM a groups sb).newSector 0 groups.length) i).map (·.1)
      ↔ ∀ g, g < groups.length → multiB groups g = true →
          ssM (a := a) (groups := groups) sb g
            = ((decQ (lvFrom a groups (planM a groups sb).newSector 0 groups.length) i).getD g ([], 0)).1 := by
    constructor
    · intro h g _ _
      simp only [ssM]
      rw [h, getD_map_fst]
    · intro h
      apply list_ext_getD [] (by rw [subsectors_length, List.length_map, m1])
      intro g hg
      rw [subsectors_length] at hg
      rw [getD_map_fst]
      cases hm : multiB groups g with
      | true => exact h g hg hm
      | false => exact hsingle g hg hm
  refine ⟨m1, ?_, ?_⟩
  · rw [regionM hok sb hi, hkey]
    constructor
    · intro h g hg hm; exact ((hgroup g hg hm).1).1 (h g hg hm)
    · intro h g hg hm; exact ((hgroup g hg hm).1).2 (h g hg hm)
  · intro hreg
    have hr := (regionM hok sb hi).1 hreg
    apply list_ext_getD 0
    · rw [List.length_zipWith, m2, hib.1]; simp [startsM]
    · intro ax hax
      rw [List.length_zipWith, hib.1] at hax
      have haxN : ax < ndimM a groups := by
        have : (startsM a groups sb).length = ndimM a groups := by simp [startsM]
        rw [this] at hax; omega
      rw [getD_zipWith_sub (by rw [hib.1]; simp [startsM]), startsM_getD sb haxN]
      by_cases hma : axMulti a groups ax = true
      · obtain ⟨g, hg, rfl, hm⟩ := axMulti_cases hma
        have hs := ((hgroup g hg hm).1).1 (hr g hg hm)
        rw [(hgroup g hg hm).2 hs]
        rfl
      · have hma' : axMulti a groups ax = false := by simpa using hma
        simp only [startM, hma', Bool.false_eq_true, if_false, Nat.sub_zero]
        symm
        apply m4
        intro t ht hmt hEq
        rw [Nat.zero_add] at hmt hEq
        rw [hEq, axMulti_mid ht, hmt] at hma'
        cases hma'

end

end FuseP
end SymmModel
