/-
  SymmModel.Proofs.NetNorm5 — network form of the norm (property C10), continuation part 5:
  `conj_tensordot` with a flip set SPARING further bond legs `y` of the second tensor — the sign
  bookkeeping.  `ā = braOf a xa`, `b̄ = braOf b (xb ++ y)` (the legs `y` of `b` are bonds to a third
  tensor and are not flipped); the contraction `ā·b̄` along `xa`/`xb` carries, sector by sector, the
  sign of `braOf K (axesAB …)`: `conj()` of `K = a·b` with the dangling bra-like legs flipped, the
  images of `y` spared.  (Generalises `dualOdd_result`, `bra_pair_sign`, `gradedContract_bra` of
  NormNet2–4, which are the case `y = []` up to `conjF_obs_braOf`.)
-/
import SymmModel.Proofs.NetNorm4
namespace SymmModel.NormNet
open SymmModel SymmModel.Lazy SymmModel.Norm SymmModel.TdotP SymmModel.GradedP SymmModel.RoutesP
open SymmModel.AssocP
open SymmModel.KoszulP (sgn tri sgn_add sgn_congr sgn_cases sgn_eq_pow tri_eq)
set_option linter.unusedSectionVars false

section geom

/-- the image of a free leg `fb[i]` of `b` in `a·b` is among the images of `y` iff `fb[i] ∈ y` -/
theorem axesAB_contains {nA nB : Nat} {xa xb y : List Nat} (hM : Mid nB xb y) (i : Nat)
    (hi : i < (freeAxes nB xb).length) :
    (AssocP.axesAB nA nB xa xb y).contains ((freeAxes nA xa).length + i)
      = y.contains ((freeAxes nB xb).getD i 0) := by
  rw [Bool.eq_iff_iff]
  simp only [List.contains_iff_mem]
  constructor
  · intro hmem
    obtain ⟨j, hj, e⟩ := List.mem_iff_getElem.mp hmem
    have hj' : j < y.length := by rw [← AssocP.axesAB_len (nA := nA) (xa := xa) hM]; exact hj
    obtain ⟨e1, e2, e3⟩ := AssocP.axesAB_getD (nA := nA) (xa := xa) hM j hj'
    have hg : (AssocP.axesAB nA nB xa xb y)[j] = (AssocP.axesAB nA nB xa xb y).getD j 0 := by
      rw [List.getD_eq_getElem?_getD, List.getElem?_eq_getElem hj]; rfl
    rw [hg, e1] at e
    have : (positions (freeAxes nB xb) y).getD j 0 = i := by omega
    rw [this] at e3
    rw [e3, List.getD_eq_getElem?_getD, List.getElem?_eq_getElem hj']
    exact List.getElem_mem hj'
  · intro hmem
    obtain ⟨j, hj', e⟩ := List.mem_iff_getElem.mp hmem
    obtain ⟨e1, e2, e3⟩ := AssocP.axesAB_getD (nA := nA) (xa := xa) hM j hj'
    have hyj : y.getD j 0 = y[j] := by
      rw [List.getD_eq_getElem?_getD, List.getElem?_eq_getElem hj']; rfl
    have hfi : (freeAxes nB xb).getD i 0 = (freeAxes nB xb)[i] := by
      rw [List.getD_eq_getElem?_getD, List.getElem?_eq_getElem hi]; rfl
    have hfp : (freeAxes nB xb).getD ((positions (freeAxes nB xb) y).getD j 0) 0
        = (freeAxes nB xb)[(positions (freeAxes nB xb) y).getD j 0]'e2 := by
      rw [List.getD_eq_getElem?_getD, List.getElem?_eq_getElem e2]; rfl
    have hpi : (positions (freeAxes nB xb) y).getD j 0 = i := by
      apply ((freeAxes_nodup nB xb).getElem_inj_iff).mp
      rw [← hfp, e3, hyj, e, hfi]
    have hj : j < (AssocP.axesAB nA nB xa xb y).length := by
      rw [AssocP.axesAB_len hM]; exact hj'
    have hg : (AssocP.axesAB nA nB xa xb y)[j] = (AssocP.axesAB nA nB xa xb y).getD j 0 := by
      rw [List.getD_eq_getElem?_getD, List.getElem?_eq_getElem hj]; rfl
    rw [← hpi, ← e1, ← hg]
    exact List.getElem_mem hj

/-- no image of `y` lies among the legs coming from `a` -/
theorem axesAB_not_left {nA nB : Nat} {xa xb y : List Nat} (i : Nat)
    (hi : i < (freeAxes nA xa).length) :
    (AssocP.axesAB nA nB xa xb y).contains i = false := by
  rw [Bool.eq_false_iff]
  simp only [ne_eq, List.contains_iff_mem, AssocP.axesAB, List.mem_map, not_exists, not_and]
  intro p _ e
  omega

theorem freeAxes_append (n : Nat) (x y : List Nat) :
    freeAxes n (x ++ y) = (freeAxes n x).filter (fun ax => !y.contains ax) := by
  unfold freeAxes
  rw [List.filter_filter]
  apply List.filter_congr
  intro ax _
  simp only [List.contains_append, Bool.not_or, Bool.and_comm]

end geom

section counts
variable {R : Type} [Zero R] [Neg R] [Conj R]

/-- `ketOdd_bra` for a bra tensor with any flip set -/
theorem ketOdd_bra' (a : Arr R) (X xa : List Nat) (sa : Sector) (hA : ∀ i ∈ xa, i < a.ndim)
    (hl : sa.length = a.ndim) :
    ketOdd (braOf a X) xa sa + ketOdd a xa sa = oddContracted a xa sa := by
  unfold ketOdd oddContracted
  rw [(braOf_frame a X).1, (braOf_frame a X).2.2.1]
  have e : xa.filter (fun ax => !((a.indices.map Index.conj).getD ax default).dual)
      = xa.filter (fun ax => !(fun ax => !(a.indices.getD ax default).dual) ax) := by
    apply List.filter_congr
    intro i hi
    rw [getD_map_conj _ _ (hA i hi), Lazy.Index.conj_dual]
  rw [e, Nat.add_comm, count_partition xa (fun ax => !(a.indices.getD ax default).dual)
    (fun ax => a.sym.parity (sa.getD ax (0, 0)))]
  rw [permuted_eq_map sa xa (by intro x hx; rw [hl]; exact hA x hx) (0, 0), List.filter_map,
    List.length_map]
  rfl

/-- the dangling-leg flips of `braOf K (images of y)` on the contraction result are the product of
    the dangling-leg flips of `braOf a xa` and `braOf b (xb ++ y)` -/
theorem dangOdd_result (a b K : Arr R) (xa xb y : List Nat) (S : List Sector)
    (hKs : K.sym = a.sym) (hsym : a.sym = b.sym)
    (hKi : K.indices = dropUnused (without a.indices xa ++ without b.indices xb) S)
    (hM : Mid b.ndim xb y)
    (sa sb : Sector) (hla : sa.length = a.ndim) (hlb : sb.length = b.ndim) :
    dangOdd K (AssocP.axesAB a.ndim b.ndim xa xb y)
        (permuted sa (freeAxes a.ndim xa) ++ permuted sb (freeAxes b.ndim xb))
      = dangOdd a xa sa + dangOdd b (xb ++ y) sb := by
  have hfa : ∀ x ∈ freeAxes a.ndim xa, x < a.indices.length := fun x hx => mem_freeAxes_lt x hx
  have hfb : ∀ x ∈ freeAxes b.ndim xb, x < b.indices.length := fun x hx => mem_freeAxes_lt x hx
  have hfa' : ∀ x ∈ freeAxes a.ndim xa, x < sa.length := fun x hx => hla ▸ mem_freeAxes_lt x hx
  have hfb' : ∀ x ∈ freeAxes b.ndim xb, x < sb.length := fun x hx => hlb ▸ mem_freeAxes_lt x hx
  have wA : without a.indices xa
      = (freeAxes a.ndim xa).map (fun x => a.indices.getD x default) := by
    rw [without_eq_permuted_freeAxes]; exact permuted_eq_map _ _ hfa _
  have wB : without b.indices xb
      = (freeAxes b.ndim xb).map (fun x => b.indices.getD x default) := by
    rw [without_eq_permuted_freeAxes]; exact permuted_eq_map _ _ hfb _
  have sL : permuted sa (freeAxes a.ndim xa)
      = (freeAxes a.ndim xa).map (fun x => sa.getD x (0, 0)) := permuted_eq_map _ _ hfa' _
  have sR : permuted sb (freeAxes b.ndim xb)
      = (freeAxes b.ndim xb).map (fun x => sb.getD x (0, 0)) := permuted_eq_map _ _ hfb' _
  have hnd : K.ndim = (freeAxes a.ndim xa).length + (freeAxes b.ndim xb).length := by
    show K.indices.length = _
    rw [hKi, dropUnused_length, List.length_append, wA, wB, List.length_map, List.length_map]
  have hL : dangOdd K (AssocP.axesAB a.ndim b.ndim xa xb y)
        (permuted sa (freeAxes a.ndim xa) ++ permuted sb (freeAxes b.ndim xb))
      = ((List.range K.ndim).filter (fun ax =>
          K.sym.parity ((permuted sa (freeAxes a.ndim xa) ++ permuted sb (freeAxes b.ndim xb)).getD
            ax (0, 0))
          && (K.indices.getD ax default).dual
          && !(AssocP.axesAB a.ndim b.ndim xa xb y).contains ax)).length := by
    unfold dangOdd dangDual freeAxes
    rw [List.filter_filter, List.filter_filter]
  have hA' : dangOdd a xa sa = ((freeAxes a.ndim xa).filter (fun ax =>
      a.sym.parity (sa.getD ax (0, 0)) && (a.indices.getD ax default).dual)).length := by
    unfold dangOdd dangDual
    rw [List.filter_filter]
  have hB' : dangOdd b (xb ++ y) sb = ((freeAxes b.ndim xb).filter (fun ax =>
      b.sym.parity (sb.getD ax (0, 0))
        && (b.indices.getD ax default).dual && !y.contains ax)).length := by
    unfold dangOdd dangDual
    rw [freeAxes_append, List.filter_filter, List.filter_filter]
  rw [hL, hA', hB', hnd, List.range_add, List.filter_append, List.length_append, List.filter_map,
    List.length_map]
  congr 1
  · -- left block
    apply count_range_getD (freeAxes a.ndim xa)
    intro i hi
    have h1 : i < (permuted sa (freeAxes a.ndim xa)).length := by rw [sL, List.length_map]; exact hi
    rw [hKi, dropUnused_getD_dual, hKs, axesAB_not_left i hi]
    have e1 : (without a.indices xa ++ without b.indices xb).getD i default
        = a.indices.getD ((freeAxes a.ndim xa).getD i 0) default := by
      have : i < (without a.indices xa).length := by rw [wA, List.length_map]; exact hi
      simp only [List.getD_eq_getElem?_getD, List.getElem?_append_left this]
      rw [wA, List.getElem?_map, List.getElem?_eq_getElem hi]
      simp
    have e2 : (permuted sa (freeAxes a.ndim xa) ++ permuted sb (freeAxes b.ndim xb)).getD i (0, 0)
        = sa.getD ((freeAxes a.ndim xa).getD i 0) (0, 0) := by
      simp only [List.getD_eq_getElem?_getD, List.getElem?_append_left h1]
      rw [sL, List.getElem?_map, List.getElem?_eq_getElem hi]
      simp
    rw [e1, e2]
    simp
  · -- right block
    apply count_range_getD (freeAxes b.ndim xb)
    intro i hi
    have hlenL : (permuted sa (freeAxes a.ndim xa)).length = (freeAxes a.ndim xa).length := by
      rw [sL, List.length_map]
    have hlenW : (without a.indices xa).length = (freeAxes a.ndim xa).length := by
      rw [wA, List.length_map]
    simp only [Function.comp]
    rw [hKi, dropUnused_getD_dual, hKs, hsym, axesAB_contains hM i hi]
    have e1 : (without a.indices xa ++ without b.indices xb).getD
          ((freeAxes a.ndim xa).length + i) default
        = b.indices.getD ((freeAxes b.ndim xb).getD i 0) default := by
      simp only [List.getD_eq_getElem?_getD]
      rw [← hlenW, List.getElem?_append_right (Nat.le_add_right _ _), Nat.add_sub_cancel_left,
        wB, List.getElem?_map, List.getElem?_eq_getElem hi]
      simp
    have e2 : (permuted sa (freeAxes a.ndim xa) ++ permuted sb (freeAxes b.ndim xb)).getD
          ((freeAxes a.ndim xa).length + i) (0, 0)
        = sb.getD ((freeAxes b.ndim xb).getD i 0) (0, 0) := by
      simp only [List.getD_eq_getElem?_getD]
      rw [← hlenL, List.getElem?_append_right (Nat.le_add_right _ _), Nat.add_sub_cancel_left,
        sR, List.getElem?_map, List.getElem?_eq_getElem hi]
      simp
    rw [e1, e2]

end counts

end SymmModel.NormNet
