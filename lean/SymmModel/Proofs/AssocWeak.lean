/-
  SymmModel.Proofs.AssocWeak — towards S7 of property C04 (associativity of `tensordotF`).

  The intermediate result of a contraction has PRUNED index tables (`dropUnused`), so the pair
  (A·B, C) is in general not `contractibleB` (equal charge tables).  This file generalises the
  refinement theorem of C03 (`GradedP.tensordotF_graded`, `RoutesP.coreT_frame`,
  `RoutesP.tensordotF_eq_core`) to the weaker decidable guard `contractibleCommonB`: matched legs
  have opposite directions and their charge tables give the same size to every charge that BOTH
  list.  Nothing here changes a model definition.  Namespace `SymmModel.AssocP`.
-/
import SymmModel.Proofs.Routes4

namespace SymmModel
namespace AssocP
open TdotP GradedP RoutesP
set_option linter.unusedSectionVars false

variable {R : Type}

/-- two charge tables give the same size to every charge listed in both -/
def cmAgree (c1 c2 : List (Charge × Nat)) : Bool :=
  c1.all (fun p => match alookup c2 p.1 with
    | some d => d == p.2
    | none => true)

/-- the weak precondition of a contraction: matched legs have opposite directions and their
    charge tables agree on the charges they have in common -/
def contractibleCommonB (a b : Arr R) (axesA axesB : List Nat) : Bool :=
  axesA.length == axesB.length
  && (axesA.zip axesB).all (fun p =>
      cmAgree (a.indices.getD p.1 default).cm (b.indices.getD p.2 default).cm
      && ((a.indices.getD p.1 default).dual != (b.indices.getD p.2 default).dual))

/-- guard of a contraction call with the weak precondition -/
def tdotAdmissibleCommonB (a b : Arr R) (axesA axesB : List Nat) : Bool :=
  decide (a.sym = b.sym) && contractibleCommonB a b axesA axesB
  && allDistinct axesA && allDistinct axesB
  && axesA.all (fun i => decide (i < a.ndim)) && axesB.all (fun i => decide (i < b.ndim))

theorem cmAgree_lookup {c1 c2 : List (Charge × Nat)} (h : cmAgree c1 c2 = true) {c : Charge}
    {d1 d2 : Nat} (h1 : alookup c1 c = some d1) (h2 : alookup c2 c = some d2) : d2 = d1 := by
  unfold cmAgree at h
  rw [List.all_eq_true] at h
  have := h (c, d1) (alookup_mem h1)
  simp only [h2, beq_iff_eq] at this
  exact this

theorem cmAgree_self {c : List (Charge × Nat)} (hn : (c.map (·.1)).Nodup) : cmAgree c c = true := by
  unfold cmAgree
  rw [List.all_eq_true]
  rintro ⟨k, d⟩ hp
  have : alookup c k = some d := alookup_of_mem (allDistinct_iff_nodup.mpr hn) hp
  simp [this]

theorem commonB_at {a b : Arr R} {xa xb : List Nat}
    (hc : contractibleCommonB a b xa xb = true) (j : Nat) (hj : j < xa.length) :
    cmAgree (a.indices.getD (xa.getD j 0) default).cm (b.indices.getD (xb.getD j 0) default).cm = true
      ∧ (b.indices.getD (xb.getD j 0) default).dual = !(a.indices.getD (xa.getD j 0) default).dual := by
  unfold contractibleCommonB at hc
  simp only [Bool.and_eq_true, beq_iff_eq, List.all_eq_true] at hc
  obtain ⟨hl, hall⟩ := hc
  have hj' : j < xb.length := by omega
  have hmem : (xa.getD j 0, xb.getD j 0) ∈ xa.zip xb := by
    rw [List.mem_iff_getElem]
    refine ⟨j, by simp; omega, ?_⟩
    simp [List.getD_eq_getElem?_getD, List.getElem?_eq_getElem hj, List.getElem?_eq_getElem hj']
  have := hall _ hmem
  refine ⟨this.1, ?_⟩
  have h2 := this.2
  revert h2
  cases (a.indices.getD (xa.getD j 0) default).dual <;>
    cases (b.indices.getD (xb.getD j 0) default).dual <;> simp

theorem commonB_len {a b : Arr R} {xa xb : List Nat}
    (hc : contractibleCommonB a b xa xb = true) : xa.length = xb.length := by
  unfold contractibleCommonB at hc
  simp only [Bool.and_eq_true, beq_iff_eq] at hc
  exact hc.1

/-- the documented precondition implies the weak one (on operands with well-formed tables) -/
theorem commonB_of_contractibleB {a b : Arr R} {xa xb : List Nat} (ha : a.validB = true)
    (hA : ∀ i ∈ xa, i < a.ndim) (hc : ValidP.contractibleB a b xa xb = true) :
    contractibleCommonB a b xa xb = true := by
  unfold ValidP.contractibleB at hc
  unfold contractibleCommonB
  simp only [Bool.and_eq_true, beq_iff_eq, List.all_eq_true] at hc ⊢
  refine ⟨hc.1, fun p hp => ⟨?_, (hc.2 p hp).2⟩⟩
  rw [← (hc.2 p hp).1]
  apply cmAgree_self
  have hp1 : p.1 < a.indices.length := hA p.1 (List.of_mem_zip hp).1
  rw [List.getD_eq_getElem?_getD, List.getElem?_eq_getElem hp1]
  exact keys_nodup_of_validB ha _ (List.getElem_mem hp1)

/-- branch `a.size > b.size` under the weak precondition -/
theorem ket_sign_right_w (a b : Arr R) (xa xb : List Nat) (hsym : a.sym = b.sym)
    (hc : contractibleCommonB a b xa xb = true)
    (hA : ∀ i ∈ xa, i < a.ndim) (hnB : xb.Nodup) (hB : ∀ i ∈ xb, i < b.ndim)
    (sa sb : Sector) (hsa : sa.length = a.ndim) (hsb : sb.length = b.ndim)
    (hal : permuted sb xb = permuted sa xa) :
    Lazy.flipSign b.sym
        ((List.range xa.length).filter (fun ax =>
          ((permuted b.indices (xb ++ freeAxes b.ndim xb)).getD ax default).dual))
        (permuted sb (xb ++ freeAxes b.ndim xb))
      = (-1 : Int) ^ ketOdd a xa sa := by
  have hlen := commonB_len hc
  rw [flipSign_eq_pow]
  congr 1
  unfold ketOdd
  have e2 : ((xa.filter (fun ax => !(a.indices.getD ax default).dual)).filter
        (fun ax => a.sym.parity (sa.getD ax (0, 0)))).length
      = ((((List.range xa.length).map (fun j => xa.getD j 0)).filter
          (fun ax => !(a.indices.getD ax default).dual)).filter
        (fun ax => a.sym.parity (sa.getD ax (0, 0)))).length := by
    rw [← list_eq_map_getD xa]
  have e1 : List.range xa.length = (List.range xa.length).map (fun j => j) := by simp
  rw [e2]
  conv => lhs; rw [e1]
  apply count_two_maps
  intro j hj
  have hj' : j < xb.length := by omega
  rw [getD_right hnB hB b.indices rfl j hj', getD_right hnB hB sb hsb j hj']
  refine ⟨(commonB_at hc j hj).2, ?_⟩
  have h1 := getD_permuted_ax sb xb (by rw [hsb]; exact hB) j hj' (0, 0)
  have h2 := getD_permuted_ax sa xa (by rw [hsa]; exact hA) j hj (0, 0)
  rw [← h1, ← h2, hal, hsym]

/-- aligned stored sectors have equal contracted sizes under the weak precondition -/
theorem shapes_match_w {a b : Arr R} {xa xb : List Nat} (hsa : a.shapesOk) (hsb : b.shapesOk)
    (hc : contractibleCommonB a b xa xb = true)
    (hA : ∀ i ∈ xa, i < a.ndim) (hB : ∀ i ∈ xb, i < b.ndim) :
    ∀ sa ∈ a.sectors, ∀ sb ∈ b.sectors, permuted sb xb = permuted sa xa →
      permuted (Arr.blockShapeD b.indices sb) xb = permuted (Arr.blockShapeD a.indices sa) xa := by
  intro sa hsa' sb hsb' hal
  have hlen := commonB_len hc
  obtain ⟨shpA, hA1, hA2, hA3, hA4⟩ := shape_of_mem hsa hsa'
  obtain ⟨shpB, hB1, hB2, hB3, hB4⟩ := shape_of_mem hsb hsb'
  rw [hA2, hB2]
  apply List.ext_getElem?
  intro j
  rw [permuted_getElem? _ _ (by rw [hB3]; exact hB), permuted_getElem? _ _ (by rw [hA3]; exact hA)]
  by_cases hj : j < xa.length
  · have hj' : j < xb.length := by omega
    have hxa : xa[j] < a.ndim := hA _ (List.getElem_mem hj)
    have hxb : xb[j] < b.ndim := hB _ (List.getElem_mem hj')
    rw [List.getElem?_eq_getElem hj, List.getElem?_eq_getElem hj']
    simp only [Option.bind_some]
    have zA := ((blockShape?_eq_some_iff _ _ _).mp hA1).2
    have zB := ((blockShape?_eq_some_iff _ _ _).mp hB1).2
    have gA := congrArg (fun l => l[xa[j]]?) zA
    have gB := congrArg (fun l => l[xb[j]]?) zB
    have ia : xa[j] < a.indices.length := hxa
    have ib : xb[j] < b.indices.length := hxb
    simp only [List.getElem?_zipWith, List.getElem?_map, List.getElem?_eq_getElem ia,
      List.getElem?_eq_getElem ib, List.getElem?_eq_getElem (hA4 ▸ hxa),
      List.getElem?_eq_getElem (hB4 ▸ hxb), List.getElem?_eq_getElem (hA3 ▸ hxa),
      List.getElem?_eq_getElem (hB3 ▸ hxb), Option.map_some] at gA gB
    have hcm := (commonB_at hc j hj).1
    simp only [List.getD_eq_getElem?_getD, List.getElem?_eq_getElem hj, List.getElem?_eq_getElem hj',
      List.getElem?_eq_getElem ia, List.getElem?_eq_getElem ib, Option.getD_some] at hcm
    have hch : sb[xb[j]]'(hB4 ▸ hxb) = sa[xa[j]]'(hA4 ▸ hxa) := by
      have h1 := congrArg (fun l => l[j]?) hal
      simp only [permuted_getElem? sb xb (by rw [hB4]; exact hB),
        permuted_getElem? sa xa (by rw [hA4]; exact hA), List.getElem?_eq_getElem hj,
        List.getElem?_eq_getElem hj', Option.bind_some, List.getElem?_eq_getElem (hA4 ▸ hxa),
        List.getElem?_eq_getElem (hB4 ▸ hxb), Option.some.injEq] at h1
      exact h1
    rw [List.getElem?_eq_getElem (hB3 ▸ hxb), List.getElem?_eq_getElem (hA3 ▸ hxa)]
    unfold Index.sizeOf? at gA gB
    rw [hch] at gB
    rw [cmAgree_lookup hcm (Option.some.inj gA) (Option.some.inj gB)]
  · rw [List.getElem?_eq_none (by omega), List.getElem?_eq_none (by omega)]; rfl

section main
variable [AddMonoid R] [Mul R] [Neg R] [SignRing R]
open Lazy (sgnI)

/-- `prepared_pair` under the weak precondition -/
theorem prepared_pair_w (a b : Arr R) (xa xb : List Nat)
    (ha : a.validB = true) (hb : b.validB = true) (hfa : a.fermi = true) (hfb : b.fermi = true)
    (hsym : a.sym = b.sym) (hc : contractibleCommonB a b xa xb = true)
    (hnA : xa.Nodup) (hA : ∀ i ∈ xa, i < a.ndim) (hnB : xb.Nodup) (hB : ∀ i ∈ xb, i < b.ndim) :
    ∃ τA τB, Prepared a (ValidP.tdF34 a b xa xb).1.phaseSync (freeAxes a.ndim xa ++ xa) τA
      ∧ Prepared b (ValidP.tdF34 a b xa xb).2.phaseSync (xb ++ freeAxes b.ndim xb) τB
      ∧ ∀ sa ∈ a.sectors, ∀ sb ∈ b.sectors, permuted sb xb = permuted sa xa →
          τA sa * τB sb = gradedSign a b xa xb sa sb := by
  have hlen := commonB_len hc
  have fa := Lazy.Full.of_valid ha hfa
  have fb := Lazy.Full.of_valid hb hfb
  have hsa := Arr.shapesOk_of_validB ha
  have hsb := Arr.shapesOk_of_validB hb
  have hpA : Arr.isPerm (freeAxes a.ndim xa ++ xa) a.ndim = true :=
    ValidP.isPerm_of_perm (perm_left hnA hA)
  have hpB : Arr.isPerm (xb ++ freeAxes b.ndim xb) b.ndim = true :=
    ValidP.isPerm_of_perm (perm_right hnB hB)
  have props := ValidP.tdF34_props a b xa xb ((ValidP.validB_iff a).mp ha) ((ValidP.validB_iff b).mp hb)
    hfa hfb hnA hnB hA hB
  have hvX : (ValidP.tdF34 a b xa xb).1.phaseSync.shapesOk :=
    Arr.shapesOk_of_validB ((ValidP.validB_iff _).mpr (ValidP.phaseSync_valid _ props.va))
  have hvY : (ValidP.tdF34 a b xa xb).2.phaseSync.shapesOk :=
    Arr.shapesOk_of_validB ((ValidP.validB_iff _).mpr (ValidP.phaseSync_valid _ props.vb))
  have T1 : Twist (a.transposeF (freeAxes a.ndim xa ++ xa)) (a.transposeF (freeAxes a.ndim xa ++ xa))
      (fun _ => 1) := Twist.refl (Lazy.SignOk.transposeF a _)
  have U1 : Twist (b.transposeF (xb ++ freeAxes b.ndim xb)) (b.transposeF (xb ++ freeAxes b.ndim xb))
      (fun _ => 1) := Twist.refl (Lazy.SignOk.transposeF b _)
  have U2 := U1.phaseTranspose (some ((List.range xa.length).reverse
    ++ (List.range (b.transposeF (xb ++ freeAxes b.ndim xb)).ndim).drop xa.length))
  have hrev : ∀ sa ∈ a.sectors, ∀ sb ∈ b.sectors, permuted sb xb = permuted sa xa →
      koszul ((b.transposeF (xb ++ freeAxes b.ndim xb)).parities (permuted sb (xb ++ freeAxes b.ndim xb)))
        (some ((List.range xa.length).reverse
          ++ (List.range (b.transposeF (xb ++ freeAxes b.ndim xb)).ndim).drop xa.length))
      = (-1 : Int) ^ (oddContracted a xa sa * (oddContracted a xa sa - 1) / 2) := by
    intro sa _ sb hsb' hal
    rw [transposeF_ndim_right b xb hnB hB]
    exact reversal_sign_right a b xa xb hsym hlen hnB hB sa sb (Arr.sector_length hsb hsb') hal
  rcases tdF34_cases a b xa xb with hcase | hcase
  · rw [hcase] at hvX hvY ⊢
    have T2 := T1.phaseFlip (((List.range a.ndim).drop (a.ndim - xa.length)).filter
      (fun ax => !((a.transposeF (freeAxes a.ndim xa ++ xa)).indices.getD ax default).dual))
    refine ⟨_, _, prepared_of_twist a _ _ _ fa hsa hpA T2 hvX,
      prepared_of_twist b _ _ _ fb hsb hpB U2 hvY, ?_⟩
    intro sa hsa' sb hsb' hal
    have hk := ket_sign_left a xa hnA hA sa (Arr.sector_length hsa hsa')
    have hr := hrev sa hsa' sb hsb' hal
    show (Lazy.flipSign a.sym _ _ * 1 * _) * (_ * 1 * _) = _
    rw [hr]
    have hk' : Lazy.flipSign a.sym
        (((List.range a.ndim).drop (a.ndim - xa.length)).filter
          (fun ax => !((a.transposeF (freeAxes a.ndim xa ++ xa)).indices.getD ax default).dual))
        (permuted sa (freeAxes a.ndim xa ++ xa)) = (-1 : Int) ^ ketOdd a xa sa := hk
    rw [hk']
    unfold gradedSign
    ring
  · rw [hcase] at hvX hvY ⊢
    have U3 := U2.phaseFlip ((List.range xa.length).filter (fun ax =>
      (((b.transposeF (xb ++ freeAxes b.ndim xb)).phaseTranspose (some ((List.range xa.length).reverse
        ++ (List.range (b.transposeF (xb ++ freeAxes b.ndim xb)).ndim).drop xa.length))).indices.getD
          ax default).dual))
    refine ⟨_, _, prepared_of_twist a _ _ _ fa hsa hpA T1 hvX,
      prepared_of_twist b _ _ _ fb hsb hpB U3 hvY, ?_⟩
    intro sa hsa' sb hsb' hal
    have hk := ket_sign_right_w a b xa xb hsym hc hA hnB hB sa sb (Arr.sector_length hsa hsa')
      (Arr.sector_length hsb hsb') hal
    have hr := hrev sa hsa' sb hsb' hal
    show (1 * _) * (Lazy.flipSign b.sym _ _ * (_ * 1) * _) = _
    rw [hr]
    have hk' : Lazy.flipSign b.sym
        ((List.range xa.length).filter (fun ax =>
          (((b.transposeF (xb ++ freeAxes b.ndim xb)).phaseTranspose (some ((List.range xa.length).reverse
            ++ (List.range (b.transposeF (xb ++ freeAxes b.ndim xb)).ndim).drop xa.length))).indices.getD
              ax default).dual))
        (permuted sb (xb ++ freeAxes b.ndim xb)) = (-1 : Int) ^ ketOdd a xa sa := hk
    rw [hk']
    unfold gradedSign
    ring

/-- what the hypotheses of a call give, with the weak precondition -/
structure AdmW (a b : Arr R) (xa xb : List Nat) : Prop where
  va : a.validB = true
  vb : b.validB = true
  fa : a.fermi = true
  fb : b.fermi = true
  sym : a.sym = b.sym
  con : contractibleCommonB a b xa xb = true
  nA : xa.Nodup
  nB : xb.Nodup
  ltA : ∀ i ∈ xa, i < a.ndim
  ltB : ∀ i ∈ xb, i < b.ndim

theorem AdmW.of {a b : Arr R} {xa xb : List Nat} (ha : a.validB = true) (hb : b.validB = true)
    (hfa : a.fermi = true) (hfb : b.fermi = true) (hadm : tdotAdmissibleCommonB a b xa xb = true) :
    AdmW a b xa xb := by
  unfold tdotAdmissibleCommonB at hadm
  simp only [Bool.and_eq_true, decide_eq_true_eq, ValidP.allDistinct_iff, List.all_eq_true] at hadm
  obtain ⟨⟨⟨⟨⟨hsym, hc⟩, hnA⟩, hnB⟩, hA⟩, hB⟩ := hadm
  exact ⟨ha, hb, hfa, hfb, hsym, hc, hnA, hnB, hA, hB⟩

theorem AdmW.ofAdm {a b : Arr R} {xa xb : List Nat} (h : Adm a b xa xb) : AdmW a b xa xb :=
  ⟨h.va, h.vb, h.fa, h.fb, h.sym, commonB_of_contractibleB h.va h.ltA h.con, h.nA, h.nB, h.ltA, h.ltB⟩

theorem AdmW.len {a b : Arr R} {xa xb : List Nat} (h : AdmW a b xa xb) : xa.length = xb.length :=
  commonB_len h.con

/-- structure of the call under the weak precondition -/
theorem tensordotF_eq_core_w (a b : Arr R) (xa xb : List Nat) (h : AdmW a b xa xb) :
    a.tensordotF b (.pair (xa.map Int.ofNat) (xb.map Int.ofNat)) .blockwise
      = (OddposP.mergeOddpos a.parity a.oddpos b.oddpos).map (finish (coreT a b xa xb)) := by
  obtain ⟨ha, hb, hfa, hfb, hsym, hc, hnA, hnB, hA, hB⟩ := h
  have hlen := commonB_len hc
  obtain ⟨τA, τB, PX, PY, _⟩ := prepared_pair_w a b xa xb ha hb hfa hfb hsym hc hnA hA hnB hB
  have props := ValidP.tdF34_props a b xa xb ((ValidP.validB_iff a).mp ha) ((ValidP.validB_iff b).mp hb)
    hfa hfb hnA hnB hA hB
  rw [ValidP.tensordotF_eq a b xa xb .blockwise hlen hA hB]
  unfold coreT
  simp only []
  generalize hX : (ValidP.tdF34 a b xa xb).1.phaseSync = X at PX
  generalize hY : (ValidP.tdF34 a b xa xb).2.phaseSync = Y at PY
  have hXn : X.ndim = a.ndim := by
    show X.indices.length = _
    rw [PX.indices]; exact left_lengths hnA hA a.indices rfl
  have hYn : Y.ndim = b.ndim := by
    show Y.indices.length = _
    rw [PY.indices]; exact right_lengths hnB hB b.indices rfl
  have hk : xa.length ≤ a.ndim := by have := freeAxes_length hnA hA; omega
  have hk' : xb.length ≤ b.ndim := by have := freeAxes_length hnB hB; omega
  rw [tensordotA_blockwise', ValidP.parseAxes_nat X.ndim Y.ndim _ _ (by simp; omega)
    (by intro i hi; rw [hXn]; exact List.mem_range.mp (List.mem_of_mem_drop hi))
    (by intro i hi; rw [hYn]; have := List.mem_range.mp hi; omega)]
  simp only [Except.map, bind, Except.bind]
  rw [OddposP.resolveCombinedOddpos_eq]
  have hXpar : X.parity = a.parity := by
    subst hX
    show Sym.parity (ValidP.tdF34 a b xa xb).1.sym (ValidP.tdF34 a b xa xb).1.charge = _
    rw [props.sa, props.ca]; rfl
  have hXodd : X.oddpos = a.oddpos := by subst hX; exact props.oa
  have hYodd : Y.oddpos = b.oddpos := by subst hY; exact props.ob
  rw [hXpar, hXodd, hYodd]
  rfl

/-- the frame of the core contraction under the weak precondition -/
theorem coreT_frame_w (a b : Arr R) (xa xb : List Nat) (h : AdmW a b xa xb) :
    CoreFrame a b xa xb (coreT a b xa xb) := by
  obtain ⟨ha, hb, hfa, hfb, hsym, hc, hnA, hnB, hA, hB⟩ := h
  have hlen := commonB_len hc
  have hsa := Arr.shapesOk_of_validB ha
  have hsb := Arr.shapesOk_of_validB hb
  obtain ⟨τA, τB, PX, PY, hsign⟩ := prepared_pair_w a b xa xb ha hb hfa hfb hsym hc hnA hA hnB hB
  have props := ValidP.tdF34_props a b xa xb ((ValidP.validB_iff a).mp ha) ((ValidP.validB_iff b).mp hb)
    hfa hfb hnA hnB hA hB
  unfold coreT
  simp only []
  have hXsym : (ValidP.tdF34 a b xa xb).1.phaseSync.sym = a.sym := props.sa
  have hXf : (ValidP.tdF34 a b xa xb).1.phaseSync.fermi = a.fermi := by
    show (ValidP.tdF34 a b xa xb).1.fermi = _
    rw [props.fa, hfa]
  have hXch : (ValidP.tdF34 a b xa xb).1.phaseSync.charge = a.charge := props.ca
  have hYch : (ValidP.tdF34 a b xa xb).2.phaseSync.charge = b.charge := props.cb
  have hXodd : (ValidP.tdF34 a b xa xb).1.phaseSync.oddpos = a.oddpos := props.oa
  generalize hX : (ValidP.tdF34 a b xa xb).1.phaseSync = X at PX hXsym hXf hXch hXodd
  generalize hY : (ValidP.tdF34 a b xa xb).2.phaseSync = Y at PY hYch
  have hXn : X.ndim = a.ndim := by
    show X.indices.length = _
    rw [PX.indices]; exact left_lengths hnA hA a.indices rfl
  have hYn : Y.ndim = b.ndim := by
    show Y.indices.length = _
    rw [PY.indices]; exact right_lengths hnB hB b.indices rfl
  have e1 : without X.indices ((List.range a.ndim).drop (a.ndim - xa.length)) = without a.indices xa := by
    rw [without_eq_permuted_freeAxes, without_eq_permuted_freeAxes]
    have : X.indices.length = a.ndim := hXn
    rw [this, PX.indices]
    exact left_free hnA hA a.indices rfl
  have e2 : without Y.indices (List.range xa.length) = without b.indices xb := by
    rw [without_eq_permuted_freeAxes, without_eq_permuted_freeAxes]
    have : Y.indices.length = b.ndim := hYn
    rw [this, PY.indices, hlen]
    exact right_free hnB hB b.indices rfl
  refine ⟨hXsym, hXf, ?_, PX.phases, hXodd, ?_, ?_, ?_, tensordotBlockwise_wf _ _ _ _ _ _, ?_⟩
  · show X.sym.combine [X.charge, Y.charge] = _
    rw [hXsym, hXch, hYch]
  · rw [tensordotBlockwise_sectors_eq, hXn, hYn,
      tdKeys_transport a b X Y xa xb hsa hsb hnA hA hnB hB hlen PX.sectors PY.sectors]
  · rw [tensordotBlockwise_indices, e1, e2]
  · rintro ⟨s, blk⟩ hp
    have := tensordotBlockwise_block_shape (a := X) (b := Y)
      (xa := (List.range a.ndim).drop (a.ndim - xa.length)) (xb := List.range xa.length)
      PX.shapes PY.shapes (s := s) (blk := blk) (by rw [hXn, hYn] at hp ⊢; exact hp)
    rw [e1, e2] at this
    exact this
  · intro s oL oR hoL ho
    have hT := contract_transport a b X Y xa xb τA τB hsa hsb hnA hA hnB hB hlen
      (shapes_match_w hsa hsb hc hA hB) PX PY s oL oR hoL ho
    rw [hT]
    unfold gradedContract
    congr 1
    apply List.map_congr_left
    rintro ⟨sa, sb⟩ hp
    obtain ⟨h1, h2, h3, _⟩ := mem_storedPairs.mp hp
    rw [hsign sa h1 sb h2 h3]

end main

end AssocP
end SymmModel
