/-
  SymmModel.Proofs.Assoc3Eqv — observational equivalence of arrays up to block order and up to the
  split between stored numbers and pending signs (`Eqv`), and the CONGRUENCE of the fermionic
  contraction w.r.t. it in either operand.  Namespace `SymmModel.Assoc3P`.
-/
import SymmModel.Proofs.Assoc3Main

namespace SymmModel
namespace Assoc3P
open TdotP GradedP RoutesP KoszulP AssocP
open Lazy (sgnI)
set_option linter.unusedSectionVars false

variable {R : Type}

/-- same frame (symmetry, kind, charge, labels, index tables), same SET of stored sectors, same
    value at every offset of every stored block -/
structure Eqv [Zero R] [Neg R] (X X' : Arr R) : Prop where
  sym : X.sym = X'.sym
  fermi : X.fermi = X'.fermi
  charge : X.charge = X'.charge
  oddpos : X.oddpos = X'.oddpos
  indices : X.indices = X'.indices
  sectors : ∀ s, s ∈ X.sectors ↔ s ∈ X'.sectors
  elem : ∀ (s : Sector) (o : List Nat),
    (s ∈ X.sectors → inBox (Arr.blockShapeD X.indices s) o = true) → X.elem s o = X'.elem s o

section basics
variable [Zero R] [Neg R]

theorem Eqv.refl (X : Arr R) : Eqv X X :=
  ⟨rfl, rfl, rfl, rfl, rfl, fun _ => Iff.rfl, fun _ _ _ => rfl⟩

theorem Eqv.symm {X X' : Arr R} (h : Eqv X X') : Eqv X' X :=
  ⟨h.sym.symm, h.fermi.symm, h.charge.symm, h.oddpos.symm, h.indices.symm,
    fun s => (h.sectors s).symm, fun s o ho => (h.elem s o (fun hs => by
      rw [h.indices]; exact ho ((h.sectors s).mp hs))).symm⟩

theorem Eqv.trans {X Y Z : Arr R} (h1 : Eqv X Y) (h2 : Eqv Y Z) : Eqv X Z :=
  ⟨h1.sym.trans h2.sym, h1.fermi.trans h2.fermi, h1.charge.trans h2.charge,
    h1.oddpos.trans h2.oddpos, h1.indices.trans h2.indices,
    fun s => (h1.sectors s).trans (h2.sectors s), fun s o ho => (h1.elem s o ho).trans
      (h2.elem s o (fun hs => by rw [← h1.indices]; exact ho ((h1.sectors s).mpr hs)))⟩

theorem Eqv.ndim {X X' : Arr R} (h : Eqv X X') : X.ndim = X'.ndim := by
  unfold Arr.ndim; rw [h.indices]

theorem Eqv.parity {X X' : Arr R} (h : Eqv X X') : X.parity = X'.parity := by
  unfold Arr.parity; rw [h.sym, h.charge]

end basics

section congr
variable [AddCommMonoid R] [Mul R] [Neg R] [SignRing R]

theorem gradedSign_congr_left {X X' : Arr R} (h : Eqv X X') (Y : Arr R) (xa xb : List Nat)
    (sa sb : Sector) : gradedSign X Y xa xb sa sb = gradedSign X' Y xa xb sa sb := by
  unfold gradedSign oddContracted ketOdd Arr.parities
  rw [h.ndim, h.sym, h.indices]

theorem gradedSign_congr_right {Y Y' : Arr R} (h : Eqv Y Y') (X : Arr R) (xa xb : List Nat)
    (sa sb : Sector) : gradedSign X Y xa xb sa sb = gradedSign X Y' xa xb sa sb := by
  unfold gradedSign Arr.parities
  rw [h.ndim, h.sym]

theorem storedPairs_perm_left {X X' : Arr R} (h : Eqv X X') (Y : Arr R) (l xa xb r : List Nat)
    (s : Sector) (hdX : X.sectors.Nodup) (hdX' : X'.sectors.Nodup) (hdY : Y.sectors.Nodup) :
    (storedPairs X Y l xa xb r s).Perm (storedPairs X' Y l xa xb r s) := by
  rw [List.perm_ext_iff_of_nodup (storedPairs_nodup _ _ _ _ _ hdX hdY)
    (storedPairs_nodup _ _ _ _ _ hdX' hdY)]
  rintro ⟨sa, sb⟩
  rw [mem_storedPairs, mem_storedPairs, h.sectors sa]

theorem storedPairs_perm_right {Y Y' : Arr R} (h : Eqv Y Y') (X : Arr R) (l xa xb r : List Nat)
    (s : Sector) (hdX : X.sectors.Nodup) (hdY : Y.sectors.Nodup) (hdY' : Y'.sectors.Nodup) :
    (storedPairs X Y l xa xb r s).Perm (storedPairs X Y' l xa xb r s) := by
  rw [List.perm_ext_iff_of_nodup (storedPairs_nodup _ _ _ _ _ hdX hdY)
    (storedPairs_nodup _ _ _ _ _ hdX hdY')]
  rintro ⟨sa, sb⟩
  rw [mem_storedPairs, mem_storedPairs, h.sectors sb]

/-- the graded contraction only depends on the left operand up to `Eqv` -/
theorem gradedContract_congr_left {X X' Y : Arr R} {xa xb : List Nat} (W : AdmW X Y xa xb)
    (h : Eqv X X') (hvX' : X'.validB = true) (s : Sector) (oL oR : List Nat)
    (hoL : oL.length = (freeAxes X.ndim xa).length)
    (ho : inBox (Arr.blockShapeD (without X.indices xa ++ without Y.indices xb) s) (oL ++ oR) = true) :
    gradedContract X Y xa xb s oL oR = gradedContract X' Y xa xb s oL oR := by
  have hsX := Arr.shapesOk_of_validB W.va
  have hsY := Arr.shapesOk_of_validB W.vb
  have hdX := allDistinct_iff_nodup.mp (Arr.allDistinct_of_validB W.va)
  have hdX' := allDistinct_iff_nodup.mp (Arr.allDistinct_of_validB hvX')
  have hdY := allDistinct_iff_nodup.mp (Arr.allDistinct_of_validB W.vb)
  unfold gradedContract
  rw [← h.ndim, ← ((storedPairs_perm_left h Y _ xa xb _ s hdX hdX' hdY).map _).sum_eq]
  apply sum_map_congr
  rintro ⟨sa, sb⟩ hp
  rw [gradedSign_congr_left h]
  congr 1
  obtain ⟨hA, _, _, _⟩ := mem_storedPairs.mp hp
  obtain ⟨shpA, hA1, hA2, hA3, _⟩ := shape_of_mem hsX hA
  obtain ⟨fb1, _⟩ := free_boxes hsX hsY hp hoL ho
  unfold contractPair contractTerm
  rw [← h.indices, ← h.ndim]
  apply sum_map_congr
  intro k hk
  congr 1
  apply h.elem
  intro _
  have := inBox_mergeIdx (shape := Arr.blockShapeD X.indices sa) (axes := xa) (k := k) (f := oL)
    (by rw [hA2, hA3]; exact W.ltA) (mem_allIdx_iff.mp hk) (by rw [hA2, hA3]; rw [hA2] at fb1; exact fb1)
  rw [hA2, hA3] at this
  rw [hA2]
  exact this

/-- … and on the right operand -/
theorem gradedContract_congr_right {X Y Y' : Arr R} {xa xb : List Nat} (W : AdmW X Y xa xb)
    (h : Eqv Y Y') (hvY' : Y'.validB = true) (s : Sector) (oL oR : List Nat)
    (hoL : oL.length = (freeAxes X.ndim xa).length)
    (ho : inBox (Arr.blockShapeD (without X.indices xa ++ without Y.indices xb) s) (oL ++ oR) = true) :
    gradedContract X Y xa xb s oL oR = gradedContract X Y' xa xb s oL oR := by
  have hsX := Arr.shapesOk_of_validB W.va
  have hsY := Arr.shapesOk_of_validB W.vb
  have hdX := allDistinct_iff_nodup.mp (Arr.allDistinct_of_validB W.va)
  have hdY' := allDistinct_iff_nodup.mp (Arr.allDistinct_of_validB hvY')
  have hdY := allDistinct_iff_nodup.mp (Arr.allDistinct_of_validB W.vb)
  unfold gradedContract
  rw [← h.ndim, ← ((storedPairs_perm_right h X _ xa xb _ s hdX hdY hdY').map _).sum_eq]
  apply sum_map_congr
  rintro ⟨sa, sb⟩ hp
  rw [gradedSign_congr_right h]
  congr 1
  obtain ⟨hA, hB, hal, _⟩ := mem_storedPairs.mp hp
  obtain ⟨shpB, hB1, hB2, hB3, _⟩ := shape_of_mem hsY hB
  obtain ⟨_, fb2⟩ := free_boxes hsX hsY hp hoL ho
  have hm := shapes_match_w hsX hsY W.con W.ltA W.ltB sa hA sb hB hal
  unfold contractPair contractTerm
  rw [← h.ndim]
  apply sum_map_congr
  intro k hk
  congr 1
  apply h.elem
  intro _
  have := inBox_mergeIdx (shape := Arr.blockShapeD Y.indices sb) (axes := xb) (k := k) (f := oR)
    (by rw [hB2, hB3]; exact W.ltB) (by rw [hm]; exact mem_allIdx_iff.mp hk)
    (by rw [hB2, hB3]; rw [hB2] at fb2; exact fb2)
  rw [hB2, hB3] at this
  rw [hB2]
  exact this

end congr

/-! ### congruence of `tensordotF` -/

section tdot
variable [AddCommMonoid R] [Mul R] [Neg R] [SignRing R]

theorem admW_congr {X X' Y Y' : Arr R} {xa xb : List Nat} (W : AdmW X Y xa xb) (hX : Eqv X X')
    (hY : Eqv Y Y') (hvX' : X'.validB = true) (hvY' : Y'.validB = true) : AdmW X' Y' xa xb := by
  refine ⟨hvX', hvY', by rw [← hX.fermi]; exact W.fa, by rw [← hY.fermi]; exact W.fb,
    by rw [← hX.sym, ← hY.sym]; exact W.sym, ?_, W.nA, W.nB, by rw [← hX.ndim]; exact W.ltA,
    by rw [← hY.ndim]; exact W.ltB⟩
  have := W.con
  unfold contractibleCommonB at this ⊢
  rw [← hX.indices, ← hY.indices]
  exact this

/-- the core contractions of equivalent operands, finished with the same label data, are equivalent -/
theorem core_eqv {X X' Y Y' : Arr R} {xa xb : List Nat} (W : AdmW X Y xa xb) (W' : AdmW X' Y' xa xb)
    (hX : Eqv X X') (hY : Eqv Y Y')
    (hg : ∀ s oL oR, oL.length = (freeAxes X.ndim xa).length →
      inBox (Arr.blockShapeD (without X.indices xa ++ without Y.indices xb) s) (oL ++ oR) = true →
      gradedContract X Y xa xb s oL oR = gradedContract X' Y' xa xb s oL oR)
    (r : List (Int × Bool) × Int) :
    Eqv (finish (coreT X Y xa xb) r) (finish (coreT X' Y' xa xb) r) := by
  have F := coreT_frame_w X Y xa xb W
  have F' := coreT_frame_w X' Y' xa xb W'
  obtain ⟨f1, f2, f3, f4, f5, f6⟩ := finish_fields (coreT X Y xa xb) r
  obtain ⟨g1, g2, g3, g4, g5, g6⟩ := finish_fields (coreT X' Y' xa xb) r
  have hsX := Arr.shapesOk_of_validB W.va
  have hsY := Arr.shapesOk_of_validB W.vb
  have hsec : ∀ s, s ∈ (coreT X Y xa xb).sectors ↔ s ∈ (coreT X' Y' xa xb).sectors := by
    intro s
    rw [F.sectors, F'.sectors, AssocP.mem_keys_iff, AssocP.mem_keys_iff, ← hX.ndim, ← hY.ndim]
    constructor
    · rintro ⟨⟨sa, sb⟩, hp⟩
      obtain ⟨h1, h2, h3, h4⟩ := mem_storedPairs.mp hp
      exact ⟨(sa, sb), mem_storedPairs.mpr ⟨(hX.sectors sa).mp h1, (hY.sectors sb).mp h2, h3, h4⟩⟩
    · rintro ⟨⟨sa, sb⟩, hp⟩
      obtain ⟨h1, h2, h3, h4⟩ := mem_storedPairs.mp hp
      exact ⟨(sa, sb), mem_storedPairs.mpr ⟨(hX.sectors sa).mpr h1, (hY.sectors sb).mpr h2, h3, h4⟩⟩
  have hidx : (coreT X Y xa xb).indices = (coreT X' Y' xa xb).indices := by
    rw [F.indices, F'.indices, ← hX.indices, ← hY.indices]
    exact dropUnused_congr_mem _ hsec
  refine ⟨by rw [f2, g2, F.sym, F'.sym, hX.sym], by rw [f3, g3, F.fermi, F'.fermi, hX.fermi],
    by rw [f1, g1, F.charge, F'.charge, hX.sym, hX.charge, hY.charge], by rw [f6, g6],
    by rw [f4, g4, hidx], by intro s; rw [f5, g5]; exact hsec s, ?_⟩
  intro s o ho
  by_cases hs : s ∈ (coreT X Y xa xb).sectors
  · have hbox := ho (by rw [f5]; exact hs)
    rw [f4, F.indices, Arr.blockShapeD, ValidP.dropUnused_blockShape _ _ _ hs] at hbox
    have hkey : s ∈ tdKeys X.sectors Y.sectors (freeAxes X.ndim xa) xa xb (freeAxes Y.ndim xb) := by
      rw [F.sectors] at hs; exact List.mem_eraseDups.mp hs
    have hlen := key_shape_length hsX hsY hkey
    have hol : o.length = (freeAxes X.ndim xa).length + (freeAxes Y.ndim xb).length := by
      rw [inBox_length hbox]; exact hlen
    have hsplit : o = o.take (freeAxes X.ndim xa).length ++ o.drop (freeAxes X.ndim xa).length :=
      (List.take_append_drop _ _).symm
    have htl : (o.take (freeAxes X.ndim xa).length).length = (freeAxes X.ndim xa).length := by
      rw [List.length_take]; omega
    have hbox' : inBox (Arr.blockShapeD (without X.indices xa ++ without Y.indices xb) s)
        (o.take (freeAxes X.ndim xa).length ++ o.drop (freeAxes X.ndim xa).length) = true := by
      rw [← hsplit]; exact hbox
    rw [finish_elem _ _ (coreFrame_signOk F), finish_elem _ _ (coreFrame_signOk F'), hsplit,
      F.elem s _ _ htl hbox',
      F'.elem s _ _ (by rw [htl, hX.ndim]) (by rw [← hX.indices, ← hY.indices]; exact hbox'),
      hg s _ _ htl hbox']
  · rw [Arr.elem_of_not_mem (by rw [f5]; exact hs),
      Arr.elem_of_not_mem (by rw [g5]; exact fun h => hs ((hsec s).mpr h))]

/-- **congruence of `tensordotF`** in both operands (blockwise mode, weak guard): equivalent
    operands give equivalent results, and one call succeeds iff the other does -/
theorem tdotF_congr {X X' Y Y' : Arr R} {xa xb : List Nat} (W : AdmW X Y xa xb)
    (hX : Eqv X X') (hY : Eqv Y Y') (hvX' : X'.validB = true) (hvY' : Y'.validB = true)
    (Z : Arr R) (e : X.tensordotF Y (.pair (xa.map Int.ofNat) (xb.map Int.ofNat)) .blockwise = .ok Z) :
    ∃ Z', X'.tensordotF Y' (.pair (xa.map Int.ofNat) (xb.map Int.ofNat)) .blockwise = .ok Z'
      ∧ Eqv Z Z' := by
  have W1 : AdmW X' Y xa xb := admW_congr W hX (Eqv.refl Y) hvX' W.vb
  have W' : AdmW X' Y' xa xb := admW_congr W hX hY hvX' hvY'
  rw [tensordotF_eq_core_w X Y xa xb W] at e
  rw [tensordotF_eq_core_w X' Y' xa xb W', ← hX.parity, ← hX.oddpos, ← hY.oddpos]
  cases hm : OddposP.mergeOddpos X.parity X.oddpos Y.oddpos with
  | error err => rw [hm] at e; cases e
  | ok r =>
    rw [hm] at e
    simp only [Except.map, Except.ok.injEq] at e
    subst e
    refine ⟨_, rfl, core_eqv W W' hX hY ?_ r⟩
    intro s oL oR hoL ho
    rw [gradedContract_congr_left W hX hvX' s oL oR hoL ho]
    exact gradedContract_congr_right W1 hY hvY' s oL oR (by rw [← hX.ndim]; exact hoL)
      (by rw [← hX.indices]; exact ho)

/-- equivalent arrays have the same `to_dense()` -/
theorem Eqv.toDenseF {X X' : Arr R} (h : Eqv X X') (hv : X.validB = true) :
    X.toDenseF = X'.toDenseF := by
  apply AssocP.toDenseF_eq_of X' X h.indices
  · rw [← h.indices]; exact keys_nodup_of_validB hv
  · intro s o ho
    exact h.elem s o (fun hs => by rw [h.indices]; exact ho ((h.sectors s).mp hs))

end tdot

end Assoc3P
end SymmModel
