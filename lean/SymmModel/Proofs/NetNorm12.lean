/-
  SymmModel.Proofs.NetNorm12 — network form of the norm (property C10), continuation part 12:
  chains of any length with EVERY contraction call in its own mode (`blockwise`, `fused`, `auto`):
  the left-nested contraction of the ket chain (k-th call in mode `mk k`), of the bra chain (`mb k`)
  and the two final calls.  Joint induction: blockwise pieces (`BraInv`, NetNorm10) and their
  any-mode versions (`ModeInv`: zero-padded copies with the same un-pruned table frame).
-/
import SymmModel.Proofs.NetNorm11
namespace SymmModel.NormNet
open SymmModel SymmModel.Lazy SymmModel.Norm SymmModel.TdotP SymmModel.GradedP SymmModel.RoutesP
open SymmModel.AssocP SymmModel.Assoc3P SymmModel.Assoc4P
set_option linter.unusedSectionVars false

section defs
variable {R : Type} [Zero R] [Add R] [Mul R] [Neg R]

/-- composition of two adjacent segments with the contraction call in mode `m` -/
def compM (m : TdotMode) (S1 S2 : Seg R) : Except Err (Seg R) :=
  (S1.arr.tensordotF S2.arr (.pair (S1.r.map Int.ofNat) (S2.l.map Int.ofNat)) m).map (fun z =>
    ⟨z, positions (freeAxes S1.arr.ndim S1.r) S1.l,
      AssocP.axesAB S1.arr.ndim S2.arr.ndim S1.r S2.l S2.r⟩)

/-- left-nested contraction, the call absorbing the `j`-th further tensor in mode `md (k + j)` -/
def evalLM (md : Nat → TdotMode) : Nat → Seg R → List (Seg R) → Except Err (Seg R)
  | _, S, [] => .ok S
  | k, S, y :: ys =>
    match compM (md k) S y with
    | .ok s => evalLM md (k + 1) s ys
    | .error e => .error e

end defs

section step
variable {R : Type} [AddCommMonoid R] [Mul R] [Neg R] [SignRing R]

/-- `Sm` is the any-mode version of the blockwise piece `S`; `F` their un-pruned table frame -/
structure ModeInv (S Sm : Seg R) (F : List Index) : Prop where
  pad : Pad Sm.arr S.arr
  v : S.arr.validB = true
  vm : Sm.arr.validB = true
  f : S.arr.fermi = true
  fm : Sm.arr.fermi = true
  odd : Sm.arr.oddpos = S.arr.oddpos
  chg : Sm.arr.charge = S.arr.charge
  l : Sm.l = S.l
  r : Sm.r = S.r
  fr : List.Forall₂ SizeLe S.arr.indices F
  frm : List.Forall₂ SizeLe Sm.arr.indices F

theorem ModeInv.refl {S : Seg R} {F : List Index} (hv : S.arr.validB = true)
    (hf : S.arr.fermi = true) (hF : List.Forall₂ SizeLe S.arr.indices F) : ModeInv S S F :=
  ⟨Pad.refl hv, hv, hv, hf, hf, rfl, rfl, rfl, rfl, hF, hF⟩

/-- one step: absorbing `y` in mode `m`, next to the blockwise step -/
theorem step_mode (hz1 : ∀ x : R, 0 * x = 0) (hz2 : ∀ x : R, x * 0 = 0) {S Sm : Seg R} (Y : Arr R)
    (yl : List Nat) {F : List Index} (H : ModeInv S Sm F)
    (W : AdmW S.arr Y S.r yl) (Wm : AdmW Sm.arr Y S.r yl) (K : Arr R)
    (eK : S.arr.tensordotF Y (.pair (S.r.map Int.ofNat) (yl.map Int.ofNat)) .blockwise = .ok K)
    (m : TdotMode) (l' r' : List Nat) :
    ∃ Km, Sm.arr.tensordotF Y (.pair (S.r.map Int.ofNat) (yl.map Int.ofNat)) m = .ok Km
      ∧ ModeInv ⟨K, l', r'⟩ ⟨Km, l', r'⟩ (without F S.r ++ without Y.indices yl)
      ∧ InterW S.arr Y S.r yl K ∧ InterW Sm.arr Y S.r yl Km := by
  obtain ⟨zp, ezp, pz, oz, cz⟩ :=
    pad_blockwise hz1 hz2 H.pad (Pad.refl W.vb) Wm W H.odd H.chg rfl rfl K eK
  obtain ⟨Km, eKm, pKm, IKm, _, oKm, cKm⟩ := call_any2 hz1 hz2 Sm.arr Y _ _ Wm m zp ezp
  obtain ⟨_, _, _, _, IK, _, _⟩ := call_any2 hz1 hz2 S.arr Y _ _ W .blockwise K eK
  exact ⟨Km, eKm, ⟨pKm.trans pz, IK.valid, IKm.valid, IK.fermi, IKm.fermi, oKm.trans oz,
    cKm.trans cz, rfl, rfl, frame_mono _ H.fr IK.frame, frame_mono _ H.frm IKm.frame⟩, IK, IKm⟩

end step

section bra
variable {R : Type} [AddMonoid R] [Mul R] [Neg R] [Conj R]

theorem braSeg_leafOK' {S : Seg R} (h : LeafOK S) : LeafOK (braSeg S) :=
  ⟨braOf_valid _ _ h.valid h.fermi, braOf_fermi _ _ h.fermi, h.nd,
    fun i hi => by show i < (braOf S.arr (S.l ++ S.r)).ndim; rw [braOf_ndim]; exact h.ltl i hi,
    fun i hi => by show i < (braOf S.arr (S.l ++ S.r)).ndim; rw [braOf_ndim]; exact h.ltr i hi⟩

theorem braSeg_link' {S S' : Seg R} (hS : LeafOK S) (hS' : LeafOK S') (lk : Link S S') :
    Link (braSeg S) (braSeg S') := by
  have W : AdmW S.arr S'.arr S.r S'.l :=
    ⟨hS.valid, hS'.valid, hS.fermi, hS'.fermi, lk.sym, lk.con, (List.nodup_append.mp hS.nd).2.1,
      (List.nodup_append.mp hS'.nd).1, hS.ltr, hS'.ltl⟩
  have Wb := braOf_admW' W (S.l ++ S.r) (S'.l ++ S'.r)
  exact ⟨Wb.sym, Wb.con⟩

theorem braSeg_linked' (ys : List (Seg R)) : ∀ (S : Seg R), LeafOK S → linked S ys →
    linked (braSeg S) (ys.map braSeg) := by
  induction ys with
  | nil => intro _ _ _; trivial
  | cons y ys ih =>
    intro S hS h
    obtain ⟨lk, hy, hr⟩ := h
    exact ⟨braSeg_link' hS hy lk, braSeg_leafOK' hy, ih y hy hr⟩

end bra

section nchainM
variable {R : Type} [AddCommMonoid R] [Mul R] [Neg R] [Conj R] [NetLaws R]

/-- **joint induction**: blockwise ket / bra pieces and their any-mode versions -/
theorem chain_conjM (hz1 : ∀ x : R, 0 * x = 0) (hz2 : ∀ x : R, x * 0 = 0) (mk mb : Nat → TdotMode)
    (ys : List (Seg R)) : ∀ (k : Nat) (S Sb Sm Sbm : Seg R) (F : List Index),
    BraInv S Sb → ModeInv S Sm F → ModeInv Sb Sbm (F.map Index.conj) →
    (∀ ix ∈ F, (ix.cm.map (·.1)).Nodup) →
    linked S ys → linked Sm ys → linked Sb (ys.map braSeg) → linked Sbm (ys.map braSeg) →
    (∀ y ∈ ys, KetLabels y.arr.oddpos) →
    OddposP.LabelsDistinct (S.arr.oddpos ++ flatL ys) →
    ∃ T Tb Tm Tbm F', evalL S ys = .ok T ∧ evalL Sb (ys.map braSeg) = .ok Tb
      ∧ evalLM mk k Sm ys = .ok Tm ∧ evalLM mb k Sbm (ys.map braSeg) = .ok Tbm
      ∧ BraInv T Tb ∧ ModeInv T Tm F' ∧ ModeInv Tb Tbm (F'.map Index.conj)
      ∧ (∀ ix ∈ F', (ix.cm.map (·.1)).Nodup)
      ∧ ((lastD S ys).r = [] → T.r = []) := by
  induction ys with
  | nil =>
    intro k S Sb Sm Sbm F H HM HMb hnF _ _ _ _ _ _
    exact ⟨S, Sb, Sm, Sbm, F, rfl, rfl, rfl, rfl, H, HM, HMb, hnF, fun h => h⟩
  | cons y ys ih =>
    intro k S Sb Sm Sbm F H HM HMb hnF hlink hlinkm hlinkb hlinkbm hket hd
    obtain ⟨lk, hy, hrest⟩ := hlink
    obtain ⟨lkm, _, _⟩ := hlinkm
    obtain ⟨lkb, hyb, hrestb⟩ := hlinkb
    obtain ⟨lkbm, _, _⟩ := hlinkbm
    have hyl : y.l.Nodup := (List.nodup_append.mp hy.nd).1
    have hyr : y.r.Nodup := (List.nodup_append.mp hy.nd).2.1
    have W : AdmW S.arr y.arr S.r y.l :=
      ⟨H.v, hy.valid, H.f, hy.fermi, lk.sym, lk.con, H.nr, hyl, H.ltr, hy.ltl⟩
    have hndm : Sm.arr.ndim = S.arr.ndim := HM.pad.ndim
    have Wm : AdmW Sm.arr y.arr S.r y.l :=
      ⟨HM.vm, hy.valid, HM.fm, hy.fermi, lkm.sym, by have := lkm.con; rwa [HM.r] at this, H.nr, hyl,
        fun i hi => hndm ▸ H.ltr i hi, hy.ltl⟩
    have hM : Mid y.arr.ndim y.l y.r := Mid.of hy.nd (by
      intro i hi
      rcases List.mem_append.mp hi with h | h
      · exact hy.ltl i h
      · exact hy.ltr i h)
    have hd' : OddposP.LabelsDistinct ((S.arr.oddpos ++ y.arr.oddpos) ++ flatL ys) := by
      rw [List.append_assoc]; exact hd
    have hd1 : OddposP.LabelsDistinct (S.arr.oddpos ++ y.arr.oddpos) :=
      (List.pairwise_append.mp hd').1
    obtain ⟨K, Kb, eK, eKb, hobs, hKv, hKf, hKbv, hKbf, hk, hs, hdl, I, hperm⟩ :=
      conj_tensordot_spared_w S.arr y.arr S.r y.l y.r W hM H.ket (hket y (List.mem_cons_self ..)) hd1
    have hndb : Sb.arr.ndim = S.arr.ndim := by
      unfold Arr.ndim; rw [H.obs.indices]; exact braOf_ndim S.arr _
    have hndbm : Sbm.arr.ndim = S.arr.ndim := HMb.pad.ndim.trans hndb
    have hB := braOf_admW' W S.r (y.l ++ y.r)
    have econg : Sb.arr.tensordotF (braOf y.arr (y.l ++ y.r))
          (.pair (S.r.map Int.ofNat) (y.l.map Int.ofNat)) .blockwise = .ok Kb := by
      rw [← eKb]
      exact tensordotF_congr H.obs (ObsEq.refl _) (Full.of_valid H.vb H.fb)
        (Full.of_valid hB.va hB.fa) (Full.of_valid hB.vb hB.fb) (Full.of_valid hB.vb hB.fb) _ _
        (by rw [hndb, braOf_ndim]; exact congr_guard _ _ _ _ W.len W.nA W.nB W.ltA W.ltB)
    -- guards of the bra calls
    have Wb : AdmW Sb.arr (braOf y.arr (y.l ++ y.r)) S.r y.l :=
      ⟨H.vb, hyb.valid, H.fb, hyb.fermi, lkb.sym, by have := lkb.con; rwa [H.r] at this, H.nr, hyl,
        fun i hi => hndb ▸ H.ltr i hi, hyb.ltl⟩
    have Wbm : AdmW Sbm.arr (braOf y.arr (y.l ++ y.r)) S.r y.l :=
      ⟨HMb.vm, hyb.valid, HMb.fm, hyb.fermi, lkbm.sym,
        by have := lkbm.con; rwa [HMb.r, H.r] at this, H.nr, hyl,
        fun i hi => hndbm ▸ H.ltr i hi, hyb.ltl⟩
    -- the mode steps
    have HMb' : ModeInv (⟨Sb.arr, Sb.l, S.r⟩ : Seg R) ⟨Sbm.arr, Sbm.l, S.r⟩ (F.map Index.conj) :=
      ⟨HMb.pad, HMb.v, HMb.vm, HMb.f, HMb.fm, HMb.odd, HMb.chg, HMb.l, rfl, HMb.fr, HMb.frm⟩
    obtain ⟨Km, eKm, HMn, _, IKm⟩ := step_mode hz1 hz2 y.arr y.l HM W Wm K eK (mk k) []
      (AssocP.axesAB S.arr.ndim y.arr.ndim S.r y.l y.r)
    obtain ⟨Kbm, eKbm, HMbn, IKb, IKbm⟩ := step_mode hz1 hz2 (braOf y.arr (y.l ++ y.r)) y.l HMb'
      Wb Wbm Kb econg (mb k) [] (AssocP.axesAB S.arr.ndim y.arr.ndim S.r y.l y.r)
    have hFc : without (F.map Index.conj) S.r ++ without (braOf y.arr (y.l ++ y.r)).indices y.l
        = (without F S.r ++ without y.arr.indices y.l).map Index.conj := by
      rw [(braOf_frame y.arr (y.l ++ y.r)).2.2.1, without_map, without_map, List.map_append]
    have HMbn' : ModeInv (⟨Kb, [], AssocP.axesAB S.arr.ndim y.arr.ndim S.r y.l y.r⟩ : Seg R)
        ⟨Kbm, [], AssocP.axesAB S.arr.ndim y.arr.ndim S.r y.l y.r⟩
        ((without F S.r ++ without y.arr.indices y.l).map Index.conj) := by
      have := HMbn; rwa [hFc] at this
    have hnF' : ∀ ix ∈ without F S.r ++ without y.arr.indices y.l, (ix.cm.map (·.1)).Nodup := by
      intro ix hix
      rcases List.mem_append.mp hix with h | h
      · rw [without_eq_permuted_freeAxes] at h; exact hnF ix (mem_permuted h)
      · rw [without_eq_permuted_freeAxes] at h
        exact keys_nodup_of_validB hy.valid ix (mem_permuted h)
    -- the four compositions
    have c1 : S.comp y = .ok ⟨K, [], AssocP.axesAB S.arr.ndim y.arr.ndim S.r y.l y.r⟩ := by
      unfold Seg.comp tdF; rw [eK, H.l]; rfl
    have c2 : Sb.comp (braSeg y) = .ok ⟨Kb, [], AssocP.axesAB S.arr.ndim y.arr.ndim S.r y.l y.r⟩ := by
      unfold Seg.comp tdF braSeg
      simp only []
      rw [H.r, econg, H.lb, hndb, braOf_ndim]; rfl
    have c3 : compM (mk k) Sm y = .ok ⟨Km, [], AssocP.axesAB S.arr.ndim y.arr.ndim S.r y.l y.r⟩ := by
      unfold compM
      rw [HM.r, eKm, HM.l, H.l, hndm]; rfl
    have c4 : compM (mb k) Sbm (braSeg y)
        = .ok ⟨Kbm, [], AssocP.axesAB S.arr.ndim y.arr.ndim S.r y.l y.r⟩ := by
      unfold compM braSeg
      simp only []
      rw [HMb.r, H.r, eKbm, HMb.l, H.lb, hndbm, braOf_ndim]; rfl
    have Hn : BraInv ⟨K, [], AssocP.axesAB S.arr.ndim y.arr.ndim S.r y.l y.r⟩
        ⟨Kb, [], AssocP.axesAB S.arr.ndim y.arr.ndim S.r y.l y.r⟩ :=
      ⟨hKv, hKf, hKbv, hKbf, hobs, rfl, rfl, rfl, ⟨hk, hs⟩, hdl, AssocP.axesAB_nodup hM,
        by show ∀ i ∈ _, i < K.ndim
           rw [I.ndim]; exact AssocP.axesAB_lt hM⟩
    -- links of the next step
    have hlinks : linked (⟨K, [], AssocP.axesAB S.arr.ndim y.arr.ndim S.r y.l y.r⟩ : Seg R) ys
        ∧ linked (⟨Km, [], AssocP.axesAB S.arr.ndim y.arr.ndim S.r y.l y.r⟩ : Seg R) ys
        ∧ linked (⟨Kb, [], AssocP.axesAB S.arr.ndim y.arr.ndim S.r y.l y.r⟩ : Seg R)
            (ys.map braSeg)
        ∧ linked (⟨Kbm, [], AssocP.axesAB S.arr.ndim y.arr.ndim S.r y.l y.r⟩ : Seg R)
            (ys.map braSeg) := by
      cases ys with
      | nil => exact ⟨trivial, trivial, trivial, trivial⟩
      | cons y' ys' =>
        obtain ⟨lk', hy', hrest'⟩ := hrest
        obtain ⟨lkb', hyb', hrestb'⟩ := hrestb
        have Wy : AdmW y.arr y'.arr y.r y'.l :=
          ⟨hy.valid, hy'.valid, hy.fermi, hy'.fermi, lk'.sym, lk'.con, hyr,
            (List.nodup_append.mp hy'.nd).1, hy.ltr, hy'.ltl⟩
        have Wyb := braOf_admW' Wy (y.l ++ y.r) (y'.l ++ y'.r)
        have hMb : Mid (braOf y.arr (y.l ++ y.r)).ndim y.l y.r := by rw [braOf_ndim]; exact hM
        have W2 := admW_left_chain_w I W Wy hM
        have W2m := admW_left_chain_w IKm Wm Wy hM
        have W2b := admW_left_chain_w IKb Wb Wyb hMb
        have W2bm := admW_left_chain_w IKbm Wbm Wyb hMb
        rw [hndm] at W2m
        rw [hndb, braOf_ndim] at W2b
        rw [hndbm, braOf_ndim] at W2bm
        exact ⟨⟨⟨W2.sym, W2.con⟩, hy', hrest'⟩, ⟨⟨W2m.sym, W2m.con⟩, hy', hrest'⟩,
          ⟨⟨W2b.sym, W2b.con⟩, hyb', hrestb'⟩, ⟨⟨W2bm.sym, W2bm.con⟩, hyb', hrestb'⟩⟩
    have hdn : OddposP.LabelsDistinct (K.oddpos ++ flatL ys) :=
      OddposP.LabelsDistinct.perm hd' (List.Perm.append_right _ hperm).symm
    obtain ⟨T, Tb, Tm, Tbm, F', e1, e2, e3, e4, HT, HMT, HMTb, hnT, hr⟩ :=
      ih (k + 1) _ _ _ _ _ Hn HMn HMbn' hnF' hlinks.1 hlinks.2.1 hlinks.2.2.1 hlinks.2.2.2
        (fun z hz => hket z (List.mem_cons_of_mem _ hz)) hdn
    refine ⟨T, Tb, Tm, Tbm, F', ?_, ?_, ?_, ?_, HT, HMT, HMTb, hnT, ?_⟩
    · simp only [evalL, c1]; exact e1
    · simp only [List.map_cons, evalL, c2]; exact e2
    · simp only [evalLM, c3]; exact e3
    · simp only [List.map_cons, evalLM, c4]; exact e4
    · intro hl
      apply hr
      exact lastD_r_nil _ y ys (fun h => by show AssocP.axesAB _ _ _ _ y.r = []; rw [h]; rfl) hl

/-- the conclusion of `network_norm_chainM` -/
def ChainNormM (S : Seg R) (ys : List (Seg R)) (mk mb : Nat → TdotMode) (m1 m2 : TdotMode) : Prop :=
  ∃ T Tm Tbm, evalL S ys = .ok T ∧ evalLM mk 0 S ys = .ok Tm
    ∧ evalLM mb 0 (braSeg S) (ys.map braSeg) = .ok Tbm
    ∧ (∃ r, Tbm.arr.tensordotF Tm.arr (allAxes T.arr.ndim) m1 = .ok r
        ∧ r.ndim = 0 ∧ r.oddpos = [] ∧ r.elem [] [] = normSq T.arr)
    ∧ (∃ r, Tm.arr.tensordotF Tbm.arr (allAxes T.arr.ndim) m2 = .ok r
        ∧ r.ndim = 0 ∧ r.oddpos = [] ∧ r.elem [] [] = normSq' T.arr)

/-- **the norm of a chain of any length with every call in any mode** -/
theorem network_norm_chainM (hz1 : ∀ x : R, 0 * x = 0) (hz2 : ∀ x : R, x * 0 = 0)
    (mk mb : Nat → TdotMode) (m1 m2 : TdotMode)
    (S : Seg R) (ys : List (Seg R)) (hS : LeafOK S) (hl : S.l = [])
    (hlink : linked S ys) (hlast : (lastD S ys).r = [])
    (hketS : KetLabels S.arr.oddpos) (hket : ∀ y ∈ ys, KetLabels y.arr.oddpos)
    (hd : OddposP.LabelsDistinct (S.arr.oddpos ++ flatL ys)) : ChainNormM S ys mk mb m1 m2 := by
  have H0 : BraInv S (braSeg S) :=
    ⟨hS.valid, hS.fermi, braOf_valid _ _ hS.valid hS.fermi, braOf_fermi _ _ hS.fermi,
      by show ObsEq (braOf S.arr (S.l ++ S.r)) (braOf S.arr S.r)
         rw [hl, List.nil_append]; exact ObsEq.refl _,
      hl, hl, rfl, hketS, (List.pairwise_append.mp hd).1, (List.nodup_append.mp hS.nd).2.1, hS.ltr⟩
  have hbS := braSeg_leafOK' hS
  have hlb := braSeg_linked' ys S hS hlink
  have M0 : ModeInv S S S.arr.indices :=
    ModeInv.refl hS.valid hS.fermi (forall₂_sizeLe_refl _)
  have M0b : ModeInv (braSeg S) (braSeg S) (S.arr.indices.map Index.conj) :=
    ModeInv.refl hbS.valid hbS.fermi (by
      show List.Forall₂ SizeLe (braOf S.arr (S.l ++ S.r)).indices _
      rw [(braOf_frame S.arr (S.l ++ S.r)).2.2.1]; exact forall₂_sizeLe_refl _)
  obtain ⟨T, Tb, Tm, Tbm, F', e1, e2, e3, e4, HT, HMT, HMTb, hnF, hr⟩ :=
    chain_conjM hz1 hz2 mk mb ys 0 S (braSeg S) S (braSeg S) S.arr.indices H0 M0 M0b
      (keys_nodup_of_validB hS.valid) hlink hlink hlb hlb hket hd
  have hobs : ObsEq Tb.arr (T.arr.conjF true true) := by
    have := HT.obs
    rw [hr hlast] at this
    exact this.trans (conjF_obs_braOf T.arr [] (SignOk.of_valid HT.v HT.f) (fun _ h => nomatch h)).symm
  obtain ⟨r, r', hnd, q1, q2, q3, q4, g1, g2, g3, g4⟩ :=
    norm_of_obs HT.v HT.f HT.vb HT.fb hobs HT.ket.1 HT.ket.2 HT.dl
  -- the guards of the final calls
  have nFc := nodup_keys_conj hnF
  have hn : T.arr.ndim = F'.length := HMT.fr.length_eq
  have hnc : (F'.map Index.conj).length = F'.length := List.length_map _
  have ndm : Tm.arr.ndim = F'.length := HMT.frm.length_eq
  have ndb : Tb.arr.ndim = F'.length := HMTb.fr.length_eq.trans hnc
  have ndbm : Tbm.arr.ndim = F'.length := HMTb.frm.length_eq.trans hnc
  have ltR : ∀ (Y : Arr R), Y.ndim = F'.length → ∀ i ∈ List.range F'.length, i < Y.ndim := by
    intro Y hY i hi; rw [hY]; exact List.mem_range.mp hi
  have sTb : Tb.arr.sym = T.arr.sym := hobs.sym.trans (conjF_frame T.arr true true).1
  have sm : Tbm.arr.sym = Tm.arr.sym := by rw [HMTb.pad.sym, HMT.pad.sym, sTb]
  have c1q := full_common HMTb.fr HMT.fr (forall₂_opp_conj F') (keys_nodup_of_validB HT.vb) hnF
  have c1p := full_common HMTb.frm HMT.frm (forall₂_opp_conj F') (keys_nodup_of_validB HMTb.vm) hnF
  have c2q := full_common HMT.fr HMTb.fr (forall₂_opp_conj' F') (keys_nodup_of_validB HT.v) nFc
  have c2p := full_common HMT.frm HMTb.frm (forall₂_opp_conj' F') (keys_nodup_of_validB HMT.vm) nFc
  rw [hnc] at c2q c2p
  have Wq1 : AdmW Tb.arr T.arr (List.range F'.length) (List.range F'.length) :=
    ⟨HT.vb, HT.v, HT.fb, HT.f, sTb, c1q, List.nodup_range, List.nodup_range, ltR _ ndb, ltR _ hn⟩
  have Wp1 : AdmW Tbm.arr Tm.arr (List.range F'.length) (List.range F'.length) :=
    ⟨HMTb.vm, HMT.vm, HMTb.fm, HMT.fm, sm, c1p, List.nodup_range, List.nodup_range, ltR _ ndbm,
      ltR _ ndm⟩
  have Wq2 : AdmW T.arr Tb.arr (List.range F'.length) (List.range F'.length) :=
    ⟨HT.v, HT.vb, HT.f, HT.fb, sTb.symm, c2q, List.nodup_range, List.nodup_range, ltR _ hn,
      ltR _ ndb⟩
  have Wp2 : AdmW Tm.arr Tbm.arr (List.range F'.length) (List.range F'.length) :=
    ⟨HMT.vm, HMTb.vm, HMT.fm, HMTb.fm, sm.symm, c2p, List.nodup_range, List.nodup_range,
      ltR _ ndm, ltR _ ndbm⟩
  rw [hn] at q1 g1
  refine ⟨T, Tm, Tbm, e1, e3, e4, ?_, ?_⟩
  · rw [hn]
    obtain ⟨zf, ezf, pzf, ozf, _⟩ := pad_blockwise hz1 hz2 HMTb.pad HMT.pad Wp1 Wq1 HMTb.odd
      HMTb.chg HMT.odd HMT.chg r q1
    obtain ⟨rm, erm, prm, _, orm, _⟩ := call_any hz1 hz2 Tbm.arr Tm.arr _ _ Wp1 m1 zf ezf
    have nrm : rm.ndim = 0 := prm.ndim.trans (pzf.ndim.trans q2)
    exact ⟨rm, erm, nrm, by rw [orm, ozf, q3],
      by rw [pad_elem_nil prm nrm, pad_elem_nil pzf (pzf.ndim.trans q2), q4]⟩
  · rw [hn]
    obtain ⟨zf, ezf, pzf, ozf, _⟩ := pad_blockwise hz1 hz2 HMT.pad HMTb.pad Wp2 Wq2 HMT.odd
      HMT.chg HMTb.odd HMTb.chg r' g1
    obtain ⟨rm, erm, prm, _, orm, _⟩ := call_any hz1 hz2 Tm.arr Tbm.arr _ _ Wp2 m2 zf ezf
    have nrm : rm.ndim = 0 := prm.ndim.trans (pzf.ndim.trans g2)
    exact ⟨rm, erm, nrm, by rw [orm, ozf, g3],
      by rw [pad_elem_nil prm nrm, pad_elem_nil pzf (pzf.ndim.trans g2), g4]⟩

end nchainM

end SymmModel.NormNet
